#!/usr/bin/env python3
"""vp.py -- driver library for the solver-based (CBMC) checks of lcdb.

One *obligation* = one harness + the real lcdb translation units it links +
models from /verif/kit + one concrete size tuple (-DVP_... for the harness TU
only) + loop bounds.  Every obligation is rebuilt from /repo's working tree
with goto-cc on every run and decided by one CBMC run (all properties, with
unwinding assertions).  The harness' VP_WITNESS() assertions are reachability
witnesses and must come back FAILED; everything else must come back SUCCESS.

See /verif/DESIGN.md sections 2 and 9.
"""
import concurrent.futures as cf
import hashlib
import json
import os
import random
import re
import resource
import shutil
import subprocess
import sys
import threading
import time

VERIF = os.path.dirname(os.path.dirname(os.path.abspath(__file__)))
REPO = os.environ.get("VERIF_REPO", "/repo")
SRC = os.path.join(REPO, "src")
KIT = os.path.join(VERIF, "kit")
HARN = os.path.join(VERIF, "harness")

# flags of the pinned build (CMake RelWithDebInfo), see DESIGN section 1
REAL_CFLAGS = ["-std=c90", "-D_GNU_SOURCE", "-DLDB_PTHREAD", "-DNDEBUG",
               "-I" + os.path.join(REPO, "include"), "-I" + SRC,
               "-I" + os.path.join(SRC, "util"), "-I" + os.path.join(SRC, "table")]
GUARD = "CHJJ_LCDB_VERIF"

CBMC_BASE = ["--unwinding-assertions", "--pointer-overflow-check",
             "--signed-overflow-check", "--undefined-shift-check",
             "--drop-unused-functions", "--no-malloc-may-fail", "--json-ui",
             "--verbosity", "8"]
# --conversion-check is removed per obligation where the real code narrows on
# purpose (see Obl.no_conversion_check)


class Obl(object):
    """One obligation.  See module docstring."""

    def __init__(self, name, harness, real=(), kit=(), defs=None, real_defs=None,
                 unwind=None, unwindset=None, restrict_fp=(), replace_calls=(),
                 flags=(), timeout=600, mem_gb=12, tier="quick", desc="",
                 object_bits=None, known=None, functions=(), include_real=(),
                 no_flags=(), remove_bodies=(), entry="harness", guard=False,
                 sat=None, bounds="", replay=True, cost=0,
                 unwind_is_violation=False):
        self.name = name
        self.harness = harness              # path under /verif/harness
        self.real = list(real)              # real TUs (paths under /repo/src)
        self.include_real = list(include_real)  # real TUs #included by harness
        self.kit = list(kit)                # kit TUs (paths under /verif/kit)
        self.defs = dict(defs or {})        # -D for the harness TU only
        self.real_defs = dict(real_defs or {})  # extra -D for real TUs
        self.unwind = unwind
        self.unwindset = dict(unwindset or {})
        self.restrict_fp = list(restrict_fp)
        self.replace_calls = list(replace_calls)
        self.remove_bodies = list(remove_bodies)
        self.flags = list(flags)
        self.no_flags = list(no_flags)
        self.timeout = timeout
        self.mem_gb = mem_gb
        self.tier = tier
        self.desc = desc
        self.object_bits = object_bits
        self.known = known                  # fingerprint of a known finding
        self.functions = list(functions)    # real functions encoded (evidence)
        self.entry = entry
        self.guard = guard                  # compile real TUs with the hook guard
        self.sat = sat
        self.bounds = bounds
        self.replay = replay
        self.cost = cost or timeout
        # termination within the bound is part of the property (decoders):
        # an unwinding-assertion failure is then a counterexample, not a broken check
        self.unwind_is_violation = unwind_is_violation

    def size_tuple(self):
        return ",".join("%s=%s" % (k, v) for k, v in sorted(self.defs.items()))


class Result(object):
    def __init__(self, obl):
        self.obl = obl
        self.status = "error"   # pass | fail | known | inconclusive | broken | error
        self.detail = ""
        self.props_total = 0
        self.props_ok = 0
        self.witness_total = 0
        self.witness_ok = 0
        self.failed = []        # list of (property id, description)
        self.solver_s = 0.0
        self.wall_s = 0.0
        self.rss_mb = 0
        self.build_s = 0.0
        self.vccs = 0
        self.steps = 0
        self.variables = 0
        self.clauses = 0
        self.replay_path = None
        self.replay_status = None
        self.functions = []


_real_lock = threading.Lock()
_real_cache = {}


def _run(cmd, timeout=None, mem_gb=None, cwd=None, env=None, out=None):
    # no preexec_fn: with 16 driver threads fork+preexec serialises badly;
    # the memory limit is applied by a tiny sh wrapper instead
    if mem_gb:
        cmd = ["sh", "-c", "ulimit -v %d; exec \"$@\"" % int(mem_gb * 1024 * 1024), "sh"] + list(cmd)
    t0 = time.time()
    stdout = open(out, "wb") if out else subprocess.PIPE
    try:
        p = subprocess.Popen(cmd, stdout=stdout, stderr=subprocess.PIPE,
                             start_new_session=True, cwd=cwd, env=env)
        try:
            so, se = p.communicate(timeout=timeout)
            rc = p.returncode
        except subprocess.TimeoutExpired:
            try:
                os.killpg(p.pid, 9)
            except OSError:
                pass
            so, se = p.communicate()
            rc = -999
    finally:
        if out:
            stdout.close()
    return rc, (so or b""), (se or b""), time.time() - t0


def goto_cc_real(scratch, path, real_defs, guard):
    """Compile a real TU from /repo/src once per (path, defs) per run."""
    key = (path, tuple(sorted(real_defs.items())), guard)
    with _real_lock:
        ent = _real_cache.get(key)
        if ent is None:
            ent = {"lock": threading.Lock(), "out": None, "err": None}
            _real_cache[key] = ent
    with ent["lock"]:
        if ent["out"] or ent["err"]:
            return ent["out"], ent["err"]
        h = hashlib.sha1(repr(key).encode()).hexdigest()[:10]
        out = os.path.join(scratch, "real_%s_%s.gb" % (os.path.basename(path).replace(".", "_"), h))
        cmd = ["goto-cc", "-c"] + REAL_CFLAGS
        if guard:
            cmd.append("-D" + GUARD)
        for k, v in sorted(real_defs.items()):
            cmd.append("-D%s=%s" % (k, v) if v is not None else "-D%s" % k)
        cmd += [os.path.join(SRC, path), "-o", out]
        rc, so, se, _ = _run(cmd, timeout=300)
        if rc != 0:
            ent["err"] = "goto-cc failed for %s:\n%s" % (path, (se or so).decode(errors="replace")[-3000:])
        else:
            ent["out"] = out
        return ent["out"], ent["err"]


def build(obl, scratch, odir):
    """Build the goto binary for one obligation.  Returns (path, err)."""
    objs = []
    for r in obl.real:
        o, err = goto_cc_real(scratch, r, obl.real_defs, obl.guard)
        if err:
            return None, err
        objs.append(o)
    hdefs = ["-DVP_CBMC"]
    for k, v in sorted(obl.defs.items()):
        hdefs.append("-D%s=%s" % (k, v) if v is not None else "-D%s" % k)
    if obl.guard:
        hdefs.append("-D" + GUARD)
    # real_defs also apply to a harness that #includes real code
    for k, v in sorted(obl.real_defs.items()):
        hdefs.append("-D%s=%s" % (k, v) if v is not None else "-D%s" % k)
    srcs = [os.path.join(HARN, obl.harness)] + [os.path.join(KIT, k) for k in obl.kit]
    for i, s in enumerate(srcs):
        o = os.path.join(odir, "h%d.gb" % i)
        cmd = ["goto-cc", "-c"] + REAL_CFLAGS + ["-I" + KIT, "-I" + HARN] + hdefs + [s, "-o", o]
        rc, so, se, _ = _run(cmd, timeout=300)
        if rc != 0:
            return None, "goto-cc failed for %s:\n%s" % (s, (se or so).decode(errors="replace")[-3000:])
        objs.append(o)
    out = os.path.join(odir, "linked.gb")
    rc, so, se, _ = _run(["goto-cc"] + objs + ["-o", out], timeout=300)
    if rc != 0:
        return None, "goto-cc link failed:\n%s" % (se or so).decode(errors="replace")[-3000:]
    cur = out
    step = 0
    if obl.remove_bodies:
        nxt = os.path.join(odir, "gi%d.gb" % step)
        step += 1
        cmd = ["goto-instrument"]
        for f in obl.remove_bodies:
            cmd += ["--remove-function-body", f]
        rc, so, se, _ = _run(cmd + [cur, nxt], timeout=300)
        if rc != 0:
            return None, "goto-instrument --remove-function-body failed:\n%s" % (se or so).decode(errors="replace")[-2000:]
        cur = nxt
    if obl.replace_calls:
        nxt = os.path.join(odir, "gi%d.gb" % step)
        step += 1
        cmd = ["goto-instrument"]
        for rcall in obl.replace_calls:
            cmd += ["--replace-calls", rcall]
        rc, so, se, _ = _run(cmd + [cur, nxt], timeout=300)
        if rc != 0:
            return None, "goto-instrument --replace-calls failed:\n%s" % (se or so).decode(errors="replace")[-2000:]
        cur = nxt
    if obl.restrict_fp:
        nxt = os.path.join(odir, "gi%d.gb" % step)
        step += 1
        cmd = ["goto-instrument"]
        for r in obl.restrict_fp:
            # "site/targets" (labelled call site fn.function_pointer_call.N) or
            # "name:sym/targets" (by name, e.g. a function-pointer parameter fn::param)
            if r.startswith("name:"):
                cmd += ["--restrict-function-pointer-by-name", r[5:]]
            else:
                cmd += ["--restrict-function-pointer", r]
        rc, so, se, _ = _run(cmd + [cur, nxt], timeout=300)
        if rc != 0:
            return None, "goto-instrument --restrict-function-pointer failed:\n%s" % (se or so).decode(errors="replace")[-2000:]
        cur = nxt
    return cur, None


def cbmc_cmd(obl, binary, extra=()):
    flags = [f for f in CBMC_BASE if f not in obl.no_flags]
    cmd = ["cbmc", binary, "--function", obl.entry] + flags
    if obl.unwind is not None:
        cmd += ["--unwind", str(obl.unwind)]
    if obl.unwindset:
        cmd += ["--unwindset", ",".join("%s:%d" % (k, v) for k, v in sorted(obl.unwindset.items()))]
    if obl.object_bits:
        cmd += ["--object-bits", str(obl.object_bits)]
    if obl.sat:
        if obl.sat == "kissat":
            cmd += ["--external-sat-solver", "kissat"]
        else:
            cmd += ["--sat-solver", obl.sat]
    # formula slicing drops input assignments from --trace (the replay would
    # then consume values out of step): never slice the trace re-run
    cmd += [f for f in obl.flags if not ("--trace" in extra and f == "--slice-formula")]
    cmd += list(extra)
    return cmd


def parse_cbmc_json(raw):
    """Return (results list or None, stats dict, error text)."""
    try:
        msgs = json.loads(raw.decode(errors="replace"))
    except Exception as e:  # truncated output (killed)
        txt = raw.decode(errors="replace")
        return None, {}, "unparsable cbmc output: %s ... %s" % (e, txt[-400:])
    results = None
    stats = {}
    errs = []
    for m in msgs:
        if not isinstance(m, dict):
            continue
        if "result" in m:
            results = m["result"]
        if m.get("messageType") == "ERROR":
            errs.append(m.get("messageText", ""))
        t = m.get("messageText", "")
        if isinstance(t, str):
            mm = re.search(r"Generated (\d+) VCC\(s\), (\d+) remaining", t)
            if mm:
                stats["vccs"] = int(mm.group(1))
                stats["vccs_remaining"] = int(mm.group(2))
            mm = re.search(r"size of program expression: (\d+) steps", t)
            if mm:
                stats["steps"] = int(mm.group(1))
            mm = re.search(r"(\d+) variables, (\d+) clauses", t)
            if mm:
                stats["variables"] = max(stats.get("variables", 0), int(mm.group(1)))
                stats["clauses"] = max(stats.get("clauses", 0), int(mm.group(2)))
            mm = re.search(r"Runtime (?:decision procedure|Solver): ([0-9.]+)s", t)
            if mm:
                stats["solver_s"] = stats.get("solver_s", 0.0) + float(mm.group(1))
            mm = re.search(r"Runtime Symex: ([0-9.]+)s", t)
            if mm:
                stats["symex_s"] = float(mm.group(1))
    return results, stats, "\n".join(errs)


def classify(results):
    """Split the per-property verdicts of one CBMC run."""
    wit_ok = wit_bad = 0
    ok = 0
    unwind_fail = []
    fails = []
    for r in results:
        desc = r.get("description", "")
        st = r.get("status", "")
        pid = r.get("property", "")
        if desc.startswith("vp-witness:"):
            if st == "FAILURE":
                wit_ok += 1
            else:
                wit_bad += 1
            continue
        if st == "SUCCESS":
            ok += 1
        elif st not in ("FAILURE",):
            # ERROR / UNKNOWN: the solver gave no verdict (e.g. out of memory)
            unwind_fail.append((pid, "vp-inconclusive: solver status %s for: %s" % (st, desc)))
        elif ".unwind." in pid or "unwinding assertion" in desc or ".recursion" in pid:
            unwind_fail.append((pid, desc))
        elif desc.startswith("vp-model:"):
            unwind_fail.append((pid, desc))
        else:
            fails.append((pid, desc, st))
    return ok, fails, unwind_fail, wit_ok, wit_bad


def extract_trace_values(raw):
    """Ordered values returned by the vp_u8/vp_u32/... input functions in a
    CBMC --trace --json-ui output, plus a short human-readable trace."""
    try:
        msgs = json.loads(raw.decode(errors="replace"))
    except Exception:
        return None, [], None
    for m in msgs:
        if isinstance(m, dict) and "result" in m:
            for r in m["result"]:
                if r.get("status") == "FAILURE" and "trace" in r and \
                        not r.get("description", "").startswith("vp-witness:"):
                    vals = []
                    human = []
                    for s in r["trace"]:
                        if s.get("stepType") == "assignment":
                            if s.get("hidden"):
                                continue   # declaration step (value 0), not the nondet value
                            lhs = s.get("lhs", "")
                            fn = (s.get("sourceLocation") or {}).get("function", "")
                            v = s.get("value", {})
                            if lhs == "vpv" and fn.startswith("vp_"):
                                data = v.get("data")
                                b = v.get("binary")
                                if b is not None:
                                    vals.append(int(b, 2))
                                elif data is not None:
                                    try:
                                        vals.append(int(str(data).rstrip("ulUL")) & ((1 << 64) - 1))
                                    except ValueError:
                                        vals.append(0)
                        elif s.get("stepType") == "failure":
                            human.append("FAIL %s @ %s:%s" % (s.get("reason"), (s.get("sourceLocation") or {}).get("file"), (s.get("sourceLocation") or {}).get("line")))
                    return r, vals, human
    return None, [], None


def native_replay(obl, vals, odir, label, detect_leaks=False):
    """Compile the same harness natively (gcc, ASan+UBSan) against the real
    sources and run it on the counterexample's input values."""
    exe = os.path.join(odir, "replay_" + label)
    valfile = os.path.join(odir, "values_" + label + ".txt")
    with open(valfile, "w") as f:
        f.write("\n".join(str(v) for v in vals) + "\n")
    cflags = ["-std=gnu99", "-D_GNU_SOURCE", "-DLDB_PTHREAD", "-DNDEBUG", "-DVP_REPLAY",
              "-g", "-O0", "-fsanitize=address,undefined", "-fno-sanitize-recover=undefined",
              "-fno-omit-frame-pointer", "-w", "-ffunction-sections", "-fdata-sections",
              "-Wl,--gc-sections", "-Wl,--unresolved-symbols=ignore-all", "-no-pie",
              "-I" + os.path.join(REPO, "include"), "-I" + SRC, "-I" + os.path.join(SRC, "util"),
              "-I" + os.path.join(SRC, "table"), "-I" + KIT, "-I" + HARN]
    for k, v in sorted(list(obl.defs.items()) + list(obl.real_defs.items())):
        cflags.append("-D%s=%s" % (k, v) if v is not None else "-D%s" % k)
    if obl.guard:
        cflags.append("-D" + GUARD)
    srcs = [os.path.join(HARN, obl.harness)] + [os.path.join(KIT, k) for k in obl.kit] + \
           [os.path.join(SRC, r) for r in obl.real] + [os.path.join(KIT, "vp_replay_main.c")]
    rc, so, se, _ = _run(["gcc"] + cflags + srcs + ["-o", exe, "-lpthread"], timeout=300)
    if rc != 0:
        return "replay-build-failed", (se or so).decode(errors="replace")[-2000:], valfile
    env = dict(os.environ)
    env["VP_REPLAY_VALUES"] = valfile
    env["ASAN_OPTIONS"] = "detect_leaks=%d:abort_on_error=0" % (1 if detect_leaks else 0)
    rc, so, se, _ = _run([exe], timeout=120, env=env)
    out = (so + b"\n" + se).decode(errors="replace")
    if rc == 42:
        return "reproduced", out[-1500:], valfile
    if rc == 77:
        return "assumption-not-met", out[-1500:], valfile
    if rc != 0:
        return "reproduced-sanitizer" if ("Sanitizer" in out or "runtime error" in out) else "crashed", out[-3000:], valfile
    return "not-reproduced", out[-1500:], valfile


def run_obligation(obl, scratch, keep=False):
    res = Result(obl)
    t0 = time.time()
    odir = os.path.join(scratch, re.sub(r"[^A-Za-z0-9_.-]", "_", obl.name))
    os.makedirs(odir, exist_ok=True)
    binary, err = build(obl, scratch, odir)
    res.build_s = time.time() - t0
    if err:
        res.status = "error"
        res.detail = err
        res.wall_s = time.time() - t0
        return res
    timefile = os.path.join(odir, "time.txt")
    cmd = ["/usr/bin/time", "-f", "%e %M", "-o", timefile] + cbmc_cmd(obl, binary)
    outf = os.path.join(odir, "cbmc.json")
    tmo = min(obl.timeout, int(os.environ.get("VERIF_TIMEOUT_CAP", "0") or 0) or obl.timeout)
    rc, so, se, wall = _run(cmd, timeout=tmo, mem_gb=obl.mem_gb, out=outf)
    try:
        with open(timefile) as f:
            last = f.read().strip().splitlines()[-1].split()
            res.rss_mb = int(last[1]) // 1024
    except Exception:
        pass
    raw = open(outf, "rb").read()
    res.wall_s = time.time() - t0
    if rc == -999:
        res.status = "inconclusive"
        res.detail = "timeout after %ds" % tmo
        return res
    results, stats, errtxt = parse_cbmc_json(raw)
    res.solver_s = stats.get("solver_s", 0.0)
    res.vccs = stats.get("vccs", 0)
    res.steps = stats.get("steps", 0)
    res.variables = stats.get("variables", 0)
    res.clauses = stats.get("clauses", 0)
    if results is None:
        low = (errtxt + se.decode(errors="replace")).lower()
        if "out of memory" in low or "bad_alloc" in low or rc in (-9, -6, 134, 137):
            res.status = "inconclusive"
            res.detail = "out of memory (limit %d GB) rc=%s" % (obl.mem_gb, rc)
        else:
            res.status = "error"
            res.detail = "cbmc rc=%s: %s %s" % (rc, errtxt[-1500:], se.decode(errors="replace")[-800:])
        return res
    ok, fails, unwind_fail, wit_ok, wit_bad = classify(results)
    if obl.unwind_is_violation:
        # termination inside the stated bound is part of the property
        keep_u = []
        for (p, d) in unwind_fail:
            if d.startswith("vp-model:") or d.startswith("vp-inconclusive:"):
                keep_u.append((p, d))
            else:
                fails.append((p, "does not terminate within the stated bound: " + d, "FAILURE"))
        unwind_fail = keep_u
    res.props_total = ok + len(fails) + len(unwind_fail)
    res.props_ok = ok
    res.witness_total = wit_ok + wit_bad
    res.witness_ok = wit_ok
    res.failed = [(p, d) for (p, d, s) in fails]
    if fails:
        res.status = "fail"
        res.detail = "; ".join("%s [%s]" % (d, p) for p, d, s in fails[:6])
        # counterexample: re-run for the first failing property with a trace
        pid = fails[0][0]
        tcmd = cbmc_cmd(obl, binary, extra=["--trace", "--property", pid])
        toutf = os.path.join(odir, "trace.json")
        _run(tcmd, timeout=obl.timeout, mem_gb=obl.mem_gb, out=toutf)
        traw = open(toutf, "rb").read()
        r, vals, human = extract_trace_values(traw)
        res.trace_values = vals
        res.trace_human = human
        res.trace_file = toutf
        if obl.replay and r is not None:
            st, out, valfile = native_replay(obl, vals, odir, "cex", detect_leaks=("memory-leak" in pid))
            res.replay_status = st
            res.replay_output = out
        else:
            res.replay_status = "no-trace" if r is None else "replay-disabled"
            res.replay_output = ""
        if not keep:
            shutil.rmtree(odir, ignore_errors=True)
        return res
    if unwind_fail:
        res.status = "broken"
        res.detail = "bound too small / model limit hit (the check, not the code, is at fault): " + \
                     "; ".join("%s [%s]" % (d, p) for p, d in unwind_fail[:6])
        return res
    if wit_bad or res.witness_total == 0:
        res.status = "broken"
        res.detail = "reachability witness not violated (%d of %d reached): harness is vacuous" % (wit_ok, res.witness_total)
        return res
    if res.props_total == 0:
        res.status = "broken"
        res.detail = "no properties were checked"
        return res
    res.status = "pass"
    if not keep:
        shutil.rmtree(odir, ignore_errors=True)
    return res


def load_known(prop):
    known, fixed = [], []
    path = os.path.join(VERIF, "known_findings.txt")
    if os.path.exists(path):
        for line in open(path):
            line = line.strip()
            if not line or line.startswith("#"):
                continue
            m = re.match(r"(known|fixed):\s+property=(\S+)\s+(.*)", line)
            if m and m.group(2) == prop:
                (known if m.group(1) == "known" else fixed).append(m.group(3))
    return known, fixed


def run_property(prop, spec, tier, seed, only=None, keep=False, jobs=None):
    """spec: module with OBLIGATIONS (list of Obl), META (dict)."""
    t0 = time.time()
    jobs = jobs or int(os.environ.get("VERIF_JOBS", "16"))
    scratch = os.environ.get("VERIF_SCRATCH") or "/var/tmp/lcdb-verif.%d" % os.getpid()
    os.makedirs(scratch, exist_ok=True)
    obls = [o for o in spec.OBLIGATIONS if tier == "thorough" or o.tier == "quick"]
    # thorough-only obligations run only once they have been validated to finish
    # and pass on the unchanged tree (obl/thorough_validated.json, written by
    # tools/validate_thorough.py); VERIF_THOROUGH_ALL=1 runs every configured one
    if tier == "thorough" and not os.environ.get("VERIF_THOROUGH_ALL"):
        try:
            allow = json.load(open(os.path.join(VERIF, "obl", "thorough_validated.json"))).get(prop)
        except Exception:
            allow = None
        if allow is not None:
            allow = set(allow)
            obls = [o for o in obls if o.tier == "quick" or o.name in allow]
    if only:
        obls = [o for o in obls if re.search(only, o.name)]
    rnd = random.Random(seed)
    order = list(obls)
    # longest first (by timeout as a proxy), ties shuffled by seed
    rnd.shuffle(order)
    order.sort(key=lambda o: -getattr(o, "cost", 0))
    known, fixed = load_known(prop)
    results = []
    try:
        with cf.ThreadPoolExecutor(max_workers=jobs) as ex:
            futs = {ex.submit(run_obligation, o, scratch, keep): o for o in order}
            for f in cf.as_completed(futs):
                r = f.result()
                results.append(r)
                sys.stderr.write("[%s] %-50s %-12s props=%d/%d wit=%d/%d solver=%.1fs wall=%.1fs rss=%dMB %s\n" % (
                    prop, r.obl.name, r.status, r.props_ok, r.props_total, r.witness_ok,
                    r.witness_total, r.solver_s, r.wall_s, r.rss_mb,
                    (r.detail[:300] if r.status != "pass" else "")))
                sys.stderr.flush()
        results.sort(key=lambda r: r.obl.name)
        return finish(prop, spec, tier, seed, results, known, time.time() - t0, partial=bool(only))
    finally:
        if not keep:
            shutil.rmtree(scratch, ignore_errors=True)


def finish(prop, spec, tier, seed, results, known, wall, partial=False):
    violations = 0
    known_hits = []
    broken = []
    unconfirmed = []
    lines = []
    os.makedirs(os.path.join(VERIF, "replays"), exist_ok=True)
    for r in results:
        if r.status == "fail":
            fp = r.obl.known
            if fp is not None and any(fp == k.split()[0] or fp in k for k in known):
                # a listed finding: only if *every* failing assertion of this
                # obligation carries the finding's tag
                tag = "vp:KF:" + fp
                if all(d.startswith(tag) for (_, d) in r.failed):
                    r.status = "known"
                    known_hits.append(r)
                    continue
            if r.replay_status == "not-reproduced":
                # the solver's counterexample ran through the natively built
                # real code without tripping the assertion or a sanitizer:
                # either standard-level UB no sanitizer sees (pointer
                # overflow) or a model artefact -- reported separately,
                # never as VIOLATION (DESIGN section 9)
                unconfirmed.append(r)
                continue
            violations += 1
            h = hashlib.sha1((r.obl.name + repr(getattr(r, "trace_values", []))).encode()).hexdigest()[:10]
            path = os.path.join(VERIF, "replays", "%s-%s-%s.json" % (prop, re.sub(r"[^A-Za-z0-9_.-]", "_", r.obl.name), h))
            with open(path, "w") as f:
                json.dump({
                    "property": prop, "obligation": r.obl.name, "harness": r.obl.harness,
                    "defs": r.obl.defs, "failed": r.failed, "values": getattr(r, "trace_values", []),
                    "trace": getattr(r, "trace_human", []),
                    "native_replay": r.replay_status, "native_output": getattr(r, "replay_output", ""),
                    "how": "./check %s --replay %s" % (prop, path)}, f, indent=1)
            r.replay_path = path
            lines.append("VIOLATION property=%s replay=%s" % (prop, path))
            sys.stderr.write("  counterexample for %s: %s | native replay: %s\n" % (r.obl.name, r.detail[:400], r.replay_status))
        elif r.status in ("broken", "inconclusive", "error"):
            broken.append(r)
    for r in known_hits:
        lines.append("KNOWN-FINDING: property=%s %s (obligation %s; native replay: %s)" % (prop, r.obl.known, r.obl.name, r.replay_status))
    # a known finding that no longer reproduces is worth a note, not an alarm
    write_evidence(prop, spec, tier, seed, results, wall, violations, known_hits, broken, partial)
    for l in lines:
        print(l)
    for r in unconfirmed:
        print("UNCONFIRMED property=%s obligation=%s solver counterexample did not reproduce on the native build: %s" % (
            prop, r.obl.name, r.detail[:400].replace("\n", " ")))
        broken.append(r)
    for r in broken:
        if r in unconfirmed:
            continue
        print("CHECK-BROKEN property=%s obligation=%s status=%s %s" % (prop, r.obl.name, r.status, r.detail[:500].replace("\n", " ")))
    npass = sum(1 for r in results if r.status == "pass")
    print("SUMMARY property=%s tier=%s obligations=%d pass=%d known=%d violations=%d broken=%d wall=%.1fs" % (
        prop, tier, len(results), npass, len(known_hits), violations, len(broken), wall))
    sys.stdout.flush()
    if violations or broken or not results:
        return 1
    return 0


def write_evidence(prop, spec, tier, seed, results, wall, violations, known_hits, broken, partial):
    meta = getattr(spec, "META", {})
    level = meta.get("level", "model_checking")
    queries = []
    for r in results:
        queries.append({
            "obligation": r.obl.name, "harness": r.obl.harness, "sizes": r.obl.defs,
            "asserts": r.obl.desc, "verdict": r.status,
            "properties_checked": r.props_total, "properties_successful": r.props_ok,
            "witnesses_reached": "%d/%d" % (r.witness_ok, r.witness_total),
            "unwind": r.obl.unwind, "unwindset": r.obl.unwindset,
            "solver_s": round(r.solver_s, 2), "wall_s": round(r.wall_s, 2), "rss_mb": r.rss_mb,
            "program_steps": r.steps, "vccs": r.vccs, "sat_variables": r.variables,
            "sat_clauses": r.clauses, "backend": r.obl.sat or "minisat(default)",
            "real_units": r.obl.real + r.obl.include_real,
        })
    npass = sum(1 for r in results if r.status == "pass")
    funcs = sorted(set(f for r in results for f in r.obl.functions))
    units = sorted(set(u for r in results for u in (r.obl.real + r.obl.include_real)))
    harnesses = sorted(set(r.obl.harness for r in results))
    sample_objs = [q for q in queries][:6]
    ev = {
        "property_id": prop,
        "tier": tier,
        "seed": seed,
        "level": level,
        "wall_s": round(wall, 2),
        "violations": violations,
        "assumptions": meta.get("assumptions", []) + [
            "CBMC 6.11 bit-precise semantics of the goto-cc translation of the listed units (flags of the pinned build: -std=c90 -D_GNU_SOURCE -DLDB_PTHREAD -DNDEBUG)",
            "kit models (allocator: malloc never fails; byte-loop mem*; listed stubs) are part of the claim",
        ],
        "coverage": {
            # model_checking keys: states/transitions are the solver-side sizes
            "states": sum(r.steps for r in results) or 1,
            "transitions": sum(r.vccs for r in results) or 1,
            "traces_validated_against_impl": sum(1 for r in results if r.replay_status and r.replay_status.startswith("reproduced")),
            "samples": sample_objs,
            "evaluations": len(results),
            "distinct_nontrivial": sum(1 for r in results if r.status in ("pass", "known") and r.props_total > 0 and r.witness_ok > 0),
            "rule": "one evaluation = one solver query (harness x concrete size tuple) over the goto-cc translation of the real units, all values of the symbolic inputs inside the bound; counted non-trivial when CBMC checked >=1 property and the reachability witness of the harness came back violated (harness not vacuous); distinct = distinct (harness,size tuple)",
            "obligations": len(results),
            "discharged": npass,
            "known_findings_reproduced": [r.obl.known for r in known_hits],
            "checker_cmd": "cbmc <linked.gb> --function harness " + " ".join(CBMC_BASE) + " --unwind/--unwindset per obligation",
            "explanation": meta.get("explanation", ""),
            "states_transitions_meaning": "states = total SSA program steps symbolically executed; transitions = total verification conditions generated (CBMC statistics), summed over queries",
            "functions_encoded": funcs,
            "real_units": units,
            "harnesses": harnesses,
            "bounds": meta.get("bounds", []),
            "outside_bounds": meta.get("outside", []),
            "stubs_and_models": meta.get("models", []),
            "queries": queries,
            "solver_time_s": round(sum(r.solver_s for r in results), 2),
            "peak_rss_mb": max([r.rss_mb for r in results] or [0]),
            "partial_run": partial,
            "broken_or_inconclusive": [{"obligation": r.obl.name, "status": r.status, "detail": r.detail[:400]} for r in broken],
            "exhaustive": False,
        },
    }
    # evidence describes /repo itself: runs against another tree (VERIF_REPO, used to
    # evaluate seeded changes) write theirs to a scratch directory instead
    evdir = os.path.join(VERIF, "evidence") if (os.path.realpath(REPO) == "/repo" and not partial and not os.environ.get("VERIF_EVIDENCE_SCRATCH")) else "/var/tmp/lcdb-verif-evidence-scratch"
    os.makedirs(evdir, exist_ok=True)
    with open(os.path.join(evdir, prop + ".json"), "w") as f:
        json.dump(ev, f, indent=1)
