/* C10.b -- shard-mutex discipline and representation invariant of the REAL
 * util/cache.c (#included: statics and struct layouts visible), one public
 * operation from an arbitrary well-formed shard of VP_E entries.
 *
 * No thread is created and no interleaving is explored.  Decided per query:
 *
 *  - lock discipline: the operation locks exactly the mutex of the key's shard
 *    (prune/usage: each shard mutex once, in turn; id: the id mutex), never two
 *    at once, never twice, never unlocks what it does not hold, holds nothing
 *    on return;
 *  - no write of protected state outside the critical section: the shard is
 *    compared with a ghost model when the lock is taken (must still be the
 *    pre-state), when it is released (every effect of the operation must
 *    already be there) and on return (must be unchanged since the release);
 *  - VP_ENV: another thread got the lock first (symbolically: erased one of the
 *    cached entries, or took and still holds a reference) -- the operation
 *    must act on the state it finds under the lock, so protected state read
 *    before the lock shows up as a wrong result / use after free;
 *  - functional effect == LevelDB cache semantics on the ghost (insert with
 *    displacement of an equal key and oldest-first eviction of unreferenced
 *    entries while over capacity, capacity 0 = no caching; lookup refs; release
 *    unrefs, last reference frees; erase; prune; usage; id);
 *  - representation invariant after the operation (same predicate the
 *    pre-state is built to satisfy): refs/in_cache per entry, LRU list = the
 *    in-cache entries with refs == 1 in LRU order, in-use list = in-cache
 *    entries with refs >= 2, both circular with consistent prev links, hash
 *    chains contain exactly the in-cache entries in their bucket, no equal keys
 *    in cache, elems and usage exact, other shards untouched;
 *  - an entry is freed only when the ghost says its last reference goes
 *    (never while a handle is outstanding or the cache still refers to it),
 *    exactly once, after its deleter ran exactly once with its key and value;
 *    nothing reachable is freed (CBMC's deallocated-object checks see any use
 *    after free), nothing that lost its last reference is leaked.
 *    The deleter runs with the shard mutex held, as in LevelDB (recorded, and
 *    asserted as the behaviour the code has: a deleter must not re-enter the
 *    cache).
 *
 * Models: mutex = ghost flag per mutex; ldb_hash = symbolic table over the 4
 * possible 1-byte keys with the shard bits fixed to VP_S (so the shard index
 * is concrete; other shards are empty); allocator = typed malloc of one
 * lru_handle_t with a 1-byte key.
 */
#include <stdlib.h>
#include "vp.h"
#include "util/cache.c"

#ifndef VP_E
#define VP_E 2
#endif
#ifndef VP_OP
#define VP_OP 1
#endif
#ifndef VP_S
#define VP_S 5
#endif
#ifndef VP_SHAPE
#define VP_SHAPE 0
#endif
#ifndef VP_CAP
#define VP_CAP 300
#endif
#define VP_NE (VP_E + 1)          /* pre-state entries + the one an insert creates */
#define VP_TABLEN 4

#define VP_OP_INSERT 0
#define VP_OP_LOOKUP 1
#define VP_OP_RELEASE 2
#define VP_OP_ERASE 3
#define VP_OP_PRUNE 4
#define VP_OP_USAGE 5
#define VP_OP_ID 6

/* ---- the cache object and the ghost ------------------------------------ */
/* VP_API: the operation goes through the public ldb_lru_* function on a
   whole cache object (16 shards, the others empty); otherwise the shard-level
   function the public one forwards to (lru_shard_*) is run on a stand-alone
   shard object (much smaller formula: the 16-shard object makes every field
   update expensive for the symbolic executor). */
#ifdef VP_API
static struct ldb_lru_s vp_lru;
static lru_handle_t *vp_tab[LDB_SHARDS][VP_TABLEN];
#define VP_SH (&vp_lru.shard[VP_S])
#define VP_TAB (vp_tab[VP_S])
#else
static lru_shard_t vp_shard;
static lru_handle_t *vp_tab1[VP_TABLEN];
#define VP_SH (&vp_shard)
#define VP_TAB vp_tab1
#endif
static lru_handle_t *ent[VP_NE];
static uint8_t vp_valobj[VP_NE];

static int g_live[VP_NE];         /* allocated and, per the ghost, not (to be) freed */
static int g_in[VP_NE];
static uint32_t g_refs[VP_NE];
static uint8_t g_key[VP_NE];
static uint32_t g_hash[VP_NE];
static size_t g_charge[VP_NE];
static int g_lru[VP_NE + 1], g_nlru = 0;   /* LRU order, oldest first */
static size_t g_cap = 0;
static uint64_t g_last_id = 0;

static int vp_freed[VP_NE];       /* really passed to ldb_free */
static int vp_deleted[VP_NE];     /* deleter calls */
static int vp_deleter_locked = 1;

static int vp_held[LDB_SHARDS + 1];   /* [LDB_SHARDS] = id mutex */
static int vp_locks[LDB_SHARDS + 1];
static int vp_nheld = 0;
static int vp_env = 0;            /* the environment (another thread) is running real code */
static int vp_in_op = 0;

static uint32_t vp_htab[4];

/* operation arguments / expectations */
static uint8_t op_key;
static int op_h = -1;             /* index of the handle given to release */
static size_t op_charge;
static int exp_lookup = -1;       /* index lookup must return, -1 = NULL */
static size_t exp_usage = 0;
static int vp_spec_done = 0;

uint32_t
ldb_hash(const uint8_t *data, size_t size, uint32_t seed) {
  uint32_t h = 0;
  int k;
  (void)seed;
  VP_ASSERT(size == 1 && data[0] < 4, "vp-model: 1-byte keys 0..3");
  for (k = 0; k < 4; k++)
    if (data[0] == k)
      h = vp_htab[k];
  return h;
}

/* Replaces the static ldb_lru_shard() of cache.c (goto-instrument
   --replace-calls): same value, but a constant for the symbolic executor
   (a symbolic index into the array of shards makes every field access a
   byte-extract over the whole cache object).  That the real expression
   hash >> (32 - LDB_SHARD_BITS) yields this shard is asserted here. */
uint32_t
vp_lru_shard(uint32_t hash) {
  VP_ASSERT((hash >> (32 - LDB_SHARD_BITS)) == VP_S, "shard index is the top LDB_SHARD_BITS bits of the hash");
  return VP_S;
}

/* ---- allocator ---------------------------------------------------------- */
void *
ldb_malloc(size_t size) {
  void *p;
  if (size != sizeof(lru_handle_t)) {
    /* only reached on the table-resize path, which is infeasible at this size
       (elems <= 4 == length); kept apart so that the symbolic executor does
       not merge this allocation into the pointer of the new entry */
    VP_ASSERT(0, "vp-model: only entries with a 1-byte key are allocated (no table resize at this size)");
    return malloc(size);
  }
  VP_ASSERT(vp_in_op && VP_OP == VP_OP_INSERT && ent[VP_E] == NULL, "only insert allocates, one entry");
  p = malloc(sizeof(lru_handle_t));
#ifndef VP_REPLAY
  __CPROVER_assume(p != NULL);
#endif
  ent[VP_E] = (lru_handle_t *)p;
  return p;
}

static int
vp_any_idx(const void *p) {
  int j, r = -1;
  for (j = 0; j < VP_NE; j++)
    if (ent[j] != NULL && !vp_freed[j] && p == (const void *)ent[j])
      r = j;
  return r;
}

void
ldb_free(void *p) {
  int j, jj;
  if (p == (void *)&VP_TAB[0]) {
    VP_ASSERT(0, "vp-model: the hash table array is not freed (no table resize at this size)");
    return;
  }
  j = vp_any_idx(p);
  VP_ASSERT(j >= 0, "C10.b only a cache entry that has not been freed yet is freed");
  for (jj = 0; jj < VP_NE; jj++) {
    if (jj == j) {
      VP_ASSERT(!g_live[jj], "C10.b an entry is freed only when its last reference goes (no handle outstanding, not in cache)");
      VP_ASSERT(ent[jj]->refs == 0 && !ent[jj]->in_cache, "C10.b freed entry has refs == 0 and is not in the cache");
      VP_ASSERT(vp_deleted[jj] == 1, "C10.b the deleter ran exactly once before the entry is freed");
      vp_freed[jj] = 1;
    }
  }
  VP_ASSERT(vp_env || vp_held[VP_S], "entries are freed inside the shard's critical section");
  free(p);
}

static void
vp_deleter(const ldb_slice_t *key, void *value) {
  int j, hit = 0;
  for (j = 0; j < VP_NE; j++) {
    if (value == (void *)&vp_valobj[j]) {
      hit = 1;
      VP_ASSERT(ent[j] != NULL && !vp_freed[j], "C10.b deleter runs before the entry is freed");
      VP_ASSERT(!g_live[j], "C10.b deleter runs only when the last reference goes");
      VP_ASSERT(vp_deleted[j] == 0, "C10.b deleter runs at most once per entry");
      VP_ASSERT(key->size == 1 && key->data[0] == g_key[j], "C10.b deleter gets the entry's key");
      vp_deleted[j]++;
    }
  }
  VP_ASSERT(hit, "C10.b deleter gets the entry's value");
  if (!vp_env && !vp_held[VP_S])
    vp_deleter_locked = 0;
}

/* ---- representation invariant: real shard VP_S == ghost ------------------ */
static int
vp_idx(const lru_handle_t *p) {
  int j, r = -1;
  for (j = 0; j < VP_NE; j++)
    if (g_live[j] && ent[j] != NULL && !vp_freed[j] && p == ent[j])
      r = j;
  return r;
}

static void
vp_walk_list(lru_handle_t *head, int inuse) {
  lru_handle_t *p = head->next, *pp = head;
  unsigned seen = 0;
  int steps, k, kk, j;
  for (steps = 0; steps < VP_NE; steps++) {
    if (p == head)
      break;
    k = vp_idx(p);
    VP_ASSERT(k >= 0, "C10.b inv: a list reaches only live entries of this shard");
    if (k < 0)
      break;
    for (kk = 0; kk < VP_NE; kk++) {
      if (kk == k) {
        VP_ASSERT(g_in[kk] && (inuse ? g_refs[kk] >= 2 : g_refs[kk] == 1), "C10.b inv: LRU list holds refs==1, in-use list refs>=2, in-cache entries only");
        VP_ASSERT(!(seen & (1u << kk)), "C10.b inv: no entry twice on a list");
        VP_ASSERT(ent[kk]->prev == pp, "C10.b inv: prev links mirror next links");
        if (!inuse)
          VP_ASSERT(steps < g_nlru && g_lru[steps] == kk, "C10.b inv: LRU list is in least-recently-used order");
        seen |= 1u << kk;
        pp = ent[kk];
        p = ent[kk]->next;
      }
    }
  }
  VP_ASSERT(p == head, "C10.b inv: list is circular through its head");
  VP_ASSERT(head->prev == pp, "C10.b inv: head.prev is the last entry");
  for (j = 0; j < VP_NE; j++)
    if (g_live[j])
      VP_ASSERT(((seen >> j) & 1u) == (unsigned)(g_in[j] && (inuse ? g_refs[j] >= 2 : g_refs[j] == 1)), "C10.b inv: every cached entry is on the list its refs say");
}

static void
vp_inv(void) {
  lru_shard_t *sh = VP_SH;
  int j, i, b, steps, k, kk;
  unsigned seen = 0;
  uint32_t elems = 0;
  size_t usage = 0;

  for (j = 0; j < VP_NE; j++) {
    if (g_live[j] && !(j == VP_E && ent[j] == NULL))
      VP_ASSERT(ent[j] != NULL && !vp_freed[j], "C10.b an entry that is still referenced is never freed");
    if (!g_live[j] && ent[j] != NULL)
      VP_ASSERT(vp_freed[j], "C10.b an entry whose last reference went is freed inside the critical section");
    if (g_live[j] && ent[j] != NULL && !vp_freed[j]) {
      VP_ASSERT(ent[j]->refs == g_refs[j], "C10.b inv: refs == cache reference + outstanding handles");
      VP_ASSERT(ent[j]->in_cache == g_in[j], "C10.b inv: in_cache as expected");
      VP_ASSERT(ent[j]->key_length == 1 && ent[j]->key_data[0] == g_key[j] && ent[j]->hash == g_hash[j], "C10.b inv: key and hash immutable");
      VP_ASSERT(ent[j]->charge == g_charge[j] && ent[j]->value == (void *)&vp_valobj[j] && ent[j]->deleter == vp_deleter, "C10.b inv: charge, value, deleter immutable");
      VP_ASSERT(g_refs[j] >= 1, "C10.b inv: a live entry has a reference");
      if (g_in[j]) {
        elems++;
        usage += g_charge[j];
      }
    }
  }
  for (j = 0; j < VP_NE; j++)
    for (i = 0; i < j; i++)
      if (g_live[j] && g_live[i] && g_in[j] && g_in[i])
        VP_ASSERT(g_key[i] != g_key[j], "C10.b inv: no two cached entries with one key");

  vp_walk_list(&sh->list, 0);
  vp_walk_list(&sh->in_use, 1);

  VP_ASSERT(sh->table.length == VP_TABLEN && sh->table.list == &VP_TAB[0], "C10.b inv: table not resized at this size");
  VP_ASSERT(sh->table.elems == elems, "C10.b inv: elems == number of cached entries");
  for (b = 0; b < VP_TABLEN; b++) {
    lru_handle_t *p = VP_TAB[b];
    for (steps = 0; steps < VP_NE; steps++) {
      if (p == NULL)
        break;
      k = vp_idx(p);
      VP_ASSERT(k >= 0, "C10.b inv: a hash chain reaches only live entries");
      if (k < 0)
        break;
      for (kk = 0; kk < VP_NE; kk++) {
        if (kk == k) {
          VP_ASSERT(g_in[kk] && (g_hash[kk] & (VP_TABLEN - 1)) == (uint32_t)b, "C10.b inv: chain holds cached entries of its bucket");
          VP_ASSERT(!(seen & (1u << kk)), "C10.b inv: no entry twice in the table");
          seen |= 1u << kk;
          p = ent[kk]->next_hash;
        }
      }
    }
    VP_ASSERT(p == NULL, "C10.b inv: chains end with NULL");
  }
  for (j = 0; j < VP_NE; j++)
    if (g_live[j])
      VP_ASSERT(((seen >> j) & 1u) == (unsigned)(g_in[j] != 0), "C10.b inv: the table contains exactly the cached entries");
  VP_ASSERT(sh->usage == usage, "C10.b inv: usage == sum of the charges of cached entries");
  VP_ASSERT(sh->capacity == g_cap, "capacity immutable");
#ifdef VP_API
  VP_ASSERT(vp_lru.last_id == g_last_id, "last_id as expected");
#endif
}

static void
vp_others_untouched(void) {
#ifdef VP_API
  int i;
  for (i = 0; i < LDB_SHARDS; i++) {
    if (i != VP_S) {
      lru_shard_t *o = &vp_lru.shard[i];
      VP_ASSERT(o->usage == 0 && o->list.next == &o->list && o->list.prev == &o->list &&
                o->in_use.next == &o->in_use && o->in_use.prev == &o->in_use && o->table.elems == 0 &&
                o->table.length == VP_TABLEN && o->table.list == &vp_tab[i][0] &&
                vp_tab[i][0] == NULL && vp_tab[i][1] == NULL && vp_tab[i][2] == NULL && vp_tab[i][3] == NULL,
                "C10.b other shards untouched");
    }
  }
#endif
}

/* ---- ghost semantics ----------------------------------------------------- */
static void
g_lru_remove(int j) {
  int i, w = 0;
  for (i = 0; i < VP_NE; i++)
    if (i < g_nlru && g_lru[i] != j)
      g_lru[w++] = g_lru[i];
  g_nlru = w;
}

static void
g_unref(int j) {     /* j concrete */
  g_refs[j]--;
  if (g_refs[j] == 0) {
    g_live[j] = 0;
  } else if (g_in[j] && g_refs[j] == 1) {
    g_lru[g_nlru++] = j;
  }
}

static void
g_ref(int j) {
  if (g_in[j] && g_refs[j] == 1)
    g_lru_remove(j);
  g_refs[j]++;
}

static void
g_finish(int j) {    /* drop j from the cache */
  if (g_refs[j] == 1)
    g_lru_remove(j);
  g_in[j] = 0;
  g_unref(j);
}

static int
g_find(uint8_t key) {
  int j, r = -1;
  for (j = 0; j < VP_NE; j++)
    if (g_live[j] && g_in[j] && g_key[j] == key)
      r = j;
  return r;
}

static size_t
g_usage(void) {
  size_t u = 0;
  int j;
  for (j = 0; j < VP_NE; j++)
    if (g_live[j] && g_in[j])
      u += g_charge[j];
  return u;
}

static void
vp_spec(void) {
  int j, o;
#if VP_OP == VP_OP_INSERT
  o = g_find(op_key);
  g_live[VP_E] = 1;
  g_key[VP_E] = op_key;
  g_hash[VP_E] = ldb_hash(&op_key, 1, 0);
  g_charge[VP_E] = op_charge;
  if (g_cap > 0) {
    g_in[VP_E] = 1;
    g_refs[VP_E] = 2;
    for (j = 0; j < VP_E; j++)
      if (j == o)
        g_finish(j);
    /* evict oldest unreferenced entries while over capacity */
    for (j = 0; j < VP_NE; j++) {
      if (g_usage() > g_cap && g_nlru > 0) {
        int v = g_lru[0], vv;
        for (vv = 0; vv < VP_NE; vv++)
          if (vv == v)
            g_finish(vv);
      }
    }
  } else {
    g_in[VP_E] = 0;
    g_refs[VP_E] = 1;
  }
#elif VP_OP == VP_OP_LOOKUP
  o = g_find(op_key);
  exp_lookup = o;
  for (j = 0; j < VP_E; j++)
    if (j == o)
      g_ref(j);
#elif VP_OP == VP_OP_RELEASE
  (void)o;
  for (j = 0; j < VP_E; j++)
    if (j == op_h)
      g_unref(j);
#elif VP_OP == VP_OP_ERASE
  o = g_find(op_key);
  for (j = 0; j < VP_E; j++)
    if (j == o)
      g_finish(j);
#elif VP_OP == VP_OP_PRUNE
  (void)o;
  for (j = 0; j < VP_E; j++)
    if (g_live[j] && g_in[j] && g_refs[j] == 1)
      g_finish(j);
#elif VP_OP == VP_OP_USAGE
  (void)o; (void)j;
  exp_usage = g_usage();
#else
  (void)o; (void)j;
#endif
}

/* ---- another thread had the lock before us ------------------------------- */
#ifdef VP_ENV
static void
vp_environment(void) {
  lru_shard_t *sh = VP_SH;
  int what = vp_u8(), j = vp_u8(), jj;
  VP_ASSUME(what <= 2 && j < VP_E);
  vp_env = 1;
  for (jj = 0; jj < VP_E; jj++) {
    if (jj == j && g_live[jj] && g_in[jj]) {
      if (what == 1) {
        /* erases entry jj (real code) */
        ldb_slice_t k;
        ldb_slice_set(&k, &g_key[jj], 1);
        g_finish(jj);
        lru_shard_finish(sh, lru_table_remove(&sh->table, &k, g_hash[jj]));
        VP_WITNESS("env-erased");
      } else if (what == 2 && g_refs[jj] < 3) {
        /* looks entry jj up and keeps the handle */
        g_ref(jj);
        lru_shard_ref(sh, ent[jj]);
        VP_WITNESS("env-holds");
      }
    }
  }
  vp_env = 0;
}
#endif

/* ---- ghost mutexes -------------------------------------------------------- */
static int
vp_mutex_index(const ldb_mutex_t *m) {
  int i, r = -1;
#ifdef VP_API
  for (i = 0; i < LDB_SHARDS; i++)
    if (m == &vp_lru.shard[i].mutex)
      r = i;
  if (m == &vp_lru.id_mutex)
    r = LDB_SHARDS;
#else
  (void)i;
  if (m == &vp_shard.mutex)
    r = VP_S;
#endif
  return r;
}

void ldb_mutex_init(ldb_mutex_t *m) { (void)m; }
void ldb_mutex_destroy(ldb_mutex_t *m) { (void)m; }

void
ldb_mutex_lock(ldb_mutex_t *m) {
  int i = vp_mutex_index(m), ii;
  VP_ASSERT(i >= 0, "C10.b only mutexes of the cache are locked");
  VP_ASSERT(vp_nheld == 0, "C10.b no cache mutex is taken while another is held");
  for (ii = 0; ii <= LDB_SHARDS; ii++) {
    if (ii == i) {
      VP_ASSERT(!vp_held[ii], "C10.b a mutex is not locked twice");
      vp_held[ii] = 1;
      vp_locks[ii]++;
    }
  }
  vp_nheld++;
  if (i == VP_S) {
#ifdef VP_ENV
    vp_environment();
#endif
    /* nothing protected was written before the lock was taken */
    vp_inv();
    VP_ASSERT(!vp_spec_done, "C10.b one critical section per shard and operation");
    vp_spec();
    vp_spec_done = 1;
  }
}

void
ldb_mutex_unlock(ldb_mutex_t *m) {
  int i = vp_mutex_index(m), ii;
  VP_ASSERT(i >= 0, "C10.b only mutexes of the cache are unlocked");
  for (ii = 0; ii <= LDB_SHARDS; ii++) {
    if (ii == i) {
      VP_ASSERT(vp_held[ii], "C10.b a mutex is unlocked only when held");
      vp_held[ii] = 0;
    }
  }
  vp_nheld--;
  if (i == VP_S) {
    /* every effect of the operation is complete inside the critical section */
    vp_inv();
  }
}

/* ---- pre-state ------------------------------------------------------------ */
static void
vp_build(void) {
  int i, j, b, d = 0;
  lru_shard_t *sh;
#ifdef VP_API
  for (i = 0; i < LDB_SHARDS; i++) {
    lru_shard_t *o = &vp_lru.shard[i];
    o->capacity = 0;
    o->usage = 0;
    o->list.next = &o->list; o->list.prev = &o->list;
    o->in_use.next = &o->in_use; o->in_use.prev = &o->in_use;
    o->table.length = VP_TABLEN;
    o->table.elems = 0;
    o->table.list = &vp_tab[i][0];
    for (b = 0; b < VP_TABLEN; b++)
      vp_tab[i][b] = NULL;
  }
  g_last_id = vp_u64();
  VP_ASSUME(g_last_id < UINT64_MAX);
  vp_lru.last_id = g_last_id;
#else
  vp_shard.usage = 0;
  vp_shard.list.next = &vp_shard.list; vp_shard.list.prev = &vp_shard.list;
  vp_shard.in_use.next = &vp_shard.in_use; vp_shard.in_use.prev = &vp_shard.in_use;
  vp_shard.table.length = VP_TABLEN;
  vp_shard.table.elems = 0;
  vp_shard.table.list = &vp_tab1[0];
  for (b = 0; b < VP_TABLEN; b++)
    vp_tab1[b] = NULL;
#endif
  sh = VP_SH;
  /* concrete per query: a symbolic capacity makes "capacity > 0" in
     lru_shard_insert, hence the new entry's list membership and every list
     pointer after it, symbolic (measured: 60x).  Charges are symbolic 0..255,
     so both sides of "usage > capacity" are explored with VP_CAP = 300. */
  g_cap = VP_CAP;
  sh->capacity = g_cap;
  for (j = 0; j < 4; j++)
    vp_htab[j] = ((uint32_t)VP_S << (32 - LDB_SHARD_BITS)) | (vp_u32() & 0x0fffffffu);

  for (j = 0; j < VP_E; j++) {
    lru_handle_t *e = (lru_handle_t *)malloc(sizeof(lru_handle_t));
#ifndef VP_REPLAY
    __CPROVER_assume(e != NULL);
#else
    if (e == NULL) abort();
#endif
    ent[j] = e;
    g_live[j] = 1;
    g_key[j] = vp_u8();
    VP_ASSUME(g_key[j] < 4);
    g_hash[j] = ldb_hash(&g_key[j], 1, 0);
    g_charge[j] = vp_u8();
    /* the entry's class is concrete per query (VP_SHAPE: one decimal digit per
       entry, entry 0 first): 1 = cached and unreferenced (on the LRU list),
       2 = cached and referenced by 1..2 clients (on the in-use list),
       3 = erased from the cache but still referenced by 1..2 clients.
       A symbolic class makes every list pointer symbolic (measured: 25x). */
    {
      int q, extra = vp_bool();
      d = VP_SHAPE;
      for (q = j + 1; q < VP_E; q++)
        d /= 10;
      d %= 10;
      VP_ASSERT(d >= 1 && d <= 3, "vp-model: VP_SHAPE digit");
      g_in[j] = (d != 3);
      g_refs[j] = (d == 1) ? 1u : (d == 2) ? 2u + (uint32_t)extra : 1u + (uint32_t)extra;
    }
    VP_ASSUME(g_cap > 0 || !g_in[j]);   /* capacity 0 never caches anything */
    for (i = 0; i < j; i++)
      VP_ASSUME(!(g_in[i] && g_in[j]) || g_key[i] != g_key[j]);
    e->value = &vp_valobj[j];
    e->deleter = vp_deleter;
    e->charge = g_charge[j];
    e->key_length = 1;
    e->key_data[0] = g_key[j];
    e->hash = g_hash[j];
    e->in_cache = g_in[j];
    e->refs = g_refs[j];
    e->next = NULL;
    e->prev = NULL;
    e->next_hash = NULL;
    if (g_in[j]) {
      int front = vp_bool();
      if (d == 1) {   /* branch on the concrete class, not on the (symbolic) refs */
        lru_shard_append(&sh->list, e);
        g_lru[g_nlru++] = j;
      } else {
        lru_shard_append(&sh->in_use, e);
      }
      for (b = 0; b < VP_TABLEN; b++) {
        if ((g_hash[j] & (VP_TABLEN - 1)) == (uint32_t)b) {
          if (front || VP_TAB[b] == NULL) {
            e->next_hash = VP_TAB[b];
            VP_TAB[b] = e;
          } else {
            /* chain has at most VP_E - 1 <= 2 entries before this one */
            lru_handle_t *t = VP_TAB[b];
            if (t->next_hash != NULL)
              t = t->next_hash;
            t->next_hash = e;
          }
        }
      }
      sh->table.elems++;
      sh->usage += g_charge[j];
    }
  }
}

void
harness(void) {
  ldb_slice_t key;
  lru_handle_t *h = NULL;
  int j;

  vp_build();
  vp_inv();                 /* vp-model sanity: the constructed state satisfies the invariant */
  vp_others_untouched();

  op_key = vp_u8();
  VP_ASSUME(op_key < 4);
  ldb_slice_set(&key, &op_key, 1);
  vp_in_op = 1;

#if VP_OP == VP_OP_INSERT
  op_charge = vp_u8();
#ifdef VP_API
  h = ldb_lru_insert(&vp_lru, &key, &vp_valobj[VP_E], op_charge, vp_deleter);
#else
  h = lru_shard_insert(&vp_shard, &key, ldb_lru_hash(&key), &vp_valobj[VP_E], op_charge, vp_deleter);
#endif
  VP_ASSERT(h != NULL && h == ent[VP_E], "insert returns the new entry");
  VP_ASSERT(ldb_lru_value(h) == (void *)&vp_valobj[VP_E], "handle carries the value");
  VP_ASSERT(vp_locks[VP_S] == 1, "C10.b insert takes the key's shard mutex once");
#ifdef VP_W_FREED
  VP_WITNESS("insert-with-free-possible");
#endif
#elif VP_OP == VP_OP_LOOKUP
#ifdef VP_API
  h = ldb_lru_lookup(&vp_lru, &key);
#else
  h = lru_shard_lookup(&vp_shard, &key, ldb_lru_hash(&key));
#endif
  VP_ASSERT(vp_locks[VP_S] == 1, "C10.b lookup takes the key's shard mutex once");
  if (exp_lookup < 0) {
    VP_ASSERT(h == NULL, "lookup: miss");
    VP_WITNESS("lookup-miss");
  } else {
    for (j = 0; j < VP_E; j++)
      if (j == exp_lookup)
        VP_ASSERT(h == ent[j], "lookup: the cached entry with that key");
#ifdef VP_W_HIT
    VP_WITNESS("lookup-hit");
#endif
  }
#elif VP_OP == VP_OP_RELEASE
  op_h = vp_u8();
  VP_ASSUME(op_h < VP_E);
  for (j = 0; j < VP_E; j++) {
    if (j == op_h) {
      VP_ASSUME(g_refs[j] - (uint32_t)(g_in[j] != 0) >= 1);   /* REQUIRES: an unreleased handle */
      h = ent[j];
    }
  }
#ifdef VP_API
  ldb_lru_release(&vp_lru, h);
#else
  lru_shard_release(&vp_shard, h);
#endif
  VP_ASSERT(vp_locks[VP_S] == 1, "C10.b release takes the entry's shard mutex once");
#ifdef VP_W_RELLAST
  for (j = 0; j < VP_E; j++)
    if (j == op_h && !g_live[j]) VP_WITNESS("release-last");
#endif
#ifdef VP_W_RELLRU
  for (j = 0; j < VP_E; j++)
    if (j == op_h && g_live[j] && g_in[j] && g_refs[j] == 1) VP_WITNESS("release-to-lru");
#endif
#elif VP_OP == VP_OP_ERASE
#ifdef VP_API
  ldb_lru_erase(&vp_lru, &key);
#else
  lru_shard_erase(&vp_shard, &key, ldb_lru_hash(&key));
#endif
  VP_ASSERT(vp_locks[VP_S] == 1, "C10.b erase takes the key's shard mutex once");
  (void)h;
#elif VP_OP == VP_OP_PRUNE
#ifdef VP_API
  ldb_lru_prune(&vp_lru);
  for (j = 0; j < LDB_SHARDS; j++)
    VP_ASSERT(vp_locks[j] == 1, "C10.b prune takes every shard mutex once");
#else
  lru_shard_prune(&vp_shard);
  VP_ASSERT(vp_locks[VP_S] == 1, "C10.b prune takes the shard mutex once");
#endif
  VP_ASSERT(g_nlru == 0, "prune leaves no unreferenced entry");
  (void)h;
#elif VP_OP == VP_OP_USAGE
  {
#ifdef VP_API
    size_t u = ldb_lru_usage(&vp_lru);
    for (j = 0; j < LDB_SHARDS; j++)
      VP_ASSERT(vp_locks[j] == 1, "C10.b usage reads every shard's usage under its mutex");
#else
    size_t u = lru_shard_usage(&vp_shard);
    VP_ASSERT(vp_locks[VP_S] == 1, "C10.b usage is read under the shard mutex");
#endif
    VP_ASSERT(u == exp_usage, "usage == sum of charges of cached entries");
  }
  (void)h;
#else
#ifdef VP_API
  {
    uint64_t id = ldb_lru_id(&vp_lru);
    VP_ASSERT(vp_locks[LDB_SHARDS] == 1 && vp_locks[VP_S] == 0, "C10.b id takes the id mutex");
    g_last_id++;
    VP_ASSERT(id == g_last_id, "id: fresh");
  }
#endif
  (void)h;
#endif

  vp_in_op = 0;
  VP_ASSERT(vp_nheld == 0, "C10.b no mutex held on return");
  for (j = 0; j <= LDB_SHARDS; j++)
    VP_ASSERT(!vp_held[j], "C10.b every mutex released on return");
#if VP_OP != VP_OP_ID
  VP_ASSERT(vp_spec_done, "C10.b the operation entered the shard's critical section");
#else
  vp_spec_done = 1;
#endif
  /* nothing protected was written after the unlock; nothing leaked */
  vp_inv();
  vp_others_untouched();
  for (j = 0; j < VP_NE; j++)
    VP_ASSERT(vp_freed[j] == (ent[j] != NULL && !g_live[j]), "C10.b freed exactly the entries whose last reference went");
  VP_ASSERT(vp_deleter_locked, "deleter runs inside the shard's critical section (LevelDB behaviour)");
#ifdef VP_W_FREED
  for (j = 0; j < VP_E; j++)
    if (vp_freed[j]) VP_WITNESS("freed");
#endif
  VP_WITNESS("end");
}
