/* C10.c -- lock-free publication in the REAL skiplist.c, observed through
 * the atomic-access hook of src/util/atomic.h (-DCHJJ_LCDB_VERIF: every
 * ldb_atomic_load/store[_ptr] calls ldb_verif_atomic_event(object, kind,
 * order, value) BEFORE doing the access as a plain access).
 *
 * No thread is created and no interleaving is explored.  What is decided, for
 * VP_N real ldb_skiplist_insert() calls with symbolic distinct keys and
 * symbolic node heights 1..VP_HEIGHT followed by real reader calls:
 *
 *  (i)   every store into a slot a concurrent reader can already reach (a
 *        next[i] slot of the head, or of a node linked at a level >= i) is an
 *        atomic store of order >= release, and stores nothing but the node x
 *        that is being inserted;
 *  (ii)  at that moment x is complete for a reader arriving at level i:
 *        x->key is the key being inserted and x->next[j] has been stored for
 *        every j <= i, x->next[i] being the successor the slot holds right now;
 *        stores into slots no reader can reach yet may be relaxed;
 *  (iii) reader entry points (seek/first/next/last/prev/contains) perform
 *        loads only, every next-pointer load is >= acquire, every followed
 *        pointer was loaded through the atomic accessor (event count);
 *  (iv)  max_height is only accessed through the atomic macros (a change of
 *        its value without a store event, or a traversal without a load
 *        event, is reported), only grows, and stays within 1..12;
 *  (v)   the list a reader would see between any two stores of an insert is
 *        consistent: at every atomic store event (= the state after the
 *        previous store) and after the insert a reference traversal with plain
 *        reads finds every level sorted, NULL-terminated, made only of
 *        complete nodes tall enough for that level, each level a sub-list of
 *        the one below, level 0 containing every previously inserted key (and
 *        possibly x);
 *  (vi)  no atomic access touches next[i] with i >= the node's allocated
 *        height (the arena model hands out full-height objects, so CBMC's
 *        own bounds check would not see it).
 *  With VP_MIDREAD the REAL reader (ldb_skipiter_seek + next) is run from the
 *  monitor at a symbolically chosen store event of the last insert and must
 *  return the reference answer over (old keys [+ x]).
 *
 * Models: arena -> one typed full-height node object per skip node; random
 * height -> symbolic; comparator -> first data byte of the length-prefixed key.
 */
#include "vp.h"
#include "util/arena.h"
#include "util/atomic.h"
#include "util/comparator.h"
#include "util/random.h"
#include "util/slice.h"
#include "skiplist.h"

#ifndef VP_N
#define VP_N 2
#endif
#ifndef VP_HEIGHT
#define VP_HEIGHT 2
#endif
#ifndef VP_RD
#define VP_RD 0
#endif
#define VP_MAXH 12
#define VP_NODES (VP_N + 1)          /* head + VP_N */
#define VP_LEVELS (VP_HEIGHT + 1)    /* levels the reference traversal walks (one above the tallest node) */

/* memory orders as goto-cc/gcc number them (__ATOMIC_*) */
#define VP_RELAXED ldb_order_relaxed
#define VP_IS_ORDER(o) ((o) == ldb_order_relaxed || (o) == ldb_order_consume || (o) == ldb_order_acquire || \
                        (o) == ldb_order_release || (o) == ldb_order_acq_rel || (o) == ldb_order_seq_cst)
#define VP_GE_RELEASE(o) ((o) == ldb_order_release || (o) == ldb_order_acq_rel || (o) == ldb_order_seq_cst)
#define VP_GE_ACQUIRE(o) ((o) == ldb_order_acquire || (o) == ldb_order_acq_rel || (o) == ldb_order_seq_cst)

#ifdef VP_REPLAY
#define VP_SAME_OBJECT(p, base) ((uintptr_t)(p) >= (uintptr_t)(base) && (uintptr_t)(p) < (uintptr_t)(base) + sizeof(struct vp_node))
#define VP_OFFSET_IN(p, base) ((size_t)((uintptr_t)(p) - (uintptr_t)(base)))
#else
#define VP_SAME_OBJECT(p, base) __CPROVER_same_object((const void *)(p), (const void *)(base))
#define VP_OFFSET_IN(p, base) ((size_t)__CPROVER_POINTER_OFFSET((const void *)(p)))
#endif

/* ---- arena model ------------------------------------------------------ */
struct vp_node { const uint8_t *key; void *next[VP_MAXH]; };
static struct vp_node nd0, nd1, nd2, nd3, nd4;
static struct vp_node *const ndp[5] = {&nd0, &nd1, &nd2, &nd3, &nd4};
static int nd_used = 0;
static int nd_height[5];            /* allocated height of node k */

/* ---- monitor state ---------------------------------------------------- */
#define VP_PH_IDLE 0
#define VP_PH_INIT 1
#define VP_PH_INSERT 2
#define VP_PH_READ 3
static int vp_phase = VP_PH_IDLE;
static int vp_busy = 0;             /* re-entrancy guard */
static ldb_skiplist_t vp_list;
static int vp_x = 0;                /* index of the node being inserted (0 = not allocated yet) */
static const uint8_t *vp_xkey = 0;  /* key pointer given to the running insert */
static unsigned vp_xset = 0;        /* bit j: x->next[j] has been stored by the running insert */
static unsigned vp_linked[5];       /* bit i: node k is linked into level i (head: all levels) */
static int vp_done[5];              /* node k was inserted by a completed insert */
static const uint8_t *vp_key[5];    /* ghost: key pointer of node k */
static uint8_t vp_kb[5];            /* ghost: key byte of node k */
static int vp_mh_stores = 0, vp_mh_loads = 0, vp_slot_loads = 0, vp_slot_stores = 0, vp_pub_stores = 0;
static int vp_events = 0;
static int vp_ins_stores = 0;       /* atomic store events of the running insert so far */
#ifdef VP_MIDREAD
static int vp_mid_at = -1, vp_mid_done = 0;
static uint8_t vp_mid_target[2];
#endif

void ldb_arena_init(ldb_arena_t *a) { (void)a; }
void ldb_arena_clear(ldb_arena_t *a) { (void)a; }

void *
ldb_arena_alloc_aligned(ldb_arena_t *a, size_t size) {
  int h;
  (void)a;
  VP_ASSERT(size >= sizeof(void *) * 2 && size <= sizeof(struct vp_node), "node size within a full-height node");
  VP_ASSERT((size % sizeof(void *)) == 0, "node size is key + whole pointers");
  VP_ASSERT(nd_used < VP_NODES, "vp-model: node pool exhausted");
  h = (int)(size / sizeof(void *)) - 1;
  nd_height[nd_used] = h;
  if (vp_phase == VP_PH_INSERT) {
    VP_ASSERT(vp_x == 0, "one node allocated per insert");
    vp_x = nd_used;
  } else {
    VP_ASSERT(vp_phase == VP_PH_INIT && nd_used == 0 && h == VP_MAXH, "the head is the first node and has full height");
  }
  return ndp[nd_used++];
}

/* ---- random height ---------------------------------------------------- */
/* VP_HS (optional): decimal digits, one per insert, first insert = most
   significant digit: the node heights of this query.  Without it heights are
   symbolic in 1..VP_HEIGHT. */
static int flips = 0;
static int vp_want_h = 1;
void ldb_rand_init(ldb_rand_t *r, uint32_t seed) { r->seed = seed; }
int
ldb_rand_one_in(ldb_rand_t *r, uint32_t n) {
  (void)r; (void)n;
#ifdef VP_HS
  if (flips + 1 >= vp_want_h)
    return 0;
  flips++;
  return 1;
#else
  if (flips + 1 >= VP_HEIGHT)
    return 0;
  if (vp_bool()) { flips++; return 1; }
  return 0;
#endif
}

/* ---- comparator: first data byte of a 1-byte key ----------------------- */
static int
vp_compare(const ldb_comparator_t *c, const ldb_slice_t *x, const ldb_slice_t *y) {
  (void)c;
  VP_ASSERT(x->size == 1 && y->size == 1, "keys handed to the comparator are the stored 1-byte keys");
  return (int)x->data[0] - (int)y->data[0];
}
static ldb_comparator_t vp_cmp;

/* ---- reference view of the list (plain reads) -------------------------- */
static int
vp_index_of(const void *p) {
  int k, r = -1;
  for (k = 0; k < VP_NODES; k++)
    if (k < nd_used && p == (const void *)ndp[k])
      r = k;
  return r;
}

/* Node k is complete for a reader that arrives at it on level lvl. */
static int
vp_complete(int k, int lvl) {
  unsigned need = (1u << (lvl + 1)) - 1u;
  if (vp_done[k])
    return nd_height[k] > lvl && ndp[k]->key == vp_key[k];
  if (k == vp_x && vp_phase == VP_PH_INSERT)
    return nd_height[k] > lvl && ndp[k]->key == vp_xkey && (vp_xset & need) == need;
  return 0;
}

static void
vp_check_lists(int final) {
  int lvl, steps, k, kk;
  unsigned below = 0, seen;
  for (lvl = 0; lvl < VP_LEVELS; lvl++) {
    void *p = nd0.next[lvl];
    int have = 0;
    uint8_t pk = 0;
    seen = 0;
    for (steps = 0; steps < VP_N; steps++) {
      if (p == NULL)
        break;
      k = vp_index_of(p);
      VP_ASSERT(k >= 1, "C10.c(v) a level list reaches only nodes of this list");
      VP_ASSERT(k < 1 || vp_complete(k, lvl), "C10.c(v) every node a reader can reach on a level is complete and tall enough for it");
      for (kk = 1; kk < VP_NODES; kk++) {
        if (kk == k) {
          uint8_t kb = (kk == vp_x && !vp_done[kk]) ? vp_xkey[1] : vp_kb[kk];
          VP_ASSERT(!have || pk < kb, "C10.c(v) every level is strictly sorted");
          VP_ASSERT((seen & (1u << kk)) == 0, "C10.c(v) no node twice on a level");
          pk = kb;
          have = 1;
          seen |= 1u << kk;
          p = ndp[kk]->next[lvl];
        }
      }
      if (k < 1)
        break;
    }
    VP_ASSERT(p == NULL, "C10.c(v) every level ends with NULL within the number of nodes");
    if (lvl == 0) {
      for (kk = 1; kk < VP_NODES; kk++)
        VP_ASSERT(!vp_done[kk] || (seen & (1u << kk)), "C10.c(v) level 0 contains every previously inserted key");
      if (final)
        VP_ASSERT(vp_x >= 1 && (seen & (1u << vp_x)), "C10.c(v) after the insert level 0 contains the new key");
    } else {
      VP_ASSERT((seen & ~below) == 0, "C10.c(v) each level is a sub-list of the level below");
    }
    if (final && vp_x >= 1)
      VP_ASSERT(((seen >> vp_x) & 1u) == (unsigned)(nd_height[vp_x] > lvl), "C10.c(v) after the insert the new node is linked on exactly its levels");
    below = seen;
  }
}

#ifdef VP_MIDREAD
/* The REAL reader between two stores of the running insert. */
static void
vp_mid_reader(void) {
  ldb_skipiter_t it;
  int kk, best = -1, xin;
  uint8_t bk = 0, t = vp_mid_target[1];
  ldb_skipiter_init(&it, &vp_list);
  ldb_skipiter_seek(&it, vp_mid_target);
  /* reference answer over the completed keys; x may or may not be visible */
  for (kk = 1; kk < VP_NODES; kk++)
    if (vp_done[kk] && vp_kb[kk] >= t && (best < 0 || vp_kb[kk] < bk)) { best = kk; bk = vp_kb[kk]; }
  xin = (vp_x >= 1 && (vp_linked[vp_x] & 1u) && vp_xkey[1] >= t && (best < 0 || vp_xkey[1] < bk));
  if (xin) {
    VP_ASSERT(ldb_skipiter_valid(&it) && it.node == (ldb_skipnode_t *)ndp[vp_x], "C10.c(v) real reader mid-insert: finds x once x is linked on level 0");
#if (VP_HS % 10) > 1
    VP_WITNESS("midread-x");   /* only a taller node is visible on level 0 while stores are still to come */
#endif
  } else if (best >= 0) {
    VP_ASSERT(ldb_skipiter_valid(&it) && vp_index_of(it.node) == best, "C10.c(v) real reader mid-insert: finds the first old key >= target");
#if VP_N > 1
    VP_WITNESS("midread-old");
#endif
  } else {
    VP_ASSERT(!ldb_skipiter_valid(&it), "C10.c(v) real reader mid-insert: nothing >= target");
  }
  if (ldb_skipiter_valid(&it)) {
    ldb_skipiter_next(&it);
    VP_ASSERT(!ldb_skipiter_valid(&it) || vp_index_of(it.node) >= 1, "C10.c(v) real reader mid-insert: next stays inside the list");
  }
}
#endif

/* ---- the monitor ------------------------------------------------------- */
void
ldb_verif_atomic_event(const volatile void *object, int kind, int order, long value) {
  int k, i, nk = -1, ni = -1, is_mh;

  if (vp_busy) {
    /* events of the real reader run from inside the monitor: loads only */
    VP_ASSERT(kind == 0, "C10.c(iii) a reader performs no atomic store");
    if (object != (const volatile void *)&vp_list.max_height)
      VP_ASSERT(VP_GE_ACQUIRE(order), "C10.c(iii) reader next-pointer loads are acquire (mid-insert reader)");
    return;
  }
  vp_busy = 1;
  vp_events++;

  VP_ASSERT(VP_IS_ORDER(order), "memory order argument is one of the six orders");
  VP_ASSERT(kind == 0 || kind == 1, "the skip list uses atomic loads and stores only");

  is_mh = (object == (const volatile void *)&vp_list.max_height);
  if (!is_mh) {
    /* which node, which level: one object test per node, the level from the offset */
    for (k = 0; k < VP_NODES; k++) {
      if (k < nd_used && VP_SAME_OBJECT(object, ndp[k])) {
        size_t off = VP_OFFSET_IN(object, ndp[k]);
        nk = k;
        VP_ASSERT(off >= sizeof(void *) && (off % sizeof(void *)) == 0 && off < sizeof(struct vp_node), "atomic access inside a node hits a next[] slot");
        ni = (int)(off / sizeof(void *)) - 1;
      }
    }
    VP_ASSERT(nk >= 0, "vp-model: atomic access to an object the monitor does not know");
    VP_ASSERT(nk < 0 || ni < nd_height[nk], "C10.c(vi) next[i] accessed only below the node's allocated height");
  }

  if (kind == 1 && vp_phase == VP_PH_INSERT) {
    /* (v) the state a reader sees right now, i.e. after the previous store */
    vp_ins_stores++;
    vp_check_lists(0);
#ifdef VP_MIDREAD
    if (vp_mid_at == vp_ins_stores && !vp_mid_done) {
      vp_mid_done = 1;
      vp_mid_reader();
    }
#endif
  }

  if (is_mh) {
    if (kind == 1) {
      vp_mh_stores++;
      VP_ASSERT(vp_phase == VP_PH_INIT || vp_phase == VP_PH_INSERT, "C10.c(iv) max_height is stored only by init/insert");
      VP_ASSERT(value >= 1 && value <= VP_MAXH, "C10.c(iv) max_height stays within 1..12");
      if (vp_phase == VP_PH_INSERT)
        VP_ASSERT(value > (long)vp_list.max_height, "C10.c(iv) max_height only grows");
    } else {
      vp_mh_loads++;
    }
  } else if (kind == 0) {
    vp_slot_loads++;
    if (vp_phase == VP_PH_READ)
      VP_ASSERT(VP_GE_ACQUIRE(order), "C10.c(iii) reader next-pointer loads are acquire");
    /* the inserting thread is the only writer: its own loads may be relaxed */
  } else if (vp_phase == VP_PH_INIT) {
    vp_slot_stores++;
    VP_ASSERT(nk == 0 && value == 0, "init stores NULL into the head only");
  } else {
    unsigned at_or_above = ~((1u << ni) - 1u);
    int visible = (nk >= 0 && (vp_linked[nk < 0 ? 0 : nk] & at_or_above) != 0);
    vp_slot_stores++;
    VP_ASSERT(vp_phase == VP_PH_INSERT, "C10.c(iii) a reader performs no atomic store");
    if (vp_phase == VP_PH_INSERT) {
      if (visible) {
        vp_pub_stores++;
        VP_ASSERT(VP_GE_RELEASE(order), "C10.c(i) a store into a slot readers can reach is a release store");
        VP_ASSERT(vp_x >= 1 && value == (long)(void *)ndp[vp_x], "C10.c(i) an insert stores only its new node into reachable slots");
        if (vp_x >= 1) {
          unsigned need = (1u << (ni + 1)) - 1u;
          VP_ASSERT(nk != vp_x, "C10.c(i) the new node is never linked to itself");
          VP_ASSERT(ndp[vp_x]->key == vp_xkey, "C10.c(ii) x->key is set before x is published");
          VP_ASSERT(ni < nd_height[vp_x], "C10.c(ii) x is published only on levels it has");
          VP_ASSERT((vp_xset & need) == need, "C10.c(ii) x->next[0..i] are stored before x is published on level i");
          for (k = 0; k < VP_NODES; k++)
            if (k == nk)
              VP_ASSERT(ndp[vp_x]->next[ni] == ndp[k]->next[ni], "C10.c(ii) x->next[i] already holds the successor the slot has now");
          vp_linked[vp_x] |= 1u << ni;
        }
      } else {
        VP_ASSERT(nk == vp_x && vp_x >= 1, "C10.c(i) the only unreachable slots an insert stores to are those of its new node");
        vp_xset |= 1u << ni;
      }
    }
  }
  vp_busy = 0;
}

/* ---- driver ------------------------------------------------------------ */
static uint8_t e_key[VP_N + 1][2];   /* length-prefixed: {1, byte} */

static void
vp_insert(int n) {
  int old_mh = (int)vp_list.max_height, stores0 = vp_mh_stores, loads0 = vp_mh_loads;
  int pub0 = vp_pub_stores, j, h;
  vp_x = 0;
  vp_xset = 0;
  vp_ins_stores = 0;
  vp_xkey = &e_key[0][0] + n * 2;
  flips = 0;
#ifdef VP_HS
  {
    int d = VP_HS, q;
    for (q = n + 1; q < VP_N; q++)
      d /= 10;
    vp_want_h = d % 10;
    VP_ASSERT(vp_want_h >= 1 && vp_want_h <= VP_HEIGHT, "vp-model: VP_HS digit within 1..VP_HEIGHT");
  }
#endif
  vp_phase = VP_PH_INSERT;
  ldb_skiplist_insert(&vp_list, vp_xkey);
  VP_ASSERT(vp_x >= 1, "insert allocates its node");
  vp_check_lists(1);
  vp_phase = VP_PH_IDLE;
  h = nd_height[vp_x];
  VP_ASSERT(h == flips + 1, "node allocated with the drawn height");
  VP_ASSERT(vp_pub_stores - pub0 == h, "C10.c(i) one publishing store per level of the new node");
  VP_ASSERT(vp_mh_loads > loads0, "C10.c(iv) max_height is read through the atomic accessor");
  VP_ASSERT((int)vp_list.max_height == (h > old_mh ? h : old_mh), "max_height is the tallest node");
  VP_ASSERT(((int)vp_list.max_height != old_mh) == (vp_mh_stores != stores0), "C10.c(iv) max_height changes only through the atomic store");
  vp_done[vp_x] = 1;
  vp_key[vp_x] = vp_xkey;
  vp_kb[vp_x] = vp_xkey[1];
  for (j = 0; j < VP_MAXH; j++)
    if (j < h)
      VP_ASSERT(vp_linked[vp_x] & (1u << j), "new node linked on each of its levels");
#if VP_HEIGHT > 1
  if (h > 1) VP_WITNESS("tall-node");
  if (h > old_mh) VP_WITNESS("max-height-grows");
#endif
}

void
harness(void) {
  int i, j, loads0, mh0, n, expect, best;
  ldb_skipiter_t it;
  uint8_t target[2], bk;

  vp_cmp.name = "vp";
  vp_cmp.compare = vp_compare;
  vp_cmp.shortest_separator = NULL;
  vp_cmp.short_successor = NULL;
  vp_cmp.user_comparator = NULL;
  vp_cmp.state = NULL;

  vp_linked[0] = (1u << VP_MAXH) - 1u;   /* every head slot is reachable by a reader that saw a large max_height */
  vp_phase = VP_PH_INIT;
  ldb_skiplist_init(&vp_list, &vp_cmp, (ldb_arena_t *)0, (struct ldb_mutex_s *)0);
  vp_phase = VP_PH_IDLE;
  VP_ASSERT(vp_mh_stores == 1 && (int)vp_list.max_height == 1, "C10.c(iv) init sets max_height = 1 through the atomic macro");
  VP_ASSERT(vp_slot_stores == VP_MAXH, "init stores every head pointer through the atomic accessor");
  for (j = 0; j < VP_MAXH; j++)
    VP_ASSERT(nd0.next[j] == NULL, "head pointers start NULL");

  for (i = 0; i < VP_N; i++) {
    e_key[i][0] = 1;
    e_key[i][1] = vp_u8();
    for (j = 0; j < i; j++)
      VP_ASSUME(e_key[j][1] != e_key[i][1]);   /* REQUIRES: no duplicate insertion */
  }
#ifdef VP_MIDREAD
  vp_mid_target[0] = 1;
  vp_mid_target[1] = vp_u8();
#endif
  for (i = 0; i < VP_N; i++) {
#ifdef VP_MIDREAD
    if (i == VP_N - 1) {
      /* which store event of the last insert the reader runs at */
      vp_mid_at = vp_u8();
      VP_ASSUME(vp_mid_at >= 1 && vp_mid_at <= 2 * VP_HEIGHT + 1);
    }
#endif
    vp_insert(i);
  }

  /* ---- readers on the quiescent list (VP_RD: 0 none, 1 seek+next, 2 last+prev, 3 first+contains) */
#if VP_RD != 0
  target[0] = 1;
  target[1] = vp_u8();
  vp_phase = VP_PH_READ;
  ldb_skipiter_init(&it, &vp_list);
  best = -1; bk = 0;
  for (j = 1; j < VP_NODES; j++)
    if (vp_kb[j] >= target[1] && (best < 0 || vp_kb[j] < bk)) { best = j; bk = vp_kb[j]; }
#endif

#if VP_RD == 1
  loads0 = vp_slot_loads; mh0 = vp_mh_loads;
  ldb_skipiter_seek(&it, target);
  VP_ASSERT(vp_mh_loads > mh0, "C10.c(iv) seek reads max_height through the atomic accessor");
  VP_ASSERT(vp_slot_loads > loads0, "C10.c(iii) seek follows pointers through the atomic accessor");
  VP_ASSERT(ldb_skipiter_valid(&it) == (best >= 0), "seek: valid iff some key >= target");
  VP_ASSERT(best < 0 || it.node == (ldb_skipnode_t *)ndp[best], "seek: first key >= target");
  n = 0;
  while (ldb_skipiter_valid(&it) && n <= VP_N) {
    uint8_t cur = ldb_skipiter_key(&it)[1];
    loads0 = vp_slot_loads;
    ldb_skipiter_next(&it);
    VP_ASSERT(vp_slot_loads == loads0 + 1, "C10.c(iii) next follows exactly one pointer, through the atomic accessor");
    VP_ASSERT(!ldb_skipiter_valid(&it) || ldb_skipiter_key(&it)[1] > cur, "next: ascending");
    n++;
  }
  expect = 0;
  for (j = 1; j < VP_NODES; j++)
    if (vp_kb[j] >= target[1]) expect++;
  VP_ASSERT(n == expect, "seek + next yields every key >= target once");
  if (n == VP_N) VP_WITNESS("read-all");
#elif VP_RD == 2
  loads0 = vp_slot_loads; mh0 = vp_mh_loads;
  ldb_skipiter_last(&it);
  VP_ASSERT(vp_mh_loads > mh0 && vp_slot_loads > loads0, "C10.c(iii,iv) last goes through the atomic accessors");
  VP_ASSERT(ldb_skipiter_valid(&it) == (VP_N > 0), "last: valid iff non-empty");
  if (ldb_skipiter_valid(&it)) {
    uint8_t cur = ldb_skipiter_key(&it)[1];
    for (j = 1; j < VP_NODES; j++)
      VP_ASSERT(vp_kb[j] <= cur, "last: the maximum");
    loads0 = vp_slot_loads; mh0 = vp_mh_loads;
    ldb_skipiter_prev(&it);
    VP_ASSERT(vp_mh_loads > mh0 && vp_slot_loads > loads0, "C10.c(iii,iv) prev goes through the atomic accessors");
    VP_ASSERT(ldb_skipiter_valid(&it) == (VP_N > 1), "prev: valid iff a smaller key exists");
    if (ldb_skipiter_valid(&it)) {
      VP_ASSERT(ldb_skipiter_key(&it)[1] < cur, "prev: descending");
#if VP_N > 1
      VP_WITNESS("prev");
#endif
    }
  }
  (void)n; (void)expect;
#elif VP_RD == 3
  loads0 = vp_slot_loads;
  ldb_skipiter_first(&it);
  VP_ASSERT(vp_slot_loads == loads0 + 1, "C10.c(iii) first loads head->next[0] through the atomic accessor");
  VP_ASSERT(ldb_skipiter_valid(&it) == (VP_N > 0), "first: valid iff non-empty");
  loads0 = vp_slot_loads; mh0 = vp_mh_loads;
  VP_ASSERT(ldb_skiplist_contains(&vp_list, target) == (best >= 0 && bk == target[1]), "contains: exact membership");
  VP_ASSERT(vp_mh_loads > mh0 && vp_slot_loads > loads0, "C10.c(iii,iv) contains goes through the atomic accessors");
#if VP_N > 0
  if (best >= 0 && bk == target[1]) VP_WITNESS("contains-hit");
#endif
  (void)n; (void)expect;
#else
  (void)n; (void)expect; (void)best; (void)bk; (void)loads0; (void)mh0; (void)it; (void)target;
#endif
  vp_phase = VP_PH_IDLE;

#ifdef VP_MIDREAD
  if (vp_mid_done) VP_WITNESS("midread-ran");
#endif
  VP_WITNESS("end");
}
