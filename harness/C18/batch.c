/* C18.b -- write_batch.c ldb_batch_iterate on a batch whose representation is
 * VP_N arbitrary bytes, with a recording handler.  Reference: the WriteBatch
 * format comment of LevelDB (12-byte header: fixed64 sequence, fixed32 count;
 * records: 0x01 varstring varstring | 0x00 varstring).
 * Asserted: status OK iff the reference parses the whole input and the count
 * field equals the number of records; the handler saw exactly the records
 * the reference decodes before the first malformed one, each key/value slice
 * lying inside the input. */
#include "vp.h"
#include "C18/ref.h"
#include "util/buffer.h"
#include "util/slice.h"
#include "util/status.h"
#include "dbformat.h"
#include "write_batch.h"

#ifndef VP_N
#define VP_N 16
#endif

#define VP_MAXREC (VP_N / 2 + 2)

static const uint8_t *vp_in;
static int vp_calls;
static int vp_kind[VP_MAXREC];
static size_t vp_koff[VP_MAXREC], vp_klen[VP_MAXREC], vp_voff[VP_MAXREC], vp_vlen[VP_MAXREC];

static void
vp_rec_put(ldb_handler_t *h, const ldb_slice_t *key, const ldb_slice_t *value) {
  VP_ASSERT(vp_calls < VP_MAXREC, "more handler calls than records fit in the input");
  VP_ASSERT(key->data >= vp_in && key->data + key->size <= vp_in + VP_N, "put key inside input");
  VP_ASSERT(value->data >= vp_in && value->data + value->size <= vp_in + VP_N, "put value inside input");
  if (vp_calls < VP_MAXREC) {
    vp_kind[vp_calls] = 1;
    vp_koff[vp_calls] = (size_t)(key->data - vp_in);
    vp_klen[vp_calls] = key->size;
    vp_voff[vp_calls] = (size_t)(value->data - vp_in);
    vp_vlen[vp_calls] = value->size;
  }
  vp_calls++;
  h->number++;
}

static void
vp_rec_del(ldb_handler_t *h, const ldb_slice_t *key) {
  VP_ASSERT(vp_calls < VP_MAXREC, "more handler calls than records fit in the input");
  VP_ASSERT(key->data >= vp_in && key->data + key->size <= vp_in + VP_N, "del key inside input");
  if (vp_calls < VP_MAXREC) {
    vp_kind[vp_calls] = 0;
    vp_koff[vp_calls] = (size_t)(key->data - vp_in);
    vp_klen[vp_calls] = key->size;
    vp_voff[vp_calls] = 0;
    vp_vlen[vp_calls] = 0;
  }
  vp_calls++;
  h->number++;
}

void
harness(void) {
  uint8_t *in = vp_input(VP_N);
  ldb_batch_t batch;
  ldb_handler_t handler;
  int rc;
  /* reference state */
  size_t pos, c, off, len, off2, len2;
  int rn = 0, rbad = 0, rok;

  vp_fill(in, VP_N);
  vp_in = in;
  vp_calls = 0;

  batch.rep.data = in;
  batch.rep.size = VP_N;
  batch.rep.alloc = 0;

  handler.state = NULL;
  handler.number = 0;
  handler.put = vp_rec_put;
  handler.del = vp_rec_del;

  rc = ldb_batch_iterate(&batch, &handler);

  VP_ASSERT(rc == LDB_OK || rc == LDB_CORRUPTION, "iterate returns OK or CORRUPTION");

  /* reference decode, checking the recorded handler calls as it goes */
  if (VP_N < 12) {
    rok = 0;
    VP_ASSERT(vp_calls == 0, "no handler call on a too-small batch");
  } else {
    pos = 12;
    while (pos < VP_N && !rbad) {
      uint8_t tag = in[pos];
      pos++;
      if (tag == 1) {
        c = vp_ref_lps(in, VP_N, pos, &off, &len);
        if (c == 0) { rbad = 1; break; }
        pos += c;
        c = vp_ref_lps(in, VP_N, pos, &off2, &len2);
        if (c == 0) { rbad = 1; break; }
        pos += c;
        VP_ASSERT(rn < vp_calls, "handler saw every well-formed put");
        if (rn < vp_calls && rn < VP_MAXREC) {
          VP_ASSERT(vp_kind[rn] == 1, "record kind == reference (put)");
          VP_ASSERT(vp_koff[rn] == off && vp_klen[rn] == len, "put key == reference");
          VP_ASSERT(vp_voff[rn] == off2 && vp_vlen[rn] == len2, "put value == reference");
        }
        rn++;
      } else if (tag == 0) {
        c = vp_ref_lps(in, VP_N, pos, &off, &len);
        if (c == 0) { rbad = 1; break; }
        pos += c;
        VP_ASSERT(rn < vp_calls, "handler saw every well-formed delete");
        if (rn < vp_calls && rn < VP_MAXREC) {
          VP_ASSERT(vp_kind[rn] == 0, "record kind == reference (delete)");
          VP_ASSERT(vp_koff[rn] == off && vp_klen[rn] == len, "delete key == reference");
        }
        rn++;
      } else {
        rbad = 1;
      }
    }
    VP_ASSERT(vp_calls == rn, "handler calls == records the reference decodes before the first error");
    VP_ASSERT(handler.number == (uint64_t)rn, "handler state advanced once per record");
    rok = !rbad && vp_ref_le32(in, 8) == (uint32_t)rn;
  }

  VP_ASSERT((rc == LDB_OK) == (rok != 0), "iterate accepts iff reference accepts (incl. count field)");

  if (rc == LDB_OK) {
#if VP_N == 12 || VP_N >= 14   /* 13 bytes cannot hold a complete record */
    VP_WITNESS("batch-accept");
#endif
  } else {
    VP_WITNESS("batch-reject");
  }
}
