/* C18.j -- filename.c ldb_parse_filename and util/strutil.c ldb_decode_int /
 * ldb_starts_with on an arbitrary NUL-terminated string of exactly VP_N
 * characters (exact-size object: reading past the terminator is caught).
 * Reference: LevelDB's owned file names (filename.cc comment):
 *   CURRENT | LOCK | LOG | LOG.old | MANIFEST-[0-9]+ | [0-9]+.(log|sst|ldb|dbtmp)
 * with the number a decimal uint64 (overflow => not a database file).
 * VP_MODE 0: arbitrary characters; for VP_N > 7 restricted (assumption) to
 *   strings whose leading digit run is <= 7 digits: proving that the decoder
 *   does NOT report overflow on a long symbolic digit run is a decimal/binary
 *   range argument that SAT does not finish (measured: 8 digits 60 s,
 *   10 digits 250 s, 12 digits > 300 s).
 * VP_MODE 1: uint64 boundary: concrete prefix "18446744073709551" (+"6" /
 *   +"61" for VP_N 20 / 21) followed by 2 arbitrary characters, so that both
 *   sides of 18446744073709551615 and the 21-digit case are decided.
 * VP_MODE 2: all VP_N characters are digits (thorough tier, long digit runs). */
#include "vp.h"
#include "util/strutil.h"
#include "util/slice.h"
#include "filename.h"

#ifndef VP_N
#define VP_N 8
#endif
#ifndef VP_MODE
#define VP_MODE 0
#endif

static int
vp_is(const char *s, size_t n, const char *lit, size_t ln) {
  size_t i;
  if (n != ln)
    return 0;
  for (i = 0; i < ln; i++) {
    if (s[i] != lit[i])
      return 0;
  }
  return 1;
}

/* decimal prefix of s[pos..n): returns number of digits, value (mod 2^64) in
 * *v, *ovf set when the value does not fit 64 bits.  Overflow is decided on
 * the digit string itself (no arithmetic): more than 20 significant digits,
 * or 20 significant digits that compare above "18446744073709551615". */
static size_t
vp_ref_digits(const char *s, size_t n, size_t pos, uint64_t *v, int *ovf) {
  static const char vp_max[21] = "18446744073709551615";
  uint64_t x = 0;
  size_t k = 0, lead = 0, sig, i;
  int cmp = 0;
  while (pos + k < n && s[pos + k] >= '0' && s[pos + k] <= '9') {
    x = x * 10 + (uint64_t)(s[pos + k] - '0');
    k++;
  }
  *v = x;
  *ovf = 0;
  if (k >= 20) {
    while (lead < k && s[pos + lead] == '0')
      lead++;
    sig = k - lead;
    if (sig > 20) {
      *ovf = 1;
    } else if (sig == 20) {
      for (i = 0; i < 20 && cmp == 0; i++) {
        if (s[pos + lead + i] != vp_max[i])
          cmp = s[pos + lead + i] < vp_max[i] ? -1 : 1;
      }
      *ovf = cmp > 0;
    }
  }
  return k;
}

void
harness(void) {
  char *s = (char *)vp_input(VP_N + 1);
  size_t i;

  for (i = 0; i < VP_N; i++) {
    s[i] = (char)vp_u8();
    VP_ASSUME(s[i] != 0);
#if VP_MODE == 2
    VP_ASSUME(s[i] >= '0' && s[i] <= '9');
#endif
  }
  s[VP_N] = 0;
#if VP_MODE == 1
  {
    static const char vp_prefix[20] = "1844674407370955161";
    for (i = 0; i + 2 < VP_N; i++)
      s[i] = vp_prefix[i];
  }
#endif
#if VP_MODE == 0 && VP_N > 7
  {
    size_t run = 0;
    while (run < VP_N && s[run] >= '0' && s[run] <= '9')
      run++;
    VP_ASSUME(run <= 7);
  }
#endif

  {
    /* ldb_decode_int */
    const char *p = s;
    uint64_t z = 0, rv;
    int ovf, ok;
    size_t k = vp_ref_digits(s, VP_N, 0, &rv, &ovf);

    ok = ldb_decode_int(&z, &p);
    VP_ASSERT(ok == (k > 0 && !ovf), "decode_int accepts iff >= 1 digit and the value fits uint64");
    if (ok) {
      VP_ASSERT(z == rv, "decode_int value == reference");
      VP_ASSERT(p == s + k, "decode_int stops after the digits");
#if VP_N >= 1
      VP_WITNESS("decode-int-accept");
#endif
    } else {
      VP_ASSERT(p == s, "decode_int failure leaves the cursor");
#if VP_MODE == 0 || (VP_MODE == 1 && VP_N >= 20)
      VP_WITNESS("decode-int-reject");
#endif
    }
  }

#if VP_MODE == 0
  {
    /* ldb_parse_filename */
    ldb_filetype_t type = (ldb_filetype_t)99;
    uint64_t num = 12345, rv = 0;
    int ovf = 0, ok, rok = 0;
    int rtype = -1;
    size_t k;

    if (vp_is(s, VP_N, "CURRENT", 7)) { rok = 1; rtype = LDB_FILE_CURRENT; }
    else if (vp_is(s, VP_N, "LOCK", 4)) { rok = 1; rtype = LDB_FILE_LOCK; }
    else if (vp_is(s, VP_N, "LOG", 3) || vp_is(s, VP_N, "LOG.old", 7)) { rok = 1; rtype = LDB_FILE_INFO; }
    else if (VP_N >= 9 && vp_is(s, 9, "MANIFEST-", 9)) {
      k = vp_ref_digits(s, VP_N, 9, &rv, &ovf);
      if (k > 0 && !ovf && 9 + k == VP_N) { rok = 1; rtype = LDB_FILE_DESC; }
    } else {
      k = vp_ref_digits(s, VP_N, 0, &rv, &ovf);
      if (k > 0 && !ovf) {
        if (vp_is(s + k, VP_N - k, ".log", 4)) { rok = 1; rtype = LDB_FILE_LOG; }
        else if (vp_is(s + k, VP_N - k, ".sst", 4) || vp_is(s + k, VP_N - k, ".ldb", 4)) { rok = 1; rtype = LDB_FILE_TABLE; }
        else if (vp_is(s + k, VP_N - k, ".dbtmp", 6)) { rok = 1; rtype = LDB_FILE_TEMP; }
      }
    }

    ok = ldb_parse_filename(&type, &num, s);
    VP_ASSERT(ok == rok, "parse_filename accepts exactly the owned file names");
    if (ok) {
      VP_ASSERT((int)type == rtype, "parse_filename type == reference");
      VP_ASSERT(num == rv, "parse_filename number == reference");
#if VP_N >= 3
      VP_WITNESS("parse-accept");
#endif
    } else {
      VP_WITNESS("parse-reject");
    }

    VP_ASSERT(ldb_starts_with(s, "MANIFEST-") == (VP_N >= 9 && vp_is(s, 9, "MANIFEST-", 9)), "starts_with == reference");
  }
#endif
}
