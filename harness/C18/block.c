/* C18.e -- table/block.c: ldb_block_init, ldb_blockiter_create and every
 * iterator operation on a block whose contents are VP_N arbitrary bytes.
 *
 * block.c is #included so that the static iterator functions can be called
 * without going through the ldb_itertbl_t function-pointer table.
 *
 * VP_OP1..VP_OP3: operation sequence, 0 none, 1 first, 2 last, 3 seek(target of
 * VP_T arbitrary bytes), 4 next, 5 prev, 6 seek(second arbitrary target)
 * (next/prev are only issued while the iterator is valid: their documented
 * precondition).
 * VP_IKC: 0 bytewise comparator, 1 internal-key comparator over bytewise.
 *
 * Reference (table_format.md): block = entries, restart array (fixed32 each),
 * fixed32 num_restarts; entry = varint32 shared, varint32 non_shared,
 * varint32 value_length, key delta, value; shared == 0 at a restart point.
 *
 * Asserted after every operation:
 *  - status is OK or CORRUPTION, CORRUPTION implies !valid;
 *  - valid implies: the entry at the iterator's offset decodes (reference),
 *    lies before the restart array, key length == shared + non_shared, key
 *    suffix == the entry's delta bytes, value slice == the entry's value bytes
 *    (inside the input), shared <= previous key length;
 *  - first / first,next.. : exactly the reference's sequential decode from
 *    restart point 0 (valid/invalid, corruption flag, full key, value);
 *  - last: the reference's sequential decode from the last restart point;
 *  - seek: valid implies key >= target (reference order); internal-key mode
 *    with a target < 8 bytes gives CORRUPTION;
 *  - prev: valid implies the iterator moved strictly backwards.
 */
#include "vp.h"
#include "C18/ref.h"
#include "table/block.c"
#include "dbformat.h"

#ifndef VP_N
#define VP_N 12
#endif
#ifndef VP_T
#define VP_T 2
#endif
#ifndef VP_OP1
#define VP_OP1 1
#endif
#ifndef VP_OP2
#define VP_OP2 0
#endif
#ifndef VP_OP3
#define VP_OP3 0
#endif
#ifndef VP_IKC
#define VP_IKC 0
#endif

#define VP_KMAX (VP_N + 1)

static const uint8_t *vp_in;
static size_t vp_roff;       /* reference: offset of the restart array */
static uint32_t vp_nrest;    /* reference: number of restart points */

/* reference entry decode at offset p (p < vp_roff): 0 = malformed */
static int
vp_ref_entry(size_t p, size_t *shared, size_t *non_shared, size_t *vlen, size_t *koff) {
  uint64_t a, b, c;
  size_t n1, n2, n3;
  if (vp_roff - p < 3)
    return 0;
  n1 = vp_ref_varint(vp_in, vp_roff, p, 5, &a);
  if (n1 == 0) return 0;
  n2 = vp_ref_varint(vp_in, vp_roff, p + n1, 5, &b);
  if (n2 == 0) return 0;
  n3 = vp_ref_varint(vp_in, vp_roff, p + n1 + n2, 5, &c);
  if (n3 == 0) return 0;
  a &= 0xffffffffu; b &= 0xffffffffu; c &= 0xffffffffu;
  if (b + c > vp_roff - (p + n1 + n2 + n3))
    return 0;
  *shared = (size_t)a;
  *non_shared = (size_t)b;
  *vlen = (size_t)c;
  *koff = p + n1 + n2 + n3;
  return 1;
}

/* reference cursor: sequential decode */
static uint8_t vp_rkey[VP_KMAX];
static size_t vp_rklen, vp_rvoff, vp_rvlen, vp_rpos, vp_rend;
static int vp_rvalid, vp_rcorrupt;

static void
vp_ref_start(size_t off) {
  vp_rklen = 0;
  vp_rend = off > vp_roff ? vp_roff : off;
  vp_rvalid = 0;
  vp_rcorrupt = 0;
}

static int
vp_ref_step(void) {
  size_t sh, ns, vl, ko, i;
  vp_rvalid = 0;
  if (vp_rend >= vp_roff)
    return 0;
  vp_rpos = vp_rend;
  if (!vp_ref_entry(vp_rpos, &sh, &ns, &vl, &ko) || sh > vp_rklen
      || (VP_IKC && sh + ns < 8)) {
    vp_rcorrupt = 1;
    return 0;
  }
  for (i = 0; i < ns && sh + i < VP_KMAX; i++)
    vp_rkey[sh + i] = vp_in[ko + i];
  vp_rklen = sh + ns;
  vp_rvoff = ko + ns;
  vp_rvlen = vl;
  vp_rend = ko + ns + vl;
  vp_rvalid = 1;
  return 1;
}

static int
vp_ref_bytewise(const uint8_t *a, size_t an, const uint8_t *b, size_t bn) {
  size_t i;
  for (i = 0; i < an && i < bn; i++) {
    if (a[i] != b[i])
      return a[i] < b[i] ? -1 : 1;
  }
  if (an != bn)
    return an < bn ? -1 : 1;
  return 0;
}

static int
vp_ref_order(const uint8_t *a, size_t an, const uint8_t *b, size_t bn) {
#if VP_IKC
  int r = vp_ref_bytewise(a, an - 8, b, bn - 8);
  if (r == 0) {
    uint64_t ta = vp_ref_le64(a, an - 8), tb = vp_ref_le64(b, bn - 8);
    if (ta > tb) r = -1;
    else if (ta < tb) r = 1;
  }
  return r;
#else
  return vp_ref_bytewise(a, an, b, bn);
#endif
}

/* invariants that must hold after every operation; st_before = status before
 * the operation (the status is sticky, as in LevelDB: a later seek may make a
 * once-corrupted iterator valid again) */
static void
vp_check_state(const ldb_blockiter_t *it, int st_before) {
  VP_ASSERT(it->status == LDB_OK || it->status == LDB_CORRUPTION, "iterator status is OK or CORRUPTION");
  VP_ASSERT(st_before == LDB_OK || it->status == st_before, "a corruption status is never cleared");
  VP_ASSERT(it->current <= it->restarts, "current offset never beyond the restart array");
  if (st_before == LDB_OK && it->status == LDB_CORRUPTION)
    VP_ASSERT(!ldb_blockiter_valid(it), "an operation that reports corruption leaves the iterator invalid");
  if (ldb_blockiter_valid(it)) {
    size_t sh = 0, ns = 0, vl = 0, ko = 0, i;
    int ok = vp_ref_entry(it->current, &sh, &ns, &vl, &ko);
    VP_ASSERT(ok, "valid iterator sits on an entry the reference can decode");
    VP_ASSERT(it->restart_index < it->num_restarts, "restart index in range");
    if (ok) {
      VP_ASSERT(it->key.size == sh + ns, "key length == shared + non_shared");
      VP_ASSERT(it->key.size <= it->key.alloc, "key buffer size within its allocation");
      VP_ASSERT(it->value.data == vp_in + ko + ns && it->value.size == vl, "value slice == the entry's value bytes");
      VP_ASSERT(it->value.data + it->value.size <= vp_in + vp_roff, "value ends before the restart array");
      if (it->key.size == sh + ns) {
        for (i = 0; i < ns; i++)
          VP_ASSERT(it->key.data[sh + i] == vp_in[ko + i], "key suffix == the entry's delta bytes");
      }
#if VP_IKC
      VP_ASSERT(it->key.size >= 8, "internal-key mode never yields a key shorter than 8 bytes");
#endif
    }
  }
}

/* iterator == reference cursor */
static void
vp_check_same(const ldb_blockiter_t *it, int st_before) {
  size_t i;
  VP_ASSERT(!ldb_blockiter_valid(it) == !vp_rvalid, "valid() == reference");
  if (st_before == LDB_OK)
    VP_ASSERT((it->status == LDB_CORRUPTION) == (vp_rcorrupt != 0), "corruption status == reference");
  if (ldb_blockiter_valid(it) && vp_rvalid) {
    VP_ASSERT(it->current == vp_rpos, "entry offset == reference");
    VP_ASSERT(it->key.size == vp_rklen, "key length == reference");
    if (it->key.size == vp_rklen) {
      for (i = 0; i < vp_rklen && i < VP_KMAX; i++)
        VP_ASSERT(it->key.data[i] == vp_rkey[i], "key bytes == reference");
    }
    VP_ASSERT(it->value.data == vp_in + vp_rvoff && it->value.size == vp_rvlen, "value == reference");
  }
}

static uint8_t *vp_target, *vp_target2;
static int vp_refmode;   /* 1 while the op sequence is still mirrored by the reference cursor */

static void
vp_do_op(ldb_blockiter_t *it, int op) {
  uint32_t before = it->current;
  int st_before = it->status;
  ldb_slice_t t;

  switch (op) {
  case 1:
    ldb_blockiter_first(it);
    vp_check_state(it, st_before);
    vp_ref_start(vp_ref_le32(vp_in, vp_roff));
    vp_ref_step();
    vp_refmode = 1;
    vp_check_same(it, st_before);
    break;
  case 2:
    ldb_blockiter_last(it);
    vp_check_state(it, st_before);
    vp_ref_start(vp_ref_le32(vp_in, vp_roff + 4 * (size_t)(vp_nrest - 1)));
    while (vp_ref_step() && vp_rend < vp_roff) {
    }
    vp_refmode = 0;
    vp_check_same(it, st_before);
    break;
  case 3:
  case 6:
    ldb_slice_set(&t, op == 3 ? vp_target : vp_target2, VP_T);
    ldb_blockiter_seek(it, &t);
    vp_check_state(it, st_before);
    vp_refmode = 0;
#if VP_IKC && VP_T < 8
    VP_ASSERT(it->status == LDB_CORRUPTION, "internal-key seek with a target < 8 bytes is reported as corruption");
#else
    if (ldb_blockiter_valid(it))
      VP_ASSERT(vp_ref_order(it->key.data, it->key.size, t.data, VP_T) >= 0, "seek lands on a key >= target");
#endif
    break;
  case 4:
    if (ldb_blockiter_valid(it)) {
      ldb_blockiter_next(it);
      vp_check_state(it, st_before);
      if (ldb_blockiter_valid(it))
        VP_ASSERT(it->current > before, "next moves strictly forward");
      if (vp_refmode) {
        vp_ref_step();
        vp_check_same(it, st_before);
      }
    }
    break;
  case 5:
    if (ldb_blockiter_valid(it)) {
      ldb_blockiter_prev(it);
      vp_check_state(it, st_before);
      vp_refmode = 0;
      if (ldb_blockiter_valid(it))
        VP_ASSERT(it->current < before, "prev moves strictly backward");
    }
    break;
  default:
    break;
  }
}

void
harness(void) {
  uint8_t *in = vp_input(VP_N);
  ldb_contents_t contents;
  ldb_block_t block;
  ldb_iter_t *iter;
  const ldb_comparator_t *cmp;
#if VP_IKC
  ldb_comparator_t ikc;
#endif
  int rbad;

  vp_fill(in, VP_N);
  vp_in = in;
  vp_target = vp_input(VP_T);
  vp_fill(vp_target, VP_T);
  vp_target2 = vp_input(VP_T);
  vp_fill(vp_target2, VP_T);

#if VP_IKC
  ldb_ikc_init(&ikc, ldb_bytewise_comparator);
  cmp = &ikc;
#else
  cmp = ldb_bytewise_comparator;
#endif

  contents.data.alloc = 0;
  ldb_slice_set(&contents.data, in, VP_N);
  contents.heap_allocated = 0;
  contents.cachable = 0;

  ldb_block_init(&block, &contents);

  /* reference: block trailer */
  rbad = 1;
  vp_nrest = 0;
  vp_roff = 0;
  if (VP_N >= 4) {
    vp_nrest = vp_ref_le32(in, VP_N - 4);
    if (vp_nrest <= (VP_N - 4) / 4) {
      rbad = 0;
      vp_roff = VP_N - 4 - 4 * (size_t)vp_nrest;
    }
  }
  VP_ASSERT((block.size == 0) == (rbad != 0), "block_init marks the block bad iff the trailer is inconsistent");
  if (!rbad)
    VP_ASSERT(block.size == VP_N && block.restart_offset == vp_roff && block.data == in, "block_init restart offset == reference");

  iter = ldb_blockiter_create(&block, cmp);

  if (rbad) {
    VP_ASSERT(iter->table != &ldb_blockiter_table, "bad block gives the empty iterator");
    VP_ASSERT(!iter->table->valid(iter->ptr), "empty iterator is not valid");
    VP_ASSERT(iter->table->status(iter->ptr) == LDB_CORRUPTION, "bad block contents reported as corruption");
    VP_WITNESS("bad-block");
  } else if (vp_nrest == 0) {
    VP_ASSERT(iter->table != &ldb_blockiter_table, "block without restart points gives the empty iterator");
    VP_ASSERT(iter->table->status(iter->ptr) == LDB_OK, "empty block is not an error");
#if VP_N >= 4
    VP_WITNESS("empty-block");
#endif
  } else {
    ldb_blockiter_t *it = iter->ptr;
    VP_ASSERT(iter->table == &ldb_blockiter_table, "well-formed trailer gives a block iterator");
    VP_ASSERT(it->restarts == vp_roff && it->num_restarts == vp_nrest && it->data == in, "iterator geometry == reference");
    VP_ASSERT(!ldb_blockiter_valid(it), "fresh iterator is not valid");

    vp_refmode = 0;
    vp_do_op(it, VP_OP1);
    vp_do_op(it, VP_OP2);
    vp_do_op(it, VP_OP3);

    if (ldb_blockiter_valid(it)) {
      ldb_slice_t k = ldb_blockiter_key(it);
      ldb_slice_t v = ldb_blockiter_value(it);
      VP_ASSERT(k.size == it->key.size && v.size == it->value.size, "key()/value() accessors");
#ifdef VP_WIT_VALID
      VP_WITNESS("ends-valid");
#endif
    } else if (it->status == LDB_CORRUPTION) {
#ifdef VP_WIT_CORRUPT
      VP_WITNESS("ends-corrupt");
#endif
    } else {
#if VP_N >= 8 && !defined(VP_NO_WIT_EXHAUSTED)
      VP_WITNESS("ends-exhausted");
#endif
    }
  }

  ldb_iter_destroy(iter);
}
