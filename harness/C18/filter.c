/* C18.f -- table/filter_block.c reader (ldb_filter_init / ldb_filter_matches)
 * on VP_N arbitrary bytes with a recording filter policy, and util/bloom.c
 * bloom_match on a VP_N-byte arbitrary filter (hash abstracted: ldb_hash is
 * an arbitrary 32-bit value).
 *
 * Reference (table_format.md, "filter" meta block):
 *   [filter 0] .. [filter k-1] [offset of filter i: fixed32]* [offset of the
 *   offset array: fixed32] [lg(base): 1 byte]
 * Reader: fewer than 5 bytes, or array offset > n-5  => no filters, every key
 * "may match".  index = block_offset >> lg (lcdb masks lg with 63, upstream
 * leaves a shift >= 64 undefined); index >= number of offsets => may match;
 * start/limit = offsets[index], offsets[index+1] (the word after the last
 * offset is the array offset itself); start <= limit <= array offset => ask
 * the policy about data[start, limit); start == limit => no match; anything
 * else is an error => may match. */
#include "vp.h"
#include "C18/ref.h"
#include "util/slice.h"
#include "util/bloom.h"
#include "table/filter_block.h"

#ifndef VP_N
#define VP_N 9
#endif
#ifndef VP_K
#define VP_K 3
#endif
#ifndef VP_MODE
#define VP_MODE 0
#endif

static const uint8_t *vp_in;
static int vp_called, vp_answer;
static size_t vp_foff, vp_flen;
static const uint8_t *vp_keyp;

static int
vp_policy_match(const ldb_bloom_t *bloom, const ldb_slice_t *filter, const ldb_slice_t *key) {
  (void)bloom;
  VP_ASSERT(filter->data >= vp_in && filter->data + filter->size <= vp_in + VP_N, "filter handed to the policy lies inside the block");
  VP_ASSERT(key->data == vp_keyp && key->size == VP_K, "key handed to the policy is the caller's key");
  vp_called++;
  vp_foff = (size_t)(filter->data - vp_in);
  vp_flen = filter->size;
  return vp_answer;
}

#if VP_MODE == 1
static uint32_t vp_hashval;
uint32_t
ldb_hash(const uint8_t *data, size_t size, uint32_t seed) {
  (void)data; (void)size; (void)seed;
  return vp_hashval;
}
#endif

void
harness(void) {
  uint8_t *in = vp_input(VP_N);
  uint8_t *keyb = vp_input(VP_K);
  ldb_slice_t contents, key;

  vp_fill(in, VP_N);
  vp_fill(keyb, VP_K);
  vp_in = in;
  vp_keyp = keyb;
  ldb_slice_set(&contents, in, VP_N);
  ldb_slice_set(&key, keyb, VP_K);

#if VP_MODE == 0
  {
    ldb_bloom_t policy;
    ldb_filter_t fr;
    uint64_t block_offset = vp_u64();
    int r;
    /* reference */
    size_t num = 0, aoff = 0;
    unsigned lg = 0;
    int expect_call = 0, expect = 1;
    size_t estart = 0, elimit = 0;

    vp_answer = vp_bool();
    vp_called = 0;

    policy.name = "vp.RecordingPolicy";
    policy.build = NULL;
    policy.match = vp_policy_match;
    policy.bits_per_key = 0;
    policy.k = 0;
    policy.user_policy = NULL;
    policy.state = NULL;

    ldb_filter_init(&fr, &policy, &contents);

    if (VP_N >= 5) {
      lg = in[VP_N - 1] & 63;
      aoff = vp_ref_le32(in, VP_N - 5);
      if (aoff <= VP_N - 5)
        num = (VP_N - 5 - aoff) / 4;
      else
        aoff = 0;
    }
    VP_ASSERT(fr.num == num, "filter_init number of filters == reference");
    if (num > 0)
      VP_ASSERT(fr.data == in && fr.offset == in + aoff && fr.base_lg == lg, "filter_init geometry == reference");

    r = ldb_filter_matches(&fr, block_offset, &key);

    if (num > 0 && (block_offset >> lg) < num) {
      size_t idx = (size_t)(block_offset >> lg);
      estart = vp_ref_le32(in, aoff + 4 * idx);
      elimit = vp_ref_le32(in, aoff + 4 * idx + 4);
      if (estart <= elimit && elimit <= aoff) {
        expect_call = 1;
        expect = vp_answer;
      } else if (estart == elimit) {
        expect = 0;
      }
    }
    VP_ASSERT(vp_called == expect_call, "policy consulted iff the reference finds a well-formed filter");
    if (expect_call && vp_called == 1)
      VP_ASSERT(vp_foff == estart && vp_flen == elimit - estart, "filter slice handed to the policy == reference");
    VP_ASSERT(r == expect, "filter_matches result == reference (errors are potential matches)");

    if (vp_called) {
#if VP_N >= 9
      VP_WITNESS("filter-consulted");
#endif
    } else if (r == 0) {
#if VP_N >= 13   /* needs two offsets: start == limit beyond the array offset */
      VP_WITNESS("filter-empty-nomatch");
#endif
    } else {
      VP_WITNESS("filter-maymatch");
    }
  }
#else
  {
    /* bloom_match on an arbitrary filter: k = last byte (> 30 reserved =>
     * match), bits = (len-1)*8, probe h + i*delta mod bits, delta = rotr17(h) */
    int r, expect = 1;
    uint32_t h, delta;
    size_t i;

    vp_hashval = vp_u32();
    r = ldb_bloom_match(ldb_bloom_default, &contents, &key);

    if (VP_N < 2) {
      expect = 0;
    } else if (in[VP_N - 1] <= 30) {
      uint32_t bits = (uint32_t)(VP_N - 1) * 8;
      h = vp_hashval;
      delta = (h >> 17) | (h << 15);
      for (i = 0; i < in[VP_N - 1]; i++) {
        uint32_t pos = h % bits;
        if (((in[pos >> 3] >> (pos & 7)) & 1) == 0) {
          expect = 0;
          break;
        }
        h += delta;
      }
    }
    VP_ASSERT(r == expect, "bloom_match on arbitrary filter bytes == reference probe sequence");
    if (r) {
#if VP_N >= 2
      VP_WITNESS("bloom-match");
#endif
    } else {
      VP_WITNESS("bloom-nomatch");
    }
  }
#endif
}
