/* C18.g -- util/snappy.c snappy_decode_size / snappy_decode on VP_N arbitrary
 * bytes (a compressed block).  The output buffer has exactly the announced
 * uncompressed length (as ldb_read_block allocates it); the harness bounds
 * that length by VP_OUT (precondition of this check, not of the decoder) and
 * right-aligns the buffer in a VP_OUT-byte object so that any write past the
 * announced length leaves the object.
 *
 * Reference: snappy format description (format_description.txt): preamble =
 * varint32 uncompressed length; elements by the low two tag bits: 00 literal
 * (length-1 in the upper 6 bits, 60..63 => 1..4 little-endian length bytes),
 * 01 copy with 1-byte offset (len 4..11, offset 11 bits), 10 copy 2-byte
 * offset (len 1..64), 11 copy 4-byte offset (len 1..64); offset 0 or beyond
 * the produced output is invalid; the elements must produce exactly the
 * announced length.
 * Asserted: decode_size accepts iff the preamble is a varint32 <= 2^31-1 and
 * returns it; decode accepts iff the reference accepts; output == reference. */
#include "vp.h"
#include "C18/ref.h"
#include "util/snappy.h"

#ifndef VP_N
#define VP_N 6
#endif
#ifndef VP_OUT
#define VP_OUT 16
#endif

static uint8_t vp_rout[VP_OUT + 1];

/* reference decoder: returns 1 and fills vp_rout[0..ulen) on success */
static int
vp_ref_snappy(const uint8_t *p, size_t n, size_t pos, size_t ulen) {
  size_t produced = 0;
  while (pos < n) {
    uint8_t tag = p[pos];
    uint64_t len, off;
    size_t i, extra;
    pos++;
    if ((tag & 3) == 0) {
      len = (uint64_t)(tag >> 2);
      if (len >= 60) {
        extra = (size_t)(len - 59);
        if (n - pos < extra)
          return 0;
        len = 0;
        for (i = 0; i < extra; i++)
          len |= (uint64_t)p[pos + i] << (8 * i);
        pos += extra;
      }
      len += 1;
      if (len > ulen - produced || len > n - pos)
        return 0;
      for (i = 0; i < len; i++)
        vp_rout[produced + i] = p[pos + i];
      pos += (size_t)len;
      produced += (size_t)len;
    } else {
      if ((tag & 3) == 1) {
        if (n - pos < 1) return 0;
        len = 4 + ((tag >> 2) & 7);
        off = ((uint64_t)(tag >> 5) << 8) | p[pos];
        pos += 1;
      } else if ((tag & 3) == 2) {
        if (n - pos < 2) return 0;
        len = 1 + (tag >> 2);
        off = (uint64_t)p[pos] | ((uint64_t)p[pos + 1] << 8);
        pos += 2;
      } else {
        if (n - pos < 4) return 0;
        len = 1 + (tag >> 2);
        off = (uint64_t)p[pos] | ((uint64_t)p[pos + 1] << 8) | ((uint64_t)p[pos + 2] << 16) | ((uint64_t)p[pos + 3] << 24);
        pos += 4;
      }
      if (off == 0 || off > produced || len > ulen - produced)
        return 0;
      for (i = 0; i < len; i++)
        vp_rout[produced + i] = vp_rout[produced + i - (size_t)off];
      produced += (size_t)len;
    }
  }
  return produced == ulen;
}

void
harness(void) {
  uint8_t *in = vp_input(VP_N);
  uint8_t *obj = vp_input(VP_OUT);
  uint8_t *out;
  size_t ulen = 0, c, i;
  uint64_t r = 0;
  int ok1, ok2, rok;

  vp_fill(in, VP_N);

  c = vp_ref_varint(in, VP_N, 0, 5, &r);
  r &= 0xffffffffu;

  ok1 = snappy_decode_size(&ulen, in, VP_N);
  VP_ASSERT(ok1 == (c != 0 && r <= 0x7fffffffu), "decode_size accepts iff the preamble is a varint32 <= 2^31-1");
  if (!ok1) {
    VP_WITNESS("size-reject");
    return;
  }
  VP_ASSERT(ulen == (size_t)r, "decode_size length == reference");

  /* the caller allocates exactly ulen bytes; this check covers ulen <= VP_OUT */
  VP_ASSUME(ulen <= VP_OUT);
  out = obj + (VP_OUT - ulen);

  rok = vp_ref_snappy(in, VP_N, c, ulen);

  ok2 = snappy_decode(out, in, VP_N);
  VP_ASSERT(ok2 == rok, "decode accepts iff the reference decoder accepts");
  if (ok2) {
    for (i = 0; i < ulen; i++)
      VP_ASSERT(out[i] == vp_rout[i], "decoded bytes == reference");
#if VP_N >= 1
    VP_WITNESS("decode-accept");
#endif
  } else {
#if VP_N >= 2
    VP_WITNESS("decode-reject");
#endif
  }
}
