/* C18/ref.h -- independent reference decoders (written from the LevelDB
 * format documents: doc/log_format.md, doc/table_format.md, the comments in
 * write_batch.cc / version_edit.cc), shared by the C18 harnesses.  Nothing in
 * here is derived from lcdb code.  All functions take (base pointer, total
 * length, position) and never read outside [0, n). */
#ifndef VP_C18_REF_H
#define VP_C18_REF_H

#include <stddef.h>
#include <stdint.h>

/* base-128 little-endian varint of at most maxbytes bytes, starting at p[pos].
 * returns number of bytes consumed, 0 = malformed/truncated */
static size_t
vp_ref_varint(const uint8_t *p, size_t n, size_t pos, size_t maxbytes, uint64_t *out) {
  uint64_t r = 0;
  size_t i;
  for (i = 0; i < maxbytes && pos + i < n; i++) {
    uint64_t b = p[pos + i];
    r |= (b & 127) << (7 * i);        /* bits beyond 64 fall off, as in LevelDB */
    if ((b & 128) == 0) {
      *out = r;
      return i + 1;
    }
  }
  return 0;
}

static uint32_t
vp_ref_le32(const uint8_t *p, size_t pos) {
  uint32_t r = 0;
  int i;
  for (i = 3; i >= 0; i--)
    r = (r << 8) | p[pos + (size_t)i];
  return r;
}

static uint64_t
vp_ref_le64(const uint8_t *p, size_t pos) {
  uint64_t r = 0;
  int i;
  for (i = 7; i >= 0; i--)
    r = (r << 8) | p[pos + (size_t)i];
  return r;
}

/* length-prefixed slice (varint32 length + bytes) at p[pos]: returns total
 * bytes consumed (0 = malformed), *off = offset of first data byte, *len */
static size_t
vp_ref_lps(const uint8_t *p, size_t n, size_t pos, size_t *off, size_t *len) {
  uint64_t l;
  size_t c = vp_ref_varint(p, n, pos, 5, &l);
  if (c == 0)
    return 0;
  l &= 0xffffffffu;
  if (l > n - (pos + c))
    return 0;
  *off = pos + c;
  *len = (size_t)l;
  return c + (size_t)l;
}

#endif
