/* C18.h -- log_reader.c ldb_reader_read_record over a log/MANIFEST file of
 * VP_N arbitrary bytes (VP_N < 32768: one block, read through the reader's
 * `src` test hook), checksums verified with the abstract streaming checksum
 * of kit/vp_cksum.c, recording reporter.  The reader is called VP_CALLS times
 * (or until it returns 0); VP_CALLS >= VP_N/7 + 1 reaches EOF for sure.
 *
 * Reference (log_format.md): physical record = masked checksum fixed32 over
 * (type byte + payload), length fixed16, type byte, payload; types 1 FULL,
 * 2 FIRST, 3 MIDDLE, 4 LAST, 0 reserved for preallocated (zeroed) regions.
 * Reader semantics: a truncated header/record at the end of the file is a
 * clean EOF; a zero-type zero-length record or a checksum mismatch drops the
 * rest of the block; FULL / FIRST..LAST chains are returned, everything else
 * is reported to the reporter and skipped.  As in LevelDB's log::Reader the
 * on-disk type byte shares its number space with the reader's internal
 * markers: a (checksum-valid) record of type 5 acts as kEof (the call returns
 * "no record" without a report, the record is consumed) and type 6 as
 * kBadRecord; the reference mirrors that documented-by-code behaviour.
 * Asserted per call: returned flag, record length and bytes == reference;
 * number of corruption reports and total dropped bytes == reference; record
 * slice lies inside the input or inside the scratch buffer. */
#include "vp.h"
#include "C18/ref.h"
#include "util/buffer.h"
#include "util/slice.h"
#include "util/status.h"
#include "log_format.h"
#include "log_reader.h"

#ifndef VP_N
#define VP_N 16
#endif

#ifndef VP_CALLS
#define VP_CALLS 1
#endif
#define VP_MAXCALLS VP_CALLS

uint32_t vp_cksum_extend(uint32_t z, const uint8_t *xp, size_t xn);

#ifndef VP_REPLAY
/* log_reader.c formats "unknown record type %u" into a 40-byte stack buffer:
 * model the longest possible output (20 chars + 10 digits + NUL) */
int
sprintf(char *buf, const char *fmt, ...) {
  int i;
  (void)fmt;
  for (i = 0; i < 30; i++)
    buf[i] = 'x';
  buf[30] = 0;
  return 30;
}
#endif

static int vp_reports;
static uint64_t vp_dropped;

static void
vp_reporter(ldb_reporter_t *rp, size_t bytes, int status) {
  (void)rp;
  VP_ASSERT(status == LDB_CORRUPTION, "drops are reported as corruption");
  vp_reports++;
  vp_dropped += bytes;
}

/* ---- reference reader ---- */
static const uint8_t *vp_in;
static size_t vp_pos;
static int vp_rreports;
static uint64_t vp_rdropped;
static uint8_t vp_rscratch[VP_N + 1];
static size_t vp_rlen, vp_roff;   /* result: length; offset in input (FULL) */
static int vp_rfrag;              /* result lives in vp_rscratch */

#define VP_T_EOF 1000
#define VP_T_BAD 1001

static int
vp_ref_physical(size_t *off, size_t *len) {
  size_t l;
  uint32_t stored, rot, actual;
  *off = 0;
  *len = 0;
  if (VP_N - vp_pos < 7) {
    vp_pos = VP_N;
    return VP_T_EOF;
  }
  l = (size_t)vp_in[vp_pos + 4] | ((size_t)vp_in[vp_pos + 5] << 8);
  if (7 + l > VP_N - vp_pos) {
    vp_pos = VP_N;              /* writer died mid-record: clean EOF */
    return VP_T_EOF;
  }
  if (vp_in[vp_pos + 6] == 0 && l == 0) {
    vp_pos = VP_N;              /* preallocated region: skip the block silently */
    return VP_T_BAD;
  }
  stored = vp_ref_le32(vp_in, vp_pos);
  rot = stored - 0xa282ead8u;
  rot = (rot >> 17) | (rot << 15);
  actual = vp_cksum_extend(0, vp_in + vp_pos + 6, 1 + l);
  if (rot != actual) {
    vp_rreports++;
    vp_rdropped += VP_N - vp_pos;
    vp_pos = VP_N;
    return VP_T_BAD;
  }
  *off = vp_pos + 7;
  *len = l;
  vp_pos += 7 + l;
  return vp_in[*off - 1];
}

static int
vp_ref_read(void) {
  int in_frag = 0;
  size_t slen = 0, off, len, i;
  int guard;
  for (guard = 0; guard <= VP_N / 7 + 2; guard++) {
    int t = vp_ref_physical(&off, &len);
    if (t == 1 || t == 2) {
      if (in_frag && slen > 0) {
        vp_rreports++;
        vp_rdropped += slen;
      }
      if (t == 1) {
        vp_rfrag = 0; vp_roff = off; vp_rlen = len;
        return 1;
      }
      for (i = 0; i < len; i++)
        vp_rscratch[i] = vp_in[off + i];
      slen = len;
      in_frag = 1;
    } else if (t == 3 || t == 4) {
      if (!in_frag) {
        vp_rreports++;
        vp_rdropped += len;
      } else {
        for (i = 0; i < len; i++)
          vp_rscratch[slen + i] = vp_in[off + i];
        slen += len;
        if (t == 4) {
          vp_rfrag = 1; vp_rlen = slen;
          return 1;
        }
      }
    } else if (t == VP_T_EOF || t == 5) {
      return 0;
    } else if (t == VP_T_BAD || t == 6) {
      if (in_frag) {
        vp_rreports++;
        vp_rdropped += slen;
        in_frag = 0;
        slen = 0;
      }
    } else {
      vp_rreports++;
      vp_rdropped += len + (in_frag ? slen : 0);
      in_frag = 0;
      slen = 0;
    }
  }
  VP_ASSERT(0, "reference reader exceeded its own iteration bound");
  return 0;
}

void
harness(void) {
  uint8_t *in = vp_input(VP_N);
  ldb_reader_t lr;
  ldb_reporter_t reporter;
  ldb_slice_t src, record;
  ldb_buffer_t scratch;
  int call, ok = 1, rok, nrec = 0;
  size_t i;

  vp_fill(in, VP_N);
  vp_in = in;
  vp_pos = 0;
  vp_reports = 0; vp_dropped = 0;
  vp_rreports = 0; vp_rdropped = 0;

  reporter.fname = NULL;
  reporter.status = NULL;
  reporter.info_log = NULL;
  reporter.lognum = 0;
  reporter.dst = NULL;
  reporter.dropped_bytes = 0;
  reporter.corruption = vp_reporter;

  ldb_slice_set(&src, in, VP_N);
  ldb_buffer_init(&scratch);
  ldb_reader_init(&lr, NULL, &reporter, 1, 0);
  lr.src = &src;

  for (call = 0; call < VP_MAXCALLS && ok; call++) {
    ok = ldb_reader_read_record(&lr, &record, &scratch);
    rok = vp_ref_read();
    VP_ASSERT(!ok == !rok, "read_record returns a record iff the reference does");
    VP_ASSERT(vp_reports == vp_rreports, "number of corruption reports == reference");
    VP_ASSERT(vp_dropped == vp_rdropped, "reported dropped bytes == reference");
    if (ok && rok) {
      VP_ASSERT(record.size == vp_rlen, "record length == reference");
      if (!vp_rfrag) {
        VP_ASSERT(record.data == in + vp_roff, "unfragmented record is a slice of the input at the reference offset");
      } else {
        VP_ASSERT(record.data == scratch.data && record.size == scratch.size, "fragmented record is the scratch buffer");
        if (record.size == vp_rlen) {
          for (i = 0; i < vp_rlen; i++)
            VP_ASSERT(record.data[i] == vp_rscratch[i], "reassembled record bytes == reference");
        }
      }
      nrec++;
    }
  }
#if VP_CALLS >= VP_N / 7 + 1
  VP_ASSERT(!ok, "the reader reaches EOF within N/7 + 1 calls");
#endif
  VP_ASSERT(lr.end_offset == VP_N, "reader loaded the whole file (one short block)");

  ldb_reader_clear(&lr);
  ldb_buffer_clear(&scratch);

  if (nrec > 0) {
#if VP_N >= 7
    VP_WITNESS("got-record");
#endif
  } else if (vp_reports > 0) {
#if VP_N >= 7
    VP_WITNESS("only-drops");
#endif
  } else {
    VP_WITNESS("clean-eof");
  }
}
