/* C18.d -- table/format.c BlockHandle / Footer decoders on VP_N arbitrary
 * bytes.  Reference (table_format.md): handle = varint64 offset, varint64
 * size; footer = 48 bytes: metaindex handle, index handle, zero padding up to
 * 40 bytes, fixed64 magic 0xdb4775248b80fb57 (little endian) at [40,48). */
#include "vp.h"
#include "C18/ref.h"
#include "util/slice.h"
#include "table/format.h"

#ifndef VP_N
#define VP_N 8
#endif
#ifndef VP_MODE
#define VP_MODE 0
#endif

void
harness(void) {
  uint8_t *in = vp_input(VP_N);
  const uint8_t *xp;
  size_t xn, c1, c2 = 0;
  uint64_t r1 = 0, r2 = 0;
  ldb_slice_t src;
  int ok;

  vp_fill(in, VP_N);
  ldb_slice_set(&src, in, VP_N);

#if VP_MODE == 0
  {
    ldb_handle_t h;

    c1 = vp_ref_varint(in, VP_N, 0, 10, &r1);
    if (c1 != 0)
      c2 = vp_ref_varint(in, VP_N, c1, 10, &r2);

    ldb_handle_init(&h);
    ok = ldb_handle_import(&h, &src);
    VP_ASSERT(ok == (c1 != 0 && c2 != 0), "handle_import accepts iff reference accepts");
    VP_ASSERT(src.data == in && src.size == VP_N, "handle_import leaves the source untouched");
    if (ok)
      VP_ASSERT(h.offset == r1 && h.size == r2, "handle_import offset/size == reference");

    xp = in; xn = VP_N;
    ok = ldb_handle_read(&h, &xp, &xn);
    VP_ASSERT(ok == (c1 != 0 && c2 != 0), "handle_read accepts iff reference accepts");
    VP_ASSERT(xn <= VP_N && xp + xn == in + VP_N, "handle_read keeps cursor inside input");
    if (ok) {
      VP_ASSERT(h.offset == r1 && h.size == r2 && xp == in + c1 + c2, "handle_read == reference");
#if VP_N >= 2
      VP_WITNESS("handle-accept");
#endif
    } else {
      VP_WITNESS("handle-reject");
    }
  }
#else
  {
    ldb_footer_t f;
    size_t c3 = 0, c4 = 0;
    uint64_t r3 = 0, r4 = 0;
    int rok = 0;

    if (VP_N >= 48 && vp_ref_le64(in, 40) == UINT64_C(0xdb4775248b80fb57)) {
      c1 = vp_ref_varint(in, VP_N, 0, 10, &r1);
      if (c1 != 0)
        c2 = vp_ref_varint(in, VP_N, c1, 10, &r2);
      if (c1 != 0 && c2 != 0)
        c3 = vp_ref_varint(in, VP_N, c1 + c2, 10, &r3);
      if (c3 != 0)
        c4 = vp_ref_varint(in, VP_N, c1 + c2 + c3, 10, &r4);
      rok = (c4 != 0);
    }

    ldb_footer_init(&f);
    ok = ldb_footer_import(&f, &src);
    VP_ASSERT(ok == rok, "footer_import accepts iff reference accepts (length, magic, both handles)");
    VP_ASSERT(src.data == in && src.size == VP_N, "footer_import leaves the source untouched");
    if (ok) {
      VP_ASSERT(f.metaindex_handle.offset == r1 && f.metaindex_handle.size == r2, "metaindex handle == reference");
      VP_ASSERT(f.index_handle.offset == r3 && f.index_handle.size == r4, "index handle == reference");
    }

    xp = in; xn = VP_N;
    ok = ldb_footer_read(&f, &xp, &xn);
    VP_ASSERT(ok == rok, "footer_read accepts iff reference accepts");
    if (ok) {
      VP_ASSERT(xp == in + 48 && xn == VP_N - 48, "footer_read consumes exactly 48 bytes");
      VP_ASSERT(f.metaindex_handle.offset == r1 && f.index_handle.size == r4, "footer_read == reference");
#if VP_N >= 48
      VP_WITNESS("footer-accept");
#endif
    } else {
      VP_ASSERT(xn <= VP_N && xp + xn == in + VP_N, "footer_read failure keeps cursor inside input");
      VP_WITNESS("footer-reject");
    }
  }
#endif
}
