/* C18.i -- dbformat.c ldb_pkey_import on VP_N arbitrary bytes, and the
 * internal-key comparator (ldb_ikc_compare over the bytewise comparator) on
 * two arbitrary keys of VP_N and VP_M >= 8 bytes.
 * Reference: internal key = user_key | fixed64le((sequence << 8) | type),
 * type in {0 deletion, 1 value}; order = user key ascending (bytewise,
 * shorter prefix first), then the 64-bit trailer descending. */
#include "vp.h"
#include "C18/ref.h"
#include "util/slice.h"
#include "util/comparator.h"
#include "dbformat.h"

#ifndef VP_N
#define VP_N 9
#endif
#ifndef VP_M
#define VP_M 8
#endif
#ifndef VP_MODE
#define VP_MODE 0
#endif

static int
vp_ref_bytewise(const uint8_t *a, size_t an, const uint8_t *b, size_t bn) {
  size_t i;
  for (i = 0; i < an && i < bn; i++) {
    if (a[i] != b[i])
      return a[i] < b[i] ? -1 : 1;
  }
  if (an != bn)
    return an < bn ? -1 : 1;
  return 0;
}

static int
vp_sign(int x) {
  return x < 0 ? -1 : (x > 0 ? 1 : 0);
}

void
harness(void) {
#if VP_MODE == 0
  uint8_t *in = vp_input(VP_N);
  ldb_slice_t src;
  ldb_pkey_t pk;
  int ok;

  vp_fill(in, VP_N);
  ldb_slice_set(&src, in, VP_N);

  ok = ldb_pkey_import(&pk, &src);
#if VP_N < 8
  VP_ASSERT(!ok, "pkey_import rejects keys shorter than the 8-byte trailer");
  VP_WITNESS("pkey-reject");
#else
  {
    uint64_t t = vp_ref_le64(in, VP_N - 8);
    VP_ASSERT(ok == ((t & 0xff) <= 1), "pkey_import accepts iff the type byte is 0 or 1");
    if (ok) {
      VP_ASSERT(pk.user_key.data == in && pk.user_key.size == VP_N - 8, "user key = all but the trailer");
      VP_ASSERT(pk.sequence == (t >> 8), "sequence == trailer >> 8");
      VP_ASSERT((uint64_t)pk.type == (t & 0xff), "type == low trailer byte");
      VP_WITNESS("pkey-accept");
    } else {
      VP_WITNESS("pkey-reject");
    }
  }
#endif
#else
  uint8_t *a = vp_input(VP_N);
  uint8_t *b = vp_input(VP_M);
  ldb_slice_t x, y;
  ldb_comparator_t ikc;
  int r, rr;

  vp_fill(a, VP_N);
  vp_fill(b, VP_M);
  ldb_slice_set(&x, a, VP_N);
  ldb_slice_set(&y, b, VP_M);

  ldb_ikc_init(&ikc, ldb_bytewise_comparator);

  r = ldb_compare(&ikc, &x, &y);

  rr = vp_ref_bytewise(a, VP_N - 8, b, VP_M - 8);
  if (rr == 0) {
    uint64_t ta = vp_ref_le64(a, VP_N - 8), tb = vp_ref_le64(b, VP_M - 8);
    if (ta > tb)
      rr = -1;
    else if (ta < tb)
      rr = 1;
  }
  VP_ASSERT(vp_sign(r) == rr, "internal key comparator sign == reference order");
  r = ldb_compare(&ikc, &y, &x);
  VP_ASSERT(vp_sign(r) == -rr, "internal key comparator is antisymmetric");
  if (rr == 0) {
#if VP_N == VP_M   /* keys of different length never compare equal */
    VP_WITNESS("ikc-equal");
#endif
  } else {
    VP_WITNESS("ikc-ordered");
  }
#endif
}
