/* C18.c -- version_edit.c ldb_edit_import on VP_N arbitrary bytes (a MANIFEST
 * record).  Reference: VersionEdit encoding of LevelDB (tag varint32, then
 * 1 comparator:varstring | 2 log:varint64 | 9 prevlog:varint64 |
 * 3 nextfile:varint64 | 4 lastseq:varint64 | 5 level:varint32 key:varstring |
 * 6 level:varint32 file:varint64 | 7 level file:varint64 size:varint64
 * smallest:varstring largest:varstring), level < 7, internal keys >= 8 bytes.
 * Asserted: accepted iff the reference accepts; on accept every decoded field,
 * compact pointer, deleted file and new file equals the reference; in both
 * cases the edit can be cleared (no leak of an invalid pointer). */
#include "vp.h"
#include "C18/ref.h"
#include "util/buffer.h"
#include "util/slice.h"
#include "util/vector.h"
#include "vp_vector_inc.h"   /* real util/vector.c, pointer arrays typed (kit) */
#include "util/internal.h"
#include "util/rbt.h"
#include "dbformat.h"
#include "version_edit.h"

#ifndef VP_N
#define VP_N 12
#endif

#define VP_MAXCP (VP_N / 11 + 1)
#define VP_MAXDEL (VP_N / 3 + 1)
#define VP_MAXNF (VP_N / 22 + 1)

/* Model of the three util/rbt.c entry points version_edit.c uses for its
 * deleted_files set (the red-black tree is a container below the decoder and
 * is not part of this unit): an insertion-ordered array set keyed by
 * (level, number), same contract: put returns 0 for a duplicate (caller frees
 * the item), clear frees every stored item. */
#define VP_SETCAP (VP_N / 3 + 2)
static file_entry_t *vp_set[VP_SETCAP];

void
ldb_rb_tree_init(rb_tree_t *tree, rb_cmp_f *compare, void *arg) {
  tree->root = NULL;
  tree->compare = compare;
  tree->arg = arg;
  tree->size = 0;
}

void
ldb_rb_tree_clear(rb_tree_t *tree, rb_clear_f *clear) {
  size_t i;
  (void)clear;
  for (i = 0; i < tree->size && i < VP_SETCAP; i++)
    ldb_free(vp_set[i]);
  tree->size = 0;
}

int
ldb_rb_set_put(rb_tree_t *tree, const void *item) {
  const file_entry_t *e = item;
  size_t i;
  for (i = 0; i < tree->size && i < VP_SETCAP; i++) {
    if (vp_set[i]->level == e->level && vp_set[i]->number == e->number)
      return 0;
  }
  VP_ASSERT(tree->size < VP_SETCAP, "more deleted-file entries than fit in the input");
  if (tree->size < VP_SETCAP)
    vp_set[tree->size] = (file_entry_t *)item;
  tree->size++;
  return 1;
}

static int
vp_bytes_eq(const uint8_t *a, const uint8_t *b, size_t n) {
  size_t i;
  for (i = 0; i < n; i++) {
    if (a[i] != b[i])
      return 0;
  }
  return 1;
}

void
harness(void) {
  uint8_t *in = vp_input(VP_N);
  ldb_edit_t edit;
  ldb_slice_t src;
  int ok;
  /* reference state */
  size_t pos = 0, c, off, len, off2, len2;
  uint64_t tag, lvl, num, fsz;
  int rbad = 0;
  int has_cmp = 0, has_log = 0, has_prev = 0, has_next = 0, has_seq = 0;
  size_t cmp_off = 0, cmp_len = 0;
  uint64_t v_log = 0, v_prev = 0, v_next = 0, v_seq = 0;
  int ncp = 0, ndel = 0, nnf = 0, nrec = 0, i, j;
  uint64_t cp_level[VP_MAXCP];
  size_t cp_off[VP_MAXCP], cp_len[VP_MAXCP];
  uint64_t del_level[VP_MAXDEL], del_num[VP_MAXDEL];
  uint64_t nf_level[VP_MAXNF], nf_num[VP_MAXNF], nf_size[VP_MAXNF];
  size_t nf_soff[VP_MAXNF], nf_slen[VP_MAXNF], nf_loff[VP_MAXNF], nf_llen[VP_MAXNF];

  vp_fill(in, VP_N);
#if defined(VP_TAG) && VP_N >= 1
  in[0] = VP_TAG;   /* first-byte slice: the first record's tag is concrete */
#endif

  /* ---- reference decode (pure function of the input bytes) ---- */
#ifdef VP_MAXREC
  while (pos < VP_N && !rbad && nrec <= VP_MAXREC) {
#else
  while (pos < VP_N && !rbad) {
#endif
    c = vp_ref_varint(in, VP_N, pos, 5, &tag);
    if (c == 0) { rbad = 1; break; }
    pos += c;
    tag &= 0xffffffffu;
    if (tag == 1) {
      c = vp_ref_lps(in, VP_N, pos, &off, &len);
      if (c == 0) { rbad = 1; break; }
      pos += c;
      has_cmp = 1; cmp_off = off; cmp_len = len;
    } else if (tag == 2 || tag == 9 || tag == 3 || tag == 4) {
      c = vp_ref_varint(in, VP_N, pos, 10, &num);
      if (c == 0) { rbad = 1; break; }
      pos += c;
      if (tag == 2) { has_log = 1; v_log = num; }
      if (tag == 9) { has_prev = 1; v_prev = num; }
      if (tag == 3) { has_next = 1; v_next = num; }
      if (tag == 4) { has_seq = 1; v_seq = num; }
    } else if (tag == 5 || tag == 6 || tag == 7) {
      c = vp_ref_varint(in, VP_N, pos, 5, &lvl);
      if (c == 0) { rbad = 1; break; }
      pos += c;
      lvl &= 0xffffffffu;
      if (lvl >= 7) { rbad = 1; break; }
      if (tag == 5) {
        c = vp_ref_lps(in, VP_N, pos, &off, &len);
        if (c == 0 || len < 8) { rbad = 1; break; }
        pos += c;
        if (ncp < VP_MAXCP) { cp_level[ncp] = lvl; cp_off[ncp] = off; cp_len[ncp] = len; }
        ncp++;
      } else if (tag == 6) {
        c = vp_ref_varint(in, VP_N, pos, 10, &num);
        if (c == 0) { rbad = 1; break; }
        pos += c;
        /* deleted files form a set of (level, number) */
        j = 0;
        for (i = 0; i < ndel && i < VP_MAXDEL; i++) {
          if (del_level[i] == lvl && del_num[i] == num)
            j = 1;
        }
        if (!j) {
          if (ndel < VP_MAXDEL) { del_level[ndel] = lvl; del_num[ndel] = num; }
          ndel++;
        }
      } else {
        c = vp_ref_varint(in, VP_N, pos, 10, &num);
        if (c == 0) { rbad = 1; break; }
        pos += c;
        c = vp_ref_varint(in, VP_N, pos, 10, &fsz);
        if (c == 0) { rbad = 1; break; }
        pos += c;
        c = vp_ref_lps(in, VP_N, pos, &off, &len);
        if (c == 0) { rbad = 1; break; }
        pos += c;
        c = vp_ref_lps(in, VP_N, pos, &off2, &len2);
        if (c == 0) { rbad = 1; break; }
        pos += c;
        if (len < 8 || len2 < 8) { rbad = 1; break; }
        if (nnf < VP_MAXNF) {
          nf_level[nnf] = lvl; nf_num[nnf] = num; nf_size[nnf] = fsz;
          nf_soff[nnf] = off; nf_slen[nnf] = len; nf_loff[nnf] = off2; nf_llen[nnf] = len2;
        }
        nnf++;
      }
    } else {
      rbad = 1;
    }
    if (!rbad)
      nrec++;
  }

#ifdef VP_MAXREC
  /* Record-count slice of the input space (see obl/C18.py): the input holds
   * at most VP_MAXREC complete records, and if it holds exactly VP_MAXREC the
   * last one ends the input.  Under it the decoder loop runs <= VP_MAXREC
   * times, which is the unwinding bound of these obligations. */
  VP_ASSUME(nrec < VP_MAXREC || (nrec == VP_MAXREC && pos == VP_N && !rbad));
#endif

  ldb_edit_init(&edit);
  ldb_slice_set(&src, in, VP_N);

  ok = ldb_edit_import(&edit, &src);

  VP_ASSERT(ok == 0 || ok == 1, "edit_import returns 0 or 1");
  VP_ASSERT(src.data == in && src.size == VP_N, "edit_import leaves the source slice untouched");

  VP_ASSERT(ok == !rbad, "edit_import accepts iff reference accepts");

  if (ok) {
    VP_ASSERT(!edit.has_comparator == !has_cmp, "has_comparator == reference");
    if (has_cmp && edit.has_comparator) {
      VP_ASSERT(edit.comparator.size == cmp_len, "comparator length == reference");
      if (edit.comparator.size == cmp_len)
        VP_ASSERT(vp_bytes_eq(edit.comparator.data, in + cmp_off, cmp_len), "comparator bytes == reference");
    }
    VP_ASSERT(!edit.has_log_number == !has_log && (!has_log || edit.log_number == v_log), "log number == reference");
    VP_ASSERT(!edit.has_prev_log_number == !has_prev && (!has_prev || edit.prev_log_number == v_prev), "prev log number == reference");
    VP_ASSERT(!edit.has_next_file_number == !has_next && (!has_next || edit.next_file_number == v_next), "next file number == reference");
    VP_ASSERT(!edit.has_last_sequence == !has_seq && (!has_seq || edit.last_sequence == v_seq), "last sequence == reference");

    VP_ASSERT(edit.compact_pointers.length == (size_t)ncp, "number of compact pointers == reference");
    for (i = 0; i < ncp && i < VP_MAXCP && (size_t)i < edit.compact_pointers.length; i++) {
      const ikey_entry_t *e = edit.compact_pointers.items[i];
      VP_ASSERT((uint64_t)e->level == cp_level[i], "compact pointer level == reference");
      VP_ASSERT(e->key.size == cp_len[i], "compact pointer key length == reference");
      if (e->key.size == cp_len[i])
        VP_ASSERT(vp_bytes_eq(e->key.data, in + cp_off[i], cp_len[i]), "compact pointer key == reference");
    }

    VP_ASSERT(edit.deleted_files.size == (size_t)ndel, "number of distinct deleted files == reference");
    for (i = 0; i < ndel && i < VP_MAXDEL && (size_t)i < edit.deleted_files.size; i++) {
      VP_ASSERT((uint64_t)vp_set[i]->level == del_level[i] && vp_set[i]->number == del_num[i],
                "deleted file == reference (insertion order, duplicates dropped)");
    }

    VP_ASSERT(edit.new_files.length == (size_t)nnf, "number of new files == reference");
    for (i = 0; i < nnf && i < VP_MAXNF && (size_t)i < edit.new_files.length; i++) {
      const meta_entry_t *e = edit.new_files.items[i];
      VP_ASSERT((uint64_t)e->level == nf_level[i], "new file level == reference");
      VP_ASSERT(e->meta.number == nf_num[i] && e->meta.file_size == nf_size[i], "new file number/size == reference");
      VP_ASSERT(e->meta.smallest.size == nf_slen[i] && e->meta.largest.size == nf_llen[i], "new file key lengths == reference");
      if (e->meta.smallest.size == nf_slen[i])
        VP_ASSERT(vp_bytes_eq(e->meta.smallest.data, in + nf_soff[i], nf_slen[i]), "new file smallest == reference");
      if (e->meta.largest.size == nf_llen[i])
        VP_ASSERT(vp_bytes_eq(e->meta.largest.data, in + nf_loff[i], nf_llen[i]), "new file largest == reference");
    }
  }

  /* the edit must be clearable after success and after failure */
  ldb_edit_clear(&edit);

  if (ok) {
#if VP_N != 1   /* one byte cannot hold a complete record */
    VP_WITNESS("edit-accept");
#endif
  } else {
#if VP_N >= 1
    VP_WITNESS("edit-reject");
#endif
  }
}
