/* C18.a -- util/coding.h readers, util/slice.c ldb_slice_read/slurp/import and
 * util/buffer.c ldb_buffer_read on VP_N arbitrary bytes (VP_N concrete).
 * Memory safety / overflow / termination by CBMC's checks; plus agreement
 * with the reference decoders of ref.h (accept iff reference accepts, same
 * value, same bytes consumed, cursor stays inside the input on failure). */
#include "vp.h"
#include "C18/ref.h"
#include "util/coding.h"
#include "util/slice.h"
#include "util/buffer.h"

#ifndef VP_N
#define VP_N 6
#endif
#ifndef VP_MODE
#define VP_MODE 0
#endif

void
harness(void) {
  uint8_t *in = vp_input(VP_N);
  const uint8_t *xp;
  size_t xn, c;
  uint64_t r;
  int ok;

  vp_fill(in, VP_N);

#if VP_MODE == 0 || VP_MODE == 9
  {
    uint32_t v32;
    uint64_t v64;
    ldb_slice_t s;

    xp = in; xn = VP_N;
    ok = ldb_varint32_read(&v32, &xp, &xn);
    c = vp_ref_varint(in, VP_N, 0, 5, &r);
    VP_ASSERT(ok == (c != 0), "varint32_read accepts iff reference accepts");
    VP_ASSERT(xn <= VP_N && xp + xn == in + VP_N, "varint32_read keeps cursor inside input");
    if (ok) {
      VP_ASSERT(v32 == (uint32_t)r, "varint32_read value == reference");
      VP_ASSERT(xp == in + c, "varint32_read consumed == reference");
#if VP_N >= 1
      VP_WITNESS("varint32-accept");
#endif
    } else {
      VP_WITNESS("varint32-reject");
    }

    xp = in; xn = VP_N;
    ok = ldb_varint64_read(&v64, &xp, &xn);
    c = vp_ref_varint(in, VP_N, 0, 10, &r);
    VP_ASSERT(ok == (c != 0), "varint64_read accepts iff reference accepts");
    VP_ASSERT(xn <= VP_N && xp + xn == in + VP_N, "varint64_read keeps cursor inside input");
    if (ok) {
      VP_ASSERT(v64 == r, "varint64_read value == reference");
      VP_ASSERT(xp == in + c, "varint64_read consumed == reference");
    }

    ldb_slice_set(&s, in, VP_N);
    ok = ldb_varint32_slurp(&v32, &s);
    c = vp_ref_varint(in, VP_N, 0, 5, &r);
    VP_ASSERT(ok == (c != 0), "varint32_slurp accepts iff reference accepts");
    if (ok)
      VP_ASSERT(v32 == (uint32_t)r && s.data == in + c && s.size == VP_N - c, "varint32_slurp == reference");

    ldb_slice_set(&s, in, VP_N);
    ok = ldb_varint64_slurp(&v64, &s);
    c = vp_ref_varint(in, VP_N, 0, 10, &r);
    VP_ASSERT(ok == (c != 0), "varint64_slurp accepts iff reference accepts");
    if (ok)
      VP_ASSERT(v64 == r && s.data == in + c && s.size == VP_N - c, "varint64_slurp == reference");
  }
#endif
#if VP_MODE == 1 || VP_MODE == 9
  {
    uint32_t f32 = 0;
    uint64_t f64 = 0;
    uint8_t dst[VP_N + 2];
    const uint8_t *zp = NULL;
    size_t zn = vp_size(), i;
    ldb_slice_t s;

    xp = in; xn = VP_N;
    ok = ldb_fixed32_read(&f32, &xp, &xn);
    VP_ASSERT(ok == (VP_N >= 4), "fixed32_read accepts iff >= 4 bytes");
    if (ok)
      VP_ASSERT(f32 == vp_ref_le32(in, 0) && xp == in + 4 && xn == VP_N - 4, "fixed32_read == reference");
    else
      VP_ASSERT(xp == in && xn == VP_N, "fixed32_read failure leaves cursor");

    xp = in; xn = VP_N;
    ok = ldb_fixed64_read(&f64, &xp, &xn);
    VP_ASSERT(ok == (VP_N >= 8), "fixed64_read accepts iff >= 8 bytes");
    if (ok)
      VP_ASSERT(f64 == vp_ref_le64(in, 0) && xp == in + 8 && xn == VP_N - 8, "fixed64_read == reference");
    else
      VP_ASSERT(xp == in && xn == VP_N, "fixed64_read failure leaves cursor");

    ldb_slice_set(&s, in, VP_N);
    ok = ldb_fixed32_slurp(&f32, &s);
    VP_ASSERT(ok == (VP_N >= 4), "fixed32_slurp accepts iff >= 4 bytes");
    ldb_slice_set(&s, in, VP_N);
    ok = ldb_fixed64_slurp(&f64, &s);
    VP_ASSERT(ok == (VP_N >= 8), "fixed64_slurp accepts iff >= 8 bytes");
    if (ok)
      VP_ASSERT(f64 == vp_ref_le64(in, 0) && s.size == VP_N - 8, "fixed64_slurp == reference");

    /* raw reads with an arbitrary requested length */
    VP_ASSUME(zn <= VP_N + 2);
    xp = in; xn = VP_N;
    ok = ldb_raw_read(dst, zn, &xp, &xn);
    VP_ASSERT(ok == (zn <= VP_N), "raw_read accepts iff enough bytes");
    if (ok) {
      for (i = 0; i < zn; i++)
        VP_ASSERT(dst[i] == in[i], "raw_read copies the prefix");
      VP_ASSERT(xp == in + zn && xn == VP_N - zn, "raw_read consumes zn");
      VP_WITNESS("raw-accept");
    } else {
      VP_ASSERT(xp == in && xn == VP_N, "raw_read failure leaves cursor");
      VP_WITNESS("raw-reject");
    }
    xp = in; xn = VP_N;
    ok = ldb_zraw_read(&zp, zn, &xp, &xn);
    VP_ASSERT(ok == (zn <= VP_N), "zraw_read accepts iff enough bytes");
    if (ok)
      VP_ASSERT(zp == in && xp == in + zn && xn == VP_N - zn, "zraw_read == reference");
  }
#endif
#if VP_MODE == 2 || VP_MODE == 9
  {
    ldb_slice_t z, s, src;
    ldb_buffer_t b;
    size_t off = 0, len = 0, i;

    c = vp_ref_lps(in, VP_N, 0, &off, &len);

    xp = in; xn = VP_N;
    ldb_slice_init(&z);
    ok = ldb_slice_read(&z, &xp, &xn);
    VP_ASSERT(ok == (c != 0), "slice_read accepts iff reference accepts");
    VP_ASSERT(xn <= VP_N && xp + xn == in + VP_N, "slice_read keeps cursor inside input");
    if (ok) {
      VP_ASSERT(z.data == in + off && z.size == len, "slice_read slice == reference");
      VP_ASSERT(xp == in + c, "slice_read consumed == reference");
      VP_ASSERT(z.size <= VP_N && z.data + z.size <= in + VP_N, "slice_read result inside input");
#if VP_N >= 1
      VP_WITNESS("slice-accept");
#endif
    } else {
      VP_WITNESS("slice-reject");
    }

    ldb_slice_set(&s, in, VP_N);
    ok = ldb_slice_slurp(&z, &s);
    VP_ASSERT(ok == (c != 0), "slice_slurp accepts iff reference accepts");
    if (ok)
      VP_ASSERT(z.data == in + off && z.size == len && s.data == in + c && s.size == VP_N - c, "slice_slurp == reference");

    ldb_slice_set(&src, in, VP_N);
    ok = ldb_slice_import(&z, &src);
    VP_ASSERT(ok == (c != 0), "slice_import accepts iff reference accepts");
    VP_ASSERT(src.data == in && src.size == VP_N, "slice_import leaves source untouched");
    if (ok)
      VP_ASSERT(z.data == in + off && z.size == len, "slice_import == reference");

    ldb_buffer_init(&b);
    xp = in; xn = VP_N;
    ok = ldb_buffer_read(&b, &xp, &xn);
    VP_ASSERT(ok == (c != 0), "buffer_read accepts iff reference accepts");
    if (ok) {
      VP_ASSERT(b.size == len && xp == in + c, "buffer_read size/consumed == reference");
      for (i = 0; i < len; i++)
        VP_ASSERT(b.data[i] == in[off + i], "buffer_read copies the payload");
    }
    ldb_buffer_clear(&b);
  }
#endif
}
