/* C14.e (= C17.d) -- MANIFEST replay reproduces the layout.
 *
 * A version set whose current version holds VP_B0 / VP_B1 / VP_B2 files on
 * levels 0 / 1 / 2 (9-byte symbolic internal keys, sorted as every builder
 * output is; concrete representative numbers and sizes of different varint
 * lengths, see C17.b for why) and a compaction pointer on level 1 is written
 * with the real ldb_versions_write_snapshot (-> ldb_edit_export); the record
 * handed to the log writer (stub) is decoded with the real ldb_edit_import and
 * applied to an EMPTY version set with the real builder.  Asserted: the
 * replayed version has the same per-level file list (numbers, sizes, smallest,
 * largest, order), the same compaction pointers, and the record names the
 * comparator.
 */
#include "vp.h"
#include "vp_vector_inc.h" /* real util/vector.c with typed item arrays */
#include "version_set.c"

#ifndef VP_B0
#define VP_B0 1
#endif
#ifndef VP_B1
#define VP_B1 2
#endif
#ifndef VP_L2LEVEL
#define VP_L2LEVEL 2   /* the level that holds the third group of files (2 .. LDB_NUM_LEVELS-1) */
#endif
#ifndef VP_B2
#define VP_B2 1
#endif
#ifndef VP_ROT
#define VP_ROT 0
#endif

#define VP_NL 3
#define VP_NB (VP_B0 + VP_B1 + VP_B2)
#define VP_KLEN 9
#ifndef VP_RECCAP
#define VP_RECCAP 256
#endif

static uint8_t vp_rec[VP_RECCAP];
static size_t vp_rec_len = 0;
static int vp_rec_count = 0;

/* stub of log_writer.c: captures the snapshot record */
int
ldb_writer_add_record(ldb_writer_t *lw, const ldb_slice_t *slice) {
  size_t i;
  (void)lw;
  VP_ASSERT(slice->size <= VP_RECCAP, "vp-model: record buffer large enough");
  for (i = 0; i < VP_RECCAP; i++) {
    if (i < slice->size)
      vp_rec[i] = slice->data[i];
  }
  vp_rec_len = slice->size;
  vp_rec_count++;
  return LDB_OK;
}

#define VP_U64(hi, lo) (((uint64_t)(hi) << 32) | (uint64_t)(lo))

/* concrete representatives, all pairwise different, varint lengths 1..10 */
static uint64_t
rep_num(int k) {
  switch (k % 10) {
    case 0: return 0x5b;
    case 1: return 0x2a5b;
    case 2: return 0x1f2a5b;
    case 3: return 0xabcdef1;
    case 4: return VP_U64(0x7, 0x12345678u);
    case 5: return VP_U64(0x3ab, 0x12345678u);
    case 6: return VP_U64(0x1fedc, 0xba987654u);
    case 7: return VP_U64(0xabcdef, 0x01234567u);
    case 8: return VP_U64(0x7edcba98u, 0x76543210u);
    default: return VP_U64(0xfedcba98u, 0x76543210u);
  }
}

static uint64_t
ref_tag(const uint8_t *k) {
  uint64_t t = 0;
  int i;
  for (i = 7; i >= 0; i--)
    t = (t << 8) | k[1 + i];
  return t;
}

static int
ref_ikey_cmp(const uint8_t *a, const uint8_t *b) {
  uint64_t ta, tb;
  if (a[0] != b[0])
    return a[0] < b[0] ? -1 : 1;
  ta = ref_tag(a);
  tb = ref_tag(b);
  if (ta > tb)
    return -1;
  if (ta < tb)
    return 1;
  return 0;
}

static int
key_is(const ldb_buffer_t *k, const uint8_t *want) {
  size_t i;
  if (k->size != VP_KLEN)
    return 0;
  for (i = 0; i < VP_KLEN; i++) {
    if (k->data[i] != want[i])
      return 0;
  }
  return 1;
}

typedef struct vp_file_s {
  int level;
  uint64_t number, size;
  uint8_t sk[VP_KLEN], lk[VP_KLEN];
} vp_file_t;

static vp_file_t vp_f[VP_NB + 1];
static uint8_t vp_cp[VP_KLEN];

void
harness(void) {
  static const int nbase[VP_NL] = { VP_B0, VP_B1, VP_B2 };
  static const int lvlmap[VP_NL] = { 0, 1, VP_L2LEVEL };
  static ldb_versions_t vset, vset2;
  static ldb_comparator_t icmp;
  static long vp_log_obj;
  ldb_version_t *base, *v2;
  ldb_edit_t edit;
  ldb_slice_t rec;
  builder_t b;
  int level, i, n, rc, ok;

  ldb_ikc_init(&icmp, ldb_bytewise_comparator);
  ldb_versions_init(&vset, "db", NULL, NULL, &icmp);
  ldb_versions_init(&vset2, "db", NULL, NULL, &icmp);

  /* the layout to be saved */
  base = ldb_version_create(&vset);
  n = 0;
  for (level = 0; level < VP_NL; level++) {
    for (i = 0; i < nbase[level]; i++) {
      vp_file_t *f = &vp_f[n];
      ldb_filemeta_t *m = ldb_filemeta_create();
      f->level = lvlmap[level];
      f->number = rep_num(2 * n + VP_ROT);
      f->size = rep_num(2 * n + 1 + VP_ROT);
      vp_fill(f->sk, VP_KLEN);
      vp_fill(f->lk, VP_KLEN);
      VP_ASSUME(ref_ikey_cmp(f->sk, f->lk) <= 0);
      m->refs = 1;
      m->number = f->number;
      m->file_size = f->size;
      ldb_buffer_set(&m->smallest, f->sk, VP_KLEN);
      ldb_buffer_set(&m->largest, f->lk, VP_KLEN);
      ldb_vector_push(&base->files[lvlmap[level]], m);
      if (i > 0) {
        /* sorted by (smallest, number); levels >= 1 disjoint */
        int r = ref_ikey_cmp(vp_f[n - 1].sk, f->sk);
        VP_ASSUME(r < 0 || (r == 0 && vp_f[n - 1].number < f->number));
        if (level > 0)
          VP_ASSUME(ref_ikey_cmp(vp_f[n - 1].lk, f->sk) < 0);
      }
      n++;
    }
  }
  ldb_versions_append_version(&vset, base);
  vp_fill(vp_cp, VP_KLEN);
  ldb_buffer_set(&vset.compact_pointer[1], vp_cp, VP_KLEN);

  /* save: real snapshot writer -> captured record */
  rc = ldb_versions_write_snapshot(&vset, (ldb_writer_t *)&vp_log_obj);
  VP_ASSERT(rc == LDB_OK && vp_rec_count == 1, "snapshot is one record");

  /* replay into an empty version set */
  ldb_edit_init(&edit);
  rec.data = vp_rec; rec.size = vp_rec_len; rec.alloc = 0;
  ok = ldb_edit_import(&edit, &rec);
  VP_ASSERT(ok == 1, "snapshot record is accepted by ldb_edit_import");
  VP_ASSERT(edit.has_comparator && edit.comparator.size == 26 && edit.comparator.data[0] == 'l' &&
            edit.comparator.data[25] == 'r', "snapshot names the comparator");

  v2 = ldb_version_create(&vset2);
  builder_init(&b, &vset2, vset2.current);
  builder_apply(&b, &edit);
  builder_save_to(&b, v2);
  builder_clear(&b);

  n = 0;
  for (level = 0; level < LDB_NUM_LEVELS; level++) {
    const ldb_vector_t *out = &v2->files[level];
    int want = level == 0 ? nbase[0] : (level == 1 ? nbase[1] : (level == VP_L2LEVEL ? nbase[2] : 0));
    VP_ASSERT(out->length == (size_t)want, "replayed level has the same number of files");
    for (i = 0; i < want; i++) {
      if ((size_t)i < out->length) {
        const ldb_filemeta_t *m = out->items[i];
        VP_ASSERT(m->number == vp_f[n].number && m->file_size == vp_f[n].size, "replayed file: same number and size, same position");
        VP_ASSERT(key_is(&m->smallest, vp_f[n].sk) && key_is(&m->largest, vp_f[n].lk), "replayed file: same bounds");
      }
      n++;
    }
    if (level == 1)
      VP_ASSERT(key_is(&vset2.compact_pointer[level], vp_cp), "replayed compaction pointer == saved");
    else
      VP_ASSERT(vset2.compact_pointer[level].size == 0, "no compaction pointer invented");
  }

  VP_WITNESS("replayed");
  ldb_edit_clear(&edit);
}
