/* C14.a -- version_set.c builder (builder_apply + builder_save_to, statics
 * reached by including the real file): merging an edit into a base version.
 *
 * Base version: VP_B0 / VP_B1 / VP_B2 files on levels 0 / 1 / 2 (symbolic
 * numbers, sizes, 9-byte internal keys = 1 user byte + 8 byte tag), sorted by
 * (smallest, number) as every builder output is, levels >= 1 disjoint.
 * Edit: VP_NA added files (levels from VP_AL) and VP_ND deleted
 * (level, number) pairs (levels from VP_DL, numbers symbolic: may hit base
 * files or nothing), built with
 * the real ldb_edit_add_file / ldb_edit_remove_file.
 * Asserted for the version produced by the real builder:
 *   - per level, the file list == (base \ deleted) u added (by number, with
 *     identical size and bounds; survivors are the very same objects);
 *   - per level, strictly sorted by (smallest internal key, number);
 *   - if the added files are disjoint from the survivors of their level (and
 *     from each other), levels >= 1 are non-overlapping (largest < next
 *     smallest): the check NDEBUG compiles out of builder_save_to;
 *   - allowed_seeks of added files == max(100, size / 16384); reference
 *     counts: survivors 2 (base + new version), added 1 after builder_clear.
 * Internal-key order is an independent reference in this file.
 */
#include "vp.h"
#include "vp_vector_inc.h" /* real util/vector.c with typed item arrays */
#include "version_set.c"

#ifndef VP_B0
#define VP_B0 1
#endif
#ifndef VP_B1
#define VP_B1 2
#endif
#ifndef VP_B2
#define VP_B2 1
#endif
#ifndef VP_NA
#define VP_NA 2
#endif
#ifndef VP_ND
#define VP_ND 2
#endif

#define VP_NL 3
#define VP_NB (VP_B0 + VP_B1 + VP_B2)
#define VP_KLEN 9

typedef struct vp_file_s {
  int level;
  uint64_t number;
  uint64_t size;
  uint8_t sk[VP_KLEN];
  uint8_t lk[VP_KLEN];
  ldb_filemeta_t *meta; /* base files: the object in the base version */
  int deleted;
} vp_file_t;

static vp_file_t vp_base[VP_NB + 1];
static vp_file_t vp_add[VP_NA + 1];
static struct { int level; uint64_t number; } vp_del[VP_ND + 1];

/* reference internal-key order: user key ascending (bytewise; one byte
   here), then the 64-bit little-endian tag (sequence << 8 | type) descending */
static uint64_t
ref_tag(const uint8_t *k) {
  uint64_t t = 0;
  int i;
  for (i = 7; i >= 0; i--)
    t = (t << 8) | k[1 + i];
  return t;
}

static int
ref_ikey_cmp(const uint8_t *a, const uint8_t *b) {
  uint64_t ta, tb;
  if (a[0] != b[0])
    return a[0] < b[0] ? -1 : 1;
  ta = ref_tag(a);
  tb = ref_tag(b);
  if (ta > tb)
    return -1;
  if (ta < tb)
    return 1;
  return 0;
}

/* (smallest, number) order of two files */
static int
ref_file_cmp(const uint8_t *sa, uint64_t na, const uint8_t *sb, uint64_t nb) {
  int r = ref_ikey_cmp(sa, sb);
  if (r != 0)
    return r;
  if (na != nb)
    return na < nb ? -1 : 1;
  return 0;
}

/* Levels of the added / deleted entries: concrete per query (decimal digit i
 * of VP_AL / VP_DL, e.g. VP_AL=21: first file on level 1, second on level 2);
 * a symbolic level makes every rb-tree access fan out over all levels. */
#ifndef VP_AL
#define VP_AL 11
#endif
#ifndef VP_DL
#define VP_DL 11
#endif
static int
vp_level(int digits, int i) {
  while (i-- > 0)
    digits /= 10;
  return digits % 10;
}

static void
sym_file(vp_file_t *f, int level) {
  f->level = level;
  f->number = vp_u64();
  f->size = vp_u64();
  vp_fill(f->sk, VP_KLEN);
  vp_fill(f->lk, VP_KLEN);
  f->meta = NULL;
  f->deleted = 0;
  /* a table's smallest key is not above its largest */
  VP_ASSUME(ref_ikey_cmp(f->sk, f->lk) <= 0);
}

static int
key_is(const ldb_buffer_t *k, const uint8_t *want) {
  size_t i;
  if (k->size != VP_KLEN)
    return 0;
  for (i = 0; i < VP_KLEN; i++) {
    if (k->data[i] != want[i])
      return 0;
  }
  return 1;
}

void
harness(void) {
  static const int nbase[VP_NL] = { VP_B0, VP_B1, VP_B2 };
  static ldb_versions_t vset;
  static ldb_comparator_t icmp;
  ldb_version_t *base, *v;
  ldb_edit_t edit;
  builder_t b;
  ldb_slice_t k1, k2;
  int level, i, j, n, hit = 0, disjoint = 1;

  ldb_ikc_init(&icmp, ldb_bytewise_comparator);
  ldb_versions_init(&vset, "db", NULL, NULL, &icmp);

  /* base version */
  base = ldb_version_create(&vset);
  n = 0;
  for (level = 0; level < VP_NL; level++) {
    for (i = 0; i < nbase[level]; i++) {
      vp_file_t *f = &vp_base[n];
      ldb_filemeta_t *m = ldb_filemeta_create();
      sym_file(f, level);
      m->refs = 1;
      m->number = f->number;
      m->file_size = f->size;
      ldb_buffer_set(&m->smallest, f->sk, VP_KLEN);
      ldb_buffer_set(&m->largest, f->lk, VP_KLEN);
      f->meta = m;
      ldb_vector_push(&base->files[level], m);
      if (i > 0) {
        /* builder outputs are sorted by (smallest, number); levels >= 1 are disjoint */
        VP_ASSUME(ref_file_cmp(vp_base[n - 1].sk, vp_base[n - 1].number, f->sk, f->number) < 0);
        if (level > 0)
          VP_ASSUME(ref_ikey_cmp(vp_base[n - 1].lk, f->sk) < 0);
      }
      n++;
    }
  }
  ldb_versions_append_version(&vset, base);

  /* the edit */
  ldb_edit_init(&edit);
  for (i = 0; i < VP_ND; i++) {
    vp_del[i].level = vp_level(VP_DL, i);
    vp_del[i].number = vp_u64();
    ldb_edit_remove_file(&edit, vp_del[i].level, vp_del[i].number);
  }
  for (i = 0; i < VP_NA; i++) {
    int lv = vp_level(VP_AL, i);
    sym_file(&vp_add[i], lv);
    k1.data = vp_add[i].sk; k1.size = VP_KLEN; k1.alloc = 0;
    k2.data = vp_add[i].lk; k2.size = VP_KLEN; k2.alloc = 0;
    ldb_edit_add_file(&edit, lv, vp_add[i].number, vp_add[i].size, &k1, &k2);
  }

  /* file numbers are unique */
  for (i = 0; i < VP_NB; i++) {
    for (j = i + 1; j < VP_NB; j++)
      VP_ASSUME(vp_base[i].number != vp_base[j].number);
    for (j = 0; j < VP_NA; j++)
      VP_ASSUME(vp_base[i].number != vp_add[j].number);
  }
  for (i = 0; i < VP_NA; i++) {
    for (j = i + 1; j < VP_NA; j++)
      VP_ASSUME(vp_add[i].number != vp_add[j].number);
  }

  /* the real builder */
  v = ldb_version_create(&vset);
  builder_init(&b, &vset, vset.current);
  builder_apply(&b, &edit);
  builder_save_to(&b, v);
  builder_clear(&b);

  /* reference: which base files are deleted */
  for (i = 0; i < VP_NB; i++) {
    for (j = 0; j < VP_ND; j++) {
      if (vp_del[j].level == vp_base[i].level && vp_del[j].number == vp_base[i].number)
        vp_base[i].deleted = 1;
    }
    if (vp_base[i].deleted)
      hit++;
  }

  for (level = 0; level < LDB_NUM_LEVELS; level++) {
    const ldb_vector_t *out = &v->files[level];
    size_t want = 0, x;

    for (i = 0; i < VP_NB; i++)
      want += (vp_base[i].level == level && !vp_base[i].deleted);
    for (i = 0; i < VP_NA; i++)
      want += (vp_add[i].level == level);

    VP_ASSERT(out->length == want, "level file count == |(base - deleted) + added|");

    /* every expected file is present exactly once, with its data */
    for (i = 0; i < VP_NB; i++) {
      int found = 0;
      for (x = 0; x < VP_NB + VP_NA; x++) {
        if (x < out->length && out->items[x] == (void *)vp_base[i].meta)
          found++;
      }
      if (vp_base[i].level == level && !vp_base[i].deleted) {
        VP_ASSERT(found == 1, "surviving base file is kept once (same object)");
        VP_ASSERT(vp_base[i].meta->refs == 2, "survivor is referenced by base and new version");
        VP_ASSERT(vp_base[i].meta->number == vp_base[i].number && vp_base[i].meta->file_size == vp_base[i].size &&
                  key_is(&vp_base[i].meta->smallest, vp_base[i].sk) && key_is(&vp_base[i].meta->largest, vp_base[i].lk),
                  "surviving base file is unchanged");
      } else {
        VP_ASSERT(found == 0, "deleted base file / other level's file does not appear");
      }
    }
    for (i = 0; i < VP_NA; i++) {
      int found = 0;
      for (x = 0; x < VP_NB + VP_NA; x++) {
        if (x < out->length) {
          const ldb_filemeta_t *m = out->items[x];
          if (m->number == vp_add[i].number) {
            found++;
            VP_ASSERT(m->file_size == vp_add[i].size && key_is(&m->smallest, vp_add[i].sk) &&
                      key_is(&m->largest, vp_add[i].lk), "added file carries the edit's size and bounds");
            VP_ASSERT(m->allowed_seeks == (vp_add[i].size / 16384 < 100 ? 100 :
                                           (int)(vp_add[i].size / 16384)) || vp_add[i].size / 16384 > 0x7fffffff,
                      "allowed_seeks == max(100, size / 16 KiB)");
            VP_ASSERT(m->refs == 1, "added file is referenced by the new version only after builder_clear");
          }
        }
      }
      VP_ASSERT(found == (vp_add[i].level == level), "added file appears exactly once, on its level only");
    }

    /* order */
    for (x = 0; x + 1 < VP_NB + VP_NA; x++) {
      if (x + 1 < out->length) {
        const ldb_filemeta_t *p = out->items[x];
        const ldb_filemeta_t *q = out->items[x + 1];
        VP_ASSERT(p->smallest.size == VP_KLEN && q->smallest.size == VP_KLEN, "keys keep their length");
        VP_ASSERT(ref_file_cmp(p->smallest.data, p->number, q->smallest.data, q->number) < 0,
                  "level is strictly sorted by (smallest, number)");
      }
    }
  }

  /* are the added files disjoint from the survivors of their level and from each other? */
  for (i = 0; i < VP_NA; i++) {
    for (j = 0; j < VP_NB; j++) {
      if (vp_base[j].level == vp_add[i].level && !vp_base[j].deleted &&
          !(ref_ikey_cmp(vp_add[i].lk, vp_base[j].sk) < 0 || ref_ikey_cmp(vp_base[j].lk, vp_add[i].sk) < 0))
        disjoint = 0;
    }
    for (j = i + 1; j < VP_NA; j++) {
      if (vp_add[j].level == vp_add[i].level &&
          !(ref_ikey_cmp(vp_add[i].lk, vp_add[j].sk) < 0 || ref_ikey_cmp(vp_add[j].lk, vp_add[i].sk) < 0))
        disjoint = 0;
    }
  }

  if (disjoint) {
    for (level = 1; level < VP_NL; level++) {
      const ldb_vector_t *out = &v->files[level];
      size_t x;
      for (x = 0; x + 1 < VP_NB + VP_NA; x++) {
        if (x + 1 < out->length) {
          const ldb_filemeta_t *p = out->items[x];
          const ldb_filemeta_t *q = out->items[x + 1];
          VP_ASSERT(ref_ikey_cmp(p->largest.data, q->smallest.data) < 0,
                    "disjoint additions: level >= 1 stays non-overlapping");
        }
      }
    }
    VP_WITNESS("disjoint");
#if VP_B1 >= 2 && VP_ND >= 1
    if (hit > 0 && v->files[1].length >= 2)
      VP_WITNESS("disjoint-with-deletion");
#endif
  } else {
    VP_WITNESS("overlapping-addition");
  }

  ldb_edit_clear(&edit);
}
