/* C16.f -- util/bloom.c (LevelDB BuiltinBloomFilter2) and the internal-key
 * filter-policy wrapper of dbformat.c (ldb_ifp_*).
 *
 * Concrete per query: VP_N keys (0..3) with lengths VP_K0..VP_K2,
 * VP_BPK bits per key.  Symbolic: all key bytes.
 * With -DVP_ABSHASH the hash is an uninterpreted deterministic function
 * (fresh symbolic value per distinct input, remembered): the result then
 * holds for every hash function; otherwise the real util/hash.c is linked.
 *
 * VP_MODE 0: filter built by the real build function: layout (size, k byte,
 *            dst prefix untouched) and NO FALSE NEGATIVES: match(key) for
 *            every added key.
 * VP_MODE 1: match on an arbitrary VP_FL-byte filter: memory safe, < 2 bytes
 *            never matches, reserved k > 30 always matches.
 * VP_MODE 2: internal filter policy: build from internal keys (user key +
 *            8-byte tag), match with the same user key under ANY tag, and the
 *            user policy sees exactly the user key (8 bytes stripped). */
#include "vp.h"
#include "util/buffer.h"
#include "util/slice.h"
#include "util/bloom.h"
#include "util/hash.h"
#include "util/comparator.h"
#include "dbformat.h"

#ifndef VP_N
#define VP_N 2
#endif
#ifndef VP_BPK
#define VP_BPK 10
#endif
#ifndef VP_K0
#define VP_K0 1
#endif
#ifndef VP_K1
#define VP_K1 2
#endif
#ifndef VP_K2
#define VP_K2 3
#endif
#ifndef VP_FL
#define VP_FL 4
#endif
#define VP_KMAX 8
#define VP_TAG 8
#define VP_PREFIX 2

static const size_t vp_klen[3] = { VP_K0, VP_K1, VP_K2 };

#ifdef VP_ABSHASH
/* uninterpreted, deterministic hash: same bytes => same value */
#define VP_HMAX 4
static uint8_t vp_hk[VP_HMAX][VP_KMAX];
static size_t vp_hl[VP_HMAX];
static uint32_t vp_hv[VP_HMAX];
static int vp_hn = 0;

uint32_t
ldb_hash(const uint8_t *data, size_t size, uint32_t seed) {
  int j;
  size_t i;
  VP_ASSERT(seed == 0xbc9f1d34, "bloom hash seed is LevelDB's 0xbc9f1d34");
  VP_ASSERT(size <= VP_KMAX, "vp-model: hashed key fits the memo table");
  for (j = 0; j < VP_HMAX; j++) {
    if (j < vp_hn && vp_hl[j] == size) {
      int same = 1;
      for (i = 0; i < VP_KMAX; i++)
        if (i < size && vp_hk[j][i] != data[i])
          same = 0;
      if (same)
        return vp_hv[j];
    }
  }
  VP_ASSERT(vp_hn < VP_HMAX, "vp-model: hash memo table full");
  for (i = 0; i < VP_KMAX; i++)
    vp_hk[vp_hn][i] = i < size ? data[i] : 0;
  vp_hl[vp_hn] = size;
  vp_hv[vp_hn] = vp_u32();
  return vp_hv[vp_hn++];
}
#endif

/* LevelDB: k = bits_per_key * ln2 (0.69), rounded down, clamped to [1,30] */
static size_t
vp_ref_k(int bpk) {
  size_t k = (size_t)((bpk * 69) / 100);
  if (k < 1) k = 1;
  if (k > 30) k = 30;
  return k;
}

void
harness(void) {
#if VP_MODE == 0
  ldb_bloom_t bloom;
  ldb_buffer_t dst;
  ldb_slice_t keys[3], filter;
  uint8_t *kb[3];
  uint8_t prefix[VP_PREFIX];
  size_t i, bits, bytes;

  ldb_bloom_init(&bloom, VP_BPK);
  VP_ASSERT(bloom.k == vp_ref_k(VP_BPK), "probe count k == floor(bits_per_key * 0.69) clamped to [1,30]");
#ifdef VP_KOVR
  /* a policy "created using different parameters": few probes with a large
     bits_per_key, so that a filter longer than 64 bits (modulus not a power
     of two) stays cheap to check */
  bloom.k = VP_KOVR;
#define VP_EXPK VP_KOVR
#else
#define VP_EXPK vp_ref_k(VP_BPK)
#endif

  for (i = 0; i < VP_N; i++) {
    kb[i] = vp_input(vp_klen[i]);
    vp_fill(kb[i], vp_klen[i]);
    ldb_slice_set(&keys[i], kb[i], vp_klen[i]);
  }

  /* "append the newly constructed filter to *dst" */
  ldb_buffer_init(&dst);
  vp_fill(prefix, VP_PREFIX);
  ldb_buffer_append(&dst, prefix, VP_PREFIX);

  ldb_bloom_build(&bloom, &dst, keys, VP_N);

  bits = (size_t)VP_N * VP_BPK;
  if (bits < 64) bits = 64;
  bytes = (bits + 7) / 8;

  VP_ASSERT(dst.size == VP_PREFIX + bytes + 1, "filter length == max(64, n*bits_per_key) bits rounded up + 1 byte for k");
  for (i = 0; i < VP_PREFIX; i++)
    VP_ASSERT(dst.data[i] == prefix[i], "build leaves the initial contents of dst alone");
  VP_ASSERT(dst.data[dst.size - 1] == VP_EXPK, "last filter byte == k");

  ldb_slice_set(&filter, dst.data + VP_PREFIX, dst.size - VP_PREFIX);

  for (i = 0; i < VP_N; i++)
    VP_ASSERT(ldb_bloom_match(&bloom, &filter, &keys[i]), "no false negative: every added key matches");

#if VP_N == 0
  {
    /* an empty key set has no bit set: nothing matches */
    uint8_t pk[2];
    ldb_slice_t probe;
    vp_fill(pk, 2);
    ldb_slice_set(&probe, pk, 2);
    VP_ASSERT(!ldb_bloom_match(&bloom, &filter, &probe), "filter of no keys matches nothing");
  }
#endif
  VP_WITNESS("bloom built and probed");
  ldb_buffer_clear(&dst);
#elif VP_MODE == 1
  ldb_bloom_t bloom;
  uint8_t *fb = vp_input(VP_FL);
  uint8_t *kb = vp_input(VP_K0);
  ldb_slice_t filter, key;
  int r;

  ldb_bloom_init(&bloom, VP_BPK);
  vp_fill(fb, VP_FL);
  vp_fill(kb, VP_K0);
  ldb_slice_set(&filter, fb, VP_FL);
  ldb_slice_set(&key, kb, VP_K0);

  r = ldb_bloom_match(&bloom, &filter, &key);
#if VP_FL < 2
  VP_ASSERT(r == 0, "a filter shorter than 2 bytes matches nothing");
  VP_WITNESS("short filter");
#else
  if (fb[VP_FL - 1] > 30) {
    VP_ASSERT(r == 1, "reserved k > 30 is treated as a match");
    VP_WITNESS("reserved k");
  } else if (fb[VP_FL - 1] == 0) {
    VP_ASSERT(r == 1, "k == 0 probes nothing and matches");
    VP_WITNESS("k zero");
  } else {
    VP_ASSERT(r == 0 || r == 1, "match is boolean");
    if (r)
      VP_WITNESS("arbitrary filter matched");
    else
      VP_WITNESS("arbitrary filter rejected");
  }
#endif
#else
  ldb_bloom_t bloom, ifp;
  ldb_buffer_t dst;
  ldb_slice_t keys[3], filter, probe, ukey;
  uint8_t *kb[3];
  uint8_t pb[VP_KMAX + VP_TAG];
  size_t i, j;

  ldb_bloom_init(&bloom, VP_BPK);
  ldb_ifp_init(&ifp, &bloom);

  for (i = 0; i < VP_N; i++) {
    kb[i] = vp_input(vp_klen[i] + VP_TAG);
    vp_fill(kb[i], vp_klen[i] + VP_TAG);
    ldb_slice_set(&keys[i], kb[i], vp_klen[i] + VP_TAG);
  }

  ldb_buffer_init(&dst);
  ldb_bloom_build(&ifp, &dst, keys, VP_N);
  filter = dst;

  for (i = 0; i < VP_N; i++) {
    /* same user key, any other tag */
    for (j = 0; j < vp_klen[i]; j++)
      pb[j] = kb[i][j];
    vp_fill(pb + vp_klen[i], VP_TAG);
    ldb_slice_set(&probe, pb, vp_klen[i] + VP_TAG);
    VP_ASSERT(ldb_bloom_match(&ifp, &filter, &probe),
              "internal policy: an added user key matches under any sequence/type tag");
    ldb_slice_set(&ukey, kb[i], vp_klen[i]);
    VP_ASSERT(ldb_bloom_match(&bloom, &filter, &ukey),
              "internal policy hands exactly the user key (8-byte tag stripped) to the user policy");
  }
  VP_WITNESS("internal filter policy");
  ldb_buffer_clear(&dst);
#endif
}
