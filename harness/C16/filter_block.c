/* C16.e -- table/filter_block.c builder -> reader with an ABSTRACT filter
 * policy whose match is consistent with its build (filter := count byte +
 * one fingerprint byte per key; match := fingerprint present), real 2 KiB
 * filter base.
 *
 * Concrete per query: VP_NB blocks (1..3), VP_C0..VP_C2 keys per block
 * (0..2), key length VP_KL, and -- when VP_O0.. are given -- the block
 * offsets (boundary values of the 2 KiB ranges; several blocks may share one
 * range, ranges may be skipped).  Symbolic: all key bytes, a probe key and
 * probe offset, and without VP_O0 also the block offsets (non-decreasing,
 * < 4 * 2048, i.e. filter indices 0..3).
 *
 * Asserted:
 *  - ldb_filter_matches(offset of block b, key) for every key added to b;
 *  - the block parses per the LevelDB filter-block format (filters, offset
 *    array, array offset, base-lg byte 11) and filter i is exactly the policy
 *    output for the keys of the blocks whose offset lies in
 *    [i*2048, (i+1)*2048), empty if there is none;
 *  - for an arbitrary probe, ldb_filter_matches == reference (index past the
 *    array => match, empty filter => no match, else policy answer). */
#include "vp.h"
#include "util/array.h"
#include "util/buffer.h"
#include "util/slice.h"
#include "util/bloom.h"
#include "table/filter_block.h"
#include "C16/ref.h"

#ifndef VP_NB
#define VP_NB 2
#endif
#ifndef VP_C0
#define VP_C0 1
#endif
#ifndef VP_C1
#define VP_C1 1
#endif
#ifndef VP_C2
#define VP_C2 1
#endif
#ifndef VP_KL
#define VP_KL 2
#endif
#define VP_MAXC 2
#define VP_MAXF 4          /* filter indices 0..3 */
#define VP_MAXG (3 * VP_MAXC) /* most keys in one filter */

static const size_t vp_cnt[3] = { VP_C0, VP_C1, VP_C2 };
#ifdef VP_O0
#ifndef VP_O1
#define VP_O1 VP_O0
#endif
#ifndef VP_O2
#define VP_O2 VP_O1
#endif
static const uint64_t vp_off[3] = { VP_O0, VP_O1, VP_O2 };
#endif

/* ---- abstract policy ---------------------------------------------------- */
static uint8_t
vp_fp(const uint8_t *p, size_t n) {
  uint8_t h = (uint8_t)(0x5b ^ n);
  size_t i;
  for (i = 0; i < n; i++)
    h = (uint8_t)(h * 31 + p[i]);
  return h;
}

static void
vp_pol_build(const ldb_bloom_t *bloom, ldb_buffer_t *dst,
             const ldb_slice_t *keys, size_t length) {
  size_t i;
  (void)bloom;
  ldb_buffer_push(dst, (int)length);
  for (i = 0; i < VP_MAXG; i++)
    if (i < length)
      ldb_buffer_push(dst, vp_fp(keys[i].data, keys[i].size));
}

static int
vp_pol_match(const ldb_bloom_t *bloom, const ldb_slice_t *filter,
             const ldb_slice_t *key) {
  size_t i, n;
  uint8_t f;
  (void)bloom;
  if (filter->size < 1)
    return 0;
  n = filter->data[0];
  if (filter->size != n + 1)
    return 1; /* not one of ours: potential match */
  f = vp_fp(key->data, key->size);
  for (i = 0; i < VP_MAXG; i++)
    if (i < n && filter->data[1 + i] == f)
      return 1;
  return 0;
}

/* g[idx] != 0 without a symbolic array index */
static int
gcnt_last_nonzero(const size_t *g, size_t idx) {
  size_t i;
  int r = 0;
  for (i = 0; i < VP_MAXF; i++)
    if (i == idx && g[i] != 0)
      r = 1;
  return r;
}

static const ldb_bloom_t vp_policy = {
  "vp.AbstractPolicy", vp_pol_build, vp_pol_match, 0, 0, NULL, NULL
};

void
harness(void) {
  static uint8_t kb[3][VP_MAXC][VP_KL > 0 ? VP_KL : 1];
  uint64_t off[3];
  ldb_filtergen_t fb;
  ldb_filter_t fr;
  ldb_slice_t contents, key;
  size_t b, j, i, n, nfilters, aoff, num;
  /* reference grouping: fingerprints per filter index */
  uint8_t gfp[VP_MAXF][VP_MAXG];
  size_t gcnt[VP_MAXF];
  size_t idx[3];

  for (b = 0; b < VP_NB; b++) {
#ifdef VP_O0
    /* concrete block offsets (boundary values of the 2 KiB ranges) */
    off[b] = vp_off[b];
#else
    off[b] = vp_u16();
#endif
    VP_ASSUME(off[b] < VP_MAXF * 2048);
    if (b > 0)
      VP_ASSUME(off[b] >= off[b - 1]);
    idx[b] = (size_t)(off[b] / 2048);
    for (j = 0; j < vp_cnt[b]; j++)
      vp_fill(kb[b][j], VP_KL);
  }

  /* ---- build with the real builder */
  ldb_filtergen_init(&fb, &vp_policy);
  for (b = 0; b < VP_NB; b++) {
    ldb_filtergen_start_block(&fb, off[b]);
    for (j = 0; j < vp_cnt[b]; j++) {
      ldb_slice_set(&key, kb[b][j], VP_KL);
      ldb_filtergen_add_key(&fb, &key);
    }
  }
  contents = ldb_filtergen_finish(&fb);

  /* ---- reference grouping (concrete loops, symbolic membership) */
  for (i = 0; i < VP_MAXF; i++) {
    gcnt[i] = 0;
    for (b = 0; b < VP_NB; b++)
      for (j = 0; j < vp_cnt[b]; j++)
        if (idx[b] == i) {
          size_t s;
          uint8_t f = vp_fp(kb[b][j], VP_KL);
          /* append at position gcnt[i] without a symbolic index */
          for (s = 0; s < VP_MAXG; s++)
            if (s == gcnt[i])
              gfp[i][s] = f;
          gcnt[i]++;
        }
  }
  /* filters 0..idx_last-1 come from start_block, one more iff keys pend */
  nfilters = idx[VP_NB - 1] + (gcnt_last_nonzero(gcnt, idx[VP_NB - 1]) ? 1 : 0);

  /* ---- format-level reader (LevelDB filter block) */
  n = contents.size;
  VP_ASSERT(n >= 5, "filter block has array offset word and base-lg byte");
  VP_ASSERT(contents.data[n - 1] == 11, "base-lg byte == 11 (2 KiB)");
  aoff = vp_ref_fixed32(contents.data + n - 5);
  VP_ASSERT(aoff <= n - 5 && (n - 5 - aoff) % 4 == 0, "array offset inside the block, whole words");
  num = (n - 5 - aoff) / 4;
  VP_ASSERT(num == nfilters, "one filter per 2 KiB range up to the last block (+1 iff it has keys)");
  for (i = 0; i < VP_MAXF; i++) {
    if (i < num) {
      size_t start = vp_ref_fixed32(contents.data + aoff + 4 * i);
      size_t limit = vp_ref_fixed32(contents.data + aoff + 4 * i + 4);
      VP_ASSERT(start <= limit && limit <= aoff, "filter offsets ordered and inside the data area");
      if (i == 0)
        VP_ASSERT(start == 0, "first filter starts at 0");
      if (gcnt[i] == 0) {
        VP_ASSERT(limit == start, "range without keys has an empty filter");
      } else {
        VP_ASSERT(limit - start == gcnt[i] + 1, "filter i == policy output for the keys of range i (length)");
        VP_ASSERT(contents.data[start] == gcnt[i], "filter i: key count");
        for (j = 0; j < VP_MAXG; j++)
          if (j < gcnt[i])
            VP_ASSERT(contents.data[start + 1 + j] == gfp[i][j], "filter i: fingerprints in add order");
      }
    }
  }

  /* ---- real reader */
  ldb_filter_init(&fr, &vp_policy, &contents);
  VP_ASSERT(fr.num == nfilters && fr.base_lg == 11, "reader decodes filter count and base-lg");

  for (b = 0; b < VP_NB; b++)
    for (j = 0; j < vp_cnt[b]; j++) {
      ldb_slice_set(&key, kb[b][j], VP_KL);
      VP_ASSERT(ldb_filter_matches(&fr, off[b], &key),
                "filter never rejects a key added to the block at that offset");
    }

  /* ---- arbitrary probe vs reference */
  {
    uint8_t pk[VP_KL > 0 ? VP_KL : 1];
    uint64_t poff = vp_u16();
    size_t pidx;
    int want, got;
    vp_fill(pk, VP_KL);
    VP_ASSUME(poff < (VP_MAXF + 1) * 2048);
    pidx = (size_t)(poff / 2048);
    ldb_slice_set(&key, pk, VP_KL);
    got = ldb_filter_matches(&fr, poff, &key);
    if (pidx >= nfilters) {
      want = 1;
    } else {
      uint8_t f = vp_fp(pk, VP_KL);
      want = 0;
      for (i = 0; i < VP_MAXF; i++)
        if (i == pidx)
          for (j = 0; j < VP_MAXG; j++)
            if (j < gcnt[i] && gfp[i][j] == f)
              want = 1;
    }
    VP_ASSERT((got != 0) == (want != 0), "matches(offset, key) == reference filter lookup");
    if (got)
      VP_WITNESS("probe matched");
    else
      VP_WITNESS("probe rejected");
  }
  ldb_filtergen_clear(&fb);
}
