/* C16.c -- table/format.c: block handle and footer codecs vs the LevelDB
 * table format (two varint64 handles, zero padding to 40 bytes, 8-byte magic
 * 0xdb4775248b80fb57 little endian), for ALL 64-bit field values, and the
 * footer reader on arbitrary bytes.
 *
 * VP_MODE 0: handle write/size/export -> reference bytes, read identity
 * VP_MODE 1: footer write/export -> reference layout, read identity
 * VP_MODE 2: footer read on VP_N arbitrary bytes == reference decoder
 * VP_MODE 3: handle read on VP_N arbitrary bytes == reference decoder */
#include "vp.h"
#include "util/buffer.h"
#include "util/slice.h"
#include "table/format.h"
#include "C16/ref.h"

#ifndef VP_N
#define VP_N 48
#endif

#ifdef VP_REPLAY
/* format.c also holds ldb_read_block(); the native link needs its callees */
#include "util/env.h"
int ldb_rfile_mapped(ldb_rfile_t *file) { (void)file; return 0; }
int ldb_rfile_pread(ldb_rfile_t *file, ldb_slice_t *result, void *buf,
                    size_t count, uint64_t offset) {
  (void)file; (void)result; (void)buf; (void)count; (void)offset;
  return -1;
}
uint32_t ldb_crc32c_extend(uint32_t z, const uint8_t *xp, size_t xn) {
  (void)xp; (void)xn; return z;
}
int ldb_snappy_decode_size(size_t *zn, const uint8_t *xp, size_t xn) {
  (void)zn; (void)xp; (void)xn; return 0;
}
int ldb_snappy_decode(uint8_t *zp, const uint8_t *xp, size_t xn) {
  (void)zp; (void)xp; (void)xn; return 0;
}
#endif

void
harness(void) {
#if VP_MODE == 0
  {
    ldb_handle_t h, g;
    uint8_t buf[LDB_HANDLE_SIZE], ref[20], tmp[LDB_HANDLE_SIZE];
    ldb_buffer_t eb;
    ldb_slice_t sl;
    uint8_t *end;
    const uint8_t *xp;
    size_t len, rlen, xn, i;

    h.offset = vp_u64();
    h.size = vp_u64();

    rlen = vp_ref_varint_put(ref, h.offset);
    rlen += vp_ref_varint_put(ref + rlen, h.size);

    end = ldb_handle_write(buf, &h);
    len = (size_t)(end - buf);

    VP_ASSERT(len == rlen, "handle length == two varint64");
    VP_ASSERT(len <= LDB_HANDLE_SIZE, "handle fits LDB_HANDLE_SIZE");
    VP_ASSERT(ldb_handle_size(&h) == len, "handle_size == bytes written");
    for (i = 0; i < len; i++)
      VP_ASSERT(buf[i] == ref[i], "handle byte == reference varint64 pair");

    xp = buf; xn = len;
    g.offset = 1; g.size = 1;
    VP_ASSERT(ldb_handle_read(&g, &xp, &xn) == 1, "handle read accepts own output");
    VP_ASSERT(g.offset == h.offset && g.size == h.size, "handle round trip");
    VP_ASSERT(xn == 0 && xp == buf + len, "handle read consumes exactly the encoding");

    /* the way table_builder.c uses it: export into a 20-byte rw buffer */
    ldb_buffer_rwset(&eb, tmp, sizeof(tmp));
    ldb_handle_export(&eb, &h);
    VP_ASSERT(eb.size == len && eb.data == tmp, "handle export appends the encoding in place");
    for (i = 0; i < len; i++)
      VP_ASSERT(tmp[i] == ref[i], "handle export byte == reference");

    ldb_slice_set(&sl, tmp, len);
    g.offset = 1; g.size = 1;
    VP_ASSERT(ldb_handle_import(&g, &sl) == 1, "handle import accepts");
    VP_ASSERT(g.offset == h.offset && g.size == h.size, "handle import round trip");
    VP_ASSERT(sl.data == tmp && sl.size == len, "handle import leaves the slice alone");

    /* a truncated encoding is rejected */
    if (len >= 1) {
      xp = buf; xn = len - 1;
      VP_ASSERT(ldb_handle_read(&g, &xp, &xn) == 0, "handle read rejects truncated encoding");
    }
    VP_WITNESS("handle");
  }
#elif VP_MODE == 1
  {
    ldb_footer_t f, g;
    uint8_t *buf = vp_input(LDB_FOOTER_SIZE);
    uint8_t ref[48], tmp[LDB_FOOTER_SIZE];
    ldb_buffer_t eb;
    ldb_slice_t sl;
    uint8_t *end;
    const uint8_t *xp;
    size_t rlen, xn, i;

    f.metaindex_handle.offset = vp_u64();
    f.metaindex_handle.size = vp_u64();
    f.index_handle.offset = vp_u64();
    f.index_handle.size = vp_u64();
#ifdef VP_L0
    /* the encoded lengths of the first handle's two varints are concrete per
       query (1..10 each), all values inside each class: the 100 classes
       cover every footer */
    VP_ASSUME(vp_ref_varint_len(f.metaindex_handle.offset) == VP_L0);
    VP_ASSUME(vp_ref_varint_len(f.metaindex_handle.size) == VP_L1);
#endif
#ifdef VP_L2
    VP_ASSUME(vp_ref_varint_len(f.index_handle.offset) == VP_L2);
    VP_ASSUME(vp_ref_varint_len(f.index_handle.size) == VP_L3);
#endif

    rlen = vp_ref_varint_put(ref, f.metaindex_handle.offset);
    rlen += vp_ref_varint_put(ref + rlen, f.metaindex_handle.size);
    rlen += vp_ref_varint_put(ref + rlen, f.index_handle.offset);
    rlen += vp_ref_varint_put(ref + rlen, f.index_handle.size);
    for (i = rlen; i < 40; i++)
      ref[i] = 0;
    for (i = 0; i < 8; i++)
      ref[40 + i] = vp_ref_magic[i];

    for (i = 0; i < LDB_FOOTER_SIZE; i++)
      buf[i] = 0xa5;

    end = ldb_footer_write(buf, &f);
    VP_ASSERT(end == buf + 48, "footer is exactly 48 bytes");
    for (i = 0; i < 48; i++)
      VP_ASSERT(buf[i] == ref[i], "footer byte == reference (handles, zero padding to 40, magic LE)");

#if VP_PART == 1
    xp = buf; xn = 48;
    VP_ASSERT(ldb_footer_read(&g, &xp, &xn) == 1, "footer read accepts own output");
    VP_ASSERT(g.metaindex_handle.offset == f.metaindex_handle.offset &&
              g.metaindex_handle.size == f.metaindex_handle.size &&
              g.index_handle.offset == f.index_handle.offset &&
              g.index_handle.size == f.index_handle.size, "footer round trip");
    VP_ASSERT(xp == buf + 48 && xn == 0, "footer read consumes 48 bytes");

    /* as used by table_builder.c */
    ldb_buffer_rwset(&eb, tmp, sizeof(tmp));
    ldb_footer_export(&eb, &f);
    VP_ASSERT(eb.size == 48 && eb.data == tmp, "footer export appends 48 bytes in place");
    for (i = 0; i < 48; i++)
      VP_ASSERT(tmp[i] == ref[i], "footer export byte == reference");

    ldb_slice_set(&sl, tmp, 48);
    VP_ASSERT(ldb_footer_import(&g, &sl) == 1, "footer import accepts");
    VP_ASSERT(g.index_handle.size == f.index_handle.size &&
              g.metaindex_handle.offset == f.metaindex_handle.offset, "footer import round trip");

    /* one byte short is rejected */
    xp = buf; xn = 47;
    VP_ASSERT(ldb_footer_read(&g, &xp, &xn) == 0, "footer read rejects 47 bytes");
#else
    (void)g; (void)tmp; (void)eb; (void)sl; (void)xp; (void)xn;
#endif
    VP_WITNESS("footer");
  }
#elif VP_MODE == 2
  {
    uint8_t *in = vp_input(VP_N);
    ldb_footer_t g;
    const uint8_t *xp = in;
    size_t xn = VP_N, pos = 0, c, i;
    uint64_t v[4];
    int ok, rok = 1;

    vp_fill(in, VP_N);

    ok = ldb_footer_read(&g, &xp, &xn);

    /* reference: at least 48 bytes, magic at [40,48), four varint64 from 0 */
    if (VP_N < 48) {
      rok = 0;
    } else {
      for (i = 0; i < 8; i++)
        if (in[40 + i] != vp_ref_magic[i])
          rok = 0;
      for (i = 0; i < 4 && rok; i++) {
        c = vp_ref_varint_get(in + pos, 40 - pos, 10, &v[i]);
        if (c == 0)
          rok = 0;
        pos += c;
      }
    }

    VP_ASSERT((ok != 0) == (rok != 0), "footer read accepts iff magic matches and both handles parse");
    if (ok) {
      VP_ASSERT(g.metaindex_handle.offset == v[0] && g.metaindex_handle.size == v[1] &&
                g.index_handle.offset == v[2] && g.index_handle.size == v[3],
                "footer read values == reference decoder");
      VP_ASSERT(xp == in + 48 && xn == VP_N - 48, "footer read consumes exactly 48 bytes");
#if VP_N >= 48
      VP_WITNESS("footer accepted");
#endif
    } else {
      VP_ASSERT(xn <= VP_N, "failed footer read does not grow the slice");
      VP_WITNESS("footer rejected");
    }
  }
#else
  {
    uint8_t *in = vp_input(VP_N);
    ldb_handle_t g;
    const uint8_t *xp = in;
    size_t xn = VP_N, c1, c2 = 0;
    uint64_t a = 0, b = 0;
    int ok;

    vp_fill(in, VP_N);
    ok = ldb_handle_read(&g, &xp, &xn);
    c1 = vp_ref_varint_get(in, VP_N, 10, &a);
    if (c1 != 0)
      c2 = vp_ref_varint_get(in + c1, VP_N - c1, 10, &b);
    VP_ASSERT((ok != 0) == (c1 != 0 && c2 != 0), "handle read accepts iff two varint64 parse");
    if (ok) {
      VP_ASSERT(g.offset == a && g.size == b, "handle read values == reference");
      VP_ASSERT(xp == in + c1 + c2 && xn == VP_N - c1 - c2, "handle read consumes the two varints");
#if VP_N >= 2
      VP_WITNESS("handle accepted");
#endif
    } else {
      VP_WITNESS("handle rejected");
    }
  }
#endif
}
