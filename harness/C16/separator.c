/* C16.b -- index-key shortening: bytewise comparator (util/comparator.c) and
 * internal-key comparator (dbformat.c) shortest_separator / short_successor
 * and compare, on symbolic strings, against an independent bytewise /
 * internal-key order.
 *
 * VP_LS = length of the start (user) key, concrete per query; in mode 0 the
 * limit length runs over 0..VP_MAXL in a concrete loop (fresh symbolic
 * contents per iteration), in mode 2 the limit length is VP_MAXL.
 *
 * VP_MODE 0: bytewise compare + shortest_separator
 * VP_MODE 1: bytewise short_successor
 * VP_MODE 2: internal compare + shortest_separator (user keys + symbolic tags)
 * VP_MODE 3: internal short_successor */
#include "vp.h"
#include "util/buffer.h"
#include "util/slice.h"
#include "util/comparator.h"
#include "util/bloom.h"
#include "dbformat.h"
#include "C16/ref.h"

#ifndef VP_LS
#define VP_LS 2
#endif
#ifndef VP_MAXL
#define VP_MAXL 4
#endif

#define VP_TAG 8

static int
vp_sign(int x) {
  return x < 0 ? -1 : (x > 0 ? 1 : 0);
}

#if VP_MODE == 0
static void
vp_check_sep(size_t ll) {
  const ldb_comparator_t *cmp = ldb_bytewise_comparator;
  uint8_t *s0 = vp_input(VP_LS);
  uint8_t *lim = vp_input(ll);
  ldb_buffer_t start;
  ldb_slice_t limit, orig;
  int lt, r;

  vp_fill(s0, VP_LS);
  vp_fill(lim, ll);

  ldb_buffer_init(&start);
  ldb_buffer_set(&start, s0, VP_LS);
  ldb_slice_set(&limit, lim, ll);
  ldb_slice_set(&orig, s0, VP_LS);

  lt = vp_ref_bytewise(s0, VP_LS, lim, ll);

  r = ldb_compare(cmp, &orig, &limit);
  VP_ASSERT(vp_sign(r) == lt, "bytewise compare == reference order");

  ldb_shortest_separator(cmp, &start, &limit);

  VP_ASSERT(start.size <= VP_LS, "separator never longer than start");
  if (lt < 0) {
    VP_ASSERT(vp_ref_bytewise(s0, VP_LS, start.data, start.size) <= 0, "start <= separator");
    VP_ASSERT(vp_ref_bytewise(start.data, start.size, lim, ll) < 0, "separator < limit");
  }
#if VP_LS >= 2
  if (ll == 1 && start.size < VP_LS)
    VP_WITNESS("bytewise separator shortened");
#endif
  ldb_buffer_clear(&start);
}
#endif

#if VP_MODE == 2
static void
vp_check_isep(size_t ll) {
  ldb_comparator_t ikc;
  uint8_t *s0 = vp_input(VP_LS + VP_TAG);
  uint8_t *lim = vp_input(ll + VP_TAG);
  ldb_buffer_t start;
  ldb_slice_t limit, orig;
  int lt, r;

  ldb_ikc_init(&ikc, ldb_bytewise_comparator);
  VP_ASSERT(ikc.shortest_separator != NULL && ikc.short_successor != NULL,
            "internal comparator forwards the shortening functions");

  vp_fill(s0, VP_LS + VP_TAG);
  vp_fill(lim, ll + VP_TAG);

  ldb_buffer_init(&start);
  ldb_buffer_set(&start, s0, VP_LS + VP_TAG);
  ldb_slice_set(&limit, lim, ll + VP_TAG);
  ldb_slice_set(&orig, s0, VP_LS + VP_TAG);

  lt = vp_ref_internal(s0, VP_LS + VP_TAG, lim, ll + VP_TAG);

  r = ldb_compare(&ikc, &orig, &limit);
  VP_ASSERT(vp_sign(r) == lt, "internal compare == reference order (user asc, tag desc)");

  ldb_shortest_separator(&ikc, &start, &limit);

  VP_ASSERT(start.size <= VP_LS + VP_TAG, "internal separator never longer than start");
  VP_ASSERT(start.size >= VP_TAG, "internal separator keeps an 8-byte tag");
  if (lt < 0) {
    VP_ASSERT(vp_ref_internal(s0, VP_LS + VP_TAG, start.data, start.size) <= 0, "start <= internal separator");
    VP_ASSERT(vp_ref_internal(start.data, start.size, lim, ll + VP_TAG) < 0, "internal separator < limit");
  }
#if VP_LS >= 2 && VP_MAXL >= 1
  if (start.size < VP_LS + VP_TAG)
    VP_WITNESS("internal separator shortened");
#endif
  ldb_buffer_clear(&start);
}
#endif

void
harness(void) {
#if VP_MODE == 0
  size_t ll;
  for (ll = 0; ll <= VP_MAXL; ll++)
    vp_check_sep(ll);
  VP_WITNESS("bytewise separator");
#elif VP_MODE == 1
  {
    const ldb_comparator_t *cmp = ldb_bytewise_comparator;
    uint8_t *k0 = vp_input(VP_LS);
    ldb_buffer_t key;
    size_t i;
    int allff = 1;

    vp_fill(k0, VP_LS);
    ldb_buffer_init(&key);
    ldb_buffer_set(&key, k0, VP_LS);

    ldb_short_successor(cmp, &key);

    VP_ASSERT(key.size <= VP_LS, "successor never longer than key");
    VP_ASSERT(vp_ref_bytewise(k0, VP_LS, key.data, key.size) <= 0, "key <= successor");
    for (i = 0; i < VP_LS; i++)
      if (k0[i] != 0xff)
        allff = 0;
    if (allff) {
      VP_ASSERT(key.size == VP_LS, "0xff run is left alone");
      VP_WITNESS("0xff run");
    } else {
#if VP_LS >= 1
      VP_WITNESS("successor");
#endif
    }
    ldb_buffer_clear(&key);
  }
#elif VP_MODE == 2
  /* one (start, limit) length pair per query: VP_MAXL is the limit length */
  vp_check_isep(VP_MAXL);
  VP_WITNESS("internal separator");
#else
  {
    ldb_comparator_t ikc;
    uint8_t *k0 = vp_input(VP_LS + VP_TAG);
    ldb_buffer_t key;

    ldb_ikc_init(&ikc, ldb_bytewise_comparator);
    vp_fill(k0, VP_LS + VP_TAG);
    ldb_buffer_init(&key);
    ldb_buffer_set(&key, k0, VP_LS + VP_TAG);

    ldb_short_successor(&ikc, &key);

    VP_ASSERT(key.size <= VP_LS + VP_TAG, "internal successor never longer than key");
    VP_ASSERT(key.size >= VP_TAG, "internal successor keeps an 8-byte tag");
    VP_ASSERT(vp_ref_internal(k0, VP_LS + VP_TAG, key.data, key.size) <= 0, "key <= internal successor");
#if VP_LS >= 2
    if (key.size < VP_LS + VP_TAG)
      VP_WITNESS("internal successor shortened");
#endif
    VP_WITNESS("internal successor");
    ldb_buffer_clear(&key);
  }
#endif
}
