/* C16.a -- table/block_builder.c against an independent reader of the
 * LevelDB block format (C16/ref.h), and the built block fed to lcdb's own
 * block iterator (table/block.c).
 *
 * Concrete per query: VP_N entries (0..4), VP_R restart interval (1..3),
 * VP_PRE entries added to the same builder before a finish()+reset() (0 = a
 * fresh builder), the key lengths VP_K0..VP_K3 (0..VP_KMAX) and the value
 * lengths VP_V0..VP_V3 (0..VP_VMAX).  Symbolic: all key and value bytes,
 * strictly increasing keys (the documented precondition of ldb_blockgen_add);
 * in mode 1 also the seek target (VP_TL bytes).
 *
 * VP_MODE 0: bytes decode (reference reader) to exactly the added entries;
 *            restart array; shared-prefix lengths as LevelDB emits them;
 *            size estimate == final size.
 * VP_MODE 1: lcdb's block iterator over the built block: forward scan yields
 *            the entries in order; seek(target) lands on the first entry
 *            >= target (reference order). */
#include "vp.h"
#include "util/array.h"
#include "util/buffer.h"
#include "util/slice.h"
#include "util/comparator.h"
#include "util/options.h"
#include "util/status.h"
#include "table/block_builder.h"
#include "table/format.h"
#if VP_MODE == 1
#include "table/block.c"
#endif
#define VP_REF_MAXK 4
#include "C16/ref.h"

#ifndef VP_N
#define VP_N 2
#endif
#ifndef VP_R
#define VP_R 2
#endif
#ifndef VP_PRE
#define VP_PRE 0
#endif
#ifndef VP_KMAX
#define VP_KMAX 3
#endif
#ifndef VP_VMAX
#define VP_VMAX 1
#endif
#ifndef VP_K0
#define VP_K0 VP_KMAX
#endif
#ifndef VP_K1
#define VP_K1 VP_KMAX
#endif
#ifndef VP_K2
#define VP_K2 VP_KMAX
#endif
#ifndef VP_V0
#define VP_V0 VP_VMAX
#endif
#ifndef VP_V1
#define VP_V1 0
#endif
#ifndef VP_V2
#define VP_V2 VP_VMAX
#endif
#ifndef VP_TL
#define VP_TL VP_KMAX
#endif
#define VP_NN (VP_N > 0 ? VP_N : 1)

#ifndef VP_K3
#define VP_K3 1
#endif
#ifndef VP_V3
#define VP_V3 0
#endif
static const size_t vp_klen[4] = { VP_K0, VP_K1, VP_K2, VP_K3 };
static const size_t vp_vlen[4] = { VP_V0, VP_V1, VP_V2, VP_V3 };

static uint8_t vp_kb[VP_NN][VP_KMAX];
static uint8_t vp_vb[VP_NN][VP_VMAX > 0 ? VP_VMAX : 1];
static size_t vp_kl[VP_NN];
static size_t vp_vl[VP_NN];

static size_t
vp_lcp(const uint8_t *a, size_t an, const uint8_t *b, size_t bn) {
  size_t i = 0;
  while (i < an && i < bn && a[i] == b[i])
    i++;
  return i;
}

static void
vp_make_entries(void) {
  size_t i;
  for (i = 0; i < VP_N; i++) {
    vp_kl[i] = vp_klen[i];
    vp_vl[i] = vp_vlen[i];
    vp_fill(vp_kb[i], vp_kl[i]);
    vp_fill(vp_vb[i], vp_vl[i]);
    if (i > 0)
      VP_ASSUME(vp_ref_bytewise(vp_kb[i - 1], vp_kl[i - 1], vp_kb[i], vp_kl[i]) < 0);
  }
}

void
harness(void) {
  static ldb_dbopt_t opt;
  ldb_blockgen_t bb;
  ldb_slice_t k, v, blk;
  vp_ref_block_t rb;
  size_t i, est;

  opt.comparator = ldb_bytewise_comparator;
  opt.block_restart_interval = VP_R;
  opt.block_size = 4096;

  vp_make_entries();

  ldb_blockgen_init(&bb, &opt);
#ifdef VP_PREGROW
  /* capacity reserved up front (public ldb_buffer_grow/ldb_array_grow): the
     builder then never reallocates; the growth path is exercised by the
     obligations without VP_PREGROW */
  ldb_buffer_grow(&bb.buffer, VP_PREGROW);
  ldb_buffer_grow(&bb.last_key, VP_KMAX + 1);
  ldb_array_grow(&bb.restarts, 4);
#endif

#if VP_PRE > 0
  /* the table builder reuses one block builder for every block */
  for (i = 0; i < VP_PRE && i < VP_N; i++) {
    ldb_slice_set(&k, vp_kb[i], vp_kl[i]);
    ldb_slice_set(&v, vp_vb[i], vp_vl[i]);
    ldb_blockgen_add(&bb, &k, &v);
  }
  (void)ldb_blockgen_finish(&bb);
  ldb_blockgen_reset(&bb);
#endif

  VP_ASSERT(ldb_blockgen_empty(&bb), "fresh/reset builder is empty");

  for (i = 0; i < VP_N; i++) {
    ldb_slice_set(&k, vp_kb[i], vp_kl[i]);
    ldb_slice_set(&v, vp_vb[i], vp_vl[i]);
    ldb_blockgen_add(&bb, &k, &v);
    VP_ASSERT(!ldb_blockgen_empty(&bb), "builder with an entry is not empty");
  }

  est = ldb_blockgen_size_estimate(&bb);
  blk = ldb_blockgen_finish(&bb);

#if VP_MODE == 0
  VP_ASSERT(blk.size == est, "size estimate before finish == final block size");

  vp_ref_block_decode(&rb, blk.data, blk.size);

  VP_ASSERT(rb.ok, "block parses with the reference LevelDB block reader");
  VP_ASSERT(rb.n == VP_N, "block holds exactly the added entries");
  for (i = 0; i < VP_N; i++) {
    const vp_ref_entry_t *e = &rb.e[i];
    VP_ASSERT(e->klen == vp_kl[i] && vp_ref_bytewise(e->key, e->klen, vp_kb[i], vp_kl[i]) == 0,
              "decoded key == added key");
    VP_ASSERT(e->vlen == vp_vl[i] &&
              vp_ref_bytewise(blk.data + e->voff, e->vlen, vp_vb[i], vp_vl[i]) == 0,
              "decoded value == added value");
    if (i % VP_R == 0) {
      VP_ASSERT(e->shared == 0, "restart entry stores the full key");
      VP_ASSERT(i / VP_R < rb.num_restarts &&
                vp_ref_fixed32(blk.data + rb.restart_off + 4 * (i / VP_R)) == e->off,
                "restart array points at every VP_R-th entry");
    } else {
      VP_ASSERT(e->shared == vp_lcp(vp_kb[i - 1], vp_kl[i - 1], vp_kb[i], vp_kl[i]),
                "shared length == common prefix with the previous key");
    }
  }
  VP_ASSERT(rb.num_restarts == (VP_N == 0 ? 1 : (VP_N + VP_R - 1) / VP_R),
            "number of restarts == ceil(entries / interval), 1 for an empty block");
  VP_ASSERT(vp_ref_fixed32(blk.data + rb.restart_off) == 0, "first restart point is offset 0");
  VP_WITNESS("block built and decoded");
#else
  {
    const ldb_comparator_t *cmp = ldb_bytewise_comparator;
    ldb_contents_t contents;
    ldb_block_t block;
    ldb_blockiter_t it;
    ldb_slice_t target, got;
    uint8_t tb[VP_KMAX];
    size_t tl, want;

    (void)est;
    vp_ref_block_decode(&rb, blk.data, blk.size);
    VP_ASSERT(rb.ok, "block parses with the reference LevelDB block reader");

    contents.data = blk;
    contents.cachable = 0;
    contents.heap_allocated = 0;
    ldb_block_init(&block, &contents);
    VP_ASSERT(block.size == blk.size, "block reader accepts the built block");
    VP_ASSERT(block.restart_offset == rb.restart_off, "restart offset == reference");

    ldb_blockiter_init(&it, cmp, block.data, block.restart_offset,
                       ldb_block_restarts(&block));

    /* forward scan */
    ldb_blockiter_first(&it);
    for (i = 0; i < VP_N; i++) {
      VP_ASSERT(ldb_blockiter_valid(&it), "iterator valid on every added entry");
      got = ldb_blockiter_key(&it);
      VP_ASSERT(vp_ref_bytewise(got.data, got.size, vp_kb[i], vp_kl[i]) == 0, "scan key == added key");
      got = ldb_blockiter_value(&it);
      VP_ASSERT(vp_ref_bytewise(got.data, got.size, vp_vb[i], vp_vl[i]) == 0, "scan value == added value");
      ldb_blockiter_next(&it);
    }
    VP_ASSERT(!ldb_blockiter_valid(&it), "iterator invalid after the last entry");
    VP_ASSERT(ldb_blockiter_status(&it) == LDB_OK, "scan status ok");

    /* seek */
    tl = VP_TL;
    vp_fill(tb, tl);
    ldb_slice_set(&target, tb, tl);
    want = VP_N;
    for (i = VP_N; i > 0; i--)
      if (vp_ref_bytewise(vp_kb[i - 1], vp_kl[i - 1], tb, tl) >= 0)
        want = i - 1;

    ldb_blockiter_seek(&it, &target);
    VP_ASSERT(ldb_blockiter_status(&it) == LDB_OK, "seek status ok");
    if (want == VP_N) {
      VP_ASSERT(!ldb_blockiter_valid(&it), "seek past the last key is invalid");
      VP_WITNESS("seek past end");
    } else {
      VP_ASSERT(ldb_blockiter_valid(&it), "seek finds an entry >= target");
      got = ldb_blockiter_key(&it);
      VP_ASSERT(vp_ref_bytewise(got.data, got.size, vp_kb[want], vp_kl[want]) == 0,
                "seek lands on the first entry >= target");
      got = ldb_blockiter_value(&it);
      VP_ASSERT(vp_ref_bytewise(got.data, got.size, vp_vb[want], vp_vl[want]) == 0,
                "seek value == value of that entry");
#if VP_N > 0
      VP_WITNESS("seek hit");
#endif
    }
    ldb_blockiter_clear(&it);
  }
#endif
  ldb_blockgen_clear(&bb);
}
