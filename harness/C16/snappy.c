/* C16.g -- util/snappy.c (the compressor behind LDB_SNAPPY_COMPRESSION
 * blocks) against an independent decoder of the Snappy raw format
 * (format_description.txt: varint32 preamble = uncompressed length, then
 * literal / copy-1 / copy-2 / copy-4 elements).
 *
 * VP_MODE 0: x = VP_N symbolic bytes: encode_size == 32 + n + n/6;
 *            encode() stays inside that bound (output object has exactly
 *            that size); decode_size == n; decode(encode(x)) == x; the
 *            reference decoder reads the same bytes back to x.
 * VP_MODE 1: VP_N arbitrary bytes whose preamble says VP_Z: snappy_decode
 *            (output object of exactly VP_Z bytes) accepts iff the reference
 *            decoder accepts, and yields the same bytes. */
#include "vp.h"
#include "util/snappy.h"
#include "C16/ref.h"

#ifndef VP_N
#define VP_N 5
#endif
#ifndef VP_Z
#define VP_Z 4
#endif
#define VP_MAXOUT (32 + VP_N + VP_N / 6)

/* reference decoder: 1 = ok (exactly zn bytes produced), 0 = malformed */
static int
vp_ref_snappy_decode(uint8_t *z, size_t zn, const uint8_t *p, size_t n) {
  size_t ip = 0, op = 0, len, off, i;
  uint64_t ulen;
  size_t c = vp_ref_varint_get(p, n, 5, &ulen);

  if (c == 0 || (uint32_t)ulen != zn)
    return 0;
  ip = c;

  while (ip < n) {
    uint8_t tag = p[ip++];
    switch (tag & 3) {
      case 0: {
        size_t extra = 0;
        len = (size_t)(tag >> 2);
        if (len >= 60) {
          extra = len - 59;
          if (n - ip < extra)
            return 0;
          len = 0;
          for (i = 0; i < 4; i++)
            if (i < extra)
              len |= (size_t)p[ip + i] << (8 * i);
          ip += extra;
        }
        len += 1;
        if (len > n - ip || len > zn - op)
          return 0;
        for (i = 0; i < len; i++)
          z[op + i] = p[ip + i];
        ip += len;
        op += len;
        continue;
      }
      case 1:
        if (n - ip < 1)
          return 0;
        len = 4 + ((tag >> 2) & 7);
        off = ((size_t)(tag >> 5) << 8) | p[ip];
        ip += 1;
        break;
      case 2:
        if (n - ip < 2)
          return 0;
        len = 1 + (size_t)(tag >> 2);
        off = (size_t)p[ip] | ((size_t)p[ip + 1] << 8);
        ip += 2;
        break;
      default:
        if (n - ip < 4)
          return 0;
        len = 1 + (size_t)(tag >> 2);
        off = vp_ref_fixed32(p + ip);
        ip += 4;
        break;
    }
    if (off == 0 || off > op || len > zn - op)
      return 0;
    for (i = 0; i < len; i++)
      z[op + i] = z[op + i - off];
    op += len;
  }
  return op == zn;
}

void
harness(void) {
#if VP_MODE == 0
  uint8_t *x = vp_input(VP_N);
  uint8_t *out = vp_input(VP_MAXOUT);
  uint8_t *dec = vp_input(VP_N);
  uint8_t *rdec = vp_input(VP_N);
  size_t max = 0, len, ulen = 1234, i;

  vp_fill(x, VP_N);

  VP_ASSERT(snappy_encode_size(&max, VP_N) == 1, "encode_size accepts a small input");
  VP_ASSERT(max == VP_MAXOUT, "encode_size == 32 + n + n/6 (MaxCompressedLength)");

  len = snappy_encode(out, x, VP_N);
  VP_ASSERT(len >= 1 && len <= max, "encoded length inside the encode_size bound");

  VP_ASSERT(snappy_decode_size(&ulen, out, len) == 1, "decode_size accepts the encoder output");
  VP_ASSERT(ulen == VP_N, "decode_size == original length");

  /* VP_PART (optional): 1 = lcdb decoder only, 2 = reference decoder only */
#if !defined(VP_PART) || VP_PART == 1
  VP_ASSERT(snappy_decode(dec, out, len) == 1, "decode accepts the encoder output");
  for (i = 0; i < VP_N; i++)
    VP_ASSERT(dec[i] == x[i], "decode(encode(x)) == x");
#endif
#if !defined(VP_PART) || VP_PART == 2
  VP_ASSERT(vp_ref_snappy_decode(rdec, VP_N, out, len) == 1, "reference Snappy decoder accepts the encoder output");
  for (i = 0; i < VP_N; i++)
    VP_ASSERT(rdec[i] == x[i], "reference decoder reads x back");
#endif
  (void)dec; (void)rdec;
#if VP_N >= 17
  if (len < VP_N)
    VP_WITNESS("input actually compressed");
#endif
  VP_WITNESS("snappy round trip");
#else
  uint8_t *in = vp_input(VP_N);
  uint8_t *out = vp_input(VP_Z);
  uint8_t *rout = vp_input(VP_Z);
  size_t ulen = 0, i;
  int ok, rok;

  vp_fill(in, VP_N);
  VP_ASSUME(snappy_decode_size(&ulen, in, VP_N) == 1 && ulen == VP_Z);

  ok = snappy_decode(out, in, VP_N);
  rok = vp_ref_snappy_decode(rout, VP_Z, in, VP_N);
  VP_ASSERT((ok != 0) == (rok != 0), "decode accepts iff the reference Snappy decoder accepts");
  if (ok) {
    for (i = 0; i < VP_Z; i++)
      VP_ASSERT(out[i] == rout[i], "decoded bytes == reference");
    VP_WITNESS("arbitrary input accepted");
  } else {
    VP_WITNESS("arbitrary input rejected");
  }
#endif
}
