/* C16.d -- table/table_builder.c: the bytes handed to ldb_wfile_append are
 * recorded and read back by an independent reader of the LevelDB table format
 * (footer -> index block -> data blocks, metaindex -> filter block), with the
 * abstract streaming checksum of kit/vp_cksum.c in place of CRC-32C.
 *
 * Concrete per query: VP_N entries (1..3) with key lengths VP_K0..VP_K2 and
 * 1-byte values, VP_BS = options.block_size (1: every entry is flushed into
 * its own block; 4096: one block), VP_R restart interval, VP_COMP
 * compression option, VP_FILTER (abstract filter policy on/off), VP_NOSHORT
 * (comparator = bytewise order with the optional key-shortening hooks unset).
 * Symbolic: all key/value bytes (keys strictly increasing).
 *
 * Asserted (every item from the recorded bytes only):
 *  - finish() == OK, builder size == bytes recorded, footer is the last 48
 *    bytes, layout/magic/padding per format, handles in range;
 *  - every block is followed by a 5-byte trailer: type byte, fixed32 of
 *    mask(F(contents || type)); blocks are laid out back to back from offset
 *    0: data blocks, [filter block], metaindex, index, footer;
 *  - index block (restart interval 1): one entry per data block whose value
 *    is the block's handle and whose key k satisfies
 *    last key of the block <= k < first key of the next block;
 *  - data blocks decode (reference block reader) to exactly the added
 *    entries in order;
 *  - metaindex: empty without a policy; with a policy one entry
 *    "filter.<name>" -> handle of the filter block, and the filter block holds
 *    every key at its block's offset;
 *  - with Snappy requested and incompressible (tiny) blocks: stored raw,
 *    type 0 (the 12.5 % rule). */
#include "vp.h"
#include "util/array.h"
#include "util/buffer.h"
#include "util/slice.h"
#include "util/bloom.h"
#include "util/comparator.h"
#include "util/env.h"
#include "util/options.h"
#include "util/status.h"
#include "table/format.h"
#include "table/table_builder.h"
#define VP_REF_MAXK 8
#define VP_REF_MAXE 4
#include "C16/ref.h"

#ifndef VP_N
#define VP_N 2
#endif
#ifndef VP_K0
#define VP_K0 1
#endif
#ifndef VP_K1
#define VP_K1 1
#endif
#ifndef VP_K2
#define VP_K2 1
#endif
#ifndef VP_BS
#define VP_BS 1
#endif
#ifndef VP_R
#define VP_R 1
#endif
#ifndef VP_COMP
#define VP_COMP 0
#endif
#ifndef VP_FILTER
#define VP_FILTER 0
#endif
#define VP_KMAX 3
#define VP_FMAX 320

/* expected shape */
#if VP_BS == 1
#define VP_NBLOCKS VP_N
#define VP_PER 1
#else
#define VP_NBLOCKS 1
#define VP_PER VP_N
#endif

static const size_t vp_klen[3] = { VP_K0, VP_K1, VP_K2 };

uint32_t vp_cksum_extend(uint32_t z, const uint8_t *xp, size_t xn);

/* ---- recording file ---------------------------------------------------- */
static uint8_t vp_file[VP_FMAX];
static size_t vp_flen = 0;
static int vp_appends = 0;
static int vp_flushes = 0;
static int vp_dummy_file;

int
ldb_wfile_append(ldb_wfile_t *file, const ldb_slice_t *data) {
  size_t i;
  VP_ASSERT((void *)file == (void *)&vp_dummy_file, "append goes to the builder's file");
  VP_ASSERT(data->size <= VP_FMAX - vp_flen, "vp-model: recorded file fits VP_FMAX");
  for (i = 0; i < data->size; i++)
    vp_file[vp_flen + i] = data->data[i];
  vp_flen += data->size;
  vp_appends++;
  return LDB_OK;
}

int
ldb_wfile_flush(ldb_wfile_t *file) {
  (void)file;
  vp_flushes++;
  return LDB_OK;
}

/* format.c (ldb_read_block) is linked for the handle/footer codecs only */
int ldb_rfile_mapped(ldb_rfile_t *file) { (void)file; return 0; }
int ldb_rfile_pread(ldb_rfile_t *file, ldb_slice_t *result, void *buf,
                    size_t count, uint64_t offset) {
  (void)file; (void)result; (void)buf; (void)count; (void)offset;
  return LDB_IOERR;
}

/* ---- abstract filter policy (as in C16/filter_block.c) ------------------ */
static uint8_t
vp_fp(const uint8_t *p, size_t n) {
  uint8_t h = (uint8_t)(0x5b ^ n);
  size_t i;
  for (i = 0; i < n; i++)
    h = (uint8_t)(h * 31 + p[i]);
  return h;
}

static void
vp_pol_build(const ldb_bloom_t *bloom, ldb_buffer_t *dst,
             const ldb_slice_t *keys, size_t length) {
  size_t i;
  (void)bloom;
  ldb_buffer_push(dst, (int)length);
  for (i = 0; i < 3; i++)
    if (i < length)
      ldb_buffer_push(dst, vp_fp(keys[i].data, keys[i].size));
}

static int
vp_pol_match(const ldb_bloom_t *bloom, const ldb_slice_t *filter,
             const ldb_slice_t *key) {
  (void)bloom; (void)filter; (void)key;
  return 1; /* not used by the builder */
}

static const ldb_bloom_t vp_policy = {
  "p", vp_pol_build, vp_pol_match, 0, 0, NULL, NULL
};

/* ---- reference helpers -------------------------------------------------- */
static uint32_t
vp_ref_mask(uint32_t c) {
  return ((c >> 15) | (c << 17)) + 0xa282ead8u;
}

/* trailer of the block [off, off+size): type byte + masked checksum */
static void
vp_check_trailer(size_t off, size_t size, int type) {
  uint32_t c;
  VP_ASSERT(off + size + 5 <= vp_flen - 48, "block and trailer lie before the footer");
  VP_ASSERT(vp_file[off + size] == type, "trailer type byte");
  c = vp_cksum_extend(0, vp_file + off, size);
  c = vp_cksum_extend(c, vp_file + off + size, 1);
  VP_ASSERT(vp_ref_fixed32(vp_file + off + size + 1) == vp_ref_mask(c),
            "trailer fixed32 == mask(checksum(contents || type))");
}

/* two varint64 = handle; returns consumed or 0 */
static size_t
vp_ref_handle(const uint8_t *p, size_t n, uint64_t *off, uint64_t *size) {
  size_t a = vp_ref_varint_get(p, n, 10, off), b;
  if (a == 0)
    return 0;
  b = vp_ref_varint_get(p + a, n - a, 10, size);
  return b == 0 ? 0 : a + b;
}

void
harness(void) {
  static ldb_dbopt_t opt;
  static ldb_comparator_t vp_cmp;
  static uint8_t kb[3][VP_KMAX];
  static uint8_t vb[3][1];
  static vp_ref_block_t ib, db, mb;
  ldb_tablegen_t *tb;
  ldb_slice_t k, v;
  uint64_t moff, msize, ioff, isize, boff, bsize;
  size_t i, j, pos, c, next_off, e;
  size_t blk_off[3];
  int rc;

#ifdef VP_NOSHORT
  /* bytewise order without key shortening ("an implementation of this method
     that does nothing is correct"): index keys are the last keys, so every
     size in the file is concrete; the shortening itself is C16.b */
  vp_cmp = *ldb_bytewise_comparator;
  vp_cmp.shortest_separator = NULL;
  vp_cmp.short_successor = NULL;
  opt.comparator = &vp_cmp;
#else
  opt.comparator = ldb_bytewise_comparator;
#endif
  opt.block_size = VP_BS;
  opt.block_restart_interval = VP_R;
  opt.compression = VP_COMP ? LDB_SNAPPY_COMPRESSION : LDB_NO_COMPRESSION;
  opt.filter_policy = VP_FILTER ? &vp_policy : NULL;

  for (i = 0; i < VP_N; i++) {
    vp_fill(kb[i], vp_klen[i]);
    vp_fill(vb[i], 1);
    if (i > 0)
      VP_ASSUME(vp_ref_bytewise(kb[i - 1], vp_klen[i - 1], kb[i], vp_klen[i]) < 0);
  }

  tb = ldb_tablegen_create(&opt, (ldb_wfile_t *)&vp_dummy_file);
  for (i = 0; i < VP_N; i++) {
    ldb_slice_set(&k, kb[i], vp_klen[i]);
    ldb_slice_set(&v, vb[i], 1);
    ldb_tablegen_add(tb, &k, &v);
  }
  rc = ldb_tablegen_finish(tb);

  VP_ASSERT(rc == LDB_OK && ldb_tablegen_status(tb) == LDB_OK, "finish ok on a healthy file");
  VP_ASSERT(ldb_tablegen_entries(tb) == VP_N, "entry count");
  VP_ASSERT(ldb_tablegen_size(tb) == vp_flen, "builder size == bytes appended");
  VP_ASSERT(vp_flen >= 48, "file ends with a footer");

  /* ---- footer: last 48 bytes */
  {
    const uint8_t *f = vp_file + vp_flen - 48;
    for (i = 0; i < 8; i++)
      VP_ASSERT(f[40 + i] == vp_ref_magic[i], "footer magic, little endian, at the very end");
    pos = vp_ref_handle(f, 40, &moff, &msize);
    VP_ASSERT(pos != 0, "metaindex handle parses");
    c = vp_ref_handle(f + pos, 40 - pos, &ioff, &isize);
    VP_ASSERT(c != 0, "index handle parses");
    pos += c;
    for (i = 0; i < 40; i++)
      if (i >= pos)
        VP_ASSERT(f[i] == 0, "footer padding is zero");
  }

  /* ---- index block */
  vp_check_trailer((size_t)ioff, (size_t)isize, 0);
  VP_ASSERT(ioff + isize + 5 == vp_flen - 48, "footer follows the index block");
  vp_ref_block_decode(&ib, vp_file + ioff, (size_t)isize);
  VP_ASSERT(ib.ok, "index block parses");
  VP_ASSERT(ib.n == VP_NBLOCKS, "one index entry per data block");
  VP_ASSERT(ib.num_restarts == VP_NBLOCKS, "index block uses restart interval 1");

  /* ---- data blocks through the index */
  next_off = 0;
  e = 0;
  for (i = 0; i < VP_NBLOCKS; i++) {
    const vp_ref_entry_t *ie = &ib.e[i];
    c = vp_ref_handle(vp_file + ioff + ie->voff, ie->vlen, &boff, &bsize);
    VP_ASSERT(c != 0 && c == ie->vlen, "index value is exactly one block handle");
    VP_ASSERT(boff == next_off, "data blocks are laid out back to back from offset 0");
    blk_off[i] = (size_t)boff;
    vp_check_trailer((size_t)boff, (size_t)bsize, 0);
    vp_ref_block_decode(&db, vp_file + boff, (size_t)bsize);
    VP_ASSERT(db.ok, "data block parses");
    VP_ASSERT(db.n == VP_PER, "entries per data block");
    for (j = 0; j < VP_PER; j++, e++) {
      VP_ASSERT(vp_ref_bytewise(db.e[j].key, db.e[j].klen, kb[e], vp_klen[e]) == 0, "table yields the added key");
      VP_ASSERT(db.e[j].vlen == 1 && vp_file[boff + db.e[j].voff] == vb[e][0], "table yields the added value");
    }
    /* separator: last key of this block <= index key < first key of the next */
    VP_ASSERT(vp_ref_bytewise(kb[e - 1], vp_klen[e - 1], ie->key, ie->klen) <= 0, "index key >= last key of its block");
    if (e < VP_N)
      VP_ASSERT(vp_ref_bytewise(ie->key, ie->klen, kb[e], vp_klen[e]) < 0, "index key < first key of the next block");
    VP_ASSERT(ie->klen <= vp_klen[e - 1], "index key not longer than the last key");
    next_off = (size_t)(boff + bsize + 5);
  }
  VP_ASSERT(e == VP_N, "all entries found");

#if VP_FILTER
  /* ---- metaindex -> filter block */
  {
    static const uint8_t name[8] = { 'f', 'i', 'l', 't', 'e', 'r', '.', 'p' };
    uint64_t foff, fsize;
    size_t n, aoff, num, cnt;
    vp_check_trailer((size_t)moff, (size_t)msize, 0);
    vp_ref_block_decode(&mb, vp_file + moff, (size_t)msize);
    VP_ASSERT(mb.ok && mb.n == 1, "metaindex has one entry");
    VP_ASSERT(vp_ref_bytewise(mb.e[0].key, mb.e[0].klen, name, 8) == 0, "metaindex key is filter.<policy name>");
    c = vp_ref_handle(vp_file + moff + mb.e[0].voff, mb.e[0].vlen, &foff, &fsize);
    VP_ASSERT(c != 0 && c == mb.e[0].vlen, "metaindex value is the filter block handle");
    VP_ASSERT(foff == next_off, "filter block follows the last data block");
    vp_check_trailer((size_t)foff, (size_t)fsize, 0);
    VP_ASSERT(moff == foff + fsize + 5, "metaindex follows the filter block");
    /* filter block format: all data offsets here are < 2048: one filter */
    n = (size_t)fsize;
    VP_ASSERT(n >= 5 && vp_file[foff + n - 1] == 11, "filter block base-lg byte");
    aoff = vp_ref_fixed32(vp_file + foff + n - 5);
    VP_ASSERT(aoff <= n - 5, "filter offset array inside the block");
    num = (n - 5 - aoff) / 4;
    VP_ASSERT(num == 1, "one filter for the first 2 KiB");
    VP_ASSERT(vp_ref_fixed32(vp_file + foff + aoff) == 0, "filter 0 starts at 0");
    cnt = vp_file[foff];
    VP_ASSERT(cnt == VP_N && aoff == VP_N + 1, "filter 0 covers every added key");
    for (i = 0; i < VP_N; i++)
      VP_ASSERT(vp_file[foff + 1 + i] == vp_fp(kb[i], vp_klen[i]), "filter 0 holds key i");
  }
#else
  VP_ASSERT(moff == next_off, "metaindex follows the last data block");
  vp_check_trailer((size_t)moff, (size_t)msize, 0);
  vp_ref_block_decode(&mb, vp_file + moff, (size_t)msize);
  VP_ASSERT(mb.ok && mb.n == 0 && msize == 8, "metaindex block is empty without a filter policy");
#endif
  VP_ASSERT(ioff == moff + msize + 5, "index block follows the metaindex block");
  VP_ASSERT(vp_flushes == VP_NBLOCKS, "file flushed once per data block");
  (void)blk_off;

  VP_WITNESS("table built and read back");
  ldb_tablegen_destroy(tb);
}
