/* C16/ref.h -- independent references for the LevelDB table format, written
 * from the format description (doc/table_format.md, README) and NOT from the
 * lcdb sources: varints, fixed32/64 little endian, bytewise order, the
 * prefix-compressed block layout and the table magic.
 *
 * All functions are static and bounded by their arguments so that every loop
 * has a concrete trip count in CBMC. */
#ifndef VP_C16_REF_H
#define VP_C16_REF_H

#include <stddef.h>
#include <stdint.h>

/* kTableMagicNumber 0xdb4775248b80fb57, stored little endian */
static const uint8_t vp_ref_magic[8] = {
  0x57, 0xfb, 0x80, 0x8b, 0x24, 0x75, 0x47, 0xdb
};

static size_t
vp_ref_varint_len(uint64_t x) {
  size_t n = 1;
  while (x >= 128) { x >>= 7; n++; }
  return n;
}

/* writes the varint of x, returns its length */
static size_t
vp_ref_varint_put(uint8_t *p, uint64_t x) {
  size_t n = 0;
  while (x >= 128) { p[n++] = (uint8_t)((x & 127) | 128); x >>= 7; }
  p[n++] = (uint8_t)x;
  return n;
}

/* reference decoder: consumed bytes or 0; at most maxbytes (5 / 10) */
static size_t
vp_ref_varint_get(const uint8_t *p, size_t n, size_t maxbytes, uint64_t *out) {
  uint64_t r = 0;
  size_t i;
  for (i = 0; i < maxbytes && i < n; i++) {
    r |= (uint64_t)(p[i] & 127) << (7 * i);
    if (!(p[i] & 128)) { *out = r; return i + 1; }
  }
  return 0;
}

static uint32_t
vp_ref_fixed32(const uint8_t *p) {
  return (uint32_t)p[0] | ((uint32_t)p[1] << 8) | ((uint32_t)p[2] << 16) |
         ((uint32_t)p[3] << 24);
}

static void
vp_ref_put_fixed32(uint8_t *p, uint32_t x) {
  p[0] = (uint8_t)x; p[1] = (uint8_t)(x >> 8);
  p[2] = (uint8_t)(x >> 16); p[3] = (uint8_t)(x >> 24);
}

static uint64_t
vp_ref_fixed64(const uint8_t *p) {
  uint64_t r = 0;
  int i;
  for (i = 7; i >= 0; i--)
    r = (r << 8) | p[i];
  return r;
}

/* bytewise (memcmp-then-length) order: -1, 0, 1 */
static int
vp_ref_bytewise(const uint8_t *a, size_t an, const uint8_t *b, size_t bn) {
  size_t i;
  for (i = 0; i < an && i < bn; i++) {
    if (a[i] != b[i])
      return a[i] < b[i] ? -1 : 1;
  }
  if (an == bn)
    return 0;
  return an < bn ? -1 : 1;
}

/* internal key order: user key ascending (bytewise), then the 8-byte
 * little-endian (sequence << 8 | type) tag DEscending.  Both >= 8 bytes. */
static int
vp_ref_internal(const uint8_t *a, size_t an, const uint8_t *b, size_t bn) {
  int r = vp_ref_bytewise(a, an - 8, b, bn - 8);
  if (r == 0) {
    uint64_t x = vp_ref_fixed64(a + an - 8);
    uint64_t y = vp_ref_fixed64(b + bn - 8);
    if (x > y) r = -1;
    else if (x < y) r = 1;
  }
  return r;
}

/* ---- reference block reader --------------------------------------------
 * block := entry* restart[fixed32 * num] num[fixed32]
 * entry := varint32 shared, varint32 non_shared, varint32 value_len,
 *          key delta[non_shared], value[value_len]
 * Decoded entries go to a small fixed table. */
#ifndef VP_REF_MAXE
#define VP_REF_MAXE 4
#endif
#ifndef VP_REF_MAXK
#define VP_REF_MAXK 32
#endif

typedef struct vp_ref_entry_s {
  uint8_t key[VP_REF_MAXK];
  size_t klen;
  size_t voff;   /* offset of the value inside the block */
  size_t vlen;
  size_t off;    /* offset of the entry inside the block */
  size_t shared;
} vp_ref_entry_t;

typedef struct vp_ref_block_s {
  int ok;
  size_t n;              /* entries */
  vp_ref_entry_t e[VP_REF_MAXE];
  size_t num_restarts;
  size_t restart_off;    /* offset of the restart array */
} vp_ref_block_t;

static void
vp_ref_block_decode(vp_ref_block_t *b, const uint8_t *p, size_t n) {
  size_t pos = 0, i;
  uint64_t sh, ns, vl;
  size_t c;

  b->ok = 0;
  b->n = 0;
  b->num_restarts = 0;
  b->restart_off = 0;

  if (n < 4)
    return;
  b->num_restarts = vp_ref_fixed32(p + n - 4);
  if (b->num_restarts > (n - 4) / 4)
    return;
  b->restart_off = n - 4 - 4 * b->num_restarts;

  while (pos < b->restart_off) {
    vp_ref_entry_t *e;
    if (b->n >= VP_REF_MAXE)
      return;
    e = &b->e[b->n];
    e->off = pos;
    c = vp_ref_varint_get(p + pos, b->restart_off - pos, 5, &sh);
    if (c == 0) return;
    pos += c;
    c = vp_ref_varint_get(p + pos, b->restart_off - pos, 5, &ns);
    if (c == 0) return;
    pos += c;
    c = vp_ref_varint_get(p + pos, b->restart_off - pos, 5, &vl);
    if (c == 0) return;
    pos += c;
    if (ns + vl > b->restart_off - pos)
      return;
    if (b->n == 0 ? sh != 0 : sh > b->e[b->n - 1].klen)
      return;
    if (sh + ns > VP_REF_MAXK)
      return;
    /* fixed trip count (VP_REF_MAXK) instead of two data-dependent loops */
    for (i = 0; i < VP_REF_MAXK; i++) {
      if (i < sh)
        e->key[i] = b->e[b->n - 1].key[i];
      else if (i < sh + ns)
        e->key[i] = p[pos + (i - (size_t)sh)];
      else
        e->key[i] = 0;
    }
    e->klen = (size_t)(sh + ns);
    e->shared = (size_t)sh;
    pos += (size_t)ns;
    e->voff = pos;
    e->vlen = (size_t)vl;
    pos += (size_t)vl;
    b->n++;
  }
  b->ok = 1;
}

#endif
