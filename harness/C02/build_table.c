/* C02.c / C12.b -- the REAL ldb_build_table (src/builder.c): a memtable (or
 * recovered log) becomes a table file.  Everything below it is a recorder:
 * the input iterator yields VP_N entries and a symbolic final status; the
 * table builder, file, table cache (verification re-open) and env calls may
 * each fail symbolically.
 *
 * Asserted:
 *  - success (LDB_OK) with file_size > 0 is returned ONLY IF the file was
 *    created, every entry was added once and in order, the builder finished
 *    OK, the file was synced OK and then closed OK (in that order), the
 *    verification re-open reported OK and the input iterator reported OK;
 *  - any failing step (create, finish, sync, close, verify, input iterator)
 *    makes the call return an error (never LDB_OK) -- otherwise the caller
 *    would drop the memtable and delete its log (C12: reported, C02/C03: the
 *    log must outlive a table that is not durable);
 *  - on every non-success exit the table file is removed and nothing claims
 *    the file is usable; with no entries no file is left behind;
 *  - meta->smallest / largest are the first / last key added.
 */
#include "vp.h"
#include "util/env.h"
#include "util/options.h"
#include "util/slice.h"
#include "util/status.h"
#include "table/iterator.h"
#include "table/table_builder.h"
#include "builder.h"
#include "dbformat.h"
#include "filename.h"
#include "table_cache.h"
#include "version_edit.h"

#ifndef VP_N
#define VP_N 2
#endif

struct ldb_wfile_s { int open; int synced; int closed; int destroyed; };
struct ldb_tablegen_s { int adds; int finished; };
struct ldb_tables_s { int dummy; };

static uint8_t k0[9] = {'a', 1, 9, 0, 0, 0, 0, 0, 0};
static uint8_t k1[9] = {'b', 1, 8, 0, 0, 0, 0, 0, 0};
static uint8_t k2[9] = {'c', 1, 7, 0, 0, 0, 0, 0, 0};
static uint8_t *const keys[3] = {k0, k1, k2};
static uint8_t val[1] = {'v'};

/* ---- event log --------------------------------------------------------- */
enum { E_CREATE = 1, E_ADD, E_FINISH, E_SYNC, E_CLOSE, E_VERIFY, E_REMOVE };
static int ev[24];
static int nev = 0;
static void log_ev(int e) { if (nev < 24) ev[nev] = e; nev++; }

static int rc_create, rc_finish, rc_sync, rc_close, rc_verify, rc_iter;
static struct ldb_wfile_s the_file;
static struct ldb_tablegen_s the_builder;
static struct ldb_tables_s the_cache;
static int adds_in_order = 1;
static int removed = 0, created = 0;
static uint64_t reported_size = 0;

/* ---- input iterator ------------------------------------------------------ */
static int pos = -1;
static int in_valid(const void *p) { (void)p; return pos >= 0 && pos < VP_N; }
static void in_first(void *p) { (void)p; pos = 0; }
static void in_last(void *p) { (void)p; pos = VP_N - 1; }
static void in_seek(void *p, const ldb_slice_t *t) { (void)p; (void)t; pos = 0; }
static void in_next(void *p) { (void)p; VP_ASSERT(pos >= 0 && pos < VP_N, "next only on a valid iterator"); pos++; }
static void in_prev(void *p) { (void)p; pos--; }
static ldb_slice_t in_key(const void *p) {
  int i;
  ldb_slice_t s = ldb_slice(k0, 9);
  (void)p;
  VP_ASSERT(pos >= 0 && pos < VP_N, "key only on a valid iterator");
  for (i = 0; i < 3; i++)
    if (i == pos) s = ldb_slice(keys[i], 9);
  return s;
}
static ldb_slice_t in_value(const void *p) { (void)p; return ldb_slice(val, 1); }
static int in_status(const void *p) { (void)p; return rc_iter; }
static void in_clear(void *p) { (void)p; }
static const ldb_itertbl_t in_table = {
  in_clear, in_valid, in_first, in_last, in_seek, in_next, in_prev, in_key, in_value, in_status
};

/* verification iterator returned by the table cache */
static int ver_status(const void *p) { (void)p; return rc_verify; }
static int ver_valid(const void *p) { (void)p; return 0; }
static const ldb_itertbl_t ver_table = {
  in_clear, ver_valid, in_first, in_last, in_seek, in_next, in_prev, in_key, in_value, ver_status
};
static ldb_iter_t ver_iter;
static int ver_destroyed = 0;

void ldb_iter_destroy(ldb_iter_t *it) { VP_ASSERT(it == &ver_iter, "only the verification iterator is destroyed here"); ver_destroyed++; }

/* ---- stubs ------------------------------------------------------------- */
int
ldb_table_filename(char *buf, size_t size, const char *dbname, uint64_t num) {
  (void)size; (void)dbname;
  buf[0] = 'T'; buf[1] = (char)(num & 127); buf[2] = 0;
  return 1;
}

int
ldb_truncfile_create(const char *name, ldb_wfile_t **file) {
  VP_ASSERT(name[0] == 'T', "table file name");
  log_ev(E_CREATE);
  if (rc_create != LDB_OK) return rc_create;
  created = 1;
  the_file.open = 1;
  *file = &the_file;
  return LDB_OK;
}

ldb_tablegen_t *
ldb_tablegen_create(const ldb_dbopt_t *options, ldb_wfile_t *file) {
  (void)options;
  VP_ASSERT(file == &the_file, "builder writes the created file");
  return &the_builder;
}

void
ldb_tablegen_add(ldb_tablegen_t *tb, const ldb_slice_t *key, const ldb_slice_t *value) {
  int i;
  (void)value;
  log_ev(E_ADD);
  for (i = 0; i < 3; i++)
    if (i == tb->adds && !(key->size == 9 && key->data == keys[i]))
      adds_in_order = 0;
  tb->adds++;
}

int ldb_tablegen_finish(ldb_tablegen_t *tb) { log_ev(E_FINISH); tb->finished = 1; return rc_finish; }
uint64_t ldb_tablegen_size(const ldb_tablegen_t *tb) { (void)tb; return reported_size; }
void ldb_tablegen_destroy(ldb_tablegen_t *tb) { (void)tb; }

int ldb_wfile_sync(ldb_wfile_t *f) { log_ev(E_SYNC); VP_ASSERT(f->open && !f->closed, "sync on the open file"); if (rc_sync == LDB_OK) f->synced = 1; return rc_sync; }
int ldb_wfile_close(ldb_wfile_t *f) { log_ev(E_CLOSE); f->closed = 1; return rc_close; }
void ldb_wfile_destroy(ldb_wfile_t *f) { f->destroyed = 1; }

ldb_iter_t *
ldb_tables_iterate(ldb_tables_t *cache, const ldb_readopt_t *options, uint64_t number, uint64_t size, ldb_table_t **tableptr) {
  (void)options; (void)tableptr;
  log_ev(E_VERIFY);
  VP_ASSERT(cache == &the_cache && number == 7 && size == reported_size, "verification opens the file just written");
  VP_ASSERT(the_file.closed, "table verified only after it was closed");
  ver_iter.ptr = &ver_iter;
  ver_iter.table = &ver_table;
  return &ver_iter;
}

int ldb_remove_file(const char *name) { VP_ASSERT(name[0] == 'T', "only the table file is removed"); log_ev(E_REMOVE); removed++; return LDB_OK; }

static int err(void) { return vp_bool() ? LDB_OK : (vp_bool() ? LDB_IOERR : 28); }

void
harness(void) {
  ldb_iter_t input;
  ldb_filemeta_t meta;
  ldb_dbopt_t opt;
  int rc, i, idx_finish = -1, idx_sync = -1, idx_close = -1, idx_verify = -1, idx_lastadd = -1, failing;

  rc_create = err(); rc_finish = err(); rc_sync = err(); rc_close = err(); rc_verify = err(); rc_iter = err();
  reported_size = vp_u64();
  VP_ASSUME(reported_size > 0);

  input.ptr = &input;
  input.table = &in_table;
  ldb_filemeta_init(&meta);
  meta.number = 7;
  opt = *ldb_dbopt_default;

  rc = ldb_build_table("db", &opt, &the_cache, &input, &meta);

  for (i = 0; i < nev && i < 24; i++) {
    if (ev[i] == E_ADD) idx_lastadd = i;
    if (ev[i] == E_FINISH) idx_finish = i;
    if (ev[i] == E_SYNC) idx_sync = i;
    if (ev[i] == E_CLOSE) idx_close = i;
    if (ev[i] == E_VERIFY) idx_verify = i;
  }

#if VP_N == 0
  VP_ASSERT(!created && meta.file_size == 0, "empty input creates no table");
  VP_ASSERT(rc == rc_iter, "empty input: result is the input iterator's status");
  VP_WITNESS("empty");
#else
  failing = rc_create != LDB_OK || rc_finish != LDB_OK || rc_sync != LDB_OK || rc_close != LDB_OK ||
            rc_verify != LDB_OK || rc_iter != LDB_OK;
  if (rc == LDB_OK) {
    VP_ASSERT(!failing, "C12.b success only if create, finish, sync, close, verify and the input iterator all succeeded");
    VP_ASSERT(meta.file_size == reported_size, "file size taken from the builder");
    VP_ASSERT(the_builder.adds == VP_N && adds_in_order, "every entry added once, in iterator order");
    VP_ASSERT(idx_lastadd < idx_finish && idx_finish < idx_sync && idx_sync < idx_close && idx_close < idx_verify,
              "C02.c order: add* -> finish -> sync -> close -> verify");
    VP_ASSERT(the_file.synced && the_file.closed && the_file.destroyed, "file synced, closed and released");
    VP_ASSERT(removed == 0, "a good table is kept");
    VP_ASSERT(meta.smallest.size == 9 && meta.smallest.data[0] == 'a', "smallest = first key");
    VP_ASSERT(meta.largest.size == 9 && meta.largest.data[0] == (VP_N == 1 ? 'a' : (VP_N == 2 ? 'b' : 'c')), "largest = last key");
    VP_WITNESS("built");
  } else {
    VP_ASSERT(failing, "an error is returned only when a step failed");
    if (created) {
      VP_ASSERT(removed == 1, "C12.b failed build removes the table file");
      VP_ASSERT(the_file.destroyed, "file handle released on failure");
      VP_WITNESS("failed-and-removed");
    } else {
      VP_ASSERT(rc == rc_create, "create failure returned as is");
      VP_WITNESS("create-failed");
    }
  }
  /* the first failing step decides: later steps are not attempted */
  if (rc_create == LDB_OK && rc_finish != LDB_OK)
    VP_ASSERT(idx_sync < 0 && rc != LDB_OK, "builder failure: no sync, error returned");
  if (rc_create == LDB_OK && rc_finish == LDB_OK && rc_sync != LDB_OK)
    VP_ASSERT(idx_verify < 0 && rc != LDB_OK, "C12.b sync failure is reported and the table is not verified/kept");
  if (idx_verify >= 0)
    VP_ASSERT(ver_destroyed == 1, "verification iterator released");
#endif
  ldb_filemeta_clear(&meta);
}
