/* C07 reference: a "sorted-map cursor" over a flat, UNSORTED-agnostic list of
 * entries.  Independent of lcdb: positions are defined set-theoretically
 *   first      = the entry with the minimum key
 *   last       = the entry with the maximum key
 *   seek_ge(t) = minimum key >= t      seek_gt(t) = minimum key >  t
 *   seek_le(t) = maximum key <= t      seek_lt(t) = maximum key <  t
 *   next(cur)  = seek_gt(key(cur))     prev(cur)  = seek_lt(key(cur))
 * over the entries whose `live` flag is set; the cursor is an index into the
 * list or -1 (not valid).  Keys of live entries are pairwise distinct in every
 * harness that uses this (assumed there), so each position is unique.
 */
#ifndef VP_C07_REF_H
#define VP_C07_REF_H

#include <stddef.h>
#include <stdint.h>

#ifndef VP_REF_MAX
#define VP_REF_MAX 12
#endif

typedef struct vp_ref_s {
  int n;
  const uint8_t *k[VP_REF_MAX];
  size_t kn[VP_REF_MAX];
  const uint8_t *v[VP_REF_MAX];
  size_t vn[VP_REF_MAX];
  int live[VP_REF_MAX];
} vp_ref_t;

/* bytewise order written from the LevelDB documentation: lexicographic on
   unsigned bytes, a proper prefix sorts first */
static int
vp_ref_cmp(const uint8_t *x, size_t xn, const uint8_t *y, size_t yn) {
  size_t i = 0;

  while (i < xn && i < yn) {
    if (x[i] < y[i])
      return -1;
    if (x[i] > y[i])
      return 1;
    i++;
  }

  if (xn < yn)
    return -1;

  if (xn > yn)
    return 1;

  return 0;
}

static void
vp_ref_add(vp_ref_t *r, const uint8_t *k, size_t kn,
           const uint8_t *v, size_t vn, int live) {
  r->k[r->n] = k;
  r->kn[r->n] = kn;
  r->v[r->n] = v;
  r->vn[r->n] = vn;
  r->live[r->n] = live;
  r->n++;
}

/* minimum live key that is >= t (strict: > t); has_t == 0: no lower bound */
static int
vp_ref_min_above(const vp_ref_t *r, int has_t, const uint8_t *t, size_t tn,
                 int strict) {
  int best = -1;
  int i;

  for (i = 0; i < r->n; i++) {
    int c;

    if (!r->live[i])
      continue;

    if (has_t) {
      c = vp_ref_cmp(r->k[i], r->kn[i], t, tn);

      if (strict ? (c <= 0) : (c < 0))
        continue;
    }

    if (best < 0 || vp_ref_cmp(r->k[i], r->kn[i], r->k[best], r->kn[best]) < 0)
      best = i;
  }

  return best;
}

/* maximum live key that is <= t (strict: < t); has_t == 0: no upper bound */
static int
vp_ref_max_below(const vp_ref_t *r, int has_t, const uint8_t *t, size_t tn,
                 int strict) {
  int best = -1;
  int i;

  for (i = 0; i < r->n; i++) {
    int c;

    if (!r->live[i])
      continue;

    if (has_t) {
      c = vp_ref_cmp(r->k[i], r->kn[i], t, tn);

      if (strict ? (c >= 0) : (c > 0))
        continue;
    }

    if (best < 0 || vp_ref_cmp(r->k[i], r->kn[i], r->k[best], r->kn[best]) > 0)
      best = i;
  }

  return best;
}

#define vp_ref_first(r) vp_ref_min_above(r, 0, NULL, 0, 0)
#define vp_ref_last(r) vp_ref_max_below(r, 0, NULL, 0, 0)
#define vp_ref_seek_ge(r, t, tn) vp_ref_min_above(r, 1, t, tn, 0)
#define vp_ref_seek_gt(r, t, tn) vp_ref_min_above(r, 1, t, tn, 1)
#define vp_ref_seek_le(r, t, tn) vp_ref_max_below(r, 1, t, tn, 0)
#define vp_ref_seek_lt(r, t, tn) vp_ref_max_below(r, 1, t, tn, 1)
#define vp_ref_next(r, cur) vp_ref_min_above(r, 1, (r)->k[cur], (r)->kn[cur], 1)
#define vp_ref_prev(r, cur) vp_ref_max_below(r, 1, (r)->k[cur], (r)->kn[cur], 1)

/* 1 iff live keys are pairwise distinct */
static int
vp_ref_distinct(const vp_ref_t *r) {
  int i, j;

  for (i = 0; i < r->n; i++) {
    for (j = i + 1; j < r->n; j++) {
      if (r->live[i] && r->live[j] &&
          vp_ref_cmp(r->k[i], r->kn[i], r->k[j], r->kn[j]) == 0)
        return 0;
    }
  }

  return 1;
}

/* does slice (p,n) equal the bytes (q,m)? */
static int
vp_ref_same(const uint8_t *p, size_t n, const uint8_t *q, size_t m) {
  size_t i;

  if (n != m)
    return 0;

  for (i = 0; i < n; i++) {
    if (p[i] != q[i])
      return 0;
  }

  return 1;
}

/* operation codes shared by the harnesses */
#define VP_OP_FIRST 0
#define VP_OP_LAST 1
#define VP_OP_SEEK 2
#define VP_OP_NEXT 3
#define VP_OP_PREV 4

#endif /* VP_C07_REF_H */
