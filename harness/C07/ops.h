/* C07: per-step operation sets shared by the multi-step harnesses.
 * Include after VP_K has its default.
 * VP_OS<k>: set of operations allowed at step k (bit i = VP_OP_* i; 31 = all).
 * Excluded operations are removed from the program of that step (vp_apply
 * tests the constant mask first), not only assumed away.
 */
#ifndef VP_C07_OPS_H
#define VP_C07_OPS_H

#ifndef VP_OS0
#define VP_OS0 31
#endif
#ifndef VP_OS1
#define VP_OS1 31
#endif
#ifndef VP_OS2
#define VP_OS2 31
#endif
#ifndef VP_OS3
#define VP_OS3 31
#endif

static const int vp_os[8] = { VP_OS0, VP_OS1, VP_OS2, VP_OS3, 31, 31, 31, 31 };

/* masks of the last and the last-but-one step (for reachability witnesses:
   a witness for an excluded operation must not exist) */
#if VP_K <= 1
#define VP_OSL VP_OS0
#define VP_OSP 0
#elif VP_K == 2
#define VP_OSL VP_OS1
#define VP_OSP VP_OS0
#elif VP_K == 3
#define VP_OSL VP_OS2
#define VP_OSP VP_OS1
#else
#define VP_OSL VP_OS3
#define VP_OSP VP_OS2
#endif

#define VP_LAST_FIRST ((VP_OSL >> VP_OP_FIRST) & 1)
#define VP_LAST_LAST ((VP_OSL >> VP_OP_LAST) & 1)
#define VP_LAST_SEEK ((VP_OSL >> VP_OP_SEEK) & 1)
#define VP_LAST_NEXT ((VP_OSL >> VP_OP_NEXT) & 1)
#define VP_LAST_PREV ((VP_OSL >> VP_OP_PREV) & 1)
#define VP_PREV_NEXT ((VP_OSP >> VP_OP_NEXT) & 1)
#define VP_PREV_PREV ((VP_OSP >> VP_OP_PREV) & 1)

#endif
