/* C07.a -- table/block.c iterator on blocks PRODUCED BY THE REAL
 * table/block_builder.c: VP_N entries (1..3), key i has the concrete length
 * VP_L<i> (1..3) and symbolic bytes (strictly increasing bytewise, so shared
 * prefixes of every possible length occur), value i has VP_VL symbolic bytes,
 * restart interval VP_RI (concrete, 1..3).  Then VP_K steps (operation of step k
 * chosen symbolically inside the set VP_OS<k>, C07/ops.h) among first/last/seek(symbolic target of 0..3 bytes)/next/prev versus the
 * sorted-map cursor (C07/ref.h): valid, key bytes, value bytes and status OK
 * after every operation.  VP_MODE 1: full forward and backward scans.
 */
#include "vp.h"
#include "util/options.h"
#include "util/status.h"
#include "util/comparator.h"
#include "table/block_builder.h"
#include "table/format.h"
#include "C07/ref.h"

/* unit under test, included to call its static v-table functions directly */
#include "table/block.c"

#ifndef VP_N
#define VP_N 2
#endif
#ifndef VP_L0
#define VP_L0 2
#endif
#ifndef VP_L1
#define VP_L1 2
#endif
#ifndef VP_L2
#define VP_L2 2
#endif
#ifndef VP_VL
#define VP_VL 1
#endif
#ifndef VP_RI
#define VP_RI 2
#endif
#ifndef VP_K
#define VP_K 2
#endif
#ifndef VP_MODE
#define VP_MODE 0
#endif
#define VP_KMAX 3

/* VP_KEYSET > 0: the keys are CONCRETE (the builder output is then concrete
   and only the operations, the seek target and the values stay symbolic):
     1: "a" "ab" "abc"     each key extends the previous one (shared 1, 2)
     2: "aa" "ab" "b"      shared 1, then 0
     3: "abc" "abd" "abe"  shared 2, 2
     4: "b" "c" "d"        nothing shared
   VP_KEYSET == 0: key i has VP_L<i> symbolic bytes. */
#ifndef VP_KEYSET
#define VP_KEYSET 0
#endif

#if VP_KEYSET == 1
static const size_t vp_len[3] = { 1, 2, 3 };
static uint8_t vp_kb[3][VP_KMAX] = { { 'a', 0, 0 }, { 'a', 'b', 0 }, { 'a', 'b', 'c' } };
#elif VP_KEYSET == 2
static const size_t vp_len[3] = { 2, 2, 1 };
static uint8_t vp_kb[3][VP_KMAX] = { { 'a', 'a', 0 }, { 'a', 'b', 0 }, { 'b', 0, 0 } };
#elif VP_KEYSET == 3
static const size_t vp_len[3] = { 3, 3, 3 };
static uint8_t vp_kb[3][VP_KMAX] = { { 'a', 'b', 'c' }, { 'a', 'b', 'd' }, { 'a', 'b', 'e' } };
#elif VP_KEYSET == 4
static const size_t vp_len[3] = { 1, 1, 1 };
static uint8_t vp_kb[3][VP_KMAX] = { { 'b', 0, 0 }, { 'c', 0, 0 }, { 'd', 0, 0 } };
#else
static const size_t vp_len[3] = { VP_L0, VP_L1, VP_L2 };
static uint8_t vp_kb[3][VP_KMAX];
#endif
static uint8_t vp_vb[3][VP_VL > 0 ? VP_VL : 1];

static ldb_dbopt_t vp_opt; /* zero initialised; only the two fields the builder reads are set */
static ldb_blockgen_t vp_bb;
static ldb_block_t vp_block;

static vp_ref_t vp_ref;
static ldb_blockiter_t *vp_bi;
static int vp_cur;

#include "C07/ops.h"

static void
vp_check(void) {
  int valid = ldb_blockiter_valid(vp_bi);

  VP_ASSERT((valid != 0) == (vp_cur >= 0), "block iterator valid iff the sorted map has an entry at this position");

  if (valid && vp_cur >= 0) {
    ldb_slice_t k = ldb_blockiter_key(vp_bi);
    ldb_slice_t v = ldb_blockiter_value(vp_bi);

    VP_ASSERT(vp_ref_same(k.data, k.size, vp_ref.k[vp_cur], vp_ref.kn[vp_cur]), "block iterator key == the added key the sorted map dictates");
    VP_ASSERT(vp_ref_same(v.data, v.size, vp_ref.v[vp_cur], vp_ref.vn[vp_cur]), "block iterator value == the value added with that key");
  }

  VP_ASSERT(ldb_blockiter_status(vp_bi) == LDB_OK, "block iterator status stays OK on a builder-produced block");
}

static void
vp_apply(int op, int mask, const uint8_t *t, size_t tn) {
  ldb_slice_t target;

  /* mask (a constant per step) removes the excluded operations from the
     program, not only from the models */
  if ((mask & (1 << VP_OP_FIRST)) && op == VP_OP_FIRST) {
    ldb_blockiter_first(vp_bi);
    vp_cur = vp_ref_first(&vp_ref);
  } else if ((mask & (1 << VP_OP_LAST)) && op == VP_OP_LAST) {
    ldb_blockiter_last(vp_bi);
    vp_cur = vp_ref_last(&vp_ref);
  } else if ((mask & (1 << VP_OP_SEEK)) && op == VP_OP_SEEK) {
    target.data = (uint8_t *)t;
    target.size = tn;
    target.alloc = 0;
    ldb_blockiter_seek(vp_bi, &target);
    vp_cur = vp_ref_seek_ge(&vp_ref, t, tn);
  } else if ((mask & (1 << VP_OP_NEXT)) && op == VP_OP_NEXT) {
    if (vp_cur < 0)
      return; /* REQUIRES: valid */
    ldb_blockiter_next(vp_bi);
    vp_cur = vp_ref_next(&vp_ref, vp_cur);
  } else if ((mask & (1 << VP_OP_PREV)) && op == VP_OP_PREV) {
    if (vp_cur < 0)
      return;
    ldb_blockiter_prev(vp_bi);
    vp_cur = vp_ref_prev(&vp_ref, vp_cur);
  } else {
    return;
  }

  vp_check();
}

void
harness(void) {
  ldb_contents_t contents;
  ldb_slice_t raw, ks, vs;
  ldb_iter_t *it;
  int i;

  vp_ref.n = 0;

  for (i = 0; i < VP_N; i++) {
#if VP_KEYSET == 0
    vp_fill(vp_kb[i], VP_KMAX);
#endif
    vp_fill(vp_vb[i], VP_VL);
    vp_ref_add(&vp_ref, vp_kb[i], vp_len[i], vp_vb[i], VP_VL, 1);
  }

  /* REQUIRES of ldb_blockgen_add: keys strictly increasing */
  for (i = 0; i + 1 < VP_N; i++)
    VP_ASSUME(vp_ref_cmp(vp_kb[i], vp_len[i], vp_kb[i + 1], vp_len[i + 1]) < 0);

  vp_opt.comparator = ldb_bytewise_comparator;
  vp_opt.block_restart_interval = VP_RI;

  ldb_blockgen_init(&vp_bb, &vp_opt);

  for (i = 0; i < VP_N; i++) {
    ks.data = vp_kb[i];
    ks.size = vp_len[i];
    ks.alloc = 0;
    vs.data = vp_vb[i];
    vs.size = VP_VL;
    vs.alloc = 0;
    ldb_blockgen_add(&vp_bb, &ks, &vs);
  }

  raw = ldb_blockgen_finish(&vp_bb);

  contents.data = raw;
  contents.cachable = 0;
  contents.heap_allocated = 0;

  ldb_block_init(&vp_block, &contents);

  VP_ASSERT(vp_block.size == raw.size && vp_block.size >= 8, "builder output is accepted as a block");

  it = ldb_blockiter_create(&vp_block, ldb_bytewise_comparator);
  vp_bi = (ldb_blockiter_t *)it->ptr;
  vp_cur = -1;

  VP_ASSERT(vp_bi->num_restarts == (uint32_t)((VP_N + VP_RI - 1) / VP_RI), "one restart point per VP_RI entries");

#if VP_MODE == 0
  {
    int k, op = 0;
    uint8_t t[VP_KMAX];
    size_t tn;

    for (k = 0; k < VP_K; k++) {
      op = vp_u8();
      VP_ASSUME(op <= VP_OP_PREV);
      VP_ASSUME((vp_os[k] >> op) & 1);
      vp_fill(t, VP_KMAX);
      tn = vp_u8();
      VP_ASSUME(tn <= VP_KMAX);
      vp_apply(op, vp_os[k], t, tn);
    }

    if (vp_cur >= 0) {
#if VP_LAST_SEEK
      if (op == VP_OP_SEEK) VP_WITNESS("seek-valid");
#endif
#if VP_LAST_LAST
      if (op == VP_OP_LAST) VP_WITNESS("last-valid");
#endif
#if VP_N >= 2 && VP_K >= 2 && VP_LAST_NEXT
      if (op == VP_OP_NEXT) VP_WITNESS("next-valid");
#endif
#if VP_N >= 2 && VP_K >= 2 && VP_LAST_PREV
      if (op == VP_OP_PREV) VP_WITNESS("prev-valid");
#endif
    } else {
      VP_WITNESS("ends-invalid");
    }
#if VP_N >= 2 && VP_L1 >= 2 && VP_KEYSET == 0
    if (vp_kb[0][0] == vp_kb[1][0])
      VP_WITNESS("keys-share-a-prefix");
#endif
  }
#else
  {
    int k, count = 0;

    vp_apply(VP_OP_FIRST, 31, NULL, 0);

    for (k = 0; k < VP_N; k++) {
      if (vp_cur >= 0) {
        count++;
        vp_apply(VP_OP_NEXT, 31, NULL, 0);
      }
    }

    VP_ASSERT(vp_cur < 0 && !ldb_blockiter_valid(vp_bi), "forward scan ends after the last entry");
    VP_ASSERT(count == VP_N, "forward scan yields every added entry once");

    count = 0;
    vp_apply(VP_OP_LAST, 31, NULL, 0);

    for (k = 0; k < VP_N; k++) {
      if (vp_cur >= 0) {
        count++;
        vp_apply(VP_OP_PREV, 31, NULL, 0);
      }
    }

    VP_ASSERT(vp_cur < 0 && !ldb_blockiter_valid(vp_bi), "backward scan ends before the first entry");
    VP_ASSERT(count == VP_N, "backward scan yields every added entry once");

    VP_WITNESS("scans-done");
  }
#endif
}
