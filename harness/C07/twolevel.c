/* C07.d -- table/two_level_iterator.c over an index vp_arriter (one entry per
 * block: 1-byte symbolic separator key -> 1-byte block handle) and a block
 * function that returns a NEW vp_arriter over block VP_Sj entries (concrete
 * sizes, some blocks EMPTY) whose status() is symbolic (OK / IOERR /
 * CORRUPTION: FAILING blocks, with or without entries).
 *
 * Table invariants assumed (as the table builder guarantees): keys strictly
 * increasing inside a block, every key of block j is <= separator[j] and
 * > separator[j-1]; separators strictly increasing.
 *
 * VP_MODE 0: VP_K steps, the operation of step k chosen symbolically inside the
 *   set VP_OS<k> (C07/ops.h) among first/last/seek(sym)/next/prev.
 *   After each: valid/key/value == sorted-map cursor over the union of all
 *   blocks (so empty blocks are skipped in both directions, nothing is lost or
 *   repeated); at most one data iterator is alive; status() follows LevelDB's
 *   rule exactly: index status, else status of the data iterator currently
 *   held, else the FIRST non-OK status of the data iterators released so far
 *   -- in particular a non-OK block status is never forgotten.
 * VP_MODE 1: full forward scan and full backward scan yield the union, each
 *   entry once, in order / reverse order.
 */
#include "vp.h"
#include "vp_arriter.h"
#include "util/comparator.h"
#include "util/options.h"
#include "util/status.h"
#include "C07/ref.h"

/* VP_MODEL_DESTROY: table/iterator.c's ldb_iter_destroy (cleanup list walk and
   two free()s per data iterator) is below the unit; the multi-step queries
   model it by vp_arr_iter_destroy (runs the child's clear() only).  Done with
   the preprocessor because goto-instrument --replace-calls expands all
   function pointers before they can be restricted.  The native replay and
   the scan obligations use the real function. */
#if defined(VP_MODEL_DESTROY) && !defined(VP_REPLAY)
#define ldb_iter_destroy vp_arr_iter_destroy
#endif

/* unit under test, included to call its static v-table functions directly */
#include "table/two_level_iterator.c"

#ifndef VP_S0
#define VP_S0 1
#endif
#ifndef VP_S1
#define VP_S1 0
#endif
#ifndef VP_S2
#define VP_S2 -1 /* -1: block absent */
#endif
#ifndef VP_S3
#define VP_S3 -1
#endif
#ifndef VP_K
#define VP_K 3
#endif
#ifndef VP_MODE
#define VP_MODE 0
#endif
/* VP_SYMKEYS 0 (default): keys are concrete (block j holds 16j+2, 16j+4, ...,
   separator 16j+12) and seek targets range over 0..16*blocks+1, i.e. below,
   on, between and above every key and separator.  two_level_iterator.c never
   compares keys itself (only its children do), so its behaviour depends on
   the keys only through the children's seek results.  VP_SYMKEYS 1: keys and
   separators are symbolic bytes under the table invariants. */
#ifndef VP_SYMKEYS
#define VP_SYMKEYS 0
#endif

#if VP_S3 >= 0
#define VP_NB 4
#define VP_TOTAL (VP_S0 + VP_S1 + VP_S2 + VP_S3)
#define VP_SLAST VP_S3
#elif VP_S2 >= 0
#define VP_NB 3
#define VP_TOTAL (VP_S0 + VP_S1 + VP_S2)
#define VP_SLAST VP_S2
#else
#define VP_NB 2
#define VP_TOTAL (VP_S0 + VP_S1)
#define VP_SLAST VP_S1
#endif

#if VP_S0 == 0 || VP_S1 == 0 || VP_S2 == 0 || VP_S3 == 0
#define VP_HAS_EMPTY 1
#else
#define VP_HAS_EMPTY 0
#endif

static vp_arr_t vp_I;                       /* index */
static vp_arr_t vp_B0, vp_B1, vp_B2, vp_B3; /* data blocks */
static vp_arr_t *const vp_B[4] = { &vp_B0, &vp_B1, &vp_B2, &vp_B3 };
static const int vp_bn[4] = { VP_S0, VP_S1, VP_S2, VP_S3 };
static vp_arrslot_t vp_slot0, vp_slot1, vp_slot2, vp_slot3; /* one per block */

static uint8_t vp_sep[4][1];
static uint8_t vp_hnd[4][1];
static uint8_t vp_kb[4][VP_ARR_MAXN][1];
static uint8_t vp_vb[4][VP_ARR_MAXN][1];

static vp_ref_t vp_ref;
static ldb_twoiter_t *vp_ti;
static int vp_cur;

/* ghost for the status rule */
static int vp_held;          /* block whose iterator the unit holds, or -1 */
static int vp_saved;         /* first non-OK status among released iterators */
static int vp_any_error;     /* some iterator created so far is non-OK */
static int vp_creations;     /* block function calls */

static void
vp_fold_held(void) {
  if (vp_held >= 0) {
    if (vp_saved == LDB_OK)
      vp_saved = vp_B[vp_held]->status;
    vp_held = -1;
  }
}

static ldb_iter_t *
vp_blockfn(void *arg, const ldb_readopt_t *options, const ldb_slice_t *handle) {
  int id;

  (void)arg;
  (void)options;

  VP_ASSERT(handle->size == 1 && handle->data[0] < VP_NB, "block function gets a handle stored in the index");

  id = handle->data[0] < VP_NB ? handle->data[0] : 0;

  /* the unit replaces the iterator it holds right after this call */
  vp_fold_held();
  vp_held = id;
  vp_creations++;

  if (vp_B[id]->status != LDB_OK)
    vp_any_error = 1;

  switch (id) {
    case 0: return vp_arriter_create_in(&vp_B0, ldb_bytewise_comparator, &vp_slot0);
    case 1: return vp_arriter_create_in(&vp_B1, ldb_bytewise_comparator, &vp_slot1);
    case 2: return vp_arriter_create_in(&vp_B2, ldb_bytewise_comparator, &vp_slot2);
    default: return vp_arriter_create_in(&vp_B3, ldb_bytewise_comparator, &vp_slot3);
  }
}

static int
vp_live_total(void) {
  int j, t = 0;

  for (j = 0; j < VP_NB; j++)
    t += vp_B[j]->live;

  return t;
}

#include "C07/ops.h"

static void
vp_check(void) {
  int valid = ldb_twoiter_valid(vp_ti);
  int want, got;

  VP_ASSERT((valid != 0) == (vp_cur >= 0), "two-level valid iff the union of the blocks has an entry at this position");

  if (valid && vp_cur >= 0) {
    ldb_slice_t k = ldb_twoiter_key(vp_ti);
    ldb_slice_t v = ldb_twoiter_value(vp_ti);

    VP_ASSERT(vp_ref_same(k.data, k.size, vp_ref.k[vp_cur], vp_ref.kn[vp_cur]), "two-level key == key the sorted union dictates (no entry lost, repeated or out of order)");
    VP_ASSERT(vp_ref_same(v.data, v.size, vp_ref.v[vp_cur], vp_ref.vn[vp_cur]), "two-level value == value of that entry");
  }

  /* released without a replacement (index ran off an end)? */
  if (vp_held >= 0 && vp_B[vp_held]->live == 0)
    vp_fold_held();

  VP_ASSERT(vp_live_total() == (vp_held >= 0 ? 1 : 0), "exactly the held data iterator is alive (none leaked, none destroyed early)");

  got = ldb_twoiter_status(vp_ti);

  if (vp_I.status != LDB_OK)
    want = vp_I.status;
  else if (vp_held >= 0 && vp_B[vp_held]->status != LDB_OK)
    want = vp_B[vp_held]->status;
  else
    want = vp_saved;

  VP_ASSERT(got == want, "two-level status == index status, else held block status, else first non-OK status of released blocks");
  VP_ASSERT(!vp_any_error || got != LDB_OK, "a non-OK data block status is never forgotten");
  VP_ASSERT(vp_any_error || vp_I.status != LDB_OK || got == LDB_OK, "status is OK when nothing failed");
}

static void
vp_apply(int op, int mask, const uint8_t *t) {
  ldb_slice_t target;

  /* mask (a constant per step) removes the excluded operations from the
     program, not only from the models */
  if ((mask & (1 << VP_OP_FIRST)) && op == VP_OP_FIRST) {
    ldb_twoiter_first(vp_ti);
    vp_cur = vp_ref_first(&vp_ref);
  } else if ((mask & (1 << VP_OP_LAST)) && op == VP_OP_LAST) {
    ldb_twoiter_last(vp_ti);
    vp_cur = vp_ref_last(&vp_ref);
  } else if ((mask & (1 << VP_OP_SEEK)) && op == VP_OP_SEEK) {
    target.data = (uint8_t *)t;
    target.size = 1;
    target.alloc = 0;
    ldb_twoiter_seek(vp_ti, &target);
    vp_cur = vp_ref_seek_ge(&vp_ref, t, 1);
  } else if ((mask & (1 << VP_OP_NEXT)) && op == VP_OP_NEXT) {
    if (vp_cur < 0)
      return; /* REQUIRES: valid */
    ldb_twoiter_next(vp_ti);
    vp_cur = vp_ref_next(&vp_ref, vp_cur);
  } else if ((mask & (1 << VP_OP_PREV)) && op == VP_OP_PREV) {
    if (vp_cur < 0)
      return;
    ldb_twoiter_prev(vp_ti);
    vp_cur = vp_ref_prev(&vp_ref, vp_cur);
  } else {
    return;
  }

  vp_check();
}

static int
vp_sym_status(void) {
  return vp_bool() ? LDB_OK : (vp_bool() ? LDB_IOERR : LDB_CORRUPTION);
}

void
harness(void) {
  ldb_iter_t *index_iter, *it;
  ldb_readopt_t opt;
  int j, i;

  opt.verify_checksums = 0;
  opt.fill_cache = 1;
  opt.snapshot = NULL;

  vp_ref.n = 0;
  vp_held = -1;
  vp_saved = LDB_OK;
  vp_any_error = 0;
  vp_creations = 0;

  vp_arr_init(&vp_I, VP_ARR_BYTEWISE);
  vp_I.kcap = 1;
  vp_I.vcap = 1;

  for (j = 0; j < VP_NB; j++) {
    vp_arr_init(vp_B[j], VP_ARR_BYTEWISE);
    vp_B[j]->kcap = 1;
    vp_B[j]->vcap = 1;

    for (i = 0; i < vp_bn[j]; i++) {
#if VP_SYMKEYS
      vp_kb[j][i][0] = vp_u8();
#else
      vp_kb[j][i][0] = (uint8_t)(16 * j + 2 * i + 2);
#endif
      vp_vb[j][i][0] = (uint8_t)(0x10 * (j + 1) + i);
      vp_arr_add(vp_B[j], vp_kb[j][i], 1, vp_vb[j][i], 1);
      vp_ref_add(&vp_ref, vp_kb[j][i], 1, vp_vb[j][i], 1, 1);
    }

    vp_B[j]->status = vp_sym_status();

#if VP_SYMKEYS
    vp_sep[j][0] = vp_u8();
#else
    vp_sep[j][0] = (uint8_t)(16 * j + 12);
#endif
    vp_hnd[j][0] = (uint8_t)j;
    vp_arr_add(&vp_I, vp_sep[j], 1, vp_hnd[j], 1);

    /* table invariants */
    for (i = 0; i + 1 < vp_bn[j]; i++)
      VP_ASSUME(vp_kb[j][i][0] < vp_kb[j][i + 1][0]);

    for (i = 0; i < vp_bn[j]; i++) {
      VP_ASSUME(vp_kb[j][i][0] <= vp_sep[j][0]);
      if (j > 0)
        VP_ASSUME(vp_kb[j][i][0] > vp_sep[j - 1][0]);
    }

    if (j > 0)
      VP_ASSUME(vp_sep[j - 1][0] < vp_sep[j][0]);
  }

  vp_I.status = vp_sym_status();

  index_iter = vp_arriter_create(&vp_I, ldb_bytewise_comparator);
  it = ldb_twoiter_create(index_iter, vp_blockfn, NULL, &opt);
  vp_ti = (ldb_twoiter_t *)it->ptr;
  vp_cur = -1;

#if VP_MODE == 0
  {
    int k, op = 0, before = 0, burst = 0, fwd_skip = 0, bwd_skip = 0, remembered = 0;
    uint8_t t[1];

    for (k = 0; k < VP_K; k++) {
      op = vp_u8();
      VP_ASSUME(op <= VP_OP_PREV);
      VP_ASSUME((vp_os[k] >> op) & 1);
      t[0] = vp_u8();
#if !VP_SYMKEYS
      VP_ASSUME(t[0] <= 16 * VP_NB + 1);
#endif
      before = vp_creations;
      vp_apply(op, vp_os[k], t);

      if (vp_creations - before >= 2) {
        burst = 1;
        if (op == VP_OP_FIRST && vp_cur >= 0) fwd_skip = 1;
        if (op == VP_OP_LAST && vp_cur >= 0) bwd_skip = 1;
      }

      if (vp_saved != LDB_OK && vp_held >= 0 && vp_B[vp_held]->status == LDB_OK)
        remembered = 1;
    }

    if (vp_cur >= 0) {
#if VP_TOTAL >= 2 && VP_K >= 2 && VP_LAST_NEXT
      if (op == VP_OP_NEXT) VP_WITNESS("next-valid");
#endif
#if VP_TOTAL >= 2 && VP_K >= 2 && VP_LAST_PREV
      if (op == VP_OP_PREV) VP_WITNESS("prev-valid");
#endif
#if VP_TOTAL >= 1 && VP_LAST_SEEK
      if (op == VP_OP_SEEK) VP_WITNESS("seek-valid");
#endif
    } else {
      VP_WITNESS("ends-invalid");
    }

#if VP_HAS_EMPTY
    if (burst) VP_WITNESS("one-op-opened-two-blocks");
#endif
#if VP_S0 == 0 && VP_TOTAL > 0 && ((VP_OS0 >> VP_OP_FIRST) & 1)
    if (fwd_skip) VP_WITNESS("forward-skip-over-empty-block");
#endif
#if VP_SLAST == 0 && VP_TOTAL > 0 && ((VP_OS0 >> VP_OP_LAST) & 1)
    if (bwd_skip) VP_WITNESS("backward-skip-over-empty-block");
#endif
    if (vp_any_error && vp_I.status == LDB_OK)
      VP_WITNESS("block-error-reported");
#if VP_TOTAL > 0
    if (remembered)
      VP_WITNESS("error-of-released-block-remembered");
#endif
  }
#else
  {
    int k, count = 0;

    vp_apply(VP_OP_FIRST, 31, NULL);

    for (k = 0; k < VP_TOTAL; k++) {
      if (vp_cur >= 0) {
        count++;
        vp_apply(VP_OP_NEXT, 31, NULL);
      }
    }

    VP_ASSERT(vp_cur < 0 && !ldb_twoiter_valid(vp_ti), "forward scan ends after the last entry of the last non-empty block");
    VP_ASSERT(count == VP_TOTAL, "forward scan yields every entry once");

    count = 0;
    vp_apply(VP_OP_LAST, 31, NULL);

    for (k = 0; k < VP_TOTAL; k++) {
      if (vp_cur >= 0) {
        count++;
        vp_apply(VP_OP_PREV, 31, NULL);
      }
    }

    VP_ASSERT(vp_cur < 0 && !ldb_twoiter_valid(vp_ti), "backward scan ends before the first entry of the first non-empty block");
    VP_ASSERT(count == VP_TOTAL, "backward scan yields every entry once");

    VP_WITNESS("scans-done");
    if (vp_any_error)
      VP_WITNESS("scan-with-failing-block");
  }
#endif
}
