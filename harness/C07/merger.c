/* C07.c -- table/merger.c (merging iterator) over 2 (or 3) vp_arriter
 * children with VP_N0/VP_N1/VP_N2 entries each (concrete sizes), keys of one
 * symbolic byte (bytewise comparator), strictly increasing inside a child.
 * The value byte identifies the entry: 0x10 * (child + 1) + index.
 *
 * VP_MODE 0: keys pairwise DISTINCT across all children (as internal keys in
 *   a real DB always are: unique sequence numbers).  VP_K steps, the operation
 *   of step k chosen symbolically inside the set VP_OS<k> (C07/ops.h) among
 *   first/last/seek(symbolic)/next/prev (next/prev only while valid),
 *   including every direction change; after each one valid/key/value equal the
 *   sorted-map cursor over the union (C07/ref.h) and status() is the first
 *   non-OK child status in child order (statuses symbolic).
 * VP_MODE 1: keys may REPEAT across children (LevelDB semantics: both entries
 *   are yielded, the lower-numbered child first when going forward).  A full
 *   forward scan and a full backward scan each yield every entry of every
 *   child exactly once, in non-decreasing / non-increasing key order, ties in
 *   child order / reverse child order.  (Direction changes on duplicate keys
 *   are outside: LevelDB itself skips the equal keys of the other children.)
 */
#include "vp.h"
#include "vp_arriter.h"
#include "util/status.h"
#include "C07/ref.h"

/* unit under test, included to call its static v-table functions directly */
#include "table/merger.c"

#ifndef VP_N0
#define VP_N0 2
#endif
#ifndef VP_N1
#define VP_N1 2
#endif
#ifndef VP_N2
#define VP_N2 -1 /* -1: only two children */
#endif
#ifndef VP_K
#define VP_K 3
#endif
#ifndef VP_MODE
#define VP_MODE 0
#endif


/* keys and seek targets range over 0..VP_KEYMAX (the merger only compares
   keys, so 2 * entries + 1 values already realise every relative order of
   the keys and a target; 255 = any byte) */
#ifndef VP_KEYMAX
#define VP_KEYMAX 255
#endif
/* VP_PERM > 0: the interleaving of the children is CONCRETE for this query:
   decimal digits, most significant = owner (1-based child number) of the
   smallest key, ...; keys are then 2,4,6,... by rank and seek targets range
   over 0..2*total+3 (below, equal to, between, above every key).  The unit
   only ever compares keys, so one query per interleaving covers every key
   assignment with that relative order.  VP_PERM == 0: keys symbolic. */
#ifndef VP_PERM
#define VP_PERM 0
#endif

#if VP_N2 >= 0
#define VP_NC 3
#define VP_TOTAL (VP_N0 + VP_N1 + VP_N2)
#else
#define VP_NC 2
#define VP_TOTAL (VP_N0 + VP_N1)
#endif

static vp_arr_t vp_A0, vp_A1, vp_A2;
static vp_arr_t *const vp_A[3] = { &vp_A0, &vp_A1, &vp_A2 };
static uint8_t vp_kb[3][VP_ARR_MAXN][1];
static uint8_t vp_vb[3][VP_ARR_MAXN][1];
static const int vp_cn[3] = { VP_N0, VP_N1, VP_N2 };

static vp_ref_t vp_ref;
static ldb_mergeiter_t *vp_mi;
static int vp_cur;
static int vp_want_status;

#include "C07/ops.h"

#if VP_MODE == 0

static void
vp_check(void) {
  int valid = ldb_mergeiter_valid(vp_mi);

  VP_ASSERT((valid != 0) == (vp_cur >= 0), "merger valid iff the union has an entry at this position");

  if (valid && vp_cur >= 0) {
    ldb_slice_t k = ldb_mergeiter_key(vp_mi);
    ldb_slice_t v = ldb_mergeiter_value(vp_mi);

    VP_ASSERT(vp_ref_same(k.data, k.size, vp_ref.k[vp_cur], vp_ref.kn[vp_cur]), "merger key == key the sorted union dictates");
    VP_ASSERT(vp_ref_same(v.data, v.size, vp_ref.v[vp_cur], vp_ref.vn[vp_cur]), "merger value == value of that entry (right child, right entry)");
  }

  VP_ASSERT(ldb_mergeiter_status(vp_mi) == vp_want_status, "merger status == first non-OK child status");
}

static void
vp_apply(int op, int mask, const uint8_t *t) {
  ldb_slice_t target;

  /* mask (a constant per step) removes the excluded operations from the
     program, not only from the models */
  if ((mask & (1 << VP_OP_FIRST)) && op == VP_OP_FIRST) {
    ldb_mergeiter_first(vp_mi);
    vp_cur = vp_ref_first(&vp_ref);
  } else if ((mask & (1 << VP_OP_LAST)) && op == VP_OP_LAST) {
    ldb_mergeiter_last(vp_mi);
    vp_cur = vp_ref_last(&vp_ref);
  } else if ((mask & (1 << VP_OP_SEEK)) && op == VP_OP_SEEK) {
    target.data = (uint8_t *)t;
    target.size = 1;
    target.alloc = 0;
    ldb_mergeiter_seek(vp_mi, &target);
    vp_cur = vp_ref_seek_ge(&vp_ref, t, 1);
  } else if ((mask & (1 << VP_OP_NEXT)) && op == VP_OP_NEXT) {
    if (vp_cur < 0)
      return; /* REQUIRES: valid */
    ldb_mergeiter_next(vp_mi);
    vp_cur = vp_ref_next(&vp_ref, vp_cur);
  } else if ((mask & (1 << VP_OP_PREV)) && op == VP_OP_PREV) {
    if (vp_cur < 0)
      return;
    ldb_mergeiter_prev(vp_mi);
    vp_cur = vp_ref_prev(&vp_ref, vp_cur);
  } else {
    return;
  }

  vp_check();
}

#endif

void
harness(void) {
  ldb_iter_t *children[3];
  ldb_iter_t *it;
  int c, i;

  vp_ref.n = 0;
  vp_want_status = LDB_OK;

  for (c = 0; c < VP_NC; c++) {
    vp_arr_init(vp_A[c], VP_ARR_BYTEWISE);
    vp_A[c]->kcap = 1;
    vp_A[c]->vcap = 1;
  }

#if VP_PERM > 0
  {
    /* concrete interleaving: rank r (0 = smallest) belongs to child
       digit(r) - 1 and gets the key 2 * (r + 1) */
    long perm = VP_PERM;
    int child_of_rank[16];
    int r;

    for (r = VP_TOTAL - 1; r >= 0; r--) {
      child_of_rank[r] = (int)(perm % 10) - 1;
      perm /= 10;
    }

    for (r = 0; r < VP_TOTAL; r++) {
      c = child_of_rank[r];
      i = vp_A[c]->n;
      VP_ASSERT(c >= 0 && c < VP_NC && i < vp_cn[c], "harness: VP_PERM matches the child sizes");
      vp_kb[c][i][0] = (uint8_t)(2 * (r + 1));
      vp_vb[c][i][0] = (uint8_t)(0x10 * (c + 1) + i);
      vp_arr_add(vp_A[c], vp_kb[c][i], 1, vp_vb[c][i], 1);
      vp_ref_add(&vp_ref, vp_kb[c][i], 1, vp_vb[c][i], 1, 1);
    }
  }
#else
  for (c = 0; c < VP_NC; c++) {
    for (i = 0; i < vp_cn[c]; i++) {
      vp_kb[c][i][0] = vp_u8();
      VP_ASSUME(vp_kb[c][i][0] <= VP_KEYMAX);
      vp_vb[c][i][0] = (uint8_t)(0x10 * (c + 1) + i);
      vp_arr_add(vp_A[c], vp_kb[c][i], 1, vp_vb[c][i], 1);
      vp_ref_add(&vp_ref, vp_kb[c][i], 1, vp_vb[c][i], 1, 1);
    }

    /* each child is sorted, strictly */
    for (i = 0; i + 1 < vp_cn[c]; i++)
      VP_ASSUME(vp_kb[c][i][0] < vp_kb[c][i + 1][0]);
  }
#endif

  for (c = 0; c < VP_NC; c++) {
    int st = vp_bool() ? LDB_OK : (vp_bool() ? LDB_IOERR : LDB_CORRUPTION);

    vp_A[c]->status = st;

    if (vp_want_status == LDB_OK)
      vp_want_status = st;

    children[c] = vp_arriter_create(vp_A[c], ldb_bytewise_comparator);
  }

  it = ldb_mergeiter_create(ldb_bytewise_comparator, children, VP_NC);
  vp_mi = (ldb_mergeiter_t *)it->ptr;
  vp_cur = -1;

#if VP_MODE == 0
  {
    int k, op = 0, prev_op = 0;
    uint8_t t[1];

    /* keys are unique across the children */
    VP_ASSUME(vp_ref_distinct(&vp_ref));

    for (k = 0; k < VP_K; k++) {
      prev_op = op;
      op = vp_u8();
      VP_ASSUME(op <= VP_OP_PREV);
      VP_ASSUME((vp_os[k] >> op) & 1);
      t[0] = vp_u8();
#if VP_PERM > 0
      VP_ASSUME(t[0] <= 2 * VP_TOTAL + 3);
#else
      VP_ASSUME(t[0] <= VP_KEYMAX);
#endif
      vp_apply(op, vp_os[k], t);
    }

    if (vp_cur >= 0) {
#if VP_LAST_SEEK
      if (op == VP_OP_SEEK) VP_WITNESS("seek-valid");
#endif
#if VP_K >= 3 && VP_N0 + VP_N1 >= 3 && VP_LAST_NEXT && VP_PREV_PREV
      if (op == VP_OP_NEXT && prev_op == VP_OP_PREV) VP_WITNESS("prev-then-next-valid");
#endif
#if VP_K >= 3 && VP_N0 + VP_N1 >= 3 && VP_LAST_PREV && VP_PREV_NEXT
      if (op == VP_OP_PREV && prev_op == VP_OP_NEXT) VP_WITNESS("next-then-prev-valid");
#endif
#if VP_LAST_LAST
      if (op == VP_OP_LAST) VP_WITNESS("last-valid");
#endif
    } else {
      VP_WITNESS("ends-invalid");
    }

    if (vp_want_status != LDB_OK)
      VP_WITNESS("child-error-reported");
  }
#else
  {
    int k, count, prev_child = -1, have_prev;
    uint8_t prev_key = 0;
    unsigned seen;

    /* forward */
    count = 0;
    seen = 0;
    have_prev = 0;
    ldb_mergeiter_first(vp_mi);

    for (k = 0; k < VP_TOTAL + 1; k++) {
      if (ldb_mergeiter_valid(vp_mi)) {
        ldb_slice_t kk = ldb_mergeiter_key(vp_mi);
        ldb_slice_t vv = ldb_mergeiter_value(vp_mi);
        int child = (vv.data[0] >> 4) - 1;
        int idx = vv.data[0] & 15;

        VP_ASSERT(kk.size == 1 && vv.size == 1, "merger yields stored slices");
        VP_ASSERT(child >= 0 && child < VP_NC && idx < vp_cn[child < 0 || child >= VP_NC ? 0 : child], "merger yields a stored entry");

        if (child >= 0 && child < VP_NC && idx < vp_cn[child]) {
          unsigned bit = 1u << (child * 4 + idx);

          VP_ASSERT(kk.data[0] == vp_kb[child][idx][0], "merger key belongs to the yielded entry");
          VP_ASSERT((seen & bit) == 0, "forward scan yields no entry twice");
          seen |= bit;
        }

        if (have_prev) {
          VP_ASSERT(prev_key <= kk.data[0], "forward scan is in comparator order");
          VP_ASSERT(prev_key != kk.data[0] || prev_child < child, "forward scan: equal keys come in child order");
        }

        prev_key = kk.data[0];
        prev_child = child;
        have_prev = 1;
        count++;
        ldb_mergeiter_next(vp_mi);
      }
    }

    VP_ASSERT(!ldb_mergeiter_valid(vp_mi), "forward scan terminates");
    VP_ASSERT(count == VP_TOTAL, "forward scan yields every entry of every child");

    /* backward */
    count = 0;
    seen = 0;
    have_prev = 0;
    ldb_mergeiter_last(vp_mi);

    for (k = 0; k < VP_TOTAL + 1; k++) {
      if (ldb_mergeiter_valid(vp_mi)) {
        ldb_slice_t kk = ldb_mergeiter_key(vp_mi);
        ldb_slice_t vv = ldb_mergeiter_value(vp_mi);
        int child = (vv.data[0] >> 4) - 1;
        int idx = vv.data[0] & 15;

        if (child >= 0 && child < VP_NC && idx < vp_cn[child]) {
          unsigned bit = 1u << (child * 4 + idx);

          VP_ASSERT(kk.data[0] == vp_kb[child][idx][0], "merger key belongs to the yielded entry (backward)");
          VP_ASSERT((seen & bit) == 0, "backward scan yields no entry twice");
          seen |= bit;
        } else {
          VP_ASSERT(0, "merger yields a stored entry (backward)");
        }

        if (have_prev) {
          VP_ASSERT(prev_key >= kk.data[0], "backward scan is in reverse comparator order");
          VP_ASSERT(prev_key != kk.data[0] || prev_child > child, "backward scan: equal keys come in reverse child order");
        }

        prev_key = kk.data[0];
        prev_child = child;
        have_prev = 1;
        count++;
        ldb_mergeiter_prev(vp_mi);
      }
    }

    VP_ASSERT(!ldb_mergeiter_valid(vp_mi), "backward scan terminates");
    VP_ASSERT(count == VP_TOTAL, "backward scan yields every entry of every child");

    if (!vp_ref_distinct(&vp_ref))
      VP_WITNESS("duplicate-keys-across-children");
    else
      VP_WITNESS("distinct-keys");
  }
#endif
}
