/* C07.e -- db_iter.c (the user-visible iterator) over ONE sorted child
 * (vp_arriter, internal-key order) holding VP_N internal entries:
 * user key = 1 symbolic byte, symbolic 56-bit sequence, symbolic type
 * (value/deletion), value byte = 0x10 + entry index (so the value identifies
 * the entry that was yielded); symbolic snapshot sequence S.
 *
 * Reference ("newest entry <= S" fold, written set-theoretically): entry i is
 * VISIBLE iff seq[i] <= S, type[i] == value and no other entry of the same
 * user key has a sequence in (seq[i], S].  The iterator must behave as a
 * sorted-map cursor (C07/ref.h) over the visible entries.
 *
 * VP_MODE 0: VP_K steps (operation of step k chosen symbolically inside the set
 *            VP_OS<k>, C07/ops.h) among first/last/seek(symbolic user
 *            key)/next/prev (next/prev only while valid = their REQUIRES).
 * VP_MODE 1: full forward scan (first, next*) then full backward scan
 *            (last, prev*): both yield exactly the visible entries, in
 *            order / reverse order, each once.
 * After every operation: valid, key, value equal the reference position,
 * status() == the child's status (OK unless injected), and read sampling
 * (ldb_record_read_sample stub) never changes the result.
 */
#include "vp.h"
#include "vp_arriter.h"
#include "C07/ref.h"

/* the unit under test, included to drive its static v-table functions
   directly (no function-pointer call sites in the harness) */
#include "db_iter.c"

#ifndef VP_N
#define VP_N 3
#endif
#ifndef VP_K
#define VP_K 2
#endif
#ifndef VP_MODE
#define VP_MODE 0
#endif
#ifndef VP_SEQBITS
#define VP_SEQBITS 56 /* sequence numbers and the snapshot range over [0, 2^VP_SEQBITS) */
#endif
#define VP_SEQMAX ((UINT64_C(1) << VP_SEQBITS) - 1)
/* VP_TRIM 1: after step 0 saved_value.alloc is set to VP_TRIM_ALLOC (state
   injection, see harness()): covers the trimming of an oversized saved_value */
#ifndef VP_TRIM
#define VP_TRIM 0
#endif
#ifndef VP_TRIM_ALLOC
#define VP_TRIM_ALLOC (2u << 20)
#endif

/* util/random.c is below the unit: the read-sampling period is modelled as
   the constant mean (1 MiB) of the real uniform [0, 2 MiB) draw */
void
ldb_rand_init(ldb_rand_t *rnd, uint32_t seed) {
  rnd->seed = seed;
}

uint32_t
ldb_rand_uniform(ldb_rand_t *rnd, uint32_t n) {
  (void)rnd;
  return n / 2;
}

static int vp_samples;

void
ldb_record_read_sample(ldb_t *db, const ldb_slice_t *key) {
  (void)db;
  (void)key;
  vp_samples++;
}

static vp_arr_t vp_A;
static uint8_t vp_uk[VP_N + 1][1];
static uint8_t vp_val[VP_N + 1][1];
static uint64_t vp_seq[VP_N + 1];
static int vp_type[VP_N + 1];

static vp_ref_t vp_ref;
static ldb_dbiter_t *vp_di;
static int vp_cur;
static int vp_child_status;

#include "C07/ops.h"

static void
vp_check(void) {
  int valid = ldb_dbiter_valid(vp_di);

  VP_ASSERT((valid != 0) == (vp_cur >= 0), "dbiter valid iff the visible map has an entry at this position");

  if (valid && vp_cur >= 0) {
    ldb_slice_t k = ldb_dbiter_key(vp_di);
    ldb_slice_t v = ldb_dbiter_value(vp_di);

    VP_ASSERT(k.size == 1 && k.data[0] == vp_uk[vp_cur][0], "dbiter key == user key the sorted map dictates");
    VP_ASSERT(v.size == 1, "dbiter value has the stored length");

    if (v.size == 1) {
      int e = (int)v.data[0] - 0x10;

      VP_ASSERT(e >= 0 && e < VP_N, "dbiter value is a stored value");

      if (e >= 0 && e < VP_N) {
        VP_ASSERT(vp_seq[e] <= vp_di->sequence, "dbiter never yields an entry newer than the snapshot");
        VP_ASSERT(vp_type[e] == LDB_TYPE_VALUE, "dbiter never yields a deletion marker");
      }
    }

    VP_ASSERT(v.size == 1 && v.data[0] == vp_val[vp_cur][0], "dbiter value == newest visible version of the key");
  }

  VP_ASSERT(ldb_dbiter_status(vp_di) == vp_child_status, "dbiter status == child status (OK unless injected)");
}

static void
vp_apply(int op, int mask, const uint8_t *t) {
  ldb_slice_t target;

  /* mask (a constant per step) removes the excluded operations from the
     program, not only from the models */
  if ((mask & (1 << VP_OP_FIRST)) && op == VP_OP_FIRST) {
    ldb_dbiter_first(vp_di);
    vp_cur = vp_ref_first(&vp_ref);
  } else if ((mask & (1 << VP_OP_LAST)) && op == VP_OP_LAST) {
    ldb_dbiter_last(vp_di);
    vp_cur = vp_ref_last(&vp_ref);
  } else if ((mask & (1 << VP_OP_SEEK)) && op == VP_OP_SEEK) {
    target.data = (uint8_t *)t;
    target.size = 1;
    target.alloc = 0;
    ldb_dbiter_seek(vp_di, &target);
    vp_cur = vp_ref_seek_ge(&vp_ref, t, 1);
  } else if ((mask & (1 << VP_OP_NEXT)) && op == VP_OP_NEXT) {
    if (vp_cur < 0)
      return; /* REQUIRES: valid */
    ldb_dbiter_next(vp_di);
    vp_cur = vp_ref_next(&vp_ref, vp_cur);
  } else if ((mask & (1 << VP_OP_PREV)) && op == VP_OP_PREV) {
    if (vp_cur < 0)
      return;
    ldb_dbiter_prev(vp_di);
    vp_cur = vp_ref_prev(&vp_ref, vp_cur);
  } else {
    return;
  }

  vp_check();
}

void
harness(void) {
  ldb_iter_t *child, *it;
  uint64_t snap;
  int i, j, nvis = 0;

  vp_arr_init(&vp_A, VP_ARR_INTERNAL);
  vp_A.kcap = 9;
  vp_A.vcap = 1;
  vp_ref.n = 0;
  vp_samples = 0;

  snap = vp_u64();
  VP_ASSUME(snap <= VP_SEQMAX);

  for (i = 0; i < VP_N; i++) {
    vp_uk[i][0] = vp_u8();
    vp_seq[i] = vp_u64();
    vp_type[i] = vp_bool();
    vp_val[i][0] = (uint8_t)(0x10 + i);
    VP_ASSUME(vp_seq[i] <= VP_SEQMAX);
    vp_arr_add_internal(&vp_A, vp_uk[i], 1, vp_seq[i], vp_type[i], vp_val[i], 1);
  }

  /* the child is sorted by the internal-key order and (user key, sequence)
     pairs are unique: user key ascending, sequence descending */
  for (i = 0; i + 1 < VP_N; i++)
    VP_ASSUME(vp_uk[i][0] < vp_uk[i + 1][0] ||
              (vp_uk[i][0] == vp_uk[i + 1][0] && vp_seq[i] > vp_seq[i + 1]));

  /* reference fold */
  for (i = 0; i < VP_N; i++) {
    int vis = (vp_seq[i] <= snap && vp_type[i] == LDB_TYPE_VALUE);

    for (j = 0; j < VP_N; j++) {
      if (j != i && vp_uk[j][0] == vp_uk[i][0] &&
          vp_seq[j] <= snap && vp_seq[j] > vp_seq[i])
        vis = 0;
    }

    vp_ref_add(&vp_ref, vp_uk[i], 1, vp_val[i], 1, vis);
    nvis += vis;
  }

  vp_child_status = vp_bool() ? LDB_OK : LDB_IOERR;
  vp_A.status = vp_child_status;

  child = vp_arriter_create(&vp_A, NULL);
  it = ldb_dbiter_create(NULL, ldb_bytewise_comparator, child, snap, 301);
  vp_di = (ldb_dbiter_t *)it->ptr;

  /* make the read-sampling path reachable: few bytes left until a sample */
  vp_di->bytes_until_read_sampling = vp_u8();

  vp_cur = -1;

#if VP_MODE == 0
  {
    int k, op = 0;
    uint8_t t[1];
#if VP_TRIM
    int injected = 0, trimmed = 0;
#endif

    for (k = 0; k < VP_K; k++) {
      op = vp_u8();
      VP_ASSUME(op <= VP_OP_PREV);
      VP_ASSUME((vp_os[k] >> op) & 1);
      t[0] = vp_u8();
      vp_apply(op, vp_os[k], t);

#if VP_TRIM
      /* state injection after the positioning step: the saved-value buffer
         has the huge capacity an earlier multi-megabyte value would have left
         behind (data stays a valid allocation, alloc >= size), so that the
         next backward step takes the "trim an oversized saved_value" branch
         of find_prev_user_entry (ldb_buffer_reinit before the copies) */
      if (k == 0 && vp_cur >= 0) {
        ldb_buffer_grow(&vp_di->saved_value, 1);
        vp_di->saved_value.alloc = VP_TRIM_ALLOC;
        injected = 1;
      }

      if (k == 1 && injected && vp_cur >= 0 &&
          vp_di->saved_value.alloc < VP_TRIM_ALLOC)
        trimmed = 1;
#endif
    }

#if VP_TRIM
    if (trimmed)
      VP_WITNESS("oversized-saved-value-trimmed-and-entry-still-yielded");
#endif

    if (vp_cur >= 0) {
#if VP_LAST_FIRST
      if (op == VP_OP_FIRST) VP_WITNESS("first-valid");
#endif
#if VP_LAST_LAST
      if (op == VP_OP_LAST) VP_WITNESS("last-valid");
#endif
#if VP_LAST_SEEK
      if (op == VP_OP_SEEK) VP_WITNESS("seek-valid");
#endif
#if VP_K >= 2 && VP_N >= 2 && VP_LAST_NEXT
      if (op == VP_OP_NEXT) VP_WITNESS("next-valid");
#endif
#if VP_K >= 2 && VP_N >= 2 && VP_LAST_PREV && (!VP_TRIM || VP_N >= 3)
      if (op == VP_OP_PREV) VP_WITNESS("prev-valid");
#endif
    } else {
      VP_WITNESS("ends-invalid");
    }

    if (vp_samples > 0)
      VP_WITNESS("read-sample-taken");
  }
#else
  {
    int k, count = 0;

    vp_apply(VP_OP_FIRST, 31, NULL);

    for (k = 0; k < VP_N; k++) {
      if (vp_cur >= 0) {
        count++;
        vp_apply(VP_OP_NEXT, 31, NULL);
      }
    }

    VP_ASSERT(vp_cur < 0 && !ldb_dbiter_valid(vp_di), "forward scan ends after the last visible entry");
    VP_ASSERT(count == nvis, "forward scan yields every visible entry exactly once");

    count = 0;
    vp_apply(VP_OP_LAST, 31, NULL);

    for (k = 0; k < VP_N; k++) {
      if (vp_cur >= 0) {
        count++;
        vp_apply(VP_OP_PREV, 31, NULL);
      }
    }

    VP_ASSERT(vp_cur < 0 && !ldb_dbiter_valid(vp_di), "backward scan ends before the first visible entry");
    VP_ASSERT(count == nvis, "backward scan yields every visible entry exactly once (agrees with forward)");

    if (nvis == VP_N)
      VP_WITNESS("all-visible");
    if (nvis == 0)
      VP_WITNESS("none-visible");
#if VP_N >= 2
    if (nvis == 1)
      VP_WITNESS("one-visible-of-many");
#endif
  }
#endif
}
