/* C07.b -- table/iterator.c ldb_iter_seek_ge/gt/le/lt (and ldb_iter_compare)
 * over one vp_arriter child with VP_N keys (each 0..VP_KL symbolic bytes,
 * strictly increasing bytewise), a symbolic target (0..VP_KL bytes) and a
 * symbolic prior cursor position; versus the sorted-map reference:
 *   ge = min key >= t, gt = min key > t, le = max key <= t, lt = max key < t,
 * not valid when no such key exists (before-first / after-last / empty).
 */
#include "vp.h"
#include "vp_arriter.h"
#include "util/comparator.h"
#include "util/status.h"
#include "C07/ref.h"

#ifndef VP_N
#define VP_N 3
#endif
#ifndef VP_KL
#define VP_KL 2
#endif

/* with no keys the "valid" outcomes do not exist */
#if VP_N > 0
#define VP_WV(label) VP_WITNESS(label)
#else
#define VP_WV(label) do { } while (0)
#endif

static vp_arr_t vp_A;
static uint8_t vp_kb[VP_N + 1][VP_KL + 1];
static uint8_t vp_vb[VP_N + 1][1];

void
harness(void) {
  vp_ref_t ref;
  ldb_iter_t *it;
  uint8_t tb[VP_KL + 1];
  ldb_slice_t target;
  size_t tn, kn;
  int i, op, p0, want, got;

  ref.n = 0;
  vp_arr_init(&vp_A, VP_ARR_BYTEWISE);

  for (i = 0; i < VP_N; i++) {
    kn = vp_u8();
    VP_ASSUME(kn <= VP_KL);
    vp_fill(vp_kb[i], VP_KL);
    vp_vb[i][0] = vp_u8();
    vp_arr_add(&vp_A, vp_kb[i], kn, vp_vb[i], 1);
    vp_ref_add(&ref, vp_kb[i], kn, vp_vb[i], 1, 1);
  }

  /* precondition of every iterator: keys strictly increasing */
  for (i = 0; i + 1 < VP_N; i++)
    VP_ASSUME(vp_ref_cmp(ref.k[i], ref.kn[i], ref.k[i + 1], ref.kn[i + 1]) < 0);

  tn = vp_u8();
  VP_ASSUME(tn <= VP_KL);
  vp_fill(tb, VP_KL);
  target.data = tb;
  target.size = tn;
  target.alloc = 0;

  it = vp_arriter_create(&vp_A, ldb_bytewise_comparator);

  /* arbitrary prior position (the helpers must not depend on it) */
  p0 = vp_int();
  VP_ASSUME(p0 >= -1 && p0 <= VP_N);
  vp_arriter_set_pos(it, p0);

  op = vp_u8();
  VP_ASSUME(op < 4);

  switch (op) {
    case 0:
      ldb_iter_seek_ge(it, &target);
      want = vp_ref_seek_ge(&ref, tb, tn);
      break;
    case 1:
      ldb_iter_seek_gt(it, &target);
      want = vp_ref_seek_gt(&ref, tb, tn);
      break;
    case 2:
      ldb_iter_seek_le(it, &target);
      want = vp_ref_seek_le(&ref, tb, tn);
      break;
    default:
      ldb_iter_seek_lt(it, &target);
      want = vp_ref_seek_lt(&ref, tb, tn);
      break;
  }

  got = vp_arriter_pos(it);

  VP_ASSERT((got >= 0) == (want >= 0), "seek_ge/gt/le/lt: valid iff the sorted map has such a key");
  VP_ASSERT(got == want, "seek_ge/gt/le/lt: positioned on the entry the sorted map dictates");

  if (got >= 0) {
    /* ldb_iter_compare agrees with the reference order at the landing point */
    int c = ldb_iter_compare(it, &target);
    int rc = vp_ref_cmp(ref.k[got], ref.kn[got], tb, tn);

    VP_ASSERT((c < 0) == (rc < 0) && (c > 0) == (rc > 0), "ldb_iter_compare sign == reference order");

    if (op == 0) { VP_ASSERT(rc >= 0, "seek_ge lands on key >= target"); VP_WV("ge-valid"); }
    if (op == 1) { VP_ASSERT(rc > 0, "seek_gt lands on key > target"); VP_WV("gt-valid"); }
    if (op == 2) { VP_ASSERT(rc <= 0, "seek_le lands on key <= target"); VP_WV("le-valid"); }
    if (op == 3) { VP_ASSERT(rc < 0, "seek_lt lands on key < target"); VP_WV("lt-valid"); }
  } else {
    if (op == 0) VP_WITNESS("ge-invalid");
    if (op == 1) VP_WITNESS("gt-invalid");
    if (op == 2) VP_WITNESS("le-invalid");
    if (op == 3) VP_WITNESS("lt-invalid");
  }
}
