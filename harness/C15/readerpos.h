/* readerpos.h -- put the real log reader at a position inside the first
 * 32 KiB block without materialising the bytes before it.
 *
 * vp_reader_at() writes into a freshly ldb_reader_init'ed reader (initial
 * offset 0, test hook lr->src) exactly the state the real reader has after it
 * returned the physical records occupying file bytes [0, pos) of a file of
 * pos + ntail bytes (pos < 32768): the first block read delivered
 * min(32768, file length) bytes, of which pos are consumed.  This state
 * formula is itself checked against the real reader (small pos) by the
 * obligation c.reader-position-model.
 */
#ifndef VP_READERPOS_H
#define VP_READERPOS_H

#include "vp.h"
#include "log_reader.h"

static void
vp_reader_at(ldb_reader_t *lr, ldb_slice_t *src, const uint8_t *tail, size_t ntail, size_t pos) {
  size_t filelen = pos + ntail;
  size_t got = filelen < 32768 ? filelen : 32768; /* bytes of the first block read */

  VP_ASSERT(pos <= got, "vp-model: reader position inside the first block");

  lr->buffer.data = (uint8_t *)tail;
  lr->buffer.size = got - pos;
  lr->buffer.alloc = 0;
  lr->end_offset = got;
  lr->eof = (got < 32768);
  src->data = (uint8_t *)tail + (got - pos);
  src->size = filelen - got;
  src->alloc = 0;
  lr->src = src;
}

#endif
