/* C15.a -- log format constants and the CRC mask/unmask pair.
 *
 * LevelDB log format (doc/log_format.md): 32768-byte blocks, 7-byte header
 * = checksum(4, little endian) length(2, little endian) type(1);
 * types ZERO=0 FULL=1 FIRST=2 MIDDLE=3 LAST=4.
 * LevelDB crc32c::Mask(crc) = ((crc >> 15) | (crc << 17)) + 0xa282ead8
 * (rotate right by 15, add the constant, modulo 2^32); Unmask is its inverse.
 * Checked for ALL 32-bit values. */
#include "vp.h"
#include "util/crc32c.h"
#include "log_format.h"
#include "log_writer.h"

static uint32_t
vp_ref_rotr32(uint32_t x, unsigned n) {
  /* bitwise: n single-bit rotations */
  unsigned i;
  for (i = 0; i < n; i++)
    x = (x >> 1) | ((x & 1u) << 31);
  return x;
}

void
harness(void) {
  uint32_t x = vp_u32();
  uint64_t wide;
  uint32_t m, u;

  VP_ASSERT(LDB_BLOCK_SIZE == 32768, "block size is 32 KiB");
  VP_ASSERT(LDB_HEADER_SIZE == 7, "header is 7 bytes");
  VP_ASSERT(LDB_TYPE_ZERO == 0 && LDB_TYPE_FULL == 1 && LDB_TYPE_FIRST == 2 &&
            LDB_TYPE_MIDDLE == 3 && LDB_TYPE_LAST == 4, "record type codes 0..4");
  VP_ASSERT(LDB_MAX_RECTYPE == 4, "max record type is LAST");
  VP_ASSERT(sizeof(((ldb_writer_t *)0)->type_crc) / sizeof(uint32_t) == 5,
            "one precomputed type crc per type code");
  VP_ASSERT(ldb_crc32c_mask_delta == 0xa282ead8ul, "mask delta");

  /* mask == rotr15 + delta (mod 2^32), computed in 64 bits then reduced */
  wide = (uint64_t)vp_ref_rotr32(x, 15) + (uint64_t)0xa282ead8ul;
  m = ldb_crc32c_mask(x);
  VP_ASSERT(m == (uint32_t)(wide & 0xfffffffful), "mask(x) == rotr(x,15) + 0xa282ead8");

  /* unmask == rotl15(y - delta) == rotr17(y - delta) */
  wide = ((uint64_t)x + (uint64_t)0x100000000ul - (uint64_t)0xa282ead8ul) & 0xfffffffful;
  u = ldb_crc32c_unmask(x);
  VP_ASSERT(u == vp_ref_rotr32((uint32_t)wide, 17), "unmask(y) == rotl(y - 0xa282ead8, 15)");

  VP_ASSERT(ldb_crc32c_unmask(ldb_crc32c_mask(x)) == x, "unmask(mask(x)) == x");
  VP_ASSERT(ldb_crc32c_mask(ldb_crc32c_unmask(x)) == x, "mask(unmask(y)) == y");

  /* fixed points */
  VP_ASSERT(ldb_crc32c_mask(0) == 0xa282ead8ul, "mask(0) == delta");
  VP_ASSERT(ldb_crc32c_mask(0x8000ul) == 0xa282ead9ul, "bit 15 rotates to bit 0");

  VP_WITNESS("consts");
}
