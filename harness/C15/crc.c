/* C15.k -- the CRC-32C kernel of util/crc32c.c against the bitwise definition.
 *
 * CRC-32C (Castagnoli), reflected polynomial 0x82f63b78, pre- and
 * post-conditioned with 0xffffffff; extend(z, data) continues a crc z.
 *
 *  VP_MODE 0: every entry of byte_ext_table and stride_ext_table_0..3 equals
 *             its bitwise definition (symbolic 8-bit index = all 256 entries).
 *  VP_MODE 1: ldb_crc32c_extend(z, data, VP_LEN) == bitwise reference for
 *             fully symbolic data and z, data at misalignment VP_MIS (mod 4).
 *  VP_MODE 2: same for a longer input of VP_LEN bytes of which a window of
 *             VP_WINSZ bytes is symbolic and the rest a fixed pattern, for
 *             each window position VP_WIN..VP_WIN_END-1 in turn; z symbolic
 *             when VP_SYMZ.
 *  VP_MODE 3: RFC 3720 B.4 test vectors + the vector lcdb's own self-test uses.
 *  VP_MODE 4: round_up(p, N) arithmetic for N in {4, 8} on every address
 *             value (justifies the alignment model below).
 *  VP_MODE 5: the byte-wise form of the reference == the bit-serial
 *             definition for every register value and input byte.
 *
 * The public entry ldb_crc32c_extend dispatches through a function pointer
 * that is statically initialised to the portable routine crc32c_generic; this
 * harness never calls ldb_crc32c_init(), i.e. the PORTABLE path is what is
 * verified.  The SSE4.2 routine (inline asm, selected at run time by
 * ldb_crc32c_init on capable CPUs) is outside.
 *
 * Alignment: crc32c_generic aligns with round_up(), an integer round trip of
 * the pointer whose result CBMC cannot resolve at symbolic-execution time
 * (all trip counts become symbolic).  Under CBMC the call is replaced
 * (goto-instrument --replace-calls round_up:vp_round_up) by the same function
 * specialised to "the data pointer is VP_MIS mod 4"; natively (replay) the
 * data really is placed at that misalignment and the real round_up runs.
 */
#include "vp.h"
#include "util/crc32c.c"

#ifndef VP_MODE
#define VP_MODE 1
#endif
#ifndef VP_LEN
#define VP_LEN 4
#endif
#ifndef VP_MIS
#define VP_MIS 0
#endif
#ifndef VP_WIN
#define VP_WIN 0
#endif
#ifndef VP_SYMZ
#define VP_SYMZ 0
#endif
#ifndef VP_WINSZ
#define VP_WINSZ 1
#endif
#ifndef VP_WIN_END
#define VP_WIN_END VP_LEN
#endif

#define VP_POLY 0x82f63b78ul

/* the input: an exact-size, 16-aligned static object; the data starts VP_MIS
 * bytes into it.  (A static object rather than vp_input(): the pointer must
 * be a plain object address for CBMC to resolve the routine's trip counts.) */
/* crc32c_generic computes x = round_up(p, 4) and compares x <= e even when
 * the input ends before the next 4-byte boundary ("This might be past the end
 * of the buffer"): x is then up to 3 bytes beyond one-past-the-end of the
 * caller's object.  That is outside ISO C's rules for pointer comparison but
 * harmless on flat-address machines; so that the pointer model does not
 * report it, exactly the missing 1..3 bytes are appended as slack (symbolic
 * contents, never part of the data; only 6 size tuples need it). */
#define VP_TO_ALIGN ((4 - VP_MIS % 4) % 4)
#define VP_SLACK (VP_MODE == 1 && VP_LEN < VP_TO_ALIGN ? VP_TO_ALIGN - VP_LEN : 0)
#define VP_DATASZ (VP_MODE == 3 ? 48 : VP_MIS + VP_LEN + VP_SLACK)
static uint8_t vp_data[VP_DATASZ + (VP_DATASZ == 0)] __attribute__((aligned(16)));

/* one bit of the reflected CRC division */
static uint32_t
vp_ref_bit(uint32_t c) {
  return (c >> 1) ^ ((c & 1u) ? (uint32_t)VP_POLY : 0u);
}

/* the raw (unconditioned) register after absorbing nzero zero bytes */
static uint32_t
vp_ref_zeros(uint32_t c, int nzero) {
  int i;
  for (i = 0; i < 8 * nzero; i++)
    c = vp_ref_bit(c);
  return c;
}

/* absorb one byte, bit-serial: THE definition */
static uint32_t
vp_ref_step_bits(uint32_t c, uint8_t b) {
  int k;
  c ^= b;
  for (k = 0; k < 8; k++)
    c = vp_ref_bit(c);
  return c;
}

/* absorb one byte, low byte divided separately (the 8 division steps only
 * ever look at the low 8 bits of c ^ b; the upper 24 bits shift down
 * unchanged).  VP_MODE 5 proves vp_ref_step_byte == vp_ref_step_bits for
 * every register value and byte, so the multi-byte reference below IS the
 * bit-serial CRC; it is used because the SAT solver can then match it with
 * the table-driven code byte by byte. */
static uint32_t
vp_ref_step_byte(uint32_t c, uint8_t b) {
  uint32_t t = (c ^ b) & 0xff;
  int k;
  for (k = 0; k < 8; k++)
    t = vp_ref_bit(t);
  return (c >> 8) ^ t;
}

static uint32_t
vp_ref_crc32c_extend(uint32_t z, const uint8_t *p, size_t n) {
  uint32_t c = z ^ 0xfffffffful;
  size_t i;
  for (i = 0; i < n; i++)
    c = vp_ref_step_byte(c, p[i]);
  return c ^ 0xfffffffful;
}

/* fully bit-serial variant (used on concrete vectors, VP_MODE 3) */
static uint32_t
vp_ref_crc32c_bits(uint32_t z, const uint8_t *p, size_t n) {
  uint32_t c = z ^ 0xfffffffful;
  size_t i;
  for (i = 0; i < n; i++)
    c = vp_ref_step_bits(c, p[i]);
  return c ^ 0xfffffffful;
}

/* model of round_up for a pointer whose address is VP_MIS modulo 4 (and, for
 * the 8-byte variant, modulo 8) */
const void *
vp_round_up(const void *p, uintptr_t N) {
  uintptr_t m = (uintptr_t)VP_MIS & (N - 1);
  return (const char *)p + (m == 0 ? 0 : N - m);
}

void
harness(void) {
#if VP_MODE == 0
  {
    uint8_t b = vp_u8();
    /* byte table: the register b advanced by one (zero) byte */
    VP_ASSERT(byte_ext_table[b] == vp_ref_zeros(b, 1), "byte_ext_table[b] == bitwise");
    /* stride tables: one byte of the register advanced by 16 bytes (4 to
     * absorb the word it was xor-ed into, 12 to skip the other three strides) */
    VP_ASSERT(stride_ext_table_3[b] == vp_ref_zeros((uint32_t)b, 16), "stride_ext_table_3[b] == bitwise");
    VP_ASSERT(stride_ext_table_2[b] == vp_ref_zeros((uint32_t)b << 8, 16), "stride_ext_table_2[b] == bitwise");
    VP_ASSERT(stride_ext_table_1[b] == vp_ref_zeros((uint32_t)b << 16, 16), "stride_ext_table_1[b] == bitwise");
    VP_ASSERT(stride_ext_table_0[b] == vp_ref_zeros((uint32_t)b << 24, 16), "stride_ext_table_0[b] == bitwise");
    VP_ASSERT(sizeof(byte_ext_table) == 1024 && sizeof(stride_ext_table_0) == 1024 &&
              sizeof(stride_ext_table_1) == 1024 && sizeof(stride_ext_table_2) == 1024 &&
              sizeof(stride_ext_table_3) == 1024, "tables have 256 entries");
    VP_WITNESS("tables");
  }
#elif VP_MODE == 1
  {
    uint8_t *in = vp_data;
    uint32_t z = vp_u32(), got, want;
    vp_fill(in, VP_MIS + VP_LEN + VP_SLACK);
    got = ldb_crc32c_extend(z, in + VP_MIS, VP_LEN);
    want = vp_ref_crc32c_extend(z, in + VP_MIS, VP_LEN);
    VP_ASSERT(got == want, "ldb_crc32c_extend == bitwise CRC-32C");
    VP_WITNESS("extend");
  }
#elif VP_MODE == 2
  {
    uint8_t *in = vp_data;
    uint32_t z = 0x12345678ul, got, want;
    size_t i, pos;
#if VP_SYMZ
    z = vp_u32();
#endif
    /* for every window position VP_WIN .. VP_WIN_END-1 separately */
    for (pos = VP_WIN; pos < VP_WIN_END && pos + VP_WINSZ <= VP_LEN; pos++) {
      for (i = 0; i < VP_MIS + VP_LEN; i++)
        in[i] = (uint8_t)(i * 37 + 11);
      for (i = 0; i < VP_WINSZ; i++)
        in[VP_MIS + pos + i] = vp_u8();
      got = ldb_crc32c_extend(z, in + VP_MIS, VP_LEN);
      want = vp_ref_crc32c_extend(z, in + VP_MIS, VP_LEN);
      VP_ASSERT(got == want, "ldb_crc32c_extend == bitwise CRC-32C (windowed)");
    }
    VP_WITNESS("extend windowed");
  }
#elif VP_MODE == 3
  {
    uint8_t *in = vp_data;
    static const uint8_t iscsi[48] = {
      0x01, 0xc0, 0x00, 0x00, 0x00, 0x00, 0x00, 0x00, 0x00, 0x00, 0x00, 0x00,
      0x00, 0x00, 0x00, 0x00, 0x14, 0x00, 0x00, 0x00, 0x00, 0x00, 0x04, 0x00,
      0x00, 0x00, 0x00, 0x14, 0x00, 0x00, 0x00, 0x18, 0x28, 0x00, 0x00, 0x00,
      0x00, 0x00, 0x00, 0x00, 0x02, 0x00, 0x00, 0x00, 0x00, 0x00, 0x00, 0x00
    };
    static const char tst[] = "TestCRCBuffer";
    size_t i;
    /* vp_u8() keeps the replay protocol uniform; the value is unused */
    (void)vp_u8();
    for (i = 0; i < 32; i++)
      in[i] = 0;
    VP_ASSERT(ldb_crc32c_value(in, 32) == 0x8a9136aaul, "32 zero bytes");
    VP_ASSERT(vp_ref_crc32c_bits(0, in, 32) == 0x8a9136aaul, "reference: 32 zero bytes");
    for (i = 0; i < 32; i++)
      in[i] = 0xff;
    VP_ASSERT(ldb_crc32c_value(in, 32) == 0x62a8ab43ul, "32 0xff bytes");
    VP_ASSERT(vp_ref_crc32c_bits(0, in, 32) == 0x62a8ab43ul, "reference: 32 0xff bytes");
    for (i = 0; i < 32; i++)
      in[i] = (uint8_t)i;
    VP_ASSERT(ldb_crc32c_value(in, 32) == 0x46dd794eul, "32 ascending bytes");
    VP_ASSERT(vp_ref_crc32c_bits(0, in, 32) == 0x46dd794eul, "reference: 32 ascending bytes");
    for (i = 0; i < 32; i++)
      in[i] = (uint8_t)(31 - i);
    VP_ASSERT(ldb_crc32c_value(in, 32) == 0x113fdb5cul, "32 descending bytes");
    for (i = 0; i < 48; i++)
      in[i] = iscsi[i];
    VP_ASSERT(ldb_crc32c_value(in, 48) == 0xd9963a56ul, "iSCSI read command PDU");
    VP_ASSERT(vp_ref_crc32c_bits(0, in, 48) == 0xd9963a56ul, "reference: iSCSI read command PDU");
    for (i = 0; i < 13; i++)
      in[i] = (uint8_t)tst[i];
    VP_ASSERT(ldb_crc32c_value(in, 13) == 0xdcbc59faul, "lcdb self-test vector");
    /* streaming */
    VP_ASSERT(ldb_crc32c_extend(ldb_crc32c_value(in, 4), in + 4, 9) == 0xdcbc59faul, "extend(value(A), B) == value(AB)");
    VP_WITNESS("vectors");
  }
#elif VP_MODE == 5
  {
    uint32_t c = vp_u32();
    uint8_t b = vp_u8();
    VP_ASSERT(vp_ref_step_byte(c, b) == vp_ref_step_bits(c, b),
              "reference: byte-wise step == 8 bit-serial division steps, every register value and byte");
    VP_ASSERT(vp_ref_zeros(c, 1) == vp_ref_step_bits(c, 0), "reference: zero-byte advance == absorbing a zero byte");
    VP_WITNESS("reference step");
  }
#else
  {
    uintptr_t a = (uintptr_t)vp_u64();
    uintptr_t r4, r8;
    VP_ASSUME(a <= (uintptr_t)-16);
    r4 = (uintptr_t)round_up((const void *)a, 4);
    r8 = (uintptr_t)round_up((const void *)a, 8);
    VP_ASSERT(r4 >= a && r4 - a < 4 && (r4 & 3) == 0, "round_up(p,4): smallest 4-aligned address >= p");
    VP_ASSERT(r8 >= a && r8 - a < 8 && (r8 & 7) == 0, "round_up(p,8): smallest 8-aligned address >= p");
    VP_ASSERT(r4 - a == (((a & 3) == 0) ? 0 : 4 - (a & 3)), "round_up(p,4) - p depends only on p mod 4");
    VP_WITNESS("round_up");
  }
#endif
}
