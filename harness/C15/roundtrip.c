/* C15.c / C15.e -- byte-exact small round trips and truncation.
 *
 * The real writer (test hook lw->dst: bytes go to an ldb_buffer_t) appends
 * 1..3 records of concrete small lengths VP_N1, VP_N2, VP_N3 (-1 = absent)
 * with symbolic contents to a file whose current length is VP_START
 * (0, or 32768-k: just before a block end).  The checksum is the abstract
 * streaming checksum of kit/vp_cksum.c.
 *
 *  VP_MODE 0 (c): writer output == reference encoder (logref.h) byte for
 *    byte; the real reader (test hook lr->src) over these bytes returns
 *    exactly the written records, then EOF, and never calls the reporter.
 *  VP_MODE 1 (e): the file is cut at a SYMBOLIC length (anywhere from
 *    VP_START to its end; the bytes behind the cut are made arbitrary): the
 *    reader returns exactly the records that lie wholly before the cut, then
 *    EOF, and never calls the reporter.
 *  VP_MODE 2 (e): one byte of the part that lies in the first block is
 *    altered (position VP_POS, symbolic non-zero xor mask); the last record
 *    lies wholly in the second block.  The reader returns exactly the
 *    records before the damaged fragment and the records of the second
 *    block (never anything that was not written), and reports a drop.
 *  VP_MODE 3: (VP_START == 0) check of readerpos.h: after the real reader has
 *    returned record 1, its state equals vp_reader_at(pos = end of record 1).
 *
 * When VP_START > 0 the reader is placed at VP_START inside the first block
 * with vp_reader_at() (readerpos.h); only the bytes from VP_START on exist
 * (an exact-size object of VP_TOTAL - VP_START bytes; VP_TOTAL, the file length
 * after the last record, is computed by obl/C15.py from the format and
 * re-checked here).
 */
#include "vp.h"
#include "util/types.h"
#include "util/status.h"
#include "util/slice.h"
#include "util/buffer.h"
#include "log_format.h"
#include "log_writer.h"
#include "log_reader.h"

#define VP_REF_MAXREC 3
#include "logref.h"
#include "readerpos.h"

#ifndef VP_MODE
#define VP_MODE 0
#endif
#ifndef VP_N2
#define VP_N2 (-1)
#endif
#ifndef VP_N3
#define VP_N3 (-1)
#endif

#define VP_NRECS (1 + (VP_N2 >= 0) + (VP_N3 >= 0))
#define VP_LEN(i) ((i) == 0 ? VP_N1 : (i) == 1 ? VP_N2 : VP_N3)
#define VP_MAXN 64
#ifndef VP_SCRATCH
#define VP_SCRATCH 64
#endif
#define VP_TAIL (VP_TOTAL - VP_START)

static uint8_t vp_img[VP_TAIL]; /* vp_img[i] = file byte VP_START + i */
static uint8_t vp_recs[3][VP_MAXN];

static int vp_nreports = 0;
static size_t vp_report_bytes = 0;

static void
vp_corruption(ldb_reporter_t *reporter, size_t bytes, int status) {
  (void)reporter;
  (void)status;
  vp_nreports++;
  vp_report_bytes += bytes;
}

static void
vp_check_bytes(const uint8_t *a, const uint8_t *b, size_t n, int which) {
  size_t i;
  for (i = 0; i < n; i++) {
    if (which == 0)
      VP_ASSERT(a[i] == b[i], "writer output byte == reference encoder");
    else
      VP_ASSERT(a[i] == b[i], "record byte read back");
  }
}

void
harness(void) {
  ldb_writer_t lw;
  ldb_reader_t lr;
  ldb_reporter_t rep;
  ldb_buffer_t out, scratch;
  ldb_slice_t src, rec;
  size_t len = 0, ends[3], i, cut;
  int r, ok, eof_seen = 0;

  /* ---- real writer */
  ldb_writer_init(&lw, NULL, VP_START);
  ldb_buffer_init(&out);
  /* capacity reserved up front: growth of ldb_buffer_t is buffer.c's business */
  ldb_buffer_grow(&out, VP_TAIL + 1);
  lw.dst = &out;

  for (r = 0; r < VP_NRECS; r++) {
    ldb_slice_t s;
    int rc;
    vp_fill(vp_recs[r], (size_t)VP_LEN(r));
    ldb_slice_set(&s, vp_recs[r], (size_t)VP_LEN(r));
    rc = ldb_writer_add_record(&lw, &s);
    VP_ASSERT(rc == LDB_OK, "add_record OK");
    /* ---- reference encoder */
    vp_ref_put(vp_img, VP_TAIL, VP_START, &len, vp_recs[r], (size_t)VP_LEN(r));
    ends[r] = len;
  }

  VP_ASSERT(len == VP_TAIL, "vp-model: VP_TOTAL is the encoded size");
  VP_ASSERT(out.size == len, "writer output length == reference encoder");
  vp_check_bytes(out.data, vp_img, out.size < len ? out.size : len, 0);
  VP_ASSERT((size_t)lw.block_offset % VP_REF_BLK == (VP_START + len) % VP_REF_BLK,
            "block_offset == file length mod 32768");

  /* ---- truncation */
  cut = len;
#if VP_MODE == 1
  cut = vp_size();
  VP_ASSUME(cut <= len);
  for (i = 0; i < len; i++) {
    if (i >= cut)
      vp_img[i] = vp_u8(); /* nothing behind the cut may matter */
  }
#endif

  /* ---- real reader */
  rep.fname = NULL;
  rep.status = NULL;
  rep.info_log = NULL;
  rep.lognum = 0;
  rep.dst = NULL;
  rep.dropped_bytes = 0;
  rep.corruption = vp_corruption;

  ldb_reader_init(&lr, NULL, &rep, 1, 0);
#if VP_START > 0
  vp_reader_at(&lr, &src, vp_img, cut, VP_START);
#else
  ldb_slice_set(&src, vp_img, cut);
  lr.src = &src;
#endif
  ldb_buffer_init(&scratch);
  ldb_buffer_grow(&scratch, VP_SCRATCH);

#if VP_MODE == 2
  {
    /* ---- one altered byte in the first block */
    const size_t b1 = VP_REF_BLK - VP_START; /* bytes of the tail that lie in the first block */
    size_t pos = VP_POS; /* concrete per query: a symbolic index would make every length symbolic */
    uint8_t delta = vp_u8();
    size_t start, hs = 0;
    int a = -1, q;

    VP_ASSERT(b1 < len && ends[VP_NRECS - 1] - (size_t)VP_LEN(VP_NRECS - 1) - 7 >= b1,
              "vp-model: layout has the last record wholly in the second block");
    VP_ASSUME(pos < b1 && delta != 0);

    /* the record whose first-block fragment contains the altered byte; in
     * the layouts used every byte of the first block belongs to a fragment
     * that starts a record (no trailer, no empty payload) */
    start = 0;
    for (r = 0; r < VP_NRECS; r++) {
      if (pos >= start && pos < ends[r] && a < 0) {
        a = r;
        hs = start;
      }
      start = ends[r];
    }
    VP_ASSERT(a >= 0, "vp-model: altered byte belongs to a record");

    vp_img[pos] ^= delta;

    /* A changed LENGTH field makes the checksum cover a different extent of
     * symbolic payload; that the two checksums then differ is the usual
     * no-collision assumption on the checksum (2^-32 for CRC-32C), made
     * explicit here.  Every other single-byte change is detected by the
     * checksum itself (also by the abstract one), with no assumption. */
    if (pos == hs + 4 || pos == hs + 5) {
      size_t alen = (size_t)vp_img[hs + 4] | ((size_t)vp_img[hs + 5] << 8);
      if (hs + 7 + alen <= b1) {
        uint32_t stored = (uint32_t)vp_img[hs] | ((uint32_t)vp_img[hs + 1] << 8) |
                          ((uint32_t)vp_img[hs + 2] << 16) | ((uint32_t)vp_img[hs + 3] << 24);
        VP_ASSUME(stored != vp_ref_frag_cksum(vp_img[hs + 6], vp_img + hs + 7, alen));
      }
    }

    q = 0;
    start = 0;
    for (r = 0; r < VP_NRECS; r++) {
      /* survivors: records wholly before the damaged fragment, and records
       * that start in the next (intact) block */
      int keep = (r < a) || (start >= b1);
      start = ends[r];
      if (!keep)
        continue;
      ok = ldb_reader_read_record(&lr, &rec, &scratch);
      VP_ASSERT(ok, "records before the damage and records of the next intact block are returned");
      VP_ASSERT(rec.size == (size_t)VP_LEN(r), "surviving record has its written length");
      vp_check_bytes(rec.data, vp_recs[r], rec.size < (size_t)VP_LEN(r) ? rec.size : (size_t)VP_LEN(r), 1);
      q++;
    }
    ok = ldb_reader_read_record(&lr, &rec, &scratch);
    VP_ASSERT(!ok, "nothing else is returned: no record that was not written");
    VP_ASSERT(vp_nreports >= 1 && vp_report_bytes > 0, "the drop is reported");

    VP_WITNESS("altered");

    ldb_buffer_clear(&scratch);
    ldb_buffer_clear(&out);
    ldb_reader_clear(&lr);
    return;
  }
#endif

  for (r = 0; r < VP_NRECS; r++) {
    ok = ldb_reader_read_record(&lr, &rec, &scratch);
    if (ends[r] <= cut) {
      VP_ASSERT(ok, "a record wholly before the cut is returned");
      VP_ASSERT(rec.size == (size_t)VP_LEN(r), "record length read back");
      vp_check_bytes(rec.data, vp_recs[r], rec.size < (size_t)VP_LEN(r) ? rec.size : (size_t)VP_LEN(r), 1);
#if VP_MODE == 3
      if (r == 0) {
        ldb_reader_t lr2;
        ldb_slice_t src2;
        ldb_reader_init(&lr2, NULL, &rep, 1, 0);
        vp_reader_at(&lr2, &src2, vp_img + ends[0], len - ends[0], ends[0]);
        VP_ASSERT(lr2.buffer.data == lr.buffer.data && lr2.buffer.size == lr.buffer.size,
                  "position model: buffer");
        VP_ASSERT(lr2.end_offset == lr.end_offset && lr2.eof == lr.eof, "position model: end_offset, eof");
        VP_ASSERT(src2.data == src.data && src2.size == src.size, "position model: rest of the source");
        VP_ASSERT(lr2.resyncing == lr.resyncing && lr2.initial_offset == lr.initial_offset &&
                  lr2.checksum == lr.checksum && lr2.error == lr.error && lr2.reporter == lr.reporter &&
                  lr2.file == lr.file, "position model: configuration fields");
        VP_ASSERT(lr.last_offset == 0 && lr2.last_offset == 0, "position model: last_offset");
        ldb_reader_clear(&lr2);
      }
#endif
    } else {
      VP_ASSERT(!ok, "a record not wholly before the cut is not returned");
      eof_seen = 1;
      break;
    }
  }

  ok = ldb_reader_read_record(&lr, &rec, &scratch);
  VP_ASSERT(!ok, "end of file after the last complete record");
  ok = ldb_reader_read_record(&lr, &rec, &scratch);
  VP_ASSERT(!ok, "end of file is sticky");
  VP_ASSERT(vp_nreports == 0, "no corruption reported");

#if VP_MODE == 1
  if (eof_seen)
    VP_WITNESS("cut inside the records");
  if (!eof_seen)
    VP_WITNESS("cut at the end");
#elif VP_MODE != 2
  VP_WITNESS("round trip");
#endif

  ldb_buffer_clear(&scratch);
  ldb_buffer_clear(&out);
  ldb_reader_clear(&lr);
}
