/* C15.b -- writer arithmetic at the REAL 32 KiB scale.
 *
 * The real ldb_writer_init/ldb_writer_create + ldb_writer_add_record run on
 * the file path (lw->dst == NULL).  Below them:
 *   - ldb_wfile_append / ldb_wfile_flush are recorders (pointer, size, file
 *     position, the first <=7 bytes of every slice that is not record payload);
 *   - ldb_crc32c_extend is an *uninterpreted* checksum: it never reads the
 *     payload, logs its arguments and returns a fresh symbolic 32-bit value
 *     per call (one symbolic value per type code for the one-byte type crcs).
 * Symbolic: initial file length (any uint64), record length(s) 0..98320,
 * every checksum value.  Not symbolic: record contents (never read).
 *
 * Asserted against a reference fragmenter written from the LevelDB log format
 * document: zero padding iff fewer than 7 bytes are left in the block, and
 * then exactly to the block end; each fragment = 7-byte header + payload, never
 * crossing a block; types FULL | FIRST MIDDLE* LAST; payload slices contiguous
 * and covering the record; header length/type bytes; header crc bytes ==
 * little-endian mask(checksum(type_crc[type], payload ptr, payload len));
 * flush after each fragment; block_offset == file length mod 32768.
 */
#include "vp.h"
#include "util/types.h"
#include "util/status.h"
#include "util/slice.h"
#include "log_format.h"
#include "log_writer.h"

#define VP_RECMAX 98320 /* 3 * 32768 + 16 */
#define VP_BLK 32768ul
#define VP_HDR 7ul

#ifndef VP_NREC
#define VP_NREC 1
#endif
#ifndef VP_CREATE
#define VP_CREATE 0
#endif

#define VP_MAXFRAG 6 /* one more than a 98320-byte record can need */

struct ldb_wfile_s {
  int vp_dummy;
};

static struct ldb_wfile_s vp_file;
static uint8_t vp_rec[VP_RECMAX + 1];

/* one recorded file call */
struct vp_ev {
  int count;       /* calls of this kind inside the fragment */
  int seq;         /* global call sequence number of the last one */
  const uint8_t *p;
  size_t n;
  uint64_t at;     /* file length before the call */
  uint8_t b[7];    /* first bytes (not for payload slices) */
};

/* everything the writer did between two flushes */
struct vp_frag {
  struct vp_ev pad, hdr, pay, flush;
  int ck_count;
  uint32_t ck_z;
  const uint8_t *ck_p;
  size_t ck_n;
  uint32_t ck_ret;
};

static struct vp_frag vp_frags[VP_MAXFRAG];
static int vp_f = 0;   /* current fragment = number of flushes so far */
static int vp_seq = 0;
static uint32_t vp_tcrc[5];
static int vp_tcalls = 0;
static uint64_t vp_flen = 0;

static int
vp_in_rec(const uint8_t *p) {
#ifdef VP_REPLAY
  return (uintptr_t)p >= (uintptr_t)vp_rec &&
         (uintptr_t)p <= (uintptr_t)(vp_rec + VP_RECMAX);
#else
  return __CPROVER_same_object(p, vp_rec);
#endif
}

static void
vp_reset_log(void) {
  int f;
  for (f = 0; f < VP_MAXFRAG; f++) {
    vp_frags[f].pad.count = 0;
    vp_frags[f].hdr.count = 0;
    vp_frags[f].pay.count = 0;
    vp_frags[f].flush.count = 0;
    vp_frags[f].ck_count = 0;
  }
  vp_f = 0;
  vp_seq = 0;
}

int
ldb_wfile_append(struct ldb_wfile_s *file, const ldb_slice_t *data) {
  VP_ASSERT(file == &vp_file, "append goes to the file given to the writer");
  VP_ASSERT(vp_f < VP_MAXFRAG, "no more than 5 fragments");
  if (vp_f < VP_MAXFRAG) {
    struct vp_ev *e;
    size_t i;
    /* classification: payload = a slice of the record object; header = any
     * other 7-byte slice; everything else is trailer padding */
    if (vp_in_rec(data->data)) {
      e = &vp_frags[vp_f].pay;
    } else {
      e = data->size == VP_HDR ? &vp_frags[vp_f].hdr : &vp_frags[vp_f].pad;
      for (i = 0; i < 7 && i < data->size; i++)
        e->b[i] = data->data[i];
    }
    e->count++;
    e->seq = vp_seq;
    e->p = data->data;
    e->n = data->size;
    e->at = vp_flen;
  }
  vp_seq++;
  vp_flen += data->size;
  return LDB_OK;
}

int
ldb_wfile_flush(struct ldb_wfile_s *file) {
  VP_ASSERT(file == &vp_file, "flush goes to the file given to the writer");
  VP_ASSERT(vp_f < VP_MAXFRAG, "no more than 5 fragments");
  if (vp_f < VP_MAXFRAG) {
    struct vp_ev *e = &vp_frags[vp_f].flush;
    e->count++;
    e->seq = vp_seq;
    e->at = vp_flen;
    vp_f++;
  }
  vp_seq++;
  return LDB_OK;
}

/* uninterpreted checksum */
uint32_t
ldb_crc32c_extend(uint32_t z, const uint8_t *xp, size_t xn) {
  if (!vp_in_rec(xp)) {
    /* precomputation of the crc of the one-byte type code */
    uint8_t t;
    VP_ASSERT(z == 0 && xn == 1, "outside the payload only one-byte type crcs are computed");
    t = xp[0];
    VP_ASSERT(t <= 4, "type crc of a valid type code");
    vp_tcalls++;
    return vp_tcrc[t <= 4 ? t : 0];
  }
  VP_ASSERT(vp_f < VP_MAXFRAG, "no more than 5 fragments");
  if (vp_f < VP_MAXFRAG) {
    struct vp_frag *g = &vp_frags[vp_f];
    g->ck_count++;
    g->ck_z = z;
    g->ck_p = xp;
    g->ck_n = xn;
    g->ck_ret = vp_u32();
    return g->ck_ret;
  }
  return 0;
}

int
ldb_crc32c_init(void) {
  return 0;
}

/* LevelDB crc32c::Mask */
static uint32_t
vp_ref_mask(uint32_t c) {
  return (uint32_t)((((c >> 15) | (c << 17)) + 0xa282ead8ul) & 0xfffffffful);
}

void
harness(void) {
  uint64_t len0 = vp_u64();
  ldb_writer_t vp_lw_store;
  ldb_writer_t *lw;
  unsigned long pos; /* reference position inside the current block */
  int r, t;
  int saw_pad = 0, saw_empty_first = 0, max_frags = 0;

  for (t = 0; t < 5; t++)
    vp_tcrc[t] = vp_u32();

  vp_reset_log();
  vp_flen = len0;

#if VP_CREATE
  lw = ldb_writer_create(&vp_file, len0);
#else
  lw = &vp_lw_store;
  ldb_writer_init(lw, &vp_file, len0);
#endif

  VP_ASSERT(lw->file == &vp_file && lw->dst == NULL, "writer bound to the file, test hook off");
  VP_ASSERT(lw->block_offset >= 0 &&
            (unsigned long)lw->block_offset == (unsigned long)(len0 % VP_BLK),
            "init: block_offset == initial file length mod 32768");
  VP_ASSERT(vp_tcalls == 5, "init: five type crcs computed");
  for (t = 0; t < 5; t++)
    VP_ASSERT(lw->type_crc[t] == vp_tcrc[t], "init: type_crc[t] == crc of the byte t");
  VP_ASSERT(vp_seq == 0 && vp_flen == len0, "init does no I/O");

  /* the only other state the writer leaves behind: a record that ended
   * exactly at a block end leaves block_offset == 32768 (file length mod
   * 32768 == 0) */
  if (len0 % VP_BLK == 0 && vp_bool())
    lw->block_offset = (int)VP_BLK;

  pos = (unsigned long)lw->block_offset;

  for (r = 0; r < VP_NREC; r++) {
    uint32_t n = vp_u32();
    unsigned long off = 0;
    ldb_slice_t rec;
    int first = 1, nfrag = 0, rc, f, done = 0, seq = 0;
    uint64_t at = vp_flen;

    VP_ASSUME(n <= VP_RECMAX);

    vp_reset_log();

    ldb_slice_set(&rec, vp_rec, n);

    rc = ldb_writer_add_record(lw, &rec);

    VP_ASSERT(rc == LDB_OK, "add_record returns OK when the file calls succeed");

    /* reference fragmenter walks the recorded fragments */
    for (f = 0; f < VP_MAXFRAG; f++) {
      const struct vp_frag *g = &vp_frags[f];
      unsigned long room, avail, frag;
      int last, type;
      uint32_t m;

      if (done) {
        VP_ASSERT(g->pad.count == 0 && g->hdr.count == 0 && g->pay.count == 0 &&
                  g->flush.count == 0 && g->ck_count == 0,
                  "no file or checksum call beyond the reference sequence");
        continue;
      }

      room = VP_BLK - pos;

      if (room < VP_HDR && room > 0) {
        unsigned long i;
        VP_ASSERT(g->pad.count == 1 && g->pad.seq == seq && g->pad.at == at && g->pad.n == room,
                  "fewer than 7 bytes left: padded exactly to the block end, before the header");
        for (i = 0; i < room; i++)
          VP_ASSERT(g->pad.b[i] == 0, "trailer padding is zero bytes");
        at += room;
        seq++;
        saw_pad = 1;
        VP_ASSERT(at % VP_BLK == 0, "padding ends on a block boundary");
      } else {
        VP_ASSERT(g->pad.count == 0, "no padding when >= 7 bytes (or nothing) are left in the block");
      }

      if (room < VP_HDR)
        pos = 0;

      avail = VP_BLK - pos - VP_HDR;
      frag = (n - off < avail) ? (unsigned long)(n - off) : avail;
      last = (off + frag == n);
      type = first ? (last ? 1 : 2) : (last ? 4 : 3);

      /* header */
      VP_ASSERT(g->hdr.count == 1 && g->hdr.seq == seq && g->hdr.at == at,
                "exactly one 7-byte header, at the reference file position");
      VP_ASSERT(at % VP_BLK == pos, "header written at the reference block position");
      VP_ASSERT(at % VP_BLK + VP_HDR + frag <= VP_BLK, "fragment does not cross a block boundary");
      VP_ASSERT(g->hdr.b[4] == (frag & 0xff) && g->hdr.b[5] == (frag >> 8),
                "header length bytes (little endian 16 bit)");
      VP_ASSERT(g->hdr.b[6] == type, "header type FULL | FIRST MIDDLE* LAST");
      VP_ASSERT(g->ck_count == 1, "one payload checksum per fragment");
      VP_ASSERT(g->ck_z == vp_tcrc[type], "checksum starts from the crc of this fragment's type byte");
      VP_ASSERT(g->ck_p == vp_rec + off && g->ck_n == frag, "checksum covers exactly the fragment payload");
      m = vp_ref_mask(g->ck_ret);
      VP_ASSERT(g->hdr.b[0] == (m & 0xff) && g->hdr.b[1] == ((m >> 8) & 0xff) &&
                g->hdr.b[2] == ((m >> 16) & 0xff) && g->hdr.b[3] == (m >> 24),
                "header crc bytes == little-endian masked checksum");
      /* payload */
      VP_ASSERT(g->pay.count == 1 && g->pay.seq == seq + 1 && g->pay.at == at + VP_HDR,
                "exactly one payload slice, directly after its header");
      VP_ASSERT(g->pay.p == vp_rec + off && g->pay.n == frag,
                "payload slice is the next contiguous piece of the record");
      /* flush */
      VP_ASSERT(g->flush.count == 1 && g->flush.seq == seq + 2 && g->flush.at == at + VP_HDR + frag,
                "flush after the fragment");
      if (!last)
        VP_ASSERT((at + VP_HDR + frag) % VP_BLK == 0, "a non-final fragment fills its block");
      if (first && !last && frag == 0)
        saw_empty_first = 1;

      seq += 3;
      nfrag++;
      at += VP_HDR + frag;
      pos += VP_HDR + frag;
      off += frag;
      first = 0;
      if (last)
        done = 1;
    }

    VP_ASSERT(done && off == n, "fragments cover the whole record");
    VP_ASSERT(nfrag <= 5, "at most 5 fragments for a record of <= 98320 bytes");
    VP_ASSERT(vp_seq == seq, "no file call beyond the reference sequence");
    VP_ASSERT(vp_flen == at, "file grew by padding + headers + payload");
    VP_ASSERT(lw->block_offset >= 0 && (unsigned long)lw->block_offset == pos,
              "block_offset == reference position");
    VP_ASSERT(pos <= VP_BLK && pos % VP_BLK == vp_flen % VP_BLK,
              "block_offset == file length mod 32768 (32768 standing for 0 after an exact fit)");
    if (nfrag > max_frags)
      max_frags = nfrag;
  }

  if (max_frags == 1)
    VP_WITNESS("single FULL fragment");
  if (max_frags == 5)
    VP_WITNESS("five fragments");
  if (saw_pad)
    VP_WITNESS("trailer padded");
  if (saw_empty_first)
    VP_WITNESS("empty FIRST fragment in the last 7 bytes of a block");
  if (pos == VP_BLK)
    VP_WITNESS("record ends exactly at a block end");

#if VP_CREATE
  ldb_writer_destroy(lw);
#endif
}
