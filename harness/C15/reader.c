/* C15.d -- the real log reader on ARBITRARY bytes vs the reference decoder.
 *
 * (With VP_FIXLEN: the length fields of back-to-back records are fixed,
 * everything else arbitrary.)
 * VP_N arbitrary bytes (exact-size object) are the file contents from file
 * offset VP_START on (VP_START == 0: a whole small file; VP_START == 32768-k:
 * the reader stands k bytes before the end of the first block, so the bytes
 * straddle a block boundary; readerpos.h).  Checksums are verified (abstract
 * streaming checksum, kit/vp_cksum.c).
 *
 * Asserted, call by call for VP_N/7+2 consecutive ldb_reader_read_record
 * calls (i.e. also after the end of the input): the call returns a record
 * exactly when the reference reader (logref.h) does, with the same length and
 * bytes; after every call the reporter has been called exactly as often as the
 * reference reported a drop, with the same byte counts and LDB_CORRUPTION;
 * the reader terminates within the loop bounds (unwinding failure ==
 * violation); every read stays inside the VP_N bytes (CBMC bounds checks /
 * ASan in the replay).  The reference follows upstream LevelDB for
 * checksum-valid records of the out-of-range types 5 and 6 (see logref.h,
 * VP_REF_TYPE_ALIAS); everything else is strict.
 */
#include "vp.h"
#include "util/types.h"
#include "util/status.h"
#include "util/slice.h"
#include "util/buffer.h"
#include "log_format.h"
#include "log_reader.h"

#ifndef VP_N
#define VP_N 16
#endif
#ifndef VP_START
#define VP_START 0
#endif
#ifndef VP_SCRATCH
#define VP_SCRATCH 64
#endif

#define VP_REF_MAXLEN (VP_N + 1)
#define VP_REF_MAXREP (2 * (VP_N / 7) + 4)
#include "logref.h"
#include "readerpos.h"

/* read calls compared: more than the bytes can hold records, so that the
 * behaviour after the end of the input is compared as well */
#ifndef VP_CALLS
#define VP_CALLS (VP_N / 7 + 2)
#endif

static int vp_nrep = 0;
static size_t vp_rep[VP_REF_MAXREP];
static int vp_rep_status_ok = 1;

static void
vp_corruption(ldb_reporter_t *reporter, size_t bytes, int status) {
  (void)reporter;
  if (vp_nrep < VP_REF_MAXREP)
    vp_rep[vp_nrep] = bytes;
  vp_nrep++;
  if (status != LDB_CORRUPTION)
    vp_rep_status_ok = 0;
}

#ifndef VP_REPLAY
/* only used by the reader to format a message that is then ignored */
int
sprintf(char *s, const char *fmt, ...) {
  (void)fmt;
  s[0] = 0;
  return 0;
}
#endif

static struct vp_ref_dec vp_dec;
static uint8_t vp_ref_rec[VP_REF_MAXLEN];

void
harness(void) {
  uint8_t *in = vp_input(VP_N);
  ldb_reader_t lr;
  ldb_reporter_t rep;
  ldb_buffer_t scratch;
  ldb_slice_t src, rec;
  int i, n = 0, assembled = 0;
  size_t j;

  vp_fill(in, VP_N);
#ifdef VP_FIXLEN
  /* structured variant: back-to-back physical records whose length fields are
   * the constant VP_FIXLEN (checksums, types, payloads arbitrary), so that
   * chains of three and more fragments fit into a query */
  for (j = 0; j + 7 + VP_FIXLEN <= VP_N; j += 7 + VP_FIXLEN) {
    in[j + 4] = VP_FIXLEN;
    in[j + 5] = 0;
  }
#endif

  vp_ref_dec_init(&vp_dec, in, VP_START, VP_N);

  rep.fname = NULL;
  rep.status = NULL;
  rep.info_log = NULL;
  rep.lognum = 0;
  rep.dst = NULL;
  rep.dropped_bytes = 0;
  rep.corruption = vp_corruption;

  ldb_reader_init(&lr, NULL, &rep, 1, 0);
#if VP_START > 0
  vp_reader_at(&lr, &src, in, VP_N, VP_START);
#else
  ldb_slice_set(&src, in, VP_N);
  lr.src = &src;
#endif
  ldb_buffer_init(&scratch);
  ldb_buffer_grow(&scratch, VP_SCRATCH);

  for (i = 0; i < VP_CALLS; i++) {
    size_t rlen;
    int rok = vp_ref_next(&vp_dec, vp_ref_rec, &rlen, VP_N / 7 + 4);
    int ok = ldb_reader_read_record(&lr, &rec, &scratch);

    VP_ASSERT((ok != 0) == (rok != 0), "read_record returns a record exactly when the reference does");
    if (ok && rok) {
      VP_ASSERT(rec.size == rlen, "record length == reference");
      for (j = 0; j < rec.size && j < rlen; j++)
        VP_ASSERT(rec.data[j] == vp_ref_rec[j], "record byte == reference");
      if (rec.data == scratch.data && rec.size > 0)
        assembled = 1;
      n++;
    }
    VP_ASSERT(vp_nrep == vp_dec.nrep, "reporter called exactly when the reference reports a drop");
  }

  for (i = 0; i < vp_nrep && i < vp_dec.nrep && i < VP_REF_MAXREP; i++)
    VP_ASSERT(vp_rep[i] == vp_dec.rep[i], "reported byte count == reference");
  VP_ASSERT(vp_rep_status_ok, "drops are reported as LDB_CORRUPTION");

  if (n == 0 && vp_nrep == 0)
    VP_WITNESS("nothing returned, nothing reported");
/* a physical record needs 7 bytes inside one block */
#define VP_B1 (VP_START == 0 ? VP_N : (VP_N < 32768 - VP_START ? VP_N : 32768 - VP_START))
#define VP_B2 (VP_N - VP_B1)
#if VP_B1 >= 7 || VP_B2 >= 7
  if (n > 0)
    VP_WITNESS("a record returned");
  if (vp_nrep > 0)
    VP_WITNESS("a drop reported");
#endif
#ifdef VP_FIXLEN
#define VP_CAN_ASSEMBLE (VP_START == 0 && VP_FIXLEN >= 1 && VP_N >= 2 * (7 + VP_FIXLEN))
#else
#define VP_CAN_ASSEMBLE (VP_START == 0 && VP_N >= 15)
#endif
#if VP_CAN_ASSEMBLE
  if (assembled)
    VP_WITNESS("a FIRST..LAST record assembled");
#endif

  ldb_buffer_clear(&scratch);
  ldb_reader_clear(&lr);
}
