/* C15.d -- the real log reader on ARBITRARY bytes vs the reference decoder.
 *
 * VP_N arbitrary bytes (exact-size object) are the file contents from file
 * offset VP_START on (VP_START == 0: a whole small file; VP_START == 32768-k:
 * the reader stands k bytes before the end of the first block, so the bytes
 * straddle a block boundary; readerpos.h).  Checksums are verified (abstract
 * streaming checksum, kit/vp_cksum.c).
 *
 * Asserted: ldb_reader_read_record returns exactly the records of the
 * reference decoder (logref.h) -- same count, lengths and bytes, in order --
 * and the reporter is called exactly when the reference reports a drop, with
 * the same byte counts and LDB_CORRUPTION; end of file is sticky; the reader
 * terminates within the loop bounds (unwinding failure == violation); every
 * read stays inside the VP_N bytes (CBMC bounds checks / ASan in the replay).
 */
#include "vp.h"
#include "util/types.h"
#include "util/status.h"
#include "util/slice.h"
#include "util/buffer.h"
#include "log_format.h"
#include "log_reader.h"

#ifndef VP_N
#define VP_N 16
#endif
#ifndef VP_START
#define VP_START 0
#endif
#ifndef VP_SCRATCH
#define VP_SCRATCH 64
#endif

#define VP_REF_MAXREC (VP_N / 7 + 1)
#define VP_REF_MAXLEN (VP_N + 1)
#define VP_REF_MAXREP (2 * (VP_N / 7) + 4)
#include "logref.h"
#include "readerpos.h"

static int vp_nrep = 0;
static size_t vp_rep[VP_REF_MAXREP];
static int vp_rep_status_ok = 1;

static void
vp_corruption(ldb_reporter_t *reporter, size_t bytes, int status) {
  (void)reporter;
  if (vp_nrep < VP_REF_MAXREP)
    vp_rep[vp_nrep] = bytes;
  vp_nrep++;
  if (status != LDB_CORRUPTION)
    vp_rep_status_ok = 0;
}

static struct vp_ref_out vp_ref;

void
harness(void) {
  uint8_t *in = vp_input(VP_N);
  ldb_reader_t lr;
  ldb_reporter_t rep;
  ldb_buffer_t scratch;
  ldb_slice_t src, rec;
  int i, ok, n = 0;
  size_t j;

  vp_fill(in, VP_N);

  /* ---- reference */
  vp_ref_decode(in, VP_START, VP_N, &vp_ref, VP_N / 7 + 4);

  /* ---- real reader */
  rep.fname = NULL;
  rep.status = NULL;
  rep.info_log = NULL;
  rep.lognum = 0;
  rep.dst = NULL;
  rep.dropped_bytes = 0;
  rep.corruption = vp_corruption;

  ldb_reader_init(&lr, NULL, &rep, 1, 0);
#if VP_START > 0
  vp_reader_at(&lr, &src, in, VP_N, VP_START);
#else
  ldb_slice_set(&src, in, VP_N);
  lr.src = &src;
#endif
  ldb_buffer_init(&scratch);
  ldb_buffer_grow(&scratch, VP_SCRATCH);

  for (i = 0; i < VP_REF_MAXREC + 1; i++) {
    ok = ldb_reader_read_record(&lr, &rec, &scratch);
    if (!ok)
      break;
    VP_ASSERT(n < vp_ref.nrec, "reader returns no record the reference does not");
    if (n < vp_ref.nrec && n < VP_REF_MAXREC) {
      VP_ASSERT(rec.size == vp_ref.rlen[n], "record length == reference");
      for (j = 0; j < rec.size && j < VP_REF_MAXLEN; j++)
        VP_ASSERT(rec.data[j] == vp_ref.rdata[n][j], "record byte == reference");
    }
    n++;
  }

  VP_ASSERT(!ok, "reader reaches end of file");
  VP_ASSERT(n == vp_ref.nrec, "reader returns every record of the reference");

  ok = ldb_reader_read_record(&lr, &rec, &scratch);
  VP_ASSERT(!ok, "end of file is sticky");

  VP_ASSERT(vp_nrep == vp_ref.nrep, "reporter called exactly when the reference reports a drop");
  for (i = 0; i < vp_nrep && i < vp_ref.nrep && i < VP_REF_MAXREP; i++)
    VP_ASSERT(vp_rep[i] == vp_ref.rep[i], "reported byte count == reference");
  VP_ASSERT(vp_rep_status_ok, "drops are reported as LDB_CORRUPTION");

  if (n == 0 && vp_nrep == 0)
    VP_WITNESS("nothing returned, nothing reported");
#if VP_N >= 7
  if (n > 0)
    VP_WITNESS("a record returned");
  if (vp_nrep > 0)
    VP_WITNESS("a drop reported");
#endif
#if VP_N >= 15 && VP_START == 0
  if (n == 1 && vp_ref.rlen[0] > 0 && vp_nrep == 0 && in[6] == 2)
    VP_WITNESS("a FIRST..LAST record assembled");
#endif

  ldb_buffer_clear(&scratch);
  ldb_reader_clear(&lr);
}
