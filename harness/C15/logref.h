/* logref.h -- independent reference encoder / decoder for the LevelDB log
 * format, written from leveldb/doc/log_format.md and the documented reader
 * behaviour (leveldb/db/log_reader.h), not from lcdb's code:
 *
 *   file   := block*          block := record* trailer?     (32768 bytes)
 *   record := checksum:uint32le length:uint16le type:uint8 data[length]
 *   checksum = Mask(CRC(type byte || data)),  Mask(c) = rotr(c,15)+0xa282ead8
 *   type: 1 FULL, 2 FIRST, 3 MIDDLE, 4 LAST (0 = preallocated zeroes)
 *   a record never starts in the last 6 bytes of a block: those are a
 *   zero trailer; a fragment never crosses a block.
 *
 * CRC here is the abstract streaming checksum of kit/vp_cksum.c
 * (vp_cksum_extend), which the code under test also links.
 */
#ifndef VP_LOGREF_H
#define VP_LOGREF_H

#include "vp.h"

#define VP_REF_BLK 32768ul
#define VP_REF_HDR 7ul

uint32_t vp_cksum_extend(uint32_t z, const uint8_t *xp, size_t xn);

static uint32_t
vp_ref_mask(uint32_t c) {
  return (uint32_t)((((c >> 15) | (c << 17)) + 0xa282ead8ul) & 0xfffffffful);
}

static uint32_t
vp_ref_frag_cksum(int type, const uint8_t *p, size_t n) {
  uint8_t t = (uint8_t)type;
  return vp_ref_mask(vp_cksum_extend(vp_cksum_extend(0, &t, 1), p, n));
}

/* ------------------------------------------------------------ encoder */

/* Append one logical record to the file image img (img[i] is the file byte at
 * absolute offset base + i), which currently holds *len bytes, i.e. the file
 * length is base + *len. */
static void
vp_ref_put(uint8_t *img, size_t cap, size_t base, size_t *len, const uint8_t *rec, size_t n) {
  size_t off = 0;
  int first = 1, guard;

  for (guard = 0; guard < 8; guard++) {
    size_t room = VP_REF_BLK - ((base + *len) % VP_REF_BLK);
    size_t frag, i;
    int last, type;
    uint32_t m;

    if (room < VP_REF_HDR) {
      /* zero trailer */
      for (i = 0; i < room; i++) {
        VP_ASSERT(*len < cap, "vp-model: reference image too small");
        img[(*len)++] = 0;
      }
      room = VP_REF_BLK;
    }

    frag = n - off;
    if (frag > room - VP_REF_HDR)
      frag = room - VP_REF_HDR;
    last = (off + frag == n);
    type = first ? (last ? 1 : 2) : (last ? 4 : 3);

    VP_ASSERT(*len + VP_REF_HDR + frag <= cap, "vp-model: reference image too small");

    m = vp_ref_frag_cksum(type, rec + off, frag);
    img[*len + 0] = (uint8_t)(m & 0xff);
    img[*len + 1] = (uint8_t)((m >> 8) & 0xff);
    img[*len + 2] = (uint8_t)((m >> 16) & 0xff);
    img[*len + 3] = (uint8_t)((m >> 24) & 0xff);
    img[*len + 4] = (uint8_t)(frag & 0xff);
    img[*len + 5] = (uint8_t)((frag >> 8) & 0xff);
    img[*len + 6] = (uint8_t)type;
    for (i = 0; i < frag; i++)
      img[*len + VP_REF_HDR + i] = rec[off + i];
    *len += VP_REF_HDR + frag;
    off += frag;
    first = 0;

    if (last)
      return;
  }

  VP_ASSERT(0, "vp-model: reference encoder fragment bound");
}

/* ------------------------------------------------------------ decoder */

#ifndef VP_REF_MAXLEN
#define VP_REF_MAXLEN 64
#endif
#ifndef VP_REF_MAXREP
#define VP_REF_MAXREP 8
#endif

/* Upstream LevelDB's reader (db/log_reader.cc) numbers its internal results
 * kEof = kMaxRecordType + 1 (5) and kBadRecord = kMaxRecordType + 2 (6) and
 * hands a checksum-valid physical record's type byte through unfiltered, so
 * that on crafted input a *valid* record of type 5 ends the current read
 * silently (not sticky) and one of type 6 is skipped like a bad record
 * (reported only inside a fragmented record).  lcdb inherits this
 * (log_reader.c, enum LDB_EOF/LDB_BAD_RECORD).  No writer, truncation or
 * checksum-detected alteration produces such a record.  With
 * VP_REF_TYPE_ALIAS 1 the reference follows upstream; with 0 it is strict
 * (both are "unknown record type" drops) and the d.* obligations fail on the
 * unchanged tree with the 7-byte input <valid checksum> 00 00 05. */
#ifndef VP_REF_TYPE_ALIAS
#define VP_REF_TYPE_ALIAS 1
#endif

/* reading position of the reference reader */
struct vp_ref_dec {
  const uint8_t *img0; /* img0[i] = file byte base + i */
  size_t base;         /* absolute offset of img0[0] (reader starts here, at a
                          physical record boundary, outside a logical record) */
  size_t n;            /* bytes available: the file length is base + n */
  size_t bstart;       /* absolute start of the current block */
  size_t p;            /* absolute read position */
  int nrep;
  size_t rep[VP_REF_MAXREP]; /* dropped-byte count of each report, in order */
};

static void
vp_ref_dec_init(struct vp_ref_dec *d, const uint8_t *img0, size_t base, size_t n) {
  d->img0 = img0;
  d->base = base;
  d->n = n;
  d->bstart = base - base % VP_REF_BLK;
  d->p = base;
  d->nrep = 0;
}

static void
vp_ref_report(struct vp_ref_dec *d, size_t bytes) {
  VP_ASSERT(d->nrep < VP_REF_MAXREP, "vp-model: reference report list full");
  if (d->nrep < VP_REF_MAXREP)
    d->rep[d->nrep] = bytes;
  d->nrep++;
}

/* One ReadRecord call: 1 = a logical record (copied to out[0..*outlen)),
 * 0 = end of input.  maxphys bounds the physical steps (harness loop bound). */
static int
vp_ref_next(struct vp_ref_dec *d, uint8_t *out, size_t *outlen, int maxphys) {
  const size_t len = d->base + d->n; /* file length */
  int infrag = 0;                    /* inside FIRST .. LAST (per call) */
  size_t acc = 0;                    /* bytes assembled so far */
  int step;

  *outlen = 0;

  for (step = 0; step < maxphys; step++) {
    size_t bend = d->bstart + VP_REF_BLK;
    int lastblock = 0;
    size_t plen = 0, i;
    int type = 0, good = 0, bad = 0;

    if (bend > len) {
      bend = len;
      lastblock = 1; /* a short (or empty) block read means end of file */
    }

    if (bend - d->p < VP_REF_HDR) {
      if (lastblock) {
        /* clean EOF or torn header: silent; a partial logical record is
         * dropped silently; sticky */
        d->p = bend;
        return 0;
      }
      /* block trailer: go to the next block */
      d->bstart += VP_REF_BLK;
      d->p = d->bstart;
      continue;
    }

    {
      const uint8_t *h = d->img0 + (d->p - d->base);
      plen = (size_t)h[4] | ((size_t)h[5] << 8);
      type = h[6];

      if (d->p + VP_REF_HDR + plen > bend) {
        size_t dropped = bend - d->p;
        d->p = bend;
        if (lastblock)
          return 0; /* torn payload at the end of the file: silent */
        vp_ref_report(d, dropped); /* bad record length */
        bad = 1;
      } else if (type == 0 && plen == 0) {
        bad = 1; /* preallocated zeroes: rest of the block skipped silently */
        d->p = bend;
      } else {
        uint32_t stored = (uint32_t)h[0] | ((uint32_t)h[1] << 8) |
                          ((uint32_t)h[2] << 16) | ((uint32_t)h[3] << 24);
        if (stored != vp_ref_frag_cksum(type, h + VP_REF_HDR, plen)) {
          vp_ref_report(d, bend - d->p); /* checksum mismatch: rest of the block dropped */
          bad = 1;
          d->p = bend;
        } else {
          good = 1;
          d->p += VP_REF_HDR + plen;
#if VP_REF_TYPE_ALIAS
          if (type == 5)
            return 0; /* upstream aliasing: taken for end of file, silently, not sticky */
          if (type == 6) {
            good = 0;
            bad = 1; /* upstream aliasing: taken for a bad record */
          }
#endif
        }
      }

      if (bad) {
        if (infrag) {
          vp_ref_report(d, acc); /* error in middle of record */
          infrag = 0;
          acc = 0;
        }
        continue;
      }

      if (good) {
        const uint8_t *data = h + VP_REF_HDR;

        if (type == 1 || type == 2) {
          if (infrag && acc > 0)
            vp_ref_report(d, acc); /* partial record without end */
          VP_ASSERT(plen <= VP_REF_MAXLEN, "vp-model: reference record store full");
          for (i = 0; i < plen; i++)
            out[i] = data[i];
          acc = plen;
          if (type == 1) {
            *outlen = acc;
            return 1;
          }
          infrag = 1;
        } else if (type == 3 || type == 4) {
          if (!infrag) {
            vp_ref_report(d, plen); /* missing start of fragmented record */
          } else {
            VP_ASSERT(acc + plen <= VP_REF_MAXLEN, "vp-model: reference record store full");
            for (i = 0; i < plen; i++)
              out[acc + i] = data[i];
            acc += plen;
            if (type == 4) {
              *outlen = acc;
              return 1;
            }
          }
        } else {
          /* unknown type (including type 0 with a non-zero length) */
          vp_ref_report(d, plen + (infrag ? acc : 0));
          infrag = 0;
          acc = 0;
        }
      }
    }
  }

  VP_ASSERT(0, "vp-model: reference decoder step bound");
  return 0;
}

#endif /* VP_LOGREF_H */
