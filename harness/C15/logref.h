/* logref.h -- independent reference encoder / decoder for the LevelDB log
 * format, written from leveldb/doc/log_format.md and the documented reader
 * behaviour (leveldb/db/log_reader.h), not from lcdb's code:
 *
 *   file   := block*          block := record* trailer?     (32768 bytes)
 *   record := checksum:uint32le length:uint16le type:uint8 data[length]
 *   checksum = Mask(CRC(type byte || data)),  Mask(c) = rotr(c,15)+0xa282ead8
 *   type: 1 FULL, 2 FIRST, 3 MIDDLE, 4 LAST (0 = preallocated zeroes)
 *   a record never starts in the last 6 bytes of a block: those are a
 *   zero trailer; a fragment never crosses a block.
 *
 * CRC here is the abstract streaming checksum of kit/vp_cksum.c
 * (vp_cksum_extend), which the code under test also links.
 */
#ifndef VP_LOGREF_H
#define VP_LOGREF_H

#include "vp.h"

#define VP_REF_BLK 32768ul
#define VP_REF_HDR 7ul

uint32_t vp_cksum_extend(uint32_t z, const uint8_t *xp, size_t xn);

static uint32_t
vp_ref_mask(uint32_t c) {
  return (uint32_t)((((c >> 15) | (c << 17)) + 0xa282ead8ul) & 0xfffffffful);
}

static uint32_t
vp_ref_frag_cksum(int type, const uint8_t *p, size_t n) {
  uint8_t t = (uint8_t)type;
  return vp_ref_mask(vp_cksum_extend(vp_cksum_extend(0, &t, 1), p, n));
}

/* ------------------------------------------------------------ encoder */

/* Append one logical record to the file image img (img[i] is the file byte at
 * absolute offset base + i), which currently holds *len bytes, i.e. the file
 * length is base + *len. */
static void
vp_ref_put(uint8_t *img, size_t cap, size_t base, size_t *len, const uint8_t *rec, size_t n) {
  size_t off = 0;
  int first = 1, guard;

  for (guard = 0; guard < 8; guard++) {
    size_t room = VP_REF_BLK - ((base + *len) % VP_REF_BLK);
    size_t frag, i;
    int last, type;
    uint32_t m;

    if (room < VP_REF_HDR) {
      /* zero trailer */
      for (i = 0; i < room; i++) {
        VP_ASSERT(*len < cap, "vp-model: reference image too small");
        img[(*len)++] = 0;
      }
      room = VP_REF_BLK;
    }

    frag = n - off;
    if (frag > room - VP_REF_HDR)
      frag = room - VP_REF_HDR;
    last = (off + frag == n);
    type = first ? (last ? 1 : 2) : (last ? 4 : 3);

    VP_ASSERT(*len + VP_REF_HDR + frag <= cap, "vp-model: reference image too small");

    m = vp_ref_frag_cksum(type, rec + off, frag);
    img[*len + 0] = (uint8_t)(m & 0xff);
    img[*len + 1] = (uint8_t)((m >> 8) & 0xff);
    img[*len + 2] = (uint8_t)((m >> 16) & 0xff);
    img[*len + 3] = (uint8_t)((m >> 24) & 0xff);
    img[*len + 4] = (uint8_t)(frag & 0xff);
    img[*len + 5] = (uint8_t)((frag >> 8) & 0xff);
    img[*len + 6] = (uint8_t)type;
    for (i = 0; i < frag; i++)
      img[*len + VP_REF_HDR + i] = rec[off + i];
    *len += VP_REF_HDR + frag;
    off += frag;
    first = 0;

    if (last)
      return;
  }

  VP_ASSERT(0, "vp-model: reference encoder fragment bound");
}

/* ------------------------------------------------------------ decoder */

#ifndef VP_REF_MAXREC
#define VP_REF_MAXREC 4
#endif
#ifndef VP_REF_MAXLEN
#define VP_REF_MAXLEN 64
#endif
#ifndef VP_REF_MAXREP
#define VP_REF_MAXREP 8
#endif

struct vp_ref_out {
  int nrec;
  size_t rlen[VP_REF_MAXREC];
  uint8_t rdata[VP_REF_MAXREC][VP_REF_MAXLEN];
  int nrep;
  size_t rep[VP_REF_MAXREP]; /* dropped-byte count of each report */
};

static void
vp_ref_report(struct vp_ref_out *o, size_t bytes) {
  VP_ASSERT(o->nrep < VP_REF_MAXREP, "vp-model: reference report list full");
  if (o->nrep < VP_REF_MAXREP)
    o->rep[o->nrep] = bytes;
  o->nrep++;
}

/* Decode the file bytes [base, base+n) given as img[0..n) (img[i] is the file
 * byte at absolute offset base + i; the reader is positioned at base, at a
 * physical record boundary, not inside a logical record; checksums verified).
 * Records and drop reports in the order a LevelDB reader produces them.
 * maxphys bounds the number of physical steps (harness loop bound). */
static void
vp_ref_decode(const uint8_t *img0, size_t base, size_t n, struct vp_ref_out *o, int maxphys) {
  const size_t len = base + n;              /* file length */
  size_t bstart = base - base % VP_REF_BLK; /* start of the current block */
  size_t p = base;                          /* read position (absolute) */
  int infrag = 0;    /* inside FIRST .. LAST */
  size_t acc = 0;    /* bytes assembled so far */
  int step;

  o->nrec = 0;
  o->nrep = 0;

  for (step = 0; step < maxphys; step++) {
    size_t bend = bstart + VP_REF_BLK;
    int lastblock = 0;
    size_t plen, i;
    int type, good = 0, bad = 0;

    if (bend > len) {
      bend = len;
      lastblock = 1; /* a short (or empty) block read means end of file */
    }
    if (bend - p < VP_REF_HDR) {
      if (lastblock)
        return; /* clean EOF or torn header: silent; a partial logical record is dropped silently */
      /* block trailer: go to the next block */
      bstart += VP_REF_BLK;
      p = bstart;
      continue;
    }

    {
      const uint8_t *img = img0 + (p - base);
      plen = (size_t)img[4] | ((size_t)img[5] << 8);
      type = img[6];
    }

    if (p + VP_REF_HDR + plen > bend) {
      if (lastblock)
        return; /* torn payload at the end of the file: silent */
      vp_ref_report(o, bend - p); /* bad record length */
      bad = 1;
      p = bend;
    } else if (type == 0 && plen == 0) {
      bad = 1; /* preallocated zeroes: rest of the block skipped silently */
      p = bend;
    } else {
      const uint8_t *img = img0 + (p - base);
      uint32_t stored = (uint32_t)img[0] | ((uint32_t)img[1] << 8) |
                        ((uint32_t)img[2] << 16) | ((uint32_t)img[3] << 24);
      if (stored != vp_ref_frag_cksum(type, img + VP_REF_HDR, plen)) {
        vp_ref_report(o, bend - p); /* checksum mismatch: rest of the block dropped */
        bad = 1;
        p = bend;
      } else {
        good = 1;
      }
    }

    if (bad) {
      if (infrag) {
        vp_ref_report(o, acc); /* error in middle of record */
        infrag = 0;
        acc = 0;
      }
      continue;
    }

    if (good) {
      const uint8_t *d = img0 + (p - base) + VP_REF_HDR;
      p += VP_REF_HDR + plen;

      if (type == 1 || type == 2) {
        if (infrag && acc > 0)
          vp_ref_report(o, acc); /* partial record without end */
        VP_ASSERT(o->nrec < VP_REF_MAXREC && plen <= VP_REF_MAXLEN, "vp-model: reference record store full");
        for (i = 0; i < plen; i++)
          o->rdata[o->nrec][i] = d[i];
        acc = plen;
        if (type == 1) {
          o->rlen[o->nrec++] = plen;
          infrag = 0;
          acc = 0;
        } else {
          infrag = 1;
        }
      } else if (type == 3 || type == 4) {
        if (!infrag) {
          vp_ref_report(o, plen); /* missing start of fragmented record */
        } else {
          VP_ASSERT(acc + plen <= VP_REF_MAXLEN, "vp-model: reference record store full");
          for (i = 0; i < plen; i++)
            o->rdata[o->nrec][acc + i] = d[i];
          acc += plen;
          if (type == 4) {
            o->rlen[o->nrec++] = acc;
            infrag = 0;
            acc = 0;
          }
        }
      } else {
        /* unknown type (including type 0 with a non-zero length) */
        vp_ref_report(o, plen + (infrag ? acc : 0));
        infrag = 0;
        acc = 0;
      }
    }
  }

  VP_ASSERT(0, "vp-model: reference decoder step bound");
}

#endif /* VP_LOGREF_H */
