/* C17.f -- CURRENT is switched atomically: filename.c ldb_set_current_file
 * over recording stubs of the three env calls it makes.
 *
 * For every descriptor number (VP_NUMBITS symbolic bits, > 0) and every
 * failure pattern of the env calls:
 *   - the first env call writes the temp file <db>/<number, 6 digits>.dbtmp
 *     with exactly "MANIFEST-<number, 6 digits>\n" (reference formatting in
 *     this file) and should_sync = 1;
 *   - CURRENT is only ever the target of a rename that happens after that
 *     write succeeded; it is never written or removed directly;
 *   - on any failure the temp file is removed, the error is returned and no
 *     rename follows a failed write;
 *   - on success nothing is removed and LDB_OK is returned.
 */
#include <string.h>
#include "vp.h"
#include "util/env.h"
#include "util/slice.h"
#include "util/status.h"
#include "filename.h"
#include "util/strutil.h"

#ifndef VP_MODE
#define VP_MODE 0
#endif

/* VP_NUM: the descriptor number, concrete per query (with a symbolic number
 * every C string has a symbolic length and the query does not finish); the
 * formatter itself is checked for every value of a digit class in VP_MODE 1
 * (VP_DIGITS). */
#ifndef VP_DIGITS
#define VP_DIGITS 6
#endif

#define VP_STR_MAX 48

/* one record per env call kind (each happens at most once); vp_seq orders them */
static int vp_seq = 0;
static int vp_w_n = 0, vp_w_at = -1, vp_w_sync, vp_w_rc;
static char vp_w_name[VP_STR_MAX], vp_w_data[VP_STR_MAX];
static size_t vp_w_len;
static int vp_mv_n = 0, vp_mv_at = -1, vp_mv_rc;
static char vp_mv_from[VP_STR_MAX], vp_mv_to[VP_STR_MAX];
static int vp_rm_n = 0, vp_rm_at = -1, vp_rm_rc;
static char vp_rm_name[VP_STR_MAX];

static void
vp_copy_str(char *dst, const char *src) {
  size_t i;
  for (i = 0; i + 1 < VP_STR_MAX && src[i] != 0; i++)
    dst[i] = src[i];
  VP_ASSERT(src[i] == 0, "vp-model: recorded string fits");
  dst[i] = 0;
}

static int
vp_fail_code(void) {
  /* each env call may fail with any non-zero status */
  int rc = LDB_OK;
  if (vp_bool()) {
    rc = vp_int();
    VP_ASSUME(rc != LDB_OK);
  }
  return rc;
}

int
ldb_write_file(const char *fname, const ldb_slice_t *data, int should_sync) {
  size_t i;
  vp_w_n++;
  vp_w_at = vp_seq++;
  vp_copy_str(vp_w_name, fname);
  VP_ASSERT(data->size < VP_STR_MAX, "vp-model: recorded data fits");
  for (i = 0; i + 1 < VP_STR_MAX; i++)
    vp_w_data[i] = i < data->size ? (char)data->data[i] : 0;
  vp_w_len = data->size;
  vp_w_sync = should_sync;
  vp_w_rc = vp_fail_code();
  return vp_w_rc;
}

int
ldb_rename_file(const char *from, const char *to) {
  vp_mv_n++;
  vp_mv_at = vp_seq++;
  vp_copy_str(vp_mv_from, from);
  vp_copy_str(vp_mv_to, to);
  vp_mv_rc = vp_fail_code();
  return vp_mv_rc;
}

int
ldb_remove_file(const char *fname) {
  vp_rm_n++;
  vp_rm_at = vp_seq++;
  vp_copy_str(vp_rm_name, fname);
  vp_rm_rc = vp_fail_code();
  return vp_rm_rc;
}

/* reference: decimal, zero padded to at least 6 digits */
static size_t
ref_decimal6(char *out, uint64_t x) {
  char rev[24];
  size_t n = 0, i;
  do {
    rev[n++] = (char)('0' + (int)(x % 10));
    x /= 10;
  } while (x != 0);
  while (n < 6)
    rev[n++] = '0';
  for (i = 0; i < n; i++)
    out[i] = rev[n - 1 - i];
  out[n] = 0;
  return n;
}

static size_t
ref_append(char *out, size_t pos, const char *s) {
  size_t i;
  for (i = 0; s[i] != 0; i++)
    out[pos++] = s[i];
  out[pos] = 0;
  return pos;
}

static int
ref_str_equal(const char *a, const char *b) {
  size_t i;
  for (i = 0; i < VP_STR_MAX; i++) {
    if (a[i] != b[i])
      return 0;
    if (a[i] == 0)
      return 1;
  }
  return 0;
}

#ifndef VP_DBNAME
#define VP_DBNAME "/d/b"
#endif

static uint64_t
vp_pow10(int k) {
  uint64_t r = 1;
  while (k-- > 0)
    r *= 10;
  return r;
}

/* decimal literal -> uint64 without a 64-bit constant suffix (C89) */
static uint64_t
vp_parse_u64(const char *s) {
  uint64_t v = 0;
  size_t i;
  for (i = 0; s[i] != 0; i++)
    v = v * 10 + (uint64_t)(s[i] - '0');
  return v;
}
#define VP_U64C(x) vp_parse_u64(#x)

void
harness(void) {
  static char want_tmp[VP_STR_MAX], want_cur[VP_STR_MAX], want_data[VP_STR_MAX], digits[24];
  uint64_t num;
  size_t n, dn;
  int rc, i;

#if VP_MODE == 1 || !defined(VP_NUM)
  num = vp_u64();
#else
  num = VP_NUM; /* concrete */
#endif

#if VP_MODE == 1
  { /* f.encode-int: the real formatter against the meaning of a decimal
       numeral (Horner evaluation, no division): every character a digit, the
       value equals x, zero padded to exactly max(6, minimal length), NUL
       terminated.  VP_DIGITS = length class of x, concrete per query. */
    char got[32];
    uint64_t v = 0;
    int gn;
#if VP_DIGITS < 20
    VP_ASSUME(num < vp_pow10(VP_DIGITS));
#endif
#if VP_DIGITS > 6
    VP_ASSUME(num >= vp_pow10(VP_DIGITS - 1));
#endif
    gn = ldb_encode_int(got, num, 6);
    VP_ASSERT(gn == VP_DIGITS, "ldb_encode_int length == max(6, number of decimal digits)");
    for (i = 0; i < VP_DIGITS; i++) {
      VP_ASSERT(got[i] >= '0' && got[i] <= '9', "ldb_encode_int writes decimal digits");
      v = v * 10 + (uint64_t)(got[i] - '0');
    }
    VP_ASSERT(v == num, "the numeral written by ldb_encode_int denotes x");
    VP_ASSERT(got[VP_DIGITS] == 0, "ldb_encode_int terminates the string");
    VP_WITNESS("encode-int");
    (void)rc; (void)n; (void)dn; (void)want_tmp; (void)want_cur; (void)want_data; (void)digits;
  }
#else
  VP_ASSUME(num > 0);

  rc = ldb_set_current_file(VP_DBNAME, num);

  dn = ref_decimal6(digits, num);
  (void)dn;
  n = ref_append(want_tmp, 0, VP_DBNAME);
  n = ref_append(want_tmp, n, "/");
  n = ref_append(want_tmp, n, digits);
  n = ref_append(want_tmp, n, ".dbtmp");
  n = ref_append(want_cur, 0, VP_DBNAME);
  n = ref_append(want_cur, n, "/CURRENT");
  n = ref_append(want_data, 0, "MANIFEST-");
  n = ref_append(want_data, n, digits);
  n = ref_append(want_data, n, "\n");

  VP_ASSERT(vp_w_n == 1 && vp_w_at == 0, "the first env call writes a file, and only one file is written");
  VP_ASSERT(ref_str_equal(vp_w_name, want_tmp), "the written file is the temp file <db>/<number>.dbtmp");
  VP_ASSERT(!ref_str_equal(vp_w_name, want_cur), "CURRENT is never written directly");
  VP_ASSERT(vp_w_len == n, "CURRENT content length == reference");
  VP_ASSERT(ref_str_equal(vp_w_data, want_data), "CURRENT content == MANIFEST-<number, 6 digits> newline");
  VP_ASSERT(vp_w_sync == 1, "temp file is written with should_sync = 1");
  VP_ASSERT(vp_mv_n <= 1 && vp_rm_n <= 1, "at most one rename and one remove");

  if (vp_mv_n) {
    VP_ASSERT(vp_w_rc == LDB_OK && vp_mv_at == 1, "rename only directly after the successful synced write");
    VP_ASSERT(ref_str_equal(vp_mv_from, want_tmp) && ref_str_equal(vp_mv_to, want_cur), "rename temp -> CURRENT");
  }
  if (vp_rm_n)
    VP_ASSERT(ref_str_equal(vp_rm_name, want_tmp), "only the temp file is ever removed");

  if (vp_w_rc != LDB_OK) {
    VP_ASSERT(rc == vp_w_rc, "write failure is returned");
    VP_ASSERT(vp_mv_n == 0, "no rename after a failed write");
    VP_ASSERT(vp_rm_n == 1 && vp_rm_at == 1, "failed write: temp removed");
    VP_WITNESS("write-failed");
  } else {
    VP_ASSERT(vp_mv_n == 1, "successful write is followed by the rename");
    if (vp_mv_rc != LDB_OK) {
      VP_ASSERT(rc == vp_mv_rc, "rename failure is returned");
      VP_ASSERT(vp_rm_n == 1 && vp_rm_at == 2, "failed rename: temp removed");
      VP_WITNESS("rename-failed");
    } else {
      VP_ASSERT(rc == LDB_OK, "success returns LDB_OK");
      VP_ASSERT(vp_rm_n == 0, "success: nothing is removed");
      VP_WITNESS("switched");
    }
  }
#endif
}
