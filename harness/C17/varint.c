/* C17.a -- varint32/64 + fixed32/64 codecs of util/coding.h vs an
 * independent LevelDB-format reference, for ALL 32/64-bit values, and the
 * readers on arbitrary bytes (VP_N bytes, VP_N concrete per query). */
#include "vp.h"
#include "util/coding.h"

#ifndef VP_N
#define VP_N 11
#endif

/* reference: LevelDB varint (base-128 little-endian, msb = continuation) */
static size_t
ref_varint_len(uint64_t x) {
  size_t n = 1;
  while (x >= 128) { x >>= 7; n++; }
  return n;
}

static int
ref_varint_byte(uint64_t x, size_t i, size_t len) {
  uint64_t g = (x >> (7 * i)) & 127;
  return (int)(i + 1 < len ? (g | 128) : g);
}

/* reference decoder: returns consumed bytes or 0 */
static size_t
ref_varint_decode(const uint8_t *p, size_t n, size_t maxbytes, uint64_t *out) {
  uint64_t r = 0;
  size_t i;
  for (i = 0; i < maxbytes && i < n; i++) {
    r |= (uint64_t)(p[i] & 127) << (7 * i);
    if (!(p[i] & 128)) { *out = r; return i + 1; }
  }
  return 0;
}

void
harness(void) {
#if VP_MODE == 0
  { /* varint32 write -> layout, size, read identity */
    uint32_t x = vp_u32(), y;
    uint8_t buf[5];
    uint8_t *end = ldb_varint32_write(buf, x);
    size_t len = (size_t)(end - buf), i;
    const uint8_t *xp = buf;
    size_t xn = len;
    VP_ASSERT(len == ref_varint_len(x), "varint32 length == reference");
    VP_ASSERT(len == ldb_varint32_size(x), "varint32_size == bytes written");
    for (i = 0; i < len; i++)
      VP_ASSERT(buf[i] == ref_varint_byte(x, i, len), "varint32 byte == reference");
    VP_ASSERT(ldb_varint32_read(&y, &xp, &xn) == 1, "varint32 read accepts own output");
    VP_ASSERT(y == x && xn == 0 && xp == buf + len, "varint32 round trip");
    VP_WITNESS("varint32");
  }
#elif VP_MODE == 1
  { /* varint64 */
    uint64_t x = vp_u64(), y;
    uint8_t buf[10];
    uint8_t *end = ldb_varint64_write(buf, x);
    size_t len = (size_t)(end - buf), i;
    const uint8_t *xp = buf;
    size_t xn = len;
    VP_ASSERT(len == ref_varint_len(x), "varint64 length == reference");
    VP_ASSERT(len == ldb_varint64_size(x), "varint64_size == bytes written");
    for (i = 0; i < len; i++)
      VP_ASSERT(buf[i] == ref_varint_byte(x, i, len), "varint64 byte == reference");
    VP_ASSERT(ldb_varint64_read(&y, &xp, &xn) == 1, "varint64 read accepts own output");
    VP_ASSERT(y == x && xn == 0 && xp == buf + len, "varint64 round trip");
    VP_WITNESS("varint64");
  }
#elif VP_MODE == 2
  { /* readers on arbitrary bytes */
    uint8_t *in = vp_input(VP_N);
    const uint8_t *xp = in;
    size_t xn = VP_N, c;
    uint32_t v32;
    uint64_t v64, r;
    int ok;
    vp_fill(in, VP_N);
    ok = ldb_varint32_read(&v32, &xp, &xn);
    c = ref_varint_decode(in, VP_N, 5, &r);
    VP_ASSERT(ok == (c != 0), "varint32 read accepts iff reference accepts");
    if (ok) {
      VP_ASSERT(v32 == (uint32_t)r, "varint32 read value == reference (mod 2^32)");
      VP_ASSERT(xp == in + c && xn == VP_N - c, "varint32 read consumes reference length");
    } else {
      VP_ASSERT(xn <= VP_N && xp + xn == in + VP_N, "varint32 failed read keeps slice consistent");
    }
    xp = in; xn = VP_N;
    ok = ldb_varint64_read(&v64, &xp, &xn);
    c = ref_varint_decode(in, VP_N, 10, &r);
    VP_ASSERT(ok == (c != 0), "varint64 read accepts iff reference accepts");
    if (ok) {
      VP_ASSERT(v64 == r, "varint64 read value == reference");
      VP_ASSERT(xp == in + c && xn == VP_N - c, "varint64 read consumes reference length");
    }
    VP_WITNESS("readers");
  }
#else
  { /* fixed */
    uint32_t a = vp_u32(), a2;
    uint64_t b = vp_u64(), b2;
    uint8_t buf[8];
    const uint8_t *xp;
    size_t xn;
    int i;
    ldb_fixed32_write(buf, a);
    for (i = 0; i < 4; i++)
      VP_ASSERT(buf[i] == ((a >> (8 * i)) & 255), "fixed32 little endian");
    xp = buf; xn = 4;
    VP_ASSERT(ldb_fixed32_read(&a2, &xp, &xn) && a2 == a && xn == 0, "fixed32 round trip");
    xn = 3; xp = buf;
    VP_ASSERT(!ldb_fixed32_read(&a2, &xp, &xn), "fixed32 rejects short");
    ldb_fixed64_write(buf, b);
    for (i = 0; i < 8; i++)
      VP_ASSERT(buf[i] == ((b >> (8 * i)) & 255), "fixed64 little endian");
    xp = buf; xn = 8;
    VP_ASSERT(ldb_fixed64_read(&b2, &xp, &xn) && b2 == b && xn == 0, "fixed64 round trip");
    xn = 7; xp = buf;
    VP_ASSERT(!ldb_fixed64_read(&b2, &xp, &xn), "fixed64 rejects short");
    VP_WITNESS("fixed");
  }
#endif
}
