/* C17.f -- the reader of CURRENT: version_set.c read_current_filename (static,
 * reached by including the real version_set.c) over a stub of ldb_read_file
 * that returns VP_N arbitrary bytes or any error.
 *   - the file read is <db>/CURRENT;
 *   - a read error is returned unchanged;
 *   - empty content, or content not ending in '\n', is LDB_CORRUPTION;
 *   - otherwise LDB_OK and the result is <db>/<content without the newline>
 *     (as a C string: up to the first NUL byte, if any).
 */
#include "vp.h"
#include "version_set.c"

#ifndef VP_N
#define VP_N 16
#endif
#define VP_DB "/d/b"

static uint8_t vp_content[VP_N + 1];
static int vp_read_rc;
static int vp_reads = 0;
static int vp_read_name_ok = 0;

static int
vp_streq(const char *a, const char *b) {
  size_t i;
  for (i = 0; i < 64; i++) {
    if (a[i] != b[i])
      return 0;
    if (a[i] == 0)
      return 1;
  }
  return 0;
}

int
ldb_read_file(const char *fname, ldb_buffer_t *data) {
  vp_reads++;
  vp_read_name_ok = vp_streq(fname, VP_DB "/CURRENT");
  if (vp_read_rc != LDB_OK)
    return vp_read_rc;
  ldb_buffer_set(data, vp_content, VP_N);
  return LDB_OK;
}

void
harness(void) {
  static char path[LDB_PATH_MAX];
  static char want[64];
  size_t i, k, n;
  int rc;

  vp_fill(vp_content, VP_N);
  vp_read_rc = LDB_OK;
  if (vp_bool()) {
    vp_read_rc = vp_int();
    VP_ASSUME(vp_read_rc != LDB_OK);
  }

  rc = read_current_filename(path, sizeof(path), VP_DB);

  VP_ASSERT(vp_reads == 1 && vp_read_name_ok, "exactly <db>/CURRENT is read, once");

  if (vp_read_rc != LDB_OK) {
    VP_ASSERT(rc == vp_read_rc, "read error is returned");
    VP_WITNESS("read-error");
    return;
  }

#if VP_N == 0
  VP_ASSERT(rc == LDB_CORRUPTION, "empty CURRENT is rejected as corruption");
  VP_WITNESS("empty");
#else
  if (vp_content[VP_N - 1] != '\n') {
    VP_ASSERT(rc == LDB_CORRUPTION, "CURRENT without the trailing newline is rejected as corruption");
    VP_WITNESS("no-newline");
    return;
  }

  VP_ASSERT(rc == LDB_OK, "CURRENT ending in newline is accepted");

  /* reference: <db> / <content up to newline or first NUL> */
  n = 0;
  for (i = 0; VP_DB[i] != 0; i++)
    want[n++] = VP_DB[i];
  want[n++] = '/';
  k = VP_N - 1;
  for (i = 0; i < VP_N - 1; i++) {
    if (vp_content[i] == 0 && k == VP_N - 1)
      k = i;
  }
  for (i = 0; i < VP_N - 1; i++) {
    if (i < k)
      want[n++] = (char)vp_content[i];
  }
  want[n] = 0;
  VP_ASSERT(vp_streq(path, want), "result == <db>/<name in CURRENT>");
  VP_WITNESS("accepted");
#endif
}
