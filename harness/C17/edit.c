/* C17.b / C17.c -- version_edit.c: ldb_edit_export / ldb_edit_import against
 * an independent LevelDB MANIFEST-record reference (edit_ref.h).
 *
 * A symbolic edit "o" (scalar fields present per VP_MASK / symbolic per
 * VP_SYMP, VP_NF new files, VP_ND deleted files, VP_NC compact pointers, key
 * lengths VP_KS / VP_KL, comparator name of VP_CN bytes; counts concrete per
 * query; keys symbolic; numbers and levels fully symbolic for the fields in
 * VP_FOCUS, concrete representatives of varint length class VP_ROT otherwise)
 * is used in four ways (the round trip is the composition of 0, 2 and 3):
 * VP_MODE 0 (b.export): built through the real ldb_edit_* setters, exported
 *   with ldb_edit_export; the bytes equal the reference encoder's bytes
 *   (tags 1,2,9,3,4,5,6,7 in lcdb's emission order).
 * VP_MODE 2 (b.import): ldb_edit_import of the reference encoder's bytes
 *   (== lcdb's own export bytes by mode 0) accepts and yields exactly o.
 * VP_MODE 3 (b.refdec): the independent reference decoder accepts the same
 *   bytes and yields exactly o.
 * VP_MODE 4 (b.roundtrip): export -> reference decoder and export ->
 *   ldb_edit_import in one query (concrete numbers only).
 * VP_MODE 1 (c): ldb_edit_import on VP_N arbitrary bytes (optionally first
 *   byte fixed to VP_TAG, at most VP_K fields per the reference) accepts iff
 *   the reference decoder does (level < 7, internal keys >= 8 bytes, known
 *   tags, complete fields) and then holds exactly the reference's fields.
 */
#include "vp.h"
#include "vp_vector_inc.h" /* real util/vector.c, typed item arrays */
#include "util/buffer.h"
#include "util/slice.h"
#include "util/vector.h"
#include "util/rbt.h"
#include "version_edit.h"

#ifndef VP_MODE
#define VP_MODE 0
#endif
#ifndef VP_NF
#define VP_NF 1
#endif
#ifndef VP_ND
#define VP_ND 1
#endif
#ifndef VP_NC
#define VP_NC 1
#endif
#ifndef VP_KS
#define VP_KS 8
#endif
#ifndef VP_KL
#define VP_KL 9
#endif
#ifndef VP_CN
#define VP_CN 3
#endif
#ifndef VP_N
#define VP_N 8
#endif
#ifndef VP_CNSYM
#define VP_CNSYM 0
#endif

#if VP_MODE == 1
#  ifdef VP_K
#    define VP_REF_FIELD_LIMIT VP_K
#  endif
#  define VP_REF_MAX (VP_N / 3 + 1)
#else
#  define VP_REF_MAX 3
#endif

#include "edit_ref.h"

/* the decoded/constructed lcdb edit holds exactly the reference's fields */
static void
check_edit(const ldb_edit_t *e, const ref_edit_t *r) {
  rb_iter_t it;
  size_t i, n;

  VP_ASSERT((e->has_comparator != 0) == r->has_cmp, "has_comparator == reference");
  if (r->has_cmp) {
    VP_ASSERT(ref_bytes_equal(e->comparator.data, e->comparator.size, r->cmp, r->cmplen),
              "comparator name == reference");
  }
  VP_ASSERT((e->has_log_number != 0) == r->has_log, "has_log_number == reference");
  VP_ASSERT(!r->has_log || e->log_number == r->log, "log_number == reference");
  VP_ASSERT((e->has_prev_log_number != 0) == r->has_prev, "has_prev_log_number == reference");
  VP_ASSERT(!r->has_prev || e->prev_log_number == r->prev, "prev_log_number == reference");
  VP_ASSERT((e->has_next_file_number != 0) == r->has_next, "has_next_file_number == reference");
  VP_ASSERT(!r->has_next || e->next_file_number == r->next, "next_file_number == reference");
  VP_ASSERT((e->has_last_sequence != 0) == r->has_seq, "has_last_sequence == reference");
  VP_ASSERT(!r->has_seq || e->last_sequence == r->seq, "last_sequence == reference");

  VP_ASSERT(e->compact_pointers.length == r->ncp, "compact pointer count == reference");
  for (i = 0; i < r->ncp && i < e->compact_pointers.length; i++) {
    const ikey_entry_t *c = e->compact_pointers.items[i];
    VP_ASSERT(c->level >= 0 && (uint32_t)c->level == r->cp[i].level, "compact pointer level == reference");
    VP_ASSERT(ref_bytes_equal(c->key.data, c->key.size, r->cp[i].key, r->cp[i].klen),
              "compact pointer key == reference");
  }

  VP_ASSERT(e->new_files.length == r->nnf, "new file count == reference");
  for (i = 0; i < r->nnf && i < e->new_files.length; i++) {
    const meta_entry_t *m = e->new_files.items[i];
    VP_ASSERT(m->level >= 0 && (uint32_t)m->level == r->nf[i].level, "new file level == reference");
    VP_ASSERT(m->meta.number == r->nf[i].number, "new file number == reference");
    VP_ASSERT(m->meta.file_size == r->nf[i].size, "new file size == reference");
    VP_ASSERT(ref_bytes_equal(m->meta.smallest.data, m->meta.smallest.size, r->nf[i].sk, r->nf[i].sklen),
              "new file smallest == reference");
    VP_ASSERT(ref_bytes_equal(m->meta.largest.data, m->meta.largest.size, r->nf[i].lk, r->nf[i].lklen),
              "new file largest == reference");
  }

  /* deleted files: in-order walk of the set == canonical reference list */
  VP_ASSERT(e->deleted_files.size == r->ndel, "deleted file count == reference");
  n = 0;
  rb_set_each(&e->deleted_files, it) {
    const file_entry_t *d = rb_key_ptr(it);
    VP_ASSERT(n < r->ndel, "deleted file walk not longer than reference");
    if (n < r->ndel) {
      VP_ASSERT(d->level >= 0 && (uint32_t)d->level == r->del[n].level, "deleted file level == reference");
      VP_ASSERT(d->number == r->del[n].number, "deleted file number == reference");
    }
    n++;
  }
  VP_ASSERT(n == r->ndel, "deleted file walk length == reference");
}

#if VP_MODE != 1

#ifndef VP_OUTCAP
#define VP_OUTCAP 256
#endif

/* exported bytes == reference bytes (loop bound: unwindset vp_expect_bytes.0) */
static void
vp_expect_bytes(const uint8_t *got, size_t gn, const uint8_t *want, size_t wn) {
  size_t i;
  VP_ASSERT(gn == wn, "exported length == reference encoder");
  for (i = 0; i < VP_OUTCAP; i++) {
    if (i < wn && i < gn)
      VP_ASSERT(got[i] == want[i], "exported byte == reference encoder");
  }
}

/* Numbers and levels.  Every varint-encoded field has an index:
 *   0 log, 1 prev log, 2 next file, 3 last sequence, 4..5 deleted-file
 *   numbers, 6+2i / 7+2i number / size of new file i, 10 compact-pointer
 *   level, 11..12 deleted-file levels, 13..14 new-file levels.
 * Fields whose bit is set in VP_FOCUS are fully symbolic (all 64-bit values /
 * all levels 0..6); the others take a concrete representative whose varint
 * length is 1 + (3 * index + VP_ROT) % 10 (level: (index + VP_ROT) % 7), so
 * that the record offsets stay concrete for the symbolic executor except
 * behind a focused field.  (All numbers symbolic at once did not finish: the
 * solver has to split over every combination of varint lengths.)  Over the
 * generated queries every field is focused, and takes representatives of all
 * ten length classes. */
#ifndef VP_ROT
#define VP_ROT 0
#endif
#ifndef VP_FOCUS
#define VP_FOCUS 0
#endif
/* presence of the five scalar fields: bit 0 comparator, 1 log, 2 prev log,
 * 3 next file, 4 last sequence; concrete from VP_MASK unless the bit is set in
 * VP_SYMP (then symbolic) */
#ifndef VP_MASK
#define VP_MASK 31
#endif
#ifndef VP_SYMP
#define VP_SYMP 0
#endif
#define VP_PRESENT(bit) (((VP_SYMP >> (bit)) & 1) ? vp_bool() : ((VP_MASK >> (bit)) & 1))

#define VP_U64(hi, lo) (((uint64_t)(hi) << 32) | (uint64_t)(lo))

static uint64_t
rep_num(int len) {
  switch (len) {
    case 1: return 0x5b;
    case 2: return 0x2a5b;
    case 3: return 0x1f2a5b;
    case 4: return 0xabcdef1;
    case 5: return VP_U64(0x7, 0x12345678u);
    case 6: return VP_U64(0x3ab, 0x12345678u);
    case 7: return VP_U64(0x1fedc, 0xba987654u);
    case 8: return VP_U64(0xabcdef, 0x01234567u);
    case 9: return VP_U64(0x7edcba98u, 0x76543210u);
    default: return VP_U64(0xfedcba98u, 0x76543210u);
  }
}

static uint64_t
sym_num(int idx) {
  if ((VP_FOCUS >> idx) & 1)
    return vp_u64();
  return rep_num(1 + (idx * 3 + VP_ROT) % 10);
}

static uint32_t
sym_level(int idx) {
  if ((VP_FOCUS >> idx) & 1) {
    uint32_t level = vp_u8();
    VP_ASSUME(level < 7);
    return level;
  }
  return (uint32_t)((idx + VP_ROT) % 7);
}

static uint8_t vp_cpk[VP_NC + 1][VP_KL + 1];
static uint8_t vp_sk[VP_NF + 1][VP_KS + 1];
static uint8_t vp_lk[VP_NF + 1][VP_KL + 1];
static char vp_name[VP_CN + 1];
static uint8_t vp_refbuf[VP_OUTCAP];

/* the original edit, described as a reference edit */
static void
sym_original(ref_edit_t *o) {
  size_t i;

  ref_edit_init(o);
  o->wide = VP_FOCUS;
  o->has_cmp = VP_PRESENT(0);
  for (i = 0; i < VP_CN; i++) {
#if VP_CNSYM
    /* arbitrary name bytes, installed directly into edit->comparator */
    vp_name[i] = (char)vp_u8();
#else
    /* a concrete C string through ldb_edit_set_comparator_name (strlen of a
       symbolic string would make every later offset symbolic) */
    vp_name[i] = "leveldb.BytewiseComparator"[i % 26];
#endif
  }
  vp_name[VP_CN] = 0;
  o->cmp = (const uint8_t *)vp_name;
  o->cmplen = VP_CN;
  o->has_log = VP_PRESENT(1);
  o->log = sym_num(0);
  o->has_prev = VP_PRESENT(2);
  o->prev = sym_num(1);
  o->has_next = VP_PRESENT(3);
  o->next = sym_num(2);
  o->has_seq = VP_PRESENT(4);
  o->seq = sym_num(3);
  o->ncp = VP_NC;
  for (i = 0; i < VP_NC; i++) {
    o->cp[i].level = sym_level(10 + (int)i);
    vp_fill(vp_cpk[i], VP_KL);
    o->cp[i].key = vp_cpk[i];
    o->cp[i].klen = VP_KL;
  }
  o->ndel = VP_ND;
  for (i = 0; i < VP_ND; i++) {
    o->del[i].level = sym_level(11 + (int)i);
    o->del[i].number = sym_num(4 + (int)i);
  }
  o->nnf = VP_NF;
  for (i = 0; i < VP_NF; i++) {
    o->nf[i].level = sym_level(13 + (int)i);
    o->nf[i].number = sym_num(6 + 2 * (int)i);
    o->nf[i].size = sym_num(7 + 2 * (int)i);
    vp_fill(vp_sk[i], VP_KS);
    vp_fill(vp_lk[i], VP_KL);
    o->nf[i].sk = vp_sk[i];
    o->nf[i].sklen = VP_KS;
    o->nf[i].lk = vp_lk[i];
    o->nf[i].lklen = VP_KL;
  }
}

/* build it through the real API */
static void
build_edit(ldb_edit_t *e, const ref_edit_t *o) {
  ldb_slice_t k1, k2;
  size_t i;

  ldb_edit_init(e);
  if (o->has_cmp) {
#if VP_CNSYM
    ldb_buffer_set(&e->comparator, (const uint8_t *)vp_name, VP_CN);
    e->has_comparator = 1;
#else
    ldb_edit_set_comparator_name(e, vp_name);
#endif
  }
  if (o->has_log)
    ldb_edit_set_log_number(e, o->log);
  if (o->has_prev)
    ldb_edit_set_prev_log_number(e, o->prev);
  if (o->has_next)
    ldb_edit_set_next_file(e, o->next);
  if (o->has_seq)
    ldb_edit_set_last_sequence(e, o->seq);
  for (i = 0; i < VP_NC; i++) {
    k1.data = vp_cpk[i]; k1.size = VP_KL; k1.alloc = 0;
    ldb_edit_set_compact_pointer(e, (int)o->cp[i].level, &k1);
  }
  for (i = 0; i < VP_ND; i++)
    ldb_edit_remove_file(e, (int)o->del[i].level, o->del[i].number);
  for (i = 0; i < VP_NF; i++) {
    k1.data = vp_sk[i]; k1.size = VP_KS; k1.alloc = 0;
    k2.data = vp_lk[i]; k2.size = VP_KL; k2.alloc = 0;
    ldb_edit_add_file(e, (int)o->nf[i].level, o->nf[i].number, o->nf[i].size, &k1, &k2);
  }
}

void
harness(void) {
  ref_edit_t o;
  size_t rn;

  sym_original(&o);

#if VP_MODE == 0 || VP_MODE == 4
  { /* export: bytes == reference encoder (MODE 4: and decode them directly) */
    ldb_edit_t e;
    ldb_buffer_t dst;

    build_edit(&e, &o);
    /* the deleted files are a set: canonical order, duplicates collapse */
    ref_canon_del(&o);
    check_edit(&e, &o);

    ldb_buffer_init(&dst);
    ldb_edit_export(&dst, &e);
    rn = ref_encode(&o, vp_refbuf);
    VP_ASSERT(rn <= VP_OUTCAP, "vp-model: reference buffer large enough");
    VP_ASSERT(dst.size <= dst.alloc, "exported size within allocation");
    vp_expect_bytes(dst.data, dst.size, vp_refbuf, rn);
#if VP_MODE == 4
    {
      ref_edit_t d;
      ldb_edit_t e2;
      ldb_slice_t src;
      int ok = ref_decode(dst.data, dst.size, &d);
      VP_ASSERT(ok == 1, "reference decoder accepts exported record");
      VP_ASSERT(!d.overflow, "vp-model: reference decoder capacity");
      ref_canon_del(&d);
      VP_ASSERT(ref_edit_equal(&d, &o), "reference decoder recovers the original fields");
      ldb_edit_init(&e2);
      src.data = dst.data; src.size = dst.size; src.alloc = 0;
      ok = ldb_edit_import(&e2, &src);
      VP_ASSERT(ok == 1, "ldb_edit_import accepts exported record");
      check_edit(&e2, &o);
      ldb_edit_clear(&e2);
    }
#endif
    VP_WITNESS("exported");
    ldb_edit_clear(&e);
    ldb_buffer_clear(&dst);
  }
#elif VP_MODE == 2
  { /* import of the reference encoder's bytes (== lcdb's export bytes by MODE 0) */
    ldb_edit_t e2;
    ldb_slice_t src;
    int ok;

    ref_canon_del(&o);
    rn = ref_encode(&o, vp_refbuf);
    VP_ASSERT(rn <= VP_OUTCAP, "vp-model: reference buffer large enough");
    ldb_edit_init(&e2);
    src.data = vp_refbuf; src.size = rn; src.alloc = 0;
    ok = ldb_edit_import(&e2, &src);
    VP_ASSERT(ok == 1, "ldb_edit_import accepts the standard record");
    check_edit(&e2, &o);
    VP_WITNESS("imported");
    ldb_edit_clear(&e2);
  }
#else
  { /* VP_MODE 3: reference decoder accepts the (shared) bytes with the same fields */
    ref_edit_t d;
    int ok;

    ref_canon_del(&o);
    rn = ref_encode(&o, vp_refbuf);
    VP_ASSERT(rn <= VP_OUTCAP, "vp-model: reference buffer large enough");
    ok = ref_decode(vp_refbuf, rn, &d);
    VP_ASSERT(ok == 1, "reference decoder accepts the record");
    VP_ASSERT(!d.overflow, "vp-model: reference decoder capacity");
    ref_canon_del(&d);
    VP_ASSERT(ref_edit_equal(&d, &o), "reference decoder recovers the original fields");
    VP_WITNESS("ref-decoded");
  }
#endif
}

#else /* VP_MODE == 1 */

void
harness(void) {
  uint8_t *in = vp_input(VP_N);
  ref_edit_t r;
  ldb_edit_t e;
  ldb_slice_t src;
  int ok, rok;

  vp_fill(in, VP_N);
#ifdef VP_TAG
  VP_ASSUME(VP_N > 0 && in[0] == VP_TAG);
#endif

  rok = ref_decode(in, VP_N, &r);
  VP_ASSERT(!r.overflow, "vp-model: reference decoder capacity");
#ifdef VP_K
  /* inputs that the reference splits into at most VP_K fields (the malformed
     last one included); lcdb's loop bound is VP_K iterations as well, so a
     disagreement about the number of fields is reported, not cut off */
  VP_ASSUME(!r.toomany);
#endif

  ldb_edit_init(&e);
  src.data = in; src.size = VP_N; src.alloc = 0;
  ok = ldb_edit_import(&e, &src);

  VP_ASSERT((ok != 0) == (rok != 0), "ldb_edit_import accepts iff the reference decoder accepts");
  VP_ASSERT(ok == 0 || ok == 1, "ldb_edit_import returns 0 or 1");

  if (ok) {
    ref_canon_del(&r);
    check_edit(&e, &r);
#if VP_N == 0 || VP_N >= 2
    VP_WITNESS("accepted");
#endif
    /* the interesting record kind is reachable at this size */
#if defined(VP_WANT) && VP_WANT == 7
    if (r.nnf > 0)
      VP_WITNESS("accepted-new-file");
#elif defined(VP_WANT) && VP_WANT == 5
    if (r.ncp > 0)
      VP_WITNESS("accepted-compact-pointer");
#elif defined(VP_WANT) && VP_WANT == 6
    if (r.ndel > 1)
      VP_WITNESS("accepted-two-deleted");
#elif defined(VP_WANT) && VP_WANT == 1
    if (r.has_cmp)
      VP_WITNESS("accepted-comparator");
#endif
  } else {
#if VP_N > 0
    VP_WITNESS("rejected");
#endif
  }

  ldb_edit_clear(&e);
}

#endif
