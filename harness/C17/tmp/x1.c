#include "vp.h"
#include "vp_vector_inc.h"
#include "util/buffer.h"
#include "util/slice.h"
#include "version_edit.h"
void harness(void) {
  ldb_edit_t e;
  ldb_buffer_t dst;
  ldb_edit_init(&e);
#if VP_X >= 1
  if (vp_bool()) ldb_edit_set_log_number(&e, vp_u64());
#endif
#if VP_X >= 2
  if (vp_bool()) ldb_edit_set_prev_log_number(&e, vp_u64());
#endif
#if VP_X >= 3
  if (vp_bool()) ldb_edit_set_next_file(&e, vp_u64());
#endif
#if VP_X >= 4
  if (vp_bool()) ldb_edit_set_last_sequence(&e, vp_u64());
#endif
  ldb_buffer_init(&dst);
#ifdef VP_PRE
  ldb_buffer_grow(&dst, 64);
#endif
  ldb_edit_export(&dst, &e);
  VP_ASSERT(dst.size <= 44, "size");
  VP_ASSERT(dst.size == 0 || dst.data[0] <= 9, "tag");
  VP_WITNESS("x");
}
