/* edit_ref.h -- independent reference for the LevelDB MANIFEST record
 * (VersionEdit) layout, written from the format description, not from
 * lcdb's version_edit.c:
 *
 *   record  := field*
 *   field   := varint32 tag, payload
 *     1 comparator      : length-prefixed bytes (varint32 length)
 *     2 log number      : varint64
 *     9 prev log number : varint64
 *     3 next file number: varint64
 *     4 last sequence   : varint64
 *     5 compact pointer : varint32 level, length-prefixed internal key
 *     6 deleted file    : varint32 level, varint64 number
 *     7 new file        : varint32 level, varint64 number, varint64 size,
 *                         length-prefixed smallest, length-prefixed largest
 *   level < 7; an internal key is user key + 8 byte trailer (>= 8 bytes);
 *   scalar fields: the last occurrence wins; deleted files form a set
 *   ordered by (level, number); compact pointers and new files keep order.
 *
 * Used by C17 (edit.c) and C14 (replay.c).
 */
#ifndef VP_EDIT_REF_H
#define VP_EDIT_REF_H

#include <stddef.h>
#include <stdint.h>

#ifndef VP_REF_MAX
#define VP_REF_MAX 6
#endif

typedef struct ref_cp_s {
  uint32_t level;
  const uint8_t *key;
  size_t klen;
} ref_cp_t;

typedef struct ref_del_s {
  uint32_t level;
  uint64_t number;
} ref_del_t;

typedef struct ref_nf_s {
  uint32_t level;
  uint64_t number;
  uint64_t size;
  const uint8_t *sk;
  size_t sklen;
  const uint8_t *lk;
  size_t lklen;
} ref_nf_t;

typedef struct ref_edit_s {
  int has_cmp;
  const uint8_t *cmp;
  size_t cmplen;
  int has_log, has_prev, has_next, has_seq;
  uint64_t log, prev, next, seq;
  size_t ncp, ndel, nnf;
  ref_cp_t cp[VP_REF_MAX];
  ref_del_t del[VP_REF_MAX];
  ref_nf_t nf[VP_REF_MAX];
  int overflow; /* more entries than VP_REF_MAX: harness bound too small */
  int toomany;    /* decoder: stopped at VP_REF_FIELD_LIMIT fields */
  size_t nfields; /* decoder: number of fields started (including a malformed last one) */
  uint32_t wide; /* encoder hint: fields (by index, see ref_encode) of non-constant varint length */
} ref_edit_t;

static void
ref_edit_init(ref_edit_t *r) {
  r->has_cmp = 0;
  r->cmp = NULL;
  r->cmplen = 0;
  r->has_log = r->has_prev = r->has_next = r->has_seq = 0;
  r->log = r->prev = r->next = r->seq = 0;
  r->ncp = r->ndel = r->nnf = 0;
  r->overflow = 0;
  r->wide = 0;
  r->nfields = 0;
  r->toomany = 0;
}

/*
 * Encoder
 *
 * Written so that CBMC's symbolic executor keeps every byte in front of a
 * symbolic-length field at a concrete array index: the write position is
 * tracked as a concrete lower bound `lo` plus a bounded symbolic excess
 * (pos - lo <= slack), and a byte at a symbolic position is stored through
 * guarded writes to the concrete indices lo .. lo + slack only.  (A plain
 * out[pos] = b with symbolic pos turns every element of the array into a
 * symbolic expression, and a decoder reading the record then fans out over
 * all eight tags at every field.)  A field whose bit is set in r->wide is
 * treated as having any varint length; all others must have a length that
 * folds to a constant (concrete value).
 */

typedef struct ref_out_s {
  uint8_t *out;
  size_t pos;   /* actual position (symbolic behind a wide field) */
  size_t lo;    /* concrete lower bound of pos */
  size_t slack; /* concrete bound of pos - lo */
} ref_out_t;

static void
ref_put_byte(ref_out_t *w, size_t off, int enable, uint8_t b) {
  /* out[pos + off] = b, if enable */
  size_t d;
  for (d = 0; d <= w->slack; d++) {
    if (enable && w->pos == w->lo + d)
      w->out[w->lo + d + off] = b;
  }
}

static size_t
ref_varint_length(uint64_t x) {
  size_t n = 1;
  while (x >= 128) {
    x >>= 7;
    n++;
  }
  return n;
}

static void
ref_put_varint(ref_out_t *w, uint64_t x, int wide, size_t maxlen) {
  size_t len = ref_varint_length(x);
  size_t j;

  for (j = 0; j < maxlen; j++) {
    uint64_t g = (x >> (7 * j)) & 127;
    ref_put_byte(w, j, j < len, (uint8_t)(j + 1 < len ? (g | 128) : g));
  }

  w->pos += len;

  if (wide) {
    w->lo += 1;
    w->slack += maxlen - 1;
  } else {
    w->lo += len; /* folds to a constant for a concrete x */
  }
}

static void
ref_put_bytes(ref_out_t *w, const uint8_t *p, size_t n) {
  size_t i;
  ref_put_varint(w, n, 0, 5);
  for (i = 0; i < n; i++)
    ref_put_byte(w, i, 1, p[i]);
  w->pos += n;
  w->lo += n;
}

#define VP_WIDE(r, idx) ((int)(((r)->wide >> (idx)) & 1))

/* The deleted-file list of *r must be canonical (ref_canon_del). */
static size_t
ref_encode(const ref_edit_t *r, uint8_t *out) {
  ref_out_t w;
  size_t i;

  w.out = out;
  w.pos = 0;
  w.lo = 0;
  w.slack = 0;

  if (r->has_cmp) {
    ref_put_varint(&w, 1, 0, 5);
    ref_put_bytes(&w, r->cmp, r->cmplen);
  }
  if (r->has_log) {
    ref_put_varint(&w, 2, 0, 5);
    ref_put_varint(&w, r->log, VP_WIDE(r, 0), 10);
  }
  if (r->has_prev) {
    ref_put_varint(&w, 9, 0, 5);
    ref_put_varint(&w, r->prev, VP_WIDE(r, 1), 10);
  }
  if (r->has_next) {
    ref_put_varint(&w, 3, 0, 5);
    ref_put_varint(&w, r->next, VP_WIDE(r, 2), 10);
  }
  if (r->has_seq) {
    ref_put_varint(&w, 4, 0, 5);
    ref_put_varint(&w, r->seq, VP_WIDE(r, 3), 10);
  }
  for (i = 0; i < r->ncp; i++) {
    ref_put_varint(&w, 5, 0, 5);
    ref_put_varint(&w, r->cp[i].level, VP_WIDE(r, 10 + i), 5);
    ref_put_bytes(&w, r->cp[i].key, r->cp[i].klen);
  }
  for (i = 0; i < r->ndel; i++) {
    ref_put_varint(&w, 6, 0, 5);
    ref_put_varint(&w, r->del[i].level, VP_WIDE(r, 11 + i), 5);
    ref_put_varint(&w, r->del[i].number, VP_WIDE(r, 4 + i), 10);
  }
  for (i = 0; i < r->nnf; i++) {
    ref_put_varint(&w, 7, 0, 5);
    ref_put_varint(&w, r->nf[i].level, VP_WIDE(r, 13 + i), 5);
    ref_put_varint(&w, r->nf[i].number, VP_WIDE(r, 6 + 2 * i), 10);
    ref_put_varint(&w, r->nf[i].size, VP_WIDE(r, 7 + 2 * i), 10);
    ref_put_bytes(&w, r->nf[i].sk, r->nf[i].sklen);
    ref_put_bytes(&w, r->nf[i].lk, r->nf[i].lklen);
  }
  return w.pos;
}

/*
 * Decoder
 */

typedef struct ref_in_s {
  const uint8_t *p;
  size_t n;
  size_t pos;
} ref_in_t;

/* LevelDB GetVarint64/GetVarint32: at most maxbytes bytes, value taken
   modulo 2^64 (2^32 by the caller). */
static int
ref_get_varint(ref_in_t *in, size_t maxbytes, uint64_t *out) {
  uint64_t r = 0;
  size_t i;
  for (i = 0; i < maxbytes && in->pos < in->n; i++) {
    uint8_t b = in->p[in->pos++];
    r |= (uint64_t)(b & 127) << (7 * i);
    if (!(b & 128)) {
      *out = r;
      return 1;
    }
  }
  return 0;
}

static int
ref_get_varint32(ref_in_t *in, uint32_t *out) {
  uint64_t v;
  if (!ref_get_varint(in, 5, &v))
    return 0;
  *out = (uint32_t)v;
  return 1;
}

static int
ref_get_bytes(ref_in_t *in, const uint8_t **p, size_t *n) {
  uint32_t len;
  if (!ref_get_varint32(in, &len))
    return 0;
  if (in->n - in->pos < len)
    return 0;
  *p = in->p + in->pos;
  *n = len;
  in->pos += len;
  return 1;
}

static int
ref_get_level(ref_in_t *in, uint32_t *level) {
  if (!ref_get_varint32(in, level))
    return 0;
  return *level < 7;
}

/* 1 = well-formed record, 0 = malformed */
static int
ref_decode(const uint8_t *p, size_t n, ref_edit_t *r) {
  ref_in_t in;
  uint32_t tag;

  in.p = p;
  in.n = n;
  in.pos = 0;

  ref_edit_init(r);

  while (in.pos < in.n) {
#ifdef VP_REF_FIELD_LIMIT
    /* the harness only considers inputs of at most VP_REF_FIELD_LIMIT fields */
    if (r->nfields >= VP_REF_FIELD_LIMIT) {
      r->toomany = 1;
      return 0;
    }
#endif
    r->nfields++;

    if (!ref_get_varint32(&in, &tag))
      return 0;

    if (tag == 1) {
      if (!ref_get_bytes(&in, &r->cmp, &r->cmplen))
        return 0;
      r->has_cmp = 1;
    } else if (tag == 2) {
      if (!ref_get_varint(&in, 10, &r->log))
        return 0;
      r->has_log = 1;
    } else if (tag == 9) {
      if (!ref_get_varint(&in, 10, &r->prev))
        return 0;
      r->has_prev = 1;
    } else if (tag == 3) {
      if (!ref_get_varint(&in, 10, &r->next))
        return 0;
      r->has_next = 1;
    } else if (tag == 4) {
      if (!ref_get_varint(&in, 10, &r->seq))
        return 0;
      r->has_seq = 1;
    } else if (tag == 5) {
      ref_cp_t c;
      if (!ref_get_level(&in, &c.level))
        return 0;
      if (!ref_get_bytes(&in, &c.key, &c.klen))
        return 0;
      if (c.klen < 8)
        return 0;
      if (r->ncp < VP_REF_MAX)
        r->cp[r->ncp++] = c;
      else
        r->overflow = 1;
    } else if (tag == 6) {
      ref_del_t d;
      if (!ref_get_level(&in, &d.level))
        return 0;
      if (!ref_get_varint(&in, 10, &d.number))
        return 0;
      if (r->ndel < VP_REF_MAX)
        r->del[r->ndel++] = d;
      else
        r->overflow = 1;
    } else if (tag == 7) {
      ref_nf_t f;
      if (!ref_get_level(&in, &f.level))
        return 0;
      if (!ref_get_varint(&in, 10, &f.number))
        return 0;
      if (!ref_get_varint(&in, 10, &f.size))
        return 0;
      if (!ref_get_bytes(&in, &f.sk, &f.sklen))
        return 0;
      if (!ref_get_bytes(&in, &f.lk, &f.lklen))
        return 0;
      if (f.sklen < 8 || f.lklen < 8)
        return 0;
      if (r->nnf < VP_REF_MAX)
        r->nf[r->nnf++] = f;
      else
        r->overflow = 1;
    } else {
      return 0;
    }
  }

  return 1;
}

/* Deleted files are a set ordered by (level, number). */
static int
ref_del_less(const ref_del_t *a, const ref_del_t *b) {
  if (a->level != b->level)
    return a->level < b->level;
  return a->number < b->number;
}

static void
ref_canon_del(ref_edit_t *r) {
  ref_del_t out[VP_REF_MAX];
  size_t n = 0, i, j, k;

  for (i = 0; i < r->ndel; i++) {
    ref_del_t d = r->del[i];
    int dup = 0;

    for (j = 0; j < n; j++) {
      if (out[j].level == d.level && out[j].number == d.number)
        dup = 1;
    }

    if (dup)
      continue;

    j = 0;
    while (j < n && ref_del_less(&out[j], &d))
      j++;

    for (k = n; k > j; k--)
      out[k] = out[k - 1];

    out[j] = d;
    n++;
  }

  for (i = 0; i < n; i++)
    r->del[i] = out[i];

  r->ndel = n;
}

static int
ref_bytes_equal(const uint8_t *a, size_t an, const uint8_t *b, size_t bn) {
  size_t i;
  if (an != bn)
    return 0;
  for (i = 0; i < an; i++) {
    if (a[i] != b[i])
      return 0;
  }
  return 1;
}

/* structural equality of two reference edits (deleted lists canonical) */
static int
ref_edit_equal(const ref_edit_t *a, const ref_edit_t *b) {
  size_t i;

  if (a->has_cmp != b->has_cmp)
    return 0;
  if (a->has_cmp && !ref_bytes_equal(a->cmp, a->cmplen, b->cmp, b->cmplen))
    return 0;
  if (a->has_log != b->has_log || (a->has_log && a->log != b->log))
    return 0;
  if (a->has_prev != b->has_prev || (a->has_prev && a->prev != b->prev))
    return 0;
  if (a->has_next != b->has_next || (a->has_next && a->next != b->next))
    return 0;
  if (a->has_seq != b->has_seq || (a->has_seq && a->seq != b->seq))
    return 0;
  if (a->ncp != b->ncp || a->ndel != b->ndel || a->nnf != b->nnf)
    return 0;
  for (i = 0; i < a->ncp; i++) {
    if (a->cp[i].level != b->cp[i].level)
      return 0;
    if (!ref_bytes_equal(a->cp[i].key, a->cp[i].klen, b->cp[i].key, b->cp[i].klen))
      return 0;
  }
  for (i = 0; i < a->ndel; i++) {
    if (a->del[i].level != b->del[i].level || a->del[i].number != b->del[i].number)
      return 0;
  }
  for (i = 0; i < a->nnf; i++) {
    if (a->nf[i].level != b->nf[i].level || a->nf[i].number != b->nf[i].number ||
        a->nf[i].size != b->nf[i].size)
      return 0;
    if (!ref_bytes_equal(a->nf[i].sk, a->nf[i].sklen, b->nf[i].sk, b->nf[i].sklen))
      return 0;
    if (!ref_bytes_equal(a->nf[i].lk, a->nf[i].lklen, b->nf[i].lk, b->nf[i].lklen))
      return 0;
  }
  return 1;
}

#endif /* VP_EDIT_REF_H */
