/* C17.f -- util/env.c ldb_write_file (the primitive under CURRENT):
 *   create -> append(all data) -> sync iff should_sync -> close, destroy;
 *   any failure after the create => the file is removed and the first error
 *   is returned; the sync precedes the close; nothing touches the file handle
 *   after destroy.
 * The real util/env.c is linked; the six env_unix_impl.h primitives below
 * ldb_write_file are redirected (goto-instrument --replace-calls) to the
 * recording stubs in this file, each of which may fail with any code.
 * No native replay (the redirection exists only in the goto binary).
 */
#include "vp.h"
#include "util/env.h"
#include "util/slice.h"
#include "util/status.h"

enum { VP_CREATE = 1, VP_APPEND, VP_SYNC, VP_CLOSE, VP_DESTROY, VP_REMOVE };

#define VP_EV_MAX 8
static int vp_kind[VP_EV_MAX];
static int vp_rc[VP_EV_MAX];
static int vp_n = 0;

static const char vp_fname[] = "/d/b/000005.dbtmp";
static long vp_handle_obj; /* stands for the opaque ldb_wfile_t */
static uint8_t vp_data[4];
static ldb_slice_t vp_slice;

static int
vp_event(int kind, int can_fail) {
  int rc = LDB_OK;
  VP_ASSERT(vp_n < VP_EV_MAX, "vp-model: event log large enough");
  if (can_fail && vp_bool()) {
    rc = vp_int();
    VP_ASSUME(rc != LDB_OK);
  }
  vp_kind[vp_n] = kind;
  vp_rc[vp_n] = rc;
  vp_n++;
  return rc;
}

int
vp_truncfile_create0(const char *filename, ldb_wfile_t **file) {
  int rc;
  VP_ASSERT(filename == vp_fname, "create uses the given file name");
  rc = vp_event(VP_CREATE, 1);
  if (rc == LDB_OK)
    *file = (ldb_wfile_t *)&vp_handle_obj;
  return rc;
}

int
vp_wfile_append0(ldb_wfile_t *file, const ldb_slice_t *data) {
  VP_ASSERT(file == (ldb_wfile_t *)&vp_handle_obj, "append uses the created handle");
  VP_ASSERT(data->data == vp_data && data->size == sizeof(vp_data), "append writes exactly the given data");
  return vp_event(VP_APPEND, 1);
}

int
vp_wfile_sync0(ldb_wfile_t *file) {
  VP_ASSERT(file == (ldb_wfile_t *)&vp_handle_obj, "sync uses the created handle");
  return vp_event(VP_SYNC, 1);
}

int
vp_wfile_close(ldb_wfile_t *file) {
  VP_ASSERT(file == (ldb_wfile_t *)&vp_handle_obj, "close uses the created handle");
  return vp_event(VP_CLOSE, 1);
}

void
vp_wfile_destroy(ldb_wfile_t *file) {
  VP_ASSERT(file == (ldb_wfile_t *)&vp_handle_obj, "destroy uses the created handle");
  vp_event(VP_DESTROY, 0);
}

int
vp_remove_file(const char *filename) {
  VP_ASSERT(filename == vp_fname, "remove uses the given file name");
  return vp_event(VP_REMOVE, 1);
}

static int
vp_find(int kind) {
  int i;
  for (i = 0; i < VP_EV_MAX; i++) {
    if (i < vp_n && vp_kind[i] == kind)
      return i;
  }
  return -1;
}

static int
vp_count(int kind) {
  int i, c = 0;
  for (i = 0; i < VP_EV_MAX; i++) {
    if (i < vp_n && vp_kind[i] == kind)
      c++;
  }
  return c;
}

void
harness(void) {
  int should_sync = vp_int();
  int rc, i, first_err = LDB_OK;
  int c, a, s, cl, d, r;

  vp_fill(vp_data, sizeof(vp_data));
  vp_slice.data = vp_data;
  vp_slice.size = sizeof(vp_data);
  vp_slice.alloc = 0;

  rc = ldb_write_file(vp_fname, &vp_slice, should_sync);

  c = vp_find(VP_CREATE); a = vp_find(VP_APPEND); s = vp_find(VP_SYNC);
  cl = vp_find(VP_CLOSE); d = vp_find(VP_DESTROY); r = vp_find(VP_REMOVE);

  VP_ASSERT(c == 0 && vp_count(VP_CREATE) == 1, "the file is created first, once");
  VP_ASSERT(vp_count(VP_APPEND) <= 1 && vp_count(VP_SYNC) <= 1 && vp_count(VP_CLOSE) <= 1 &&
            vp_count(VP_DESTROY) <= 1 && vp_count(VP_REMOVE) <= 1, "each step at most once");

  /* first error among the failing steps (remove's own result is ignored) */
  for (i = 0; i < VP_EV_MAX; i++) {
    if (i < vp_n && vp_kind[i] != VP_REMOVE && vp_rc[i] != LDB_OK && first_err == LDB_OK)
      first_err = vp_rc[i];
  }
  VP_ASSERT(rc == first_err, "the first error (or LDB_OK) is returned");

  if (vp_rc[0] != LDB_OK) {
    VP_ASSERT(vp_n == 1, "failed create: nothing else happens");
    VP_WITNESS("create-failed");
    return;
  }

  VP_ASSERT(a == 1, "the data is appended right after the create");
  VP_ASSERT(d >= 0, "the handle is destroyed");
  if (vp_rc[a] == LDB_OK && should_sync) {
    VP_ASSERT(s == 2, "should_sync: sync follows the successful append");
  } else {
    VP_ASSERT(s < 0, "no sync without should_sync or after a failed append");
  }
  if (cl >= 0) {
    VP_ASSERT(vp_rc[a] == LDB_OK && (s < 0 || (s < cl && vp_rc[s] == LDB_OK)),
              "close only after successful append and (if requested) successful sync before it");
    VP_ASSERT(cl < d, "close precedes destroy");
  } else {
    VP_ASSERT(vp_rc[a] != LDB_OK || (s >= 0 && vp_rc[s] != LDB_OK), "close is skipped only after a failure");
  }
  VP_ASSERT(a < d && (s < 0 || s < d), "no use of the handle after destroy");

  if (first_err != LDB_OK) {
    VP_ASSERT(r >= 0 && r > d, "any failure: the file is removed (after the handle is gone)");
    VP_WITNESS("failed-and-removed");
  } else {
    VP_ASSERT(r < 0, "success: the file is kept");
    VP_ASSERT(cl >= 0, "success: the file was closed");
    if (should_sync)
      VP_WITNESS("written-synced");
    else
      VP_WITNESS("written-unsynced");
  }
}
