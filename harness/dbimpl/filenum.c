/* dbimpl/filenum.c -- the REAL file-number allocator of src/version_set.c
 * (ldb_versions_new_file_number / _reuse_file_number / _mark_file_number),
 * which the recovery harnesses model by the same three one-liners (C03.e):
 *   - numbers handed out are strictly increasing and never repeated,
 *   - reuse_file_number only undoes the MOST RECENT allocation,
 *   - after mark_file_number(n) every later allocation is above n, and the
 *     counter is never lowered by it.
 */
#include "vp.h"
#include "version_set.h"

void
harness(void) {
  static ldb_versions_t v;
  uint64_t start, a, b, c, n, before;

  start = vp_u64();
  VP_ASSUME(start < (UINT64_C(1) << 62));
  v.next_file_number = start;

  a = ldb_versions_new_file_number(&v);
  b = ldb_versions_new_file_number(&v);
  VP_ASSERT(a == start && b == a + 1 && v.next_file_number == b + 1, "C03.e allocation strictly increasing, no gaps");

  /* reuse of an older allocation is refused */
  ldb_versions_reuse_file_number(&v, a);
  VP_ASSERT(v.next_file_number == b + 1, "C03.e reuse_file_number ignores anything but the most recent allocation");
  ldb_versions_reuse_file_number(&v, b);
  VP_ASSERT(v.next_file_number == b, "C03.e reuse_file_number undoes the most recent allocation");
  c = ldb_versions_new_file_number(&v);
  VP_ASSERT(c == b, "C03.e the reused number is handed out next");

  n = vp_u64();
  VP_ASSUME(n < (UINT64_C(1) << 62));
  before = v.next_file_number;
  ldb_versions_mark_file_number(&v, n);
  VP_ASSERT(v.next_file_number > n && v.next_file_number >= before, "C03.e mark_file_number: later allocations are above the marked number, counter never lowered");
  VP_ASSERT(v.next_file_number == (n >= before ? n + 1 : before), "C03.e mark_file_number: counter = max(counter, n + 1)");
  c = ldb_versions_new_file_number(&v);
  VP_ASSERT(c > n && c > b, "C03.e numbers after a mark are fresh");
  if (n >= before)
    VP_WITNESS("mark-raised-counter");
  if (n < before)
    VP_WITNESS("mark-below-counter");
}
