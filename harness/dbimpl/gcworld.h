/* gcworld.h -- what the REAL ldb_remove_obsolete_files() (src/db_impl.c) sees
 * below it, shared by dbimpl/gc.c and dbimpl/flush.c (db_impl monitor family,
 * DESIGN 6 C13.a).
 *
 *   directory   <= VP_N entries returned by the ldb_get_children stub; each a
 *               symbolic owned (type, number, spelling variant) name or a
 *               foreign name (kit/vp_names.h encoding; pairwise different by
 *               the slot tag)
 *   live set    ldb_versions_add_files stub: <= VP_LIVE symbolic table numbers
 *   pending     db.pending_outputs: <= VP_PEND symbolic numbers, held by the
 *               small array model of the rb_set64 API below
 *   to_delete   the REAL util/vector.c (typed pointer slab, kit/vp_alloc_d1.c)
 *   recorders   ldb_remove_file, ldb_tables_evict, ldb_free_children
 *
 * The including harness defines vp_on_unlock / vp_on_wait / vp_on_signal.
 */
#ifndef VP_DBIMPL_GCWORLD_H
#define VP_DBIMPL_GCWORLD_H

#include "dbimpl/world.h"
#include "vp_names.h"

/* the REAL util/vector.c, its one allocator call routed to the typed pointer
   slab of kit/vp_alloc_d1.c (list "util/vector.c" in include_real) */
void *vp_realloc_ptrs(void *ptr, size_t size);
#define ldb_realloc vp_realloc_ptrs
#include "util/vector.c"
#undef ldb_realloc

#ifndef VP_N
#define VP_N 5      /* directory entries */
#endif
#ifndef VP_LIVE
#define VP_LIVE 3   /* table numbers referenced by some version */
#endif
#ifndef VP_PEND
#define VP_PEND 2   /* numbers in pending_outputs */
#endif

static ldb_t db;
static ldb_versions_t vs;
static int vp_tables_obj;   /* identity of the table cache */

/* ---- rb_set64 ---------------------------------------------------------- */
/* The REAL util/rbt.c does not get through symbolic execution with symbolic
   keys (smallest configuration, 1+1 keys: no verdict in 200 s), hence: */
/* Array model of the part of util/rbt.h that db_impl.c uses on sets of file
   numbers: init / copy / clear / has / put / del.  A tree object owns one
   slot array (tree->arg).  Slots are concrete: the harness side fills
   slot k directly (vp_set_add_at), the real code's rb_set64_put takes the
   first free slot of the last VP_PUTCAP ones.  A value may sit in two slots
   (has/del look at all of them); tree->size is not maintained. */
#define VP_PUTCAP 2
#define VP_PUTBASE (VP_LIVE + VP_PEND + 1)
#define VP_SETCAP (VP_PUTBASE + VP_PUTCAP)
#define VP_NSETS 4
struct vp_set { uint64_t v[VP_SETCAP]; int used[VP_SETCAP]; };
static struct vp_set vp_set0, vp_set1, vp_set2, vp_set3;   /* distinct objects, never an indexed pool */
static int vp_sets_used = 0;

void
rb_tree_init(rb_tree_t *tree, rb_cmp_f *compare, void *arg) {
  int k;
  (void)arg;
  VP_ASSERT(vp_sets_used < VP_NSETS, "vp-model: set pool exhausted");
  tree->root = NULL;
  tree->compare = compare;
  tree->size = 0;
  switch (vp_sets_used++) {
    case 0: tree->arg = &vp_set0; break;
    case 1: tree->arg = &vp_set1; break;
    case 2: tree->arg = &vp_set2; break;
    default: tree->arg = &vp_set3; break;
  }
  for (k = 0; k < VP_SETCAP; k++)
    ((struct vp_set *)tree->arg)->used[k] = 0;
}

void
rb_tree_clear(rb_tree_t *tree, rb_clear_f *clear) {
  struct vp_set *s = (struct vp_set *)tree->arg;
  int k;
  (void)clear;
  for (k = 0; k < VP_SETCAP; k++)
    s->used[k] = 0;
}

void
rb_tree_copy(rb_tree_t *z, const rb_tree_t *x, rb_copy_f *copy) {
  struct vp_set *d = (struct vp_set *)z->arg;
  const struct vp_set *s = (const struct vp_set *)x->arg;
  int k;
  (void)copy;
  for (k = 0; k < VP_SETCAP; k++) {
    d->used[k] = s->used[k];
    d->v[k] = s->v[k];
  }
}

int
rb_set64_has(const rb_tree_t *tree, uint64_t item) {
  const struct vp_set *s = (const struct vp_set *)tree->arg;
  int k, r = 0;
  for (k = 0; k < VP_SETCAP; k++)
    if (s->used[k] && s->v[k] == item)
      r = 1;
  return r;
}

int
rb_set64_put(rb_tree_t *tree, uint64_t item) {
  struct vp_set *s = (struct vp_set *)tree->arg;
  int k, done = 0;
  int had = rb_set64_has(tree, item);
  for (k = VP_PUTBASE; k < VP_SETCAP; k++) {
    if (!done && !s->used[k]) {
      s->used[k] = 1;
      s->v[k] = item;
      done = 1;
    }
  }
  VP_ASSERT(done, "vp-model: set capacity (VP_PUTCAP)");
  return !had;
}

int
rb_set64_del(rb_tree_t *tree, uint64_t item) {
  struct vp_set *s = (struct vp_set *)tree->arg;
  int k, done = 0;
  for (k = 0; k < VP_SETCAP; k++) {
    if (s->used[k] && s->v[k] == item) {
      s->used[k] = 0;
      done = 1;
    }
  }
  return done;
}

/* harness side: member `item' (if enable) in concrete slot k */
static void
vp_set_add_at(rb_tree_t *tree, int k, int enable, uint64_t item) {
  struct vp_set *s = (struct vp_set *)tree->arg;
  s->used[k] = enable;
  s->v[k] = item;
}


/* ---- directory ---------------------------------------------------------- */
static char dir_name[VP_N][VP_NAME_LEN];
static char *dir_list[VP_N];
static int dir_n = 0;            /* number of entries */
static int dir_fail = 0;         /* listing fails */
static int dir_present[VP_N];    /* entry still exists (not removed yet) */
/* ghost copy of what each entry is (the reference reads these) */
static int dir_owned[VP_N];
static ldb_filetype_t dir_type[VP_N];
static uint64_t dir_num[VP_N];

static uint64_t live_num[VP_LIVE];
static int live_n = 0;
static uint64_t live_extra = 0;      /* a table installed by the code under test (flush.c) */
static int live_extra_on = 0;
static uint64_t pend_num[VP_PEND];   /* ghost copy of pending_outputs at the time of the listing */
static int pend_n = 0;

/* ---- recorders ----------------------------------------------------------- */
static int g_listed = 0;         /* ldb_get_children calls */
static int g_list_len = 0;       /* what the last one returned */
static int g_freed = 0;
static int g_removed[VP_N];
static int g_removed_total = 0;
static int g_evicted[VP_N];
static int g_evict_total = 0;
static int g_addfiles = 0;
/* version counters as the collector saw them under the mutex (last collection) */
static uint64_t g_gc_log_number, g_gc_prev_log_number, g_gc_manifest_number;

static void vp_on_gc_start(void);   /* harness hook: a collection passed the bg_error gate */

int
ldb_get_children(const char *path, char ***out) {
  int i;
  VP_ASSERT(path == db.dbname, "the database directory is listed");
  g_listed++;
  g_freed = 0;
  if (dir_fail) {
    *out = NULL;
    g_list_len = -1;
    return -1;
  }
  for (i = 0; i < VP_N; i++) {
    /* an entry unlinked by an earlier collection is gone: its slot now holds
       somebody else's file */
    if (!dir_present[i]) {
      dir_owned[i] = 0;
      dir_name[i][0] = 0;
      dir_present[i] = 1;
    }
    dir_list[i] = dir_name[i];
  }
  *out = dir_list;
  g_list_len = dir_n;
  return dir_n;
}

void
ldb_free_children(char **list, int len) {
  VP_ASSERT(list == dir_list && len == g_list_len, "the listing that was returned is released");
  VP_ASSERT(!g_freed, "listing released once");
  g_freed = 1;
}

int
ldb_remove_file(const char *path) {
  int i, hit = 0;
  int rc = vp_bool() ? LDB_OK : LDB_IOERR;
  VP_ASSERT(!vp_mutex_held, "C13 files are unlinked with the mutex released");
  VP_ASSERT(g_listed > 0 && !g_freed, "names are used while the listing is alive");
  VP_ASSERT(vp_name_joined(path), "C13 the name removed is a listed name joined with the database directory");
  for (i = 0; i < VP_N; i++) {
    if (i < dir_n && dir_present[i] && vp_name_same(path, dir_name[i])) {
      g_removed[i]++;
      if (rc == LDB_OK)
        dir_present[i] = 0;
      hit = 1;
    }
  }
  VP_ASSERT(hit, "C13 only names that were listed are removed");
  g_removed_total++;
  return rc;   /* the result is ignored by the collector */
}

void
ldb_tables_evict(ldb_tables_t *cache, uint64_t number) {
  int i;
  VP_ASSERT(cache == db.table_cache, "eviction from the database's table cache");
  g_evict_total++;
  for (i = 0; i < VP_N; i++) {
    if (i < dir_n && dir_owned[i] && dir_type[i] == LDB_FILE_TABLE && dir_num[i] == number)
      g_evicted[i]++;
  }
}

void
ldb_versions_add_files(ldb_versions_t *v, rb_set64_t *live) {
  int k;
  VP_ASSERT(v == &vs, "live files of the database's version set");
  VP_ASSERT(vp_mutex_held, "version list walked under the mutex");
  g_addfiles++;
  g_gc_log_number = vs.log_number;
  g_gc_prev_log_number = vs.prev_log_number;
  g_gc_manifest_number = vs.manifest_file_number;
  vp_on_gc_start();
  for (k = 0; k < VP_LIVE; k++)
    vp_set_add_at(live, VP_PEND + k, k < live_n, live_num[k]);
  vp_set_add_at(live, VP_PEND + VP_LIVE, live_extra_on, live_extra);
}

/* ---- independent reference: which entries must survive ------------------- */
static int
ref_in_live(uint64_t n) {
  int k;
  for (k = 0; k < VP_LIVE; k++)
    if (k < live_n && live_num[k] == n)
      return 1;
  return live_extra_on && live_extra == n;
}

static int
ref_in_pending(uint64_t n) {
  int k;
  for (k = 0; k < VP_PEND; k++)
    if (k < pend_n && pend_num[k] == n)
      return 1;
  return 0;
}

/* log_number / prev_log_number / manifest_file_number as the caller saw them
   under the mutex */
static int
ref_keep(int i, uint64_t log_number, uint64_t prev_log_number, uint64_t manifest_number) {
  if (!dir_owned[i])
    return 1;                                   /* not ours: never touched */
  switch (dir_type[i]) {
    case LDB_FILE_LOG:
      return !(dir_num[i] < log_number && dir_num[i] != prev_log_number);
    case LDB_FILE_DESC:
      return !(dir_num[i] < manifest_number);
    case LDB_FILE_TABLE:
    case LDB_FILE_TEMP:
      return ref_in_live(dir_num[i]) || ref_in_pending(dir_num[i]);
    default:
      return 1;                                 /* CURRENT, LOCK, LOG, LOG.old */
  }
}

/* ---- set-up ---------------------------------------------------------------- */
static void
gcworld_init_db(void) {
  vp_db_mutex = &db.mutex;
  db.versions = &vs;
  db.table_cache = (ldb_tables_t *)&vp_tables_obj;
  db.dbname[0] = 'd'; db.dbname[1] = 0;
  vp_names_dir = db.dbname;
  rb_set64_init(&db.pending_outputs);
}

/* symbolic directory of <= VP_N pairwise different names */
static void
gcworld_init_dir(void) {
  int i;
  dir_n = vp_int();
  VP_ASSUME(dir_n >= 0 && dir_n <= VP_N);
  for (i = 0; i < VP_N; i++) {
    int t = vp_int();
    VP_ASSUME(t >= 0 && t <= (int)LDB_FILE_INFO);
    dir_owned[i] = vp_bool();
    dir_type[i] = (ldb_filetype_t)t;
    dir_num[i] = vp_u64();
    if (dir_owned[i] && (t == (int)LDB_FILE_CURRENT || t == (int)LDB_FILE_LOCK || t == (int)LDB_FILE_INFO))
      dir_num[i] = 0;
    vp_name_make(dir_name[i], dir_owned[i], dir_type[i], dir_num[i], vp_bool(), i);
    vp_names_register(dir_name[i]);
    dir_present[i] = 1;
    g_removed[i] = 0;
    g_evicted[i] = 0;
  }
}

static void
gcworld_init_live(void) {
  int k;
  live_n = vp_int();
  VP_ASSUME(live_n >= 0 && live_n <= VP_LIVE);
  for (k = 0; k < VP_LIVE; k++)
    live_num[k] = vp_u64();
}

#endif
