/* dbimpl/flush.c -- the REAL memtable flush of src/db_impl.c:
 *   VP_MODE 0   ldb_compact_memtable() -> ldb_write_level0_table()
 *               -> (success) ldb_remove_obsolete_files()
 *   VP_MODE 1   ldb_background_call() -> ldb_background_compaction() -> the
 *               above, then ldb_maybe_schedule_compaction() and the broadcast
 * from an arbitrary well-formed state, with monitoring stubs for the table
 * builder, the version set, the memtable and the directory (gcworld.h).
 *
 *   C13.c  the new table's number is freshly allocated, is in pending_outputs
 *          before ldb_build_table() runs and while it runs, a collection that
 *          runs during the build (VP_ENVGC) does not remove the file, no
 *          collection runs between the erase from pending_outputs and the
 *          install, the file just installed is never removed
 *   C13.d  file numbers strictly increase, none is handed back
 *   C02.b / C03.d  the edit given to ldb_versions_apply() has prev_log_number 0
 *          and log_number == db->logfile_number; a file is added only if the
 *          build returned OK with file_size > 0, at the level the pick function
 *          returned; no log is unlinked unless an edit with a larger log number
 *          has been applied; ldb_remove_obsolete_files() only after a
 *          successful apply; imm is released (unref, imm = NULL, has_imm = 0)
 *          only then
 *   C12.a  every failure (build, shutdown seen, apply) latches bg_error, keeps
 *          imm, collects nothing; after a latched error / shutdown
 *          ldb_background_call() does no work at all
 *   C09.b  background_work_finished_signal is BROADCAST, under the mutex, after
 *          the last change of imm / bg_error / background_compaction_scheduled
 *          on every path; background_compaction_scheduled is cleared and a new
 *          background call is scheduled iff work remains and there is neither
 *          an error nor a shutdown
 *
 * Environment (part of the claim): other threads act only while the mutex is
 * released: they may latch an error, begin shutdown and -- once imm is NULL --
 * a writer may switch memtables (new imm, new log number).  One background
 * thread: nobody else touches pending_outputs or the version set, except the
 * concurrent collection of VP_ENVGC.
 */
#ifndef VP_N
#define VP_N 4      /* directory: VP_N-1 arbitrary entries + the table being built */
#endif
#ifndef VP_LIVE
#define VP_LIVE 2
#endif
#ifndef VP_PEND
#define VP_PEND 1   /* outputs of a compaction that is in progress around us */
#endif
#include "dbimpl/gcworld.h"

#ifndef VP_MODE
#define VP_MODE 0
#endif
#ifndef VP_ENVGC
#define VP_ENVGC 0
#endif
#define VP_NEWSLOT (VP_N - 1)

struct ldb_memtable_s { int refs; };

static struct ldb_memtable_s mems[2];
static ldb_version_t ver;
static ldb_iter_t iter_obj;
static uint8_t key_small[9], key_large[9];

/* ---- ghost ------------------------------------------------------------- */
static ldb_memtable_t *imm0;
static uint64_t next0, logfile0;
static int g_alloc_n = 0;
static uint64_t g_alloc_last = 0;
static int g_iter_live = 0, g_iter_made = 0;
static int g_build_n = 0, g_build_rc = 0;
static uint64_t g_build_size = 0;
static int g_new_exists = 0;         /* the new table file is in the directory */
static int g_pick_n = 0, g_pick_level = 0;
static int g_edit_live = 0, g_edit_cleared = 0;
static int g_add_n = 0, g_add_level = 0;
static uint64_t g_add_number = 0, g_add_size = 0;
static int g_apply_n = 0, g_apply_rc = 0, g_installed = 0;
static int g_imm_unref = 0;
static int g_ver_refs = 0, g_ver_ref_calls = 0;
static int g_scheduled = 0;
static int g_needs = 0;              /* what ldb_versions_needs_compaction answers */
static int g_pickc_n = 0;
static int g_env_gc = 0;             /* the environment's collection is running */
static int g_env_gc_done = 0;
static int g_own_gc = 0;             /* collections of the code under test that passed the error gate */
static int g_env_latched = 0;        /* another thread latched an error meanwhile */
static int g_env_switched = 0;       /* a writer switched memtables meanwhile */
/* broadcast bookkeeping */
static int g_bcast_n = 0;
static ldb_memtable_t *b_imm; static int b_err, b_sched, b_hasimm;
/* state when the mutex was last released */
static ldb_memtable_t *u_imm; static int u_err, u_sched, u_hasimm, u_shut, u_bcast;

static void
vp_on_gc_start(void) {
  if (!g_env_gc) {
    g_own_gc++;
    VP_ASSERT(g_apply_n == 1 && g_apply_rc == LDB_OK && g_installed,
              "C02.b obsolete files are collected only after the edit was applied successfully");
    VP_ASSERT(db.imm != imm0, "collection only after the immutable memtable was released");
  }
  /* C13.c: a file that exists but is neither pending nor installed would be collected */
  VP_ASSERT(!(g_new_exists && !g_installed && !rb_set64_has(&db.pending_outputs, g_alloc_last)),
            "C13.c no collection between the erase from pending_outputs and the install");
}

static void
vp_on_unlock(void) {
  VP_ASSERT((db.imm != NULL) == (db.has_imm != 0), "has_imm mirrors imm whenever the mutex is released");
  u_imm = db.imm; u_err = db.bg_error; u_sched = db.background_compaction_scheduled;
  u_hasimm = db.has_imm; u_shut = db.shutting_down; u_bcast = g_bcast_n;
  /* interference */
  if (vp_bool() && db.bg_error == LDB_OK) {
    db.bg_error = LDB_IOERR;           /* a writer's failed sync */
    g_env_latched = 1;
  }
  if (vp_bool())
    db.shutting_down = 1;
  if (db.imm == NULL && !g_env_gc && vp_bool()) {
    /* a writer switches memtables: new log, full memtable becomes imm; it
       finds a background call scheduled (ours) and does not schedule another */
    g_env_switched = 1;
    db.logfile_number = vs.next_file_number++;
    db.imm = &mems[1];
    mems[1].refs = 1;
    db.has_imm = 1;
  }
}

static void
vp_on_wait(ldb_cond_t *cv) {
  (void)cv;
  VP_ASSERT(0, "the flush never waits on a condition variable");
}

static void
vp_on_signal(ldb_cond_t *cv, int broadcast) {
  if (cv != &db.background_work_finished_signal)
    return;
  VP_ASSERT(broadcast, "C09.b background_work_finished_signal is broadcast (several kinds of waiters)");
  VP_ASSERT(vp_mutex_held, "C09.b signalled under the mutex");
  g_bcast_n++;
  b_imm = db.imm; b_err = db.bg_error; b_sched = db.background_compaction_scheduled; b_hasimm = db.has_imm;
}

/* ---- stubs below db_impl.c ------------------------------------------------ */
void ldb_log(ldb_logger_t *logger, const char *fmt, ...) { (void)logger; (void)fmt; }
const char *ldb_strerror(int code) { (void)code; return "e"; }

int64_t
ldb_now_usec(void) {
  static int64_t now = 0;
  uint32_t d = vp_u32();
  now += (int64_t)d;
  return now;
}

uint64_t
ldb_versions_new_file_number(ldb_versions_t *v) {
  VP_ASSERT(v == &vs && vp_mutex_held, "file numbers allocated under the mutex");
  g_alloc_n++;
  g_alloc_last = v->next_file_number++;
  return g_alloc_last;
}

void
ldb_versions_reuse_file_number(ldb_versions_t *v, uint64_t n) {
  (void)v; (void)n;
  VP_ASSERT(0, "C13.d the flush never hands a file number back");
}

int
ldb_versions_needs_compaction(const ldb_versions_t *v) {
  VP_ASSERT(v == &vs && vp_mutex_held, "compaction score read under the mutex");
  return g_needs;
}

ldb_compaction_t *
ldb_versions_pick_compaction(ldb_versions_t *v) {
  VP_ASSERT(v == &vs && vp_mutex_held, "compaction picked under the mutex");
  g_pickc_n++;
  return NULL;   /* nothing to compact: this harness is about the flush */
}

void
ldb_pool_schedule(ldb_pool_t *pool, void (*fn)(void *), void *arg) {
  VP_ASSERT(pool == db.pool && arg == &db, "background call scheduled on the database's pool, with the database");
  VP_ASSERT(fn == &ldb_background_call, "the scheduled work is ldb_background_call");
  VP_ASSERT(vp_mutex_held && db.background_compaction_scheduled, "scheduled under the mutex, flag set first");
  g_scheduled++;
}

void
ldb_version_ref(ldb_version_t *v) {
  VP_ASSERT(v == &ver && vp_mutex_held, "current version referenced under the mutex");
  g_ver_refs++;
  g_ver_ref_calls++;
}

void
ldb_version_unref(ldb_version_t *v) {
  VP_ASSERT(v == &ver && vp_mutex_held && g_ver_refs > 0, "version reference dropped under the mutex, once");
  g_ver_refs--;
}

void ldb_memtable_ref(ldb_memtable_t *m) { m->refs++; }

void
ldb_memtable_unref(ldb_memtable_t *m) {
  VP_ASSERT(m == imm0 && vp_mutex_held, "the flushed memtable is released, under the mutex");
  VP_ASSERT(g_apply_n == 1 && g_apply_rc == LDB_OK, "C02.b imm released only after the edit was applied");
  m->refs--;
  g_imm_unref++;
}

ldb_iter_t *
ldb_memiter_create(const ldb_memtable_t *m) {
  VP_ASSERT(m == imm0, "the table is built from the immutable memtable");
  g_iter_made++;
  g_iter_live = 1;
  return &iter_obj;
}

void
ldb_iter_destroy(ldb_iter_t *it) {
  VP_ASSERT(it == &iter_obj && g_iter_live, "memtable iterator destroyed once");
  VP_ASSERT(g_build_n == 1, "iterator alive during the build");
  g_iter_live = 0;
}

void
ldb_filemeta_init(ldb_filemeta_t *meta) {
  meta->refs = 0;
  meta->allowed_seeks = (1 << 30);
  meta->number = 0;
  meta->file_size = 0;
  meta->smallest.data = NULL; meta->smallest.size = 0; meta->smallest.alloc = 0;
  meta->largest.data = NULL; meta->largest.size = 0; meta->largest.alloc = 0;
}

void ldb_filemeta_clear(ldb_filemeta_t *meta) { (void)meta; }

static void
new_file_appears(uint64_t number) {
  dir_owned[VP_NEWSLOT] = 1;
  dir_type[VP_NEWSLOT] = LDB_FILE_TABLE;
  dir_num[VP_NEWSLOT] = number;
  vp_name_make(dir_name[VP_NEWSLOT], 1, LDB_FILE_TABLE, number, 0, VP_NEWSLOT);
  g_new_exists = 1;
}

static void
new_file_vanishes(void) {
  dir_owned[VP_NEWSLOT] = 0;
  dir_name[VP_NEWSLOT][0] = 0;
  g_new_exists = 0;
}

int
ldb_build_table(const char *dbname, const ldb_dbopt_t *options, ldb_tables_t *table_cache,
                ldb_iter_t *iter, ldb_filemeta_t *meta) {
  VP_ASSERT(!vp_mutex_held, "the table is built with the mutex released");
  VP_ASSERT(dbname == db.dbname && options == &db.options && table_cache == db.table_cache,
            "table built in the database directory with the database's options and table cache");
  VP_ASSERT(iter == &iter_obj && g_iter_live, "built from the live memtable iterator");
  g_build_n++;
  VP_ASSERT(g_build_n == 1, "one table per flush");
  VP_ASSERT(g_alloc_n == 1 && meta->number == g_alloc_last, "C13.d the new table carries the freshly allocated number");
  VP_ASSERT(rb_set64_has(&db.pending_outputs, meta->number), "C13.c number in pending_outputs before the table file is created");
  new_file_appears(meta->number);
#if VP_ENVGC
  /* a collection running right now (the file exists, the build is not finished) */
  ldb_mutex_lock(&db.mutex);
  g_env_gc = 1;
  ldb_remove_obsolete_files(&db);
  g_env_gc = 0;
  g_env_gc_done = 1;
  VP_ASSERT(dir_present[VP_NEWSLOT] && g_removed[VP_NEWSLOT] == 0, "C13.c a collection during the build keeps the pending table");
  ldb_mutex_unlock(&db.mutex);
#endif
  VP_ASSERT(rb_set64_has(&db.pending_outputs, meta->number), "C13.c still pending when the build finishes");
  g_build_rc = vp_bool() ? LDB_OK : (vp_bool() ? LDB_IOERR : LDB_CORRUPTION);
  meta->file_size = 0;
  if (g_build_rc == LDB_OK) {
    g_build_size = vp_u64();
    VP_ASSUME(g_build_size < (UINT64_C(1) << 40));
    meta->file_size = g_build_size;   /* 0: empty memtable, no file */
  }
  if (g_build_rc == LDB_OK && g_build_size > 0) {
    meta->smallest.data = key_small; meta->smallest.size = 9;
    meta->largest.data = key_large; meta->largest.size = 9;
  } else {
    new_file_vanishes();              /* the real builder unlinks it */
  }
  return g_build_rc;
}

int
ldb_version_pick_level_for_memtable_output(ldb_version_t *v, const ldb_slice_t *small_key, const ldb_slice_t *large_key) {
  VP_ASSERT(v == &ver && g_ver_refs > 0, "level picked on the referenced base version");
  VP_ASSERT(vp_mutex_held, "level picked under the mutex");
  VP_ASSERT(small_key->data == key_small && small_key->size == 1 && large_key->data == key_large && large_key->size == 1,
            "level picked for the user-key range of the new table");
  g_pick_n++;
  g_pick_level = vp_int();
  VP_ASSUME(g_pick_level >= 0 && g_pick_level <= 2);   /* contract: 0 .. kMaxMemCompactLevel */
  return g_pick_level;
}

/* version_edit.c setters (plain field stores; the codec is property C17) */
void
ldb_edit_init(ldb_edit_t *e) {
  e->has_comparator = 0; e->has_log_number = 0; e->has_prev_log_number = 0;
  e->has_next_file_number = 0; e->has_last_sequence = 0;
  e->log_number = 0; e->prev_log_number = 0; e->next_file_number = 0; e->last_sequence = 0;
  g_edit_live++;
}

void
ldb_edit_clear(ldb_edit_t *e) {
  (void)e;
  g_edit_cleared++;
}

void ldb_edit_set_log_number(ldb_edit_t *e, uint64_t n) { e->has_log_number = 1; e->log_number = n; }
void ldb_edit_set_prev_log_number(ldb_edit_t *e, uint64_t n) { e->has_prev_log_number = 1; e->prev_log_number = n; }

void
ldb_edit_add_file(ldb_edit_t *e, int level, uint64_t number, uint64_t file_size,
                  const ldb_ikey_t *smallest, const ldb_ikey_t *largest) {
  (void)e;
  VP_ASSERT(smallest->data == key_small && largest->data == key_large, "file added with the key range the builder reported");
  g_add_n++;
  g_add_level = level;
  g_add_number = number;
  g_add_size = file_size;
}

int
ldb_versions_apply(ldb_versions_t *v, ldb_edit_t *e, ldb_mutex_t *mu) {
  VP_ASSERT(v == &vs && mu == &db.mutex && vp_mutex_held, "edit applied to the database's version set, mutex held");
  g_apply_n++;
  VP_ASSERT(g_apply_n == 1, "one edit per flush");
  VP_ASSERT(g_build_n == 1 && g_build_rc == LDB_OK, "C02.b edit applied only after the table was built successfully");
  VP_ASSERT(!db.shutting_down, "C12.a no MANIFEST write once shutdown was seen");
  VP_ASSERT(e->has_log_number && e->log_number == db.logfile_number, "C02.b/C03.d edit.log_number == db->logfile_number (older logs obsolete, the current one kept)");
  VP_ASSERT(e->has_prev_log_number && e->prev_log_number == 0, "C02.b/C03.d edit.prev_log_number == 0");
  VP_ASSERT(e->log_number >= v->log_number && e->log_number < v->next_file_number, "ldb_versions_apply precondition on log_number");
  VP_ASSERT(g_add_n == (g_build_size > 0 ? 1 : 0), "C02.b a file is added iff the build produced one (file_size > 0)");
  if (g_add_n == 1) {
    VP_ASSERT(g_add_number == g_alloc_last && g_add_size == g_build_size, "the added file is the new table with its size");
    VP_ASSERT(g_pick_n == 1 && g_add_level == g_pick_level, "C01/C14 file added at the level the pick function returned");
  }
  VP_ASSERT(g_own_gc == 0, "C02.b nothing is collected before the edit is applied");
  /* the MANIFEST write releases the mutex */
  ldb_mutex_unlock(mu);
  g_apply_rc = vp_bool() ? LDB_OK : (vp_bool() ? LDB_IOERR : 28 /* ENOSPC */);
  ldb_mutex_lock(mu);
  if (g_apply_rc == LDB_OK) {
    v->log_number = e->log_number;
    v->prev_log_number = e->prev_log_number;
    g_installed = 1;
    if (g_add_n == 1) {
      live_extra = g_add_number;
      live_extra_on = 1;
    }
  }
  return g_apply_rc;
}

/* ---- harness ---------------------------------------------------------------- */
static void
check_pending_restored(void) {
  uint64_t x = vp_u64();
  VP_ASSERT(rb_set64_has(&db.pending_outputs, x) == ref_in_pending(x), "C13.c pending_outputs back to what it was (new number erased, others untouched)");
}

void
harness(void) {
  int i, k, err0, shut0, sched_expected, success;
  ldb_memtable_t *imm_pre;

  /* ---- arbitrary well-formed pre-state ---- */
  gcworld_init_db();
  db.pool = (ldb_pool_t *)&vp_tables_obj;
  vs.current = &ver;
  vs.next_file_number = vp_u64();
  VP_ASSUME(vs.next_file_number >= 3 && vs.next_file_number < (UINT64_C(1) << 60));
  next0 = vs.next_file_number;
  db.logfile_number = vp_u64();
  VP_ASSUME(db.logfile_number >= 1 && db.logfile_number < next0);
  logfile0 = db.logfile_number;
  vs.log_number = vp_u64();
  VP_ASSUME(vs.log_number <= db.logfile_number);
  vs.prev_log_number = vp_u64();
  VP_ASSUME(vs.prev_log_number < next0);
  vs.manifest_file_number = vp_u64();
  VP_ASSUME(vs.manifest_file_number < next0);
  gcworld_init_dir();
  VP_ASSUME(dir_n == VP_N);
  for (i = 0; i < VP_N; i++)
    if (dir_owned[i] && (dir_type[i] == LDB_FILE_LOG || dir_type[i] == LDB_FILE_TABLE || dir_type[i] == LDB_FILE_TEMP || dir_type[i] == LDB_FILE_DESC))
      VP_ASSUME(dir_num[i] < next0);    /* the allocator is above every number in use */
  new_file_vanishes();                  /* the slot of the table that does not exist yet */
  gcworld_init_live();
  for (k = 0; k < VP_LIVE; k++)
    VP_ASSUME(live_num[k] < next0);
  pend_n = vp_int();
  VP_ASSUME(pend_n >= 0 && pend_n <= VP_PEND);
  for (k = 0; k < VP_PEND; k++) {
    pend_num[k] = vp_u64();
    VP_ASSUME(pend_num[k] < next0);
    vp_set_add_at(&db.pending_outputs, k, k < pend_n, pend_num[k]);
  }
  dir_fail = vp_bool();
  db.bg_error = vp_bool() ? LDB_OK : LDB_IOERR;
  db.shutting_down = vp_bool();
  g_needs = vp_bool();
  db.manual_compaction = NULL;
  mems[0].refs = 1;
#if VP_MODE == 0
  db.imm = &mems[0];
  db.background_compaction_scheduled = 1;
#else
  db.imm = vp_bool() ? &mems[0] : NULL;
  db.background_compaction_scheduled = 1;
#endif
  db.has_imm = (db.imm != NULL);
  imm0 = &mems[0];
  imm_pre = db.imm;
  err0 = db.bg_error;
  shut0 = db.shutting_down;

  /* ---- the real code ---- */
#if VP_MODE == 0
  vp_mutex_held = 1;
  ldb_compact_memtable(&db);
  VP_ASSERT(vp_mutex_held, "mutex held again on return");
#else
  ldb_background_call(&db);
  VP_ASSERT(!vp_mutex_held, "mutex released on return");
#endif

  /* ---- post-conditions ---- */
#if VP_MODE == 1
  if (shut0 || err0 != LDB_OK) {
    VP_ASSERT(g_alloc_n == 0 && g_build_n == 0 && g_apply_n == 0 && g_listed == 0 && g_pickc_n == 0,
              "C12.a no background work after a latched error or during shutdown");
    VP_ASSERT(u_imm == imm_pre, "imm untouched");
  }
  /* C09.b */
  VP_ASSERT(g_bcast_n >= 1 && u_bcast == g_bcast_n, "C09.b waiters woken before the mutex is released");
  VP_ASSERT(b_imm == u_imm && b_err == u_err && b_sched == u_sched && b_hasimm == u_hasimm,
            "C09.b broadcast after the last change of imm / bg_error / background_compaction_scheduled");
  sched_expected = !u_shut && u_err == LDB_OK && (u_imm != NULL || g_needs);
  VP_ASSERT(u_sched == sched_expected, "C09.b scheduled flag cleared, set again iff work remains and no error / shutdown");
  VP_ASSERT(g_scheduled == sched_expected, "C09.b next background call scheduled iff work remains and no error / shutdown");
  if (imm_pre == NULL || shut0 || err0 != LDB_OK) {
    if (sched_expected)
      VP_WITNESS("idle-call-reschedules");
    else if (shut0)
      VP_WITNESS("call-during-shutdown");
    else if (err0 != LDB_OK)
      VP_WITNESS("call-after-error");
    else
      VP_WITNESS("idle-call");
    return;
  }
  VP_ASSERT(g_pickc_n == 0, "a pending flush takes priority over picking a compaction");
#else
  (void)imm_pre; (void)shut0; (void)sched_expected;
#endif

  /* the flush ran */
  VP_ASSERT(g_alloc_n == 1 && g_alloc_last >= next0 && vs.next_file_number > g_alloc_last,
            "C13.d one fresh file number, above every number handed out before");
  VP_ASSERT(g_iter_made == 1 && !g_iter_live, "memtable iterator destroyed");
  VP_ASSERT(g_edit_live == 1 && g_edit_cleared == 1, "edit cleared on every path");
  VP_ASSERT(g_ver_refs == 0 && g_ver_ref_calls == 1, "base version reference dropped");
  VP_ASSERT(g_build_n == 1, "the table was built");
  check_pending_restored();
  VP_ASSERT(dir_present[VP_NEWSLOT] && g_removed[VP_NEWSLOT] == 0, "C13.c the new table is never unlinked");

  success = g_build_rc == LDB_OK && g_apply_n == 1 && g_apply_rc == LDB_OK;
  if (g_build_rc == LDB_OK && g_apply_n == 0)
    VP_ASSERT(db.shutting_down, "the edit is skipped only because shutdown was seen");

  for (i = 0; i < VP_N; i++) {
    if (dir_owned[i] && dir_type[i] == LDB_FILE_LOG && g_removed[i] > 0) {
#if !VP_ENVGC
      VP_ASSERT(success, "C02.b a log is unlinked only after a successful flush");
#endif
      VP_ASSERT(dir_num[i] < logfile0, "C02.b/C03 the log in use (and any newer one) is never unlinked");
    }
  }

  if (!success) {
    VP_ASSERT(db.bg_error != LDB_OK, "C12.a failed flush latches bg_error");
    VP_ASSERT(db.imm == imm0 && db.has_imm == 1 && g_imm_unref == 0 && mems[0].refs == 1, "C12.a failed flush keeps the immutable memtable");
    VP_ASSERT(g_own_gc == 0 && (g_env_gc_done || (g_removed_total == 0 && g_listed == 0)), "C12.a failed flush collects nothing");
    VP_ASSERT(!g_installed && vs.log_number <= logfile0, "failed flush installs nothing");
    if (err0 == LDB_OK && !g_env_latched)
      VP_ASSERT(g_bcast_n >= 1 && b_err != LDB_OK, "C09.b the latched error is broadcast, after bg_error is stored");
    if (g_build_rc != LDB_OK)
      VP_WITNESS("build-failed");
    else if (g_apply_n == 0)
      VP_WITNESS("shutdown-seen");
    else
      VP_WITNESS("apply-failed");
    return;
  }

  VP_ASSERT(g_imm_unref == 1 && mems[0].refs == 0, "flushed memtable released once");
  VP_ASSERT(db.imm != imm0, "imm no longer the flushed memtable");
  VP_ASSERT(vs.log_number == logfile0 && vs.prev_log_number == 0, "C03.d version set now names the log that was current during the flush");
  VP_ASSERT(g_env_switched ? (db.imm == &mems[1] && db.has_imm == 1) : (db.imm == NULL && db.has_imm == 0),
            "imm = NULL and has_imm = 0 stored (unless a writer installed a new imm afterwards)");
  /* the collection that follows: exactly the reference set for the NEW state */
  if (g_own_gc == 1) {
#if !VP_ENVGC
    for (i = 0; i < VP_N; i++) {
      int expect = g_listed == 1 && !dir_fail && !ref_keep(i, logfile0, 0, g_gc_manifest_number);
      VP_ASSERT(g_removed[i] == expect, "C13.a after the flush exactly the files the new state does not need are unlinked");
    }
    if (g_removed[0] && dir_owned[0] && dir_type[0] == LDB_FILE_LOG)
      VP_WITNESS("old-log-collected-after-flush");
#endif
    if (g_build_size > 0)
      VP_WITNESS("flush-installed-table");
    else
      VP_WITNESS("flush-of-empty-memtable");
  } else {
    VP_ASSERT(g_own_gc == 0 && (err0 != LDB_OK || g_env_latched), "collection skipped only because an error is latched");
    VP_WITNESS("flush-ok-but-error-latched");
  }
}
