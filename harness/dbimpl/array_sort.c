/* dbimpl/array_sort.c -- the REAL util/array.c: ldb_array_push + ldb_array_sort
 * (Hoare quicksort) on VP_N arbitrary 64-bit numbers with the ascending
 * comparison ldb_recover uses.  dbimpl/recover.c models the sort by its
 * contract (ascending permutation w.r.t. the comparison function); this
 * obligation decides that the real code meets it:
 *   - the result is ascending,
 *   - it is a permutation of the input (every value occurs equally often),
 *   - nothing outside items[0..n) is touched (CBMC bounds checks).
 */
#include "vp.h"
#include "util/array.h"

#ifndef VP_N
#define VP_N 3
#endif

/* allocator: the vector's storage is one typed static slab (growing in place
   keeps the contents, as realloc does); a request beyond it is reported */
static uint64_t vp_slab[VP_N + 6];
static int vp_slab_live = 0;

void *
ldb_realloc(void *ptr, size_t size) {
  VP_ASSERT(ptr == NULL || ptr == (void *)vp_slab, "vp-model: only the vector grows");
  VP_ASSERT(size <= sizeof(vp_slab), "vp-model: slab too small");
  vp_slab_live = 1;
  return vp_slab;
}

void
ldb_free(void *ptr) {
  VP_ASSERT(ptr == (void *)vp_slab && vp_slab_live, "storage released once");
  vp_slab_live = 0;
}

static int
vp_ascending(uint64_t x, uint64_t y) {
  return x < y ? -1 : (x > y ? 1 : 0);
}

void
harness(void) {
  ldb_array_t a;
  uint64_t in[VP_N + 1];
  int i, j;

  ldb_array_init(&a);
  for (i = 0; i < VP_N; i++) {
    in[i] = vp_u64();
    ldb_array_push(&a, in[i]);
  }
  VP_ASSERT(a.length == VP_N, "push appends");

  ldb_array_sort(&a, vp_ascending);

  VP_ASSERT(a.length == VP_N, "sort keeps the length");
  for (i = 0; i + 1 < VP_N; i++)
    VP_ASSERT(a.items[i] <= a.items[i + 1], "C03.b ldb_array_sort: result ascending");
  for (i = 0; i < VP_N; i++) {
    int cin = 0, cout = 0;
    for (j = 0; j < VP_N; j++) {
      cin += (in[j] == in[i]);
      cout += (a.items[j] == in[i]);
    }
    VP_ASSERT(cin == cout, "C03.b ldb_array_sort: result is a permutation of the input");
  }
  ldb_array_clear(&a);
  VP_ASSERT(!vp_slab_live || VP_N == 0, "storage released");
  VP_WITNESS("sorted");
}
