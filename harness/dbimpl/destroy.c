/* dbimpl/destroy.c -- the REAL ldb_destroy() (src/db_impl.c #included) over a
 * symbolic directory (property C20 "lifecycle operations are exclusive,
 * complete and non-destructive", DESIGN 6 C20.c: "destroy removes the
 * database's own files and nothing else").
 *
 * World (all symbolic):
 *   <db>        listing of <= VP_N pairwise different entries, each an owned
 *               name of any type (log, LOCK, table .ldb/.sst, MANIFEST,
 *               CURRENT, temp, LOG/LOG.old; 64-bit number) or a FOREIGN name
 *               that ldb_parse_filename rejects (kit/vp_d9_names encoding);
 *               the listing may fail with ENOENT (no such database) or any
 *               other error
 *   <db>/lost   the repairer's sub-directory: may contain CURRENT (then it is
 *               a database of its own), listing of <= VP_SUB entries, may fail
 *   lock        ldb_lock_file may fail (database open elsewhere, I/O error);
 *               ldb_unlock_file may fail
 *   unlink      every ldb_remove_file / ldb_remove_dir returns a symbolic status
 *   names       building a path may fail for any listed name (too long)
 *
 * Asserted (independent reference in this file):
 *   - ldb_remove_file is called ONLY for listed names that ldb_parse_filename
 *     accepts, joined with the directory they were listed in -- never for a
 *     foreign name, never for anything that was not listed (except <db>/LOCK);
 *     each owned entry exactly once, in listing order is not required;
 *   - every file is removed while the LOCK is held; the LOCK file itself is
 *     never removed while the lock is held: it is removed exactly once, after
 *     ldb_unlock_file, and after every other file;
 *   - if the lock cannot be taken NOTHING is removed (no file, no directory)
 *     and the lock's error is returned;
 *   - lost/ is looked at only after the own files, only if it has no CURRENT;
 *     then its owned entries are removed (foreign ones kept) and the
 *     directory removal is attempted iff its listing succeeded;
 *   - the database directory removal is attempted last, once, its failure
 *     (foreign files left) is ignored;
 *   - missing directory (listing fails with ENOENT) => LDB_OK without taking
 *     the lock or removing anything; other listing errors are returned;
 *   - the result is OK iff every file removal succeeded and every path could
 *     be built; listings are released exactly once.
 */
#include "dbimpl/world.h"
#include "vp_d9_names.h"

#ifndef VP_N
#define VP_N 5      /* entries of <db> */
#endif
#ifndef VP_SUB
#define VP_SUB 2    /* entries of <db>/lost */
#endif

struct ldb_filelock_s { int held; };

static void vp_on_unlock(void) { }
static void vp_on_wait(ldb_cond_t *cv) { (void)cv; }
static void vp_on_signal(ldb_cond_t *cv, int broadcast) { (void)cv; (void)broadcast; }
void ldb_log(ldb_logger_t *logger, const char *fmt, ...) { (void)logger; (void)fmt; }

/* ---- the world ---------------------------------------------------------- */
static char db_dir[4];
static char dir_name[VP_N + 1][VP9_LEN];
static char *dir_list[VP_N + 1];
static int dir_n, dir_fail, dir_errno;
static int dir_owned[VP_N + 1];
static ldb_filetype_t dir_type[VP_N + 1];

static char sub_name[VP_SUB + 1][VP9_LEN];
static char *sub_list[VP_SUB + 1];
static int sub_n, sub_fail, sub_has_current;
static int sub_owned[VP_SUB + 1];

static struct ldb_filelock_s the_lock;
static int lock_fail_rc;     /* 0: the lock is granted */
static int lockname_fail;    /* <db>/LOCK does not fit the path buffer */

/* ---- recorders ------------------------------------------------------------ */
static int g_clock = 0;
static int g_listed_main = 0, g_listed_sub = 0, g_freed_main = 0, g_freed_sub = 0;
static int g_lock_calls = 0, g_unlock_calls = 0;
static int g_t_lock = 0, g_t_unlock = 0;
static int g_rm_main[VP_N + 1], g_rm_sub[VP_SUB + 1];
static int g_rm_files = 0;            /* ldb_remove_file calls other than <db>/LOCK */
static int g_rm_fail = 0;             /* ... that returned an error */
static int g_first_fail_rc = 0;
static int g_t_last_file = 0, g_t_last_sub_file = 0;
static int g_rm_lockfile = 0, g_t_rm_lockfile = 0;
static int g_rmdir_db = 0, g_t_rmdir_db = 0;
static int g_rmdir_sub = 0, g_t_rmdir_sub = 0;
static int g_t_first_sub = 0;         /* first event that touches lost/ */
static int g_exists_asked = 0;
static int g_syserr_asked = 0;

static int
vp_err(void) {
  int e = vp_int();
  VP_ASSUME(e != LDB_OK);
  return e;
}

int
ldb_system_error(void) {
  g_syserr_asked++;
  return dir_errno;
}

int
ldb_get_children(const char *path, char ***out) {
  g_clock++;
  VP_ASSERT(vp9_is_dir(path), "a directory is listed");
  if (vp9_dir_id(path) == VP9_DB) {
    g_listed_main++;
    VP_ASSERT(g_lock_calls == 0, "the database directory is listed before the lock is asked for");
    if (dir_fail) {
      *out = NULL;
      return -1;
    }
    *out = dir_list;
    return dir_n;
  }
  VP_ASSERT(vp9_dir_id(path) == VP9_LOST, "only <db> and <db>/lost are listed");
  VP_ASSERT(the_lock.held, "lost/ is listed with the LOCK held");
  VP_ASSERT(g_exists_asked && !sub_has_current, "C20.c lost/ is only touched when it has no CURRENT");
  g_listed_sub++;
  if (!g_t_first_sub)
    g_t_first_sub = g_clock;
  if (sub_fail) {
    *out = NULL;
    return -1;
  }
  *out = sub_list;
  return sub_n;
}

void
ldb_free_children(char **list, int len) {
  g_clock++;
  if (list == dir_list) {
    VP_ASSERT(len == dir_n, "listing released with its length");
    g_freed_main++;
  } else {
    VP_ASSERT(list == sub_list && len == sub_n, "the listing that was returned is released");
    g_freed_sub++;
  }
}

int
ldb_file_exists(const char *path) {
  g_clock++;
  VP_ASSERT(vp9_is(path, VP9_LOST, LDB_FILE_CURRENT), "the only existence test is for <db>/lost/CURRENT");
  g_exists_asked++;
  return sub_has_current;
}

int
ldb_lock_file(const char *filename, ldb_filelock_t **lock) {
  g_clock++;
  VP_ASSERT(vp9_is(filename, VP9_DB, LDB_FILE_LOCK), "C20 the lock taken is <db>/LOCK");
  VP_ASSERT(g_lock_calls == 0, "lock asked for once");
  g_lock_calls++;
  g_t_lock = g_clock;
  if (lock_fail_rc != LDB_OK)
    return lock_fail_rc;
  the_lock.held = 1;
  *lock = &the_lock;
  return LDB_OK;
}

int
ldb_unlock_file(ldb_filelock_t *lock) {
  g_clock++;
  VP_ASSERT(lock == &the_lock && the_lock.held, "C20 the lock that is held is released");
  the_lock.held = 0;
  g_unlock_calls++;
  g_t_unlock = g_clock;
  return vp_bool() ? LDB_OK : vp_err();   /* ignored by ldb_destroy */
}

int
ldb_remove_file(const char *path) {
  int i, hit = 0, rc;
  g_clock++;
  VP_ASSERT(g_lock_calls == 1 && lock_fail_rc == LDB_OK, "C20.c nothing is removed unless the lock was taken");
  VP_ASSERT(!vp9_is_dir(path) && vp9_owned(path), "C20.c only names ldb_parse_filename accepts are removed (never a foreign name)");
  if (vp9_is(path, VP9_DB, LDB_FILE_LOCK)) {
    VP_ASSERT(!the_lock.held, "C20.c the LOCK file is never removed while the lock is held");
    VP_ASSERT(g_unlock_calls == 1, "C20.c the LOCK file is removed after the lock was released");
    g_rm_lockfile++;
    g_t_rm_lockfile = g_clock;
    return vp_bool() ? LDB_OK : vp_err();   /* ignored */
  }
  VP_ASSERT(the_lock.held, "C20.c files are removed with the LOCK held");
  VP_ASSERT(g_rm_lockfile == 0, "C20.c the LOCK file is removed last");
  if (vp9_in_dir(path) == VP9_DB) {
    VP_ASSERT(g_listed_main == 1 && !g_freed_main, "names are used while the listing is alive");
    for (i = 0; i < VP_N; i++) {
      /* listed names differ in their slot tag by construction: the tag picks
         the slot, the whole name must then be that slot's */
      if (i < dir_n && vp9_tag(path) == i) {
        VP_ASSERT(vp9_same_base(path, dir_name[i]), "C20.c the name removed is a listed name, unchanged");
        g_rm_main[i]++;
        hit = 1;
      }
    }
  } else {
    VP_ASSERT(vp9_in_dir(path) == VP9_LOST, "C20.c files are removed from <db> and <db>/lost only");
    VP_ASSERT(g_listed_sub == 1 && !sub_fail && !g_freed_sub, "lost/ names are used while its listing is alive");
    if (!g_t_first_sub)
      g_t_first_sub = g_clock;
    for (i = 0; i < VP_SUB; i++) {
      if (i < sub_n && vp9_tag(path) == i) {
        VP_ASSERT(vp9_same_base(path, sub_name[i]), "C20.c the name removed from lost/ is a listed name, unchanged");
        g_rm_sub[i]++;
        hit = 1;
      }
    }
    g_t_last_sub_file = g_clock;
  }
  VP_ASSERT(hit, "C20.c only names that were listed are removed");
  g_rm_files++;
  g_t_last_file = g_clock;
  rc = vp_bool() ? LDB_OK : vp_err();
  if (rc != LDB_OK) {
    if (g_rm_fail == 0)
      g_first_fail_rc = rc;
    g_rm_fail++;
  }
  return rc;
}

int
ldb_remove_dir(const char *path) {
  g_clock++;
  VP_ASSERT(vp9_is_dir(path), "ldb_remove_dir is given a directory");
  VP_ASSERT(g_lock_calls == 1 && lock_fail_rc == LDB_OK, "C20.c no directory is removed unless the lock was taken");
  if (vp9_dir_id(path) == VP9_DB) {
    g_rmdir_db++;
    g_t_rmdir_db = g_clock;
  } else {
    VP_ASSERT(vp9_dir_id(path) == VP9_LOST, "C20.c only <db> and <db>/lost are removed");
    VP_ASSERT(the_lock.held, "lost/ is removed with the LOCK held");
    g_rmdir_sub++;
    g_t_rmdir_sub = g_clock;
  }
  return vp_bool() ? LDB_OK : vp_err();   /* ignored: the directory may hold foreign files */
}

/* ---- set-up ------------------------------------------------------------------ */
static void
init_world(void) {
  int i, t;
  vp9_dir_make(db_dir, VP9_DB);
  dir_n = vp_int();
  VP_ASSUME(dir_n >= 0 && dir_n <= VP_N);
  for (i = 0; i < VP_N; i++) {
    t = vp_int();
    VP_ASSUME(t >= 0 && t <= (int)LDB_FILE_INFO);
    dir_owned[i] = vp_bool();
    dir_type[i] = (ldb_filetype_t)t;
    vp9_name_make(dir_name[i], dir_owned[i], dir_type[i], vp_u64(), vp_bool(), i);
    dir_list[i] = dir_name[i];
    vp9_join_fail[VP9_DB][i] = vp_bool();
    g_rm_main[i] = 0;
  }
  sub_n = vp_int();
  VP_ASSUME(sub_n >= 0 && sub_n <= VP_SUB);
  for (i = 0; i < VP_SUB; i++) {
    t = vp_int();
    VP_ASSUME(t >= 0 && t <= (int)LDB_FILE_INFO);
    sub_owned[i] = vp_bool();
    vp9_name_make(sub_name[i], sub_owned[i], (ldb_filetype_t)t, vp_u64(), vp_bool(), i);
    sub_list[i] = sub_name[i];
    vp9_join_fail[VP9_LOST][i] = vp_bool();
    g_rm_sub[i] = 0;
  }
  dir_fail = vp_bool();
  dir_errno = vp_bool() ? LDB_ENOENT : vp_err();
  sub_fail = vp_bool();
  sub_has_current = vp_bool();
  lock_fail_rc = vp_bool() ? LDB_OK : vp_err();
  lockname_fail = vp_bool();
  vp9_join_fail[VP9_DB][VP9_TAG_FIXED] = lockname_fail;
  vp9_join_fail[VP9_LOST][VP9_TAG_FIXED] = vp_bool();
}

void
harness(void) {
  int i, rc, expect_files = 0, join_failed = 0;
  int expect_main[VP_N + 1], expect_sub[VP_SUB + 1];
  int do_sub;

  init_world();

  /* ---- the real code ---- */
  rc = ldb_destroy(db_dir, NULL);

  /* ---- post-conditions ---- */
  if (lockname_fail) {
    VP_ASSERT(rc == LDB_INVALID, "over-long database name refused");
    VP_ASSERT(g_clock == 0, "over-long database name: no file-system call at all");
    VP_WITNESS("name-too-long-refused");
    return;
  }

  VP_ASSERT(g_listed_main == 1, "the database directory is listed once");

  if (dir_fail) {
    VP_ASSERT(g_lock_calls == 0 && g_rm_files == 0 && g_rm_lockfile == 0 && g_rmdir_db == 0 && g_rmdir_sub == 0 &&
              g_listed_sub == 0, "C20.c unreadable or missing directory: no lock, nothing removed");
    VP_ASSERT(g_freed_main == 0, "no listing to release");
    if (dir_errno == LDB_ENOENT) {
      VP_ASSERT(rc == LDB_OK, "C20.c destroying a database that does not exist is OK");
      VP_WITNESS("missing-directory-ok");
    } else {
      VP_ASSERT(rc == dir_errno, "listing error returned");
      VP_WITNESS("listing-error-returned");
    }
    return;
  }

  VP_ASSERT(g_lock_calls == 1, "the lock is asked for");
  VP_ASSERT(g_freed_main == 1, "listing released exactly once");

  if (lock_fail_rc != LDB_OK) {
    VP_ASSERT(rc == lock_fail_rc, "C20.c lock refused: its error is returned");
    VP_ASSERT(g_rm_files == 0 && g_rm_lockfile == 0 && g_rmdir_db == 0 && g_rmdir_sub == 0,
              "C20.c lock refused: nothing at all is removed");
    VP_ASSERT(g_listed_sub == 0 && g_unlock_calls == 0, "lock refused: lost/ untouched, nothing unlocked");
    VP_WITNESS("lock-refused-nothing-removed");
    return;
  }

  /* reference: what has to go */
  for (i = 0; i < VP_N; i++) {
    expect_main[i] = 0;
    if (i < dir_n && dir_owned[i] && dir_type[i] != LDB_FILE_LOCK) {
      if (vp9_join_fail[VP9_DB][i])
        join_failed++;
      else
        expect_main[i] = 1;
    }
    expect_files += expect_main[i];
  }
  do_sub = !sub_has_current && !vp9_join_fail[VP9_LOST][VP9_TAG_FIXED];
  for (i = 0; i < VP_SUB; i++) {
    expect_sub[i] = 0;
    if (do_sub && !sub_fail && i < sub_n && sub_owned[i]) {
      if (vp9_join_fail[VP9_LOST][i])
        join_failed++;
      else
        expect_sub[i] = 1;
    }
    expect_files += expect_sub[i];
  }

  for (i = 0; i < VP_N; i++)
    VP_ASSERT(g_rm_main[i] == expect_main[i], "C20.c every own file except LOCK is removed exactly once, foreign names never");
  for (i = 0; i < VP_SUB; i++)
    VP_ASSERT(g_rm_sub[i] == expect_sub[i], "C20.c lost/: own files removed once iff lost/ has no CURRENT, foreign names never");
  VP_ASSERT(g_rm_files == expect_files, "C20.c number of unlink calls == size of the reference set");

  VP_ASSERT(g_exists_asked == (vp9_join_fail[VP9_LOST][VP9_TAG_FIXED] ? 0 : 1), "lost/CURRENT looked up once");
  VP_ASSERT(g_listed_sub == (do_sub ? 1 : 0), "C20.c lost/ listed iff it has no CURRENT");
  VP_ASSERT(g_rmdir_sub == ((do_sub && !sub_fail) ? 1 : 0), "lost/ removed iff it was handled and could be listed");
  VP_ASSERT(g_freed_sub == ((do_sub && !sub_fail) ? 1 : 0), "lost/ listing released exactly once");
  if (g_rmdir_sub)
    VP_ASSERT(g_t_rmdir_sub > g_t_last_sub_file && g_t_rmdir_sub > g_t_first_sub, "lost/ removed after its files");

  VP_ASSERT(g_unlock_calls == 1 && !the_lock.held, "C20 the lock is released");
  VP_ASSERT(g_rm_lockfile == 1, "C20.c the LOCK file is removed exactly once");
  VP_ASSERT(g_rmdir_db == 1, "the database directory removal is attempted once");
  VP_ASSERT(g_t_lock < g_t_unlock && g_t_unlock < g_t_rm_lockfile && g_t_rm_lockfile < g_t_rmdir_db,
            "C20.c order: lock, ..., unlock, remove LOCK, remove directory");
  VP_ASSERT(g_rm_files == 0 || (g_t_lock < g_t_last_file && g_t_last_file < g_t_unlock),
            "C20.c every file is removed between lock and unlock");
  VP_ASSERT(g_rmdir_sub == 0 || (g_t_lock < g_t_rmdir_sub && g_t_rmdir_sub < g_t_unlock),
            "lost/ is removed between lock and unlock");

  if (join_failed)
    VP_ASSERT(rc != LDB_OK, "a name that could not be built is reported");
  else if (g_rm_fail)
    VP_ASSERT(rc == g_first_fail_rc, "C20.c the first failed removal is returned");
  else
    VP_ASSERT(rc == LDB_OK, "everything removed: OK (failures of unlock / LOCK removal / rmdir are ignored)");

#if VP_N >= 1
  if (rc == LDB_OK && expect_files == VP_N + VP_SUB)
    VP_WITNESS("everything-removed");
  if (dir_n >= 1 && !dir_owned[0])
    VP_WITNESS("foreign-name-kept");
  if (dir_n >= 1 && dir_owned[0] && dir_type[0] == LDB_FILE_LOCK)
    VP_WITNESS("listed-lock-skipped-removed-last");
  if (dir_n >= 1 && dir_owned[0] && dir_type[0] == LDB_FILE_CURRENT && expect_main[0])
    VP_WITNESS("current-removed");
  if (g_rm_fail && !join_failed)
    VP_WITNESS("removal-failure-returned");
  if (join_failed)
    VP_WITNESS("name-too-long-reported");
#endif
#if VP_SUB >= 1
  if (sub_has_current)
    VP_WITNESS("lost-is-a-database-untouched");
  if (do_sub && sub_fail)
    VP_WITNESS("lost-missing");
  if (do_sub && !sub_fail && sub_n >= 1 && expect_sub[0])
    VP_WITNESS("lost-emptied");
  if (do_sub && !sub_fail && sub_n >= 1 && !sub_owned[0])
    VP_WITNESS("lost-foreign-kept");
#endif
#if VP_N == 0
  VP_WITNESS("empty-directory");
#endif
}
