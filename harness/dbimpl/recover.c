/* dbimpl/recover.c -- one call of the REAL ldb_recover() (src/db_impl.c, with
 * the real ldb_new_db, ldb_recover_log_file, ldb_write_level0_table and the
 * real quicksort of util/array.c) over a symbolic directory listing.
 *
 *   C03.b  the logs replayed are exactly {n in the directory : n >= log_number
 *          or n == prev_log_number}, each once, in ascending number order
 *   C03.b  ldb_versions_mark_file_number for every replayed log (the file
 *          number counter ends above every replayed log)
 *   C03.b  versions->last_sequence ends >= every replayed batch's last
 *          sequence (== max(recovered, replayed))
 *   C03.b  a table of the recovered version that no directory entry names
 *          => LDB_CORRUPTION, nothing replayed
 *   C05.c  ldb_recover deletes, renames and truncates nothing (the only files
 *          it creates: MANIFEST-1 + CURRENT of a NEW db, level-0 tables under
 *          fresh numbers; the only file it may open for appending: the last
 *          log, with reuse_logs)
 *   C20    create_if_missing / error_if_exists: LDB_INVALID without touching
 *          a file; a new db is committed by CURRENT only after its MANIFEST
 *          was written, synced and closed, and a failed creation removes it
 *   C12    every failure is returned
 *
 * See recover_world.h for the models.
 */
#include "dbimpl/recover_world.h"

static int vp_second_listing_ok(int kind, uint64_t num) { (void)kind; (void)num; return 1; }
static int vp_remove_permitted(const char *name) { (void)name; return 0; }

void
harness(void) {
  ldb_t *db = &the_db;
  ldb_edit_t edit;
  int save_manifest = 0, rc, i, j, paranoid, create, eie;
  int nneeded, missing_any;
  uint64_t maxlog = 0;

  /* ---- pre-state: ldb_open has just built the db object ---- */
  vp_db_mutex = &db->mutex;
  db->versions = &vs;
  vs.next_file_number = 2;
  paranoid = vp_bool();
  create = vp_bool();
  eie = vp_bool();
  db->options.paranoid_checks = paranoid;
  db->options.create_if_missing = create;
  db->options.error_if_exists = eie;
  db->options.reuse_logs = vp_bool();
  db->options.write_buffer_size = vp_size();
  db->options.info_log = &the_logger;
  ldb_ikc_init(&db->internal_comparator, ldb_bytewise_comparator);
  db->mem = NULL;
  db->imm = NULL;
  db->log = NULL;
  db->logfile = NULL;
  db->logfile_number = 0;
  db->db_lock = NULL;
  rb_set64_init(&db->pending_outputs);
  ldb_edit_init(&edit);

  ldb_mutex_lock(&db->mutex);

  /* ---- the real code ---- */
  rc = ldb_recover(db, &edit, &save_manifest);

  /* ---- post-conditions ---- */
  VP_ASSERT(vp_mutex_held, "mutex held on return");
  VP_ASSERT(g_create_dir == 1, "directory created if missing");
  VP_ASSERT(!the_rfile.open && !g_reader_live && !the_iter_live, "log file, reader and iterators released on every path");
  VP_ASSERT(g_renames == 0, "C05.c ldb_recover renames nothing");
  VP_ASSERT(g_removes_other == 0 && g_removes == g_manifest1_removed, "C05.c ldb_recover removes nothing but the MANIFEST of a failed creation");
  VP_ASSERT(g_truncs_other == 0 && g_t_newlog_create == 0, "C05.c ldb_recover truncates/creates nothing but the MANIFEST of a new db");
  VP_ASSERT(g_applies == 0 && g_scheduled == 0, "ldb_recover neither applies the edit nor schedules work");
  VP_ASSERT(db->pending_outputs.size == 0, "pending_outputs empty again");
  VP_ASSERT((db->db_lock != NULL) == (g_lock_rc == LDB_OK) && the_lock.unlocks == 0, "db_lock non-null iff the lock was acquired; not released here");

  if (g_lock_rc != LDB_OK) {
    VP_ASSERT(rc == g_lock_rc, "C20 lock failure returned");
    VP_ASSERT(g_env_calls == 0 && g_exists_asked == 0 && g_t_vrecover == 0 && vp_listings == 0, "C20 nothing inspected or touched without the lock");
    VP_WITNESS("lock-failed");
    return;
  }

  VP_ASSERT(g_exists_asked == 1, "existence checked once");

  if (!g_exists && !create) {
    VP_ASSERT(rc == LDB_INVALID, "C20 missing db without create_if_missing: INVALID");
    VP_ASSERT(g_env_calls == 0 && vp_listings == 0, "C20 ... and no MANIFEST, CURRENT, log or table was read, created or removed (only the directory and LOCK were made)");
    VP_WITNESS("missing-not-created");
    return;
  }
  if (g_exists && eie) {
    VP_ASSERT(rc == LDB_INVALID, "C20 existing db with error_if_exists: INVALID");
    VP_ASSERT(g_env_calls == 0 && vp_listings == 0, "C20 ... and no MANIFEST, CURRENT, log or table was read, created or removed (only the directory and LOCK were made)");
    VP_WITNESS("exists-error-if-exists");
    return;
  }

  if (!g_exists) {
    /* ldb_new_db */
    VP_ASSERT(g_newdb_manifest_created, "new db: MANIFEST-1 created");
    if (g_newdb_create_rc != LDB_OK) {
      VP_ASSERT(rc == g_newdb_create_rc && g_t_set_current == 0 && g_removes == 0, "new db: MANIFEST creation failure returned, CURRENT untouched");
      VP_WITNESS("newdb-manifest-create-failed");
      return;
    }
    VP_ASSERT(g_newdb_exported == 1 && g_newdb_export_ok, "new db: MANIFEST record = comparator name, log 0, next file 2, last sequence 0");
    VP_ASSERT(wf_manifest.destroyed, "new db: MANIFEST file released");
    if (g_newdb_record_rc != LDB_OK || g_newdb_sync_rc != LDB_OK || g_newdb_close_rc != LDB_OK) {
      VP_ASSERT(rc != LDB_OK && g_t_set_current == 0, "new db: CURRENT not written after a failed MANIFEST write/sync/close");
      VP_ASSERT(g_manifest1_removed, "new db: failed MANIFEST removed");
      VP_ASSERT(g_t_vrecover == 0, "new db: failure returned before recovery");
      VP_WITNESS("newdb-manifest-write-failed");
      return;
    }
    VP_ASSERT(g_t_newdb_record < g_t_newdb_sync && g_t_newdb_sync < g_t_newdb_close && g_t_newdb_close < g_t_set_current,
              "C20 new db: MANIFEST written, synced, closed, and only then CURRENT points to it");
    VP_ASSERT(wf_manifest.synced && g_set_current_num == 1 && g_removes == 0, "new db: CURRENT names MANIFEST-1");
    if (g_set_current_rc != LDB_OK) {
      VP_ASSERT(rc == g_set_current_rc && g_t_vrecover == 0, "new db: CURRENT failure returned");
      VP_WITNESS("newdb-current-failed");
      return;
    }
  } else {
    VP_ASSERT(!g_newdb_manifest_created && g_t_set_current == 0 && g_newdb_exported == 0, "existing db: no MANIFEST/CURRENT written by ldb_recover");
  }

  VP_ASSERT(g_t_vrecover > g_t_lock, "MANIFEST recovered after the lock was taken");
  if (g_vrecover_rc != LDB_OK) {
    VP_ASSERT(rc == g_vrecover_rc, "C05.e MANIFEST recovery failure returned");
    VP_ASSERT(vp_listings == 0 && g_nreplayed == 0, "... before any log is looked at");
    VP_WITNESS("versions-recover-failed");
    return;
  }
  VP_ASSERT(vp_listings == 1, "directory listed once");
  if (g_listing1_failed) {
    VP_ASSERT(rc != LDB_OK && g_nreplayed == 0, "C12 directory listing failure returned");
    VP_WITNESS("listing-failed");
    return;
  }
  VP_ASSERT(g_children_freed == 1, "listing released");

  /* ---- reference: which logs must be replayed; which tables are missing ---- */
  nneeded = 0;
  for (i = 0; i < VP_NAMES; i++) {
    if (vp_dir1_kind[i] == VP_KIND(LDB_FILE_LOG) && vp_log_needed(vp_dir1_num[i])) {
      nneeded++;
      if (vp_dir1_num[i] > maxlog)
        maxlog = vp_dir1_num[i];
    }
  }
  missing_any = 0;
  for (j = 0; j < VP_TABLES; j++) {
    if (vp_vtbl_used[j]) {
      int named = 0;
      for (i = 0; i < VP_NAMES; i++)
        if (vp_dir1_kind[i] != VP_K_FOREIGN && vp_dir1_kind[i] != VP_KIND(LDB_FILE_CURRENT) &&
            vp_dir1_kind[i] != VP_KIND(LDB_FILE_LOCK) && vp_dir1_kind[i] != VP_KIND(LDB_FILE_INFO) &&
            vp_dir1_num[i] == vp_vtbl[j])
          named = 1;
      /* CURRENT, LOCK and the info logs parse with number 0; tables are numbered >= 1 */
      if (!named)
        missing_any = 1;
    }
  }

  if (missing_any) {
    VP_ASSERT(rc == LDB_CORRUPTION, "C03.b a table of the version that the directory lacks => CORRUPTION");
    VP_ASSERT(g_nreplayed == 0 && g_builds == 0, "... and nothing is replayed");
    VP_WITNESS("missing-table");
    return;
  }

  /* ---- replay: a prefix of the ascending list of needed logs ---- */
  VP_ASSERT(g_nreplayed <= nneeded, "C03.b no log replayed twice, none outside the needed set");
  for (i = 0; i < VP_NAMES; i++) {
    if (i < g_nreplayed) {
      int below = 0;
      VP_ASSERT(vp_dir1_has(VP_KIND(LDB_FILE_LOG), g_replayed[i]) && vp_log_needed(g_replayed[i]),
                "C03.b a replayed log is in the directory and numbered >= log_number or == prev_log_number");
      if (i > 0)
        VP_ASSERT(g_replayed[i - 1] < g_replayed[i], "C03.b logs replayed in ascending number order");
      /* every needed log below this one came earlier */
      for (j = 0; j < VP_NAMES; j++)
        if (vp_dir1_kind[j] == VP_KIND(LDB_FILE_LOG) && vp_log_needed(vp_dir1_num[j]) && vp_dir1_num[j] < g_replayed[i])
          below++;
      VP_ASSERT(below == i, "C03.b no needed log is skipped");
    }
  }
  VP_ASSERT(g_nmarked <= g_nreplayed && g_nmarked >= g_nreplayed - 1, "mark_file_number follows each replayed log");
  for (i = 0; i < VP_NAMES; i++)
    if (i < g_nmarked)
      VP_ASSERT(g_marked[i] == g_replayed[i], "C03.b replayed log numbers are marked as used");

  if (rc == LDB_OK) {
    VP_ASSERT(g_nreplayed == nneeded && g_nmarked == nneeded, "C03.b every needed log replayed and marked");
    if (nneeded > 0)
      VP_ASSERT(vs.next_file_number > maxlog, "C03.b file numbers allocated from now on are above every replayed log");
    VP_ASSERT(vs.next_file_number >= g_rec_next_file, "file number counter never lowered");
    for (i = 0; i < VP_NAMES; i++)
      if (i < g_nreplayed)
        VP_ASSERT(!g_open_failed[i] && g_replayed_ok[i], "C12 a log that could not be opened is never treated as recovered");
    VP_ASSERT(g_missed == 0, "C03.b every record of >= 12 bytes of every needed log was replayed");
    VP_ASSERT(g_lost_mem == 0, "C03.b no replayed record dropped: memtables written out or kept as db->mem");
    VP_ASSERT(vs.last_sequence >= g_rec_last_seq, "last_sequence never lowered");
    if (g_any_inserted)
      VP_ASSERT(vs.last_sequence == (g_ref_max_seq > g_rec_last_seq ? g_ref_max_seq : g_rec_last_seq),
                "C03.b last_sequence = max(recovered, last sequence of every replayed batch)");
    else
      VP_ASSERT(vs.last_sequence == g_rec_last_seq, "no batch replayed: last_sequence as recovered");
    VP_ASSERT(vs.log_number == g_rec_log_number && vs.prev_log_number == g_rec_prev_log, "log_number/prev_log_number unchanged until the edit is applied");
    if (g_builds > 0)
      VP_ASSERT(save_manifest == 1, "tables written => MANIFEST must be saved");
    for (i = 0; i < VP_NEWTBL; i++)
      if (i < g_nnewtbl)
        VP_ASSERT(g_newtbl_added[i] == g_newtbl_ok[i] && g_newtbl[i] >= g_rec_next_file, "every non-empty table written is in the edit, under a fresh number");
    VP_ASSERT(g_added_edit == NULL || g_added_edit == &edit, "tables recorded in the caller's edit");
    if (db->mem != NULL) {
      VP_ASSERT(db->options.reuse_logs && nneeded > 0 && db->logfile_number == maxlog && g_append_num == maxlog,
                "only the LAST log is reused (last_log flag)");
      VP_ASSERT(db->log != NULL && db->logfile != NULL && g_writer_length == g_filesize, "reused log: writer at file size");
      VP_WITNESS("last-log-reused");
    } else {
      VP_ASSERT(db->log == NULL && db->logfile == NULL && g_writer_created == 0, "no log reused: no writer");
    }
    if (!g_exists)
      VP_WITNESS("new-db-created");
#if VP_NAMES >= 2
    if (nneeded >= 2)
      VP_WITNESS("two-logs-replayed");
    if (nneeded >= 1 && vp_dir1_has(VP_KIND(LDB_FILE_LOG), g_rec_prev_log) && g_rec_prev_log < g_rec_log_number)
      VP_WITNESS("prev-log-replayed");
#endif
    if (nneeded == 0)
      VP_WITNESS("no-log");
#if VP_RECS > 0
    if (g_any_inserted && g_ref_max_seq > g_rec_last_seq)
      VP_WITNESS("last-sequence-raised");
    if (g_builds > 0)
      VP_WITNESS("table-written");
#endif
  } else {
    VP_ASSERT(g_nreplayed >= 1 && g_nmarked == g_nreplayed - 1, "C12 recovery stops at the first log whose replay fails");
    VP_ASSERT(db->mem == NULL && db->log == NULL, "failed recovery reuses no log");
    VP_WITNESS("replay-failed");
    for (i = 0; i < VP_NAMES; i++) {
      if (i == g_nreplayed - 1 && g_open_failed[i]) {
        VP_ASSERT(rc == g_logopen_rc, "C12 failure to open a log is the returned status");
        VP_WITNESS("log-open-failed-error-returned");
      }
    }
  }
}
