/* dbimpl/gc.c -- the REAL ldb_remove_obsolete_files() (src/db_impl.c) from an
 * arbitrary state (property C13 "files are deleted exactly when nobody needs
 * them", DESIGN 6 C13.a/e; also C12.a "no unlink after a latched error").
 *
 * State (all symbolic): a directory of <= VP_N pairwise different entries,
 * each an owned name (type, number, spelling) or a foreign name; <= VP_LIVE
 * table numbers referenced by some version; <= VP_PEND numbers in
 * db->pending_outputs; versions->log_number / prev_log_number /
 * manifest_file_number; bg_error; directory listing may fail.
 *
 * Asserted:
 *   - the set of ldb_remove_file() calls == independent reference
 *       foreign name: keep            CURRENT, LOCK, LOG, LOG.old: keep
 *       log:      removed iff number < log_number and number != prev_log_number
 *       MANIFEST: removed iff number < manifest_file_number
 *       table, temp: removed iff number not in (live U pending_outputs)
 *     each removed once, nothing that was not listed is removed;
 *   - the name handed to ldb_remove_file is the listed name joined with dbname;
 *   - every removed table is evicted from the table cache, no other eviction;
 *   - bg_error latched: the directory is not even listed, nothing removed,
 *     the mutex is never released;
 *   - unlink happens with the mutex released, the decisions (parse, live set,
 *     evictions) with the mutex held; the mutex is held again on return;
 *   - pending_outputs is left unchanged;
 *   - VP_TWICE: a second collection in the same state removes nothing more
 *     (only entries whose unlink failed the first time): the directory is
 *     exactly the needed files (C13.e leak-freedom at quiescence).
 *
 * Environment while the mutex is released: other threads may latch an error,
 * start shutting down and (VP_HAVOC) the version counters are overwritten with
 * arbitrary values: the removal set was fixed under the mutex.
 */
#include "dbimpl/gcworld.h"

#ifndef VP_TWICE
#define VP_TWICE 0
#endif
#ifndef VP_HAVOC
#define VP_HAVOC 1
#endif

static int g_unlocked_at_evicts = -1;   /* evictions done when the mutex was released */
static int g_unlocked_at_parses = -1;
static int g_unlocked_at_addfiles = -1;

static void
vp_on_unlock(void) {
  VP_ASSERT(g_removed_total == 0 || VP_TWICE, "nothing is unlinked before the mutex is released");
  g_unlocked_at_evicts = g_evict_total;
  g_unlocked_at_parses = vp_names_parses;
  g_unlocked_at_addfiles = g_addfiles;
  /* interference */
  if (vp_bool())
    db.bg_error = LDB_IOERR;
  if (vp_bool())
    db.shutting_down = 1;
#if VP_HAVOC
  vs.log_number = vp_u64();
  vs.prev_log_number = vp_u64();
  vs.manifest_file_number = vp_u64();
#endif
}

static void
vp_on_gc_start(void) {
}

static void
vp_on_wait(ldb_cond_t *cv) {
  (void)cv;
  VP_ASSERT(0, "the collector never waits");
}

static void
vp_on_signal(ldb_cond_t *cv, int broadcast) {
  (void)cv; (void)broadcast;
}

void ldb_log(ldb_logger_t *logger, const char *fmt, ...) { (void)logger; (void)fmt; }

static void
check_pending_unchanged(void) {
  uint64_t x = vp_u64();   /* any number */
  VP_ASSERT(rb_set64_has(&db.pending_outputs, x) == ref_in_pending(x), "pending_outputs is left unchanged");
}

void
harness(void) {
  int i, k, bg_error0, expect_total = 0, removed_tables = 0;
  int expect[VP_N];
  uint64_t log_number, prev_log_number, manifest_number;

  /* ---- arbitrary pre-state ---- */
  gcworld_init_db();
  gcworld_init_dir();
  gcworld_init_live();
  dir_fail = vp_bool();
  pend_n = vp_int();
  VP_ASSUME(pend_n >= 0 && pend_n <= VP_PEND);
  for (k = 0; k < VP_PEND; k++) {
    pend_num[k] = vp_u64();
    vp_set_add_at(&db.pending_outputs, k, k < pend_n, pend_num[k]);
  }
  vs.log_number = vp_u64();
  vs.prev_log_number = vp_u64();
  vs.manifest_file_number = vp_u64();
  log_number = vs.log_number;
  prev_log_number = vs.prev_log_number;
  manifest_number = vs.manifest_file_number;
  db.bg_error = vp_bool() ? LDB_OK : (vp_bool() ? LDB_IOERR : LDB_CORRUPTION);
  bg_error0 = db.bg_error;
  db.shutting_down = vp_bool();

  for (i = 0; i < VP_N; i++) {
    expect[i] = 0;
    if (i < dir_n && bg_error0 == LDB_OK && !dir_fail)
      expect[i] = !ref_keep(i, log_number, prev_log_number, manifest_number);
    expect_total += expect[i];
  }

  /* ---- the real code ---- */
  vp_mutex_held = 1;
  ldb_remove_obsolete_files(&db);

  /* ---- post-conditions ---- */
  VP_ASSERT(vp_mutex_held, "mutex held again on return");
  check_pending_unchanged();

  if (bg_error0 != LDB_OK) {
    VP_ASSERT(g_listed == 0 && g_addfiles == 0, "C12.a/C13 latched error: directory not listed");
    VP_ASSERT(g_removed_total == 0 && g_evict_total == 0, "C12.a/C13 latched error: nothing removed, nothing evicted");
    VP_ASSERT(vp_unlocks == 0, "latched error: returns without releasing the mutex");
    VP_WITNESS("bg-error-latched");
    return;
  }

  VP_ASSERT(g_listed == 1 && g_addfiles == 1, "directory listed once, live set built once");
  VP_ASSERT(vp_unlocks == 1, "mutex released exactly once");
  VP_ASSERT(g_unlocked_at_addfiles == 1 && g_unlocked_at_parses == vp_names_parses &&
            g_unlocked_at_evicts == g_evict_total,
            "live set, parsing and evictions all happen before the mutex is released");
  VP_ASSERT(dir_fail || g_freed, "listing released");

  for (i = 0; i < VP_N; i++) {
    VP_ASSERT(g_removed[i] == expect[i], "C13 removed set == reference (removed iff not needed; each once)");
    if (i < dir_n && dir_owned[i] && dir_type[i] == LDB_FILE_TABLE && expect[i])
      removed_tables++;
  }
  VP_ASSERT(g_removed_total == expect_total, "C13 number of unlink calls == size of the reference set");
  VP_ASSERT(vp_names_joins == g_removed_total, "one join per removed name");
  for (i = 0; i < VP_N; i++) {
    if (i < dir_n && dir_owned[i] && dir_type[i] == LDB_FILE_TABLE) {
      /* two spellings of one table number (N.ldb, N.sst) share the eviction */
      if (expect[i])
        VP_ASSERT(g_evicted[i] >= 1, "C13 removed table evicted from the table cache");
      else
        VP_ASSERT(g_evicted[i] == 0, "table that stays is not evicted");
    }
  }
  VP_ASSERT(g_evict_total == removed_tables, "one eviction per removed table, no other");

  if (dir_fail) {
    VP_ASSERT(g_removed_total == 0, "failed listing: nothing removed");
    VP_WITNESS("listing-failed");
    return;
  }

#if VP_TWICE
  {
    int again[VP_N], again_total = 0;
    /* second collection; state as the first one saw it, no error in between */
    VP_ASSUME(db.bg_error == LDB_OK);
    vs.log_number = log_number;
    vs.prev_log_number = prev_log_number;
    vs.manifest_file_number = manifest_number;
    for (i = 0; i < VP_N; i++) {
      again[i] = expect[i] && dir_present[i];   /* unlink failed the first time */
      again_total += again[i];
      g_removed[i] = 0;
    }
    g_removed_total = 0;
    ldb_remove_obsolete_files(&db);
    for (i = 0; i < VP_N; i++)
      VP_ASSERT(g_removed[i] == again[i], "C13.e second collection removes nothing that the first one kept");
    VP_ASSERT(g_removed_total == again_total, "C13.e second collection: nothing but retried unlinks");
    if (again_total == 0 && expect_total > 0)
      VP_WITNESS("second-collection-idle");
  }
#else
#if VP_N >= 1
  if (expect_total == 0 && dir_n == VP_N)
    VP_WITNESS("nothing-to-remove");
  if (expect[0] && dir_type[0] == LDB_FILE_LOG)
    VP_WITNESS("old-log-removed");
  if (expect[0] && dir_type[0] == LDB_FILE_DESC)
    VP_WITNESS("old-manifest-removed");
  if (expect[0] && dir_type[0] == LDB_FILE_TABLE)
    VP_WITNESS("dead-table-removed");
  if (expect[0] && dir_type[0] == LDB_FILE_TEMP)
    VP_WITNESS("stale-temp-removed");
  if (!expect[0] && dir_n >= 1 && dir_owned[0] && dir_type[0] == LDB_FILE_TABLE && ref_in_pending(dir_num[0]) && !ref_in_live(dir_num[0]))
    VP_WITNESS("pending-output-kept");
  if (!expect[0] && dir_n >= 1 && dir_owned[0] && dir_type[0] == LDB_FILE_LOG && dir_num[0] < log_number)
    VP_WITNESS("prev-log-kept");
  if (dir_n >= 1 && !dir_owned[0])
    VP_WITNESS("foreign-name-kept");
#endif
#if VP_N >= 2
  if (expect_total == VP_N)
    VP_WITNESS("everything-removed");
#endif
#if VP_N == 0
  VP_WITNESS("empty-directory");
#endif
#endif
}
