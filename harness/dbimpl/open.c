/* dbimpl/open.c -- one call of the REAL ldb_open() (src/db_impl.c: ldb_create,
 * ldb_sanitize_options, ldb_recover, ldb_new_db, ldb_recover_log_file,
 * ldb_write_level0_table, ldb_remove_obsolete_files,
 * ldb_maybe_schedule_compaction, ldb_destroy_internal) over a symbolic
 * directory, with every env call able to fail.
 *
 *   C03.d  a NEW log number is allocated only after recovery finished (above
 *          every replayed log and every table written during recovery), the
 *          log file is created under it, and the edit that is applied names
 *          the log that really is the current one (log_number ==
 *          db->logfile_number, prev_log_number == 0) and carries every table
 *          written during recovery
 *   C05.c  recovery is non-destructive until committed: nothing is removed
 *          before ldb_versions_apply succeeded (when an edit was needed); a
 *          log removed afterwards was replayed completely (or was already
 *          obsolete for the recovered MANIFEST), is below the new log_number
 *          and is not the current log; tables of the version / of the edit,
 *          MANIFESTs >= manifest_file_number, CURRENT, LOCK, info logs and
 *          foreign files are never removed; compaction is scheduled last
 *   C20.b  on ANY failure: the error is returned, *dbptr stays NULL, the lock
 *          taken in ldb_recover is released (unlock iff lock succeeded), every
 *          file, writer, memtable, cache, pool, version set and the db object
 *          itself are released, and no background work was scheduled
 *   C05.d  success: db has a live memtable and an open log whose number is
 *          db->logfile_number; the lock stays held
 *
 * See recover_world.h for the models.
 */
#include "dbimpl/recover_world.h"

static int g_need_apply = 0;
static int g_path_ok = 0;

/* ldb_open must save the MANIFEST iff ldb_versions_recover asked for it or a
   table was written during recovery */
static int
vp_need_apply(void) {
  return g_vr_save_manifest || g_builds > 0;
}

static int
vp_is_new_table(uint64_t num) {
  int i, r = 0;
  for (i = 0; i < VP_NEWTBL; i++)
    if (i < g_nnewtbl && g_newtbl_added[i] && g_newtbl[i] == num)
      r = 1;
  return r;
}

static int
vp_is_version_table(uint64_t num) {
  int i, r = 0;
  for (i = 0; i < VP_TABLES; i++)
    if (vp_vtbl_used[i] && vp_vtbl[i] == num)
      r = 1;
  return r;
}

/* The directory is locked: between the two listings only this ldb_open
   created files (new log, level-0 tables, MANIFEST-1 of a new db). */
static int
vp_second_listing_ok(int kind, uint64_t num) {
  if (kind == VP_KIND(LDB_FILE_LOG))
    return vp_dir1_has(kind, num) || (g_t_newlog_create != 0 && g_newlog_rc == LDB_OK && num == g_newlog_num);
  if (kind == VP_KIND(LDB_FILE_TABLE))
    return vp_dir1_has(kind, num) || vp_is_new_table(num);
  if (kind == VP_KIND(LDB_FILE_DESC))
    return vp_dir1_has(kind, num) || num == vs.manifest_file_number || (num == 1 && g_newdb_manifest_created);
  return 1;
}

#define VP_LOGRM_MSG "C05.c/C12 a log removed after recovery was opened and replayed completely (or was obsolete before)"

static int
vp_remove_permitted(const char *name) {
  int kind = vp_name_kind(name);
  uint64_t num = vp_name_num(name);
  if (vp_need_apply() && g_apply_rc != LDB_OK)
    return 0;                       /* C05.c nothing is removed before the recovery edit is committed */
  if (g_t_listing2 == 0)
    return 0;
  if (kind == VP_KIND(LDB_FILE_LOG)) {
    VP_ASSERT(vp_was_replayed_ok(num) || !vp_log_needed(num), VP_LOGRM_MSG);
    return num < vs.log_number && num != vs.prev_log_number && num != the_db.logfile_number;
  }
  if (kind == VP_KIND(LDB_FILE_TABLE))
    return !vp_is_version_table(num) && !vp_is_new_table(num);
  if (kind == VP_KIND(LDB_FILE_DESC))
    return num < vs.manifest_file_number;
  if (kind == VP_KIND(LDB_FILE_TEMP))
    return 1;
  return 0;                         /* CURRENT, LOCK, info logs, foreign files */
}

int
ldb_path_absolute(char *buf, size_t size, const char *name) {
  (void)size;
  g_path_ok = vp_bool();
  if (!g_path_ok)
    return 0;
  buf[0] = name[0];
  buf[1] = 0;
  return 1;
}

int
ldb_versions_apply(ldb_versions_t *v, ldb_edit_t *edit, ldb_mutex_t *mu) {
  int i;
  VP_ASSERT(v == &vs && mu == &the_db.mutex && vp_mutex_held, "edit applied with the db mutex held");
  VP_ASSERT(g_applies == 0, "one edit applied by ldb_open");
  VP_STAMP(g_t_apply);
  g_applies++;
  g_env_calls++;
  VP_ASSERT(g_removes == g_manifest1_removed && g_scheduled == 0, "C05.c nothing removed or scheduled before the edit is applied");
  VP_ASSERT(the_db.mem != NULL && the_db.log != NULL && the_db.logfile != NULL && !the_db.logfile->destroyed,
            "C03.d the current log exists (created or reused) before the edit that names it is applied");
  VP_ASSERT(edit->has_log_number && edit->log_number == the_db.logfile_number && the_db.logfile->num == edit->log_number,
            "C03.d edit.log_number == number of the current log file");
  VP_ASSERT(edit->has_prev_log_number && edit->prev_log_number == 0, "C03.d edit.prev_log_number == 0");
  VP_ASSERT(g_added_edit == NULL || g_added_edit == edit, "the applied edit is the one the recovered tables were added to");
  VP_ASSERT(g_lost_mem == 0, "C03.d every replayed record is in a table of the edit or in db->mem");
  for (i = 0; i < VP_NEWTBL; i++)
    if (i < g_nnewtbl)
      VP_ASSERT(g_newtbl_added[i] == g_newtbl_ok[i] && (wf_applog_used || g_newtbl[i] < edit->log_number),
                "C03.d tables written during recovery are in the edit, numbered below a newly allocated log (a reused last log keeps its old number)");
  for (i = 0; i < VP_NAMES; i++)
    if (i < g_nreplayed)
      VP_ASSERT(g_replayed[i] < edit->log_number || (wf_applog_used && i == g_nreplayed - 1 && g_replayed[i] == edit->log_number),
                "C03.d edit.log_number is above every replayed log (or is the reused last log)");
  /* the mutex is released while the MANIFEST is written */
  ldb_mutex_unlock(mu);
  g_apply_rc = vp_fault();
  ldb_mutex_lock(mu);
  if (g_apply_rc == LDB_OK) {
    v->log_number = edit->log_number;
    v->prev_log_number = edit->prev_log_number;
    vp_newtbl_in_version = 1;
  }
  return g_apply_rc;
}

void
harness(void) {
  static ldb_dbopt_t opt;
  ldb_t *dbp = &the_db;   /* any non-null value */
  int rc, i, own_log, own_cache;

  vp_db_mutex = &the_db.mutex;
  opt.comparator = NULL;
  opt.filter_policy = NULL;
  opt.create_if_missing = vp_bool();
  opt.error_if_exists = vp_bool();
  opt.paranoid_checks = vp_bool();
  opt.reuse_logs = vp_bool();
  opt.info_log = vp_bool() ? &the_logger : NULL;
  opt.block_cache = vp_bool() ? &the_lru : NULL;
  opt.write_buffer_size = vp_size();
  opt.max_open_files = vp_int();
  opt.block_size = vp_size();
  opt.max_file_size = vp_size();
  opt.block_restart_interval = 16;
  opt.compression = LDB_NO_COMPRESSION;
  opt.use_mmap = 0;
  own_log = (opt.info_log == NULL);
  own_cache = (opt.block_cache == NULL);

  /* ---- the real code ---- */
  rc = ldb_open("d", &opt, &dbp);

  /* ---- post-conditions ---- */
  VP_ASSERT(!vp_mutex_held, "mutex released on return");
  if (!g_path_ok) {
    VP_ASSERT(rc == LDB_INVALID && dbp == NULL && !the_db_allocated && g_env_calls == 0 && g_create_dir == 0, "unusable path: INVALID, nothing created");
    VP_WITNESS("bad-path");
    return;
  }
  VP_ASSERT(the_db_allocated, "db object built");
  VP_ASSERT(g_renames == g_info_renames && g_info_renames == (own_log ? 1 : 0), "the only rename is the info-log rotation");
  VP_ASSERT(g_removes_other == 0, "C05.c only unneeded files are removed, and only after the edit is committed");
  VP_ASSERT(g_truncs_other == 0, "only MANIFEST-1 of a new db and the new log are created by truncation");
  g_need_apply = vp_need_apply();

  if (rc != LDB_OK) {
    /* ---- C20.b: every failure releases everything ---- */
    VP_ASSERT(dbp == NULL, "C20.b failed open leaves *dbptr NULL");
    VP_ASSERT(the_db_freed, "C20.b db object released");
    VP_ASSERT(the_lock.locks == (g_lock_rc == LDB_OK ? 1 : 0) && the_lock.unlocks == the_lock.locks && !the_lock.held,
              "C20.b the lock is released iff it was taken");
    VP_ASSERT(vs_destroyed && the_tables.destroyed && the_pool.destroyed && g_tmp_batch_destroyed == 1, "C20.b version set, table cache, pool, batch released");
    VP_ASSERT(mems_created == 0 || the_mem.dead, "C20.b memtables released");
    VP_ASSERT((!wf_manifest_used || wf_manifest.destroyed) && (!wf_applog_used || wf_applog.destroyed) && (!wf_newlog_used || wf_newlog.destroyed),
              "C20.b every file opened is closed");
    VP_ASSERT(g_writer_destroyed == g_writer_created, "C20.b log writer released");
    VP_ASSERT(own_logger.destroyed == own_logger.opened && own_lru.destroyed == own_cache && !the_lru.destroyed && !the_logger.destroyed,
              "C20.b own info log and cache released, the caller's left alone");
    VP_ASSERT(g_scheduled == 0, "C20.b no background work scheduled for a db that is gone");
    VP_ASSERT(g_removes == g_manifest1_removed && vp_listings <= 1, "failed open removes nothing (but the MANIFEST of a failed creation)");
    if (g_lock_rc != LDB_OK && g_lock_rc != -1)
      VP_WITNESS("lock-failed");
    if (g_lock_rc == LDB_OK && g_vrecover_rc != LDB_OK && g_vrecover_rc != -1)
      VP_WITNESS("manifest-recovery-failed-lock-released");
    if (g_t_newlog_create != 0 && g_newlog_rc != LDB_OK) {
      VP_ASSERT(rc == g_newlog_rc && g_applies == 0, "C12 failure to create the new log returned, edit not applied");
      VP_WITNESS("new-log-create-failed");
    }
    if (g_applies == 1) {
      VP_ASSERT(rc == g_apply_rc, "C12 failed MANIFEST update returned");
      VP_WITNESS("apply-failed");
    }
    return;
  }

  /* ---- success ---- */
  VP_ASSERT(dbp == &the_db && !the_db_freed, "db handed out");
  VP_ASSERT(the_lock.held && the_lock.locks == 1 && the_lock.unlocks == 0, "lock stays held by an open db");
  VP_ASSERT(!vs_destroyed && !the_tables.destroyed && !the_pool.destroyed, "open db keeps its parts");
  VP_ASSERT(the_db.mem == &the_mem && !the_mem.dead && the_mem.refs == 1, "C05.d open db has a live memtable");
  VP_ASSERT(the_db.log == &the_writer && the_db.logfile != NULL && !the_db.logfile->destroyed && !the_db.logfile->closed &&
            the_db.logfile->kind == VP_KIND(LDB_FILE_LOG) && the_db.logfile->num == the_db.logfile_number && g_writer_file == the_db.logfile,
            "C05.d open db has an open log named by logfile_number");
  VP_ASSERT(g_t_lock < g_t_vrecover && g_t_vrecover < g_t_listing1, "lock, then MANIFEST, then directory");
  VP_ASSERT(vp_listings == 2 && g_t_listing2 > g_t_listing1, "obsolete files looked for once, after recovery");

  if (g_t_newlog_create != 0) {
    VP_ASSERT(!wf_applog_used && the_db.logfile == &wf_newlog && g_writer_length == 0, "new log written from offset 0");
    VP_ASSERT(g_t_newlog_alloc > g_t_last_mark && g_t_newlog_alloc > g_t_last_replay && g_t_newlog_alloc > g_t_last_build && g_t_newlog_alloc > g_t_listing1,
              "C03.d the new log number is allocated after recovery finished");
    VP_ASSERT(g_newlog_num >= g_rec_next_file, "C03.d new log number not below the recovered file-number counter");
    for (i = 0; i < VP_NAMES; i++)
      if (i < g_nreplayed)
        VP_ASSERT(g_newlog_num > g_replayed[i], "C03.d new log number above every replayed log");
    for (i = 0; i < VP_NEWTBL; i++)
      if (i < g_nnewtbl)
        VP_ASSERT(g_newlog_num > g_newtbl[i], "C03.d new log number above every table written during recovery");
    VP_ASSERT(g_t_newlog_create < g_t_listing2, "log created before obsolete files are removed");
  } else {
    VP_ASSERT(wf_applog_used && the_db.logfile == &wf_applog && g_writer_length == g_filesize, "no new log only if the last log is reused");
  }

  if (g_need_apply) {
    VP_ASSERT(g_applies == 1 && g_apply_rc == LDB_OK, "C03.d the recovery edit was applied");
    VP_ASSERT(g_t_apply > g_t_newlog_create && g_t_apply > g_t_last_build && g_t_apply < g_t_listing2,
              "C05.c order: recover, create log, apply edit, only then remove obsolete files");
    VP_ASSERT(vs.log_number == the_db.logfile_number && vs.prev_log_number == 0, "C03.d version set names the current log");
  } else {
    VP_ASSERT(g_applies == 0 && vs.log_number == g_rec_log_number, "no edit needed: MANIFEST untouched");
    VP_ASSERT(g_nnewtbl == 0, "no edit needed only if no table was written");
    VP_WITNESS("opened-without-manifest-update");
  }
  if (g_removes > g_manifest1_removed)
    VP_ASSERT(g_t_first_remove > g_t_listing2, "C05.c removals only from ldb_remove_obsolete_files");
  if (g_scheduled) {
    VP_ASSERT(g_scheduled == 1 && g_t_schedule > g_t_listing2 && (g_removes == 0 || g_t_schedule > g_t_first_remove), "compaction scheduled last");
    VP_ASSERT(the_db.background_compaction_scheduled, "scheduled flag set");
    VP_WITNESS("compaction-scheduled");
  }

  if (g_t_newlog_create != 0 && g_need_apply)
    VP_WITNESS("opened-new-log");
  if (wf_applog_used)
    VP_WITNESS("opened-reused-log");
  if (!g_exists)
    VP_WITNESS("opened-new-db");
  if (g_removes > 0 && g_nreplayed > 0)
    VP_WITNESS("opened-and-removed-files");
#if VP_RECS > 0
  if (g_nnewtbl > 0)
    VP_WITNESS("opened-with-recovered-table");
#endif
}
