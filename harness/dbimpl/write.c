/* dbimpl/write.c -- one call of the REAL ldb_write() (src/db_impl.c, with the
 * real ldb_make_room_for_write, ldb_build_batch_group, writer queue,
 * ldb_record_background_error, ldb_maybe_schedule_compaction) from an
 * arbitrary well-formed queue state, with monitoring stubs below it.
 *
 * Batches are abstract here (a batch = identity + count + byte size + list of
 * appended member batches); the real write_batch.c codec is decided by the
 * separate obligations C04.b.  Sizes are SYMBOLIC (12 .. 2 MiB), so both
 * arms of the 1 MiB / 128 KiB group cap are explored.
 *
 *   C04.a  one group = one log record = concatenation in queue order, never a
 *          sync writer behind a non-sync leader, byte cap respected
 *   C04.e  no partially inserted group is ever visible (last_sequence)
 *   C02.a  sync write: appended + synced before success is returned
 *   C03    success => the record was appended to the current log
 *   C08.a  sequence numbers consecutive in log order, insert into the
 *          current memtable only, log/memtable written with the mutex released
 *   C09.a  every popped follower is done+signalled, new head signalled,
 *          pending background work => compaction scheduled
 *   C12.a/d failed append/sync => error returned, nothing inserted, error
 *          latched so that later writes are refused (finding F1)
 *
 * Environment model (part of the claim): other threads act only while the
 * mutex is released (unlock / cond_wait): they may enqueue up to VP_POST
 * writers at the tail; an earlier leader may finish a group and pop writers
 * (possibly completing us); the background thread may finish (imm -> NULL),
 * latch an error, change the number of level-0 files.  Waits are bounded by
 * VP_MAXWAIT (fairness assumption), at most one memtable switch per call.
 */
#include "dbimpl/world.h"

#ifndef VP_PRE
#define VP_PRE 1    /* writers already queued ahead of us */
#endif
#ifndef VP_POST
#define VP_POST 2   /* writers that may arrive behind us */
#endif
#ifndef VP_NULLBATCH
#define VP_NULLBATCH 0  /* 1: we pass a NULL batch (forced compaction request) */
#endif
#ifndef VP_NULLIDX
#define VP_NULLIDX (-1) /* environment writer with a NULL batch */
#endif
#ifndef VP_MAXWAIT
#define VP_MAXWAIT 2
#endif
#define VP_NW (VP_PRE + VP_POST)
#define VP_NB (VP_NW + 3)   /* batch ids: 0 = db.tmp_batch, 1 = ours, 2+i = environment writer i */

struct ldb_memtable_s { int id; int refs; };
struct ldb_wfile_s { int id; int closed; int destroyed; };

/* ---- the database under test ---------------------------------------- */
static ldb_t db;
static ldb_versions_t vs;
static struct ldb_memtable_s mems[3];
static int mems_used = 1;
static struct ldb_wfile_s wfiles[2];
static int wfiles_used = 1;
static ldb_writer_t writers[2];
static int writers_used = 1;

/* ---- abstract batches -------------------------------------------------- */
static ldb_batch_t batches[VP_NB];
static int b_count[VP_NB];
static int b_members[VP_NB][VP_NW + 2];   /* ids appended to this batch, in order */
static int b_nmem[VP_NB];
static uint64_t b_seq[VP_NB];
static int b_seq_set[VP_NB];

static int
bid(const ldb_batch_t *b) {
  int i;
  for (i = 0; i < VP_NB; i++)
    if (b == &batches[i]) return i;
  VP_ASSERT(0, "vp-model: unknown batch object");
  return 0;
}

size_t ldb_batch_size(const ldb_batch_t *b) { return b->rep.size; }
int ldb_batch_count(const ldb_batch_t *b) { return b_count[bid(b)]; }

void
ldb_batch_append(ldb_batch_t *dst, const ldb_batch_t *src) {
  int d = bid(dst), s = bid(src);
  VP_ASSERT(d == 0, "only the temporary batch is appended to (caller batches untouched)");
  VP_ASSERT(b_nmem[d] < VP_NW + 2, "vp-model: member list full");
  b_members[d][b_nmem[d]++] = s;
  b_count[d] += b_count[s];
  dst->rep.size += src->rep.size - 12;
}

void
ldb_batch_set_sequence(ldb_batch_t *b, ldb_seqnum_t seq) {
  int i = bid(b);
  b_seq[i] = seq;
  b_seq_set[i] = 1;
}

void
ldb_batch_reset(ldb_batch_t *b) {
  int i = bid(b);
  b_count[i] = 0;
  b_nmem[i] = 0;
  b->rep.size = 12;
}

ldb_slice_t
ldb_batch_contents(const ldb_batch_t *b) {
  ldb_slice_t s;
  s.data = (uint8_t *)b;
  s.size = b->rep.size;
  s.alloc = 0;
  return s;
}

/* ---- environment writers -------------------------------------------- */
static ldb_waiter_t ew[VP_NW + 1];
static int ew_state[VP_NW + 1];     /* 0 unused, 1 queued+asleep, 2 popped */
static int ew_signalled[VP_NW + 1];
static int ew_used = 0;

/* ---- ghost ----------------------------------------------------------- */
static ldb_waiter_t *me = 0;        /* our waiter (found through its cv) */
static int me_done_by_env = 0;
static int me_status = 0;
static int ew_arrival[VP_NW + 1];
static int waits = 0;
static int g_rec_n = 0;             /* add_record calls */
static int g_rec_bid = -1;          /* which batch object was logged */
static int g_rec_rc = 0;
static int g_rec_mem[VP_NW + 2];    /* members of the logged batch */
static int g_rec_nmem = 0;
static int g_sync_n = 0, g_sync_rc = 0;
static int g_synced_after_append = 0;
static uint64_t g_group_first = 0;  /* first sequence of the group being written */
static int g_group_count = 0;
static int g_ins_n = 0;             /* entries inserted into the memtable */
static int g_ins_calls = 0;
static uint64_t g_ins_first = 0;
static int g_scheduled = 0;
static int g_bg_signalled = 0;
/* queue as the leader saw it at the unlock that precedes the log write */
static ldb_waiter_t *snap[VP_NW + 2];
static int snap_n = 0;
static uint64_t snap_seq = 0;
static int g_switches = 0;
static uint64_t g_old_lognum = 0;
static int g_oldlog_closed_rc = 0;
static int g_sync_req = 0;

static int
ew_index(const ldb_waiter_t *w) {
  int i;
  for (i = 0; i < VP_NW + 1; i++)
    if (w == &ew[i]) return i;
  return -1;
}

/* ---- invariants checked whenever the mutex is released ---------------- */
static void
vp_check_invariants(void) {
  ldb_waiter_t *w;
  int n = 0;
  for (w = db.writers.head; w != NULL && n <= VP_NW + 1; w = w->next) {
    if (w->next == NULL)
      VP_ASSERT(db.writers.tail == w, "queue tail is the last element");
    n++;
  }
  VP_ASSERT(n == db.writers.length, "queue length == number of linked writers");
  VP_ASSERT((db.writers.head == NULL) == (db.writers.tail == NULL), "head/tail both null or both set");
  /* C04.e: the group's sequence numbers are published only once the whole
     group is in the memtable (or the group failed and inserted nothing) */
  if (g_rec_n > 0 && g_group_count > 0 && vs.last_sequence >= g_group_first) {
    int failed = g_rec_rc != LDB_OK || (g_sync_n > 0 && g_sync_rc != LDB_OK);
    VP_ASSERT(failed ? g_ins_calls == 0 : (g_ins_calls == 1 && g_ins_n == g_group_count),
              "C04.e group visible to readers only after it is completely inserted");
  }
  /* C09: pending background work => a compaction is scheduled */
  if (db.imm != NULL && db.bg_error == LDB_OK && !db.shutting_down)
    VP_ASSERT(db.background_compaction_scheduled, "immutable memtable pending => background compaction scheduled");
  VP_ASSERT((db.imm != NULL) == (db.has_imm != 0), "has_imm mirrors imm");
}

/* Environment writer i arrives at the arrive_at[i]-th release point of the
   mutex (symbolic), in index order; slots are concrete so that the queue's
   pointer structure stays small for the solver. */
static int arrive_at[VP_NW + 1];
static int release_points = 0;

static void
env_push(void) {
  int i;
  release_points++;
  for (i = VP_PRE; i < VP_NW; i++) {
    if (ew_state[i] == 0 && arrive_at[i] == release_points) {
      ldb_waiter_init(&ew[i]);
      ew[i].sync = vp_bool();
      ew[i].batch = (i == VP_NULLIDX) ? NULL : &batches[2 + i];
      ew_state[i] = 1;
      ew_arrival[i] = release_points;
      ew_used++;
      ldb_queue_push(&db.writers, &ew[i]);
    }
  }
}

static void
vp_on_unlock(void) {
  ldb_waiter_t *w;
  vp_check_invariants();
  if (g_rec_n == 0) {
    snap_n = 0;
    for (w = db.writers.head; w != NULL && snap_n < VP_NW + 2; w = w->next)
      snap[snap_n++] = w;
    snap_seq = vs.last_sequence;
  }
  env_push();
}

static void
vp_on_wait(ldb_cond_t *cv) {
  vp_check_invariants();
  waits++;
  VP_ASSUME(waits <= VP_MAXWAIT);
  if (cv == &db.background_work_finished_signal) {
    /* C09: once an error is latched no background work is scheduled any more,
       so nobody would ever signal this condition variable again */
    VP_ASSERT(db.bg_error == LDB_OK, "C09 a writer never goes to sleep on background work while a background error is latched");
    if (db.imm != NULL && vp_bool()) {
      db.imm = NULL;
      db.has_imm = 0;
      db.background_compaction_scheduled = vp_bool();
    }
    if (vp_bool())
      db.bg_error = LDB_IOERR;
    env_push();
    return;
  }
  {
    ldb_waiter_t *w = (ldb_waiter_t *)((char *)cv - offsetof(ldb_waiter_t, cv));
    int n, k;
    VP_ASSERT(ew_index(w) < 0, "only the calling writer waits on its own cv");
    me = w;
    VP_ASSERT(db.writers.head != w && !w->done, "a writer that is head or done does not wait");
    /* the current leader (another thread) finishes a group of n writers */
    n = vp_int();
    VP_ASSUME(n >= 0 && n <= db.writers.length);
    for (k = 0; k < n; k++) {
      ldb_waiter_t *r = ldb_queue_shift(&db.writers);
      int i = ew_index(r);
      if (i >= 0) {
        ew_state[i] = 2;
      } else {
        r->status = vp_bool() ? LDB_OK : LDB_IOERR;
        r->done = 1;
        me_done_by_env = 1;
        me_status = r->status;
      }
    }
    if (n > 0) {
      vs.last_sequence += (uint64_t)vp_u8();   /* that leader published its group */
      if (vp_bool())
        db.bg_error = LDB_IOERR;
    }
    env_push();
  }
}

static void
vp_on_signal(ldb_cond_t *cv, int broadcast) {
  int i;
  (void)broadcast;
  if (cv == &db.background_work_finished_signal) {
    g_bg_signalled++;
    return;
  }
  for (i = 0; i < VP_NW + 1; i++)
    if (cv == &ew[i].cv)
      ew_signalled[i] = 1;
}

/* ---- stubs below db_impl.c ------------------------------------------- */
void ldb_log(ldb_logger_t *logger, const char *fmt, ...) { (void)logger; (void)fmt; }
void ldb_sleep_usec(int64_t usec) { (void)usec; VP_ASSERT(!vp_mutex_held, "never sleeps with the mutex held"); }

int
ldb_versions_files(const ldb_versions_t *v, int level) {
  int n = vp_int();
  (void)v; (void)level;
  VP_ASSUME(n >= 0 && n <= 13);
  return n;
}

uint64_t
ldb_versions_new_file_number(ldb_versions_t *v) {
  VP_ASSERT(vp_mutex_held, "file numbers allocated under the mutex");
  return v->next_file_number++;
}

void
ldb_versions_reuse_file_number(ldb_versions_t *v, uint64_t n) {
  if (v->next_file_number == n + 1)
    v->next_file_number = n;
}

int ldb_versions_needs_compaction(const ldb_versions_t *v) { (void)v; return vp_bool(); }

void
ldb_pool_schedule(ldb_pool_t *pool, void (*fn)(void *), void *arg) {
  (void)pool; (void)fn;
  VP_ASSERT(arg == &db, "background call scheduled with the db");
  g_scheduled++;
}

int
ldb_log_filename(char *buf, size_t size, const char *dbname, uint64_t num) {
  (void)size; (void)dbname;
  buf[0] = 'L'; buf[1] = (char)(num & 127); buf[2] = 0;
  return 1;
}

int
ldb_truncfile_create(const char *name, ldb_wfile_t **file) {
  (void)name;
  VP_ASSUME(wfiles_used < 2);   /* bound: at most one memtable/log switch per call */
  if (vp_bool())
    return LDB_IOERR;
  *file = &wfiles[wfiles_used++];
  return LDB_OK;
}

int
ldb_wfile_close(ldb_wfile_t *f) {
  VP_ASSERT(!f->closed, "file closed once");
  f->closed = 1;
  g_oldlog_closed_rc = vp_bool() ? LDB_IOERR : LDB_OK;
  return g_oldlog_closed_rc;
}

void
ldb_wfile_destroy(ldb_wfile_t *f) {
  VP_ASSERT(f->closed, "old log closed before it is destroyed");
  f->destroyed = 1;
}

ldb_writer_t *
ldb_writer_create(ldb_wfile_t *file, uint64_t length) {
  ldb_writer_t *lw = &writers[writers_used++];
  VP_ASSERT(length == 0, "fresh log starts at offset 0");
  g_switches++;
  lw->file = file;
  lw->block_offset = 0;
  return lw;
}

void ldb_writer_destroy(ldb_writer_t *lw) { lw->file = NULL; }

ldb_memtable_t *
ldb_memtable_create(const ldb_comparator_t *cmp) {
  ldb_memtable_t *m = &mems[mems_used];
  VP_ASSERT(cmp == &db.internal_comparator, "memtable ordered by the internal comparator");
  m->id = mems_used++;
  m->refs = 0;
  return m;
}

void ldb_memtable_ref(ldb_memtable_t *m) { m->refs++; }
size_t ldb_memtable_usage(const ldb_memtable_t *m) { (void)m; return vp_size(); }

int
ldb_writer_add_record(ldb_writer_t *lw, const ldb_slice_t *rec) {
  int i, k;
  VP_ASSERT(lw == db.log && lw->file == db.logfile, "record appended to the current log");
  VP_ASSERT(!vp_mutex_held, "log written with the mutex released");
  g_rec_n++;
  i = bid((const ldb_batch_t *)rec->data);
  g_rec_bid = i;
  VP_ASSERT(rec->size == batches[i].rep.size, "whole batch logged");
  VP_ASSERT(b_seq_set[i], "sequence stamped into the batch before it is logged");
  g_group_first = b_seq[i];
  g_group_count = b_count[i];
  g_rec_nmem = b_nmem[i];
  for (k = 0; k < VP_NW + 2; k++)
    g_rec_mem[k] = b_members[i][k];
  g_rec_rc = vp_bool() ? LDB_OK : (vp_bool() ? LDB_IOERR : 28 /* ENOSPC */);
  return g_rec_rc;
}

int
ldb_wfile_sync(ldb_wfile_t *f) {
  VP_ASSERT(f == db.logfile, "sync on the current log file");
  VP_ASSERT(!vp_mutex_held, "log synced with the mutex released");
  g_sync_n++;
  g_synced_after_append = (g_rec_n == 1);
  g_sync_rc = vp_bool() ? LDB_OK : LDB_IOERR;
  return g_sync_rc;
}

int
ldb_batch_insert_into(const ldb_batch_t *b, ldb_memtable_t *mt) {
  int i = bid(b);
  VP_ASSERT(mt == db.mem, "entries go to the current memtable");
  VP_ASSERT(mt->refs > 0, "memtable referenced while written");
  VP_ASSERT(!vp_mutex_held, "memtable written with the mutex released");
  VP_ASSERT(g_rec_n == 1 && g_rec_rc == LDB_OK && i == g_rec_bid, "memtable insert only of the batch that was successfully logged");
  VP_ASSERT(!g_sync_req || (g_sync_n == 1 && g_sync_rc == LDB_OK), "sync write inserted only after a successful sync");
  g_ins_calls++;
  g_ins_first = b_seq[i];
  g_ins_n += b_count[i];
  return LDB_OK;
}

/* ---- helpers ---------------------------------------------------------- */
static void
init_batch(int i) {
  size_t sz = vp_size();
  int c = vp_int();
  VP_ASSUME(sz >= 12 && sz <= (2u << 20));
  VP_ASSUME(c >= 0 && c <= 1000);
  batches[i].rep.data = NULL;
  batches[i].rep.size = sz;
  batches[i].rep.alloc = 0;
  b_count[i] = c;
  b_nmem[i] = 0;
}

void
harness(void) {
  ldb_writeopt_t wo;
  int rc, k, bg_error0;
  ldb_memtable_t *mem0;
  ldb_wfile_t *logfile0;
  size_t size0;

  /* ---- arbitrary well-formed pre-state ---- */
  vp_db_mutex = &db.mutex;
  db.versions = &vs;
  vs.last_sequence = vp_u64();
  VP_ASSUME(vs.last_sequence < (UINT64_C(1) << 55));
  vs.next_file_number = vp_u64();
  VP_ASSUME(vs.next_file_number >= 2 && vs.next_file_number < (UINT64_C(1) << 60));
  vs.prev_log_number = 0;
  db.mem = &mems[0]; mems[0].refs = 1;
  db.logfile = &wfiles[0];
  db.logfile_number = vs.next_file_number - 1;
  writers[0].file = db.logfile;
  db.log = &writers[0];
  for (k = 1; k < VP_NB; k++)
    init_batch(k);
  batches[0].rep.size = 12;           /* tmp_batch is empty between writes */
  db.tmp_batch = &batches[0];
  db.options.write_buffer_size = vp_size();
  db.bg_error = vp_bool() ? LDB_OK : LDB_IOERR;
  bg_error0 = db.bg_error;
  db.shutting_down = 0;
  if (vp_bool()) {
    db.imm = &mems[2]; mems[2].refs = 1;
    db.has_imm = 1;
    db.background_compaction_scheduled = vp_bool();
    VP_ASSUME(db.background_compaction_scheduled || db.bg_error != LDB_OK);
  } else {
    db.background_compaction_scheduled = vp_bool();
  }
  ldb_queue_init(&db.writers);
  for (k = 0; k < VP_PRE; k++) {
    int j = ew_used++;
    ldb_waiter_init(&ew[j]);
    ew[j].sync = vp_bool();
    ew[j].batch = (j == VP_NULLIDX) ? NULL : &batches[2 + j];
    ew_state[j] = 1;
    ldb_queue_push(&db.writers, &ew[j]);
  }
  for (k = VP_PRE; k < VP_NW; k++) {
    arrive_at[k] = vp_int();
    VP_ASSUME(arrive_at[k] >= 1 && arrive_at[k] <= 8);
    if (k > VP_PRE)
      VP_ASSUME(arrive_at[k] >= arrive_at[k - 1]);
  }
  mem0 = db.mem;
  logfile0 = db.logfile;
  g_old_lognum = db.logfile_number;
  size0 = batches[1].rep.size;
  wo.sync = vp_bool();
  g_sync_req = wo.sync;

  /* ---- the real code ---- */
  rc = ldb_write(&db, VP_NULLBATCH ? NULL : &batches[1], &wo);

  /* ---- post-conditions ---- */
  VP_ASSERT(!vp_mutex_held, "mutex released on return");

  if (me_done_by_env) {
    VP_ASSERT(g_rec_n == 0 && g_ins_calls == 0 && g_sync_n == 0, "a follower completed by its leader writes nothing itself");
    VP_ASSERT(rc == me_status, "follower returns the status its leader stored");
#if VP_PRE > 0
    VP_WITNESS("follower");
#endif
    return;
  }

#if !VP_NULLBATCH
  if (bg_error0 != LDB_OK)
    VP_ASSERT(rc != LDB_OK && g_rec_n == 0 && g_ins_calls == 0, "C12.a error latched before the call: write refused, log and memtable untouched");
  if (g_rec_n == 0)
    VP_ASSERT(rc != LDB_OK, "a write that logged nothing is not acknowledged");

  if (g_rec_n > 0) {
    /* we led a group: reference grouping over the queue snapshot */
    int j, members = 1, cnt = b_count[1], capped = 0, any = 0;
    size_t size = size0, max_size = 1u << 20;
    VP_ASSERT(g_rec_n == 1, "C04.a exactly one log record per group");
    VP_ASSERT(snap_n >= 1 && ew_index(snap[0]) < 0, "the leader is the head of the queue");
    if (size <= (128u << 10))
      max_size = size + (128u << 10);
    for (j = 1; j < snap_n; j++) {
      ldb_waiter_t *f = snap[j];
      if (f->sync && !wo.sync)
        break;
      if (f->batch != NULL) {
        size += f->batch->rep.size;
        if (size > max_size) { capped = 1; break; }
        any = 1;
      }
      members++;
    }
    if (!any) {
      VP_ASSERT(g_rec_bid == 1 && g_group_count == b_count[1], "C04.a group without follower updates logs the caller's batch as is");
    } else {
      int m = 1;
      VP_ASSERT(g_rec_bid == 0, "C04.a merged group logged through the temporary batch");
      VP_ASSERT(g_rec_nmem >= 1 && g_rec_mem[0] == 1, "C04.a record starts with the leader's updates");
      for (j = 1; j < members; j++) {
        if (snap[j]->batch != NULL) {
          VP_ASSERT(m < g_rec_nmem && g_rec_mem[m] == bid(snap[j]->batch), "C04.a follower updates appended in queue order");
          cnt += b_count[bid(snap[j]->batch)];
          m++;
        }
      }
      VP_ASSERT(m == g_rec_nmem, "C04.a record holds nothing else");
      VP_ASSERT(g_group_count == cnt, "C04.a record count == sum of member counts");
    }
    VP_ASSERT(g_group_first == snap_seq + 1, "C08.a group sequence = last published + 1");
    VP_ASSERT(vs.last_sequence == snap_seq + (uint64_t)g_group_count, "C08.a last_sequence advanced by the group's count");
    if (rc == LDB_OK) {
      VP_ASSERT(g_rec_rc == LDB_OK, "C03 success only if the append succeeded");
      VP_ASSERT(g_ins_calls == 1 && g_ins_n == g_group_count && g_ins_first == snap_seq + 1, "C04 every update of the group inserted once, at the group's sequence");
      if (wo.sync)
        VP_ASSERT(g_sync_n == 1 && g_sync_rc == LDB_OK && g_synced_after_append, "C02.a sync write: log synced after the append, before success");
    } else {
      VP_ASSERT(g_ins_calls == 0, "C12.a failed group inserts nothing");
      if (g_rec_rc != LDB_OK) {
        VP_ASSERT(rc == g_rec_rc, "C12.a append error returned to the writer");
        /* F1: the log may now hold a partial record and the writer's block
           offset is out of step with the file: later writes must be refused */
        VP_ASSERT(db.bg_error != LDB_OK, "C12.d failed log append latches the background error");
        VP_WITNESS("append-failed");
      } else {
        VP_ASSERT(g_sync_n == 1 && rc == g_sync_rc, "C12.a sync error returned");
        VP_ASSERT(db.bg_error != LDB_OK, "C12.a failed sync latches the background error");
        VP_WITNESS("sync-failed");
      }
    }
    /* members: done + status + signal; others: still queued, head woken */
    for (j = 1; j < members; j++) {
      int fi = ew_index(snap[j]);
      VP_ASSERT(fi >= 0 && snap[j]->done && snap[j]->status == rc, "C09.a group member done with the group's status");
      VP_ASSERT(ew_signalled[fi], "C09.a group member signalled");
    }
    for (j = members; j < snap_n; j++)
      VP_ASSERT(!snap[j]->done, "writer outside the group not completed");
    if (members < snap_n) {
      VP_ASSERT(db.writers.head == snap[members], "first writer behind the group becomes head");
      VP_ASSERT(ew_signalled[ew_index(snap[members])], "C09.a new head signalled");
    } else if (db.writers.head != NULL) {
      int hi = ew_index(db.writers.head);
      /* a writer that arrived at the final release found the queue empty and does not sleep */
      VP_ASSERT(hi >= 0 && (ew_signalled[hi] || ew_arrival[hi] == release_points), "C09.a new head (arrived during the log write) signalled");
    }
    VP_ASSERT(b_count[0] == 0 && b_nmem[0] == 0 && batches[0].rep.size == 12, "tmp_batch reset after use");
    VP_ASSERT(batches[1].rep.size == size0, "caller's batch not grown");
#if VP_POST > 0
    if (rc == LDB_OK && any)
      VP_WITNESS("leader-with-followers");
    if (rc == LDB_OK && capped)
      VP_WITNESS("group-capped-by-size");
#endif
    if (rc == LDB_OK && members == 1)
      VP_WITNESS("leader-alone");
  }
#endif

  if (g_switches > 0) {
    VP_ASSERT(db.logfile_number > g_old_lognum, "C03 new log number above the old one");
    VP_ASSERT(db.logfile != logfile0 && logfile0->closed && logfile0->destroyed, "old log closed and released on switch");
    VP_ASSERT(g_oldlog_closed_rc == LDB_OK || db.bg_error != LDB_OK, "C12 failed close of the old log latches the error");
    VP_ASSERT(db.mem != mem0 && db.mem->refs == 1, "fresh referenced memtable after the switch");
    VP_WITNESS("memtable-switch");
  }
#if VP_NULLBATCH
  VP_ASSERT(g_rec_n == 0 && g_ins_calls == 0, "NULL batch writes nothing");
  if (rc == LDB_OK)
    VP_WITNESS("forced-switch");
#endif
}
