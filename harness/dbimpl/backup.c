/* dbimpl/backup.c -- the REAL ldb_backup() / ldb_copy() and the REAL static
 * ldb_backup_inner() (src/db_impl.c #included) over a symbolic source
 * directory (property C20 "lifecycle operations are exclusive, complete and
 * non-destructive", DESIGN 6 C20.e).
 *
 * VP_MODE 0  ldb_backup(db, <bak>)     hot backup of an open database
 * VP_MODE 1  ldb_copy(<db>, <bak>)     copy of a closed database (live == NULL)
 *
 * World (all symbolic):
 *   source dir   <= VP_N pairwise different entries: own names of any type
 *                (64-bit number, either spelling) or foreign names
 *                (kit/vp_d9_names encoding); listing may fail
 *   live set     <= VP_LIVE table numbers referenced by some version
 *                (ldb_versions_add_files stub; rb_set64 = membership in it)
 *   db state     background_compaction_scheduled, bg_error symbolic; while
 *                ldb_backup waits the environment finishes/reschedules the
 *                background work and may latch an error (<= VP_WAITS waits)
 *   env          ldb_create_dir, ldb_lock_file, ldb_get_children (both
 *                directories), ldb_copy_file, ldb_link_file, ldb_sync_dir,
 *                ldb_remove_file, ldb_remove_dir, ldb_unlock_file each return a
 *                symbolic status; a failed copy/link may leave a partial file;
 *                any path may be too long to build
 *   backup dir   ghost: which entries were created in it; its listing (used by
 *                the clean-up) shows exactly those + LOCK (slots of entries
 *                that were not created show a foreign placeholder)
 *
 * Asserted (reference computed in this file from the ghost directory):
 *   ldb_backup  - waits on background_work_finished_signal exactly while
 *                 background_compaction_scheduled != 0; the live set is taken
 *                 under the mutex with no compaction scheduled; the mutex is
 *                 neither released nor waited on between that moment and the
 *                 last file copied (no compaction can install or delete
 *                 files meanwhile); a latched bg_error is returned without
 *                 touching anything; mutex released exactly once at the end;
 *                 no database state is changed (nobody needs a wake-up);
 *                 the live set is released.
 *   ldb_copy    - refuses (ENOENT) a source without CURRENT; takes the
 *                 source's LOCK (open database => refused, nothing touched),
 *                 holds it during the whole copy and releases it on every path.
 *   inner       - <bak> is created first (an existing directory is refused and
 *                 left untouched), <bak>/LOCK is taken before the source is
 *                 read, released and removed at the end on every path;
 *               - every table in the live set (ldb_copy: every table) is
 *                 hard-linked, tables outside the live set are skipped, every
 *                 log / MANIFEST / CURRENT is copied, temp and LOCK files and
 *                 foreign names are skipped, the info log is copied only by
 *                 ldb_copy; source <db>/<name> -> <bak>/<name>, same name;
 *               - the SOURCE receives no write: every remove/rmdir/mkdir/sync
 *                 targets <bak>, no rename/write/truncate is issued at all;
 *               - first failure stops the copy; then every file created in
 *                 <bak> (also a partial one) is removed (if <bak> can be
 *                 listed), LOCK released then removed, <bak> removed last, the
 *                 first error returned;
 *               - success: nothing removed but <bak>/LOCK, <bak> synced last
 *                 and the result of the sync returned.
 *   VP_STRICT 1 (not part of the property's obligations; fails on the pinned
 *   tree, reported as observations): a failed ldb_lock_file that created the
 *   LOCK file, and a failed final ldb_sync_dir, leave files in <bak>.
 */
#include "dbimpl/world.h"
#include "vp_d9_names.h"

#ifndef VP_MODE
#define VP_MODE 0
#endif
#ifndef VP_N
#define VP_N 4
#endif
#ifndef VP_LIVE
#define VP_LIVE 2
#endif
#ifndef VP_WAITS
#define VP_WAITS 2
#endif
#ifndef VP_STRICT
#define VP_STRICT 0
#endif

struct ldb_filelock_s { int held; int locks; int unlocks; };

void ldb_log(ldb_logger_t *logger, const char *fmt, ...) { (void)logger; (void)fmt; }

/* ---- the world ------------------------------------------------------------ */
static ldb_t db;
static ldb_versions_t vs;
static char src_dir[4], bak_dir[4];

static char dir_name[VP_N + 1][VP9_LEN];
static char *dir_list[VP_N + 1];
static int dir_n, dir_fail, dir_errno;
static int dir_owned[VP_N + 1];
static ldb_filetype_t dir_type[VP_N + 1];
static uint64_t dir_num[VP_N + 1];
static int op_rc[VP_N + 1];        /* status ldb_copy_file / ldb_link_file returns for entry i */
static int op_partial[VP_N + 1];   /* a failing copy/link leaves a partial file */

static uint64_t live_num[VP_LIVE + 1];
static int live_n;

static int mkdir_rc, baklock_rc, baklock_litter, sync_rc, bak_list_fail;
static int src_has_current, srclock_rc;

static struct ldb_filelock_s bak_lock, src_lock;

/* backup directory as the clean-up sees it: slot i = entry i if created, slot
   VP_N = LOCK */
static char bak_name[VP_N + 1][VP9_LEN];
static char *bak_list[VP_N + 1];
static int bak_has[VP_N + 1];      /* ghost: <bak>/<entry i> exists */
static int bak_lockfile = 0;       /* ghost: <bak>/LOCK exists */
static int bak_exists = 0;         /* ghost: <bak> was created by us */

/* ---- recorders --------------------------------------------------------------- */
static int g_clock = 0;
static int g_act[VP_N + 1];        /* 1 copied, 2 linked */
static int g_acts = 0;
static int g_t_first_act = 0, g_t_last_act = 0;
static int g_mkdir = 0, g_t_mkdir = 0;
static int g_baklock = 0, g_t_baklock = 0, g_bakunlock = 0, g_t_bakunlock = 0;
static int g_srclock = 0, g_srcunlock = 0, g_t_srcunlock = 0, g_exists_asked = 0;
static int g_list_src = 0, g_t_list_src = 0, g_list_bak = 0, g_freed_src = 0, g_freed_bak = 0;
static int g_rm[VP_N + 1], g_rm_total = 0, g_t_last_rm = 0;
static int g_rm_lock = 0, g_t_rm_lock = 0;
static int g_rmdir = 0, g_t_rmdir = 0, g_sync = 0, g_t_sync = 0;
static int g_syserr = 0;
/* ldb_backup */
static int g_waits = 0, g_signals = 0;
static int g_addfiles = 0, g_waits_at_addfiles = -1, g_unlocks_at_addfiles = -1;
static rb_set64_t *g_live_tree = 0;
static int g_live_inits = 0, g_live_clears = 0;
static int g_bg_error_final;

static int
vp_err(void) {
  int e = vp_int();
  VP_ASSUME(e != LDB_OK);
  return e;
}

/* ---- sync hooks (world.h) ------------------------------------------------------ */
static void
vp_on_unlock(void) {
}

static void
vp_on_wait(ldb_cond_t *cv) {
  VP_ASSERT(cv == &db.background_work_finished_signal, "C20.e ldb_backup waits for the background work to finish");
  VP_ASSERT(db.background_compaction_scheduled != 0, "C20.e ldb_backup waits only while a compaction is scheduled");
  VP_ASSERT(g_addfiles == 0 && g_mkdir == 0, "C20.e no wait once the live set has been taken");
  g_waits++;
  /* the background thread finishes a round: it may reschedule itself, latch
     an error; the version set changes (the live set is only read afterwards) */
  db.background_compaction_scheduled = (g_waits >= VP_WAITS) ? 0 : vp_bool();
  if (vp_bool())
    db.bg_error = vp_err();
}

static void
vp_on_signal(ldb_cond_t *cv, int broadcast) {
  (void)cv; (void)broadcast;
  g_signals++;
}

/* ---- rb_set64 (util/rbt.h): the live set ----------------------------------------- */
static int
ref_in_live(uint64_t n) {
  int k, r = 0;
  for (k = 0; k < VP_LIVE; k++)
    if (k < live_n && live_num[k] == n)
      r = 1;
  return r;
}

void
rb_tree_init(rb_tree_t *tree, rb_cmp_f *compare, void *arg) {
  (void)compare; (void)arg;
  g_live_inits++;
  g_live_tree = tree;
}

void
rb_tree_clear(rb_tree_t *tree, rb_clear_f *clear) {
  (void)clear;
  VP_ASSERT(tree == g_live_tree, "the live set is released");
  g_live_clears++;
}

int
rb_set64_has(const rb_tree_t *tree, uint64_t item) {
  VP_ASSERT(tree == g_live_tree && g_addfiles == 1, "C20.e membership is asked of the live set ldb_versions_add_files filled");
  return ref_in_live(item);
}

void
ldb_versions_add_files(ldb_versions_t *v, rb_set64_t *live) {
  VP_ASSERT(v == &vs && live == g_live_tree, "live files of the database's version set");
  VP_ASSERT(vp_mutex_held, "C20.e the live set is taken under the mutex");
  VP_ASSERT(db.background_compaction_scheduled == 0, "C20.e the live set is taken when no background compaction is scheduled or running");
  VP_ASSERT(db.bg_error == LDB_OK, "no backup after a latched error");
  g_addfiles++;
  g_waits_at_addfiles = g_waits;
  g_unlocks_at_addfiles = vp_unlocks;
}

/* every file-system call of the copy phase happens in the protected window */
static void
vp_in_window(void) {
#if VP_MODE == 0
  VP_ASSERT(vp_mutex_held, "C20.e the mutex is held while the backup is taken");
  VP_ASSERT(g_addfiles == 1 && g_waits == g_waits_at_addfiles && vp_unlocks == g_unlocks_at_addfiles,
            "C20.e mutex neither released nor waited on between taking the live set and the copy");
  VP_ASSERT(db.background_compaction_scheduled == 0, "no compaction scheduled while copying");
#else
  VP_ASSERT(src_lock.held, "C20.e ldb_copy holds the source's LOCK while copying");
#endif
}

/* ---- env ------------------------------------------------------------------------ */
int
ldb_system_error(void) {
  g_syserr++;
  return dir_errno;
}

int
ldb_file_exists(const char *path) {
  g_clock++;
  VP_ASSERT(VP_MODE == 1 && vp9_is(path, VP9_DB, LDB_FILE_CURRENT), "ldb_copy looks for <db>/CURRENT");
  g_exists_asked++;
  return src_has_current;
}

int
ldb_create_dir(const char *path) {
  g_clock++;
  VP_ASSERT(vp9_is_dir(path) && vp9_dir_id(path) == VP9_BAK, "C20.e the only directory created is the backup directory");
  VP_ASSERT(g_mkdir == 0, "backup directory created once");
  vp_in_window();
  g_mkdir++;
  g_t_mkdir = g_clock;
  if (mkdir_rc == LDB_OK)
    bak_exists = 1;
  return mkdir_rc;
}

int
ldb_lock_file(const char *filename, ldb_filelock_t **lock) {
  g_clock++;
  if (vp9_is(filename, VP9_BAK, LDB_FILE_LOCK)) {
    VP_ASSERT(bak_exists, "<bak>/LOCK is taken in the directory just created");
    VP_ASSERT(g_baklock == 0, "<bak>/LOCK asked for once");
    vp_in_window();
    g_baklock++;
    g_t_baklock = g_clock;
    if (baklock_rc != LDB_OK) {
      if (baklock_litter)
        bak_lockfile = 1;
      return baklock_rc;
    }
    bak_lockfile = 1;
    bak_lock.held = 1;
    *lock = &bak_lock;
    return LDB_OK;
  }
  VP_ASSERT(VP_MODE == 1 && vp9_is(filename, VP9_DB, LDB_FILE_LOCK), "C20 the other lock taken is the source's LOCK (ldb_copy)");
  VP_ASSERT(g_srclock == 0 && g_mkdir == 0, "source locked once, before anything is created");
  g_srclock++;
  if (srclock_rc != LDB_OK)
    return srclock_rc;
  src_lock.held = 1;
  *lock = &src_lock;
  return LDB_OK;
}

int
ldb_unlock_file(ldb_filelock_t *lock) {
  g_clock++;
  if (lock == &bak_lock) {
    VP_ASSERT(bak_lock.held, "<bak>/LOCK released once");
    bak_lock.held = 0;
    g_bakunlock++;
    g_t_bakunlock = g_clock;
  } else {
    VP_ASSERT(lock == &src_lock && src_lock.held, "the lock that is held is released");
    src_lock.held = 0;
    g_srcunlock++;
    g_t_srcunlock = g_clock;
  }
  return vp_bool() ? LDB_OK : vp_err();
}

int
ldb_get_children(const char *path, char ***out) {
  int i;
  g_clock++;
  VP_ASSERT(vp9_is_dir(path), "a directory is listed");
  if (vp9_dir_id(path) == VP9_DB) {
    VP_ASSERT(g_list_src == 0, "source listed once");
    VP_ASSERT(bak_lock.held, "C20.e <bak>/LOCK is held before the source is read");
    vp_in_window();
    g_list_src++;
    g_t_list_src = g_clock;
    if (dir_fail) {
      *out = NULL;
      return -1;
    }
    *out = dir_list;
    return dir_n;
  }
  VP_ASSERT(vp9_dir_id(path) == VP9_BAK, "only the source and the backup directory are listed");
  VP_ASSERT(g_list_bak == 0, "clean-up lists the backup directory once");
  g_list_bak++;
  if (bak_list_fail) {
    *out = NULL;
    return -1;
  }
  for (i = 0; i < VP_N; i++) {
    if (bak_has[i]) {
      int k;
      for (k = 0; k < VP9_LEN; k++)
        bak_name[i][k] = dir_name[i][k];
    } else {
      vp9_name_make(bak_name[i], 0, LDB_FILE_TEMP, 0, 0, i);   /* placeholder: nothing of ours */
    }
    bak_list[i] = bak_name[i];
  }
  if (bak_lockfile)
    vp9_name_make(bak_name[VP_N], 1, LDB_FILE_LOCK, 0, 0, VP9_TAG_FIXED);
  else
    vp9_name_make(bak_name[VP_N], 0, LDB_FILE_TEMP, 0, 0, VP_N);
  bak_list[VP_N] = bak_name[VP_N];
  *out = bak_list;
  return VP_N + 1;
}

void
ldb_free_children(char **list, int len) {
  g_clock++;
  if (list == dir_list) {
    VP_ASSERT(len == dir_n, "listing released with its length");
    g_freed_src++;
  } else {
    VP_ASSERT(list == bak_list && len == VP_N + 1, "the listing that was returned is released");
    g_freed_bak++;
  }
}

static int
vp_transfer(const char *from, const char *to, int kind) {
  int i, hit = 0, rc = LDB_OK;
  g_clock++;
  vp_in_window();
  VP_ASSERT(bak_lock.held, "C20.e files are created in <bak> with its LOCK held");
  VP_ASSERT(g_list_src == 1 && !g_freed_src, "names are used while the listing is alive");
  VP_ASSERT(!vp9_is_dir(from) && vp9_in_dir(from) == VP9_DB, "C20.e files are read from the source directory");
  VP_ASSERT(!vp9_is_dir(to) && vp9_in_dir(to) == VP9_BAK, "C20.e files are created in the backup directory only");
  VP_ASSERT(vp9_same_base(from, to), "C20.e a file keeps its name in the backup");
  for (i = 0; i < VP_N; i++) {
    /* listed names differ in their slot tag by construction: the tag picks
       the slot, the whole name must then be that slot's */
    if (i < dir_n && vp9_tag(from) == i) {
      VP_ASSERT(vp9_same_base(from, dir_name[i]), "C20.e the file transferred is a listed file, name unchanged");
      VP_ASSERT(g_act[i] == 0, "C20.e each entry is transferred at most once");
      g_act[i] = kind;
      rc = op_rc[i];
      if (rc == LDB_OK || op_partial[i])
        bak_has[i] = 1;
      hit = 1;
    }
  }
  VP_ASSERT(hit, "C20.e only listed files are transferred");
  g_acts++;
  if (!g_t_first_act)
    g_t_first_act = g_clock;
  g_t_last_act = g_clock;
  return rc;
}

int
ldb_copy_file(const char *from, const char *to) {
  return vp_transfer(from, to, 1);
}

int
ldb_link_file(const char *from, const char *to) {
  return vp_transfer(from, to, 2);
}

int
ldb_remove_file(const char *path) {
  int i, hit = 0;
  g_clock++;
  VP_ASSERT(!vp9_is_dir(path) && vp9_in_dir(path) == VP9_BAK, "C20.e the source directory receives no unlink: only files of <bak> are removed");
  VP_ASSERT(vp9_owned(path), "only names ldb_parse_filename accepts are removed");
  VP_ASSERT(bak_exists, "nothing is removed from a directory we did not create");
  if (vp9_type(path) == LDB_FILE_LOCK) {
    VP_ASSERT(g_bakunlock == 1 && !bak_lock.held, "C20.e <bak>/LOCK is removed after it was released");
    g_rm_lock++;
    g_t_rm_lock = g_clock;
    if (vp_bool()) {
      bak_lockfile = 0;
      return LDB_OK;
    }
    return vp_err();
  }
  VP_ASSERT(bak_lock.held || g_baklock == 0 || baklock_rc != LDB_OK, "clean-up runs before <bak>/LOCK is released");
  VP_ASSERT(g_list_bak == 1 && !g_freed_bak, "names are used while the listing is alive");
  for (i = 0; i < VP_N; i++) {
    if (vp9_tag(path) == i) {
      VP_ASSERT(vp9_same_base(path, bak_name[i]), "C20.e the file removed is a file listed in <bak>, name unchanged");
      g_rm[i]++;
      hit = 1;
    }
  }
  VP_ASSERT(hit, "only listed files are removed");
  g_rm_total++;
  g_t_last_rm = g_clock;
  return vp_bool() ? LDB_OK : vp_err();
}

int
ldb_remove_dir(const char *path) {
  g_clock++;
  VP_ASSERT(vp9_is_dir(path) && vp9_dir_id(path) == VP9_BAK, "C20.e the only directory removed is the backup directory");
  VP_ASSERT(bak_exists, "C20.e a directory that existed before is never removed");
  g_rmdir++;
  g_t_rmdir = g_clock;
  return vp_bool() ? LDB_OK : vp_err();
}

int
ldb_sync_dir(const char *path) {
  g_clock++;
  VP_ASSERT(vp9_is_dir(path) && vp9_dir_id(path) == VP9_BAK, "the backup directory is synced");
  g_sync++;
  g_t_sync = g_clock;
  return sync_rc;
}

/* nothing else may touch the file system */
int ldb_rename_file(const char *from, const char *to) { (void)from; (void)to; VP_ASSERT(0, "C20.e backup renames nothing"); return LDB_OK; }
int ldb_write_file(const char *fname, const ldb_slice_t *data, int should_sync) { (void)fname; (void)data; (void)should_sync; VP_ASSERT(0, "C20.e backup writes no file"); return LDB_OK; }
int ldb_truncfile_create(const char *filename, ldb_wfile_t **file) { (void)filename; (void)file; VP_ASSERT(0, "C20.e backup truncates no file"); return LDB_IOERR; }
int ldb_appendfile_create(const char *filename, ldb_wfile_t **file) { (void)filename; (void)file; VP_ASSERT(0, "C20.e backup appends to no file"); return LDB_IOERR; }

/* ---- set-up ---------------------------------------------------------------------- */
static int
vp_rc(void) {
  return vp_bool() ? LDB_OK : vp_err();
}

static void
init_world(void) {
  int i, t;
  vp9_dir_make(src_dir, VP9_DB);
  vp9_dir_make(bak_dir, VP9_BAK);
  vp9_dir_make(db.dbname, VP9_DB);
  vp_db_mutex = &db.mutex;
  db.versions = &vs;

  dir_n = vp_int();
  VP_ASSUME(dir_n >= 0 && dir_n <= VP_N);
  for (i = 0; i < VP_N; i++) {
    t = vp_int();
    VP_ASSUME(t >= 0 && t <= (int)LDB_FILE_INFO);
    dir_owned[i] = vp_bool();
    dir_type[i] = (ldb_filetype_t)t;
    dir_num[i] = vp_u64();
    vp9_name_make(dir_name[i], dir_owned[i], dir_type[i], dir_num[i], vp_bool(), i);
    dir_num[i] = vp9_number(dir_name[i]);
    dir_list[i] = dir_name[i];
    vp9_join_fail[VP9_DB][i] = vp_bool();
    vp9_join_fail[VP9_BAK][i] = vp_bool();
    op_rc[i] = vp_rc();
    op_partial[i] = vp_bool();
    bak_has[i] = 0;
    g_act[i] = 0;
    g_rm[i] = 0;
  }
  live_n = vp_int();
  VP_ASSUME(live_n >= 0 && live_n <= VP_LIVE);
  for (i = 0; i < VP_LIVE; i++)
    live_num[i] = vp_u64();

  dir_fail = vp_bool();
  dir_errno = vp_err();
  mkdir_rc = vp_rc();
  baklock_rc = vp_rc();
  baklock_litter = VP_STRICT ? vp_bool() : 0;
  sync_rc = vp_rc();
  bak_list_fail = vp_bool();
  vp9_join_fail[VP9_BAK][VP9_TAG_FIXED] = vp_bool();
#if VP_MODE == 1
  src_has_current = vp_bool();
  srclock_rc = vp_rc();
  vp9_join_fail[VP9_DB][VP9_TAG_FIXED] = vp_bool();
#else
  db.background_compaction_scheduled = vp_bool();
  db.bg_error = vp_rc();
#endif
}

/* ---- reference: what the backup has to contain --------------------------------------- */
/* 0 nothing, 1 copy, 2 link */
static int
ref_action(int i) {
  if (!dir_owned[i])
    return 0;
  switch (dir_type[i]) {
    case LDB_FILE_LOG:
    case LDB_FILE_DESC:
    case LDB_FILE_CURRENT:
      return 1;
    case LDB_FILE_TABLE:
      return (VP_MODE == 1 || ref_in_live(dir_num[i])) ? 2 : 0;
    case LDB_FILE_INFO:
      return VP_MODE == 1 ? 1 : 0;
    default:
      return 0;     /* temp, LOCK */
  }
}

void
harness(void) {
  int i, rc, expect_rc = LDB_OK, stopped = 0, inner_ran = 1;
  int expect[VP_N + 1], expect_acts = 0, created = 0;

  init_world();

  /* ---- the real code ---- */
#if VP_MODE == 0
  rc = ldb_backup(&db, bak_dir);
  g_bg_error_final = db.bg_error;

  VP_ASSERT(!vp_mutex_held && vp_unlocks == g_waits + 1, "C20.e mutex released exactly once, at the end");
  VP_ASSERT(db.background_compaction_scheduled == 0, "returns only when no compaction was scheduled");
  VP_ASSERT(db.imm == NULL && db.mem == NULL && db.manual_compaction == NULL && db.shutting_down == 0,
            "ldb_backup changes no state another thread waits for");
  VP_ASSERT(g_live_inits == g_live_clears && g_live_inits == g_addfiles, "live set built once and released");
  if (g_bg_error_final != LDB_OK) {
    VP_ASSERT(rc == g_bg_error_final, "latched background error returned");
    VP_ASSERT(g_clock == 0 && g_addfiles == 0, "C20.e latched background error: nothing touched");
    VP_WITNESS("backup-refused-after-bg-error");
    return;
  }
  VP_ASSERT(g_addfiles == 1, "live set taken once");
  if (g_waits == VP_WAITS)
    VP_WITNESS("backup-waited-for-compaction");
  if (g_waits == 0)
    VP_WITNESS("backup-no-wait");
#else
  rc = ldb_copy(src_dir, bak_dir, NULL);

  VP_ASSERT(!src_lock.held, "C20.e the source's LOCK is released on every path");
  if (vp9_join_fail[VP9_DB][VP9_TAG_FIXED]) {
    VP_ASSERT(rc == LDB_INVALID && g_clock == 0, "over-long source name refused, nothing touched");
    return;
  }
  VP_ASSERT(g_exists_asked >= 1, "source checked for CURRENT");
  if (!src_has_current) {
    VP_ASSERT(rc == LDB_ENOENT, "C20.e a directory without CURRENT is not a database: ENOENT");
    VP_ASSERT(g_srclock == 0 && g_mkdir == 0 && g_acts == 0, "not a database: nothing touched");
    VP_WITNESS("copy-source-not-a-database");
    return;
  }
  VP_ASSERT(g_srclock == 1, "source's LOCK asked for");
  if (srclock_rc != LDB_OK) {
    VP_ASSERT(rc == srclock_rc, "C20 source open elsewhere / lock refused: error returned");
    VP_ASSERT(g_mkdir == 0 && g_acts == 0 && g_rm_total == 0 && g_rmdir == 0 && g_srcunlock == 0, "lock refused: nothing touched");
    VP_WITNESS("copy-source-locked-refused");
    return;
  }
  VP_ASSERT(g_srcunlock == 1, "source's LOCK released once");
  VP_ASSERT(g_t_srcunlock == g_clock, "source's LOCK released last");
#endif

  /* ---- ldb_backup_inner ---- */
  if (vp9_join_fail[VP9_BAK][VP9_TAG_FIXED]) {
    VP_ASSERT(rc == LDB_INVALID, "over-long backup name refused");
    VP_ASSERT(g_mkdir == 0 && g_acts == 0 && g_rm_total == 0 && g_rmdir == 0, "over-long backup name: nothing created");
    VP_WITNESS("backup-name-too-long");
    return;
  }
  VP_ASSERT(g_mkdir == 1, "backup directory creation attempted");
  if (mkdir_rc != LDB_OK) {
    VP_ASSERT(rc == mkdir_rc, "C20.e existing / uncreatable backup directory: error returned");
    VP_ASSERT(g_baklock == 0 && g_list_src == 0 && g_acts == 0 && g_rm_total == 0 && g_rm_lock == 0 && g_rmdir == 0 && g_sync == 0 &&
              g_list_bak == 0, "C20.e a backup directory that could not be created is left untouched");
    VP_WITNESS("backup-dir-exists-untouched");
    return;
  }
  VP_ASSERT(g_baklock == 1 && g_t_mkdir < g_t_baklock, "C20.e <bak>/LOCK is taken right after the directory is created");

  /* reference run over the listing */
  if (baklock_rc != LDB_OK) {
    expect_rc = baklock_rc;
    inner_ran = 0;
  } else if (dir_fail) {
    expect_rc = dir_errno;
    inner_ran = 0;
  }
  for (i = 0; i < VP_N; i++) {
    expect[i] = 0;
    if (inner_ran && !stopped && i < dir_n && dir_owned[i]) {
      if (vp9_join_fail[VP9_DB][i] || vp9_join_fail[VP9_BAK][i]) {
        expect_rc = LDB_INVALID;
        stopped = 1;
      } else {
        expect[i] = ref_action(i);
        if (expect[i] && op_rc[i] != LDB_OK) {
          expect_rc = op_rc[i];
          stopped = 1;
        }
      }
    }
    expect_acts += (expect[i] != 0);
  }

  VP_ASSERT(g_list_src == (baklock_rc == LDB_OK ? 1 : 0), "source listed iff <bak>/LOCK was taken");
  VP_ASSERT(g_freed_src == ((g_list_src && !dir_fail) ? 1 : 0), "source listing released exactly once");
  for (i = 0; i < VP_N; i++) {
    VP_ASSERT(g_act[i] == expect[i],
              "C20.e live tables linked, other tables skipped, log/MANIFEST/CURRENT copied, temp/LOCK/foreign skipped, info log only for ldb_copy; nothing after the first failure");
    created += bak_has[i];
  }
  VP_ASSERT(g_acts == expect_acts, "C20.e number of copy/link calls == size of the reference set");
  if (g_acts)
    VP_ASSERT(g_t_baklock < g_t_first_act && g_t_list_src < g_t_first_act, "lock, list, then copy");

  /* <bak>/LOCK released and removed at the end on every path */
  if (baklock_rc == LDB_OK) {
    VP_ASSERT(g_bakunlock == 1 && !bak_lock.held, "C20.e <bak>/LOCK released on every path");
    VP_ASSERT(g_rm_lock == 1, "C20.e <bak>/LOCK removed on every path");
    VP_ASSERT(g_t_last_act < g_t_bakunlock && g_t_bakunlock < g_t_rm_lock, "C20.e copy, unlock, remove LOCK");
  } else {
    VP_ASSERT(g_bakunlock == 0, "no lock, no unlock");
#if VP_STRICT
    VP_ASSERT(!bak_lockfile || g_rm_lock == 1, "STRICT: a LOCK file created by a failed ldb_lock_file is removed");
#endif
  }

  if (expect_rc == LDB_OK) {
    /* ---- complete backup ---- */
    VP_ASSERT(g_rm_total == 0 && g_rmdir == 0 && g_list_bak == 0, "C20.e success: nothing of the backup is removed but its LOCK");
    VP_ASSERT(g_sync == 1 && g_t_sync == g_clock - (VP_MODE == 1 ? 1 : 0), "C20.e success: the backup directory is synced last");
    VP_ASSERT(g_t_sync > g_t_rm_lock, "synced after LOCK is gone");
    VP_ASSERT(rc == sync_rc, "result of the directory sync returned");
    for (i = 0; i < VP_N; i++)
      if (i < dir_n && ref_action(i) && dir_owned[i])
        VP_ASSERT(bak_has[i], "C20.e complete backup: every needed file exists in <bak>");
#if VP_STRICT
    if (sync_rc != LDB_OK)
      VP_ASSERT(g_rmdir == 1, "STRICT: a backup whose directory sync failed is removed");
#endif
    if (rc == LDB_OK) {
      VP_WITNESS("backup-complete");
#if VP_N >= 2
      if (dir_n == VP_N && expect_acts == VP_N)
        VP_WITNESS("backup-all-entries-transferred");
#if VP_MODE == 0
      if (dir_owned[0] && dir_type[0] == LDB_FILE_TABLE && expect[0] == 2)
        VP_WITNESS("live-table-linked");
      if (dir_n >= 1 && dir_owned[0] && dir_type[0] == LDB_FILE_TABLE && expect[0] == 0)
        VP_WITNESS("dead-table-skipped");
#else
      if (dir_owned[0] && dir_type[0] == LDB_FILE_TABLE && expect[0] == 2)
        VP_WITNESS("every-table-linked");
#endif
      if (dir_n >= 1 && dir_owned[0] && dir_type[0] == LDB_FILE_CURRENT && dir_owned[1] && dir_type[1] == LDB_FILE_DESC && expect[1] == 1)
        VP_WITNESS("current-and-manifest-copied");
      if (dir_n >= 1 && dir_owned[0] && dir_type[0] == LDB_FILE_TEMP)
        VP_WITNESS("temp-skipped");
      if (dir_n >= 1 && dir_owned[0] && dir_type[0] == LDB_FILE_LOCK)
        VP_WITNESS("source-lock-file-skipped");
      if (dir_n >= 1 && dir_owned[0] && dir_type[0] == LDB_FILE_INFO)
        VP_WITNESS("info-log");
      if (dir_n >= 1 && !dir_owned[0])
        VP_WITNESS("foreign-skipped");
#endif
    } else {
      VP_WITNESS("backup-dir-sync-failed");
    }
    return;
  }

  /* ---- failed backup: clean-up ---- */
  VP_ASSERT(rc == expect_rc, "C20.e the first error is returned");
  VP_ASSERT(g_sync == 0, "failed backup is not synced");
  VP_ASSERT(g_list_bak == 1, "C20.e failure: the backup directory is listed for clean-up");
  VP_ASSERT(g_freed_bak == (bak_list_fail ? 0 : 1), "clean-up listing released exactly once");
  for (i = 0; i < VP_N; i++) {
    if (bak_list_fail)
      VP_ASSERT(g_rm[i] == 0, "nothing to go by");
    else
      VP_ASSERT(g_rm[i] == bak_has[i], "C20.e failure: every file created in <bak> (also a partial one) is removed, exactly once, nothing else");
  }
  VP_ASSERT(g_rmdir == 1 && g_t_rmdir == g_clock - (VP_MODE == 1 ? 1 : 0), "C20.e failure: the backup directory is removed last");
  VP_ASSERT(g_rm_total == 0 || (g_t_last_rm < g_t_rmdir && (baklock_rc != LDB_OK || g_t_last_rm < g_t_bakunlock)),
            "files removed before LOCK is released and before the directory");
  if (baklock_rc == LDB_OK)
    VP_ASSERT(g_t_rm_lock < g_t_rmdir, "LOCK removed before the directory");

  if (baklock_rc != LDB_OK)
    VP_WITNESS("backup-lock-refused-cleaned");
  else if (dir_fail)
    VP_WITNESS("source-unreadable-cleaned");
  else if (created >= 2 && !bak_list_fail)
    VP_WITNESS("failed-backup-files-removed");
#if VP_N >= 1
  if (!bak_list_fail && baklock_rc == LDB_OK && !dir_fail && created >= 1 && op_rc[VP_N - 1] != LDB_OK && bak_has[VP_N - 1])
    VP_WITNESS("partial-file-removed");
  if (expect_rc == LDB_INVALID && baklock_rc == LDB_OK && !dir_fail)
    VP_WITNESS("name-too-long-cleaned");
#endif
}
