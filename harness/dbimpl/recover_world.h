/* recover_world.h -- stubs and ghost state below the REAL recovery/open path
 * of src/db_impl.c (ldb_open, ldb_create, ldb_recover, ldb_new_db,
 * ldb_recover_log_file, ldb_write_level0_table, ldb_remove_obsolete_files,
 * ldb_maybe_schedule_compaction, ldb_destroy_internal), shared by
 * dbimpl/recover.c, dbimpl/recover_log.c and dbimpl/open.c.
 *
 * Everything below db_impl.c is a monitoring stub, except util/array.c (the
 * real quicksort orders the logs):
 *
 *  file names    compact encoded names: byte 0 = kind (1 + ldb_filetype_t, or
 *                VP_K_FOREIGN for a name ldb_parse_filename rejects), bytes
 *                1..8 = file number; the filename.c API is stubbed over this
 *                encoding (the real filename.c is decided by other properties;
 *                CBMC has no sprintf/strcmp).  Name construction never fails
 *                (ldb_open bounds the path length with ldb_path_absolute).
 *  directory     ldb_get_children: VP_NAMES arbitrary distinct names
 *  version set   ldb_versions_recover by contract (symbolic counters), table
 *                set of the recovered version = <= VP_TABLES symbolic numbers
 *  log reader    record source: <= VP_RECS records per log with symbolic
 *                sizes; a corruption may be reported before every record and
 *                before EOF
 *  batches       abstract (sequence, count) per record, insert may fail
 *  memtables     pool of counters (refs, records, flushed)
 *  rb_set64      small abstract sets (real rbt.c not linked)
 *  env           every call may fail (VP_FAULTS) with a symbolic status
 */
#ifndef VP_RECOVER_WORLD_H
#define VP_RECOVER_WORLD_H

#include "dbimpl/world.h"

#ifndef VP_NAMES
#define VP_NAMES 3      /* directory entries seen by ldb_recover */
#endif
#ifndef VP_TABLES
#define VP_TABLES 1     /* tables of the recovered version */
#endif
#ifndef VP_RECS
#define VP_RECS 1       /* records per log */
#endif
#ifndef VP_NAMES2
#define VP_NAMES2 2     /* directory entries seen by ldb_remove_obsolete_files */
#endif
#ifndef VP_FAULTS
#define VP_FAULTS 1     /* env calls may fail */
#endif
#ifndef VP_NUMBITS
#define VP_NUMBITS 62   /* width of the file numbers in the directory and in the recovered counters */
#endif

/* every table written needs a record replayed since the previous one */
#define VP_NEWTBL (VP_NAMES * VP_RECS + 1)

/* ---- opaque objects ---------------------------------------------------- */
struct ldb_memtable_s { int refs; int dirty; int over; int flushed; int flushed_ok; int dead; size_t usage; };
struct ldb_wfile_s { int kind; uint64_t num; int append; int synced; int closed; int destroyed; };
struct ldb_rfile_s { int open; uint64_t num; };
struct ldb_filelock_s { int held; int locks; int unlocks; };
struct ldb_logger_s { int opened; int destroyed; };
struct ldb_lru_s { int destroyed; };
struct ldb_tables_s { int destroyed; };
struct ldb_pool_s { int destroyed; };

/* ---- the world --------------------------------------------------------- */
static ldb_t the_db;
static int the_db_allocated = 0, the_db_freed = 0;
static ldb_versions_t vs;
static int vs_created = 0, vs_destroyed = 0;
static struct ldb_memtable_s the_mem;   /* at most one memtable is alive at any time on this path */
static int mems_created = 0;
static struct ldb_wfile_s wf_manifest, wf_applog, wf_newlog;
static int wf_manifest_used = 0, wf_applog_used = 0, wf_newlog_used = 0;
static struct ldb_rfile_s the_rfile;
static struct ldb_filelock_s the_lock;
static struct ldb_logger_s the_logger, own_logger;
static struct ldb_lru_s the_lru, own_lru;
static struct ldb_tables_s the_tables;
static struct ldb_pool_s the_pool;
static ldb_writer_t the_writer;
static ldb_batch_t the_tmp_batch;
static ldb_iter_t the_iter;
static int the_iter_live = 0;

/* ---- ghost: event clock ------------------------------------------------ */
static int g_clock = 0;
#define VP_STAMP(v) ((v) = ++g_clock)

static int g_env_calls = 0;          /* calls that touch the file system */
static int g_create_dir = 0;
static int g_t_lock = 0, g_lock_rc = -1;
static int g_t_unlock = 0;
static int g_exists_asked = 0, g_exists = 0;
static int g_t_vrecover = 0, g_vrecover_rc = -1;
static int g_vr_save_manifest = 0;
static uint64_t g_rec_log_number = 0, g_rec_prev_log = 0, g_rec_next_file = 0, g_rec_last_seq = 0;
static int g_t_listing1 = 0, g_listing1_failed = 0;
static int g_t_listing2 = 0;
static int g_children_freed = 0;

/* new_db */
static int g_newdb_manifest_created = 0, g_newdb_create_rc = -1;
static int g_newdb_exported = 0, g_newdb_export_ok = 0;
static int g_newdb_record_rc = -1, g_newdb_sync_rc = -1, g_newdb_close_rc = -1;
static int g_t_newdb_sync = 0, g_t_newdb_close = 0, g_t_newdb_record = 0;
static int g_t_set_current = 0, g_set_current_rc = -1;
static uint64_t g_set_current_num = 0;
static int g_manifest1_removed = 0;

/* logs replayed */
static uint64_t g_replayed[VP_NAMES];
static int g_replayed_ok[VP_NAMES];   /* it was opened and ldb_recover_log_file returned OK for it (mark_file_number seen) */
static int g_open_failed[VP_NAMES];   /* ldb_seqfile_create failed for it */
static int g_nreplayed = 0;
static int g_t_last_replay = 0;
static uint64_t g_marked[VP_NAMES];
static int g_nmarked = 0;
static int g_t_last_mark = 0;
static int g_logopen_rc = 0;          /* status of the (last) failed ldb_seqfile_create */

/* records */
static int rs_n = 0;
static size_t rs_size[VP_RECS + 1];
static uint64_t rs_seq[VP_RECS + 1];
static int rs_count[VP_RECS + 1];
static int rs_corrupt[VP_RECS + 1];
static int rs_inserted[VP_RECS + 1];
static int rs_next = 0;
static int rs_eof_seen = 0;
static uint8_t rs_tag[VP_RECS + 1];
static int rs_cur = -1;               /* record loaded into the batch */
static int rs_last_ins = -1;
static int rs_corrupt_at = -1;        /* first position at which the reader reported a corruption */
static int rs_small_at = -1;          /* first record shorter than 12 bytes */
static int g_missed = 0;              /* records >= 12 bytes that were not inserted (finished logs) */
static int g_inserted_total = 0;
static int g_ins_calls = 0;
static int g_ins_failed = 0, g_ins_rc = 0;
static int g_small_inserted = 0;
static uint64_t g_ref_max_seq = 0;    /* max(seq + count - 1) over the inserted records */
static int g_any_inserted = 0;
static int g_reader_live = 0;
static int g_corruption_reported = 0;

/* memtables, flushes */
static int g_lost_mem = 0;            /* memtables holding records that were released without a successful flush */
static int g_builds = 0, g_builds_in_loop = 0;
static int g_build_failed = 0, g_build_rc = 0;
static int g_t_last_build = 0;
static uint64_t g_newtbl[VP_NEWTBL];
static int g_newtbl_ok[VP_NEWTBL];    /* build OK and file_size > 0 */
static int g_newtbl_added[VP_NEWTBL];
static int g_nnewtbl = 0;
static int g_added = 0;
static const ldb_edit_t *g_added_edit = 0;
static uint64_t g_last_alloc = 0;
static int g_t_last_alloc = 0, g_allocs = 0;
static uint64_t g_usage_wbs = 0;

/* reuse */
static int g_filesize_asked = 0, g_filesize_rc = -1;
static uint64_t g_filesize = 0;
static int g_append_asked = 0, g_append_rc = -1;
static uint64_t g_append_num = 0;
static int g_writer_created = 0;
static uint64_t g_writer_length = 0;
static ldb_wfile_t *g_writer_file = 0;

/* open */
static int g_t_newlog_create = 0, g_newlog_rc = -1;
static uint64_t g_newlog_num = 0;
static int g_t_newlog_alloc = 0;
static int g_t_apply = 0, g_apply_rc = -1, g_applies = 0;
static int g_t_first_remove = 0, g_removes = 0;
static int g_t_schedule = 0, g_scheduled = 0;
static int g_renames = 0, g_info_renames = 0;
static int g_truncs_other = 0;        /* ldb_truncfile_create of something that is neither MANIFEST-1 of a new db nor the new log */
static int g_removes_other = 0;       /* ldb_remove_file outside the permitted cases */
static int g_evicted = 0;

/* ---- encoded names ----------------------------------------------------- */
#define VP_KIND(type) (1 + (int)(type))
#define VP_K_FOREIGN 0x40
#define VP_NAMELEN 10

static void
vp_name_set(char *buf, int kind, uint64_t num) {
  int i;
  buf[0] = (char)kind;
  for (i = 0; i < 8; i++)
    buf[1 + i] = (char)(uint8_t)(num >> (8 * i));
  buf[9] = 0;
}

static int
vp_name_kind(const char *name) {
  return (int)(uint8_t)name[0];
}

static uint64_t
vp_name_num(const char *name) {
  uint64_t x = 0;
  int i;
  for (i = 0; i < 8; i++)
    x |= (uint64_t)(uint8_t)name[1 + i] << (8 * i);
  return x;
}

static int
vp_name_is(const char *name, ldb_filetype_t type, uint64_t num) {
  return vp_name_kind(name) == VP_KIND(type) && vp_name_num(name) == num;
}

int ldb_log_filename(char *buf, size_t size, const char *dbname, uint64_t num) {
  (void)size; (void)dbname; vp_name_set(buf, VP_KIND(LDB_FILE_LOG), num); return 1;
}
int ldb_table_filename(char *buf, size_t size, const char *dbname, uint64_t num) {
  (void)size; (void)dbname; vp_name_set(buf, VP_KIND(LDB_FILE_TABLE), num); return 1;
}
int ldb_desc_filename(char *buf, size_t size, const char *dbname, uint64_t num) {
  (void)size; (void)dbname; vp_name_set(buf, VP_KIND(LDB_FILE_DESC), num); return 1;
}
int ldb_current_filename(char *buf, size_t size, const char *dbname) {
  (void)size; (void)dbname; vp_name_set(buf, VP_KIND(LDB_FILE_CURRENT), 0); return 1;
}
int ldb_lock_filename(char *buf, size_t size, const char *dbname) {
  (void)size; (void)dbname; vp_name_set(buf, VP_KIND(LDB_FILE_LOCK), 0); return 1;
}
int ldb_temp_filename(char *buf, size_t size, const char *dbname, uint64_t num) {
  (void)size; (void)dbname; vp_name_set(buf, VP_KIND(LDB_FILE_TEMP), num); return 1;
}
int ldb_info_filename(char *buf, size_t size, const char *dbname) {
  (void)size; (void)dbname; vp_name_set(buf, VP_KIND(LDB_FILE_INFO), 0); return 1;
}
int ldb_oldinfo_filename(char *buf, size_t size, const char *dbname) {
  (void)size; (void)dbname; vp_name_set(buf, VP_KIND(LDB_FILE_INFO), 1); return 1;
}

int
ldb_parse_filename(ldb_filetype_t *type, uint64_t *num, const char *name) {
  int kind = vp_name_kind(name);
  if (kind < VP_KIND(LDB_FILE_LOG) || kind > VP_KIND(LDB_FILE_INFO))
    return 0;
  *type = (ldb_filetype_t)(kind - 1);
  if (kind == VP_KIND(LDB_FILE_CURRENT) || kind == VP_KIND(LDB_FILE_LOCK) || kind == VP_KIND(LDB_FILE_INFO))
    *num = 0;
  else
    *num = vp_name_num(name);
  return 1;
}

int
ldb_join(char *buf, size_t size, const char *xp, const char *yp) {
  int i;
  (void)size; (void)xp;
  for (i = 0; i < VP_NAMELEN; i++)
    buf[i] = yp[i];
  return 1;
}

/* ---- faults ------------------------------------------------------------ */
static int
vp_fault(void) {
#if VP_FAULTS
  if (vp_bool()) {
    int e = vp_int();
    VP_ASSUME(e == LDB_IOERR || e == LDB_CORRUPTION || e == 28 /* ENOSPC */ || e == 24 /* EMFILE */ || e == 2 /* ENOENT */);
    return e;
  }
#endif
  return LDB_OK;
}

/* ---- allocator: the db object is static, arrays are static slabs ------- */
static uint64_t vp_array_slab[VP_NAMES + 8];

void *
ldb_malloc(size_t size) {
  VP_ASSERT(size == sizeof(ldb_t) && !the_db_allocated, "vp-model: only the db object is allocated with ldb_malloc");
  the_db_allocated = 1;
  return &the_db;
}

void *
ldb_realloc(void *ptr, size_t size) {
  VP_ASSERT(ptr == NULL || ptr == (void *)vp_array_slab, "vp-model: only the log-number array grows");
  VP_ASSERT(size <= sizeof(vp_array_slab), "vp-model: log-number array slab too small");
  return vp_array_slab;
}

void
ldb_free(void *ptr) {
  if (ptr == (void *)&the_db) {
    VP_ASSERT(!the_db_freed, "db object freed once");
    the_db_freed = 1;
  }
}

#ifndef VP_REAL_SORT
/* ---- integer vector (ldb_recover's list of logs).  The REAL util/array.c
   (quicksort) is decided on its own by dbimpl/array_sort.c; here the vector is
   a slab and ldb_array_sort is a compare-exchange network that orders by the
   caller's comparison function (the real compare_ascending of db_impl.c). */
void ldb_array_init(ldb_array_t *z) { z->items = NULL; z->length = 0; z->alloc = 0; }
void ldb_array_clear(ldb_array_t *z) { z->items = NULL; z->length = 0; z->alloc = 0; }

void
ldb_array_push(ldb_array_t *z, uint64_t x) {
  int i;
  VP_ASSERT(z->length < VP_NAMES + 1, "vp-model: log-number array slab too small");
  z->items = vp_array_slab;
  z->alloc = VP_NAMES + 8;
  for (i = 0; i < VP_NAMES + 1; i++)
    if ((size_t)i == z->length)
      vp_array_slab[i] = x;
  z->length++;
}

void
ldb_array_sort(ldb_array_t *z, int (*cmp)(uint64_t, uint64_t)) {
  int a, b;
  if (z->length < 2)
    return;
  for (a = 0; a < VP_NAMES; a++) {
    for (b = 0; b + 1 < VP_NAMES - a; b++) {
      if ((size_t)(b + 1) < z->length && cmp(vp_array_slab[b], vp_array_slab[b + 1]) > 0) {
        uint64_t t = vp_array_slab[b];
        vp_array_slab[b] = vp_array_slab[b + 1];
        vp_array_slab[b + 1] = t;
      }
    }
  }
}
#endif

/* ---- small abstract sets (rb_set64_t) ---------------------------------- */
#define VP_SETS 3
#define VP_SETCAP (VP_TABLES + VP_NEWTBL + 1)
static const rb_tree_t *vp_set_owner[VP_SETS];
static uint64_t vp_set_item[VP_SETS][VP_SETCAP];
static int vp_set_used[VP_SETS][VP_SETCAP];

void
ldb_rb_tree_init(rb_tree_t *tree, rb_cmp_f *compare, void *arg) {
  int s, i, slot = -1;
  for (s = VP_SETS - 1; s >= 0; s--)
    if (vp_set_owner[s] == NULL || vp_set_owner[s] == tree)
      slot = s;
  VP_ASSERT(slot >= 0, "vp-model: too many sets");
  for (s = 0; s < VP_SETS; s++) {
    if (s == slot) {
      vp_set_owner[s] = tree;
      for (i = 0; i < VP_SETCAP; i++)
        vp_set_used[s][i] = 0;
    }
  }
  tree->root = NULL;
  tree->compare = compare;
  tree->arg = arg;
  tree->size = 0;
}

void
ldb_rb_tree_clear(rb_tree_t *tree, rb_clear_f *clear) {
  int s;
  (void)clear;
  for (s = 0; s < VP_SETS; s++)
    if (vp_set_owner[s] == tree)
      vp_set_owner[s] = NULL;
  tree->size = 0;
}

int
ldb_rb_set64_has(const rb_tree_t *tree, uint64_t item) {
  int s, i, r = 0;
  for (s = 0; s < VP_SETS; s++)
    if (vp_set_owner[s] == tree)
      for (i = 0; i < VP_SETCAP; i++)
        if (vp_set_used[s][i] && vp_set_item[s][i] == item)
          r = 1;
  return r;
}

int
ldb_rb_set64_put(rb_tree_t *tree, uint64_t item) {
  int s, i, done = 0, known = 0;
  if (ldb_rb_set64_has(tree, item))
    return 0;
  for (s = 0; s < VP_SETS; s++) {
    if (vp_set_owner[s] == tree) {
      known = 1;
      for (i = 0; i < VP_SETCAP; i++) {
        if (!done && !vp_set_used[s][i]) {
          vp_set_used[s][i] = 1;
          vp_set_item[s][i] = item;
          done = 1;
        }
      }
    }
  }
  VP_ASSERT(known && done, "vp-model: set full or not initialised");
  tree->size++;
  return 1;
}

int
ldb_rb_set64_del(rb_tree_t *tree, uint64_t item) {
  int s, i, r = 0;
  for (s = 0; s < VP_SETS; s++)
    if (vp_set_owner[s] == tree)
      for (i = 0; i < VP_SETCAP; i++)
        if (vp_set_used[s][i] && vp_set_item[s][i] == item) {
          vp_set_used[s][i] = 0;
          r = 1;
        }
  if (r)
    tree->size--;
  return r;
}

void
ldb_rb_tree_copy(rb_tree_t *z, const rb_tree_t *x, rb_copy_f *copy) {
  int s, i;
  (void)copy;
  for (s = 0; s < VP_SETS; s++)
    if (vp_set_owner[s] == x)
      for (i = 0; i < VP_SETCAP; i++)
        if (vp_set_used[s][i])
          ldb_rb_set64_put(z, vp_set_item[s][i]);
}

/* ---- pointer vector (ldb_remove_obsolete_files' to_delete) ------------- */
static void *vp_vec_slab[VP_NAMES2 + 1];

void ldb_vector_init(ldb_vector_t *z) { z->items = vp_vec_slab; z->length = 0; z->alloc = VP_NAMES2 + 1; }
void ldb_vector_clear(ldb_vector_t *z) { z->items = NULL; z->length = 0; z->alloc = 0; }

void
ldb_vector_push(ldb_vector_t *z, const void *x) {
  VP_ASSERT(z->length < z->alloc, "vp-model: vector slab full");
  z->items[z->length++] = (void *)x;
}

/* ---- misc -------------------------------------------------------------- */
void ldb_log(ldb_logger_t *logger, const char *fmt, ...) { (void)logger; (void)fmt; }
const char *ldb_strerror(int code) { (void)code; return ""; }
void ldb_sleep_usec(int64_t usec) { (void)usec; }
int ldb_crc32c_init(void) { return 1; }

static int64_t vp_now = 0;
int64_t ldb_now_usec(void) { return vp_now++; }

int ldb_system_error(void) { return 5; /* EIO */ }

/* ---- directory --------------------------------------------------------- */
static char vp_dir1[VP_NAMES + 1][VP_NAMELEN];
static char *vp_dir1p[VP_NAMES + 1];
static int vp_dir1_kind[VP_NAMES + 1];
static uint64_t vp_dir1_num[VP_NAMES + 1];
static char vp_dir2[VP_NAMES2 + 1][VP_NAMELEN];
static char *vp_dir2p[VP_NAMES2 + 1];
static int vp_dir2_kind[VP_NAMES2 + 1];
static uint64_t vp_dir2_num[VP_NAMES2 + 1];
static int vp_listings = 0;

static int
vp_kind_valid(int kind) {
  return (kind >= VP_KIND(LDB_FILE_LOG) && kind <= VP_KIND(LDB_FILE_INFO)) || kind == VP_K_FOREIGN;
}

static int vp_second_listing_ok(int kind, uint64_t num);

int
ldb_get_children(const char *path, char ***out) {
  int i, j;
  (void)path;
  vp_listings++;
  VP_ASSERT(vp_listings <= 2, "vp-model: at most two directory listings");
  if (vp_listings == 1) {
    VP_STAMP(g_t_listing1);
    if (VP_FAULTS && vp_bool()) {
      g_listing1_failed = 1;
      return -1;
    }
    for (i = 0; i < VP_NAMES; i++) {
      vp_dir1_kind[i] = vp_int();
      vp_dir1_num[i] = vp_u64();
      VP_ASSUME(vp_kind_valid(vp_dir1_kind[i]));
      VP_ASSUME(vp_dir1_num[i] < (UINT64_C(1) << VP_NUMBITS));
      for (j = 0; j < i; j++)
        VP_ASSUME(vp_dir1_kind[j] != vp_dir1_kind[i] || vp_dir1_num[j] != vp_dir1_num[i]);
      vp_name_set(vp_dir1[i], vp_dir1_kind[i], vp_dir1_num[i]);
      vp_dir1p[i] = vp_dir1[i];
    }
    *out = vp_dir1p;
    return VP_NAMES;
  }
  VP_STAMP(g_t_listing2);
  if (VP_FAULTS && vp_bool()) {
    *out = NULL;
    return -1;
  }
  for (i = 0; i < VP_NAMES2; i++) {
    vp_dir2_kind[i] = vp_int();
    vp_dir2_num[i] = vp_u64();
    VP_ASSUME(vp_kind_valid(vp_dir2_kind[i]));
    VP_ASSUME(vp_dir2_num[i] < (UINT64_C(1) << VP_NUMBITS));
    for (j = 0; j < i; j++)
      VP_ASSUME(vp_dir2_kind[j] != vp_dir2_kind[i] || vp_dir2_num[j] != vp_dir2_num[i]);
    VP_ASSUME(vp_second_listing_ok(vp_dir2_kind[i], vp_dir2_num[i]));
    vp_name_set(vp_dir2[i], vp_dir2_kind[i], vp_dir2_num[i]);
    vp_dir2p[i] = vp_dir2[i];
  }
  *out = vp_dir2p;
  return VP_NAMES2;
}

void
ldb_free_children(char **list, int len) {
  (void)len;
  VP_ASSERT(list == vp_dir1p || list == vp_dir2p, "listing released is the one obtained");
  g_children_freed++;
}

int
ldb_create_dir(const char *dirname) {
  (void)dirname;
  g_create_dir++;
  return vp_fault();
}

int
ldb_lock_file(const char *filename, ldb_filelock_t **lock) {
  VP_ASSERT(vp_name_is(filename, LDB_FILE_LOCK, 0), "the LOCK file is what gets locked");
  VP_ASSERT(g_lock_rc == -1, "lock taken once");
  VP_STAMP(g_t_lock);
  g_lock_rc = vp_fault();
  if (g_lock_rc == LDB_OK) {
    the_lock.held = 1;
    the_lock.locks++;
    *lock = &the_lock;
  }
  return g_lock_rc;
}

int
ldb_unlock_file(ldb_filelock_t *lock) {
  VP_ASSERT(lock == &the_lock && the_lock.held, "only a held lock is released");
  VP_STAMP(g_t_unlock);
  the_lock.held = 0;
  the_lock.unlocks++;
  return LDB_OK;
}

int
ldb_file_exists(const char *filename) {
  VP_ASSERT(vp_name_is(filename, LDB_FILE_CURRENT, 0), "existence of the db == existence of CURRENT");
  VP_ASSERT(the_lock.held, "db inspected with the lock held");
  g_exists_asked++;
  g_exists = vp_bool();
  return g_exists;
}

/* ---- version set ------------------------------------------------------- */
static uint64_t vp_vtbl[VP_TABLES + 1];
static int vp_vtbl_used[VP_TABLES + 1];
static int vp_vtbl_init = 0;
static int vp_newtbl_in_version = 0;   /* the recovery edit has been applied */

ldb_versions_t *
ldb_versions_create(const char *dbname, const ldb_dbopt_t *options,
                    struct ldb_tables_s *table_cache, const ldb_comparator_t *cmp) {
  (void)cmp;
  VP_ASSERT(!vs_created, "vp-model: one version set");
  vs_created = 1;
  vs.dbname = dbname;
  vs.options = options;
  vs.table_cache = table_cache;
  vs.next_file_number = 2;
  vs.manifest_file_number = 0;
  vs.last_sequence = 0;
  vs.log_number = 0;
  vs.prev_log_number = 0;
  return &vs;
}

void
ldb_versions_destroy(ldb_versions_t *v) {
  VP_ASSERT(v == &vs && !vs_destroyed, "version set destroyed once");
  vs_destroyed = 1;
}

int
ldb_versions_recover(ldb_versions_t *v, int *save_manifest) {
  int i;
  VP_ASSERT(v == &vs, "vp-model: the version set");
  VP_ASSERT(the_lock.held, "MANIFEST read with the lock held");
  VP_ASSERT(g_vrecover_rc == -1, "version set recovered once");
  VP_STAMP(g_t_vrecover);
  g_env_calls++;
  g_vrecover_rc = LDB_OK;
  if (vp_bool()) {
    g_vrecover_rc = vp_int();
    VP_ASSUME(g_vrecover_rc == LDB_CORRUPTION || g_vrecover_rc == LDB_INVALID || g_vrecover_rc == LDB_IOERR);
    return g_vrecover_rc;
  }
  vs.log_number = vp_u64();
  vs.prev_log_number = vp_u64();
  vs.next_file_number = vp_u64();
  vs.last_sequence = vp_u64();
  vs.manifest_file_number = vs.next_file_number - 1;
  /* contract of ldb_versions_recover (C17.e / C03.e): next_file_number is
     above the log numbers and every table of the version */
  VP_ASSUME(vs.next_file_number >= 2 && vs.next_file_number < (UINT64_C(1) << (VP_NUMBITS - 1)));
  VP_ASSUME(vs.log_number < vs.next_file_number && vs.prev_log_number < vs.next_file_number);
  VP_ASSUME(vs.last_sequence < (UINT64_C(1) << 56));
  for (i = 0; i < VP_TABLES; i++) {
    vp_vtbl_used[i] = vp_bool();
    vp_vtbl[i] = vp_u64();
    VP_ASSUME(vp_vtbl[i] >= 1 && vp_vtbl[i] < vs.next_file_number);
    if (i > 0)
      VP_ASSUME(!vp_vtbl_used[i] || !vp_vtbl_used[i - 1] || vp_vtbl[i] != vp_vtbl[i - 1]);
  }
  vp_vtbl_init = 1;
  g_rec_log_number = vs.log_number;
  g_rec_prev_log = vs.prev_log_number;
  g_rec_next_file = vs.next_file_number;
  g_rec_last_seq = vs.last_sequence;
  if (vp_bool()) {
    *save_manifest = 1;
    g_vr_save_manifest = 1;
  }
  return LDB_OK;
}

void
ldb_versions_add_files(ldb_versions_t *v, rb_set64_t *live) {
  int i;
  VP_ASSERT(v == &vs, "vp-model: the version set");
  for (i = 0; i < VP_TABLES; i++)
    if (vp_vtbl_used[i])
      ldb_rb_set64_put(live, vp_vtbl[i]);
  if (vp_newtbl_in_version)
    for (i = 0; i < VP_NEWTBL; i++)
      if (i < g_nnewtbl && g_newtbl_added[i])
        ldb_rb_set64_put(live, g_newtbl[i]);
}

uint64_t
ldb_versions_new_file_number(ldb_versions_t *v) {
  VP_ASSERT(vp_mutex_held, "file numbers allocated under the mutex");
  VP_STAMP(g_t_last_alloc);
  g_allocs++;
  g_last_alloc = v->next_file_number++;
  return g_last_alloc;
}

void
ldb_versions_reuse_file_number(ldb_versions_t *v, uint64_t n) {
  if (v->next_file_number == n + 1)
    v->next_file_number = n;
}

void
ldb_versions_mark_file_number(ldb_versions_t *v, uint64_t n) {
  int i;
  VP_STAMP(g_t_last_mark);
  for (i = 0; i < VP_NAMES; i++) {
    if (i == g_nmarked)
      g_marked[i] = n;
    if (i == g_nreplayed - 1 && g_replayed[i] == n)
      g_replayed_ok[i] = !g_open_failed[i];
  }
  g_nmarked++;
  if (v->next_file_number <= n)
    v->next_file_number = n + 1;
}

int ldb_versions_needs_compaction(const ldb_versions_t *v) { (void)v; return vp_bool(); }

/* ---- edits (real version_edit.c is decided by C17) --------------------- */
void
ldb_edit_init(ldb_edit_t *e) {
  e->has_comparator = 0;
  e->has_log_number = 0;
  e->has_prev_log_number = 0;
  e->has_next_file_number = 0;
  e->has_last_sequence = 0;
  e->log_number = 0;
  e->prev_log_number = 0;
  e->next_file_number = 0;
  e->last_sequence = 0;
}

void ldb_edit_clear(ldb_edit_t *e) { (void)e; }
static const char *g_edit_cmp_name = 0;
void ldb_edit_set_comparator_name(ldb_edit_t *e, const char *name) { e->has_comparator = 1; g_edit_cmp_name = name; }
void ldb_edit_set_log_number(ldb_edit_t *e, uint64_t n) { e->has_log_number = 1; e->log_number = n; }
void ldb_edit_set_prev_log_number(ldb_edit_t *e, uint64_t n) { e->has_prev_log_number = 1; e->prev_log_number = n; }
void ldb_edit_set_next_file(ldb_edit_t *e, uint64_t n) { e->has_next_file_number = 1; e->next_file_number = n; }
void ldb_edit_set_last_sequence(ldb_edit_t *e, ldb_seqnum_t s) { e->has_last_sequence = 1; e->last_sequence = s; }

void
ldb_edit_add_file(ldb_edit_t *e, int level, uint64_t number, uint64_t file_size,
                  const ldb_ikey_t *smallest, const ldb_ikey_t *largest) {
  int i, hit = 0;
  (void)smallest; (void)largest;
  VP_ASSERT(level == 0, "tables written during recovery go to level 0");
  VP_ASSERT(file_size > 0, "an empty table is never added to the version");
  VP_ASSERT(g_added_edit == NULL || g_added_edit == e, "all recovered tables recorded in the same edit");
  g_added_edit = e;
  for (i = 0; i < VP_NEWTBL; i++) {
    if (i < g_nnewtbl && g_newtbl[i] == number && g_newtbl_ok[i] && !g_newtbl_added[i]) {
      g_newtbl_added[i] = 1;
      hit = 1;
    }
  }
  VP_ASSERT(hit, "only a successfully built, non-empty table is added to the edit, once");
  g_added++;
}

void ldb_filemeta_init(ldb_filemeta_t *m) { m->refs = 0; m->allowed_seeks = 0; m->number = 0; m->file_size = 0; }
void ldb_filemeta_clear(ldb_filemeta_t *m) { (void)m; }

void ldb_buffer_init(ldb_buffer_t *z) { z->data = NULL; z->size = 0; z->alloc = 0; }
void ldb_buffer_clear(ldb_buffer_t *z) { z->data = NULL; z->size = 0; z->alloc = 0; }

void
ldb_edit_export(ldb_buffer_t *z, const ldb_edit_t *e) {
  (void)z;
  g_newdb_exported++;
  /* the only edit written by the code under test is the one of a new db */
  g_newdb_export_ok = e->has_comparator && g_edit_cmp_name != NULL
                   && e->has_log_number && e->log_number == 0
                   && e->has_next_file_number && e->next_file_number == 2
                   && e->has_last_sequence && e->last_sequence == 0
                   && !e->has_prev_log_number;
}

/* ---- writable files, log writer ---------------------------------------- */
int
ldb_truncfile_create(const char *name, ldb_wfile_t **file) {
  int kind = vp_name_kind(name), rc;
  uint64_t num = vp_name_num(name);
  ldb_wfile_t *f;
  g_env_calls++;
  VP_ASSERT(the_lock.held, "files created only with the lock held");
  rc = vp_fault();
  f = NULL;
  if (kind == VP_KIND(LDB_FILE_DESC) && num == 1 && g_exists_asked && !g_exists && !g_newdb_manifest_created) {
    g_newdb_manifest_created = 1;
    g_newdb_create_rc = rc;
    f = &wf_manifest;
    wf_manifest_used = (rc == LDB_OK);
  } else if (kind == VP_KIND(LDB_FILE_LOG) && g_t_newlog_create == 0) {
    f = &wf_newlog;
    wf_newlog_used = (rc == LDB_OK);
    VP_STAMP(g_t_newlog_create);
    g_newlog_rc = rc;
    g_newlog_num = num;
    g_t_newlog_alloc = g_t_last_alloc;
    VP_ASSERT(g_allocs > 0 && num == g_last_alloc, "the new log is named by a freshly allocated file number");
  } else {
    g_truncs_other++;
  }
  if (rc != LDB_OK || f == NULL)
    return rc != LDB_OK ? rc : LDB_IOERR;
  f->kind = kind; f->num = num; f->append = 0;
  f->synced = 0; f->closed = 0; f->destroyed = 0;
  *file = f;
  return LDB_OK;
}

int
ldb_appendfile_create(const char *name, ldb_wfile_t **file) {
  ldb_wfile_t *f;
  g_env_calls++;
  g_append_asked++;
  VP_ASSERT(vp_name_kind(name) == VP_KIND(LDB_FILE_LOG), "only a log is ever opened for appending");
  VP_ASSERT(!wf_applog_used, "at most one log is reopened for appending");
  g_append_num = vp_name_num(name);
  g_append_rc = vp_fault();
  if (g_append_rc != LDB_OK)
    return g_append_rc;
  f = &wf_applog;
  wf_applog_used = 1;
  f->kind = VP_KIND(LDB_FILE_LOG); f->num = g_append_num; f->append = 1;
  f->synced = 0; f->closed = 0; f->destroyed = 0;
  *file = f;
  return LDB_OK;
}

int
ldb_file_size(const char *name, uint64_t *size) {
  VP_ASSERT(vp_name_kind(name) == VP_KIND(LDB_FILE_LOG), "size asked of the log about to be reused");
  g_filesize_asked++;
  g_filesize_rc = vp_fault();
  if (g_filesize_rc != LDB_OK)
    return g_filesize_rc;
  g_filesize = vp_u64();
  *size = g_filesize;
  return LDB_OK;
}

int
ldb_wfile_sync(ldb_wfile_t *f) {
  VP_ASSERT(!f->closed && !f->destroyed, "sync on an open file");
  VP_ASSERT(f->kind == VP_KIND(LDB_FILE_DESC) && f->num == 1, "the only file synced here is the new db's MANIFEST");
  VP_STAMP(g_t_newdb_sync);
  g_newdb_sync_rc = vp_fault();
  if (g_newdb_sync_rc == LDB_OK)
    f->synced = 1;
  return g_newdb_sync_rc;
}

int
ldb_wfile_close(ldb_wfile_t *f) {
  VP_ASSERT(!f->closed && !f->destroyed, "file closed once");
  f->closed = 1;
  VP_STAMP(g_t_newdb_close);
  g_newdb_close_rc = vp_fault();
  return g_newdb_close_rc;
}

void
ldb_wfile_destroy(ldb_wfile_t *f) {
  VP_ASSERT(!f->destroyed, "file released once");
  f->destroyed = 1;
}

void
ldb_writer_init(ldb_writer_t *lw, ldb_wfile_t *file, uint64_t length) {
  VP_ASSERT(file->kind == VP_KIND(LDB_FILE_DESC) && length == 0, "fresh MANIFEST written from offset 0");
  lw->file = file;
  lw->block_offset = 0;
}

ldb_writer_t *
ldb_writer_create(ldb_wfile_t *file, uint64_t length) {
  ldb_writer_t *lw = &the_writer;
  VP_ASSERT(g_writer_created == 0, "one log writer created");
  g_writer_created++;
  g_writer_length = length;
  g_writer_file = file;
  lw->file = file;
  lw->block_offset = 0;
  return lw;
}

static int g_writer_destroyed = 0;
void ldb_writer_destroy(ldb_writer_t *lw) { lw->file = NULL; g_writer_destroyed++; }

int
ldb_writer_add_record(ldb_writer_t *lw, const ldb_slice_t *rec) {
  (void)rec;
  VP_ASSERT(lw->file != NULL && lw->file->kind == VP_KIND(LDB_FILE_DESC) && lw->file->num == 1,
            "the only record written on this path is the new db's MANIFEST record");
  VP_ASSERT(g_newdb_exported == 1, "MANIFEST record is the exported edit");
  VP_STAMP(g_t_newdb_record);
  g_newdb_record_rc = vp_fault();
  return g_newdb_record_rc;
}

int
ldb_set_current_file(const char *dbname, uint64_t num) {
  (void)dbname;
  g_env_calls++;
  VP_STAMP(g_t_set_current);
  g_set_current_num = num;
  g_set_current_rc = vp_fault();
  return g_set_current_rc;
}

static int vp_remove_permitted(const char *name);

int
ldb_remove_file(const char *name) {
  g_env_calls++;
  g_removes++;
  if (g_t_first_remove == 0)
    VP_STAMP(g_t_first_remove);
  if (vp_name_is(name, LDB_FILE_DESC, 1) && g_newdb_manifest_created && !g_manifest1_removed
      && g_t_set_current == 0 && g_t_vrecover == 0) {
    g_manifest1_removed = 1;   /* cleanup of a failed ldb_new_db */
  } else if (!vp_remove_permitted(name)) {
    g_removes_other++;
  }
  return vp_fault();
}

int
ldb_rename_file(const char *from, const char *to) {
  g_renames++;
  if (vp_name_kind(from) == VP_KIND(LDB_FILE_INFO) && vp_name_num(from) == 0 &&
      vp_name_kind(to) == VP_KIND(LDB_FILE_INFO) && vp_name_num(to) == 1)
    g_info_renames++;
  return vp_fault();
}

/* ---- sequential files, log reader -------------------------------------- */
int
ldb_seqfile_create(const char *name, ldb_rfile_t **file) {
  int rc, i;
  uint64_t num = vp_name_num(name);
  VP_ASSERT(vp_name_kind(name) == VP_KIND(LDB_FILE_LOG), "only logs are replayed");
  VP_ASSERT(!the_rfile.open, "one log open at a time");
  VP_ASSERT(vp_mutex_held, "recovery runs with the mutex held");
  VP_ASSERT(g_nreplayed < VP_NAMES, "vp-model: more logs replayed than the directory holds");
  VP_STAMP(g_t_last_replay);
  rc = vp_fault();
  for (i = 0; i < VP_NAMES; i++) {
    if (i == g_nreplayed) {
      g_replayed[i] = num;
      g_open_failed[i] = (rc != LDB_OK);
    }
  }
  g_nreplayed++;
  if (rc != LDB_OK) {
    g_logopen_rc = rc;
    return rc;
  }
  the_rfile.open = 1;
  the_rfile.num = num;
  *file = &the_rfile;
  return LDB_OK;
}

void
ldb_rfile_destroy(ldb_rfile_t *f) {
  int k;
  VP_ASSERT(f == &the_rfile && f->open, "log closed once");
  VP_ASSERT(!g_reader_live, "reader released before its file");
  f->open = 0;
  for (k = 0; k < VP_RECS; k++)
    if (k < rs_n && rs_size[k] >= 12 && !rs_inserted[k])
      g_missed++;
  g_builds_in_loop = g_builds;
}

void
ldb_reader_init(ldb_reader_t *lr, ldb_rfile_t *file, ldb_reporter_t *reporter,
                int checksum, uint64_t initial_offset) {
  int k;
  VP_ASSERT(file == &the_rfile && file->open, "reader on the open log");
  VP_ASSERT(checksum == 1, "log records are checksummed during recovery, paranoid or not");
  VP_ASSERT(initial_offset == 0, "log replayed from its beginning");
  VP_ASSERT(reporter != NULL && reporter->corruption != NULL, "corruptions are reported");
  lr->file = file;
  lr->reporter = reporter;
  lr->checksum = checksum;
  g_reader_live = 1;
  rs_n = vp_int();
  VP_ASSUME(rs_n >= 0 && rs_n <= VP_RECS);
  rs_next = 0;
  rs_eof_seen = 0;
  rs_cur = -1;
  rs_last_ins = -1;
  rs_corrupt_at = -1;
  rs_small_at = -1;
  for (k = 0; k <= VP_RECS; k++) {
    rs_size[k] = vp_size();
    rs_seq[k] = vp_u64();
    rs_count[k] = vp_int();
    rs_corrupt[k] = vp_bool();
    rs_inserted[k] = 0;
    /* a record written by ldb_write: sequence >= 1 (last_sequence + 1), 56 bits */
    VP_ASSUME(rs_seq[k] >= 1 && rs_seq[k] < (UINT64_C(1) << 56));
    VP_ASSUME(rs_count[k] >= 0 && rs_count[k] <= 1000000);
  }
}

void
ldb_reader_clear(ldb_reader_t *lr) {
  (void)lr;
  VP_ASSERT(g_reader_live, "reader released once");
  g_reader_live = 0;
}

int
ldb_reader_read_record(ldb_reader_t *lr, ldb_slice_t *record, ldb_buffer_t *scratch) {
  int k = rs_next++;
  (void)scratch;
  VP_ASSERT(g_reader_live && !rs_eof_seen, "reader not used after EOF");
  VP_ASSERT(k <= VP_RECS, "vp-model: record source exhausted");
  if (rs_corrupt[k]) {
    if (rs_corrupt_at < 0)
      rs_corrupt_at = k;
    g_corruption_reported++;
    lr->reporter->corruption(lr->reporter, 7, LDB_CORRUPTION);
  }
  if (k >= rs_n) {
    rs_eof_seen = 1;
    return 0;
  }
  if (rs_size[k] < 12 && rs_small_at < 0)
    rs_small_at = k;
  record->data = &rs_tag[k];
  record->size = rs_size[k];
  return 1;
}

/* ---- abstract batches -------------------------------------------------- */
void ldb_batch_init(ldb_batch_t *b) { b->rep.data = NULL; b->rep.size = 0; b->rep.alloc = 0; rs_cur = -1; }
void ldb_batch_clear(ldb_batch_t *b) { b->rep.data = NULL; }
ldb_batch_t *ldb_batch_create(void) { the_tmp_batch.rep.data = NULL; the_tmp_batch.rep.size = 12; return &the_tmp_batch; }
static int g_tmp_batch_destroyed = 0;
void ldb_batch_destroy(ldb_batch_t *b) { VP_ASSERT(b == &the_tmp_batch, "vp-model: tmp batch"); g_tmp_batch_destroyed++; }

void
ldb_batch_set_contents(ldb_batch_t *b, const ldb_slice_t *contents) {
  int k;
  rs_cur = -1;
  for (k = 0; k < VP_RECS; k++)
    if (contents->data == (void *)&rs_tag[k])
      rs_cur = k;
  VP_ASSERT(rs_cur >= 0 && rs_cur == rs_next - 1, "the batch parsed is the record just read");
  VP_ASSERT(contents->size == rs_size[rs_cur], "whole record handed to the batch");
  if (contents->size < 12)
    g_small_inserted++;
  b->rep.data = contents->data;
  b->rep.size = contents->size;
}

ldb__seqnum_t
ldb_batch_sequence(const ldb_batch_t *b) {
  (void)b;
  VP_ASSERT(rs_cur >= 0, "vp-model: batch loaded");
  return rs_seq[rs_cur];
}

int
ldb_batch_count(const ldb_batch_t *b) {
  (void)b;
  VP_ASSERT(rs_cur >= 0, "vp-model: batch loaded");
  return rs_count[rs_cur];
}

int
ldb_batch_insert_into(const ldb_batch_t *b, ldb_memtable_t *mt) {
  int k = rs_cur, rc;
  uint64_t last;
  (void)b;
  VP_ASSERT(k >= 0, "vp-model: batch loaded");
  VP_ASSERT(rs_size[k] >= 12, "a record shorter than the 12-byte batch header is never replayed");
  VP_ASSERT(!rs_inserted[k], "every record replayed once");
  VP_ASSERT(k > rs_last_ins, "records replayed in file order");
  VP_ASSERT(mt->refs > 0 && !mt->dead, "insert into a live memtable");
  VP_ASSERT(!mt->flushed, "no insert into a memtable that has been written out");
  VP_ASSERT(!mt->over, "a memtable over write_buffer_size is written out before the next record is replayed");
  g_ins_calls++;
  rs_inserted[k] = 1;
  rs_last_ins = k;
  mt->dirty = 1;
  /* the memtable grows only here; whether it is now over budget is decided now */
  mt->usage = vp_size();
  if (mt->usage > the_db.options.write_buffer_size)
    mt->over = 1;
  rc = LDB_OK;
  if (vp_bool())
    rc = LDB_CORRUPTION;   /* malformed batch body */
  if (rc != LDB_OK) {
    g_ins_failed++;
    g_ins_rc = rc;
  }
  g_inserted_total++;
  last = rs_seq[k] + (uint64_t)rs_count[k] - 1;
  if (!g_any_inserted || last > g_ref_max_seq)
    g_ref_max_seq = last;
  g_any_inserted = 1;
  return rc;
}

/* ---- memtables ---------------------------------------------------------- */
ldb_memtable_t *
ldb_memtable_create(const ldb_comparator_t *cmp) {
  ldb_memtable_t *m = &the_mem;
  VP_ASSERT(cmp == &the_db.internal_comparator, "memtable ordered by the internal comparator");
  VP_ASSERT(mems_created == 0 || the_mem.dead, "vp-model: one memtable alive at a time");
  mems_created++;
  m->refs = 0; m->dirty = 0; m->over = 0; m->flushed = 0; m->flushed_ok = 0; m->dead = 0; m->usage = 0;
  return m;
}

void
ldb_memtable_ref(ldb_memtable_t *m) {
  VP_ASSERT(!m->dead, "no reference to a released memtable");
  m->refs++;
}

void
ldb_memtable_unref(ldb_memtable_t *m) {
  VP_ASSERT(m->refs > 0 && !m->dead, "memtable reference released once");
  if (--m->refs == 0) {
    m->dead = 1;
    if (m->dirty && !m->flushed_ok)
      g_lost_mem++;
  }
}

size_t
ldb_memtable_usage(const ldb_memtable_t *m) {
  return m->usage;
}

ldb_iter_t *
ldb_memiter_create(const ldb_memtable_t *m) {
  VP_ASSERT(!the_iter_live, "vp-model: one memtable iterator at a time");
  VP_ASSERT(m->refs > 0 && !m->dead, "iterator over a live memtable");
  the_iter_live = 1;
  the_iter.ptr = (void *)m;
  return &the_iter;
}

void
ldb_iter_destroy(ldb_iter_t *it) {
  VP_ASSERT(it == &the_iter && the_iter_live, "iterator released once");
  the_iter_live = 0;
}

/* ---- table builder ------------------------------------------------------ */
int
ldb_build_table(const char *dbname, const struct ldb_dbopt_s *options,
                struct ldb_tables_s *table_cache, struct ldb_iter_s *iter,
                struct ldb_filemeta_s *meta) {
  ldb_memtable_t *m = (ldb_memtable_t *)iter->ptr;
  int rc, i;
  (void)dbname; (void)options; (void)table_cache;
  g_env_calls++;
  VP_STAMP(g_t_last_build);
  VP_ASSERT(!vp_mutex_held, "table file written with the mutex released");
  VP_ASSERT(the_lock.held, "files created only with the lock held");
  VP_ASSERT(g_allocs > 0 && meta->number == g_last_alloc, "table named by a freshly allocated file number");
  VP_ASSERT(ldb_rb_set64_has(&the_db.pending_outputs, meta->number), "table under construction protected by pending_outputs");
  VP_ASSERT(m->refs > 0 && !m->dead && !m->flushed, "a live memtable is written out at most once");
  VP_ASSERT(g_nnewtbl < VP_NEWTBL, "vp-model: too many level-0 tables");
  rc = vp_fault();
  m->flushed = 1;
  m->flushed_ok = (rc == LDB_OK);
  m->over = 0;
  meta->file_size = 0;
  if (rc == LDB_OK && m->dirty)
    meta->file_size = vp_u64();   /* 0: the memtable held no entries (empty batches) */
  VP_ASSUME(meta->file_size <= (UINT64_C(1) << 40));
  for (i = 0; i < VP_NEWTBL; i++) {
    if (i == g_nnewtbl) {
      g_newtbl[i] = meta->number;
      g_newtbl_ok[i] = (rc == LDB_OK && meta->file_size > 0);
      g_newtbl_added[i] = 0;
    }
  }
  g_nnewtbl++;
  g_builds++;
  if (rc != LDB_OK) {
    g_build_failed++;
    g_build_rc = rc;
  }
  return rc;
}

/* ---- objects made by ldb_create ----------------------------------------- */
static ldb_comparator_t vp_bytewise = { "leveldb.BytewiseComparator" };
const ldb_comparator_t *ldb_bytewise_comparator = &vp_bytewise;
static ldb_bloom_t vp_bloom;
const ldb_bloom_t *ldb_bloom_default = &vp_bloom;

void
ldb_ikc_init(ldb_comparator_t *ikc, const ldb_comparator_t *user) {
  ikc->name = "leveldb.InternalKeyComparator";
  ikc->user_comparator = user;
}

void ldb_ifp_init(ldb_bloom_t *ifp, const ldb_bloom_t *user) { ifp->user_policy = user; }

int
ldb_logger_open(const char *filename, ldb_logger_t **result) {
  int rc = vp_fault();
  VP_ASSERT(vp_name_kind(filename) == VP_KIND(LDB_FILE_INFO), "info log name");
  if (rc == LDB_OK) {
    own_logger.opened = 1;
    *result = &own_logger;
  }
  return rc;
}

void ldb_logger_destroy(ldb_logger_t *l) { VP_ASSERT(l == &own_logger && !l->destroyed, "own info log released once"); l->destroyed = 1; }
ldb_lru_t *ldb_lru_create(size_t capacity) { (void)capacity; return &own_lru; }
void ldb_lru_destroy(ldb_lru_t *l) { VP_ASSERT(l == &own_lru && !l->destroyed, "own block cache released once"); l->destroyed = 1; }
ldb_tables_t *ldb_tables_create(const char *dbname, const ldb_dbopt_t *options, int entries) { (void)dbname; (void)options; (void)entries; return &the_tables; }
void ldb_tables_destroy(ldb_tables_t *t) { VP_ASSERT(t == &the_tables && !t->destroyed, "table cache released once"); t->destroyed = 1; }
void ldb_tables_evict(ldb_tables_t *t, uint64_t n) { (void)t; (void)n; g_evicted++; }
ldb_pool_t *ldb_pool_create(int threads) { (void)threads; return &the_pool; }
void ldb_pool_destroy(ldb_pool_t *p) { VP_ASSERT(p == &the_pool && !p->destroyed, "pool released once"); p->destroyed = 1; }

void
ldb_pool_schedule(ldb_pool_t *pool, void (*fn)(void *), void *arg) {
  (void)pool; (void)fn;
  VP_ASSERT(arg == &the_db, "background call scheduled with the db");
  VP_STAMP(g_t_schedule);
  g_scheduled++;
}

/* ---- ghost mutex hooks: nobody else knows the db yet -------------------- */
static void vp_on_unlock(void) { }
static void vp_on_wait(ldb_cond_t *cv) { (void)cv; VP_ASSERT(0, "open/recovery never waits on a condition variable"); }
static void vp_on_signal(ldb_cond_t *cv, int broadcast) { (void)cv; (void)broadcast; }

/* ---- reference helpers -------------------------------------------------- */
/* is number n in the set of logs recovery has to replay, per the directory
   listing and the counters ldb_versions_recover produced? */
static int
vp_log_needed(uint64_t n) {
  return n >= g_rec_log_number || n == g_rec_prev_log;
}

static int
vp_dir1_has(int kind, uint64_t num) {
  int i, r = 0;
  for (i = 0; i < VP_NAMES; i++)
    if (vp_dir1_kind[i] == kind && vp_dir1_num[i] == num)
      r = 1;
  return r;
}

static int
vp_was_replayed_ok(uint64_t n) {
  int i, r = 0;
  for (i = 0; i < VP_NAMES; i++)
    if (i < g_nreplayed && g_replayed[i] == n && g_replayed_ok[i])
      r = 1;
  return r;
}

#endif
