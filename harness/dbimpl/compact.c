/* dbimpl/compact.c -- one call of the REAL ldb_do_compaction_work() (with the
 * real ldb_open_compaction_output_file, ldb_finish_compaction_output_file,
 * ldb_install_compaction_results, ldb_record_background_error, ldb_cstate_*,
 * ldb_output_*, ldb_stats_*, then ldb_cleanup_compaction; src/db_impl.c is
 * #included), the real snapshot list (snapshot.h), the real internal-key
 * parser (dbformat.c), buffers (util/buffer.c), vector (util/vector.c) and
 * bytewise comparator underneath, and monitoring stubs for everything else.
 *
 * Input: the compaction input iterator (ldb_inputiter_create stub) delivers
 * VP_N internal-key entries, sorted in internal-key order (user key
 * ascending, sequence descending), over <= 2 symbolic one-byte user keys,
 * symbolic 56-bit sequences, symbolic types (value / deletion), one-byte
 * symbolic values.  The snapshot list holds 0..VP_SNAPS symbolic snapshots;
 * versions->last_sequence is symbolic and >= every entry and every snapshot.
 * Per user key a symbolic bit says "a deeper level holds (older) data for
 * this key"; ldb_compaction_is_base_level_for_key is an oracle that may
 * answer "base level" only when the bit is clear (it may also answer "not
 * base level" without deeper data: the real function is conservative).
 * ldb_compaction_should_stop_before and the builder's size are symbolic, so
 * outputs are cut at arbitrary places.  Every builder / file / iterator /
 * versions_apply stub may fail (VP_FAULTS), the database may be shut down in
 * the middle, a writer may hand over an immutable memtable in the middle
 * (VP_IMM: the REAL ldb_compact_memtable, ldb_write_level0_table and
 * ldb_remove_obsolete_files then run inside the loop, over stubs: the flush
 * yields no table or fails; the flush obligations decide that code), other
 * threads publish sequence numbers and take / release snapshots whenever the
 * mutex is free.  VP_EXACT 0 leaves out the restated drop rule (and the
 * lemmas derived from it), so that the fold equality alone decides.
 *
 *   C01.c / C06.b  for EVERY sequence S >= smallest_snapshot (every live
 *          snapshot, every snapshot taken later, the present) and every user
 *          key u: fold(outputs + deeper, u, S) == fold(inputs + deeper, u, S)
 *          (fold = newest entry with sequence <= S: value -> that value,
 *          deletion -> not found); smallest_snapshot is what the real code
 *          read from the real list (oldest) or last_sequence; exactly the
 *          entries hidden by a newer entry <= smallest_snapshot and the
 *          tombstones <= smallest_snapshot at the base level are dropped.
 *   C14.c  outputs strictly sorted, no duplicates, every output a contiguous
 *          run of the kept entries cut exactly where the stop oracle / the
 *          size limit says; smallest / largest / size / number reported to
 *          the version edit == first / last key added, builder's final size,
 *          the allocated number; level + 1.
 *   C13.c  an output's number is in pending_outputs before its file is
 *          created, numbers fresh and increasing, allocated under the mutex;
 *          cleanup erases exactly these numbers.
 *   C02.g  every installed output: create -> adds -> finish -> sync -> close
 *          (-> verification re-open), all successful, in that order; any
 *          error / shutdown => error returned (the first one), nothing
 *          installed, background error latched.
 *   mutex  iterator / builder / file work only with the mutex released;
 *          numbers, pending set, stats, install only with it held; held on
 *          return; shared fields not written while it is released.
 */
#define VP_WORLD_ON_LOCK
#include "dbimpl/world.h"
#include "vp_vector_inc.h"

#ifndef VP_N
#define VP_N 3          /* input entries */
#endif
#ifndef VP_SNAPS
#define VP_SNAPS 2      /* snapshot nodes, each symbolically held or not */
#endif
#ifndef VP_FAULTS
#define VP_FAULTS 1     /* stubs may fail, shutdown may happen */
#endif
#ifndef VP_IMM
#define VP_IMM 0        /* a writer may hand over an immutable memtable in the middle */
#endif
#ifndef VP_LEVEL
#define VP_LEVEL 1      /* the compaction's level (outputs go to VP_LEVEL + 1) */
#endif
#ifndef VP_ENV
#define VP_ENV 1        /* other threads move last_sequence / snapshots while the mutex is free */
#endif

#ifndef VP_EXACT
#define VP_EXACT 1      /* 0: only the fold equality speaks about what is dropped */
#endif
#ifndef VP_NOFREE
#define VP_NOFREE 0     /* 1: ldb_free is a no-op (kit/vp_alloc_d4.c), iterators are static objects */
#endif
#if VP_NOFREE && !defined(VP_REPLAY)
#define VP_STATIC_ITERS 1
#else
#define VP_STATIC_ITERS 0
#endif

#ifndef VP_SEQBITS
#define VP_SEQBITS 56   /* sequence numbers range over 1 .. 2^VP_SEQBITS - 1 (>= 16) */
#endif
#define VP_SEQ_MAX ((UINT64_C(1) << VP_SEQBITS) - 1)

struct ldb_wfile_s { int open; };
struct ldb_tablegen_s { int live; };
struct ldb_memtable_s { int refs; };
struct ldb_tables_s { int dummy; };

/* ---- the database under test ------------------------------------------ */
static ldb_t db;
static ldb_versions_t vs;
static ldb_compaction_t comp;
static struct ldb_tables_s tables_obj;
static struct ldb_memtable_s imm_obj;
static ldb_filemeta_t in_file0, in_file1;
static ldb_snapshot_t snap0, snap1, snap_env;

/* ---- compaction input -------------------------------------------------- */
static uint8_t ukb[2];                 /* the two user keys, ukb[0] < ukb[1] */
static int in_u[VP_N + 1];             /* which user key the entry belongs to */
static uint64_t in_seq[VP_N + 1];
static int in_type[VP_N + 1];          /* 1 value, 0 deletion */
static uint8_t *in_key[VP_N + 1];      /* 9-byte internal key, one object each */
static uint8_t *in_val[VP_N + 1];      /* 1-byte value, one object each */
static int in_status = LDB_OK;         /* what the iterator's status() says */
static int in_stop = VP_N;             /* a failing iterator goes invalid here */
static int shut_at = -1;               /* position at which the db is shut down */
static int imm_at = -1;                /* position at which an imm appears */

static int deeper[2];                  /* a deeper level holds older data for the key */
static uint64_t deeper_seq[2];
static int base_ans[2];                /* the oracle's answer for the key */

typedef struct vp_cur_s {
  int kind;                            /* 0 compaction input, 1 verification re-open, 2 memtable (flush) */
  int pos;
} vp_cur_t;

#if VP_STATIC_ITERS
static vp_cur_t in_cur_obj, vf_cur_obj;
static ldb_iter_t in_iter_obj, vf_iter_obj;
#endif
static vp_cur_t *g_in = NULL;          /* cursor of the input iterator */
static ldb_iter_t *g_in_iter = NULL;
static int g_in_created = 0, g_in_cleared = 0;
static int g_vf_live = 0;

/* ---- recorders ---------------------------------------------------------- */
static int g_first_err = LDB_OK;       /* first error any stub handed to the code */
static int g_pos_seen = 0;             /* entries the loop looked at (key() calls) */
static int g_stop[VP_N + 1];           /* answer of should_stop_before per entry */
static int g_stop_calls = 0;
static int g_base_calls = 0;
static uint8_t g_base_last = 0;
/* what was added, per input position (indices are concrete inside the loop) */
static int rec_kept[VP_N + 1];
static int rec_slot[VP_N + 1];         /* output it went to */
static uint8_t rec_uk[VP_N + 1];
static uint64_t rec_tag[VP_N + 1];
static uint8_t rec_val[VP_N + 1];
static int g_cut_size[VP_N + 1];       /* builder reached the size limit after this add */
/* per output; slot = input position at which it was opened (concrete there) */
static int f_opened[VP_N + 1];
static uint64_t f_number[VP_N + 1];
static uint64_t fsz[VP_N + 1];         /* size the builder reports once finished / abandoned (symbolic constant) */
static int f_installed[VP_N + 1];
/* the output being generated: one at a time, scalars only */
static int g_cur = -1;                 /* its slot */
static int c_created = 0;              /* file exists */
static int c_nadds = 0;
static int c_err = 0;                  /* builder latched an error during an add */
static int c_fin = 0;                  /* 0 no, 1 finished ok, 2 finish failed, 3 abandoned */
static int c_sync = 0;                 /* 0 no, 1 ok, 2 failed */
static int c_close = 0;
static int c_verify = 0;
static int c_destroyed = 0;
static int g_outputs = 0;
static uint64_t g_size = 0;            /* what ldb_tablegen_size says while adding */
static int64_t g_written = 0;          /* sum of the sizes reported for finished / abandoned outputs */
static struct ldb_wfile_s wf;
static struct ldb_tablegen_s tb;
static uint64_t g_num0 = 0;            /* next_file_number before the call */
static uint64_t g_last_number = 0;
/* pending_outputs: array model of the rb_set64 calls, slot = output slot */
static int pend_used[VP_N + 2];
static uint64_t pend_val[VP_N + 2];
/* install */
static int g_deletions_n = 0;
static int g_addfile_n = 0;
static uint64_t g_addfile_last = 0;
static int g_apply_n = 0, g_apply_rc = LDB_OK;
static int g_bg_broadcast = 0;
static int g_flushes = 0, g_flush_wake_due = 0, g_in_flush = 0, g_flush_done = 0;
static int g_flush_applies = 0, g_flush_builds = 0;
static int64_t g_clock = 0;
/* ghost copies of shared fields (written only under the mutex) */
static int64_t gh_micros, gh_read, gh_written;
static int gh_bg_error;
static uint64_t gh_next_file;
static int g_locks = 0;
/* which failure paths were taken (witnesses) */
static int w_fin = 0, w_sync = 0, w_close = 0, w_verify = 0, w_create = 0, w_abandon = 0;

#define VP_CUR_COMPLETE (c_created && c_nadds > 0 && c_fin == 1 && c_sync == 1 && c_close == 1 && c_verify == 1 && c_destroyed)

static void
note_err(int rc) {
  if (rc != LDB_OK && g_first_err == LDB_OK)
    g_first_err = rc;
}

static int
vp_fault(void) {
#if VP_FAULTS
  if (vp_bool())
    return vp_bool() ? LDB_IOERR : LDB_CORRUPTION;
#endif
  return LDB_OK;
}

/* ---- pending_outputs ---------------------------------------------------- */
static int
pend_has(uint64_t item) {
  int k, r = 0;
  for (k = 0; k < VP_N + 2; k++)
    if (pend_used[k] && pend_val[k] == item)
      r = 1;
  return r;
}

int
rb_set64_put(rb_tree_t *tree, uint64_t item) {
  int k, had = pend_has(item);
  VP_ASSERT(tree == &db.pending_outputs, "only pending_outputs is written by a compaction");
  VP_ASSERT(vp_mutex_held, "C13.c pending_outputs changes only under the mutex");
#if VP_IMM
  if (g_in_flush) {
    VP_ASSERT(!pend_used[VP_N], "vp-model: one pending flush output");
    pend_used[VP_N] = 1;
    pend_val[VP_N] = item;
    return !had;
  }
#endif
  VP_ASSERT(g_cur >= 0 && g_cur < VP_N, "vp-model: pending slot");
  for (k = 0; k < VP_N; k++) {
    if (k == g_cur) {
      VP_ASSERT(!pend_used[k], "vp-model: one pending number per output");
      pend_used[k] = 1;
      pend_val[k] = item;
    }
  }
  return !had;
}

int
rb_set64_del(rb_tree_t *tree, uint64_t item) {
  int k, done = 0;
  VP_ASSERT(tree == &db.pending_outputs, "only pending_outputs is written by a compaction");
  VP_ASSERT(vp_mutex_held, "C13.c pending_outputs changes only under the mutex");
  for (k = 0; k < VP_N + 2; k++) {
    if (pend_used[k] && pend_val[k] == item) {
      pend_used[k] = 0;
      done = 1;
    }
  }
  return done;
}

/* ---- snapshot list (pre-state and environment, by hand) ---------------- */
static void
env_link_tail(ldb_snapshot_t *n, uint64_t seq) {
  n->sequence = seq;
  n->next = &db.snapshots.head;
  n->prev = db.snapshots.head.prev;
  n->prev->next = n;
  db.snapshots.head.prev = n;
}

static void
env_unlink(ldb_snapshot_t *n) {
  n->prev->next = n->next;
  n->next->prev = n->prev;
  n->next = NULL;
  n->prev = NULL;
}

static int snap0_held = 0, snap1_held = 0;
static int env_acts = 0;

/* other threads, whenever the mutex is free */
static void
env_act(void) {
#if VP_ENV
  env_acts++;
  vs.last_sequence += vp_u8();               /* writers publish */
  if (env_acts == 1) {
    /* readers release their snapshots / take new ones (at the present) */
    if (snap0_held && vp_bool()) {
      env_unlink(&snap0);
      snap0_held = 0;
    }
    if (vp_bool())
      env_link_tail(&snap_env, vs.last_sequence);
  }
#endif
}

/* ---- hooks -------------------------------------------------------------- */
static void
ghost_save(void) {
  gh_micros = db.stats[VP_LEVEL + 1].micros;
  gh_read = db.stats[VP_LEVEL + 1].bytes_read;
  gh_written = db.stats[VP_LEVEL + 1].bytes_written;
  gh_bg_error = db.bg_error;
  gh_next_file = vs.next_file_number;
}

static void
ghost_check(void) {
  VP_ASSERT(gh_micros == db.stats[VP_LEVEL + 1].micros && gh_read == db.stats[VP_LEVEL + 1].bytes_read &&
            gh_written == db.stats[VP_LEVEL + 1].bytes_written,
            "compaction statistics are written only under the mutex");
  VP_ASSERT(gh_bg_error == db.bg_error, "bg_error is written only under the mutex");
  VP_ASSERT(gh_next_file == vs.next_file_number, "file numbers are allocated only under the mutex");
}

static void
vp_on_lock(void) {
  ghost_check();
  g_locks++;
  env_act();
#if VP_IMM
  /* the lock taken at the top of a loop iteration (before the entry's key is
     read) because has_imm was seen: the real ldb_compact_memtable runs now,
     until the broadcast that must follow it */
  if (db.imm != NULL && g_in != NULL && !g_in_cleared && g_in->pos >= 0 && g_pos_seen == g_in->pos) {
    g_flush_wake_due = 1;
    g_in_flush = 1;
  }
#endif
}

static void
vp_on_unlock(void) {
  ghost_save();
  VP_ASSERT((db.imm != NULL) == (db.has_imm != 0), "has_imm mirrors imm");

  env_act();
}

static void
vp_on_wait(ldb_cond_t *cv) {
  (void)cv;
  VP_ASSERT(0, "the compaction never sleeps on a condition variable");
}

static void
vp_on_signal(ldb_cond_t *cv, int broadcast) {
  VP_ASSERT(cv == &db.background_work_finished_signal && broadcast, "writers waiting for room are woken by a broadcast");
  VP_ASSERT(vp_mutex_held, "broadcast under the mutex");
  g_bg_broadcast++;
  /* the broadcast asked for is the one AFTER ldb_compact_memtable returned
     (a failed flush broadcasts from ldb_record_background_error as well) */
  if (g_flush_wake_due && g_flush_done) {
    g_flushes++;
    g_flush_wake_due = 0;
    g_flush_done = 0;
  }
}

/* ---- iterator model ------------------------------------------------------ */
void
vp_in_clear(void *p) {
  vp_cur_t *c = (vp_cur_t *)p;
  if (c->kind == 0)
    g_in_cleared++;
  else
    g_vf_live--;
}

int
vp_in_valid(const void *p) {
  const vp_cur_t *c = (const vp_cur_t *)p;
  VP_ASSERT(c->kind == 0, "only the compaction input is scanned");
  return c->pos >= 0 && c->pos < in_stop;
}

static void
env_at_position(int pos) {
  /* other threads act while the compaction thread works without the mutex */
  if (pos == shut_at)
    db.shutting_down = 1;
#if VP_IMM
  if (pos == imm_at && db.imm == NULL) {
    db.imm = &imm_obj;
    db.has_imm = 1;
  }
#endif
}

void
vp_in_first(void *p) {
  vp_cur_t *c = (vp_cur_t *)p;
  VP_ASSERT(c->kind == 0, "only the compaction input is scanned");
  VP_ASSERT(!vp_mutex_held, "input is read with the mutex released");
  c->pos = 0;
  env_at_position(0);
}

void
vp_in_last(void *p) {
  (void)p;
  VP_ASSERT(0, "the compaction scans forward only");
}

void
vp_in_seek(void *p, const ldb_slice_t *target) {
  (void)p; (void)target;
  VP_ASSERT(0, "the compaction scans forward only");
}

void
vp_in_next(void *p) {
  vp_cur_t *c = (vp_cur_t *)p;
  VP_ASSERT(c->kind == 0, "only the compaction input is scanned");
  VP_ASSERT(c->pos >= 0 && c->pos < in_stop, "next() on a valid iterator (REQUIRES: valid)");
  VP_ASSERT(!vp_mutex_held, "input is read with the mutex released");
  c->pos++;
  env_at_position(c->pos);
}

void
vp_in_prev(void *p) {
  (void)p;
  VP_ASSERT(0, "the compaction scans forward only");
}

ldb_slice_t
vp_in_key(const void *p) {
  const vp_cur_t *c = (const vp_cur_t *)p;
  ldb_slice_t z;
  int i;
  VP_ASSERT(c->kind == 0 && c->pos >= 0 && c->pos < in_stop, "key() on a valid iterator (REQUIRES: valid)");
  VP_ASSERT(!vp_mutex_held, "input is read with the mutex released");
  VP_ASSERT(!g_flush_wake_due, "C09 imm seen by the compaction loop: writers waiting for room are woken (broadcast) before the loop goes on");
  z.data = in_key[0];
  z.size = 9;
  z.alloc = 0;
  for (i = 1; i < VP_N; i++)
    if (i == c->pos)
      z.data = in_key[i];
  g_pos_seen = c->pos + 1;
  return z;
}

ldb_slice_t
vp_in_value(const void *p) {
  const vp_cur_t *c = (const vp_cur_t *)p;
  ldb_slice_t z;
  int i;
  VP_ASSERT(c->kind == 0 && c->pos >= 0 && c->pos < in_stop, "value() on a valid iterator (REQUIRES: valid)");
  VP_ASSERT(!vp_mutex_held, "input is read with the mutex released");
  z.data = in_val[0];
  z.size = 1;
  z.alloc = 0;
  for (i = 1; i < VP_N; i++)
    if (i == c->pos)
      z.data = in_val[i];
  return z;
}

int
vp_in_status(const void *p) {
  const vp_cur_t *c = (const vp_cur_t *)p;
  int rc;
  VP_ASSERT(!vp_mutex_held, "iterator status read with the mutex released");
  if (c->kind == 0) {
    rc = in_status;
  } else {
    rc = vp_fault();
    c_verify = rc == LDB_OK ? 1 : 2;
    if (rc != LDB_OK) w_verify = 1;
  }
  note_err(rc);
  return rc;
}

const ldb_itertbl_t vp_in_table = {
  vp_in_clear, vp_in_valid, vp_in_first, vp_in_last, vp_in_seek,
  vp_in_next, vp_in_prev, vp_in_key, vp_in_value, vp_in_status
};

/* ---- stubs below db_impl.c ------------------------------------------- */
void ldb_log(ldb_logger_t *logger, const char *fmt, ...) { (void)logger; (void)fmt; }

int64_t
ldb_now_usec(void) {
  g_clock += (int64_t)vp_u16();
  return g_clock;
}

const char *
ldb_versions_summary(const ldb_versions_t *v, char *scratch) {
  (void)v;
  return scratch;     /* only handed to ldb_log */
}

ldb_iter_t *
ldb_inputiter_create(ldb_versions_t *v, ldb_compaction_t *c) {
  VP_ASSERT(v == &vs && c == &comp, "input iterator over this compaction's inputs");
  VP_ASSERT(vp_mutex_held, "input iterator built under the mutex (it reads the version)");
  VP_ASSERT(g_in_created == 0, "one input iterator per compaction");
  g_in_created++;
#if VP_STATIC_ITERS
  g_in = &in_cur_obj;
  g_in_iter = &in_iter_obj;
  g_in_iter->ptr = g_in;
  g_in_iter->cleanup_head.func = NULL;
  g_in_iter->cleanup_head.next = NULL;
  g_in_iter->table = &vp_in_table;
  g_in_iter->cmp = &db.internal_comparator;
#else
  g_in = (vp_cur_t *)ldb_malloc(sizeof(vp_cur_t));
  g_in_iter = ldb_iter_create(g_in, &vp_in_table, &db.internal_comparator);
#endif
  g_in->kind = 0;
  g_in->pos = -1;
  return g_in_iter;
}

static int
cur_pos(void) {
  return g_in->pos;
}

/* the entry the iterator stands on is the one handed down: compare the bytes */
static void
check_is_current_key(const ldb_slice_t *key, int pos) {
  int i, b;
  VP_ASSERT(key->size == 9, "internal key handed down whole");
  for (i = 0; i < VP_N; i++) {
    if (i == pos) {
      for (b = 0; b < 9; b++)
        VP_ASSERT(key->data[b] == in_key[i][b], "the key handed down is the input's current key");
    }
  }
}

int
ldb_compaction_should_stop_before(ldb_compaction_t *c, const ldb_slice_t *ikey) {
  int pos = cur_pos(), i, r = vp_bool();
  VP_ASSERT(c == &comp, "stop oracle of this compaction");
  VP_ASSERT(!vp_mutex_held, "stop oracle consulted with the mutex released");
  VP_ASSERT(g_stop_calls == pos, "the (stateful) stop oracle sees every input key exactly once, in order");
  check_is_current_key(ikey, pos);
  g_stop_calls++;
  for (i = 0; i < VP_N; i++)
    if (i == pos)
      g_stop[i] = r;
  return r;
}

int
ldb_compaction_is_base_level_for_key(ldb_compaction_t *c, const ldb_slice_t *user_key) {
  uint8_t b;
  VP_ASSERT(c == &comp, "base-level oracle of this compaction");
  VP_ASSERT(user_key->size == 1, "user key handed to the base-level oracle");
  b = user_key->data[0];
  VP_ASSERT(b == ukb[0] || b == ukb[1], "vp-model: unknown user key");
  VP_ASSERT(g_base_calls == 0 || b >= g_base_last, "the (stateful) base-level oracle is asked for non-decreasing user keys");
  g_base_calls++;
  g_base_last = b;
  return b == ukb[0] ? base_ans[0] : base_ans[1];
}

uint64_t
ldb_versions_new_file_number(ldb_versions_t *v) {
  int pos = cur_pos(), k;
  VP_ASSERT(v == &vs, "numbers come from the version set");
  VP_ASSERT(vp_mutex_held, "C13.c file numbers are allocated under the mutex");
#if VP_IMM
  if (g_in_flush)
    return v->next_file_number++;     /* the flush's level-0 table */
#endif
  VP_ASSERT(pos >= 0 && pos < VP_N, "an output is opened while an input entry is being handled");
  VP_ASSERT(g_first_err == LDB_OK, "C02.g no further output is opened after an error");
  VP_ASSERT(g_cur < 0 || VP_CUR_COMPLETE,
            "C02.g the previous output is finished, synced, closed, re-opened and released before the next is opened");
  VP_ASSERT(!tb.live && !wf.open, "no builder / file is live when the next output is opened");
  for (k = 0; k < VP_N; k++) {
    if (k == pos) {
      VP_ASSERT(!f_opened[k], "at most one output opened per input entry");
      f_opened[k] = 1;
      f_number[k] = v->next_file_number;
    }
  }
  g_cur = pos;
  c_created = 0; c_nadds = 0; c_err = 0; c_fin = 0; c_sync = 0; c_close = 0; c_verify = 0; c_destroyed = 0;
  g_outputs++;
  return v->next_file_number++;
}

/* The name is not spelled out (a write into the 1 KiB path buffer costs the
   solver a copy of the buffer): the stub remembers which buffer got which
   number, ldb_truncfile_create checks that it is handed that buffer. */
static const char *g_fname_buf = NULL;
static uint64_t g_fname_num = 0;

int
ldb_table_filename(char *buf, size_t size, const char *dbname, uint64_t num) {
  VP_ASSERT(dbname == db.dbname && size >= 16, "table file named inside the database directory");
  g_fname_buf = buf;
  g_fname_num = num;
  return 1;
}

int
ldb_truncfile_create(const char *name, ldb_wfile_t **file) {
  uint64_t num = g_fname_num;
  int k, rc;
  VP_ASSERT(!vp_mutex_held, "output file created with the mutex released");
  VP_ASSERT(name != NULL && name == g_fname_buf, "the file created is the table file just named");
  VP_ASSERT(pend_has(num), "C13.c output number is in pending_outputs before the file is created");
  VP_ASSERT(num >= g_num0 && num > g_last_number, "C13.c output numbers are fresh and increasing");
  g_last_number = num;
  VP_ASSERT(g_cur >= 0 && !c_created, "vp-model: file created for an opened output");
  for (k = 0; k < VP_N; k++)
    if (k == g_cur)
      VP_ASSERT(f_opened[k] && f_number[k] == num, "the file created carries the number of the output just registered");
  rc = vp_fault();
  note_err(rc);
  if (rc != LDB_OK) {
    w_create = 1;
    return rc;
  }
  c_created = 1;
  wf.open = 1;
  *file = &wf;
  return LDB_OK;
}

ldb_tablegen_t *
ldb_tablegen_create(const ldb_dbopt_t *options, ldb_wfile_t *file) {
  VP_ASSERT(options == &db.options, "builder uses the database's options");
  VP_ASSERT(file == &wf && wf.open && !tb.live, "builder writes to the file just created");
  tb.live = 1;
  g_size = 0;
  return &tb;
}

void
ldb_tablegen_add(ldb_tablegen_t *t, const ldb_slice_t *key, const ldb_slice_t *value) {
  int pos = cur_pos(), i;
  uint64_t tag = 0;
  VP_ASSERT(t == &tb && tb.live, "add to the live builder");
  VP_ASSERT(!vp_mutex_held, "table built with the mutex released");
  VP_ASSERT(c_created && c_fin == 0, "add only to a created, unfinished output");
  VP_ASSERT(c_nadds > 0 || pos == g_cur, "an output is opened for the entry that is added first");
  check_is_current_key(key, pos);
  VP_ASSERT(value->size == 1, "value handed down whole");
  for (i = 7; i >= 0; i--)
    tag = (tag << 8) | key->data[1 + i];
  g_size = vp_u64();
  VP_ASSUME(g_size < (UINT64_C(1) << 40));
  for (i = 0; i < VP_N; i++) {
    if (i == pos) {
      VP_ASSERT(value->data[0] == in_val[i][0], "the value handed down is the input's current value");
      VP_ASSERT(!rec_kept[i], "an input entry is written at most once");
      rec_kept[i] = 1;
      rec_slot[i] = g_cur;
      rec_uk[i] = key->data[0];
      rec_tag[i] = tag;
      rec_val[i] = value->data[0];
      g_cut_size[i] = g_size >= comp.max_output_file_size;
    }
  }
  c_nadds++;
#if VP_FAULTS
  if (vp_bool())
    c_err = 1;            /* the builder latches a write error; reported by finish() */
#endif
}

uint64_t
ldb_tablegen_entries(const ldb_tablegen_t *t) {
  VP_ASSERT(t == &tb && tb.live, "entries of the live builder");
  return (uint64_t)c_nadds;
}

uint64_t
ldb_tablegen_size(const ldb_tablegen_t *t) {
  uint64_t r = g_size;
  int k;
  VP_ASSERT(t == &tb && tb.live, "size of the live builder");
  if (c_fin != 0) {
    for (k = 0; k < VP_N; k++)
      if (k == g_cur)
        r = fsz[k];
    g_written += (int64_t)r;   /* asked once per output, after finish() / abandon() */
  }
  return r;
}

int
ldb_tablegen_finish(ldb_tablegen_t *t) {
  int rc;
  VP_ASSERT(t == &tb && tb.live, "finish the live builder");
  VP_ASSERT(!vp_mutex_held, "table finished with the mutex released");
  VP_ASSERT(c_fin == 0 && c_nadds > 0, "finish once, on a non-empty output");
  rc = c_err ? LDB_IOERR : vp_fault();
  c_fin = rc == LDB_OK ? 1 : 2;
  if (rc != LDB_OK) w_fin = 1;
  note_err(rc);
  return rc;
}

void
ldb_tablegen_abandon(ldb_tablegen_t *t) {
  VP_ASSERT(t == &tb && tb.live, "abandon the live builder");
  VP_ASSERT(c_fin == 0, "abandon an unfinished builder");
  c_fin = 3;
  w_abandon = 1;
}

void
ldb_tablegen_destroy(ldb_tablegen_t *t) {
  VP_ASSERT(t == &tb && tb.live, "destroy the live builder");
  VP_ASSERT(c_fin != 0, "builder destroyed only after finish() or abandon()");
  tb.live = 0;
}

int
ldb_wfile_sync(ldb_wfile_t *f) {
  int rc = vp_fault();
  VP_ASSERT(f == &wf && wf.open, "sync of the output file");
  VP_ASSERT(!vp_mutex_held, "output synced with the mutex released");
  VP_ASSERT(c_fin == 1 && c_sync == 0, "C02.g sync only after a successful finish()");
  c_sync = rc == LDB_OK ? 1 : 2;
  if (rc != LDB_OK) w_sync = 1;
  note_err(rc);
  return rc;
}

int
ldb_wfile_close(ldb_wfile_t *f) {
  int rc = vp_fault();
  VP_ASSERT(f == &wf && wf.open, "close of the output file");
  VP_ASSERT(!vp_mutex_held, "output closed with the mutex released");
  VP_ASSERT(c_sync == 1 && c_close == 0, "C02.g close only after a successful sync");
  c_close = rc == LDB_OK ? 1 : 2;
  if (rc != LDB_OK) w_close = 1;
  note_err(rc);
  return rc;
}

void
ldb_wfile_destroy(ldb_wfile_t *f) {
  VP_ASSERT(f == &wf && wf.open, "release of the output file");
  wf.open = 0;
  c_destroyed = 1;
}

ldb_iter_t *
ldb_tables_iterate(ldb_tables_t *cache, const ldb_readopt_t *options, uint64_t file_number,
                   uint64_t file_size, ldb_table_t **tableptr) {
  vp_cur_t *c;
  int k;
  VP_ASSERT(cache == &tables_obj && options != NULL && tableptr == NULL, "verification re-open through the table cache");
  VP_ASSERT(!vp_mutex_held, "verification re-open with the mutex released");
  VP_ASSERT(c_close == 1 && c_verify == 0 && c_destroyed, "the output is re-opened only after it was closed");
  for (k = 0; k < VP_N; k++)
    if (k == g_cur)
      VP_ASSERT(f_number[k] == file_number && fsz[k] == file_size, "the output is re-opened by its number and final size");
  VP_ASSERT(g_vf_live == 0, "one verification iterator at a time");
  g_vf_live++;
#if VP_STATIC_ITERS
  c = &vf_cur_obj;
  c->kind = 1;
  c->pos = -1;
  vf_iter_obj.ptr = c;
  vf_iter_obj.cleanup_head.func = NULL;
  vf_iter_obj.cleanup_head.next = NULL;
  vf_iter_obj.table = &vp_in_table;
  vf_iter_obj.cmp = NULL;
  return &vf_iter_obj;
#else
  c = (vp_cur_t *)ldb_malloc(sizeof(vp_cur_t));
  c->kind = 1;
  c->pos = -1;
  return ldb_iter_create(c, &vp_in_table, NULL);
#endif
}

/* ---- install ----------------------------------------------------------- */
void
ldb_compaction_add_input_deletions(ldb_compaction_t *c, ldb_edit_t *edit) {
  VP_ASSERT(c == &comp && edit == &comp.edit, "inputs deleted in the compaction's edit");
  VP_ASSERT(vp_mutex_held, "edit built under the mutex");
  g_deletions_n++;
}

void
ldb_edit_add_file(ldb_edit_t *edit, int level, uint64_t number, uint64_t file_size,
                  const ldb_ikey_t *smallest, const ldb_ikey_t *largest) {
  int k, i, hit = 0;
  uint64_t stag = 0, ltag = 0;
  VP_ASSERT(edit == &comp.edit, "outputs added to the compaction's edit");
  VP_ASSERT(vp_mutex_held, "edit built under the mutex");
  VP_ASSERT(level == comp.level + 1, "C14 outputs go to level + 1");
  VP_ASSERT(smallest->size == 9 && largest->size == 9, "C14.c bounds are whole internal keys");
  for (i = 7; i >= 0; i--) {
    stag = (stag << 8) | smallest->data[1 + i];
    ltag = (ltag << 8) | largest->data[1 + i];
  }
  VP_ASSERT(g_addfile_n == 0 || number > g_addfile_last, "outputs reported in creation order");
  g_addfile_last = number;
  g_addfile_n++;
  for (k = 0; k < VP_N; k++) {
    if (f_opened[k] && f_number[k] == number) {
      uint8_t luk = 0;
      uint64_t lt = 0;
      hit++;
      VP_ASSERT(!f_installed[k], "an output is reported once");
      f_installed[k] = 1;
      /* the output opened at entry k holds entry k first ... */
      VP_ASSERT(rec_kept[k] && rec_slot[k] == k, "vp-model: an output starts with the entry it was opened for");
      VP_ASSERT(smallest->data[0] == rec_uk[k] && stag == rec_tag[k], "C14.c recorded smallest == first key added to the output");
      /* ... and the last entry written to it last */
      for (i = k; i < VP_N; i++) {
        if (rec_kept[i] && rec_slot[i] == k) {
          luk = rec_uk[i];
          lt = rec_tag[i];
        }
      }
      VP_ASSERT(largest->data[0] == luk && ltag == lt, "C14.c recorded largest == last key added to the output");
      VP_ASSERT(file_size == fsz[k], "recorded file size == the builder's final size");
    }
  }
  VP_ASSERT(hit == 1, "the reported number is the number of exactly one output of this compaction");
}

int
ldb_versions_apply(ldb_versions_t *v, ldb_edit_t *edit, ldb_mutex_t *mu) {
  int k;
#if VP_IMM
  if (g_in_flush) {
    int frc = vp_bool() ? LDB_OK : LDB_IOERR;
    VP_ASSERT(v == &vs && edit != &comp.edit && mu == &db.mutex && vp_mutex_held, "the flush applies its own edit under the mutex");
    g_flush_applies++;
    return frc;
  }
#endif
  VP_ASSERT(v == &vs && edit == &comp.edit && mu == &db.mutex, "the compaction's edit is applied");
  VP_ASSERT(vp_mutex_held, "install under the mutex");
  VP_ASSERT(g_apply_n == 0 && g_deletions_n == 1, "one install, after the input deletions were added");
  VP_ASSERT(g_first_err == LDB_OK && !db.shutting_down, "C02.g nothing is installed after an error or a shutdown");
  VP_ASSERT(g_cur < 0 || VP_CUR_COMPLETE,
            "C02.g an installed output was created, filled, finished, synced, closed and re-opened successfully, in that order");
  for (k = 0; k < VP_N; k++)
    VP_ASSERT(f_opened[k] == f_installed[k], "every output of the compaction is reported, nothing else");
  VP_ASSERT(g_addfile_n == g_outputs, "as many files reported as outputs opened");
  VP_ASSERT(!tb.live && !wf.open, "no output is still being written at install time");
  g_apply_n++;
  g_apply_rc = vp_fault();
  note_err(g_apply_rc);
  return g_apply_rc;
}

#if VP_IMM
/* ---- callees of the real ldb_compact_memtable / ldb_write_level0_table /
 *      ldb_remove_obsolete_files (the flush itself is decided elsewhere: here
 *      it either fails or finds the memtable empty, so no table is added) -- */
static ldb_version_t ver_obj;
void ldb_edit_init(ldb_edit_t *edit) { (void)edit; }
void
ldb_edit_clear(ldb_edit_t *edit) {
  /* last statement of ldb_compact_memtable */
  VP_ASSERT(edit != &comp.edit && g_in_flush && vp_mutex_held, "the flush ends under the mutex");
  g_in_flush = 0;
  g_flush_done = 1;
}
void ldb_edit_set_log_number(ldb_edit_t *edit, uint64_t num) { (void)edit; (void)num; }
void ldb_edit_set_prev_log_number(ldb_edit_t *edit, uint64_t num) { (void)edit; (void)num; }
void ldb_version_ref(ldb_version_t *v) { VP_ASSERT(v == &ver_obj && vp_mutex_held, "version pinned under the mutex"); v->refs++; }
void ldb_version_unref(ldb_version_t *v) { VP_ASSERT(v == &ver_obj && vp_mutex_held && v->refs > 1, "version released under the mutex"); v->refs--; }
void ldb_filemeta_init(ldb_filemeta_t *m) { m->number = 0; m->file_size = 0; }
void ldb_filemeta_clear(ldb_filemeta_t *m) { (void)m; }
const char *ldb_strerror(int code) { (void)code; return ""; }
void ldb_memtable_unref(ldb_memtable_t *m) { VP_ASSERT(m == &imm_obj && vp_mutex_held, "imm released under the mutex"); m->refs--; }

ldb_iter_t *
ldb_memiter_create(const ldb_memtable_t *m) {
  vp_cur_t *c = (vp_cur_t *)ldb_malloc(sizeof(vp_cur_t));
  VP_ASSERT(m == &imm_obj && g_in_flush, "the flush iterates the immutable memtable");
  c->kind = 2;
  c->pos = -1;
  g_vf_live++;
  return ldb_iter_create(c, &vp_in_table, &db.internal_comparator);
}

int
ldb_build_table(const char *dbname, const ldb_dbopt_t *options, ldb_tables_t *cache, ldb_iter_t *iter, ldb_filemeta_t *meta) {
  int frc = vp_bool() ? LDB_OK : LDB_IOERR;
  (void)iter;
  VP_ASSERT(dbname == db.dbname && options == &db.options && cache == &tables_obj, "level-0 table built for this database");
  VP_ASSERT(!vp_mutex_held && g_in_flush, "level-0 table built with the mutex released");
  VP_ASSERT(pend_used[VP_N] && pend_val[VP_N] == meta->number, "C13.c the flush's output number is pending while the table is built");
  g_flush_builds++;
  meta->file_size = 0;     /* nothing to write (or failed): no file */
  return frc;
}

void rb_tree_init(rb_tree_t *tree, rb_cmp_f *compare, void *arg) { (void)tree; (void)compare; (void)arg; }
void rb_tree_clear(rb_tree_t *tree, rb_clear_f *clear) { (void)tree; (void)clear; }
void rb_tree_copy(rb_tree_t *z, const rb_tree_t *x, rb_copy_f *copy) { (void)z; (void)x; (void)copy; }
void ldb_versions_add_files(ldb_versions_t *v, rb_set64_t *live) { (void)v; (void)live; }

int
ldb_get_children(const char *path, char ***out) {
  (void)path;
  *out = NULL;
  return 0;                /* empty listing: garbage collection is decided by C13.a */
}
#endif

/* ---- reference --------------------------------------------------------- */
/* newest entry of user key u with sequence <= s among the inputs (out == 0) or
   among what was written (out == 1); deeper data below everything.
   result: 0 not found, 1 + value byte, 300 deeper value */
static int
fold(int out, int u, uint64_t s) {
  int i, res = -1;
  for (i = 0; i < VP_N; i++) {
    if (res == -1) {
      if (!out) {
        if (in_u[i] == u && in_seq[i] <= s)
          res = in_type[i] == 1 ? 1 + (int)in_val[i][0] : 0;
      } else if (rec_kept[i]) {
        if (rec_uk[i] == ukb[u] && (rec_tag[i] >> 8) <= s)
          res = (rec_tag[i] & 0xff) == 1 ? 1 + (int)rec_val[i] : 0;
      }
    }
  }
  if (res == -1)
    res = (deeper[u] && deeper_seq[u] <= s) ? 300 : 0;
  return res;
}

void
harness(void) {
  ldb_cstate_t *state;
  uint64_t smallest = 0, s = 0, num_lo;
  int i, j, k, rc, level, bg0;
  int w_shadow = 0, w_tomb = 0, w_kepttomb = 0, w_keptsnap = 0, w_cutstop = 0, w_cutsize = 0;
  int64_t written = 0;
  int had_snap = 0;

  /* ---- arbitrary well-formed pre-state ---- */
  vp_db_mutex = &db.mutex;
  db.versions = &vs;
  db.table_cache = &tables_obj;
  db.internal_comparator.user_comparator = ldb_bytewise_comparator;
  vs.last_sequence = vp_u64();
  VP_ASSUME(vs.last_sequence <= VP_SEQ_MAX - 4096);
  vs.next_file_number = vp_u64();
  VP_ASSUME(vs.next_file_number >= 2 && vs.next_file_number < (UINT64_C(1) << 60));
  g_num0 = vs.next_file_number;
  db.bg_error = LDB_OK;
  bg0 = db.bg_error;
  db.shutting_down = 0;
  db.imm = NULL;
  db.has_imm = 0;
#if VP_IMM
  vs.current = &ver_obj;
  ver_obj.refs = 1;
  imm_obj.refs = 1;
#endif

  /* another number is already pending (a flush's output, say) */
  pend_used[VP_N + 1] = vp_bool();
  num_lo = vp_u64();
  VP_ASSUME(num_lo < g_num0);
  pend_val[VP_N + 1] = num_lo;

  /* snapshots: sorted, none ahead of last_sequence */
  db.snapshots.head.next = &db.snapshots.head;
  db.snapshots.head.prev = &db.snapshots.head;
  db.snapshots.head.sequence = 0;
  smallest = vs.last_sequence;
#if VP_SNAPS >= 1
  if (vp_bool()) {
    s = vp_u64();
    VP_ASSUME(s <= vs.last_sequence);
    env_link_tail(&snap0, s);
    snap0_held = 1;
    smallest = s;
  }
#endif
#if VP_SNAPS >= 2
  if (vp_bool()) {
    uint64_t t = vp_u64();
    VP_ASSUME(t >= s && t <= vs.last_sequence);
    env_link_tail(&snap1, t);
    snap1_held = 1;
    if (!snap0_held)
      smallest = t;
  }
#endif

  had_snap = snap0_held || snap1_held;

  /* the compaction */
  level = VP_LEVEL;
  comp.level = level;
  comp.max_output_file_size = vp_u64();
  in_file0.file_size = vp_u64();
  in_file1.file_size = vp_u64();
  VP_ASSUME(in_file0.file_size < (UINT64_C(1) << 40) && in_file1.file_size < (UINT64_C(1) << 40));
  ldb_vector_init(&comp.inputs[0]);
  ldb_vector_init(&comp.inputs[1]);
  ldb_vector_push(&comp.inputs[0], &in_file0);
  if (vp_bool())
    ldb_vector_push(&comp.inputs[1], &in_file1);

  /* the input: sorted internal keys */
  ukb[0] = vp_u8();
  ukb[1] = vp_u8();
  VP_ASSUME(ukb[0] < ukb[1]);
  for (i = 0; i < VP_N; i++) {
    uint64_t tag;
    in_u[i] = vp_bool();
    in_seq[i] = vp_u64();
    in_type[i] = vp_bool();
    VP_ASSUME(in_seq[i] >= 1 && in_seq[i] <= vs.last_sequence);
    if (i > 0) {
      VP_ASSUME(in_u[i] >= in_u[i - 1]);
      if (in_u[i] == in_u[i - 1])
        VP_ASSUME(in_seq[i] < in_seq[i - 1]);
    }
    in_key[i] = vp_input(9);
    in_val[i] = vp_input(1);
    in_key[i][0] = ukb[in_u[i]];
    tag = (in_seq[i] << 8) | (uint64_t)in_type[i];
    for (j = 0; j < 8; j++)
      in_key[i][1 + j] = (uint8_t)((tag >> (8 * j)) & 0xff);
    in_val[i][0] = vp_u8();
  }
  for (k = 0; k < 2; k++) {
    deeper[k] = vp_bool();
    deeper_seq[k] = vp_u64();
    for (i = 0; i < VP_N; i++)
      if (in_u[i] == k)
        VP_ASSUME(deeper_seq[k] < in_seq[i]);
    VP_ASSUME(deeper_seq[k] <= vs.last_sequence);
    base_ans[k] = deeper[k] ? 0 : vp_bool();
  }
#if VP_FAULTS
  if (vp_bool()) {
    in_status = vp_bool() ? LDB_IOERR : LDB_CORRUPTION;
    in_stop = vp_int();
    VP_ASSUME(in_stop >= 0 && in_stop <= VP_N);
  }
  shut_at = vp_int();
  VP_ASSUME(shut_at >= -1 && shut_at <= VP_N);
#endif
#if VP_IMM
  imm_at = vp_int();
  VP_ASSUME(imm_at >= 0 && imm_at < VP_N);
#endif

  /* final sizes: 1..256 in a bit field of its own per output, so that the
     sums the statistics form have no carries (equalities between 64-bit
     adder chains are what SAT solvers are worst at) */
  for (k = 0; k < VP_N; k++)
    fsz[k] = ((uint64_t)vp_u8() + 1) << (9 * k);

  state = ldb_cstate_create(&comp);
  vp_mutex_held = 1;     /* ldb_background_compaction holds the mutex */
  ghost_save();

  /* ---- the real code ---- */
  rc = ldb_do_compaction_work(&db, state);

  /* ---- post-conditions ---- */
  VP_ASSERT(vp_mutex_held, "mutex held on return");
  VP_ASSERT(vp_unlocks >= 1, "the heavy loop ran with the mutex released");
  VP_ASSERT(state->smallest_snapshot == smallest, "C06.b smallest_snapshot == oldest held snapshot, else last_sequence, as read under the mutex");
  VP_ASSERT(g_in_created == 1 && g_in_cleared == 1 && g_vf_live == 0, "iterators created by the compaction are destroyed");

  /* error discipline */
  if (g_first_err != LDB_OK) {
    VP_ASSERT(rc == g_first_err, "C02.g the first error reported by the iterator / builder / file / install is returned");
  } else if (db.shutting_down) {
    VP_ASSERT(rc == LDB_IOERR && g_apply_n == 0, "a compaction interrupted by shutdown fails and installs nothing");
  } else {
    VP_ASSERT(rc == LDB_OK && g_apply_n == 1, "without errors the compaction succeeds and installs once");
  }
  if (in_status != LDB_OK)
    VP_ASSERT(rc != LDB_OK && g_apply_n == 0, "C02.g/C12 an error of the input iterator makes the compaction fail, nothing is installed (even when every entry seen was dropped)");
  if (rc != LDB_OK) {
    VP_ASSERT(g_apply_n == 0 || g_apply_rc != LDB_OK, "C02.g a failed compaction installed nothing");
    VP_ASSERT(db.bg_error != LDB_OK, "C12 a failed compaction latches the background error");
    if (bg0 == LDB_OK && g_flushes == 0)
      VP_ASSERT(db.bg_error == rc && g_bg_broadcast >= 1, "the latched error is the compaction's, waiters are woken");
  }

  /* statistics: charged to level + 1, once, under the mutex (ghost_check) */
  written = g_written;
  for (i = 0; i < LDB_NUM_LEVELS; i++) {
    if (i == level + 1) {
      VP_ASSERT(db.stats[i].bytes_written == written, "bytes written == sum of the outputs' sizes, charged to level + 1");
      VP_ASSERT(db.stats[i].bytes_read == (int64_t)(in_file0.file_size + (comp.inputs[1].length ? in_file1.file_size : 0)),
                "bytes read == sum of the input files' sizes");
    } else if (!(VP_IMM && i == 0)) {   /* (a flush charges its time to level 0) */
      VP_ASSERT(db.stats[i].bytes_written == 0 && db.stats[i].bytes_read == 0 && db.stats[i].micros == 0, "other levels' statistics untouched");
    }
  }

  if (g_apply_n == 1) {
    int prev = -1;
    int u;
    uint64_t q;

    VP_ASSERT(g_pos_seen == VP_N && g_stop_calls == VP_N && in_status == LDB_OK, "an installed compaction consumed its whole input");

    /* exact drop rule (reference written from the LevelDB design, over all
       earlier entries rather than a running variable) */
    for (i = 0; i < VP_N; i++) {
      int shadowed = 0, obsolete, expect;
      for (j = 0; j < i; j++)
        if (in_u[j] == in_u[i] && in_seq[j] <= smallest)
          shadowed = 1;
      obsolete = in_type[i] == 0 && in_seq[i] <= smallest && base_ans[in_u[i]];
      expect = !(shadowed || obsolete);
#if VP_EXACT
      VP_ASSERT(rec_kept[i] == expect, "C01.c an entry is dropped iff a newer entry of its key is <= smallest_snapshot, or it is a tombstone <= smallest_snapshot with no deeper data");
      /* proved just above; handed to the solver as a lemma for the checks below */
      VP_ASSUME(rec_kept[i] == expect);
#endif
      if (!rec_kept[i] && shadowed) w_shadow = 1;
      if (!rec_kept[i] && !shadowed) w_tomb = 1;
      if (rec_kept[i] && in_type[i] == 0 && in_seq[i] <= smallest && deeper[in_u[i]]) w_kepttomb = 1;
      if (rec_kept[i] && i > 0 && in_u[i - 1] == in_u[i] && had_snap && in_seq[i - 1] > smallest && in_seq[i] <= smallest) w_keptsnap = 1;
    }

    /* C14.c: sorted, duplicate-free, contiguous runs cut where the oracles say */
    for (i = 0; i < VP_N; i++) {
      if (rec_kept[i]) {
        VP_ASSERT(rec_uk[i] == in_key[i][0] && (rec_tag[i] >> 8) == in_seq[i] && (int)(rec_tag[i] & 0xff) == in_type[i],
                  "what is written is the input entry, unchanged");
        VP_ASSUME(rec_uk[i] == in_key[i][0] && (rec_tag[i] >> 8) == in_seq[i] && (int)(rec_tag[i] & 0xff) == in_type[i]);
        VP_ASSUME(rec_val[i] == in_val[i][0]);   /* asserted in ldb_tablegen_add */
        if (prev >= 0) {
          int must_cut = g_cut_size[prev], same = rec_slot[prev] == rec_slot[i];
          VP_ASSERT(rec_uk[prev] < rec_uk[i] || (rec_uk[prev] == rec_uk[i] && rec_tag[prev] > rec_tag[i]),
                    "C14.c outputs strictly increasing in internal-key order (no duplicates)");
          VP_ASSERT(rec_slot[prev] <= rec_slot[i], "C14.c outputs are contiguous runs in creation order");
          for (j = 0; j < VP_N; j++)
            if (j > prev && j <= i && g_stop[j])
              must_cut = 1;
          VP_ASSERT(same == !must_cut, "C14.c a new output starts exactly where the stop oracle or the size limit says");
          if (!same && !g_cut_size[prev]) w_cutstop = 1;
          if (!same && g_cut_size[prev]) w_cutsize = 1;
        }
        prev = i;
      }
    }

    /* C01.c / C06.b: every view at or above smallest_snapshot is unchanged */
    u = vp_bool();
    q = vp_u64();
    VP_ASSUME(q >= smallest && q <= VP_SEQ_MAX);
    VP_ASSERT(fold(1, u, q) == fold(0, u, q), "C01.c/C06.b for every S >= smallest_snapshot and every key: newest entry <= S is the same before and after the compaction");
  }

  /* ---- cleanup (ldb_background_compaction runs it next) ---- */
  ldb_cleanup_compaction(&db, state);
  VP_ASSERT(!tb.live && !wf.open, "cleanup releases a builder / file left open by an interrupted compaction");
  for (k = 0; k < VP_N; k++)
    VP_ASSERT(!pend_used[k], "C13.c cleanup erases every output number from pending_outputs");
  VP_ASSERT(pend_used[VP_N + 1] == 0 || pend_val[VP_N + 1] == num_lo, "other pending numbers untouched");

  /* ---- witnesses ---- */
  if (rc == LDB_OK) {
    VP_WITNESS("compaction-installed");
#if VP_N >= 2
    if (w_shadow) VP_WITNESS("dropped-shadowed-entry");
    if (w_keptsnap) VP_WITNESS("kept-for-snapshot");
    if (w_cutstop) VP_WITNESS("file-cut-by-should-stop-before");
    if (w_cutsize) VP_WITNESS("file-cut-by-size");
#endif
#if VP_N >= 1
    if (w_tomb) VP_WITNESS("dropped-tombstone");
    if (w_kepttomb) VP_WITNESS("kept-tombstone-because-deeper-data");
#endif
    if (g_outputs == 0) VP_WITNESS("everything-dropped-no-output");
  }
#if VP_FAULTS
#if VP_N >= 1
  if (w_fin) VP_WITNESS("builder-finish-failed");
  if (w_abandon) VP_WITNESS("output-abandoned");
  if (w_sync) VP_WITNESS("sync-failed");
  if (w_close) VP_WITNESS("close-failed");
  if (w_verify) VP_WITNESS("verify-failed");
  if (w_create) VP_WITNESS("create-failed");
#endif
  if (rc != LDB_OK && in_status != LDB_OK && rc == in_status) VP_WITNESS("iterator-error");
  if (rc != LDB_OK && db.shutting_down && g_first_err == LDB_OK) VP_WITNESS("shutdown");
  if (g_apply_n == 1 && g_apply_rc != LDB_OK) VP_WITNESS("install-failed");
#endif
#if VP_IMM
  VP_ASSERT(g_flushes == 0 || (g_flush_builds >= 1 && ver_obj.refs == 1), "the flush ran through the real ldb_compact_memtable");
  if (g_flushes > 0 && db.imm == NULL && rc == LDB_OK) VP_WITNESS("imm-flushed-in-the-middle");
  if (g_flushes > 0 && db.imm != NULL && g_outputs > 0 && g_apply_n == 1) VP_WITNESS("imm-flush-failed-compaction-went-on");
#endif
}
