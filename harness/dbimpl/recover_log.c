/* dbimpl/recover_log.c -- one call of the REAL ldb_recover_log_file()
 * (src/db_impl.c, with the real ldb_write_level0_table, report_corruption and
 * ldb_maybe_ignore_error) over a record source of <= VP_RECS records.
 *
 *   C03.c  every record of >= 12 bytes is replayed exactly once, in file
 *          order, into a memtable that is later written out (or kept as
 *          db->mem when the log is reused); shorter records are reported and
 *          skipped; *max_sequence = max(sequence + count - 1)
 *   C03.c  a memtable over write_buffer_size is written to a level-0 table
 *          before the next record is replayed, the rest at the end; every
 *          table written is recorded in the edit and *save_manifest is set
 *   C03.c  reuse (reuse_logs, last log, nothing written out): the log writer
 *          starts at the log's FILE SIZE, db->logfile_number names the log and
 *          the replayed memtable becomes db->mem; nothing is written out
 *   C05    paranoid_checks: a reader-reported corruption / failed insert is
 *          the returned status and stops the replay; otherwise it is skipped
 *          and the replay continues; a failed table write always fails
 *   C12    env failures: a log that cannot be opened fails the replay (never
 *          skipped: finding F3, fixed), a failed table write is returned, a
 *          failed size/append-open falls back to writing the memtable out
 *
 * See recover_world.h for the models.
 */
#include "dbimpl/recover_world.h"

static int vp_second_listing_ok(int kind, uint64_t num) { (void)kind; (void)num; return 1; }
static int vp_remove_permitted(const char *name) { (void)name; return 0; }

void
harness(void) {
  ldb_t *db = &the_db;
  ldb_edit_t edit;
  uint64_t log_number, max_sequence, max0, next0;
  int last_log, save_manifest, save0, rc, paranoid, reuse, k, live;
  int expect_reuse_try;

  /* ---- pre-state: ldb_recover is about to replay one log ---- */
  vp_db_mutex = &db->mutex;
  db->versions = &vs;
  vs.next_file_number = vp_u64();
  VP_ASSUME(vs.next_file_number >= 2 && vs.next_file_number < (UINT64_C(1) << 61));
  next0 = vs.next_file_number;
  paranoid = vp_bool();
  reuse = vp_bool();
  db->options.paranoid_checks = paranoid;
  db->options.reuse_logs = reuse;
  db->options.write_buffer_size = vp_size();
  db->options.info_log = &the_logger;
  db->mem = NULL;
  db->imm = NULL;
  db->log = NULL;
  db->logfile = NULL;
  db->logfile_number = 0;
  db->db_lock = &the_lock;
  the_lock.held = 1;
  rb_set64_init(&db->pending_outputs);
  ldb_edit_init(&edit);
  log_number = vp_u64();
  VP_ASSUME(log_number < (UINT64_C(1) << 62));
  last_log = vp_bool();
  save0 = vp_bool();
  save_manifest = save0;
  max0 = vp_u64();
  VP_ASSUME(max0 < (UINT64_C(1) << 56));
  max_sequence = max0;

  ldb_mutex_lock(&db->mutex);

  /* ---- the real code ---- */
  rc = ldb_recover_log_file(db, log_number, last_log, &save_manifest, &edit, &max_sequence);

  /* ---- post-conditions ---- */
  VP_ASSERT(vp_mutex_held, "mutex held on return");
  VP_ASSERT(g_nreplayed == 1 && g_replayed[0] == log_number, "the log opened is the one asked for");
  VP_ASSERT(!the_rfile.open && !g_reader_live && !the_iter_live, "log file, reader and iterators released on every path");
  VP_ASSERT(g_renames == 0 && g_removes == 0 && g_truncs_other == 0 && !wf_manifest_used && !wf_newlog_used, "replay deletes, renames and truncates nothing");
  VP_ASSERT(db->pending_outputs.size == 0, "pending_outputs empty again");
  VP_ASSERT(save_manifest == 1 || save_manifest == save0, "save_manifest only ever raised");
  if (g_builds > 0)
    VP_ASSERT(save_manifest == 1, "a table written during replay forces a MANIFEST update");
  VP_ASSERT(max_sequence >= max0, "max_sequence never lowered");

  live = mems_created > 0 && !the_mem.dead;
  VP_ASSERT(live == (db->mem != NULL), "every memtable released except the one kept as db->mem");
  if (live)
    VP_ASSERT(db->mem == &the_mem && the_mem.refs == 1, "db->mem holds exactly one reference");

  if (g_open_failed[0]) {
    /* the log could not be opened */
    VP_ASSERT(g_ins_calls == 0 && g_builds == 0 && mems_created == 0 && db->mem == NULL && max_sequence == max0,
              "unopened log: nothing replayed");
    VP_ASSERT(rc != LDB_OK && rc == g_logopen_rc, "C12 a log that could not be opened is never treated as recovered: the error is returned, paranoid or not");
    if (paranoid)
      VP_WITNESS("log-open-failed-error-returned-paranoid");
    else
      VP_WITNESS("log-open-failed-error-returned");
    return;
  }

  VP_ASSERT(g_small_inserted == 0, "records shorter than 12 bytes are never parsed as batches");

  if (rc == LDB_OK) {
    /* completeness and order (order/once are asserted at every insert) */
    if (paranoid) {
      VP_ASSERT(rs_corrupt_at < 0 && rs_small_at < 0 && g_ins_failed == 0,
                "paranoid: success only if the reader reported nothing and every insert succeeded");
    }
    VP_ASSERT(rs_eof_seen, "success only after the log was read to its end");
    VP_ASSERT(g_missed == 0, "C03.c every record of >= 12 bytes was replayed");
    for (k = 0; k < VP_RECS; k++)
      if (k < rs_n)
        VP_ASSERT(rs_inserted[k] == (rs_size[k] >= 12), "C03.c replayed <=> record holds a batch header");
    if (g_any_inserted)
      VP_ASSERT(max_sequence == (g_ref_max_seq > max0 ? g_ref_max_seq : max0), "C03.c max_sequence = max(sequence + count - 1) over the replayed batches");
    else
      VP_ASSERT(max_sequence == max0, "no batch: max_sequence unchanged");
    VP_ASSERT(g_lost_mem == 0, "C03.c no replayed record is dropped: its memtable was written out or kept");
    VP_ASSERT(g_build_failed == 0, "success only if every table write succeeded");
    VP_ASSERT(g_added_edit == NULL || g_added_edit == &edit, "tables recorded in the caller's edit");
    for (k = 0; k < VP_NEWTBL; k++)
      if (k < g_nnewtbl)
        VP_ASSERT(g_newtbl_added[k] == g_newtbl_ok[k] && g_newtbl[k] >= next0, "every non-empty table written is in the edit, under a fresh number");

    expect_reuse_try = reuse && last_log && g_builds_in_loop == 0;
    VP_ASSERT(g_filesize_asked == (expect_reuse_try ? 1 : 0), "reuse attempted exactly for the last log, with reuse_logs, when nothing was written out");
    if (expect_reuse_try && g_filesize_rc == LDB_OK)
      VP_ASSERT(g_append_asked == 1 && g_append_num == log_number, "the log reopened for appending is the one just replayed");
    else
      VP_ASSERT(g_append_asked == 0, "no append-open without a size");
    if (expect_reuse_try && g_filesize_rc == LDB_OK && g_append_rc == LDB_OK) {
      VP_ASSERT(db->logfile == &wf_applog && wf_applog.append && wf_applog.num == log_number && !wf_applog.destroyed,
                "C03.c reused log is the current log file");
      VP_ASSERT(g_writer_created == 1 && db->log == &the_writer && g_writer_file == db->logfile, "C03.c writer on the reused log");
      VP_ASSERT(g_writer_length == g_filesize, "C03.c writer of a reused log starts at the log's file size");
      VP_ASSERT(db->logfile_number == log_number, "C03.c logfile_number names the reused log");
      VP_ASSERT(db->mem != NULL && !db->mem->flushed && db->mem->dirty == (g_ins_calls > 0), "C03.c the replayed memtable is kept as db->mem");
      VP_ASSERT(g_builds == 0 && save_manifest == save0, "reused log: nothing written out");
      VP_WITNESS("log-reused");
      if (g_ins_calls == 0)
        VP_WITNESS("empty-log-reused");
    } else {
      VP_ASSERT(db->mem == NULL && db->log == NULL && db->logfile == NULL && db->logfile_number == 0 && g_writer_created == 0,
                "log not reused: db left without memtable/log (ldb_open creates them)");
      if (g_ins_calls > 0) {
        VP_ASSERT(g_builds >= 1, "C03.c replayed records are written to a level-0 table");
        VP_WITNESS("replayed-and-flushed");
      }
      if (expect_reuse_try)
        VP_WITNESS("reuse-attempt-failed-falls-back-to-flush");
    }
    if (g_builds_in_loop > 0)
      VP_WITNESS("flushed-over-write-buffer");
#if VP_RECS >= 2
    if (g_builds >= 2)
      VP_WITNESS("two-tables");
#endif
    if (rs_small_at >= 0)
      VP_WITNESS("small-record-skipped");
    if (rs_corrupt_at >= 0 && g_ins_calls > 0)
      VP_WITNESS("corruption-ignored-replay-continues");
    if (g_ins_failed > 0)
      VP_WITNESS("insert-error-ignored");
  } else {
    VP_ASSERT(db->mem == NULL && db->log == NULL && db->logfile == NULL && g_writer_created == 0, "failed replay leaves the db without memtable/log and reuses nothing");
    if (g_build_failed) {
      VP_ASSERT(rc == g_build_rc, "C12 failed table write is the returned status");
      VP_WITNESS("table-write-failed");
    } else if (paranoid && g_ins_failed) {
      VP_ASSERT(rc == g_ins_rc, "paranoid: failed insert is the returned status");
      VP_WITNESS("paranoid-insert-failed");
    } else {
      VP_ASSERT(paranoid, "without paranoid_checks only env failures fail the replay");
      VP_ASSERT(rc == LDB_CORRUPTION && (rs_corrupt_at >= 0 || rs_small_at >= 0), "paranoid: reported corruption is the returned status");
      VP_WITNESS("paranoid-corruption");
    }
    if (paranoid && !g_build_failed) {
      /* nothing at or behind the first reported problem is replayed */
      int stop = rs_corrupt_at;
      if (rs_small_at >= 0 && (stop < 0 || rs_small_at < stop))
        stop = rs_small_at;
      if (stop >= 0)
        for (k = 0; k < VP_RECS; k++)
          if (k >= stop && k < rs_n)
            VP_ASSERT(!rs_inserted[k], "paranoid: replay stops at the first reported corruption");
    }
  }
}
