/* world.h -- shared skeleton of the db_impl.c monitor family (DESIGN 2, 4).
 *
 * The harness TU #includes this file, which #includes the REAL src/db_impl.c
 * (so its static functions and struct ldb_s are visible) after re-enabling
 * ldb_mutex_assert_held as a ghost assertion.  Everything db_impl.c calls in
 * other translation units is either linked as the real TU or replaced by a
 * monitoring stub defined by the harness (sync primitives here; env, log,
 * memtable, version-set stubs per harness).
 */
#ifndef VP_DBIMPL_WORLD_H
#define VP_DBIMPL_WORLD_H

#include "vp.h"
#include "util/port.h"

/* --- ghost mutex ------------------------------------------------------- */
static int vp_mutex_held = 0;       /* db->mutex held by the running thread */
static void *vp_db_mutex = 0;       /* address of db->mutex */
static int vp_unlocks = 0;          /* number of releases so far */

#undef ldb_mutex_assert_held
#define ldb_mutex_assert_held(m) \
  VP_ASSERT((void *)(m) != vp_db_mutex || vp_mutex_held, "mutex held where ldb_mutex_assert_held says so")

#include "db_impl.c"

/* hooks the harness defines */
static void vp_on_unlock(void);              /* invariant check + interference, mutex about to be released */
static void vp_on_wait(ldb_cond_t *cv);      /* same, plus the environment's progress while we sleep */
static void vp_on_signal(ldb_cond_t *cv, int broadcast);
#ifdef VP_WORLD_ON_LOCK
static void vp_on_lock(void);                /* the environment acts while we block on the db mutex */
#endif

void ldb_mutex_init(ldb_mutex_t *m) { (void)m; }
void ldb_mutex_destroy(ldb_mutex_t *m) { (void)m; }

void
ldb_mutex_lock(ldb_mutex_t *m) {
  if ((void *)m == vp_db_mutex) {
    VP_ASSERT(!vp_mutex_held, "db mutex not locked twice (self-deadlock)");
#ifdef VP_WORLD_ON_LOCK
    vp_on_lock();
#endif
    vp_mutex_held = 1;
  }
}

void
ldb_mutex_unlock(ldb_mutex_t *m) {
  if ((void *)m == vp_db_mutex) {
    VP_ASSERT(vp_mutex_held, "db mutex unlocked only when held");
    vp_on_unlock();
    vp_mutex_held = 0;
    vp_unlocks++;
  }
}

void ldb_cond_init(ldb_cond_t *c) { (void)c; }
void ldb_cond_destroy(ldb_cond_t *c) { (void)c; }

void
ldb_cond_signal(ldb_cond_t *c) {
  vp_on_signal(c, 0);
}

void
ldb_cond_broadcast(ldb_cond_t *c) {
  vp_on_signal(c, 1);
}

void
ldb_cond_wait(ldb_cond_t *c, ldb_mutex_t *m) {
  VP_ASSERT((void *)m == vp_db_mutex && vp_mutex_held, "cond_wait with the db mutex held");
  vp_on_wait(c);   /* mutex is released while asleep: interference happens here */
  vp_unlocks++;
}

#endif
