/* dbimpl/readers.c -- the read side of the REAL src/db_impl.c: one call of
 *
 *   VP_FN 0  ldb_get (ldb_has with VP_HAS)          + real ldb_lkey_init (dbformat.c)
 *   VP_FN 1  ldb_snapshot                           + real ldb_snaplist_new
 *   VP_FN 2  ldb_release                            + real ldb_snaplist_delete
 *   VP_FN 3  ldb_iterator -> ldb_internal_iterator, then the registered cleanup
 *            (cleanup_iter_state -> ldb_istate_destroy) as ldb_iter_destroy runs it
 *   VP_FN 4  ldb_record_read_sample                 + real ldb_maybe_schedule_compaction
 *
 * from an arbitrary well-formed database state, with monitoring stubs below
 * db_impl.c (memtable, version, iterator constructors, allocator, vector,
 * value buffer) and with the ENVIRONMENT acting at every point where the
 * calling thread does not hold db->mutex: while it blocks in ldb_mutex_lock
 * (vp_on_lock) and when it releases the mutex (vp_on_unlock).  The
 * environment (other writers, the background thread, other readers)
 *   - publishes sequence numbers (last_sequence += 0..255),
 *   - finishes the flush of imm (imm := NULL, the owner's reference on the old
 *     imm is dropped, a new version is installed and the owner's reference on
 *     the old version is dropped),
 *   - switches memtables (imm := mem, mem := fresh),
 *   - installs versions (compaction),
 *   - takes and releases OTHER snapshots, creates other iterators (seed).
 * An object whose reference count reaches 0 is destroyed; every stub asserts
 * that the object it is handed is not destroyed.  No thread interleaving is
 * enumerated: this is a sequential rely/guarantee argument.
 *
 * C06.c  the lookup key / the db iterator is built with exactly the given
 *        snapshot's sequence, else with last_sequence as it was INSIDE the
 *        critical section; ldb_snapshot returns a node carrying last_sequence
 *        read under the mutex, linked (under the mutex) at the tail of
 *        db->snapshots; ldb_release unlinks and frees exactly that node under
 *        the mutex; other snapshots are never disturbed.
 * C08.b  (mem, imm, current, last_sequence) are captured in ONE critical
 *        section: the objects/values handed to the lookup stubs are the ones
 *        the shared fields held at the first release of the mutex, although
 *        the environment has replaced all of them since; references are
 *        taken before that release and dropped in a later critical section,
 *        once each, on every path; lookup order mem, imm, version, and an
 *        answer (value OR tombstone) from a newer place ends the search;
 *        ldb_version_update_stats only under the mutex; no lookup under the
 *        mutex; a reader never writes mem/imm/current/last_sequence.
 * C07.f  ldb_internal_iterator refs mem, imm (if any) and current under the
 *        mutex, hands exactly their iterators to the merger, registers
 *        cleanup_iter_state on the merging iterator; the cleanup unrefs each
 *        exactly once under the mutex; in between the objects stay alive
 *        whatever the environment does.
 * C10.a  reference counts, the snapshot list and the allocator calls for
 *        snapshot nodes happen only with the mutex held; shared fields are
 *        compared with a ghost copy at every lock (a write outside the lock).
 */
#define VP_WORLD_ON_LOCK
#include "dbimpl/world.h"

#define VP_FN_GET 0
#define VP_FN_SNAPSHOT 1
#define VP_FN_RELEASE 2
#define VP_FN_ITER 3
#define VP_FN_SAMPLE 4

#ifndef VP_FN
#define VP_FN VP_FN_GET
#endif
#ifndef VP_SNAP
#define VP_SNAP 0      /* options->snapshot is given (get / iterator) */
#endif
#ifndef VP_OPTNULL
#define VP_OPTNULL 0   /* options == NULL: the library defaults (real util/options.c) */
#endif
#ifndef VP_HAS
#define VP_HAS 0       /* value == NULL (ldb_has) */
#endif
#ifndef VP_KLEN
#define VP_KLEN 2      /* user key length, bytes symbolic */
#endif
#ifndef VP_ES
#define VP_ES 2        /* other threads' snapshots in the pre-state (each symbolic present/absent) */
#endif

#define VP_NM 4        /* memtable objects: 0 mem, 1 imm, 2..3 created by the environment */
#define VP_NV 4        /* version objects: 0 current, 1..3 installed by the environment */
#define VP_NS 6        /* snapshot nodes, see VP_S_* */
#define VP_NI 6        /* iterator objects handed out by the stubs */

struct ldb_memtable_s { int refs; };

/* ---- the database under test ---------------------------------------- */
static ldb_t db;
static ldb_versions_t vs;
static struct ldb_memtable_s mems[VP_NM];
static ldb_version_t vers[VP_NV];
static ldb_comparator_t ucmp_obj;
static ldb_filemeta_t fmeta;

/* ---- ghost: object life and references ------------------------------ */
static int m_destroyed[VP_NM], v_destroyed[VP_NV];
static int m_ref[VP_NM], m_unref[VP_NM];    /* calls made by the code under test */
static int v_ref[VP_NV], v_unref[VP_NV];
static int m_ref_sect[VP_NM], v_ref_sect[VP_NV];   /* critical section of the ref */
static int g_sections = 0;                  /* critical sections entered so far */

/* shared fields as they were when the mutex was released the k-th time */
static int cap_mem[2], cap_imm[2], cap_cur[2];
static uint64_t cap_seq[2];
static uint32_t cap_seed[2];
/* ... at lock time (after the environment moved), to see that readers do not write them */
static ldb_memtable_t *lk_mem, *lk_imm;
static ldb_version_t *lk_cur;
static uint64_t lk_seq;
/* ... ghost copy kept by the environment (writes outside the lock) */
static ldb_memtable_t *gh_mem, *gh_imm;
static ldb_version_t *gh_cur;
static uint64_t gh_seq;
static uint32_t gh_seed;

static int
mem_index(const ldb_memtable_t *m) {
  int i, r = -1;
  for (i = 0; i < VP_NM; i++)
    if (m == &mems[i]) r = i;
  return r;
}

static int
ver_index(const ldb_version_t *v) {
  int i, r = -1;
  for (i = 0; i < VP_NV; i++)
    if (v == &vers[i]) r = i;
  return r;
}

/* ---- snapshot nodes ---------------------------------------------------
 * Slot order IS list order (snapshots are only ever appended at the tail
 * and a slot is never reused), so the reference list is "the live slots in
 * increasing index" and every index stays concrete. */
#define VP_S_OLD 0     /* another thread's, older than the caller's */
#define VP_S_MINE 1    /* the caller's (options->snapshot / the one released) */
#define VP_S_NEW 2     /* another thread's, newer */
#define VP_S_ENV1 3    /* taken by another thread while we block on the mutex */
#define VP_S_CODE 4    /* allocated by the code under test (ldb_snapshot) */
#define VP_S_ENV2 5    /* taken by another thread after we released the mutex */
static ldb_snapshot_t snaps[VP_NS];
static int s_state[VP_NS];          /* 0 free, 1 live (linked), 2 freed */
static uint64_t s_seq[VP_NS];       /* sequence the node was created with */
static int g_snap_allocs = 0, g_snap_alloc_held = 0;
static int g_snap_frees = 0, g_snap_free_slot = -1, g_snap_free_held = 0;

static int
snap_index(const void *p) {
  int i, r = -1;
  for (i = 0; i < VP_NS; i++)
    if (p == (const void *)&snaps[i]) r = i;
  return r;
}

static int
snap_live(void) {
  int i, n = 0;
  for (i = 0; i < VP_NS; i++)
    if (s_state[i] == 1) n++;
  return n;
}

/* the list, walked link by link, is exactly the live slots in order */
static void
check_snaplist(void) {
  const ldb_snapshot_t *p = &db.snapshots.head;
  int i;
  for (i = 0; i < VP_NS; i++) {
    if (s_state[i] == 1) {
      VP_ASSERT(p->next == &snaps[i], "C06.c snapshot list holds exactly the held snapshots, in creation order");
      VP_ASSERT(snaps[i].prev == p, "C06.c snapshot list back links mirror the forward links");
      VP_ASSERT(snaps[i].sequence == s_seq[i], "C06.a a held snapshot's sequence never changes");
      VP_ASSERT(snaps[i].sequence <= vs.last_sequence, "C06.c no snapshot is ahead of the published sequence");
      if (p != &db.snapshots.head)
        VP_ASSERT(p->sequence <= snaps[i].sequence, "C06.a snapshot list sorted by sequence");
      p = &snaps[i];
    }
  }
  VP_ASSERT(p->next == &db.snapshots.head && db.snapshots.head.prev == p, "C06.c snapshot list is circular through the dummy head");
}

/* environment / pre-state: link a node at the tail, unlink a node -- by hand */
static void
env_link_tail(int slot, uint64_t seq) {
  ldb_snapshot_t *n = &snaps[slot];
  n->sequence = seq;
  n->next = &db.snapshots.head;
  n->prev = db.snapshots.head.prev;
  n->prev->next = n;
  db.snapshots.head.prev = n;
  s_state[slot] = 1;
  s_seq[slot] = seq;
}

static void
env_unlink(int slot) {
  ldb_snapshot_t *n = &snaps[slot];
  n->prev->next = n->next;
  n->next->prev = n->prev;
  n->next = NULL;
  n->prev = NULL;
  s_state[slot] = 2;
}

/* ---- the environment --------------------------------------------------
 * env_act() number k (k = 1: while we block on the first lock, k = 2: at the
 * first release, ...) may create memtable k+1 and version k: indices stay
 * concrete.  From the fourth call on only sequence numbers move. */
static int env_acts = 0;
static int env_switched = 0, env_flushed = 0, env_installed = 0;
static int env_snap_taken = 0, env_snap_released = 0;

static void
env_install_version(int k) {
  int i;
  for (i = 0; i < VP_NV; i++) {
    if (i < k && vs.current == &vers[i]) {
      vers[i].refs--;                       /* the version set's own reference */
      if (vers[i].refs == 0)
        v_destroyed[i] = 1;
    }
  }
  vers[k].refs = 1;
  vs.current = &vers[k];
  env_installed++;
}

static void
env_release_snapshot(int slot) {
  if (s_state[slot] == 1 && vp_bool()) {
    env_unlink(slot);
    env_snap_released++;
  }
}

static void
env_act(void) {
  int i, k, installed = 0;
  unsigned bump = vp_u8();

  VP_ASSERT(env_acts < 8, "vp-model: more release points than modelled");
  k = ++env_acts;

  /* writers publish, other iterators are created */
  vs.last_sequence += bump;
  db.seed += vp_u8();

  if (k <= VP_NV - 1) {
    /* the background thread finishes flushing imm */
    if (db.imm != NULL && vp_bool()) {
      for (i = 0; i < VP_NM; i++) {
        if (db.imm == &mems[i]) {
          mems[i].refs--;                   /* the database's own reference */
          if (mems[i].refs == 0)
            m_destroyed[i] = 1;
        }
      }
      db.imm = NULL;
      db.has_imm = 0;
      env_install_version(k);
      installed = 1;
      env_flushed++;
    }
    /* a writer switches memtables */
    if (k <= VP_NM - 2 && db.imm == NULL && vp_bool()) {
      db.imm = db.mem;
      db.has_imm = 1;
      mems[k + 1].refs = 1;
      db.mem = &mems[k + 1];
      env_switched++;
    }
    /* a compaction installs a version */
    if (!installed && vp_bool())
      env_install_version(k);
  }

  /* other threads release / take snapshots (never the caller's) */
  if (k <= 2) {
    env_release_snapshot(VP_S_OLD);
    env_release_snapshot(VP_S_NEW);
    if (k == 2)
      env_release_snapshot(VP_S_ENV1);
    if (vp_bool()) {
      env_link_tail(k == 1 ? VP_S_ENV1 : VP_S_ENV2, vs.last_sequence);
      env_snap_taken++;
    }
  }

  gh_mem = db.mem;
  gh_imm = db.imm;
  gh_cur = vs.current;
  gh_seq = vs.last_sequence;
  gh_seed = db.seed;
}

/* ---- recorders -------------------------------------------------------- */
static uint8_t kbuf[VP_KLEN + 1];
static ldb_slice_t ukey;
static const ldb_readopt_t *g_opts = NULL;   /* what the stubs must be handed */
static uint64_t mine_seq0 = 0;

static int g_mget_n = 0, g_mget_obj[2], g_mget_res[2];
static int g_vget_n = 0, g_vget_obj = -1, g_vget_rc = 0, g_vget_after_mgets = 0;
static uint64_t g_lookup_seq[3];
static int g_lookups = 0;
static ldb_getstats_t *g_stats_ptr = NULL;
static ldb_filemeta_t *g_stats_file = NULL;
static int g_stats_level = 0;
static int g_upd_n = 0, g_upd_rc = 0;
static int g_scheduled = 0, g_needs = 0;
static int g_buf_init = 0, g_buf_grow = 0, g_buf_clear = 0;
static ldb_slice_t *g_value = NULL;

static int g_sample_n = 0, g_sample_rc = 0;

static ldb_iter_t iters[VP_NI];
static int it_used = 0;
static int g_memiter_n = 0, g_memiter_obj[2];
static ldb_iter_t *g_memiter_it[2];
static int g_additer_n = 0, g_additer_obj = -1, g_additer_cnt = 0;
static ldb_iter_t *g_additer_it[2];
static int g_merge_n = 0, g_merge_children = 0, g_merge_held = 0;
static ldb_iter_t *g_merge_child[4];
static ldb_iter_t *g_merge_it = NULL;
static int g_reg_n = 0, g_reg_held = 0;
static ldb_iter_t *g_reg_iter = NULL;
static ldb_cleanup_f g_reg_func = NULL;
static void *g_reg_arg1 = NULL, *g_reg_arg2 = NULL;
static int g_dbiter_n = 0;
static uint64_t g_dbiter_seq = 0;
static uint32_t g_dbiter_seed = 0;
static ldb_iter_t *g_dbiter_internal = NULL, *g_dbiter_it = NULL;
static const ldb_comparator_t *g_dbiter_ucmp = NULL;
static ldb_istate_t istate_obj;
static int g_istate_allocs = 0, g_istate_frees = 0;
static void *g_vec_items[4];
static ldb_vector_t *g_vec = NULL;
static int g_vec_cleared = 0;
static ldb_seqnum_t g_latest_at_unlock = 0;

/* ---- hooks ------------------------------------------------------------ */
static void
vp_on_lock(void) {
  /* anything written to the shared fields since the environment last moved
     was written by the calling thread without the mutex */
  VP_ASSERT(db.mem == gh_mem && db.imm == gh_imm && vs.current == gh_cur &&
            vs.last_sequence == gh_seq && db.seed == gh_seed,
            "C10.a shared fields are not written outside the mutex");
  env_act();          /* other threads run while we block on the mutex */
  g_sections++;
  lk_mem = db.mem;
  lk_imm = db.imm;
  lk_cur = vs.current;
  lk_seq = vs.last_sequence;
}

static void check_at_first_release(void);

static void
vp_on_unlock(void) {
  VP_ASSERT(db.mem == lk_mem && db.imm == lk_imm && vs.current == lk_cur && vs.last_sequence == lk_seq,
            "C08.b a reader never writes mem / imm / current / last_sequence");
  VP_ASSERT((db.imm != NULL) == (db.has_imm != 0), "has_imm mirrors imm");
  if (vp_unlocks == 0) {
    cap_mem[0] = mem_index(db.mem); cap_imm[0] = mem_index(db.imm); cap_cur[0] = ver_index(vs.current);
    cap_seq[0] = vs.last_sequence; cap_seed[0] = db.seed;
    check_at_first_release();
  } else if (vp_unlocks == 1) {
    cap_mem[1] = mem_index(db.mem); cap_imm[1] = mem_index(db.imm); cap_cur[1] = ver_index(vs.current);
    cap_seq[1] = vs.last_sequence; cap_seed[1] = db.seed;
  }
  env_act();          /* the mutex is free: everything shared may change */
}

static void
vp_on_wait(ldb_cond_t *cv) {
  (void)cv;
  VP_ASSERT(0, "a reader never sleeps on a condition variable");
}

static void
vp_on_signal(ldb_cond_t *cv, int broadcast) {
  (void)cv; (void)broadcast;
}

/* ---- stubs below db_impl.c ------------------------------------------- */
void ldb_log(ldb_logger_t *logger, const char *fmt, ...) { (void)logger; (void)fmt; }

int
ldb_versions_needs_compaction(const ldb_versions_t *v) {
  VP_ASSERT(v == &vs && vp_mutex_held, "compaction need evaluated under the mutex");
  g_needs = vp_bool();
  return g_needs;
}

void
ldb_pool_schedule(ldb_pool_t *pool, void (*fn)(void *), void *arg) {
  (void)pool; (void)fn;
  VP_ASSERT(arg == &db && vp_mutex_held, "background work scheduled under the mutex, with the db");
  g_scheduled++;
}

/* allocator: typed static objects (no heap needed on these paths) */
void *
ldb_malloc(size_t size) {
  if (size == sizeof(ldb_snapshot_t)) {
    VP_ASSERT(g_snap_allocs == 0 && s_state[VP_S_CODE] == 0, "vp-model: one snapshot node allocated per call");
    s_state[VP_S_CODE] = 1;
    g_snap_allocs++;
    g_snap_alloc_held = vp_mutex_held;
    return &snaps[VP_S_CODE];
  }
  if (size == sizeof(ldb_istate_t)) {
    VP_ASSERT(g_istate_allocs == 0, "vp-model: one iterator state per call");
    g_istate_allocs++;
    return &istate_obj;
  }
  VP_ASSERT(0, "vp-model: unexpected allocation size");
  return NULL;
}

void
ldb_free(void *ptr) {
  int i, slot = snap_index(ptr);
  if (ptr == NULL)
    return;
  if (ptr == (void *)&istate_obj) {
    g_istate_frees++;
    return;
  }
  VP_ASSERT(slot >= 0, "only snapshot nodes and iterator states are freed on the read side");
  for (i = 0; i < VP_NS; i++) {
    if (i == slot) {
      VP_ASSERT(s_state[i] == 1, "a snapshot node is freed once");
      s_state[i] = 2;
    }
  }
  g_snap_frees++;
  g_snap_free_slot = slot;
  g_snap_free_held = vp_mutex_held;
}

/* value buffer (util/buffer.c): recorders */
void
ldb_buffer_init(ldb_buffer_t *z) {
  z->data = NULL; z->size = 0; z->alloc = 0;
  g_buf_init++;
}

uint8_t *
ldb_buffer_grow(ldb_buffer_t *z, size_t zn) {
  (void)zn;
  g_buf_grow++;
  return z->data;
}

void
ldb_buffer_clear(ldb_buffer_t *z) {
  z->data = NULL; z->size = 0; z->alloc = 0;
  g_buf_clear++;
}

/* child list (util/vector.c): abstract, one list per call */
void
ldb_vector_init(ldb_vector_t *z) {
  z->items = NULL; z->length = 0; z->alloc = 0;
}

void
ldb_vector_push(ldb_vector_t *z, const void *x) {
  size_t i;
  VP_ASSERT(g_vec == NULL || g_vec == z, "vp-model: one child list per call");
  VP_ASSERT(z->length < 4, "vp-model: child list full");
  g_vec = z;
  for (i = 0; i < 4; i++)
    if (i == z->length) g_vec_items[i] = (void *)x;
  z->items = g_vec_items;
  z->length++;
  z->alloc = 4;
}

void
ldb_vector_clear(ldb_vector_t *z) {
  z->items = NULL; z->length = 0; z->alloc = 0;
  g_vec_cleared++;
}

/* memtable.c */
void
ldb_memtable_ref(ldb_memtable_t *m) {
  int i, k = mem_index(m);
  VP_ASSERT(k >= 0, "reference taken on one of the database's memtables");
  VP_ASSERT(vp_mutex_held, "C10.a memtable reference counts change only under the mutex");
  for (i = 0; i < VP_NM; i++) {
    if (i == k) {
      VP_ASSERT(!m_destroyed[i], "C08.b reference taken on a live memtable");
      mems[i].refs++;
      m_ref[i]++;
      m_ref_sect[i] = g_sections;
    }
  }
}

void
ldb_memtable_unref(ldb_memtable_t *m) {
  int i, k = mem_index(m);
  VP_ASSERT(k >= 0, "reference dropped on one of the database's memtables");
  VP_ASSERT(vp_mutex_held, "C10.a memtable reference counts change only under the mutex");
  for (i = 0; i < VP_NM; i++) {
    if (i == k) {
      VP_ASSERT(!m_destroyed[i] && mems[i].refs > 0, "C08.b memtable unref'd while still alive (no double release)");
      VP_ASSERT(m_ref[i] > m_unref[i], "C08.b only references this call took are dropped");
      VP_ASSERT(m_ref_sect[i] < g_sections, "C08.b memtable reference dropped in a later critical section than it was taken");
      mems[i].refs--;
      m_unref[i]++;
      if (mems[i].refs == 0)
        m_destroyed[i] = 1;
    }
  }
}

/* reference decoding of a lookup key (LevelDB format: varint32 klen+8, user
   key, fixed64 little-endian (sequence << 8 | kValueTypeForSeek = 1)) */
static uint64_t
check_lkey(const ldb_lkey_t *k) {
  uint64_t tag = 0;
  int i;
  VP_ASSERT(k->start[0] == VP_KLEN + 8 && k->kstart == k->start + 1, "lookup key starts with varint32(user key length + 8)");
  VP_ASSERT(k->end == k->kstart + VP_KLEN + 8, "lookup key = length, user key, 8-byte tag");
  for (i = 0; i < VP_KLEN; i++)
    VP_ASSERT(k->kstart[i] == kbuf[i], "lookup key carries the caller's user key");
  for (i = 7; i >= 0; i--)
    tag = (tag << 8) | k->kstart[VP_KLEN + i];
  VP_ASSERT((tag & 0xff) == 1, "lookup key tag type is the seek type");
  return tag >> 8;
}

static void
note_lookup(uint64_t seq) {
  int i;
  for (i = 0; i < 3; i++)
    if (i == g_lookups) g_lookup_seq[i] = seq;
  g_lookups++;
}

int
ldb_memtable_get(ldb_memtable_t *m, const ldb_lkey_t *key, ldb_buffer_t *value, int *status) {
  int i, k = mem_index(m), r;
  VP_ASSERT(k >= 0, "memtable lookup in one of the database's memtables");
  VP_ASSERT(!vp_mutex_held, "C08.b memtable lookup runs with the mutex released");
  VP_ASSERT(vp_unlocks == 1, "C08.b exactly one critical section precedes the lookups");
  VP_ASSERT(g_mget_n < 2, "at most two memtable lookups per read");
  VP_ASSERT(value == g_value, "the caller's value buffer is handed down");
  for (i = 0; i < VP_NM; i++)
    if (i == k)
      VP_ASSERT(!m_destroyed[i] && m_ref[i] > m_unref[i], "C08.b memtable is pinned by this reader while it is searched");
  note_lookup(check_lkey(key));
  r = vp_int();
  VP_ASSUME(r >= 0 && r <= 2);     /* 0 no entry, 1 value, 2 tombstone */
  if (g_mget_n == 0) { g_mget_obj[0] = k; g_mget_res[0] = r; }
  else { g_mget_obj[1] = k; g_mget_res[1] = r; }
  g_mget_n++;
  if (r == 1) {
    if (value != NULL)
      value->size = 100 + (size_t)k;   /* marker: which object produced the value */
    return 1;
  }
  if (r == 2) {
    *status = LDB_NOTFOUND;
    return 1;
  }
  return 0;
}

ldb_iter_t *
ldb_memiter_create(const ldb_memtable_t *m) {
  int i, k = mem_index(m);
  ldb_iter_t *it;
  VP_ASSERT(k >= 0, "memtable iterator over one of the database's memtables");
  VP_ASSERT(vp_mutex_held, "C07.f memtable iterators are created under the mutex (the memtable is not yet pinned)");
  VP_ASSERT(g_memiter_n < 2 && it_used < VP_NI, "at most two memtable iterators");
  for (i = 0; i < VP_NM; i++)
    if (i == k)
      VP_ASSERT(!m_destroyed[i], "C07.f memtable iterator over a live memtable");
  it = &iters[it_used++];
  if (g_memiter_n == 0) { g_memiter_obj[0] = k; g_memiter_it[0] = it; }
  else { g_memiter_obj[1] = k; g_memiter_it[1] = it; }
  g_memiter_n++;
  return it;
}

/* version_set.c */
void
ldb_version_ref(ldb_version_t *v) {
  int i, k = ver_index(v);
  VP_ASSERT(k >= 0, "reference taken on one of the database's versions");
  VP_ASSERT(vp_mutex_held, "C10.a version reference counts change only under the mutex");
  for (i = 0; i < VP_NV; i++) {
    if (i == k) {
      VP_ASSERT(!v_destroyed[i], "C08.b reference taken on a live version");
      vers[i].refs++;
      v_ref[i]++;
      v_ref_sect[i] = g_sections;
    }
  }
}

void
ldb_version_unref(ldb_version_t *v) {
  int i, k = ver_index(v);
  VP_ASSERT(k >= 0, "reference dropped on one of the database's versions");
  VP_ASSERT(vp_mutex_held, "C10.a version reference counts change only under the mutex");
  for (i = 0; i < VP_NV; i++) {
    if (i == k) {
      VP_ASSERT(!v_destroyed[i] && vers[i].refs > 0, "C08.b version unref'd while still alive (no double release)");
      VP_ASSERT(v_ref[i] > v_unref[i], "C08.b only references this call took are dropped");
      VP_ASSERT(v_ref_sect[i] < g_sections, "C08.b version reference dropped in a later critical section than it was taken");
      vers[i].refs--;
      v_unref[i]++;
      if (vers[i].refs == 0)
        v_destroyed[i] = 1;
    }
  }
}

int
ldb_version_get(ldb_version_t *v, const ldb_readopt_t *options, const ldb_lkey_t *key,
                ldb_buffer_t *value, ldb_getstats_t *stats) {
  int i, k = ver_index(v), r;
  VP_ASSERT(k >= 0, "table lookup in one of the database's versions");
  VP_ASSERT(!vp_mutex_held, "C08.b table lookup runs with the mutex released");
  VP_ASSERT(vp_unlocks == 1, "C08.b exactly one critical section precedes the lookups");
  VP_ASSERT(g_vget_n == 0, "one table lookup per read");
  VP_ASSERT(value == g_value, "the caller's value buffer is handed down");
  VP_ASSERT(g_opts != NULL ? options == g_opts : (options != NULL && options->snapshot == NULL),
            "the caller's read options (or the defaults) are handed down");
  for (i = 0; i < VP_NV; i++)
    if (i == k)
      VP_ASSERT(!v_destroyed[i] && v_ref[i] > v_unref[i], "C08.b version is pinned by this reader while it is searched");
  note_lookup(check_lkey(key));
  g_vget_after_mgets = g_mget_n;
  g_vget_n++;
  g_vget_obj = k;
  r = vp_int();
  VP_ASSUME(r >= 0 && r <= 3);
  g_vget_rc = r == 0 ? LDB_OK : (r == 1 ? LDB_NOTFOUND : (r == 2 ? LDB_CORRUPTION : LDB_IOERR));
  g_stats_ptr = stats;
  g_stats_file = vp_bool() ? &fmeta : NULL;
  g_stats_level = vp_int();
  VP_ASSUME(g_stats_level >= 0 && g_stats_level < LDB_NUM_LEVELS);
  stats->seek_file = g_stats_file;
  stats->seek_file_level = g_stats_level;
  if (g_vget_rc == LDB_OK && value != NULL)
    value->size = 200 + (size_t)k;
  return g_vget_rc;
}

int
ldb_version_update_stats(ldb_version_t *v, const ldb_getstats_t *stats) {
  VP_ASSERT(vp_mutex_held, "C08.b ldb_version_update_stats only with the mutex held");
  VP_ASSERT(g_vget_n == 1 && ver_index(v) == g_vget_obj, "seek statistics charged to the version that was searched");
  VP_ASSERT(stats == g_stats_ptr && stats->seek_file == g_stats_file && stats->seek_file_level == g_stats_level,
            "seek statistics are the ones this lookup produced");
  {
    int i;
    for (i = 0; i < VP_NV; i++)
      if (v == &vers[i])
        VP_ASSERT(!v_destroyed[i] && v_ref[i] > v_unref[i], "statistics charged to a version this reader still pins");
  }
  g_upd_n++;
  g_upd_rc = vp_bool();
  return g_upd_rc;
}

int
ldb_version_record_read_sample(ldb_version_t *v, const ldb_slice_t *key) {
  VP_ASSERT(vp_mutex_held, "C08.b read sample recorded with the mutex held");
  VP_ASSERT(v == vs.current, "read sample charged to the current version, read under the mutex");
  VP_ASSERT(key == &ukey, "read sample for the caller's key");
  g_sample_n++;
  g_sample_rc = vp_bool();
  return g_sample_rc;
}

void
ldb_version_add_iterators(ldb_version_t *v, const ldb_readopt_t *options, ldb_vector_t *list) {
  int i, k = ver_index(v), n;
  VP_ASSERT(k >= 0, "table iterators over one of the database's versions");
  VP_ASSERT(vp_mutex_held, "C07.f table iterators are collected under the mutex (the version is not yet pinned)");
  VP_ASSERT(g_additer_n == 0, "table iterators collected once");
  VP_ASSERT(g_opts != NULL ? options == g_opts : (options != NULL && options->snapshot == NULL),
            "the caller's read options (or the defaults) are handed down");
  for (i = 0; i < VP_NV; i++)
    if (i == k)
      VP_ASSERT(!v_destroyed[i], "C07.f table iterators over a live version");
  g_additer_n++;
  g_additer_obj = k;
  n = vp_int();
  VP_ASSUME(n >= 0 && n <= 2);
  g_additer_cnt = n;
  VP_ASSERT(it_used + 2 <= VP_NI, "vp-model: iterator objects exhausted");
  g_additer_it[0] = &iters[it_used++];
  g_additer_it[1] = &iters[it_used++];
  if (n >= 1) ldb_vector_push(list, g_additer_it[0]);
  if (n >= 2) ldb_vector_push(list, g_additer_it[1]);
}

/* merger.c, iterator.c, db_iter.c */
ldb_iter_t *
ldb_mergeiter_create(const ldb_comparator_t *cmp, ldb_iter_t **children, int n) {
  int i;
  VP_ASSERT(cmp == &db.internal_comparator, "children merged in internal-key order");
  VP_ASSERT(g_merge_n == 0 && it_used < VP_NI, "one merging iterator per call");
  VP_ASSERT(n >= 0 && n <= 4 && (n == 0 || children == (ldb_iter_t **)g_vec_items), "merger built over the collected child list");
  g_merge_n++;
  g_merge_children = n;
  g_merge_held = vp_mutex_held;
  for (i = 0; i < 4; i++)
    g_merge_child[i] = i < n ? children[i] : NULL;
  g_merge_it = &iters[it_used++];
  g_merge_it->cleanup_head.func = NULL;
  return g_merge_it;
}

void
ldb_iter_register_cleanup(ldb_iter_t *iter, ldb_cleanup_f func, void *arg1, void *arg2) {
  g_reg_n++;
  g_reg_iter = iter;
  g_reg_func = func;
  g_reg_arg1 = arg1;
  g_reg_arg2 = arg2;
  g_reg_held = vp_mutex_held;
}

ldb_iter_t *
ldb_dbiter_create(ldb_t *d, const ldb_comparator_t *user_comparator, ldb_iter_t *internal_iter,
                  uint64_t sequence, uint32_t seed) {
  VP_ASSERT(d == &db, "db iterator bound to this database");
  VP_ASSERT(!vp_mutex_held, "db iterator built with the mutex released");
  VP_ASSERT(g_dbiter_n == 0 && it_used < VP_NI, "one db iterator per call");
  g_dbiter_n++;
  g_dbiter_ucmp = user_comparator;
  g_dbiter_internal = internal_iter;
  g_dbiter_seq = sequence;
  g_dbiter_seed = seed;
  g_dbiter_it = &iters[it_used++];
  return g_dbiter_it;
}

/* ---- checks at the first release of the mutex (still held) ------------ */
static void
refs_exactly_captured(int with_unref) {
  int i;
  for (i = 0; i < VP_NM; i++) {
    int want = (i == cap_mem[0] || i == cap_imm[0]) ? 1 : 0;
    VP_ASSERT(m_ref[i] == want, "C08.b exactly mem and imm (if any) of the critical section are ref'd, once, before the mutex is released");
    VP_ASSERT(m_unref[i] == (with_unref ? want : 0), "C08.b memtable references balance (dropped once, only after the lookups)");
  }
  for (i = 0; i < VP_NV; i++) {
    int want = (i == cap_cur[0]) ? 1 : 0;
    VP_ASSERT(v_ref[i] == want, "C08.b exactly the current version of the critical section is ref'd, once, before the mutex is released");
    VP_ASSERT(v_unref[i] == (with_unref ? want : 0), "C08.b version references balance (dropped once, only after the lookups)");
  }
}

static void
check_at_first_release(void) {
#if VP_FN == VP_FN_GET
  refs_exactly_captured(0);
  VP_ASSERT(g_lookups == 0, "no lookup before the state is captured");
#elif VP_FN == VP_FN_SNAPSHOT
  VP_ASSERT(g_snap_allocs == 1 && g_snap_alloc_held, "C10.a the snapshot node is allocated and linked under the mutex");
  s_seq[VP_S_CODE] = vs.last_sequence;    /* what it must carry: last_sequence of THIS critical section */
  VP_ASSERT(snaps[VP_S_CODE].sequence == vs.last_sequence, "C06.c new snapshot carries last_sequence as read under the mutex");
  check_snaplist();                       /* linked at the tail, everything else untouched */
#elif VP_FN == VP_FN_RELEASE
  VP_ASSERT(g_snap_frees == 1 && g_snap_free_slot == VP_S_MINE && g_snap_free_held, "C06.c exactly the released snapshot is freed, under the mutex");
  check_snaplist();                       /* unlinked, the other snapshots untouched */
#elif VP_FN == VP_FN_ITER
  {
    int nchild = 0;
    refs_exactly_captured(0);
    VP_ASSERT(g_memiter_n == (db.imm != NULL ? 2 : 1), "C07.f one memtable iterator per memtable of the critical section");
    VP_ASSERT(g_memiter_obj[0] == cap_mem[0], "C07.f first child iterates the current memtable");
    if (db.imm != NULL)
      VP_ASSERT(g_memiter_obj[1] == cap_imm[0], "C07.f second child iterates the immutable memtable");
    VP_ASSERT(g_additer_n == 1 && g_additer_obj == cap_cur[0], "C07.f table iterators come from the current version of the critical section");
    VP_ASSERT(g_merge_n == 1, "C07.f one merging iterator");
    VP_ASSERT(g_merge_child[nchild] == g_memiter_it[0], "C07.f merger child 0 = memtable iterator");
    nchild++;
    if (db.imm != NULL) {
      VP_ASSERT(g_merge_child[1] == g_memiter_it[1], "C07.f merger child 1 = immutable memtable iterator");
      nchild++;
    }
    if (g_additer_cnt >= 1) {
      VP_ASSERT((nchild == 1 ? g_merge_child[1] : g_merge_child[2]) == g_additer_it[0], "C07.f table iterators follow the memtable iterators");
      nchild++;
    }
    if (g_additer_cnt >= 2) {
      VP_ASSERT((nchild == 2 ? g_merge_child[2] : g_merge_child[3]) == g_additer_it[1], "C07.f table iterators follow the memtable iterators");
      nchild++;
    }
    VP_ASSERT(g_merge_children == nchild, "C07.f the merger sees every child and nothing else");
    VP_ASSERT(g_reg_n == 1 && g_reg_iter == g_merge_it && g_reg_func == cleanup_iter_state && g_reg_held,
              "C07.f cleanup_iter_state registered on the merging iterator, under the mutex");
    VP_ASSERT(g_reg_arg1 == (void *)&istate_obj && g_istate_allocs == 1, "C07.f the cleanup's argument is the iterator state");
    VP_ASSERT(istate_obj.mu == &db.mutex && istate_obj.mem == db.mem && istate_obj.imm == db.imm && istate_obj.version == vs.current,
              "C07.f iterator state records exactly the objects that were ref'd");
  }
#elif VP_FN == VP_FN_SAMPLE
  VP_ASSERT(g_sample_n == 1, "read sample recorded inside the critical section");
#endif
}

/* ---- harness ---------------------------------------------------------- */
void
harness(void) {
  ldb_readopt_t ro;
  ldb_slice_t val;
  int i, k, extra;
  uint64_t s = 0;

  /* ---- arbitrary well-formed pre-state ---- */
  vp_db_mutex = &db.mutex;
  db.versions = &vs;
  db.internal_comparator.user_comparator = &ucmp_obj;
  vs.last_sequence = vp_u64();
  VP_ASSUME(vs.last_sequence < (UINT64_C(1) << 55));
  db.seed = vp_u32();
  db.mem = &mems[0];
  extra = vp_int(); VP_ASSUME(extra >= 0 && extra <= 2);
  mems[0].refs = 1 + extra;                 /* the database's reference + other readers' */
  if (vp_bool()) {
    db.imm = &mems[1];
    extra = vp_int(); VP_ASSUME(extra >= 0 && extra <= 2);
    mems[1].refs = 1 + extra;
    db.has_imm = 1;
  } else {
    db.imm = NULL;
    db.has_imm = 0;
  }
  vs.current = &vers[0];
  extra = vp_int(); VP_ASSUME(extra >= 0 && extra <= 2);
  vers[0].refs = 1 + extra;
  db.background_compaction_scheduled = vp_bool();
  db.bg_error = vp_bool() ? LDB_OK : LDB_IOERR;
  db.shutting_down = vp_bool();
  db.manual_compaction = NULL;

  /* snapshot list: [other] [the caller's] [other], sorted, none ahead of last_sequence */
  db.snapshots.head.next = &db.snapshots.head;
  db.snapshots.head.prev = &db.snapshots.head;
  db.snapshots.head.sequence = 0;
#if VP_ES >= 1
  if (vp_bool()) {
    s = vp_u64(); VP_ASSUME(s <= vs.last_sequence);
    env_link_tail(VP_S_OLD, s);
  }
#endif
#if VP_SNAP || VP_FN == VP_FN_RELEASE
  {
    uint64_t t = vp_u64();
    VP_ASSUME(t >= s && t <= vs.last_sequence);
    s = t;
    env_link_tail(VP_S_MINE, s);
    mine_seq0 = s;
  }
#endif
#if VP_ES >= 2
  if (vp_bool()) {
    uint64_t t = vp_u64();
    VP_ASSUME(t >= s && t <= vs.last_sequence);
    s = t;
    env_link_tail(VP_S_NEW, s);
  }
#endif
  check_snaplist();   /* harness sanity: the pre-state is well-formed */

  for (i = 0; i < VP_KLEN; i++)
    kbuf[i] = vp_u8();
  ukey.data = kbuf;
  ukey.size = VP_KLEN;
  ukey.alloc = 0;

  ro.verify_checksums = vp_bool();
  ro.fill_cache = vp_bool();
  ro.snapshot = VP_SNAP ? &snaps[VP_S_MINE] : NULL;
  g_opts = VP_OPTNULL ? NULL : &ro;

  gh_mem = db.mem; gh_imm = db.imm; gh_cur = vs.current; gh_seq = vs.last_sequence; gh_seed = db.seed;

#if VP_FN == VP_FN_GET
  {
    int rc, exp_rc, src = -1;
    uint64_t exp_seq;
    val.data = NULL; val.size = 999; val.alloc = 0;
    g_value = VP_HAS ? NULL : &val;

    /* ---- the real code ---- */
#if VP_HAS
    rc = ldb_has(&db, &ukey, g_opts);
#else
    rc = ldb_get(&db, &ukey, &val, g_opts);
#endif

    /* ---- post-conditions ---- */
    VP_ASSERT(!vp_mutex_held, "mutex released on return");
    VP_ASSERT(g_sections == 2 && vp_unlocks == 2, "C08.b ldb_get: one critical section to capture the state, one to release it");
    exp_seq = VP_SNAP ? mine_seq0 : cap_seq[0];

    /* reference search order over the CAPTURED objects */
    VP_ASSERT(g_mget_n >= 1 && g_mget_obj[0] == cap_mem[0], "C08.b first lookup: the memtable that was current inside the critical section");
    VP_ASSERT(g_lookup_seq[0] == exp_seq, "C06.c lookup key built with the snapshot's sequence, else with last_sequence read inside the critical section");
    if (g_mget_res[0] != 0) {
      VP_ASSERT(g_mget_n == 1 && g_vget_n == 0, "C08.b an answer (value or tombstone) from the memtable ends the search");
      exp_rc = g_mget_res[0] == 1 ? LDB_OK : LDB_NOTFOUND;
      src = 100 + cap_mem[0];
    } else if (cap_imm[0] >= 0) {
      VP_ASSERT(g_mget_n == 2 && g_mget_obj[1] == cap_imm[0], "C08.b second lookup: the immutable memtable of the critical section");
      VP_ASSERT(g_lookup_seq[1] == exp_seq, "C06.c same lookup key for the immutable memtable");
      if (g_mget_res[1] != 0) {
        VP_ASSERT(g_vget_n == 0, "C08.b an answer (value or tombstone) from the immutable memtable ends the search");
        exp_rc = g_mget_res[1] == 1 ? LDB_OK : LDB_NOTFOUND;
        src = 100 + cap_imm[0];
      } else {
        VP_ASSERT(g_vget_n == 1 && g_vget_after_mgets == 2, "C08.b tables are searched last, after both memtables");
        VP_ASSERT(g_lookup_seq[2] == exp_seq, "C06.c same lookup key for the tables");
        exp_rc = g_vget_rc;
        src = 200 + cap_cur[0];
      }
    } else {
      VP_ASSERT(g_mget_n == 1, "no immutable memtable in the critical section: none is searched");
      VP_ASSERT(g_vget_n == 1 && g_vget_after_mgets == 1, "C08.b tables are searched after the memtable");
      VP_ASSERT(g_lookup_seq[1] == exp_seq, "C06.c same lookup key for the tables");
      exp_rc = g_vget_rc;
      src = 200 + cap_cur[0];
    }
    if (g_vget_n == 1)
      VP_ASSERT(g_vget_obj == cap_cur[0], "C08.b tables searched in the version that was current inside the critical section");
    VP_ASSERT(rc == exp_rc, "ldb_get returns the answer of the newest place that has one");
#if !VP_HAS
    if (rc == LDB_OK)
      VP_ASSERT(val.size == (size_t)src && g_buf_clear == 0, "the value handed back is the one the answering place produced");
#endif
    VP_ASSERT(g_upd_n == 0 || g_vget_n == 1, "statistics only after a table lookup");
    refs_exactly_captured(1);

    /* ---- witnesses: every path, and the environment really moved ---- */
    if (g_mget_n == 1 && g_mget_res[0] == 1) VP_WITNESS("get-memtable-value");
    if (g_mget_n == 1 && g_mget_res[0] == 2) VP_WITNESS("get-memtable-tombstone");
    if (g_mget_n == 2 && g_mget_res[1] == 1) VP_WITNESS("get-imm-value");
    if (g_mget_n == 2 && g_mget_res[1] == 2) VP_WITNESS("get-imm-tombstone");
    if (g_vget_n == 1 && cap_imm[0] < 0 && rc == LDB_OK) VP_WITNESS("get-no-imm-table-value");
    if (g_vget_n == 1 && cap_imm[0] >= 0 && rc == LDB_NOTFOUND) VP_WITNESS("get-table-notfound");
    if (g_vget_n == 1 && rc == LDB_IOERR) VP_WITNESS("get-table-error");
    if (g_upd_n == 1 && g_scheduled == 1) VP_WITNESS("get-stats-schedule-compaction");
    if (mem_index(db.mem) != cap_mem[0] && ver_index(vs.current) != cap_cur[0] && vs.last_sequence != cap_seq[0])
      VP_WITNESS("get-everything-replaced-meanwhile");
    if (cap_imm[0] == 1 && cap_imm[1] != 1 && g_mget_n == 2 && m_destroyed[1])
      VP_WITNESS("get-imm-flushed-during-lookup-freed-by-our-unref");
    if (cap_mem[0] != 0)
      VP_WITNESS("get-state-moved-before-lock");
  }
#elif VP_FN == VP_FN_SNAPSHOT
  {
    const ldb_snapshot_t *sn;

    sn = ldb_snapshot(&db);

    VP_ASSERT(!vp_mutex_held, "mutex released on return");
    VP_ASSERT(g_sections == 1 && vp_unlocks == 1, "ldb_snapshot is one critical section");
    VP_ASSERT(sn == &snaps[VP_S_CODE] && g_snap_allocs == 1, "C06.c ldb_snapshot returns the node it linked");
    VP_ASSERT(sn->sequence == cap_seq[0], "C06.c snapshot sequence == last_sequence inside the critical section");
    VP_ASSERT(g_snap_frees == 0, "taking a snapshot frees nothing");
    check_snaplist();     /* still linked after other threads took / released theirs */
    for (k = 0; k < VP_NM; k++)
      VP_ASSERT(m_ref[k] == 0 && m_unref[k] == 0, "taking a snapshot pins nothing");
    if (snap_live() >= 3) VP_WITNESS("snapshot-next-to-others");
    if (vs.last_sequence != cap_seq[0]) VP_WITNESS("snapshot-older-than-present");
    if (env_snap_released > 0 && env_snap_taken == 2) VP_WITNESS("snapshot-while-others-take-and-release");
  }
#elif VP_FN == VP_FN_RELEASE
  {
    ldb_release(&db, &snaps[VP_S_MINE]);

    VP_ASSERT(!vp_mutex_held, "mutex released on return");
    VP_ASSERT(g_sections == 1 && vp_unlocks == 1, "ldb_release is one critical section");
    VP_ASSERT(g_snap_frees == 1 && g_snap_allocs == 0, "exactly one node released");
    check_snaplist();
    if (snap_live() >= 1) VP_WITNESS("release-others-remain");
    if (snap_live() == 0) VP_WITNESS("release-last");
    if (env_snap_taken) VP_WITNESS("release-while-others-take");
  }
#elif VP_FN == VP_FN_ITER
  {
    ldb_iter_t *it;
    uint64_t exp_seq;
    uint32_t seed_before;

    it = ldb_iterator(&db, g_opts);

    VP_ASSERT(!vp_mutex_held, "mutex released on return");
    VP_ASSERT(g_sections == 1 && vp_unlocks == 1, "C08.b iterator creation captures its state in one critical section");
    exp_seq = VP_SNAP ? mine_seq0 : cap_seq[0];
    VP_ASSERT(g_dbiter_n == 1 && it == g_dbiter_it, "ldb_iterator returns the db iterator");
    VP_ASSERT(g_dbiter_internal == g_merge_it, "db iterator wraps the merging iterator that owns the cleanup");
    VP_ASSERT(g_dbiter_seq == exp_seq, "C06.c db iterator built with the snapshot's sequence, else with last_sequence read inside the critical section");
    VP_ASSERT(g_dbiter_seed == cap_seed[0], "sampling seed read under the mutex");
    VP_ASSERT(g_dbiter_ucmp == &ucmp_obj, "db iterator orders by the user comparator");
    VP_ASSERT(g_vec_cleared == 1, "child list released");

    /* the iterator lives on while the world changes (the environment acted
       when the mutex was released) */
    for (k = 0; k < VP_NM; k++)
      if (k == cap_mem[0] || k == cap_imm[0])
        VP_ASSERT(!m_destroyed[k], "C07.f memtables of a live iterator stay alive (pinned)");
    for (k = 0; k < VP_NV; k++)
      if (k == cap_cur[0])
        VP_ASSERT(!v_destroyed[k], "C07.f the version of a live iterator stays alive (pinned)");
    seed_before = db.seed;
    (void)seed_before;

    /* ldb_iter_destroy runs the registered cleanup */
    VP_ASSERT(g_reg_func == cleanup_iter_state, "C07.f the registered cleanup is cleanup_iter_state");
    cleanup_iter_state(g_reg_arg1, g_reg_arg2);

    VP_ASSERT(!vp_mutex_held, "mutex released after the cleanup");
    VP_ASSERT(g_sections == 2 && vp_unlocks == 2, "C07.f the cleanup is one critical section");
    refs_exactly_captured(1);
    VP_ASSERT(g_istate_frees == 1, "iterator state freed once");

    if (cap_imm[0] >= 0 && g_additer_cnt == 2) VP_WITNESS("iter-mem-imm-two-tables");
    if (cap_imm[0] < 0 && g_additer_cnt == 0) VP_WITNESS("iter-mem-only");
    if (cap_imm[0] == 1 && m_destroyed[1]) VP_WITNESS("iter-imm-freed-by-cleanup");
    if (v_destroyed[0] && cap_cur[0] == 0) VP_WITNESS("iter-version-freed-by-cleanup");
    if (vs.last_sequence != cap_seq[0]) VP_WITNESS("iter-older-than-present");
  }
#elif VP_FN == VP_FN_SAMPLE
  {
    int sched0 = db.background_compaction_scheduled;
    ldb_record_read_sample(&db, &ukey);
    VP_ASSERT(!vp_mutex_held, "mutex released on return");
    VP_ASSERT(g_sections == 1 && vp_unlocks == 1 && g_sample_n == 1, "read sample is one critical section");
    for (k = 0; k < VP_NV; k++)
      VP_ASSERT(v_ref[k] == 0 && v_unref[k] == 0, "read sample pins nothing (never leaves the mutex)");
    if (g_scheduled)
      VP_ASSERT(g_sample_rc && !sched0 && db.background_compaction_scheduled, "compaction scheduled only on request, once");
    if (g_scheduled) VP_WITNESS("sample-schedules-compaction");
    if (!g_sample_rc) VP_WITNESS("sample-quiet");
  }
#endif
  (void)i; (void)val; (void)k;
}
