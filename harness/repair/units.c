/* repair/units.c -- the REAL static functions of src/repair.c (#included)
 * one at a time, from an arbitrary repairer state, over monitoring stubs
 * (property C19 "repair recovers all surviving data").
 *
 * VP_MODE 0  write_descriptor()   VP_T scanned tables, VP_M old MANIFESTs
 * VP_MODE 1  scan_table()         one table number, VP_E iterator entries
 * VP_MODE 2  find_files()         directory of <= VP_N symbolic names
 * VP_MODE 3  convert_log_to_table()  VP_R log records
 *
 * Path names: kit/vp_d9_names encoding ((directory, type, number, spelling)
 * buffers); the filename.c constructors, ldb_dirname and ldb_basename are
 * stubbed over it in this file.  version_edit.c is replaced by recorders (the
 * MANIFEST record codec is decided by C17): what is checked is WHICH fields
 * and files the repairer puts into the edit.
 *
 * Asserted, mode 0 (write_descriptor):
 *   - the descriptor is written to the temp file <db>/000001.dbtmp; failure to
 *     create it returns the error with nothing else done;
 *   - the edit carries the comparator name, log number 0, next-file ==
 *     rep->next_file_number, last-sequence == max over the scanned tables,
 *     and every scanned table exactly once, at level 0, with its recorded
 *     number / size / smallest / largest; exported once, after all of that;
 *   - a failed record write or close returns the error, removes the temp file
 *     and archives / installs nothing;
 *   - every OLD MANIFEST found by find_files is archived (<db>/MANIFEST-N ->
 *     <db>/lost/MANIFEST-N) exactly once, STRICTLY BEFORE the temp file is
 *     renamed to MANIFEST-000001 (an old MANIFEST-000001 would otherwise
 *     carry the new descriptor into lost/), CURRENT is pointed at 1 only
 *     after that rename succeeded; failed install removes the temp file;
 *   - the file object is destroyed exactly once.
 * Mode 1 (scan_table):
 *   - the table is looked up as NNNNNN.ldb and, only if that fails, as
 *     NNNNNN.sst; the size handed to the table cache == the size
 *     ldb_file_size reported for the name that exists, and that size is
 *     recorded in the table's metadata; neither name exists => both names
 *     archived, no table recorded;
 *   - smallest / largest / max_sequence == first / last / max over the
 *     parsable keys the iterator yields (independent reference), unparsable
 *     keys skipped; verify_checksums == paranoid_checks; iterator destroyed
 *     once; iterator status OK => the table is recorded once.
 * Mode 2 (find_files):
 *   - MANIFEST / log / table numbers are collected in listing order, foreign
 *     names ignored; next_file_number == 1 + max number over all own
 *     non-MANIFEST names (>= 1); empty directory => IOERR; listing released.
 * Mode 3 (convert_log_to_table):
 *   - every record >= 12 bytes is handed to the memtable insert exactly once,
 *     in order; shorter records are reported and skipped; a batch that fails
 *     to insert does not stop the log; the table gets a fresh number
 *     (next_file_number++), is recorded iff built OK with size > 0.
 */
#include "vp.h"
#include "vp_d9_names.h"
#include "vp_vector_inc.h"   /* real util/vector.c, typed pointer arrays */
#include "repair.c"

#ifndef VP_MODE
#define VP_MODE 0
#endif
#ifndef VP_T
#define VP_T 2
#endif
#ifndef VP_M
#define VP_M 2
#endif
#ifndef VP_E
#define VP_E 3
#endif
#ifndef VP_SHORT
#define VP_SHORT 0      /* bit k: entry k has a 3-byte (unparsable) key */
#endif
#ifndef VP_N
#define VP_N 4
#endif
#ifndef VP_R
#define VP_R 3
#endif

struct ldb_wfile_s { int open; int closed; int destroyed; };
struct ldb_rfile_s { int open; };
struct ldb_tables_s { int x; };
struct ldb_memtable_s { int refs; int inserts; };

void ldb_log(ldb_logger_t *logger, const char *fmt, ...) { (void)logger; (void)fmt; }
const char *ldb_strerror(int code) { (void)code; return "e"; }

static int
vp_err(void) {
  int e = vp_int();
  VP_ASSUME(e != LDB_OK);
  return e;
}

static int
vp_rc(void) {
  return vp_bool() ? LDB_OK : vp_err();
}

/* ---- the repairer -------------------------------------------------------------- */
static ldb_repair_t rep;
static char db_dir[4];
static ldb_comparator_t user_cmp;
static struct ldb_tables_s the_cache;
static int g_clock = 0;

/* ---- path names (filename.c, strutil.c) over the vp_d9 encoding -------------------- */
static int
vp_mkname(char *buf, size_t size, const char *dbname, ldb_filetype_t type, uint64_t num, int variant) {
  VP_ASSERT(size >= VP9_LEN && vp9_is_dir(dbname) && vp9_dir_id(dbname) == VP9_DB, "file names are built in the database directory");
  vp9_name_make(buf, 1, type, num, variant, VP9_TAG_FIXED);
  buf[1] = VP9_DB;
  return 1;
}

int ldb_log_filename(char *buf, size_t size, const char *dbname, uint64_t num) { return vp_mkname(buf, size, dbname, LDB_FILE_LOG, num, 0); }
int ldb_table_filename(char *buf, size_t size, const char *dbname, uint64_t num) { return vp_mkname(buf, size, dbname, LDB_FILE_TABLE, num, 0); }
int ldb_sstable_filename(char *buf, size_t size, const char *dbname, uint64_t num) { return vp_mkname(buf, size, dbname, LDB_FILE_TABLE, num, 1); }
int ldb_desc_filename(char *buf, size_t size, const char *dbname, uint64_t num) { return vp_mkname(buf, size, dbname, LDB_FILE_DESC, num, 0); }
int ldb_temp_filename(char *buf, size_t size, const char *dbname, uint64_t num) { return vp_mkname(buf, size, dbname, LDB_FILE_TEMP, num, 0); }

int
ldb_dirname(char *buf, size_t size, const char *fname) {
  VP_ASSERT(size >= 3 && !vp9_is_dir(fname) && vp9_in_dir(fname) != VP9_NODIR, "dirname of a joined path");
  vp9_dir_make(buf, vp9_in_dir(fname));
  return 1;
}

static char vp_base_buf[VP9_LEN];

char *
ldb_basename(const char *fname) {
  int k;
  for (k = 0; k < VP9_LEN; k++)
    vp_base_buf[k] = fname[k];
  vp_base_buf[1] = VP9_NODIR;
  return vp_base_buf;
}

/* is `path' the own file (type, num, spelling) in directory dirid */
static int
vp_path_is(const char *path, int dirid, ldb_filetype_t type, uint64_t num, int variant) {
  return vp9_is(path, dirid, type) && vp9_number(path) == num && (int)path[10] == variant;
}

/* ---- archive (shared) ------------------------------------------------------------ */
#define VP_ARCH_MAX 4
static ldb_filetype_t g_arch_type[VP_ARCH_MAX];
static uint64_t g_arch_num[VP_ARCH_MAX];
static int g_arch_variant[VP_ARCH_MAX];
static int g_arch_t[VP_ARCH_MAX];
static int g_archived = 0;
static int g_install = 0, g_t_install = 0, g_install_rc = 0;
static int g_lostdir_made = 0;

int
ldb_create_dir(const char *path) {
  g_clock++;
  VP_ASSERT(vp9_is_dir(path) && vp9_dir_id(path) == VP9_LOST, "the only directory repair creates is <db>/lost");
  g_lostdir_made++;
  return vp_rc();   /* ignored: it usually exists already */
}

int
ldb_rename_file(const char *from, const char *to) {
  int rc = vp_rc();
  g_clock++;
  VP_ASSERT(!vp9_is_dir(from) && !vp9_is_dir(to) && vp9_in_dir(from) == VP9_DB, "files are moved out of / inside the database directory");
  if (vp9_in_dir(to) == VP9_LOST) {
    VP_ASSERT(vp9_same_base(from, to), "C19 a file is archived under its own name in lost/");
    VP_ASSERT(g_archived < VP_ARCH_MAX, "vp-model: archive recorder full");
    VP_ASSERT(g_lostdir_made > g_archived, "lost/ is created before a file is moved into it");
    g_arch_type[g_archived] = vp9_type(from);
    g_arch_num[g_archived] = vp9_number(from);
    g_arch_variant[g_archived] = (int)from[10];
    g_arch_t[g_archived] = g_clock;
    g_archived++;
    return rc;      /* ignored by archive_file */
  }
  VP_ASSERT(vp9_in_dir(to) == VP9_DB, "rename targets are <db> or <db>/lost");
#if VP_MODE == 0
  VP_ASSERT(vp_path_is(from, VP9_DB, LDB_FILE_TEMP, 1, 0) && vp_path_is(to, VP9_DB, LDB_FILE_DESC, 1, 0),
            "C19 the only install is <db>/000001.dbtmp -> <db>/MANIFEST-000001");
#endif
  g_install++;
  g_t_install = g_clock;
  g_install_rc = rc;
  return rc;
}

#if VP_MODE == 0
/* ================================================================================== */
static ldb_tabinfo_t ti0, ti1, ti2;
static ldb_tabinfo_t *const tip[3] = {&ti0, &ti1, &ti2};
static void *tab_items[4];
static uint64_t man_items[4];
static uint8_t key_s[3][9], key_l[3][9];
static int n_tables, n_manifests;
static struct ldb_wfile_s the_file;
static int create_rc, add_rc, close_rc, current_rc;

/* edit recorder */
static int g_cmp_set = 0, g_log_set = 0, g_next_set = 0, g_seq_set = 0, g_exported = 0;
static const char *g_cmp_name;
static uint64_t g_log_number = 99, g_next_file, g_last_seq;
static int g_added[3], g_add_calls = 0, g_add_bad = 0;
static int g_adds_at_export = -1, g_scalars_at_export = 0;
static int g_created = 0, g_t_created = 0, g_t_close = 0, g_t_add = 0, g_add_record = 0, g_writer_init = 0;
static int g_rm_tmp = 0, g_t_rm_tmp = 0, g_current = 0, g_t_current = 0;

void ldb_edit_set_comparator_name(ldb_edit_t *edit, const char *name) { VP_ASSERT(edit == &rep.edit, "the repairer's edit"); g_cmp_set++; g_cmp_name = name; }
void ldb_edit_set_log_number(ldb_edit_t *edit, uint64_t num) { (void)edit; g_log_set++; g_log_number = num; }
void ldb_edit_set_next_file(ldb_edit_t *edit, uint64_t num) { (void)edit; g_next_set++; g_next_file = num; }
void ldb_edit_set_last_sequence(ldb_edit_t *edit, ldb_seqnum_t seq) { (void)edit; g_seq_set++; g_last_seq = seq; }
void ldb_edit_set_prev_log_number(ldb_edit_t *edit, uint64_t num) { (void)edit; (void)num; VP_ASSERT(0, "repair records no previous log"); }

void
ldb_edit_add_file(ldb_edit_t *edit, int level, uint64_t number, uint64_t file_size,
                  const ldb_ikey_t *smallest, const ldb_ikey_t *largest) {
  int k, hit = 0;
  VP_ASSERT(edit == &rep.edit, "the repairer's edit");
  VP_ASSERT(!g_exported, "files are added before the edit is exported");
  g_add_calls++;
  for (k = 0; k < 3; k++) {
    if (k < n_tables && smallest == &tip[k]->meta.smallest) {
      hit = 1;
      g_added[k]++;
      if (level != 0 || number != tip[k]->meta.number || file_size != tip[k]->meta.file_size || largest != &tip[k]->meta.largest)
        g_add_bad++;
    }
  }
  if (!hit)
    g_add_bad++;
}

void
ldb_edit_export(ldb_buffer_t *dst, const ldb_edit_t *edit) {
  (void)dst;
  VP_ASSERT(edit == &rep.edit, "the repairer's edit is exported");
  g_exported++;
  g_adds_at_export = g_add_calls;
  g_scalars_at_export = g_cmp_set + g_log_set + g_next_set + g_seq_set;
}

int
ldb_truncfile_create(const char *filename, ldb_wfile_t **file) {
  g_clock++;
  VP_ASSERT(vp_path_is(filename, VP9_DB, LDB_FILE_TEMP, 1, 0), "C19 the new descriptor is written to the temp file <db>/000001.dbtmp");
  VP_ASSERT(g_created == 0, "temp file created once");
  g_created++;
  g_t_created = g_clock;
  if (create_rc != LDB_OK)
    return create_rc;
  the_file.open = 1;
  *file = &the_file;
  return LDB_OK;
}

void
ldb_writer_init(ldb_writer_t *lw, struct ldb_wfile_s *file, uint64_t length) {
  (void)lw;
  VP_ASSERT(file == &the_file && length == 0, "the descriptor log starts at offset 0 of the temp file");
  g_writer_init++;
}

int
ldb_writer_add_record(ldb_writer_t *lw, const ldb_slice_t *slice) {
  (void)lw; (void)slice;
  g_clock++;
  VP_ASSERT(g_exported == 1 && g_writer_init == 1 && the_file.open && !the_file.closed, "the exported edit is written to the open temp file");
  g_add_record++;
  g_t_add = g_clock;
  return add_rc;
}

int
ldb_wfile_close(ldb_wfile_t *file) {
  g_clock++;
  VP_ASSERT(file == &the_file && the_file.open && !the_file.closed, "temp file closed once");
  the_file.closed = 1;
  g_t_close = g_clock;
  return close_rc;
}

void
ldb_wfile_destroy(ldb_wfile_t *file) {
  VP_ASSERT(file == &the_file && the_file.open, "the temp file object is released");
  the_file.destroyed++;
}

int
ldb_remove_file(const char *filename) {
  g_clock++;
  VP_ASSERT(vp_path_is(filename, VP9_DB, LDB_FILE_TEMP, 1, 0), "C19 write_descriptor removes nothing but its temp file");
  g_rm_tmp++;
  g_t_rm_tmp = g_clock;
  return vp_rc();
}

int
ldb_set_current_file(const char *dbname, uint64_t desc_number) {
  g_clock++;
  VP_ASSERT(dbname == db_dir && desc_number == 1, "CURRENT is pointed at MANIFEST-000001");
  VP_ASSERT(g_install == 1 && g_install_rc == LDB_OK, "C19 CURRENT is switched only after MANIFEST-000001 is in place");
  g_current++;
  g_t_current = g_clock;
  return current_rc;
}

void
harness(void) {
  int k, rc;
  uint64_t ref_max = 0;
  uint64_t next0;

  vp9_dir_make(db_dir, VP9_DB);
  rep.dbname = db_dir;
  user_cmp.name = "cmp";
  ldb_ikc_init(&rep.icmp, &user_cmp);
  rep.table_cache = &the_cache;

  n_tables = vp_int();
  VP_ASSUME(n_tables >= 0 && n_tables <= VP_T);
  for (k = 0; k < VP_T; k++) {
    tip[k]->meta.number = vp_u64();
    tip[k]->meta.file_size = vp_u64();
    tip[k]->max_sequence = vp_u64();
    vp_fill(key_s[k], 9);
    vp_fill(key_l[k], 9);
    tip[k]->meta.smallest.data = key_s[k];
    tip[k]->meta.smallest.size = 9;
    tip[k]->meta.largest.data = key_l[k];
    tip[k]->meta.largest.size = 9;
    tab_items[k] = tip[k];
    if (k < n_tables && tip[k]->max_sequence > ref_max)
      ref_max = tip[k]->max_sequence;
  }
  rep.tables.items = tab_items;
  rep.tables.length = (size_t)n_tables;
  rep.tables.alloc = 4;

  n_manifests = vp_int();
  VP_ASSUME(n_manifests >= 0 && n_manifests <= VP_M);
  for (k = 0; k < VP_M; k++)
    man_items[k] = vp_u64();       /* may be 1: an old MANIFEST-000001 */
  rep.manifests.items = man_items;
  rep.manifests.length = (size_t)n_manifests;
  rep.manifests.alloc = 4;

  rep.next_file_number = vp_u64();
  next0 = rep.next_file_number;
  create_rc = vp_rc();
  add_rc = vp_rc();
  close_rc = vp_rc();
  current_rc = vp_rc();

  /* ---- the real code ---- */
  rc = write_descriptor(&rep);

  /* ---- post-conditions ---- */
  VP_ASSERT(g_created == 1, "temp file creation attempted");
  if (create_rc != LDB_OK) {
    VP_ASSERT(rc == create_rc, "C19 temp file cannot be created: error returned");
    VP_ASSERT(g_archived == 0 && g_install == 0 && g_current == 0 && g_rm_tmp == 0 && g_add_record == 0, "nothing else is done");
    VP_WITNESS("descriptor-temp-create-failed");
    return;
  }

  /* the edit */
  VP_ASSERT(g_exported == 1 && g_adds_at_export == n_tables && g_scalars_at_export == 4, "C19 the edit is exported once, complete");
  VP_ASSERT(g_cmp_set == 1 && g_cmp_name == user_cmp.name, "C19 edit names the user comparator");
  VP_ASSERT(g_log_set == 1 && g_log_number == 0, "C19 edit: log number 0");
  VP_ASSERT(g_next_set == 1 && g_next_file == next0 && rep.next_file_number == next0, "C19 edit: next file number == the repairer's counter");
  VP_ASSERT(g_seq_set == 1 && g_last_seq == ref_max, "C19 edit: last sequence == max over the scanned tables");
  VP_ASSERT(g_add_calls == n_tables && g_add_bad == 0, "C19 edit: every scanned table at level 0 with its number, size, smallest, largest; nothing else");
  for (k = 0; k < VP_T; k++)
    VP_ASSERT(g_added[k] == (k < n_tables ? 1 : 0), "C19 edit: every scanned table exactly once");

  VP_ASSERT(g_add_record == 1 && the_file.destroyed == 1, "record written once, file object released once");
  VP_ASSERT(the_file.closed == (add_rc == LDB_OK), "temp file closed iff the record was written");

  if (add_rc != LDB_OK || close_rc != LDB_OK) {
    VP_ASSERT(rc == (add_rc != LDB_OK ? add_rc : close_rc), "C19 failed descriptor write/close returned");
    VP_ASSERT(g_rm_tmp == 1, "C19 failed descriptor: temp file removed");
    VP_ASSERT(g_archived == 0 && g_install == 0 && g_current == 0, "C19 failed descriptor: old MANIFESTs stay, nothing installed");
    VP_WITNESS("descriptor-write-failed-temp-removed");
    return;
  }

  /* archive old manifests strictly before the install */
  VP_ASSERT(g_archived == n_manifests, "C19 every old MANIFEST is archived exactly once, nothing else");
  for (k = 0; k < VP_M; k++) {
    if (k < n_manifests) {
      VP_ASSERT(g_arch_type[k] == LDB_FILE_DESC && g_arch_num[k] == man_items[k], "C19 the archived files are the MANIFESTs find_files saw");
      VP_ASSERT(g_arch_t[k] > g_t_close && g_arch_t[k] < g_t_install, "C19 old MANIFESTs are archived after the new descriptor is complete and STRICTLY BEFORE MANIFEST-000001 is installed");
    }
  }
  VP_ASSERT(g_install == 1 && g_t_install > g_t_close, "C19 the temp file is renamed to MANIFEST-000001 once, after it was closed");
  if (g_install_rc != LDB_OK) {
    VP_ASSERT(rc == g_install_rc && g_current == 0, "C19 failed install returned, CURRENT untouched");
    VP_ASSERT(g_rm_tmp == 1 && g_t_rm_tmp > g_t_install, "C19 failed install: temp file removed");
    VP_WITNESS("install-failed-temp-removed");
    return;
  }
  VP_ASSERT(g_rm_tmp == 0, "installed descriptor is not removed");
  VP_ASSERT(g_current == 1 && g_t_current > g_t_install && rc == current_rc, "C19 CURRENT switched last, its result returned");
  if (rc == LDB_OK) {
    VP_WITNESS("descriptor-installed");
#if VP_M >= 1
    if (n_manifests >= 1 && man_items[0] == 1)
      VP_WITNESS("old-manifest-1-archived-before-install");
#endif
#if VP_T >= 2
    if (n_tables == VP_T && tip[1]->max_sequence > tip[0]->max_sequence)
      VP_WITNESS("last-sequence-from-second-table");
#endif
    if (n_tables == 0)
      VP_WITNESS("no-tables");
  } else {
    VP_WITNESS("current-switch-failed");
  }
}

#elif VP_MODE == 1
/* ================================================================================== */
static uint64_t the_number;
static int fs_rc[2];            /* ldb_file_size status for .ldb / .sst */
static uint64_t fs_size[2];
static int g_fs_calls[2], g_fs_order_ok = 1, g_fs_total = 0;
static int g_exists_calls = 0;
static int found = -1;          /* spelling that exists */

static uint8_t ent_key[VP_E + 1][9];
static size_t ent_len[VP_E + 1];
static int it_pos = -1, it_status;
static int g_iterate = 0, g_iter_destroyed = 0, g_iter_size_ok = 0, g_iter_first = 0;
static ldb_iter_t the_iter;

int
ldb_file_size(const char *filename, uint64_t *size) {
  int v;
  g_clock++;
  VP_ASSERT(vp9_is(filename, VP9_DB, LDB_FILE_TABLE) && vp9_number(filename) == the_number, "the size of the table being scanned is asked");
  v = (int)filename[10];
  if (v == 1 && g_fs_calls[0] == 0)
    g_fs_order_ok = 0;
  g_fs_calls[v & 1]++;
  g_fs_total++;
  if (fs_rc[v & 1] != LDB_OK)
    return fs_rc[v & 1];
  *size = fs_size[v & 1];
  return LDB_OK;
}

int
ldb_file_exists(const char *filename) {
  int v = (int)filename[10];
  g_clock++;
  g_exists_calls++;
  return fs_rc[v & 1] == LDB_OK;
}

static void it_clear(void *p) { (void)p; }
static int it_valid(const void *p) { (void)p; return it_pos >= 0 && it_pos < VP_E; }
static void it_first(void *p) { (void)p; g_iter_first++; it_pos = 0; }
static void it_last(void *p) { (void)p; VP_ASSERT(0, "scan goes forward"); }
static void it_seek(void *p, const ldb_slice_t *t) { (void)p; (void)t; VP_ASSERT(0, "scan does not seek"); }
static void it_next(void *p) { (void)p; VP_ASSERT(it_pos >= 0 && it_pos < VP_E, "next on a valid iterator"); it_pos++; }
static void it_prev(void *p) { (void)p; VP_ASSERT(0, "scan goes forward"); }
static ldb_slice_t
it_key(const void *p) {
  ldb_slice_t s;
  int k;
  (void)p;
  VP_ASSERT(it_pos >= 0 && it_pos < VP_E, "key of a valid iterator");
  s.data = ent_key[0];
  s.size = ent_len[0];
  s.alloc = 0;
  for (k = 0; k < VP_E; k++) {
    if (k == it_pos) {
      s.data = ent_key[k];
      s.size = ent_len[k];
    }
  }
  return s;
}
static ldb_slice_t it_value(const void *p) { ldb_slice_t s; (void)p; s.data = NULL; s.size = 0; s.alloc = 0; return s; }
static int it_stat(const void *p) { (void)p; return it_status; }
static const ldb_itertbl_t it_table = {it_clear, it_valid, it_first, it_last, it_seek, it_next, it_prev, it_key, it_value, it_stat};

ldb_iter_t *
ldb_tables_iterate(ldb_tables_t *cache, const ldb_readopt_t *options, uint64_t file_number, uint64_t file_size, ldb_table_t **tableptr) {
  g_clock++;
  VP_ASSERT(cache == &the_cache && tableptr == NULL, "the repairer's table cache");
  VP_ASSERT(file_number == the_number, "the table being scanned is opened");
  VP_ASSERT(options->verify_checksums == rep.options.paranoid_checks, "checksums verified iff paranoid_checks");
  VP_ASSERT(found >= 0, "a table is opened only if one of its names exists");
  g_iterate++;
  if (found >= 0 && file_size == fs_size[found])
    g_iter_size_ok++;
  VP_ASSERT(found < 0 || file_size == fs_size[found],
            "C19 the size handed to the table cache is the size ldb_file_size reported for the name that exists (.ldb or .sst)");
  the_iter.ptr = &the_iter;
  the_iter.table = &it_table;
  it_pos = -1;
  return &the_iter;
}

void
ldb_iter_destroy(ldb_iter_t *iter) {
  VP_ASSERT(iter == &the_iter, "the scan iterator is released");
  g_iter_destroyed++;
}

void ldb_filemeta_init(ldb_filemeta_t *meta) {
  meta->refs = 0;
  meta->allowed_seeks = (1 << 30);
  meta->number = 0;
  meta->file_size = 0;
  ldb_buffer_init(&meta->smallest);
  ldb_buffer_init(&meta->largest);
}

void ldb_filemeta_clear(ldb_filemeta_t *meta) {
  ldb_buffer_clear(&meta->smallest);
  ldb_buffer_clear(&meta->largest);
}

/* repair_table (salvage of a table whose scan ended in an error) is not part
   of this obligation: the iterator status is OK here */
int ldb_truncfile_create(const char *filename, ldb_wfile_t **file) { (void)filename; (void)file; VP_ASSERT(0, "repair_table not reached"); return LDB_IOERR; }

static int
ref_parsable(int k) {
  return ent_len[k] >= 8 && ent_key[k][ent_len[k] - 8] <= 1;
}

static uint64_t
ref_seq(int k) {
  uint64_t tag = 0;
  int b;
  for (b = 0; b < 8; b++)
    tag |= (uint64_t)ent_key[k][ent_len[k] - 8 + b] << (8 * b);
  return tag >> 8;
}

void
harness(void) {
  int k, b, first = -1, last = -1, nparsed = 0;
  uint64_t ref_max = 0;
  ldb_tabinfo_t *t;

  vp9_dir_make(db_dir, VP9_DB);
  rep.dbname = db_dir;
  user_cmp.name = "cmp";
  ldb_ikc_init(&rep.icmp, &user_cmp);
  rep.table_cache = &the_cache;
  rep.options.paranoid_checks = vp_bool();
  rep.next_file_number = vp_u64();
  ldb_vector_init(&rep.tables);

  the_number = vp_u64();
  for (k = 0; k < 2; k++) {
    fs_rc[k] = vp_rc();
    fs_size[k] = vp_u64();
  }
  found = fs_rc[0] == LDB_OK ? 0 : (fs_rc[1] == LDB_OK ? 1 : -1);
  for (k = 0; k < VP_E; k++) {
    vp_fill(ent_key[k], 9);
    ent_len[k] = ((VP_SHORT >> k) & 1) ? 3 : 9;
  }
  it_status = LDB_OK;

  for (k = 0; k < VP_E; k++) {
    if (ref_parsable(k)) {
      if (first < 0)
        first = k;
      last = k;
      nparsed++;
      if (ref_seq(k) > ref_max)
        ref_max = ref_seq(k);
    }
  }

  /* ---- the real code ---- */
  scan_table(&rep, the_number);

  /* ---- post-conditions ---- */
  VP_ASSERT(g_fs_order_ok && g_fs_calls[0] == 1 && g_fs_calls[1] == (fs_rc[0] == LDB_OK ? 0 : 1),
            "C19 the table is looked up as NNNNNN.ldb and, only if that fails, as NNNNNN.sst");

  if (found < 0) {
    VP_ASSERT(g_iterate == 0 && rep.tables.length == 0, "C19 a table that cannot be found is not recorded");
    VP_ASSERT(g_archived == 2 && g_arch_type[0] == LDB_FILE_TABLE && g_arch_num[0] == the_number && g_arch_variant[0] == 0 &&
              g_arch_type[1] == LDB_FILE_TABLE && g_arch_num[1] == the_number && g_arch_variant[1] == 1,
              "both spellings are moved to lost/");
    VP_WITNESS("table-missing-archived");
    return;
  }

  VP_ASSERT(g_iterate == 1 && g_iter_size_ok == 1 && g_iter_first == 1 && g_iter_destroyed == 1, "table opened once with the reported size, scanned once, iterator released");
  VP_ASSERT(g_archived == 0, "a readable table is not archived");
  VP_ASSERT(rep.tables.length == 1, "C19 a table that scans cleanly is recorded exactly once");
  t = rep.tables.items[0];
  VP_ASSERT(t->meta.number == the_number, "C19 recorded under its number");
  VP_ASSERT(t->meta.file_size == fs_size[found], "C19 recorded with the real file size of the name that exists");
  VP_ASSERT(t->max_sequence == ref_max, "C19 max_sequence == max over the parsable keys");
  if (found == 1 && fs_size[1] != 0)
    VP_WITNESS("sst-spelling-scanned-with-its-size");
  if (found == 0)
    VP_WITNESS("ldb-spelling-scanned");
  if (nparsed == 0) {
    VP_ASSERT(t->meta.smallest.size == 0 && t->meta.largest.size == 0, "no parsable key: no bounds");
    VP_WITNESS("no-parsable-key");
  } else {
    VP_ASSERT(t->meta.smallest.size == 9 && t->meta.largest.size == 9, "bounds are whole internal keys");
    for (k = 0; k < VP_E; k++) {
      if (k == first)
        for (b = 0; b < 9; b++)
          VP_ASSERT(t->meta.smallest.data[b] == ent_key[k][b], "C19 smallest == first parsable key the iterator yields");
      if (k == last)
        for (b = 0; b < 9; b++)
          VP_ASSERT(t->meta.largest.data[b] == ent_key[k][b], "C19 largest == last parsable key the iterator yields");
    }
#if VP_E >= 2
    if (first > 0)
      VP_WITNESS("leading-unparsable-key-skipped");
    if (nparsed >= 2 && ref_seq(first) == ref_max && ref_seq(last) < ref_max)
      VP_WITNESS("max-sequence-not-at-the-end");
#endif
  }
}

#elif VP_MODE == 2
/* ================================================================================== */
static char dir_name[VP_N + 1][VP9_LEN];
static char *dir_list[VP_N + 1];
static int dir_n, dir_fail, dir_errno;
static int dir_owned[VP_N + 1];
static ldb_filetype_t dir_type[VP_N + 1];
static uint64_t dir_num[VP_N + 1];
static int g_listed = 0, g_freed = 0;

int ldb_system_error(void) { return dir_errno; }

int
ldb_get_children(const char *path, char ***out) {
  VP_ASSERT(path == db_dir, "the database directory is listed");
  g_listed++;
  if (dir_fail) {
    *out = NULL;
    return -1;
  }
  *out = dir_list;
  return dir_n;
}

void
ldb_free_children(char **list, int len) {
  VP_ASSERT(list == dir_list && len == dir_n, "the listing that was returned is released");
  g_freed++;
}

void
harness(void) {
  int i, rc, t;
  int nm = 0, nl = 0, nt = 0;
  uint64_t ref_next = 1;
  uint64_t ref_m[VP_N + 1], ref_l[VP_N + 1], ref_t[VP_N + 1];

  vp9_dir_make(db_dir, VP9_DB);
  rep.dbname = db_dir;
  ldb_array_init(&rep.manifests);
  ldb_array_init(&rep.table_numbers);
  ldb_array_init(&rep.logs);
  rep.next_file_number = 1;

  dir_n = vp_int();
  VP_ASSUME(dir_n >= 0 && dir_n <= VP_N);
  for (i = 0; i < VP_N; i++) {
    t = vp_int();
    VP_ASSUME(t >= 0 && t <= (int)LDB_FILE_INFO);
    dir_owned[i] = vp_bool();
    dir_type[i] = (ldb_filetype_t)t;
    vp9_name_make(dir_name[i], dir_owned[i], dir_type[i], vp_u64(), vp_bool(), i);
    dir_num[i] = vp9_number(dir_name[i]);
    dir_list[i] = dir_name[i];
    if (i < dir_n && dir_owned[i]) {
      if (dir_type[i] == LDB_FILE_DESC) {
        ref_m[nm++] = dir_num[i];
      } else {
        if (dir_num[i] + 1 > ref_next)
          ref_next = dir_num[i] + 1;
        if (dir_type[i] == LDB_FILE_LOG)
          ref_l[nl++] = dir_num[i];
        else if (dir_type[i] == LDB_FILE_TABLE)
          ref_t[nt++] = dir_num[i];
      }
    }
  }
  dir_fail = vp_bool();
  dir_errno = vp_err();

  /* ---- the real code ---- */
  rc = find_files(&rep);

  /* ---- post-conditions ---- */
  VP_ASSERT(g_listed == 1, "directory listed once");
  if (dir_fail) {
    VP_ASSERT(rc == dir_errno && g_freed == 0, "unreadable directory: error returned");
    VP_WITNESS("listing-failed");
    return;
  }
  VP_ASSERT(g_freed == 1, "listing released exactly once");
  if (dir_n == 0) {
    VP_ASSERT(rc == LDB_IOERR, "C19 an empty directory is not repaired into a database");
    VP_WITNESS("empty-directory-refused");
    return;
  }
  VP_ASSERT(rc == LDB_OK, "files found");
  VP_ASSERT(rep.next_file_number == ref_next, "C19 next_file_number == 1 + max number over every own non-MANIFEST name (>= 1)");
  VP_ASSERT((int)rep.manifests.length == nm && (int)rep.logs.length == nl && (int)rep.table_numbers.length == nt,
            "C19 every MANIFEST / log / table is collected, nothing else");
  for (i = 0; i < VP_N; i++) {
    if (i < nm)
      VP_ASSERT(rep.manifests.items[i] == ref_m[i], "MANIFEST numbers in listing order");
    if (i < nl)
      VP_ASSERT(rep.logs.items[i] == ref_l[i], "log numbers in listing order");
    if (i < nt)
      VP_ASSERT(rep.table_numbers.items[i] == ref_t[i], "table numbers in listing order");
  }
  for (i = 0; i < VP_N; i++) {
    if (i < dir_n && dir_owned[i] && dir_type[i] != LDB_FILE_DESC)
      VP_ASSERT(rep.next_file_number > dir_num[i] || dir_num[i] == UINT64_MAX, "C19 numbers handed out later lie above every file on disk");
  }
#if VP_N >= 3
  if (nm == 1 && nl == 1 && nt == 1)
    VP_WITNESS("one-of-each-classified");
  if (nt == VP_N)
    VP_WITNESS("all-tables");
  if (dir_n == VP_N && nm + nl + nt == 0)
    VP_WITNESS("nothing-to-repair-from");
#endif
#if VP_N >= 1
  if (ref_next > 1)
    VP_WITNESS("counter-raised");
#endif
}

#else
/* ================================================================================== */
static struct ldb_rfile_s the_rfile;
static struct ldb_memtable_s the_mem;
static ldb_iter_t the_iter;
static uint8_t rec_data[VP_R + 1][16];
static size_t rec_size[VP_R + 1];
static int rec_n, rec_next = 0;
static int ins_rc[VP_R + 1], rec_count[VP_R + 1];
static int g_inserted[VP_R + 1], g_ins_calls = 0, g_ins_order_ok = 1, g_last_ins = -1;
static int g_cur = -1;
static int open_rc, build_rc;
static uint64_t build_size, the_log;
static int g_rfile_destroyed = 0, g_reader_cleared = 0, g_batch_cleared = 0, g_mem_unref = 0, g_iter_destroyed = 0;
static int g_built = 0;
static uint64_t g_built_number;

int
ldb_seqfile_create(const char *filename, ldb_rfile_t **file) {
  VP_ASSERT(vp9_is(filename, VP9_DB, LDB_FILE_LOG) && vp9_number(filename) == the_log, "the log being converted is opened");
  if (open_rc != LDB_OK)
    return open_rc;
  the_rfile.open = 1;
  *file = &the_rfile;
  return LDB_OK;
}

void ldb_rfile_destroy(ldb_rfile_t *file) { VP_ASSERT(file == &the_rfile && the_rfile.open, "log file released"); the_rfile.open = 0; g_rfile_destroyed++; }

void
ldb_reader_init(ldb_reader_t *lr, struct ldb_rfile_s *file, ldb_reporter_t *reporter, int checksum, uint64_t initial_offset) {
  (void)lr; (void)reporter; (void)checksum;
  VP_ASSERT(file == &the_rfile && initial_offset == 0, "log read from the start");
}

void ldb_reader_clear(ldb_reader_t *lr) { (void)lr; g_reader_cleared++; }

int
ldb_reader_read_record(ldb_reader_t *lr, ldb_slice_t *record, ldb_buffer_t *scratch) {
  int k;
  (void)lr; (void)scratch;
  if (rec_next >= rec_n)
    return 0;
  for (k = 0; k < VP_R; k++) {
    if (k == rec_next) {
      record->data = rec_data[k];
      record->size = rec_size[k];
    }
  }
  rec_next++;
  return 1;
}

void ldb_batch_init(ldb_batch_t *batch) { (void)batch; }
void ldb_batch_clear(ldb_batch_t *batch) { (void)batch; g_batch_cleared++; }

void
ldb_batch_set_contents(ldb_batch_t *batch, const ldb_slice_t *contents) {
  int k;
  (void)batch;
  VP_ASSERT(contents->size >= 12, "C19 only records that hold a batch header are decoded");
  g_cur = -1;
  for (k = 0; k < VP_R; k++)
    if (contents->data == rec_data[k])
      g_cur = k;
  VP_ASSERT(g_cur >= 0 && g_cur == rec_next - 1, "the record just read is loaded");
}

int
ldb_batch_insert_into(const ldb_batch_t *batch, ldb_memtable_t *table) {
  int k, rc = LDB_OK;
  (void)batch;
  VP_ASSERT(table == &the_mem && g_cur >= 0, "records are inserted into the conversion memtable");
  g_ins_calls++;
  if (g_cur <= g_last_ins)
    g_ins_order_ok = 0;
  g_last_ins = g_cur;
  for (k = 0; k < VP_R; k++) {
    if (k == g_cur) {
      g_inserted[k]++;
      rc = ins_rc[k];
    }
  }
  g_cur = -1;
  return rc;
}

int
ldb_batch_count(const ldb_batch_t *batch) {
  (void)batch;
  return 1;
}

ldb_memtable_t *ldb_memtable_create(const ldb_comparator_t *comparator) { VP_ASSERT(comparator == &rep.icmp, "memtable ordered by the internal comparator"); return &the_mem; }
void ldb_memtable_ref(ldb_memtable_t *mt) { mt->refs++; }
void ldb_memtable_unref(ldb_memtable_t *mt) { mt->refs--; g_mem_unref++; }
ldb_iter_t *ldb_memiter_create(const ldb_memtable_t *mt) { VP_ASSERT(mt == &the_mem, "the conversion memtable is dumped"); return &the_iter; }
void ldb_iter_destroy(ldb_iter_t *iter) { VP_ASSERT(iter == &the_iter, "memtable iterator released"); g_iter_destroyed++; }

void ldb_filemeta_init(ldb_filemeta_t *meta) {
  meta->refs = 0;
  meta->allowed_seeks = (1 << 30);
  meta->number = 0;
  meta->file_size = 0;
  ldb_buffer_init(&meta->smallest);
  ldb_buffer_init(&meta->largest);
}

void ldb_filemeta_clear(ldb_filemeta_t *meta) {
  ldb_buffer_clear(&meta->smallest);
  ldb_buffer_clear(&meta->largest);
}

int
ldb_build_table(const char *prefix, const ldb_dbopt_t *options, ldb_tables_t *table_cache, ldb_iter_t *iter, ldb_filemeta_t *meta) {
  VP_ASSERT(prefix == db_dir && options == &rep.options && table_cache == &the_cache && iter == &the_iter, "table built from the memtable in the database directory");
  VP_ASSERT(rec_next == rec_n || rec_n == 0, "C19 the table is built after the whole log was read");
  g_built++;
  g_built_number = meta->number;
  if (build_rc == LDB_OK)
    meta->file_size = build_size;
  return build_rc;
}

void
harness(void) {
  int k, rc;
  uint64_t next0;

  vp9_dir_make(db_dir, VP9_DB);
  rep.dbname = db_dir;
  user_cmp.name = "cmp";
  ldb_ikc_init(&rep.icmp, &user_cmp);
  rep.table_cache = &the_cache;
  ldb_array_init(&rep.table_numbers);
  rep.next_file_number = vp_u64();
  VP_ASSUME(rep.next_file_number < UINT64_MAX);
  next0 = rep.next_file_number;
  the_log = vp_u64();

  rec_n = vp_int();
  VP_ASSUME(rec_n >= 0 && rec_n <= VP_R);
  for (k = 0; k < VP_R; k++) {
    rec_size[k] = vp_bool() ? 12 + (size_t)(vp_u8() & 3) : (size_t)(vp_u8() % 12);
    ins_rc[k] = vp_bool() ? LDB_OK : LDB_CORRUPTION;
  }
  open_rc = vp_rc();
  build_rc = vp_rc();
  build_size = vp_u64();

  /* ---- the real code ---- */
  rc = convert_log_to_table(&rep, the_log);

  /* ---- post-conditions ---- */
  if (open_rc != LDB_OK) {
    VP_ASSERT(rc == open_rc && g_built == 0 && rep.next_file_number == next0 && rep.table_numbers.length == 0, "unreadable log: error returned, nothing allocated");
    VP_WITNESS("log-cannot-be-opened");
    return;
  }
  for (k = 0; k < VP_R; k++)
    VP_ASSERT(g_inserted[k] == ((k < rec_n && rec_size[k] >= 12) ? 1 : 0),
              "C19 every record >= 12 bytes is inserted exactly once (also after a batch that failed), shorter ones are skipped");
  VP_ASSERT(g_ins_order_ok, "C19 records are replayed in log order");
  VP_ASSERT(g_built == 1 && g_built_number == next0 && rep.next_file_number == next0 + 1, "C19 the new table gets a fresh number above everything seen");
  VP_ASSERT(rc == build_rc, "result of the table build returned");
  VP_ASSERT(rep.table_numbers.length == ((build_rc == LDB_OK && build_size > 0) ? 1 : 0), "C19 the table is scanned later iff it was built and is not empty");
  if (rep.table_numbers.length == 1)
    VP_ASSERT(rep.table_numbers.items[0] == next0, "recorded under its number");
  VP_ASSERT(g_rfile_destroyed == 1 && g_reader_cleared == 1 && g_batch_cleared == 1 && g_mem_unref == 1 && the_mem.refs == 0 && g_iter_destroyed == 1,
            "log file, reader, batch, memtable, iterator released");
#if VP_R >= 2
  if (rec_n == VP_R && ins_rc[0] != LDB_OK && rec_size[0] >= 12 && rec_size[1] >= 12)
    VP_WITNESS("bad-batch-does-not-stop-the-log");
  if (rec_n == VP_R && rec_size[0] < 12 && rec_size[1] >= 12)
    VP_WITNESS("short-record-skipped");
#endif
  if (rep.table_numbers.length == 1)
    VP_WITNESS("log-converted");
  if (build_rc == LDB_OK && build_size == 0)
    VP_WITNESS("empty-log-no-table");
}
#endif
