/* vset/get.c -- the REAL ldb_version_get (src/version_set.c #included: with
 * ldb_version_for_each_overlapping, newest_first, find_file, getstate_match,
 * save_value, real internal-key comparator from dbformat.c, real bytewise
 * comparator, real vector.c/buffer.c) over a symbolic multi-level version,
 * against the reference "newest entry of the user key with sequence <= S
 * over ALL entries of ALL files".
 *
 * Files per level are concrete per query (VP_L0, VP_L1, VP_L2; level 1 and 2
 * files live in levels VP_LA and VP_LB); each file holds VP_E entries with
 * symbolic 1-byte user key, 56-bit sequence, type and 1-byte value.  The
 * table layer (table_cache.c / table.c) is replaced by the contract of
 * ldb_tables_get: "call handle_result on the first entry >= key, if any".
 *
 * VP_MODE 0 (C01.b): the layout satisfies the structural invariant of C14
 *   (files internally sorted; level >= 1 sorted and disjoint; per user key,
 *   shallower levels and higher-numbered level-0 files hold strictly newer
 *   entries).  Assert get == reference.
 * VP_MODE 1 (C19.a, strict part): every table sits in level 0, as
 *   repair.c's write_descriptor places them, file numbers symbolic; ASSUME
 *   the listed finding F2 does not apply (no two files where the
 *   higher-numbered one holds an older entry of a user key than the
 *   lower-numbered one).  Assert get == reference.
 * VP_MODE 2 (C19.a, the finding F2): as mode 1 without that assumption.
 *   Expected to FAIL on the pinned tree; the assertion carries the finding's
 *   tag so that only this shape is accepted as known.
 * VP_TABLE_ERR 1 (C11.d): the table layer may report an error for one file;
 *   then the lookup must return that error and never fall through to an
 *   older file.
 */
#include "vp.h"
#include "vp_vector_inc.h"   /* real util/vector.c with typed pointer arrays */
#include "version_set.c"

#ifndef VP_L0
#define VP_L0 2
#endif
#ifndef VP_L1
#define VP_L1 1
#endif
#ifndef VP_L2
#define VP_L2 1
#endif
#ifndef VP_LA
#define VP_LA 1
#endif
#ifndef VP_LB
#define VP_LB 2
#endif
#ifndef VP_E
#define VP_E 2
#endif
#ifndef VP_MODE
#define VP_MODE 0
#endif
#ifndef VP_TABLE_ERR
#define VP_TABLE_ERR 0
#endif
#ifndef VP_SEQMAX
#define VP_SEQMAX 15   /* sequence numbers and file numbers range over 1..VP_SEQMAX: the code
                          under test only compares them (order-isomorphic to the full range; the
                          56-bit tag packing/ordering is decided by the dbformat obligations) */
#endif
#define VP_F (VP_L0 + VP_L1 + VP_L2)

static uint8_t e_u[VP_F][VP_E];
static uint64_t e_seq[VP_F][VP_E];
static int e_type[VP_F][VP_E];
static uint8_t e_val[VP_F][VP_E];
/* one separate object per file: pointers to array elements at symbolic
   positions make CBMC byte-extract the whole array on every access */
static ldb_filemeta_t fm0, fm1, fm2, fm3, fm4, fm5, fm6;
static ldb_filemeta_t *const fmp[7] = {&fm0, &fm1, &fm2, &fm3, &fm4, &fm5, &fm6};
static uint8_t ks0[9], ks1[9], ks2[9], ks3[9], ks4[9], ks5[9], ks6[9];
static uint8_t kl0[9], kl1[9], kl2[9], kl3[9], kl4[9], kl5[9], kl6[9];
static uint8_t *const ksp[7] = {ks0, ks1, ks2, ks3, ks4, ks5, ks6};
static uint8_t *const klp[7] = {kl0, kl1, kl2, kl3, kl4, kl5, kl6};
#define fm(f) (*fmp[f])
static int f_level[VP_F];
static int err_file = -1;
static int tables_calls = 0;
static int last_called_file = -1;

/* internal-key order: user key ascending, sequence descending */
static int
ent_less(uint8_t u1, uint64_t s1, uint8_t u2, uint64_t s2) {
  if (u1 != u2) return u1 < u2;
  return s1 > s2;
}

/* contract of ldb_tables_get / ldb_table_internal_get */
int
ldb_tables_get(ldb_tables_t *cache, const ldb_readopt_t *options,
               uint64_t file_number, uint64_t file_size,
               const ldb_slice_t *k, void *arg,
               void (*handle_result)(void *, const ldb_slice_t *, const ldb_slice_t *)) {
  int f, i, fi = -1;
  uint8_t ku;
  uint64_t kseq;
  (void)cache; (void)options;
  for (f = 0; f < VP_F; f++)
    if (fm(f).number == file_number) fi = f;
  VP_ASSERT(fi >= 0, "lookup in a file of this version");
  VP_ASSERT(fm(fi).file_size == file_size, "file size passed with the number");
  VP_ASSERT(k->size == 9, "internal lookup key: user key + 8-byte tag");
  tables_calls++;
  last_called_file = fi;
  if (VP_TABLE_ERR && fi == err_file)
    return LDB_CORRUPTION;
  ku = k->data[0];
  kseq = ldb_fixed64_decode(k->data + 1) >> 8;
  for (f = 0; f < VP_F; f++) {
    if (f != fi) continue;
    for (i = 0; i < VP_E; i++) {
      /* first entry >= (ku, kseq) */
      if (!ent_less(e_u[f][i], e_seq[f][i], ku, kseq)) {
        uint8_t kb[9], vb[1];
        ldb_slice_t ks, vs;
        kb[0] = e_u[f][i];
        ldb_fixed64_write(kb + 1, (e_seq[f][i] << 8) | (uint64_t)e_type[f][i]);
        vb[0] = e_val[f][i];
        ks = ldb_slice(kb, 9);
        vs = ldb_slice(vb, 1);
        handle_result(arg, &ks, &vs);
        return LDB_OK;
      }
    }
  }
  return LDB_OK;
}

static ldb_versions_t vset;
static ldb_version_t ver;
static ldb_dbopt_t dbopt;

/* file bounds and per-level file lists live in static storage (the real
   containers are only read by the code under test) */
static void *lvl_items[LDB_NUM_LEVELS][VP_F + 1];

static void
set_bounds(int f) {
  ksp[f][0] = e_u[f][0];
  ldb_fixed64_write(ksp[f] + 1, (e_seq[f][0] << 8) | (uint64_t)e_type[f][0]);
  klp[f][0] = e_u[f][VP_E - 1];
  ldb_fixed64_write(klp[f] + 1, (e_seq[f][VP_E - 1] << 8) | (uint64_t)e_type[f][VP_E - 1]);
  fm(f).smallest.data = ksp[f];
  fm(f).smallest.size = 9;
  fm(f).smallest.alloc = 0;
  fm(f).largest.data = klp[f];
  fm(f).largest.size = 9;
  fm(f).largest.alloc = 0;
}

void
harness(void) {
  int f, g, i, j, lvl;
  uint8_t qu;
  uint64_t qs;
  ldb_slice_t quk;
  ldb_lkey_t lk;
  ldb_buffer_t value;
  ldb_getstats_t stats;
  ldb_readopt_t ro;
  int rc;
  /* reference */
  int have = 0, rtype = 0;
  uint64_t rseq = 0;
  uint8_t rval = 0;

  /* ---- symbolic entries ---- */
  for (f = 0; f < VP_F; f++) {
    for (i = 0; i < VP_E; i++) {
      e_u[f][i] = vp_u8();
      e_seq[f][i] = vp_u64();
      VP_ASSUME(e_seq[f][i] >= 1 && e_seq[f][i] <= VP_SEQMAX);
      e_type[f][i] = vp_bool();
      e_val[f][i] = vp_u8();
      if (i > 0)   /* a table is a strictly sorted run of internal keys */
        VP_ASSUME(ent_less(e_u[f][i - 1], e_seq[f][i - 1], e_u[f][i], e_seq[f][i]));
    }
    fm(f).refs = 1;
    fm(f).allowed_seeks = 100;
    fm(f).number = vp_u64();
    VP_ASSUME(fm(f).number >= 1 && fm(f).number <= VP_SEQMAX);
    fm(f).file_size = 1000 + (uint64_t)f;
  }
  /* sequence numbers are unique across the database */
  for (f = 0; f < VP_F; f++)
    for (i = 0; i < VP_E; i++)
      for (g = 0; g < f; g++) {
        for (j = 0; j < VP_E; j++)
          VP_ASSUME(e_seq[f][i] != e_seq[g][j]);
        VP_ASSUME(fm(f).number != fm(g).number);
      }

  /* ---- placement ---- */
  for (f = 0; f < VP_F; f++)
    f_level[f] = f < VP_L0 ? 0 : (f < VP_L0 + VP_L1 ? VP_LA : VP_LB);

#if VP_MODE == 0
  /* level >= 1: sorted and disjoint in internal-key order */
  for (f = VP_L0; f < VP_F; f++)
    for (g = VP_L0; g < f; g++)
      if (f_level[f] == f_level[g])
        VP_ASSUME(ent_less(e_u[g][VP_E - 1], e_seq[g][VP_E - 1], e_u[f][0], e_seq[f][0]));
  /* recency: for one user key, entries in a shallower level are newer than
     entries in a deeper one; in level 0 a higher file number is newer */
  for (f = 0; f < VP_F; f++)
    for (g = 0; g < VP_F; g++)
      for (i = 0; i < VP_E; i++)
        for (j = 0; j < VP_E; j++) {
          if (f == g || e_u[f][i] != e_u[g][j]) continue;
          if (f_level[f] < f_level[g])
            VP_ASSUME(e_seq[f][i] > e_seq[g][j]);
          if (f_level[f] == 0 && f_level[g] == 0 && fm(f).number > fm(g).number)
            VP_ASSUME(e_seq[f][i] > e_seq[g][j]);
        }
#elif VP_MODE == 1
  /* excluded: the listed finding F2 (higher-numbered level-0 file holds an
     older entry of a user key than a lower-numbered one) */
  for (f = 0; f < VP_F; f++)
    for (g = 0; g < VP_F; g++)
      for (i = 0; i < VP_E; i++)
        for (j = 0; j < VP_E; j++) {
          if (f == g || e_u[f][i] != e_u[g][j]) continue;
          if (fm(f).number > fm(g).number)
            VP_ASSUME(e_seq[f][i] > e_seq[g][j]);
        }
#endif

  /* ---- build the version through the real containers ---- */
  dbopt.comparator = ldb_bytewise_comparator;
  vset.options = &dbopt;
  ldb_ikc_init(&vset.icmp, ldb_bytewise_comparator);
  ver.vset = &vset;
  for (lvl = 0; lvl < LDB_NUM_LEVELS; lvl++) {
    ver.files[lvl].items = &lvl_items[lvl][0];
    ver.files[lvl].length = 0;
    ver.files[lvl].alloc = VP_F + 1;
  }
  for (f = 0; f < VP_F; f++) {
    set_bounds(f);
    lvl = f_level[f];                 /* concrete */
    lvl_items[lvl][ver.files[lvl].length++] = fmp[f];
  }

  /* ---- the query ---- */
  qu = vp_u8();
  qs = vp_u64();
  VP_ASSUME(qs <= VP_SEQMAX + 1);
  quk = ldb_slice(&qu, 1);
  ldb_lkey_init(&lk, &quk, qs);
  ldb_buffer_init(&value);
  ro = *ldb_readopt_default;
#if VP_TABLE_ERR
  err_file = vp_int();
  VP_ASSUME(err_file >= 0 && err_file < VP_F);
#endif

#ifdef VP_EXP_NOCALL
  rc = vp_int();
#else
  rc = ldb_version_get(&ver, &ro, &lk, &value, &stats);
#endif

  /* ---- reference fold over every entry ---- */
  for (f = 0; f < VP_F; f++)
    for (i = 0; i < VP_E; i++)
      if (e_u[f][i] == qu && e_seq[f][i] <= qs && (!have || e_seq[f][i] > rseq)) {
        have = 1;
        rseq = e_seq[f][i];
        rtype = e_type[f][i];
        rval = e_val[f][i];
      }

#if VP_TABLE_ERR
  if (rc != LDB_OK && rc != LDB_NOTFOUND) {
    VP_ASSERT(rc == LDB_CORRUPTION && last_called_file == err_file, "C11.d table error is returned and stops the search (no fall-through to older data)");
    VP_WITNESS("table-error-propagated");
    return;
  }
#endif

#if VP_MODE == 2
#define VP_TAG "KF:F2-repair-level0-order "
#else
#define VP_TAG ""
#endif
  if (have && rtype == LDB_TYPE_VALUE) {
    VP_ASSERT(rc == LDB_OK, VP_TAG "newest visible entry is a value: lookup succeeds");
    VP_ASSERT(rc != LDB_OK || (value.size == 1 && value.data[0] == rval), VP_TAG "lookup returns the newest visible value");
    VP_WITNESS("found");
  } else if (have) {
    VP_ASSERT(rc == LDB_NOTFOUND, VP_TAG "newest visible entry is a tombstone: not found (older value stays hidden)");
    VP_WITNESS("deleted");
  } else {
    VP_ASSERT(rc == LDB_NOTFOUND, VP_TAG "no visible entry: not found");
    VP_WITNESS("absent");
  }
  VP_ASSERT(stats.seek_file == NULL || tables_calls >= 2, "a seek is charged only when more than one file was read");
}
