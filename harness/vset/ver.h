/* vset/ver.h -- a symbolic ldb_version_t for the harnesses over the REAL
 * src/version_set.c (which this header #includes, so statics are reachable).
 *
 * Files carry bounds only (smallest/largest internal key = 1-byte user key +
 * 8-byte tag), a symbolic size and a concrete number.  The number of files
 * per level is concrete per query (VP_N0..VP_N6); file f lives in level
 * vp_level_of(f) (files are laid out level by level).
 *
 * Invariant assumed (C14, "L"): per file smallest <= largest; in levels >= 1
 * files are sorted and pairwise disjoint IN INTERNAL-KEY ORDER, so ONE USER
 * KEY MAY STRADDLE adjacent files (file i ends with (k, seq 9), file i+1
 * starts with (k, seq 4)).  Level 0 is unconstrained.
 *
 * One separate static object per file and per key buffer (HARNESS_GUIDE
 * pitfalls); level vectors are static typed pointer arrays.
 */
#ifndef VP_VSET_VER_H
#define VP_VSET_VER_H

#include "vp.h"
#include "vp_vector_inc.h"   /* real util/vector.c with typed pointer arrays */

/* Comparator dispatch: version_set.c calls comparators through the macro
 * ldb_compare(cmp, x, y) == (cmp)->compare(cmp, x, y).  For the #included
 * copy the macro is routed through ONE function, so that the function-pointer
 * restriction (targets: ldb_ikc_compare and the bytewise slice_compare,
 * asserted by CBMC at this one indirect call) does not depend on the numbering of call sites inside
 * version_set.c (a changed version_set.c must still build). */
#include "util/comparator.h"
static int
vp_compare(const ldb_comparator_t *cmp, const ldb_slice_t *x, const ldb_slice_t *y) {
  return cmp->compare(cmp, x, y);
}
#undef ldb_compare
#define ldb_compare(cmp, x, y) vp_compare(cmp, (const ldb_slice_t *)(x), (const ldb_slice_t *)(y))

#include "version_set.c"

#ifndef VP_N0
#define VP_N0 0
#endif
#ifndef VP_N1
#define VP_N1 0
#endif
#ifndef VP_N2
#define VP_N2 0
#endif
#ifndef VP_N3
#define VP_N3 0
#endif
#ifndef VP_N4
#define VP_N4 0
#endif
#ifndef VP_N5
#define VP_N5 0
#endif
#ifndef VP_N6
#define VP_N6 0
#endif
#ifndef VP_SEQMAX
#define VP_SEQMAX 7     /* sequences 0..VP_SEQMAX: only compared by the code under test */
#endif
#ifndef VP_SIZEMAX
#define VP_SIZEMAX 4000 /* file sizes 0..VP_SIZEMAX */
#endif
#ifndef VP_MFS
#define VP_MFS 100      /* options->max_file_size: grandparent limit 10x, expansion limit 25x */
#endif

#define VP_F (VP_N0 + VP_N1 + VP_N2 + VP_N3 + VP_N4 + VP_N5 + VP_N6)
#define VP_MAXF 10

static const int vp_ncount[LDB_NUM_LEVELS] = {VP_N0, VP_N1, VP_N2, VP_N3, VP_N4, VP_N5, VP_N6};

static ldb_filemeta_t fm0, fm1, fm2, fm3, fm4, fm5, fm6, fm7, fm8, fm9;
static ldb_filemeta_t *const fmp[VP_MAXF] = {&fm0, &fm1, &fm2, &fm3, &fm4, &fm5, &fm6, &fm7, &fm8, &fm9};
static uint8_t ks0[9], ks1[9], ks2[9], ks3[9], ks4[9], ks5[9], ks6[9], ks7[9], ks8[9], ks9[9];
static uint8_t kl0[9], kl1[9], kl2[9], kl3[9], kl4[9], kl5[9], kl6[9], kl7[9], kl8[9], kl9[9];
static uint8_t *const ksp[VP_MAXF] = {ks0, ks1, ks2, ks3, ks4, ks5, ks6, ks7, ks8, ks9};
static uint8_t *const klp[VP_MAXF] = {kl0, kl1, kl2, kl3, kl4, kl5, kl6, kl7, kl8, kl9};

/* shadow of the bounds (the reference side works on these) */
static uint8_t f_su[VP_MAXF], f_lu[VP_MAXF];       /* user key of smallest / largest */
static uint64_t f_st[VP_MAXF], f_lt[VP_MAXF];      /* tag (seq << 8 | type) of smallest / largest */
static uint64_t f_size[VP_MAXF];
static int f_level[VP_MAXF];

static ldb_versions_t vset;
static ldb_version_t ver;
static ldb_dbopt_t dbopt;
/* one pointer array per level (CBMC's value sets are per array object: with one
   shared 2-D array every f-> dereference considers every file of the version) */
static void *lvl_items0[VP_N0 + 1], *lvl_items1[VP_N1 + 1], *lvl_items2[VP_N2 + 1], *lvl_items3[VP_N3 + 1],
            *lvl_items4[VP_N4 + 1], *lvl_items5[VP_N5 + 1], *lvl_items6[VP_N6 + 1];
static void **const lvl_items[LDB_NUM_LEVELS] = {lvl_items0, lvl_items1, lvl_items2, lvl_items3, lvl_items4, lvl_items5, lvl_items6};

/* internal-key order on (user key, tag): user key ascending, tag descending */
static int
ik_cmp(uint8_t u1, uint64_t t1, uint8_t u2, uint64_t t2) {
  if (u1 != u2) return u1 < u2 ? -1 : 1;
  if (t1 != t2) return t1 > t2 ? -1 : 1;
  return 0;
}

#ifndef VP_KEYMAX
#define VP_KEYMAX 15    /* user keys 0..VP_KEYMAX (1 byte): the code only compares them; 16 values realise every order pattern of <= 7 files + a range (measured: full 0..255 costs 10x solver time) */
#endif

static uint8_t
vp_key(void) {
  uint8_t k = vp_u8();
#if VP_KEYMAX < 255
  VP_ASSUME(k <= VP_KEYMAX);
#endif
  return k;
}

static uint64_t
vp_tag(void) {
  uint64_t seq = vp_u64();
  int type = vp_bool();
  VP_ASSUME(seq <= VP_SEQMAX);
  return (seq << 8) | (uint64_t)type;
}

static int
vp_level_of(int f) {
  int lvl, base = 0;
  for (lvl = 0; lvl < LDB_NUM_LEVELS; lvl++) {
    if (f < base + vp_ncount[lvl]) return lvl;
    base += vp_ncount[lvl];
  }
  return -1;
}

/* index of the first file of a level */
static int
vp_first_of(int level) {
  int lvl, base = 0;
  for (lvl = 0; lvl < level; lvl++) base += vp_ncount[lvl];
  return base;
}

#ifdef VP_UKEYS
static const uint8_t vp_ukeys[2 * VP_MAXF] = {VP_UKEYS};
#endif

static void
vp_build_version(void) {
  int f, lvl;

  for (f = 0; f < VP_F; f++) {
    f_level[f] = vp_level_of(f);   /* concrete */
#ifdef VP_UKEYS
    /* scenario obligations: user keys of the bounds are CONCRETE (smallest, largest per file, in file order);
       sequences, types and sizes stay symbolic */
    f_su[f] = vp_ukeys[2 * f];
    f_lu[f] = vp_ukeys[2 * f + 1];
    f_st[f] = vp_tag();
    f_lt[f] = vp_tag();
#else
    f_su[f] = vp_key();
    f_st[f] = vp_tag();
    f_lu[f] = vp_key();
    f_lt[f] = vp_tag();
#endif
    f_size[f] = vp_u64();
    VP_ASSUME(f_size[f] <= VP_SIZEMAX);
    VP_ASSUME(ik_cmp(f_su[f], f_st[f], f_lu[f], f_lt[f]) <= 0);
    if (f > 0 && f_level[f] >= 1 && f_level[f - 1] == f_level[f])
      VP_ASSUME(ik_cmp(f_lu[f - 1], f_lt[f - 1], f_su[f], f_st[f]) < 0);

    fmp[f]->refs = 1;
    fmp[f]->allowed_seeks = 100;
    fmp[f]->number = 10 + (uint64_t)f;
    fmp[f]->file_size = f_size[f];
    ksp[f][0] = f_su[f];
    ldb_fixed64_write(ksp[f] + 1, f_st[f]);
    klp[f][0] = f_lu[f];
    ldb_fixed64_write(klp[f] + 1, f_lt[f]);
    fmp[f]->smallest.data = ksp[f];
    fmp[f]->smallest.size = 9;
    fmp[f]->smallest.alloc = 0;
    fmp[f]->largest.data = klp[f];
    fmp[f]->largest.size = 9;
    fmp[f]->largest.alloc = 0;
  }

  dbopt = *ldb_dbopt_default;
  dbopt.comparator = ldb_bytewise_comparator;
  dbopt.max_file_size = VP_MFS;
  dbopt.info_log = NULL;
  vset.options = &dbopt;
  vset.dbname = "db";
  ldb_ikc_init(&vset.icmp, ldb_bytewise_comparator);
  vset.current = &ver;
  ver.vset = &vset;
  ver.next = ver.prev = &ver;
  ver.refs = 1;
  ver.file_to_compact = NULL;
  ver.file_to_compact_level = -1;
  ver.compaction_score = -1;
  ver.compaction_level = -1;
  for (lvl = 0; lvl < LDB_NUM_LEVELS; lvl++) {
    ver.files[lvl].items = lvl_items[lvl];
    ver.files[lvl].length = 0;
    ver.files[lvl].alloc = (size_t)vp_ncount[lvl] + 1;
  }
  for (f = 0; f < VP_F; f++) {
    lvl = f_level[f];               /* concrete */
    lvl_items[lvl][ver.files[lvl].length++] = fmp[f];
  }
}

/* index of a file object (concrete scan), -1 if p is none of them */
static int
vp_file_index(const void *p) {
  int f, r = -1;
  for (f = 0; f < VP_F; f++)
    if (p == (const void *)fmp[f]) r = f;
  return r;
}

/* user-key range overlap of file f with [a,b]; has_a/has_b == 0 means open end */
static int
vp_file_overlaps(int f, int has_a, uint8_t a, int has_b, uint8_t b) {
  if (has_a && a > f_lu[f]) return 0;
  if (has_b && b < f_su[f]) return 0;
  return 1;
}

void ldb_log(ldb_logger_t *logger, const char *fmt, ...) { (void)logger; (void)fmt; }

#endif
