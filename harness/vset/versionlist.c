/* vset/versionlist.c -- C13.b: the REAL version-list surgery of
 * src/version_set.c (#included): ldb_versions_append_version,
 * ldb_version_ref / ldb_version_unref (-> ldb_version_destroy ->
 * ldb_version_clear: unlink + unref every file) and ldb_versions_add_files,
 * from an ARBITRARY well-formed circular list of VP_K versions (heap objects
 * made by the real ldb_version_create) holding VP_FV files each, every file
 * at a SYMBOLIC LEVEL 0..6 (all seven levels, the deepest included), files
 * may be shared between versions (that is what a version list is for).
 *
 * VP_OP 0: ldb_versions_add_files: live == exactly the numbers of the files
 *          of every version in the list, whatever their level.
 * VP_OP 1: ldb_version_unref of a symbolic list member: refs > 1: only the
 *          count drops; refs == 1: exactly that version leaves the list
 *          (neighbours re-linked, order of the others kept) and each of its
 *          files is unref'd exactly once, no other file is touched; then
 *          add_files == files of the versions still in the list.
 *          ldb_version_ref: count + 1, nothing else.
 * VP_OP 2: ldb_versions_append_version of a fresh version: it becomes
 *          current with one reference at the tail of the list; the previous
 *          current loses one reference (and leaves the list with its files
 *          unref'd iff that was the last one); then add_files == files of
 *          the versions in the list.
 *
 * Below the unit: ldb_filemeta_ref/unref (version_edit.c) and rb_set64_put
 * (rbt.c) are recorders; allocator kit/vp_d5_alloc.c.
 */
#include "vp.h"
#include "vp_vector_inc.h"
#include "version_set.c"

#ifndef VP_K
#define VP_K 2          /* versions in the list before the operation */
#endif
#ifndef VP_FV
#define VP_FV 2         /* files per version */
#endif
#ifndef VP_NF
#define VP_NF 3         /* distinct file objects */
#endif
#ifndef VP_OP
#define VP_OP 0
#endif
#define VP_NUMMAX 15    /* live-set recorder domain 1..15; file g has number 3 + 2g */
#define VP_KMAX 4

void ldb_log(ldb_logger_t *logger, const char *fmt, ...) { (void)logger; (void)fmt; }

static ldb_filemeta_t fm0, fm1, fm2, fm3, fm4, fm5;
static ldb_filemeta_t *const fmp[6] = {&fm0, &fm1, &fm2, &fm3, &fm4, &fm5};
static int f_refs0[6];      /* reference counts before the operation */
static int f_unrefs[6];     /* ldb_filemeta_unref calls seen */
static int f_refcalls[6];   /* ldb_filemeta_ref calls seen */

static ldb_versions_t vset;
static ldb_dbopt_t dbopt;
static ldb_version_t *vp[VP_KMAX];      /* list members in list order (vp[VP_K] = the appended one) */
static int v_file[VP_KMAX][VP_FV + 1];  /* file object held in slot s of version k */
static int v_lvl[VP_KMAX][VP_FV + 1];   /* its level */
static int v_refs0[VP_KMAX];

static uint32_t live_mask;   /* bit n: number n was put into the live set */
static int live_bad = 0;

/* ---- recorders below the unit ---- */
void
ldb_filemeta_ref(ldb_filemeta_t *z) {
  int k;
  for (k = 0; k < VP_NF; k++)
    if (z == fmp[k]) f_refcalls[k]++;
  z->refs++;
}

void
ldb_filemeta_unref(ldb_filemeta_t *z) {
  int k, hit = 0;
  for (k = 0; k < VP_NF; k++)
    if (z == fmp[k]) { f_unrefs[k]++; hit = 1; }
  VP_ASSERT(hit, "ldb_filemeta_unref on a file of the version set");
  VP_ASSERT(z->refs > 0, "ldb_filemeta_unref on a file with a positive count");
  z->refs--;
}

int
rb_set64_put(rb_tree_t *tree, uint64_t item) {
  (void)tree;
  if (item < 1 || item > VP_NUMMAX)
    live_bad = 1;
  else
    live_mask |= (uint32_t)1 << (unsigned)item;
  return 1;
}

/* ---- helpers ---- */
static void
fill_version(int k) {
  int s, l, g, t;
  ldb_filemeta_t *f;
  /* every level vector gets its (concrete) capacity up front, so that the
     symbolic placement below is a plain store and never a reallocation */
  for (l = 0; l < LDB_NUM_LEVELS; l++)
    ldb_vector_grow(&vp[k]->files[l], VP_FV + 1);
  for (s = 0; s < VP_FV; s++) {
    v_file[k][s] = vp_int();
    VP_ASSUME(v_file[k][s] >= 0 && v_file[k][s] < VP_NF);
    for (t = 0; t < s; t++)
      VP_ASSUME(v_file[k][t] != v_file[k][s]);   /* a file appears once per version */
    v_lvl[k][s] = vp_int();
    VP_ASSUME(v_lvl[k][s] >= 0 && v_lvl[k][s] < LDB_NUM_LEVELS);
    f = fmp[0];
    for (g = 1; g < VP_NF; g++)
      if (g == v_file[k][s]) f = fmp[g];
    for (l = 0; l < LDB_NUM_LEVELS; l++)
      if (l == v_lvl[k][s])
        ldb_vector_push(&vp[k]->files[l], f);
  }
}

/* does version k hold file object g */
static int
holds(int k, int g) {
  int s, r = 0;
  for (s = 0; s < VP_FV; s++)
    if (v_file[k][s] == g) r = 1;
  return r;
}

/* the list is exactly dummy <-> exp[0] <-> ... <-> exp[n-1] <-> dummy */
static void
check_list(ldb_version_t **exp, const int *present, int total) {
  ldb_version_t *d = &vset.dummy_versions;
  ldb_version_t *p = d;
  int k;
  for (k = 0; k < total; k++) {
    if (!present[k]) continue;
    VP_ASSERT(p->next == exp[k], "list order: next of the predecessor is the next surviving version");
    VP_ASSERT(exp[k]->prev == p, "list is doubly linked: prev mirrors next");
    p = exp[k];
  }
  VP_ASSERT(p->next == d, "list is circular through the dummy head");
  VP_ASSERT(d->prev == p, "dummy.prev is the last version");
}

static void
check_live(const int *present, int total) {
  int n, k, g, want;
  rb_set64_t set;
  live_mask = 0;
  ldb_versions_add_files(&vset, &set);
  VP_ASSERT(!live_bad, "only file numbers of the version set are reported");
  for (n = 1; n <= VP_NUMMAX; n++) {
    want = 0;
    for (k = 0; k < total; k++)
      for (g = 0; g < VP_NF; g++)
        if (present[k] && holds(k, g) && fmp[g]->number == (uint64_t)n) want = 1;
    VP_ASSERT((int)((live_mask >> n) & 1) == want, "live set == exactly the files of every version still in the list (any level)");
  }
}

void
harness(void) {
  int k, g, s, present[VP_KMAX], total = VP_K;
  ldb_version_t *d = &vset.dummy_versions;

  dbopt.comparator = ldb_bytewise_comparator;
  vset.options = &dbopt;
  ldb_ikc_init(&vset.icmp, ldb_bytewise_comparator);
  ldb_version_init(d, &vset);
  vset.current = NULL;

  for (g = 0; g < VP_NF; g++) {
    /* file numbers are only handed on by the unit (never compared): concrete and distinct */
    fmp[g]->number = 3 + 2 * (uint64_t)g;
    fmp[g]->file_size = 1;
    fmp[g]->allowed_seeks = 100;
  }

  /* ---- an arbitrary well-formed list of VP_K versions ---- */
  for (k = 0; k < VP_K; k++) {
    vp[k] = ldb_version_create(&vset);   /* real: heap object, empty level vectors */
    fill_version(k);
    v_refs0[k] = vp_int();
    VP_ASSUME(v_refs0[k] >= 1 && v_refs0[k] <= 3);
    vp[k]->refs = v_refs0[k];
    vp[k]->prev = k == 0 ? d : vp[k - 1];
    vp[k]->prev->next = vp[k];
    vp[k]->next = d;
    d->prev = vp[k];
    present[k] = 1;
  }
  if (VP_K > 0)
    vset.current = vp[VP_K - 1];   /* == dummy_versions.prev */
  present[VP_K] = 0;

  /* file counts: one per holding version plus possibly one held elsewhere (a compaction's edit) */
  for (g = 0; g < VP_NF; g++) {
    int extra = vp_bool(), c = 0;
    for (k = 0; k < VP_K; k++) c += holds(k, g);
    f_refs0[g] = c + extra;
    fmp[g]->refs = f_refs0[g];
  }

#if VP_OP == 0
  check_live(present, total);
#if VP_K >= 1 && VP_FV >= 1
  if (v_lvl[0][VP_FV - 1] == LDB_NUM_LEVELS - 1) VP_WITNESS("file-in-deepest-level-of-oldest-version");
  if (v_lvl[VP_K - 1][0] == 0) VP_WITNESS("file-in-level-0-of-current");
#endif
#if VP_K >= 2 && VP_FV >= 1
  if (v_file[0][0] == v_file[1][0] && v_lvl[0][0] != v_lvl[1][0]) VP_WITNESS("file-shared-by-two-versions");
  if (!holds(1, v_file[0][0])) VP_WITNESS("file-only-in-old-version");
#endif
  VP_WITNESS("done");
#elif VP_OP == 1
  {
    int j = vp_int(), do_ref = vp_bool(), dies;
    VP_ASSUME(j >= 0 && j < VP_K);
    /* the current version always keeps the version set's own reference */
    VP_ASSUME(j != VP_K - 1 || v_refs0[j] >= 2);
    dies = !do_ref && v_refs0[j] == 1;
    for (k = 0; k < VP_K; k++)
      if (k == j) {
        if (do_ref)
          ldb_version_ref(vp[k]);
        else
          ldb_version_unref(vp[k]);
      }
    for (k = 0; k < VP_K; k++) {
      if (k == j && dies) { present[k] = 0; continue; }
      VP_ASSERT(vp[k]->refs == v_refs0[k] + (k == j ? (do_ref ? 1 : -1) : 0), "only the count of the (un)referenced version changes, by one");
    }
    check_list(vp, present, total);
    VP_ASSERT(vset.current == vp[VP_K - 1], "current is untouched by ref/unref of list members");
    for (g = 0; g < VP_NF; g++) {
      int want = dies && holds(j, g);
      VP_ASSERT(f_unrefs[g] == want, "a dying version unrefs each of its files exactly once and no other file");
      VP_ASSERT(f_refcalls[g] == 0, "no file gains a reference");
      VP_ASSERT(fmp[g]->refs == f_refs0[g] - want, "file counts: minus one for the files of the dying version only");
    }
    check_live(present, total);
#if VP_K >= 2
    if (dies && j == 0) VP_WITNESS("oldest-version-dies");
#endif
#if VP_K >= 3
    if (dies && j == 1) VP_WITNESS("middle-version-dies");
#endif
    if (!dies && !do_ref) VP_WITNESS("unref-keeps-version");
    if (do_ref) VP_WITNESS("ref");
  }
#elif VP_OP == 2
  {
    int dies = VP_K > 0 && v_refs0[VP_K > 0 ? VP_K - 1 : 0] == 1;
    vp[VP_K] = ldb_version_create(&vset);
    fill_version(VP_K);
    for (g = 0; g < VP_NF; g++) {          /* builder_save_to took one reference per file */
      if (holds(VP_K, g)) { fmp[g]->refs++; f_refs0[g]++; }
    }
    total = VP_K + 1;
    present[VP_K] = 1;
    ldb_versions_append_version(&vset, vp[VP_K]);
    if (dies) present[VP_K - 1] = 0;
    VP_ASSERT(vset.current == vp[VP_K], "the appended version is current");
    VP_ASSERT(vp[VP_K]->refs == 1, "the appended version holds exactly the version set's reference");
    for (k = 0; k < VP_K; k++)
      if (present[k])
        VP_ASSERT(vp[k]->refs == v_refs0[k] - (k == VP_K - 1 ? 1 : 0), "the previous current loses one reference, other versions none");
    check_list(vp, present, total);
    for (g = 0; g < VP_NF; g++) {
      int want = dies && holds(VP_K - (VP_K > 0), g);
      VP_ASSERT(f_unrefs[g] == want, "files of a dropped previous current are unref'd exactly once, no other file");
      VP_ASSERT(fmp[g]->refs == f_refs0[g] - want, "file counts after append");
    }
    check_live(present, total);
#if VP_K >= 1
    if (dies) VP_WITNESS("previous-current-dropped");
    if (!dies) VP_WITNESS("previous-current-kept-by-reader");
#else
    VP_WITNESS("first-version");
#endif
  }
#endif
}
