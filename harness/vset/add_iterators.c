/* C07 (complete view) -- the REAL ldb_version_add_iterators and
 * ldb_concatiter_create (src/version_set.c, #included): the children handed
 * to the merging iterator cover EVERY file of the version: one table iterator
 * per level-0 file and one concatenating (two-level) iterator over the file
 * list of every non-empty level 1 .. LDB_NUM_LEVELS-1, in that order.  A level
 * left out would make iterators silently disagree with point lookups.
 *
 * VP_L0 level-0 files; one further file sits on level VP_DEEP (1..6, one query per level).
 */
#include "vp.h"
#include "vp_vector_inc.h"
#include "version_set.c"

#ifndef VP_L0
#define VP_L0 2
#endif
#ifndef VP_DEEP
#define VP_DEEP 6   /* the level (1..6) that holds the deeper file: concrete per query */
#endif

static ldb_filemeta_t f0, f1, f2, fdeep;
static ldb_filemeta_t *const l0p[3] = {&f0, &f1, &f2};
static ldb_iter_t it_tab[3], it_two;
static int tab_calls = 0, num_calls = 0, two_calls = 0;
static const ldb_vector_t *num_files = 0;
static ldb_iter_t *two_index = 0;
static struct ldb_tables_s { int d; } the_cache;

ldb_iter_t *
ldb_tables_iterate(ldb_tables_t *cache, const ldb_readopt_t *options, uint64_t number, uint64_t size, ldb_table_t **tableptr) {
  int i, k = tab_calls;
  (void)options; (void)tableptr;
  VP_ASSERT(cache == (ldb_tables_t *)&the_cache, "table cache of the version set");
  for (i = 0; i < 3; i++)
    if (i == k)
      VP_ASSERT(number == l0p[i]->number && size == l0p[i]->file_size, "level-0 table iterators in file-list order, with number and size");
  tab_calls++;
  return &it_tab[k < 3 ? k : 0];
}

ldb_iter_t *
ldb_twoiter_create(ldb_iter_t *index_iter, ldb_blockfunc_f block_function, void *block_function_arg, const ldb_readopt_t *options) {
  (void)options; (void)block_function;
  two_calls++;
  two_index = index_iter;
  VP_ASSERT(index_iter != NULL && index_iter->ptr != NULL, "two-level iterator gets an index iterator");
  num_files = ((ldb_numiter_t *)index_iter->ptr)->flist;   /* the real file-list iterator */
  num_calls++;
  VP_ASSERT(block_function_arg == (void *)&the_cache, "file iterators opened through the table cache");
  return &it_two;
}

void
harness(void) {
  static ldb_versions_t vset;
  static ldb_version_t ver;
  static void *lvl0[4], *lvld[2];
  ldb_vector_t iters;
  ldb_readopt_t ro;
  int deep, lvl, i;

  vset.table_cache = (ldb_tables_t *)&the_cache;
  ver.vset = &vset;
  for (lvl = 0; lvl < LDB_NUM_LEVELS; lvl++) {
    ver.files[lvl].items = NULL;
    ver.files[lvl].length = 0;
    ver.files[lvl].alloc = 0;
  }
  for (i = 0; i < VP_L0; i++) {
    l0p[i]->number = vp_u64();
    l0p[i]->file_size = vp_u64();
    lvl0[i] = l0p[i];
  }
  ver.files[0].items = lvl0;
  ver.files[0].length = VP_L0;
  ver.files[0].alloc = 4;
  deep = VP_DEEP;
  lvld[0] = &fdeep;
  for (lvl = 1; lvl < LDB_NUM_LEVELS; lvl++)
    if (lvl == deep) {
      ver.files[lvl].items = lvld;
      ver.files[lvl].length = 1;
      ver.files[lvl].alloc = 2;
    }
  ro = *ldb_readopt_default;
  ldb_vector_init(&iters);

  ldb_version_add_iterators(&ver, &ro, &iters);

  VP_ASSERT(tab_calls == VP_L0, "one table iterator per level-0 file");
  VP_ASSERT(iters.length == (size_t)VP_L0 + 1, "children = level-0 files + one iterator per non-empty deeper level (whatever that level is)");
  VP_ASSERT(num_calls == 1 && two_calls == 1 && two_index != NULL, "the deeper level is walked by a two-level iterator over its file list");
  for (lvl = 1; lvl < LDB_NUM_LEVELS; lvl++)
    if (lvl == deep)
      VP_ASSERT(num_files == &ver.files[lvl], "file-list iterator over exactly the populated level");
  for (i = 0; i < VP_L0 && (size_t)i < iters.length; i++)
    VP_ASSERT(iters.items[i] == &it_tab[i], "level-0 children first, in order");
  if (iters.length == (size_t)VP_L0 + 1)
    VP_ASSERT(iters.items[VP_L0] == &it_two, "then the deeper level's iterator");
#if VP_DEEP == 6
  VP_WITNESS("deepest-level-covered");
#endif
  VP_WITNESS("children-built");
}
