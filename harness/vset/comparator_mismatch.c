/* vset/comparator_mismatch.c -- the REAL ldb_versions_recover()
 * (src/version_set.c #included, with read_current_filename, builder_*,
 * ldb_versions_finalize/append_version/reuse_manifest) and the REAL
 * ldb_edit_import() (version_edit.c) on MANIFEST records whose comparator
 * name is symbolic (property C20 "opening with a comparator other than the
 * one the database was created with is refused without modifying it",
 * DESIGN 6 C20.d).
 *
 * Pre-state: a freshly created version set (the real ldb_versions_create, as
 * ldb_open does) whose user comparator has a symbolic name of VP_CN bytes.
 * MANIFEST: VP_RECS records (1 or 2) handed out by the ldb_reader_read_record
 * stub (the real log reader is decided by C15); every record is a
 * standard-format version edit built here byte by byte:
 *     [01 len name]  comparator, VP_EN symbolic bytes   (record k iff VP_CMP bit k)
 *     [02 log] [09 prev] [03 next-file] [04 last-sequence]   one-byte varints
 * CURRENT read and MANIFEST open may fail; reuse_logs symbolic.
 *
 * Asserted:
 *   - reference "names equal" == same length and same bytes (written here);
 *   - some record carries a different name  =>  LDB_INVALID, and up to that
 *     return NO ldb_remove_file / ldb_rename_file / ldb_truncfile_create /
 *     ldb_appendfile_create / ldb_write_file / ldb_set_current_file / writer
 *     or wfile call has been issued (monitors), the version set is exactly as
 *     it was (same current version, counters, no descriptor file), *save_manifest
 *     untouched, the MANIFEST reader is closed once;
 *   - replay stops at the offending record (at most one further record is
 *     fetched by the loop condition, none is applied);
 *   - all names equal  =>  LDB_OK, the recovered counters are installed, a new
 *     current version is installed, save_manifest unless the MANIFEST is
 *     reused (only then is it opened for append);
 *   - CURRENT unreadable / MANIFEST missing => error (ENOENT => CORRUPTION),
 *     nothing modified.
 */
#include "vp.h"
#include "vp_vector_inc.h"   /* real util/vector.c with typed pointer arrays */
#include "version_set.c"

#ifndef VP_RECS
#define VP_RECS 1
#endif
#ifndef VP_CMP
#define VP_CMP 1        /* bit k: record k carries a comparator name */
#endif
#ifndef VP_CN
#define VP_CN 3         /* length of the database handle's comparator name */
#endif
#ifndef VP_EN
#define VP_EN 3         /* length of the name stored in the MANIFEST */
#endif

#define VP_RECCAP (2 + VP_EN + 8)
#define VP_CAN_REFUSE ((VP_CMP & ((1 << VP_RECS) - 1)) != 0)
#define VP_CAN_ACCEPT (!VP_CAN_REFUSE || VP_EN == VP_CN)

struct ldb_rfile_s { int open; int destroyed; };
struct ldb_wfile_s { int x; };

/* ---- world ------------------------------------------------------------------ */
static char cmp_name[VP_CN + 1];
static ldb_comparator_t user_cmp, icmp;
static ldb_dbopt_t dbopt;
static ldb_versions_t *vset;
static struct ldb_rfile_s the_rfile;
static struct ldb_wfile_s the_wfile;
static ldb_writer_t the_writer;

static uint8_t rec_bytes[2][VP_RECCAP];
static size_t rec_len[2];
static uint8_t rec_name[2][VP_EN + 1];
static int rec_has_cmp[2];
static int read_current_rc, open_manifest_rc, file_size_rc, append_rc;
static uint64_t manifest_size;

/* ---- recorders ---------------------------------------------------------------- */
static int g_mut = 0;             /* calls that modify the database directory */
static int g_reads = 0;           /* records handed out */
static int g_read_calls = 0;
static int g_rfile_opened = 0, g_rfile_destroyed = 0;
static int g_reader_init = 0, g_reader_clear = 0;
static int g_appendfile = 0;
static int g_current_read = 0;

static int
vp_err(void) {
  int e = vp_int();
  VP_ASSUME(e != LDB_OK);
  return e;
}

/* ---- stubs below version_set.c ---------------------------------------------------- */
void ldb_log(ldb_logger_t *logger, const char *fmt, ...) { (void)logger; (void)fmt; }
const char *ldb_strerror(int code) { (void)code; return "e"; }

static int
user_compare(const ldb_comparator_t *c, const ldb_slice_t *x, const ldb_slice_t *y) {
  (void)c; (void)x; (void)y;
  VP_ASSERT(0, "no key is compared while the MANIFEST is replayed");
  return 0;
}

int
ldb_current_filename(char *buf, size_t size, const char *dbname) {
  VP_ASSERT(size >= 4 && dbname[0] == 'd' && dbname[1] == 0, "CURRENT of the database directory");
  buf[0] = 'd'; buf[1] = '/'; buf[2] = 'C'; buf[3] = 0;
  return 1;
}

int
ldb_read_file(const char *fname, ldb_buffer_t *data) {
  static const uint8_t content[3] = {'M', '5', '\n'};
  VP_ASSERT(fname[0] == 'd' && fname[2] == 'C', "CURRENT is read");
  g_current_read++;
  if (read_current_rc != LDB_OK)
    return read_current_rc;
  ldb_buffer_append(data, content, 3);
  return LDB_OK;
}

int
ldb_seqfile_create(const char *filename, ldb_rfile_t **file) {
  VP_ASSERT(filename[0] == 'd' && filename[1] == '/' && filename[2] == 'M' && filename[3] == '5' && filename[4] == 0,
            "the MANIFEST CURRENT names is opened");
  VP_ASSERT(g_rfile_opened == 0, "MANIFEST opened once");
  if (open_manifest_rc != LDB_OK)
    return open_manifest_rc;
  g_rfile_opened++;
  the_rfile.open = 1;
  *file = &the_rfile;
  return LDB_OK;
}

void
ldb_rfile_destroy(ldb_rfile_t *file) {
  VP_ASSERT(file == &the_rfile && the_rfile.open, "the MANIFEST reader that was opened is closed");
  the_rfile.open = 0;
  g_rfile_destroyed++;
}

void
ldb_reader_init(ldb_reader_t *lr, struct ldb_rfile_s *file, ldb_reporter_t *reporter, int checksum, uint64_t initial_offset) {
  (void)lr; (void)reporter;
  VP_ASSERT(file == &the_rfile && checksum == 1 && initial_offset == 0, "MANIFEST read from the start with checksums verified");
  g_reader_init++;
}

void
ldb_reader_clear(ldb_reader_t *lr) {
  (void)lr;
  g_reader_clear++;
}

int
ldb_reader_read_record(ldb_reader_t *lr, ldb_slice_t *record, ldb_buffer_t *scratch) {
  (void)lr; (void)scratch;
  g_read_calls++;
  if (g_reads >= VP_RECS)
    return 0;
  record->data = rec_bytes[g_reads];
  record->size = rec_len[g_reads];
  g_reads++;
  return 1;
}

/* reuse_manifest */
int
ldb_parse_filename(ldb_filetype_t *type, uint64_t *num, const char *name) {
  VP_ASSERT(name[0] == 'M' && name[1] == '5' && name[2] == 0, "base name of the MANIFEST");
  *type = LDB_FILE_DESC;
  *num = 5;
  return 1;
}

int
ldb_file_size(const char *filename, uint64_t *size) {
  (void)filename;
  if (file_size_rc != LDB_OK)
    return file_size_rc;
  *size = manifest_size;
  return LDB_OK;
}

ldb_writer_t *
ldb_writer_create(ldb_wfile_t *file, uint64_t length) {
  VP_ASSERT(file == &the_wfile && length == manifest_size, "MANIFEST writer continues at the end of the reused file");
  return &the_writer;
}

/* ---- monitors: anything that modifies the database directory ------------------------------ */
int
ldb_appendfile_create(const char *filename, ldb_wfile_t **file) {
  (void)filename;
  g_mut++;
  g_appendfile++;
  if (append_rc != LDB_OK)
    return append_rc;
  *file = &the_wfile;
  return LDB_OK;
}

int ldb_remove_file(const char *filename) { (void)filename; g_mut++; return LDB_OK; }
int ldb_rename_file(const char *from, const char *to) { (void)from; (void)to; g_mut++; return LDB_OK; }
int ldb_truncfile_create(const char *filename, ldb_wfile_t **file) { (void)filename; (void)file; g_mut++; return LDB_IOERR; }
int ldb_write_file(const char *fname, const ldb_slice_t *data, int should_sync) { (void)fname; (void)data; (void)should_sync; g_mut++; return LDB_OK; }
int ldb_set_current_file(const char *dbname, uint64_t desc_number) { (void)dbname; (void)desc_number; g_mut++; return LDB_OK; }
int ldb_writer_add_record(ldb_writer_t *lw, const ldb_slice_t *slice) { (void)lw; (void)slice; g_mut++; return LDB_OK; }
int ldb_wfile_append(ldb_wfile_t *file, const ldb_slice_t *data) { (void)file; (void)data; g_mut++; return LDB_OK; }
int ldb_wfile_sync(ldb_wfile_t *file) { (void)file; g_mut++; return LDB_OK; }
int ldb_wfile_close(ldb_wfile_t *file) { (void)file; g_mut++; return LDB_OK; }
int ldb_sync_dir(const char *dirname) { (void)dirname; g_mut++; return LDB_OK; }
int ldb_create_dir(const char *dirname) { (void)dirname; g_mut++; return LDB_OK; }
int ldb_remove_dir(const char *dirname) { (void)dirname; g_mut++; return LDB_OK; }

/* ---- set-up -------------------------------------------------------------------- */
/* standard MANIFEST record (LevelDB version-edit format), written from the
   format description: tag varint, then the field */
static void
build_record(int k, int with_cmp, uint8_t log, uint8_t prev, uint8_t next, uint8_t seq) {
  size_t n = 0;
  int i;
  uint8_t *p = rec_bytes[k];
  if (with_cmp) {
    p[n++] = 1;                       /* kComparator */
    p[n++] = (uint8_t)VP_EN;          /* length-prefixed name */
    for (i = 0; i < VP_EN; i++)
      p[n++] = rec_name[k][i];
  }
  p[n++] = 2; p[n++] = log;           /* kLogNumber */
  p[n++] = 9; p[n++] = prev;          /* kPrevLogNumber */
  p[n++] = 3; p[n++] = next;          /* kNextFileNumber */
  p[n++] = 4; p[n++] = seq;           /* kLastSequence */
  rec_len[k] = n;
  rec_has_cmp[k] = with_cmp;
}

/* independent reference: the stored name is the handle's comparator name */
static int
ref_same_name(int k) {
  int i;
#if VP_EN != VP_CN
  (void)k; (void)i;
  return 0;
#else
  for (i = 0; i < VP_EN; i++)
    if (rec_name[k][i] != (uint8_t)cmp_name[i])
      return 0;
  return 1;
#endif
}

void
harness(void) {
  int i, k, rc, save_manifest = 0, bad = -1;
  ldb_version_t *cur0;

  for (i = 0; i < VP_CN; i++) {
    cmp_name[i] = (char)vp_u8();
    VP_ASSUME(cmp_name[i] != 0);
  }
  cmp_name[VP_CN] = 0;
  for (k = 0; k < 2; k++)
    for (i = 0; i < VP_EN; i++)
      rec_name[k][i] = vp_u8();
  build_record(0, (VP_CMP & 1) != 0, 3, 0, 7, 9);
  build_record(1, (VP_CMP & 2) != 0, 4, 3, 8, 11);

  read_current_rc = vp_bool() ? LDB_OK : vp_err();
  open_manifest_rc = vp_bool() ? LDB_OK : vp_err();
  file_size_rc = vp_bool() ? LDB_OK : vp_err();
  append_rc = vp_bool() ? LDB_OK : vp_err();
  manifest_size = vp_u64();

  user_cmp.name = cmp_name;
  user_cmp.compare = user_compare;
  user_cmp.shortest_separator = NULL;
  user_cmp.short_successor = NULL;
  user_cmp.user_comparator = NULL;
  user_cmp.state = NULL;
  ldb_ikc_init(&icmp, &user_cmp);
  dbopt = *ldb_dbopt_default;
  dbopt.comparator = &user_cmp;
  dbopt.info_log = NULL;
  dbopt.reuse_logs = vp_bool();

  vset = ldb_versions_create("d", &dbopt, NULL, &icmp);   /* as ldb_open does */
  cur0 = vset->current;

  /* ---- the real code ---- */
  rc = ldb_versions_recover(vset, &save_manifest);

  /* ---- post-conditions ---- */
  VP_ASSERT(g_current_read == 1, "CURRENT read once");
  if (read_current_rc != LDB_OK || open_manifest_rc != LDB_OK) {
    if (read_current_rc != LDB_OK)
      VP_ASSERT(rc == read_current_rc, "unreadable CURRENT: error returned");
    else
      VP_ASSERT(rc == (open_manifest_rc == LDB_ENOENT ? LDB_CORRUPTION : open_manifest_rc), "MANIFEST cannot be opened: error (missing => CORRUPTION)");
    VP_ASSERT(g_mut == 0 && vset->current == cur0 && save_manifest == 0 && g_reads == 0, "nothing read, nothing modified");
    VP_WITNESS("manifest-unreadable");
    return;
  }

  VP_ASSERT(g_rfile_opened == 1 && g_rfile_destroyed == 1, "MANIFEST reader closed exactly once on every path");
  VP_ASSERT(g_reader_init == 1 && g_reader_clear == 1, "log reader released");

  for (k = VP_RECS - 1; k >= 0; k--)
    if (rec_has_cmp[k] && !ref_same_name(k))
      bad = k;     /* first record with a foreign comparator name */

#if VP_CAN_REFUSE
  if (bad >= 0) {
    VP_ASSERT(rc == LDB_INVALID, "C20.d a MANIFEST written under another comparator name is refused with LDB_INVALID");
    VP_ASSERT(g_mut == 0, "C20.d refused without modifying the database: no remove/rename/truncate/append/write/CURRENT switch up to the return");
    /* the loop fetches one more record before it looks at the status; it is not applied */
    VP_ASSERT(g_reads >= bad + 1 && g_reads <= bad + 2, "C20.d replay stops at the offending record");
    VP_ASSERT(vset->current == cur0 && cur0->refs == 1, "C20.d no version installed");
    VP_ASSERT(vset->manifest_file_number == 0 && vset->next_file_number == 2 && vset->last_sequence == 0 &&
              vset->log_number == 0 && vset->prev_log_number == 0, "C20.d version-set counters untouched");
    VP_ASSERT(vset->descriptor_file == NULL && vset->descriptor_log == NULL, "C20.d MANIFEST not opened for writing");
    VP_ASSERT(save_manifest == 0, "C20.d no MANIFEST rewrite requested");
#if VP_EN != VP_CN
    VP_WITNESS("refused-different-length");
#else
    VP_WITNESS("refused-same-length-different-bytes");
#endif
#if VP_RECS == 2 && (VP_CMP & 2) && (!(VP_CMP & 1) || VP_EN == VP_CN)
    if (bad == 1)
      VP_WITNESS("refused-at-second-record");
#endif
    return;
  }
#endif

#if VP_CAN_ACCEPT
  /* same comparator (or no name recorded): recovery proceeds */
  VP_ASSERT(bad < 0, "reference");
  VP_ASSERT(rc == LDB_OK, "C20.d same comparator name: recovery proceeds");
  VP_ASSERT(g_reads == VP_RECS && g_read_calls == VP_RECS + 1, "every record replayed");
  VP_ASSERT(vset->current != cur0 && vset->current->refs == 1, "recovered version installed");
  VP_ASSERT(vset->log_number == (VP_RECS == 2 ? 4 : 3) && vset->prev_log_number == (VP_RECS == 2 ? 3 : 0) &&
            vset->last_sequence == (VP_RECS == 2 ? 11 : 9) && vset->next_file_number == (VP_RECS == 2 ? 9 : 8),
            "counters of the last record installed");
  if (g_appendfile) {
    VP_ASSERT(dbopt.reuse_logs && file_size_rc == LDB_OK && g_mut == 1, "MANIFEST opened for append only to reuse it");
    VP_ASSERT((append_rc == LDB_OK) == (save_manifest == 0), "reused MANIFEST <=> no rewrite");
    if (append_rc == LDB_OK) {
      VP_ASSERT(vset->manifest_file_number == 5 && vset->descriptor_file == &the_wfile, "reused MANIFEST keeps its number");
      VP_WITNESS("same-name-manifest-reused");
    }
  } else {
    VP_ASSERT(g_mut == 0 && save_manifest == 1, "fresh MANIFEST requested, nothing written here");
    VP_ASSERT(vset->manifest_file_number == (VP_RECS == 2 ? 8 : 7), "next MANIFEST number from the record");
#if VP_CAN_REFUSE
    VP_WITNESS("same-name-accepted");
#else
    VP_WITNESS("no-name-recorded-accepted");
#endif
  }
#else
  VP_ASSERT(0, "reference: a name of another length is never accepted");
#endif
}
