/* vset/boundary.c -- C01.f / C14.b: compaction input selection of the REAL
 * src/version_set.c (#included): add_boundary_inputs,
 * ldb_versions_setup_other_inputs, ldb_versions_pick_compaction (size and
 * seek triggered), ldb_versions_compact_range, ldb_compaction_is_trivial_move
 * over a symbolic version (vset/ver.h) in which ONE USER KEY MAY STRADDLE
 * adjacent files of a level (file i holds the newer sequences).
 *
 * VP_MODE 0: add_boundary_inputs(level VP_CL files, symbolic contiguous run of them).
 * VP_MODE 1: pick_compaction, size triggered at level VP_CL, compact pointer
 *            empty or a symbolic internal key.
 * VP_MODE 2: pick_compaction, seek triggered: file_to_compact = any file of
 *            level VP_CL.
 * VP_MODE 3: compact_range(level VP_CL, begin/end independently NULL).
 *
 * Asserted after selection (inputs[0] from level L, inputs[1] from L+1):
 *  - inputs are files of their level, no file twice, inputs[0] not empty;
 *  - NEVER NEWER BELOW OLDER (C01.f): no file left behind in L (resp. L+1)
 *    starts with the user key that a selected file of that level ends with,
 *    at a larger internal key (= holds older entries of that user key);
 *    L == 0: no level-0 file left behind meets the user-key range of a
 *    selected one;
 *  - every file of L+1 that meets the user-key hull of inputs[0] is in
 *    inputs[1]; no file left behind in L+1 intersects the internal-key hull of
 *    inputs[0] + inputs[1] (outputs stay inside that hull, so they cannot
 *    overlap survivors: C14.b);
 *  - grandparents == the files of L+2 meeting the user-key hull of all
 *    inputs, in level order;
 *  - ldb_compaction_is_trivial_move <=> one input, nothing in L+1, and
 *    grandparent bytes <= 10 * max_file_size;
 *  - compact_pointer[L] == the largest key of inputs[0] (also in the edit).
 */
#include "vset/ver.h"

#ifndef VP_MODE
#define VP_MODE 1
#endif
#ifndef VP_CL
#define VP_CL 1
#endif
#define VP_CAT(a, b) a##b
#define VP_CAT2(a, b) VP_CAT(a, b)
#define VP_NCL VP_CAT2(VP_N, VP_CL)     /* files in the compaction level */
#ifndef VP_NCL1
#define VP_NCL1 0                       /* files in level VP_CL + 1 (given by the obligation, for witness guards) */
#endif
#ifndef VP_NCL2
#define VP_NCL2 0                       /* files in level VP_CL + 2 */
#endif

/* ---- version_edit.c is below the unit: recorders ---- */
static int edit_cp_calls = 0, edit_cp_level = -1;
static uint8_t edit_cp_key[9];
static size_t edit_cp_len = 0;

void ldb_edit_init(ldb_edit_t *edit) { (void)edit; }
void ldb_edit_clear(ldb_edit_t *edit) { (void)edit; }

void
ldb_edit_set_compact_pointer(ldb_edit_t *edit, int level, const ldb_ikey_t *key) {
  size_t i;
  (void)edit;
  edit_cp_calls++;
  edit_cp_level = level;
  edit_cp_len = key->size;
  for (i = 0; i < 9; i++)
    if (i < key->size) edit_cp_key[i] = key->data[i];
}

static int in0[VP_MAXF], in1[VP_MAXF], ingp[VP_MAXF];

/* membership of the files of `level` in vector v; order = level order if `ordered` */
static void
collect(const ldb_vector_t *v, int *in, int level, int ordered) {
  size_t i;
  int f, k, last = -1;
  int n = vp_ncount[level];
  for (f = 0; f < VP_MAXF; f++) in[f] = 0;
  VP_ASSERT(v->length <= (size_t)n, "no more inputs than files in the level");
  for (i = 0; i < (size_t)n; i++) {
    if (i >= v->length) break;
    k = vp_file_index(v->items[i]);
    VP_ASSERT(k >= 0 && f_level[k >= 0 ? k : 0] == level, "inputs are files of their level");
    for (f = 0; f < VP_F; f++)
      if (f == k) {
        VP_ASSERT(!in[f], "no file listed twice");
        in[f] = 1;
      }
    if (ordered) VP_ASSERT(k > last, "level order kept");
    last = k;
  }
}

/* C01.f: no file left behind in `level` holds older entries of the user key a selected file ends with */
static void
check_boundary_closed(const int *in, int level) {
  int f, g;
  for (f = 0; f < VP_F; f++)
    for (g = 0; g < VP_F; g++) {
      if (f_level[f] != level || f_level[g] != level || !in[f] || in[g]) continue;
      if (level > 0)
        VP_ASSERT(!(f_su[g] == f_lu[f] && ik_cmp(f_su[g], f_st[g], f_lu[f], f_lt[f]) > 0),
                  "C01.f no file left behind holds older entries of a user key that a selected file ends with");
      else
        VP_ASSERT(f_lu[g] < f_su[f] || f_su[g] > f_lu[f],
                  "C01.f level 0: no file left behind meets the user-key range of a selected file");
    }
}

void
harness(void) {
  int f, g, lvl, pickf = -1;
  ldb_compaction_t *c = NULL;
  vp_build_version();
  for (lvl = 0; lvl < LDB_NUM_LEVELS; lvl++)
    ldb_buffer_init(&vset.compact_pointer[lvl]);
  (void)g;

#if VP_MODE == 0
  {
    ldb_vector_t cf;
    int pick[VP_MAXF], any = 0, added = 0;
    ldb_vector_init(&cf);
    ldb_vector_grow(&cf, VP_NCL + 1);
    /* every caller passes a contiguous run of the level (one picked file, or the result of
       ldb_version_get_overlapping_inputs on a sorted level): files lo..hi-1 of the level, possibly none */
    {
      int lo = vp_int(), hi = vp_int(), base = vp_first_of(VP_CL);
      VP_ASSUME(0 <= lo && lo <= hi && hi <= VP_NCL);
      for (f = 0; f < VP_F; f++) {
        pick[f] = f_level[f] == VP_CL && f - base >= lo && f - base < hi;
        if (pick[f]) { ldb_vector_push(&cf, fmp[f]); any = 1; }
      }
    }
    add_boundary_inputs(&vset.icmp, &ver.files[VP_CL], &cf);
    collect(&cf, in0, VP_CL, 0);
    for (f = 0; f < VP_F; f++) {
      VP_ASSERT(!pick[f] || in0[f], "the given files stay selected");
      if (in0[f] && !pick[f]) {
        int just = 0;
        added = 1;
        for (g = 0; g < VP_F; g++)   /* an added file continues the user key some selected file ends with */
          if (g != f && in0[g] && f_lu[g] == f_su[f] && ik_cmp(f_su[f], f_st[f], f_lu[g], f_lt[g]) > 0) just = 1;
        VP_ASSERT(just, "only boundary files are added");
      }
    }
    VP_ASSERT(any || cf.length == 0, "empty selection stays empty");
    check_boundary_closed(in0, VP_CL);
    if (!any) VP_WITNESS("empty-selection");
    if (any && !added) VP_WITNESS("nothing-to-add");
#if VP_NCL >= 2
    if (added) VP_WITNESS("boundary-file-added");
#endif
#if VP_NCL >= 3
    if (in0[vp_first_of(VP_CL)] && pick[vp_first_of(VP_CL)] && !pick[vp_first_of(VP_CL) + 1] && !pick[vp_first_of(VP_CL) + 2] &&
        in0[vp_first_of(VP_CL) + 2]) VP_WITNESS("chain-of-two-boundary-files");
#endif
    return;
  }
#else

#if VP_MODE == 1
  {
    int has_cp = vp_bool();
    ver.compaction_score = 1.0;
    ver.compaction_level = VP_CL;
    if (has_cp) {
      uint8_t cp[9];
      cp[0] = vp_key();
      ldb_fixed64_write(cp + 1, vp_tag());
      ldb_buffer_set(&vset.compact_pointer[VP_CL], cp, 9);
    }
    c = ldb_versions_pick_compaction(&vset);
    VP_ASSERT(c != NULL, "a size-triggered compaction is picked");
  }
#elif VP_MODE == 2
  {
    int base = vp_first_of(VP_CL);
    pickf = vp_int();
    VP_ASSUME(pickf >= 0 && pickf < VP_NCL);
    ver.compaction_score = 0.0;
    for (f = 0; f < VP_NCL; f++)
      if (f == pickf) ver.file_to_compact = fmp[base + f];
    ver.file_to_compact_level = VP_CL;
    c = ldb_versions_pick_compaction(&vset);
    VP_ASSERT(c != NULL, "a seek-triggered compaction is picked");
    collect(&c->inputs[0], in0, VP_CL, 0);
    for (f = 0; f < VP_NCL; f++)
      VP_ASSERT(f != pickf || in0[base + f], "the file that ran out of seeks is an input");
  }
#elif VP_MODE == 3
  {
    int has_a = vp_bool(), has_b = vp_bool(), want = 0;
    uint8_t ka[9], kb[9];
    ldb_ikey_t ba, bb;
    ka[0] = vp_key();
    ldb_fixed64_write(ka + 1, vp_tag());
    kb[0] = vp_key();
    ldb_fixed64_write(kb + 1, vp_tag());
    if (has_a && has_b) VP_ASSUME(ka[0] <= kb[0]);
    ba.data = ka; ba.size = 9; ba.alloc = 0;
    bb.data = kb; bb.size = 9; bb.alloc = 0;
    c = ldb_versions_compact_range(&vset, VP_CL, has_a ? &ba : NULL, has_b ? &bb : NULL);
    for (f = 0; f < VP_F; f++)
      if (f_level[f] == VP_CL && vp_file_overlaps(f, has_a, ka[0], has_b, kb[0])) want = 1;
    VP_ASSERT((c != NULL) == want, "compact_range returns a compaction iff some file of the level meets the range");
    if (c == NULL) {
      VP_WITNESS("nothing-in-range");
      return;
    }
    collect(&c->inputs[0], in0, VP_CL, 0);
#if VP_CL == 0
    for (f = 0; f < VP_F; f++)
      VP_ASSERT(f_level[f] != 0 || in0[f] || !vp_file_overlaps(f, has_a, ka[0], has_b, kb[0]), "level 0: every file meeting the range is compacted (no older file dropped)");
#else
    {
      int first = 1;
      for (f = 0; f < VP_F; f++)
        if (f_level[f] == VP_CL && vp_file_overlaps(f, has_a, ka[0], has_b, kb[0])) {
          VP_ASSERT(!first || in0[f], "the first file meeting the range is compacted (manual compaction makes progress)");
          first = 0;
        }
    }
#endif
  }
#endif

  if (c == NULL) return;

  /* ---- what was selected ---- */
  collect(&c->inputs[0], in0, VP_CL, 0);
  collect(&c->inputs[1], in1, VP_CL + 1, 0);
  VP_ASSERT(c->inputs[0].length > 0, "inputs[0] is not empty");
  VP_ASSERT(c->level == VP_CL, "compaction level");
  VP_ASSERT(c->input_version == &ver, "input version is the current version");

  /* C01.f */
  check_boundary_closed(in0, VP_CL);
  check_boundary_closed(in1, VP_CL + 1);

  {
    /* user-key hull of inputs[0]; internal-key hull of all inputs */
    uint8_t h0a = 255, h0b = 0, aa_u = 0, ab_u = 0;
    uint64_t aa_t = 0, ab_t = 0, l0_t = 0;
    uint8_t l0_u = 0;
    int have = 0, have0 = 0, n1 = 0;
    uint64_t gp_bytes = 0;
    int triv;

    for (f = 0; f < VP_F; f++) {
      if (in0[f]) {
        if (f_su[f] < h0a) h0a = f_su[f];
        if (f_lu[f] > h0b) h0b = f_lu[f];
        if (!have0 || ik_cmp(f_lu[f], f_lt[f], l0_u, l0_t) > 0) { l0_u = f_lu[f]; l0_t = f_lt[f]; have0 = 1; }
      }
      if (in0[f] || in1[f]) {
        if (!have || ik_cmp(f_su[f], f_st[f], aa_u, aa_t) < 0) { aa_u = f_su[f]; aa_t = f_st[f]; }
        if (!have || ik_cmp(f_lu[f], f_lt[f], ab_u, ab_t) > 0) { ab_u = f_lu[f]; ab_t = f_lt[f]; }
        have = 1;
      }
      if (in1[f]) n1++;
    }

    /* C14.b */
    for (f = 0; f < VP_F; f++) {
      if (f_level[f] != VP_CL + 1) continue;
      VP_ASSERT(in1[f] || !vp_file_overlaps(f, 1, h0a, 1, h0b), "C14.b every level+1 file meeting the user-key hull of inputs[0] is in inputs[1]");
      VP_ASSERT(in1[f] || ik_cmp(f_lu[f], f_lt[f], aa_u, aa_t) < 0 || ik_cmp(f_su[f], f_st[f], ab_u, ab_t) > 0,
                "C14.b no surviving level+1 file intersects the internal-key hull of the inputs (outputs cannot overlap survivors)");
    }

#if VP_CL + 2 < 7
    collect(&c->grandparents, ingp, VP_CL + 2, 1);
    for (f = 0; f < VP_F; f++) {
      if (f_level[f] != VP_CL + 2) continue;
      VP_ASSERT(ingp[f] == vp_file_overlaps(f, 1, aa_u, 1, ab_u), "grandparents == level+2 files meeting the user-key hull of all inputs");
      if (vp_file_overlaps(f, 1, aa_u, 1, ab_u)) gp_bytes += f_size[f];
    }
#else
    VP_ASSERT(c->grandparents.length == 0, "no grandparents below the last level");
#endif

    triv = ldb_compaction_is_trivial_move(c);
    VP_ASSERT(!triv || (c->inputs[0].length == 1 && n1 == 0), "trivial move only with one input file and nothing to merge in level+1");
    VP_ASSERT(!triv || gp_bytes <= 10 * (uint64_t)VP_MFS, "trivial move only with <= 10*max_file_size grandparent bytes");
    VP_ASSERT(triv || !(c->inputs[0].length == 1 && n1 == 0 && gp_bytes <= 10 * (uint64_t)VP_MFS), "a single file with nothing below is moved, not rewritten");

    /* compact pointer = largest key of inputs[0] */
    VP_ASSERT(vset.compact_pointer[VP_CL].size == 9 && vset.compact_pointer[VP_CL].data[0] == l0_u &&
              ldb_fixed64_decode(vset.compact_pointer[VP_CL].data + 1) == l0_t, "compact pointer of the level == largest key of inputs[0]");
    VP_ASSERT(edit_cp_calls == 1 && edit_cp_level == VP_CL && edit_cp_len == 9 && edit_cp_key[0] == l0_u &&
              ldb_fixed64_decode(edit_cp_key + 1) == l0_t, "the same compact pointer is recorded in the compaction's edit");

    /* ---- witnesses ---- */
#ifndef VP_WIT_SKIP_TRIVIAL   /* scenario S3: the only file always meets level+1 */
    if (triv) VP_WITNESS("trivial-move");
#endif
#if (VP_NCL >= 2 || VP_NCL2 >= 1) && !defined(VP_UKEYS)
    if (!triv && n1 == 0) VP_WITNESS("rewritten-because-of-grandparents-or-several-inputs");
#endif
#if VP_NCL >= 2 && VP_CL > 0
    {
      int straddle = 0;
      for (f = 0; f < VP_F; f++)
        for (g = 0; g < VP_F; g++)
          if (in0[f] && in0[g] && f != g && f_level[f] == VP_CL && f_lu[f] == f_su[g]) straddle = 1;
      if (straddle) VP_WITNESS("straddling-user-key-both-files-selected");
    }
#endif
#if VP_NCL1 >= 1
    if (n1 > 0) VP_WITNESS("level+1-inputs");
#endif
#if VP_MODE == 2 && VP_NCL >= 3 && VP_NCL1 >= 1 && VP_CL > 0
    {
      int b = vp_first_of(VP_CL);
      /* seek on the first file; the level+1 overlap widens the range over the second file (expansion of inputs[0]),
         and the third file continues the user key the second one ends with (boundary file of the EXPANDED set) */
      if (pickf == 0 && in0[b + 1] && in0[b + 2] && f_lu[b] != f_su[b + 1] && f_lu[b + 1] == f_su[b + 2] && f_su[b + 2] != f_lu[b + 2])
        VP_WITNESS("expanded-inputs0-pull-their-boundary-file");
    }
#endif
#if VP_NCL1 >= 2 && !defined(VP_WIT_SKIP_TRIVIAL)
    if (n1 > 0 && n1 < VP_NCL1) VP_WITNESS("some-level+1-files-survive");
#endif
#if VP_NCL1 >= 2 && defined(VP_WIT_SKIP_TRIVIAL)
    if (n1 == VP_NCL1) VP_WITNESS("level+1-boundary-file-pulled");
#endif
  }
#endif
}
