/* vset/baselevel.c -- C01.d: the REAL ldb_compaction_is_base_level_for_key
 * (src/version_set.c #included; stateful cursor c->level_ptrs) for a
 * NON-DECREASING sequence of VP_Q user keys, as ldb_do_compaction_work feeds
 * it, over a symbolic version (vset/ver.h: levels >= 1 sorted and disjoint in
 * internal-key order, one user key may straddle adjacent files), against the
 * brute force
 *   base level  <=>  no file in levels >= level+2 whose user-key range
 *                    [smallest.user, largest.user] contains the key.
 * A wrong "yes" lets the compaction drop a tombstone that still hides a
 * value in a deeper level (the deleted key comes back).
 * The compaction level VP_CL is concrete per query; at least one
 * configuration reaches the deepest level 6.
 */
#include "vset/ver.h"

#ifndef VP_CL
#define VP_CL 0
#endif
#ifndef VP_Q
#define VP_Q 2
#endif

static ldb_compaction_t comp;

static int
ref_base_level(uint8_t key) {
  int f, r = 1;
  for (f = 0; f < VP_F; f++)
    if (f_level[f] >= VP_CL + 2 && f_su[f] <= key && key <= f_lu[f]) r = 0;
  return r;
}

void
harness(void) {
  int q, i, got, want, seen_no = 0, seen_yes = 0;
  uint8_t key[VP_Q];
  ldb_slice_t uk;

  vp_build_version();
  comp.level = VP_CL;
  comp.input_version = &ver;
  for (i = 0; i < LDB_NUM_LEVELS; i++)
    comp.level_ptrs[i] = 0;

  for (q = 0; q < VP_Q; q++) {
    key[q] = vp_key();
    if (q > 0) VP_ASSUME(key[q - 1] <= key[q]);   /* compaction input is sorted */
  }

  for (q = 0; q < VP_Q; q++) {
    uk = ldb_slice(&key[q], 1);
    got = ldb_compaction_is_base_level_for_key(&comp, &uk);
    want = ref_base_level(key[q]);
    VP_ASSERT((got != 0) == want, "is_base_level_for_key == no file in levels >= level+2 contains the user key (brute force)");
    if (!want) seen_no++;
    if (want) seen_yes++;
    for (i = 0; i < LDB_NUM_LEVELS; i++)
      VP_ASSERT(comp.level_ptrs[i] <= (size_t)vp_ncount[i], "cursor stays inside the level");
  }

#if VP_N6 > 0
  {
    int f, only6 = !ref_base_level(key[VP_Q - 1]);
    for (f = 0; f < VP_F; f++)
      if (f_level[f] >= VP_CL + 2 && f_level[f] < 6 && f_su[f] <= key[VP_Q - 1] && key[VP_Q - 1] <= f_lu[f]) only6 = 0;
    if (only6) VP_WITNESS("key-held-only-by-the-deepest-level");
  }
#endif
  if (seen_no == VP_Q) VP_WITNESS("every-key-held-deeper");
  if (seen_yes == VP_Q) VP_WITNESS("every-key-at-base-level");
#if VP_Q >= 2
  if (seen_yes && seen_no) VP_WITNESS("mixed");
  if (key[0] == key[VP_Q - 1] && seen_no) VP_WITNESS("same-key-twice-held");
#endif
}
