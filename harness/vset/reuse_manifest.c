/* C17 / C05 -- the REAL ldb_versions_reuse_manifest (static in
 * src/version_set.c, #included): when an existing MANIFEST is reused for
 * appending (options.reuse_logs), the log writer must be told the file's
 * current size, otherwise every appended edit is framed off the 32 KiB block
 * grid and the MANIFEST cannot be replayed (C15.b decides that the writer's
 * block offset is `length mod 32768`).
 *
 * Asserted: reuse happens iff reuse_logs is set, the name parses as a
 * descriptor, its size is known and below the target file size, and the file
 * can be opened for append; then descriptor_file is that file, descriptor_log
 * was created on it with EXACTLY the size reported for the file, and
 * manifest_file_number is the parsed number; otherwise nothing is opened or
 * changed and 0 is returned (the caller then writes a fresh MANIFEST).
 */
#include "vp.h"
#include "version_set.c"

struct ldb_wfile_s { int id; };
static struct ldb_wfile_s the_file;
static ldb_writer_t the_writer;
static uint64_t size_reported, created_with_length, parsed_number;
static int parse_ok, parse_type, size_rc, append_rc;
static int writer_created = 0, append_opened = 0;

char *ldb_basename(const char *fname) { return (char *)fname; }

int
ldb_parse_filename(ldb_filetype_t *type, uint64_t *num, const char *name) {
  (void)name;
  if (!parse_ok) return 0;
  *type = (ldb_filetype_t)parse_type;
  *num = parsed_number;
  return 1;
}

int ldb_file_size(const char *filename, uint64_t *size) { (void)filename; if (size_rc != LDB_OK) return size_rc; *size = size_reported; return LDB_OK; }

int
ldb_appendfile_create(const char *filename, ldb_wfile_t **file) {
  (void)filename;
  append_opened++;
  if (append_rc != LDB_OK) return append_rc;
  *file = &the_file;
  return LDB_OK;
}

ldb_writer_t *
ldb_writer_create(ldb_wfile_t *file, uint64_t length) {
  VP_ASSERT(file == &the_file, "writer appends to the reopened MANIFEST");
  writer_created++;
  created_with_length = length;
  return &the_writer;
}

void ldb_log(ldb_logger_t *logger, const char *fmt, ...) { (void)logger; (void)fmt; }
const char *ldb_strerror(int code) { (void)code; return "e"; }

void
harness(void) {
  static ldb_versions_t vset;
  static ldb_dbopt_t opt;
  uint64_t mfn0;
  int r, expect;

  opt = *ldb_dbopt_default;
  opt.reuse_logs = vp_bool();
  opt.max_file_size = vp_size();
  VP_ASSUME(opt.max_file_size >= 1024 && opt.max_file_size <= (1u << 30));
  vset.options = &opt;
  vset.descriptor_file = NULL;
  vset.descriptor_log = NULL;
  vset.manifest_file_number = vp_u64();
  mfn0 = vset.manifest_file_number;

  parse_ok = vp_bool();
  parse_type = vp_int();
  VP_ASSUME(parse_type >= 0 && parse_type <= 6);
  parsed_number = vp_u64();
  size_rc = vp_bool() ? LDB_OK : LDB_IOERR;
  size_reported = vp_u64();
  append_rc = vp_bool() ? LDB_OK : LDB_IOERR;

  r = ldb_versions_reuse_manifest(&vset, "M");

  expect = opt.reuse_logs && parse_ok && parse_type == LDB_FILE_DESC && size_rc == LDB_OK &&
           size_reported < (uint64_t)opt.max_file_size && append_rc == LDB_OK;
  VP_ASSERT((r != 0) == (expect != 0), "MANIFEST reused exactly when allowed, parsable, small enough and openable");
  if (r) {
    VP_ASSERT(vset.descriptor_file == &the_file && vset.descriptor_log == &the_writer && writer_created == 1, "descriptor file and log are the reopened MANIFEST");
    VP_ASSERT(created_with_length == size_reported, "C17 the appending writer starts at the MANIFEST's current size (block offset = size mod 32768)");
    VP_ASSERT(vset.manifest_file_number == parsed_number, "manifest_file_number is the reused file's number");
    VP_WITNESS("reused");
  } else {
    VP_ASSERT(vset.descriptor_file == NULL && vset.descriptor_log == NULL && writer_created == 0, "no reuse: nothing left open");
    VP_ASSERT(vset.manifest_file_number == mfn0, "no reuse: manifest number unchanged");
    VP_WITNESS("not-reused");
  }
}
