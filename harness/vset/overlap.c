/* vset/overlap.c -- C01.e / C14.d: the REAL find_file, some_file_overlaps_range
 * (both modes), ldb_version_overlap_in_level, ldb_version_get_overlapping_inputs
 * and ldb_version_pick_level_for_memtable_output (src/version_set.c #included)
 * over a symbolic version (vset/ver.h), each against a brute-force linear
 * reference written on the shadow bounds.
 *
 * VP_MODE 0: find_file on level VP_LV (>= 1, sorted/disjoint): == the first
 *   index whose largest key is >= the target (internal-key order), else n.
 * VP_MODE 1: some_file_overlaps_range(disjoint = VP_LV > 0) and
 *   ldb_version_overlap_in_level on level VP_LV, ends of the range
 *   independently open (NULL) or a 1-byte user key, small <= large:
 *   == "some file f with !(small > f.largest.user) && !(large < f.smallest.user)".
 * VP_MODE 2: ldb_version_pick_level_for_memtable_output: the level L it
 *   returns is <= 2 (LDB_MAX_MEM_COMPACT_LEVEL); L > 0 only if no level-0 file
 *   overlaps; no file in levels 1..L overlaps [small,large]; every level
 *   passed on the way had <= 10 * max_file_size bytes of overlapping files two
 *   levels below (grandparent rule); and L is exactly the level the rule
 *   gives (the loop stops at the first level whose next level overlaps or
 *   whose grandparents exceed the limit).
 * VP_MODE 3: ldb_version_get_overlapping_inputs on level VP_LV (begin/end
 *   independently NULL): for level >= 1 exactly the files whose user-key
 *   range meets [begin.user, end.user], in level order; for level 0 the
 *   closure: a set containing every file meeting the range, and no file
 *   outside the set meets the hull of the set.
 */
#include "vset/ver.h"

#ifndef VP_MODE
#define VP_MODE 0
#endif
#ifndef VP_LV
#define VP_LV 1
#endif
#define VP_CAT(a, b) a##b
#define VP_CAT2(a, b) VP_CAT(a, b)
#define VP_NLV VP_CAT2(VP_N, VP_LV)   /* number of files in level VP_LV, usable in #if */

/* brute force: does some file of `level` meet the user-key range */
static int
ref_overlap(int level, int has_a, uint8_t a, int has_b, uint8_t b) {
  int f, r = 0;
  for (f = 0; f < VP_F; f++)
    if (f_level[f] == level && vp_file_overlaps(f, has_a, a, has_b, b)) r = 1;
  return r;
}

static uint64_t
ref_overlap_bytes(int level, uint8_t a, uint8_t b) {
  int f;
  uint64_t sum = 0;
  for (f = 0; f < VP_F; f++)
    if (f_level[f] == level && vp_file_overlaps(f, 1, a, 1, b)) sum += f_size[f];
  return sum;
}

void
harness(void) {
  int f, n = vp_ncount[VP_LV], base = vp_first_of(VP_LV);
  vp_build_version();
  (void)f; (void)n; (void)base;

#if VP_MODE == 0
  {
    uint8_t tk[9];
    uint8_t tu = vp_key();
    uint64_t tt = vp_tag();
    ldb_slice_t target;
    int got, want = n;
    tk[0] = tu;
    ldb_fixed64_write(tk + 1, tt);
    target = ldb_slice(tk, 9);
    got = find_file(&vset.icmp, &ver.files[VP_LV], &target);
    for (f = n - 1; f >= 0; f--)
      if (ik_cmp(f_lu[base + f], f_lt[base + f], tu, tt) >= 0) want = f;
    VP_ASSERT(got == want, "find_file == first file whose largest key >= target (linear reference)");
    if (want == n) VP_WITNESS("past-all-files");
#if VP_NLV > 1
    if (want < n && want > 0) VP_WITNESS("inner-file");
#endif
#if VP_NLV > 0
    if (want == 0) VP_WITNESS("first-file");
#endif
  }
#elif VP_MODE == 1
  {
    int has_a = vp_bool(), has_b = vp_bool();
    uint8_t a = vp_key(), b = vp_key();
    ldb_slice_t sa, sb;
    int got1, got2, want;
    if (has_a && has_b) VP_ASSUME(a <= b);
    sa = ldb_slice(&a, 1);
    sb = ldb_slice(&b, 1);
    got1 = some_file_overlaps_range(&vset.icmp, VP_LV > 0, &ver.files[VP_LV],
                                    has_a ? &sa : NULL, has_b ? &sb : NULL);
    got2 = ldb_version_overlap_in_level(&ver, VP_LV, has_a ? &sa : NULL, has_b ? &sb : NULL);
    want = ref_overlap(VP_LV, has_a, a, has_b, b);
    VP_ASSERT((got1 != 0) == want, "some_file_overlaps_range == brute force over the files of the level");
    VP_ASSERT((got2 != 0) == want, "ldb_version_overlap_in_level == brute force over the files of the level");
#if VP_NLV > 0
    if (want && has_a && has_b) VP_WITNESS("overlap-closed-range");
    if (!want && has_a && has_b) VP_WITNESS("no-overlap-closed-range");
#endif
    if (!has_a) VP_WITNESS("open-begin");
    if (!has_b) VP_WITNESS("open-end");
  }
#elif VP_MODE == 2
  {
    uint8_t a = vp_key(), b = vp_key();
    ldb_slice_t sa, sb;
    int got, want = 0, l;
    VP_ASSUME(a <= b);   /* smallest/largest user key of the memtable being flushed */
    sa = ldb_slice(&a, 1);
    sb = ldb_slice(&b, 1);
    got = ldb_version_pick_level_for_memtable_output(&ver, &sa, &sb);

    /* the rule (LevelDB impl.md, "Level 0 ... may be pushed"): */
    if (!ref_overlap(0, 1, a, 1, b)) {
      while (want < 2) {
        if (ref_overlap(want + 1, 1, a, 1, b)) break;
        if (ref_overlap_bytes(want + 2, a, b) > 10 * (uint64_t)VP_MFS) break;
        want++;
      }
    }
    VP_ASSERT(got >= 0 && got <= 2, "flush output level <= 2 (max mem compact level)");
    VP_ASSERT(got == 0 || !ref_overlap(0, 1, a, 1, b), "pushed below level 0 only if no level-0 file overlaps the memtable range");
    for (l = 1; l <= 2; l++)
      VP_ASSERT(l > got || !ref_overlap(l, 1, a, 1, b), "no file in levels 1..L overlaps the memtable range (newer data never lands below older)");
    for (l = 0; l < 2; l++)
      VP_ASSERT(l >= got || ref_overlap_bytes(l + 2, a, b) <= 10 * (uint64_t)VP_MFS, "every level passed has <= 10*max_file_size grandparent bytes under the range");
    VP_ASSERT(got == want, "chosen level == the level the placement rule gives");
#if VP_N0 > 0
    if (got == 0 && ref_overlap(0, 1, a, 1, b)) VP_WITNESS("level0-overlap");
#endif
#if VP_N1 > 0
    if (got == 0 && !ref_overlap(0, 1, a, 1, b) && ref_overlap(1, 1, a, 1, b)) VP_WITNESS("stopped-by-level1");
#endif
#if VP_N2 > 0
    if (got == 0 && !ref_overlap(0, 1, a, 1, b) && !ref_overlap(1, 1, a, 1, b)) VP_WITNESS("stopped-at-0-by-grandparent-bytes");
    if (got == 1 && ref_overlap(2, 1, a, 1, b)) VP_WITNESS("stopped-by-level2");
#endif
#if VP_N3 > 0
    if (got == 1 && !ref_overlap(2, 1, a, 1, b)) VP_WITNESS("stopped-at-1-by-grandparent-bytes");
#endif
    if (got == 2) VP_WITNESS("level2");
  }
#elif VP_MODE == 3
  {
    int has_a = vp_bool(), has_b = vp_bool();
    uint8_t ka[9], kb[9];
    ldb_ikey_t ba, bb;
    ldb_vector_t out;
    int in[VP_MAXF], k, g;
    size_t i;
    ka[0] = vp_key();
    ldb_fixed64_write(ka + 1, vp_tag());
    kb[0] = vp_key();
    ldb_fixed64_write(kb + 1, vp_tag());
    if (has_a && has_b) VP_ASSUME(ka[0] <= kb[0]);
    ba.data = ka; ba.size = 9; ba.alloc = 0;
    bb.data = kb; bb.size = 9; bb.alloc = 0;
    ldb_vector_init(&out);
    ldb_version_get_overlapping_inputs(&ver, VP_LV, has_a ? &ba : NULL, has_b ? &bb : NULL, &out);
    for (f = 0; f < VP_MAXF; f++) in[f] = 0;
    VP_ASSERT(out.length <= (size_t)n, "no more inputs than files in the level");
    for (i = 0; i < out.length && i < (size_t)n; i++) {
      k = vp_file_index(out.items[i]);
      VP_ASSERT(k >= base && k < base + n, "inputs are files of the level");
      for (f = 0; f < VP_F; f++)
        if (f == k) {
          VP_ASSERT(!in[f], "no file listed twice");
          in[f] = 1;
        }
    }
#if VP_LV > 0
    for (f = base; f < base + n; f++)
      VP_ASSERT(in[f] == vp_file_overlaps(f, has_a, ka[0], has_b, kb[0]), "level >= 1: inputs == files whose user-key range meets [begin,end]");
    k = -1;
    for (i = 0; i < out.length && i < (size_t)n; i++) {
      g = vp_file_index(out.items[i]);
      VP_ASSERT(g > k, "inputs keep the level order");
      k = g;
    }
#else
    for (f = base; f < base + n; f++) {
      VP_ASSERT(in[f] || !vp_file_overlaps(f, has_a, ka[0], has_b, kb[0]), "level 0: every file meeting the range is an input");
      for (g = base; g < base + n; g++)
        VP_ASSERT(!(in[f] && !in[g]) || f_lu[g] < f_su[f] || f_su[g] > f_lu[f],
                  "level 0: no file left behind meets the user-key range of an input (closure)");
    }
    {
      /* brute-force fixpoint: grow the user-key range by every file it meets, on EITHER side,
         until nothing changes (n rounds suffice); the result is exactly the files meeting the final range */
      uint8_t lo = ka[0], hi = kb[0];
      int round, chained = 0;
      for (round = 0; round < n; round++)
        for (f = base; f < base + n; f++)
          if (vp_file_overlaps(f, has_a, lo, has_b, hi)) {
            if (has_a && f_su[f] < lo) { lo = f_su[f]; if (round > 0) chained = 1; }
            if (has_b && f_lu[f] > hi) { hi = f_lu[f]; if (round > 0) chained = 1; }
          }
      for (f = base; f < base + n; f++)
        VP_ASSERT(in[f] == vp_file_overlaps(f, has_a, lo, has_b, hi), "level 0: inputs == transitive closure of the range under overlap (brute-force fixpoint)");
#if VP_NLV >= 3
      /* g=[a..c] f=[b..e] p=[d..z], start range hits only p: p pulls f, f pulls g */
      if (has_a && has_b && in[base] && in[base + 1] && in[base + 2] &&
          !vp_file_overlaps(base, 1, ka[0], 1, kb[0]) && !vp_file_overlaps(base + 1, 1, ka[0], 1, kb[0]) &&
          f_lu[base] < f_su[base + 2] && chained) VP_WITNESS("chain-of-partial-overlaps-from-the-right-most-file");
      if (has_a && has_b && in[base] && in[base + 1] && in[base + 2] &&
          !vp_file_overlaps(base + 2, 1, ka[0], 1, kb[0]) && !vp_file_overlaps(base + 1, 1, ka[0], 1, kb[0]) &&
          f_lu[base] < f_su[base + 2]) VP_WITNESS("chain-of-partial-overlaps-from-the-left-most-file");
#endif
    }
#endif
    if (out.length == 0) VP_WITNESS("none");
#if VP_NLV > 1
    if (out.length == (size_t)n) VP_WITNESS("all");
    if (out.length > 0 && out.length < (size_t)n) VP_WITNESS("some");
#endif
  }
#endif
}
