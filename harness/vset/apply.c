/* vset/apply.c -- C02.d / C05.b / C17: the REAL ldb_versions_apply
 * (src/version_set.c #included, with the real builder, ldb_versions_finalize,
 * ldb_versions_write_snapshot, ldb_versions_append_version, the real
 * version_edit.c structures, rbt.c, vector.c, buffer.c) from a small base
 * state, with monitoring stubs for everything below the unit:
 *   ldb_desc_filename, ldb_truncfile_create, ldb_writer_create/add_record/
 *   destroy, ldb_wfile_sync/close/destroy, ldb_remove_file,
 *   ldb_set_current_file, ldb_mutex_lock/unlock.
 * Every stub may fail with a symbolic error code; every stub first asserts
 * that NOTHING IS INSTALLED YET (current version, version list, log_number,
 * prev_log_number untouched) and the order of the steps so far.
 *
 * ldb_edit_export is abstracted (its byte layout is C17.b's subject): the
 * model records the scalar fields and the file list of the edit at the moment
 * of the export and emits a one-byte record naming it, so that the
 * add_record stub knows which edit it is handed.
 *
 * VP_FIRST 1: first call after recovery (descriptor_log == NULL): a new
 *   MANIFEST named by manifest_file_number is created, the snapshot of the
 *   current version is written, THEN (mutex released) the edit record, THEN
 *   ldb_wfile_sync, THEN ldb_set_current_file(manifest_file_number); only
 *   after all of them succeeded is the version installed.  On any failure:
 *   nothing installed, the new writer+file destroyed (file closed), then the
 *   file removed by name, descriptor_log/file reset to NULL.
 * VP_FIRST 0: MANIFEST already open: edit record, sync (mutex released), then
 *   install; on failure nothing installed and the open MANIFEST is kept.
 *   A failed ldb_truncfile_create (finding F5, repaired in ad314e0) is part
 *   of it: the error is returned, neither ldb_writer_destroy nor
 *   ldb_wfile_destroy is handed NULL (env_unix dereferences it).
 * VP_SHAPE 0: empty base version, edit carries only counters (ldb_open);
 *          1: base has one file in level 1, edit adds a level-0 file (flush);
 *          2: base has files in levels 1 and 2, edit deletes the level-1 file
 *             and adds a level-2 file (compaction).
 */
#include "vp.h"
#include "vp_vector_inc.h"      /* real util/vector.c, typed pointer arrays */

/* real version_edit.c, with the byte encoder renamed out of the way */
#define ldb_edit_export vp_real_edit_export
#include "version_edit.c"
#undef ldb_edit_export
void ldb_edit_export(ldb_buffer_t *dst, const ldb_edit_t *edit);

#include "version_set.c"

#ifndef VP_FIRST
#define VP_FIRST 1
#endif
#ifndef VP_SHAPE
#define VP_SHAPE 0
#endif


struct ldb_wfile_s { int id; };

/* ---- the world ---- */
static ldb_versions_t vset;
static ldb_dbopt_t dbopt;
static ldb_mutex_t the_mu;
static ldb_edit_t the_edit;
static struct ldb_wfile_s new_file, old_file;
static ldb_writer_t new_writer, old_writer;
static ldb_version_t *base;                 /* current version before the call */
static ldb_filemeta_t fa, fc;               /* base files */
static uint8_t ka_s[9], ka_l[9], kc_s[9], kc_l[9], kb_s[9], kb_l[9], kcp[9];

/* pre-state */
static uint64_t log0, prev0, next0, seq0, manifest0;
static int base_refs0;

/* ghost */
static int held = 1;                        /* caller holds the db mutex */
static int unlocks = 0, locks = 0;
static int descname_calls = 0, create_calls = 0, created = 0, wcreate_calls = 0;
static int snapshot_exported = 0, edit_exported = 0;
static int snapshot_added = 0, edit_added = 0, add_calls = 0;
static int sync_calls = 0, synced = 0, setcur_calls = 0, setcur_ok = 0;
static int wdestroyed = 0, fdestroyed = 0, removed = 0, closed = 0;
static int failed = 0;                      /* some step below has failed */
static int fail_code = 0;
static const char *created_name = NULL;

/* the exported edit's fields, as of the export */
static int x_has_log, x_has_prev, x_has_next, x_has_seq;
static uint64_t x_log, x_prev, x_next, x_seq;

#define VP_REC_SNAPSHOT 0x55
#define VP_REC_EDIT 0xED

static int
vp_rc(void) {
  int rc = LDB_OK;
  if (vp_bool()) {
    rc = vp_int();
    VP_ASSUME(rc >= LDB_MINERR + 1 && rc <= LDB_MAXERR);
  }
  if (rc != LDB_OK && !failed) {
    failed = 1;
    fail_code = rc;
  }
  return rc;
}

/* C02.d: nothing is installed before every durable step has succeeded */
static void
not_installed(void) {
  VP_ASSERT(vset.current == base, "new version not installed before the MANIFEST record is durable (current unchanged)");
  VP_ASSERT(vset.dummy_versions.next == base && vset.dummy_versions.prev == base && base->next == &vset.dummy_versions &&
            base->prev == &vset.dummy_versions, "version list untouched before the MANIFEST record is durable");
  VP_ASSERT(vset.log_number == log0 && vset.prev_log_number == prev0, "log_number/prev_log_number not updated before the MANIFEST record is durable");
}

/* ---- stubs below the unit ---- */
void ldb_log(ldb_logger_t *logger, const char *fmt, ...) { (void)logger; (void)fmt; }
const char *ldb_strerror(int code) { (void)code; return "error"; }

void ldb_mutex_init(ldb_mutex_t *m) { (void)m; }
void ldb_mutex_destroy(ldb_mutex_t *m) { (void)m; }

void
ldb_mutex_lock(ldb_mutex_t *m) {
  VP_ASSERT(m == &the_mu, "the caller's mutex");
  VP_ASSERT(!held, "mutex re-taken only after it was released");
  held = 1;
  locks++;
}

void
ldb_mutex_unlock(ldb_mutex_t *m) {
  VP_ASSERT(m == &the_mu, "the caller's mutex");
  VP_ASSERT(held, "mutex released only when held");
  not_installed();
  held = 0;
  unlocks++;
}

int
ldb_desc_filename(char *buf, size_t size, const char *dbname, uint64_t num) {
  (void)dbname;
  not_installed();
  descname_calls++;
  VP_ASSERT(VP_FIRST, "a MANIFEST name is made only when no MANIFEST is open");
  VP_ASSERT(num == manifest0, "C05.b the new MANIFEST is named by manifest_file_number");
  VP_ASSERT(size >= 8, "name buffer");
  if (!vp_bool()) {
    if (!failed) { failed = 1; fail_code = LDB_INVALID; }
    return 0;                      /* name does not fit: buf untouched */
  }
  buf[0] = 'M'; buf[1] = 'F'; buf[2] = '\0';
  return 1;
}

int
ldb_truncfile_create(const char *filename, ldb_wfile_t **file) {
  int rc;
  not_installed();
  create_calls++;
  VP_ASSERT(VP_FIRST && create_calls == 1 && descname_calls == 1, "one MANIFEST is created, on the first call only");
  VP_ASSERT(filename[0] == 'M' && filename[1] == 'F' && filename[2] == '\0', "created under the descriptor file name");
  VP_ASSERT(*file == NULL, "no MANIFEST handle is overwritten");
  rc = vp_rc();
  if (rc != LDB_OK)
    return rc;                     /* env_unix leaves *file untouched on failure */
  created = 1;
  created_name = filename;
  new_file.id = 1;
  *file = &new_file;
  return LDB_OK;
}

ldb_writer_t *
ldb_writer_create(ldb_wfile_t *file, uint64_t length) {
  not_installed();
  wcreate_calls++;
  VP_ASSERT(created && file == &new_file && length == 0, "log writer over the freshly created MANIFEST, from offset 0");
  new_writer.file = file;
  return &new_writer;
}

void
ldb_edit_export(ldb_buffer_t *dst, const ldb_edit_t *edit) {
  not_installed();
  if (edit == &the_edit) {
    edit_exported++;
    x_has_log = edit->has_log_number;
    x_has_prev = edit->has_prev_log_number;
    x_has_next = edit->has_next_file_number;
    x_has_seq = edit->has_last_sequence;
    x_log = edit->log_number;
    x_prev = edit->prev_log_number;
    x_next = edit->next_file_number;
    x_seq = edit->last_sequence;
    ldb_buffer_push(dst, VP_REC_EDIT);
  } else {
    /* the snapshot of the current version (C17/C05.b: a new MANIFEST is self-contained) */
    int level, nfiles = 0;
    size_t i;
    snapshot_exported++;
    VP_ASSERT(edit->has_comparator, "snapshot names the comparator");
    for (level = 0; level < LDB_NUM_LEVELS; level++)
      nfiles += (int)base->files[level].length;
    VP_ASSERT(edit->new_files.length == (size_t)nfiles, "snapshot lists every file of the current version");
    for (i = 0; i < edit->new_files.length && i < 2; i++) {
      const meta_entry_t *e = edit->new_files.items[i];
      int ok = 0;
      size_t j;
      for (level = 0; level < LDB_NUM_LEVELS; level++)
        for (j = 0; j < base->files[level].length && j < 2; j++) {
          const ldb_filemeta_t *f = base->files[level].items[j];
          if (e->level == level && e->meta.number == f->number && e->meta.file_size == f->file_size &&
              e->meta.smallest.size == 9 && e->meta.smallest.data[0] == f->smallest.data[0] &&
              e->meta.largest.size == 9 && e->meta.largest.data[0] == f->largest.data[0]) ok = 1;
        }
      VP_ASSERT(ok, "snapshot file entry == a file of the current version (level, number, size, bounds)");
    }
#if VP_SHAPE >= 1
    VP_ASSERT(edit->compact_pointers.length == 1, "snapshot carries the compact pointers");
#else
    VP_ASSERT(edit->compact_pointers.length == 0, "no compact pointer to carry");
#endif
    ldb_buffer_push(dst, VP_REC_SNAPSHOT);
  }
}

int
ldb_writer_add_record(ldb_writer_t *lw, const ldb_slice_t *slice) {
  int rc, was_failed = failed;
  not_installed();
  add_calls++;
  VP_ASSERT(!was_failed, "no MANIFEST write after an earlier failure");
  VP_ASSERT(lw == (VP_FIRST ? &new_writer : &old_writer), "record goes to the open MANIFEST");
  VP_ASSERT(slice->size == 1, "one exported edit per record");
  rc = vp_rc();
  if (slice->data[0] == VP_REC_SNAPSHOT) {
    VP_ASSERT(VP_FIRST && created && wcreate_calls == 1 && !snapshot_added && !edit_added && add_calls == 1,
              "snapshot is the first record of a new MANIFEST");
    if (rc == LDB_OK) snapshot_added = 1;
  } else {
    VP_ASSERT(slice->data[0] == VP_REC_EDIT && edit_exported == 1, "the record is the caller's edit");
    VP_ASSERT(!VP_FIRST || snapshot_added, "C05.b the edit record follows the snapshot in a new MANIFEST");
    VP_ASSERT(!edit_added, "the edit is appended once");
    VP_ASSERT(!held, "MANIFEST write happens with the mutex released");
    VP_ASSERT(x_has_log && x_has_prev && x_has_next && x_has_seq, "C17 the edit record carries log/prev-log/next-file/last-sequence");
    VP_ASSERT(x_next == next0 && x_seq == seq0, "C17 next_file_number and last_sequence are the version set's");
    if (rc == LDB_OK) edit_added = 1;
  }
  return rc;
}

int
ldb_wfile_sync(ldb_wfile_t *file) {
  int rc, was_failed = failed;
  not_installed();
  sync_calls++;
  VP_ASSERT(!was_failed, "no sync after an earlier failure");
  VP_ASSERT(file == (VP_FIRST ? &new_file : &old_file), "the MANIFEST is what gets synced");
  VP_ASSERT(edit_added, "C02.d sync comes after the edit record was appended");
  VP_ASSERT(!held, "MANIFEST sync happens with the mutex released");
  rc = vp_rc();
  if (rc == LDB_OK) synced = 1;
  return rc;
}

int
ldb_set_current_file(const char *dbname, uint64_t desc_number) {
  int rc, was_failed = failed;
  (void)dbname;
  not_installed();
  setcur_calls++;
  VP_ASSERT(!was_failed, "CURRENT is not switched after an earlier failure");
  VP_ASSERT(VP_FIRST && created, "CURRENT is switched only for a freshly created MANIFEST");
  VP_ASSERT(snapshot_added && edit_added && synced, "C02.d/C05.b CURRENT is switched only after snapshot + edit are written and synced");
  VP_ASSERT(!held, "CURRENT switch happens with the mutex released");
  VP_ASSERT(desc_number == manifest0, "C05.b CURRENT names manifest_file_number");
  VP_ASSERT(setcur_calls == 1, "CURRENT is switched once");
  rc = vp_rc();
  if (rc == LDB_OK) setcur_ok = 1;
  return rc;
}

void
ldb_writer_destroy(ldb_writer_t *lw) {
  wdestroyed++;
  VP_ASSERT(failed, "the MANIFEST writer is dropped only on failure");
  VP_ASSERT(lw != NULL, "C12 a failed MANIFEST creation is returned as an error: ldb_writer_destroy is never handed NULL");
  VP_ASSERT(lw == NULL || lw == &new_writer, "only the writer of the freshly created MANIFEST is dropped");
}

int
ldb_wfile_close(ldb_wfile_t *file) {
  (void)file;
  closed++;
  return LDB_OK;
}

void
ldb_wfile_destroy(ldb_wfile_t *file) {
  fdestroyed++;
  VP_ASSERT(failed, "the MANIFEST handle is dropped only on failure");
  VP_ASSERT(file != NULL, "C12 a failed MANIFEST creation is returned as an error: ldb_wfile_destroy is never handed NULL (env_unix dereferences it)");
  VP_ASSERT(file == NULL || file == &new_file, "only the freshly created MANIFEST is closed");
}

int
ldb_remove_file(const char *filename) {
  removed++;
  VP_ASSERT(failed && VP_FIRST, "a MANIFEST is removed only after a failure with a freshly created one");
  VP_ASSERT(filename[0] == 'M' && filename[1] == 'F' && filename[2] == '\0', "the file removed is the MANIFEST just created");
  VP_ASSERT(!created || fdestroyed == 1, "the handle is closed before the file is removed");
  return vp_bool() ? LDB_OK : LDB_IOERR;
}

/* ---- pre-state ---- */
static void
set_key(uint8_t *k, uint8_t u, uint64_t seq) {
  k[0] = u;
  ldb_fixed64_write(k + 1, (seq << 8) | 1);
}

static void
set_file(ldb_filemeta_t *f, uint64_t number, uint8_t *s, uint8_t *l) {
  f->refs = 1;
  f->allowed_seeks = 100;
  f->number = number;
  f->file_size = 1000 + number;
  f->smallest.data = s; f->smallest.size = 9; f->smallest.alloc = 0;
  f->largest.data = l; f->largest.size = 9; f->largest.alloc = 0;
}

static int
level_has(const ldb_version_t *v, int level, uint64_t number) {
  size_t i;
  int r = 0;
  for (i = 0; i < v->files[level].length && i < 3; i++)
    if (((const ldb_filemeta_t *)v->files[level].items[i])->number == number) r = 1;
  return r;
}

void
harness(void) {
  int rc, given_log, given_prev;
  ldb_comparator_t icmp;
  ldb_ikey_t bs, bl;

  dbopt = *ldb_dbopt_default;
  dbopt.comparator = ldb_bytewise_comparator;
  dbopt.info_log = NULL;
  ldb_ikc_init(&icmp, ldb_bytewise_comparator);
  ldb_versions_init(&vset, "db", &dbopt, NULL, &icmp);   /* real: empty current version in the list */
  base = vset.current;

  set_key(ka_s, 'c', 5); set_key(ka_l, 'f', 4);
  set_key(kc_s, 'a', 2); set_key(kc_l, 'd', 1);
  set_key(kb_s, 'm', 9); set_key(kb_l, 'p', 8);
#if VP_SHAPE >= 1
  set_file(&fa, 7, ka_s, ka_l);
  ldb_vector_push(&base->files[1], &fa);
  set_key(kcp, 'f', 4);
  ldb_buffer_set(&vset.compact_pointer[1], kcp, 9);
#endif
#if VP_SHAPE >= 2
  set_file(&fc, 5, kc_s, kc_l);
  ldb_vector_push(&base->files[2], &fc);
#endif
  ldb_version_ref(base);           /* a reader also holds the current version */
  base_refs0 = base->refs;

  /* counters: any values consistent with the version set's invariant */
  log0 = vp_u64(); prev0 = vp_u64(); next0 = vp_u64(); seq0 = vp_u64(); manifest0 = vp_u64();
  VP_ASSUME(next0 >= 2 && log0 < next0 && prev0 < next0 && manifest0 < next0);
  VP_ASSUME(seq0 <= LDB_MAX_SEQUENCE);
  vset.log_number = log0;
  vset.prev_log_number = prev0;
  vset.next_file_number = next0;
  vset.last_sequence = seq0;
  vset.manifest_file_number = manifest0;
#if VP_FIRST
  vset.descriptor_log = NULL;
  vset.descriptor_file = NULL;
#else
  old_writer.file = &old_file;
  vset.descriptor_log = &old_writer;
  vset.descriptor_file = &old_file;
#endif

  /* the edit */
  ldb_edit_init(&the_edit);
  given_log = vp_bool();
  given_prev = vp_bool();
  if (given_log) {
    uint64_t n = vp_u64();
    VP_ASSUME(n >= log0 && n < next0);   /* the documented (assert'ed) precondition */
    ldb_edit_set_log_number(&the_edit, n);
  }
  if (given_prev)
    ldb_edit_set_prev_log_number(&the_edit, vp_u64());
#if VP_SHAPE >= 1
  bs.data = kb_s; bs.size = 9; bs.alloc = 0;
  bl.data = kb_l; bl.size = 9; bl.alloc = 0;
  ldb_edit_add_file(&the_edit, VP_SHAPE == 1 ? 0 : 2, 9, 2000, &bs, &bl);
#endif
#if VP_SHAPE >= 2
  ldb_edit_remove_file(&the_edit, 1, 7);
#endif
  (void)bs; (void)bl;

  rc = ldb_versions_apply(&vset, &the_edit, &the_mu);

  /* ---- after the call ---- */
  VP_ASSERT(held && unlocks == 1 && locks == 1, "mutex released exactly once and held again on return");
  VP_ASSERT((rc == LDB_OK) == !failed, "apply succeeds iff every step below succeeded");
  VP_ASSERT(rc == LDB_OK || rc == fail_code, "the first failure's code is returned");
  VP_ASSERT(vset.manifest_file_number == manifest0 && vset.next_file_number == next0 && vset.last_sequence == seq0,
            "manifest_file_number, next_file_number, last_sequence are not changed by apply");
  VP_ASSERT(the_edit.has_log_number && the_edit.has_prev_log_number && the_edit.has_next_file_number && the_edit.has_last_sequence &&
            the_edit.next_file_number == next0 && the_edit.last_sequence == seq0 &&
            (given_log || the_edit.log_number == log0) && (given_prev || the_edit.prev_log_number == prev0),
            "C17 the edit is completed with the version set's counters");

  if (rc == LDB_OK) {
    ldb_version_t *nv = vset.current;
    VP_ASSERT(edit_added && synced && sync_calls == 1, "C02.d success only with the edit record appended and synced");
    VP_ASSERT(x_log == the_edit.log_number && x_prev == the_edit.prev_log_number, "the exported record carried the final log numbers");
    VP_ASSERT(nv != base && nv->refs == 1, "a new version is current, referenced once");
    VP_ASSERT(vset.dummy_versions.prev == nv && nv->next == &vset.dummy_versions && nv->prev == base && base->next == nv &&
              vset.dummy_versions.next == base, "new version appended at the tail of the list (the reader's version stays listed)");
    VP_ASSERT(base->refs == base_refs0 - 1, "the version set dropped its reference to the previous current");
    VP_ASSERT(vset.log_number == the_edit.log_number && vset.prev_log_number == the_edit.prev_log_number,
              "log_number/prev_log_number now those of the edit");
#if VP_FIRST
    VP_ASSERT(descname_calls == 1 && created && wcreate_calls == 1 && snapshot_exported == 1 && snapshot_added && setcur_ok,
              "C05.b first call: MANIFEST created, snapshot written, CURRENT switched");
    VP_ASSERT(vset.descriptor_log == &new_writer && vset.descriptor_file == &new_file, "the new MANIFEST stays open for later edits");
#else
    VP_ASSERT(descname_calls == 0 && create_calls == 0 && snapshot_exported == 0 && setcur_calls == 0 && add_calls == 1,
              "open MANIFEST: one record, no new file, CURRENT untouched");
    VP_ASSERT(vset.descriptor_log == &old_writer && vset.descriptor_file == &old_file, "the open MANIFEST stays open");
#endif
    VP_ASSERT(!wdestroyed && !fdestroyed && !removed && !closed, "nothing closed or removed on success");
    /* the version the edit describes */
#if VP_SHAPE == 0
    VP_ASSERT(nv->files[0].length == 0 && nv->files[1].length == 0 && nv->files[2].length == 0, "empty edit: same files");
#elif VP_SHAPE == 1
    VP_ASSERT(nv->files[0].length == 1 && level_has(nv, 0, 9) && nv->files[1].length == 1 && nv->files[1].items[0] == &fa,
              "flush edit: new level-0 file added, level 1 kept");
    VP_ASSERT(fa.refs == 2, "a file shared by two versions is referenced twice");
#else
    VP_ASSERT(nv->files[1].length == 0 && nv->files[2].length == 2 && nv->files[2].items[0] == &fc && level_has(nv, 2, 9),
              "compaction edit: input deleted, output added after the survivor");
    VP_ASSERT(fa.refs == 1 && fc.refs == 2, "the deleted file stays referenced by the old version only");
#endif
    VP_WITNESS("installed");
  } else {
    VP_ASSERT(vset.current == base && base->refs == base_refs0, "failure: the previous version is still current");
    VP_ASSERT(vset.dummy_versions.next == base && vset.dummy_versions.prev == base && base->next == &vset.dummy_versions &&
              base->prev == &vset.dummy_versions, "failure: the new version is not in the list");
    VP_ASSERT(vset.log_number == log0 && vset.prev_log_number == prev0, "failure: log_number/prev_log_number unchanged");
    VP_ASSERT(!setcur_ok, "failure is never reported after CURRENT was switched");
#if VP_SHAPE >= 1
    VP_ASSERT(fa.refs == 1, "failure: the discarded version released its file references");
#endif
#if VP_FIRST
    VP_ASSERT(vset.descriptor_log == NULL && vset.descriptor_file == NULL, "failure: descriptor_log/descriptor_file reset");
    VP_ASSERT(!created || (wdestroyed == 1 && fdestroyed == 1 && removed == 1), "failure: the freshly created MANIFEST is closed and removed");
    VP_ASSERT(created || (wdestroyed == 0 && fdestroyed == 0), "failure before the MANIFEST existed: no handle to close");
    VP_ASSERT(create_calls == 1 || removed == 0, "failure before a name existed: nothing to remove");
#else
    VP_ASSERT(vset.descriptor_log == &old_writer && vset.descriptor_file == &old_file && !wdestroyed && !fdestroyed && !removed,
              "failure with an open MANIFEST: it stays open, nothing is removed");
#endif
    if (!edit_added && add_calls == 1 + VP_FIRST) VP_WITNESS("append-failed");
    if (edit_added && !synced) VP_WITNESS("sync-failed");
#if VP_FIRST
    if (synced) VP_WITNESS("set-current-failed");
    if (created && !snapshot_added) VP_WITNESS("snapshot-failed");
    if (create_calls == 0) VP_WITNESS("no-file-name");
    if (create_calls == 1 && !created) VP_WITNESS("create-failed");
#endif
  }
}
