/* C04.b -- the real write_batch.c codec (with real buffer.c / slice.c /
 * coding.h): what ldb_write() logs and what recovery re-applies.
 *
 * VP_MODE 0: build a batch of VP_OPS operations (shape VP_DELMASK concrete,
 *            key/value bytes symbolic, key length VP_KLEN, value length
 *            VP_VLEN), then
 *            - bytes == independent reference layout of the LevelDB batch
 *              format (fixed64 seq, fixed32 count, records)
 *            - ldb_batch_iterate replays exactly the operations, in order
 *            - ldb_batch_insert_into assigns sequence, sequence+1, ... in order
 * VP_MODE 1: ldb_batch_append(dst, src): dst' == dst header with summed count,
 *            dst body followed by src body; src untouched.
 */
#include "vp.h"
#include "util/buffer.h"
#include "util/slice.h"
#include "util/coding.h"
#include "util/status.h"
#include "dbformat.h"
#include "memtable.h"
#include "write_batch.h"

#ifndef VP_OPS
#define VP_OPS 2
#endif
#ifndef VP_DELMASK
#define VP_DELMASK 0
#endif
#ifndef VP_KLEN
#define VP_KLEN 1
#endif
#ifndef VP_VLEN
#define VP_VLEN 1
#endif
#ifndef VP_OPS2
#define VP_OPS2 1
#endif
#define VP_MAXOPS 4

struct ldb_memtable_s { int dummy; };

static uint8_t keys[VP_MAXOPS][VP_KLEN + 1];
static uint8_t vals[VP_MAXOPS][VP_VLEN + 1];

/* recorder */
static int n_calls = 0;
static int r_type[VP_MAXOPS + 1];
static uint64_t r_seq[VP_MAXOPS + 1];
static uint8_t r_key[VP_MAXOPS + 1][VP_KLEN + 1];
static uint8_t r_val[VP_MAXOPS + 1][VP_VLEN + 1];
static size_t r_klen[VP_MAXOPS + 1], r_vlen[VP_MAXOPS + 1];
static struct ldb_memtable_s the_mem;

void
ldb_memtable_add(ldb_memtable_t *mt, ldb_seqnum_t seq, ldb_valtype_t type,
                 const ldb_slice_t *key, const ldb_slice_t *value) {
  size_t i;
  VP_ASSERT(mt == &the_mem, "insert into the table that was passed");
  if (n_calls < VP_MAXOPS) {
    r_type[n_calls] = (int)type;
    r_seq[n_calls] = seq;
    r_klen[n_calls] = key->size;
    r_vlen[n_calls] = value->size;
    for (i = 0; i < key->size && i < VP_KLEN; i++)
      r_key[n_calls][i] = key->data[i];
    for (i = 0; i < value->size && i < VP_VLEN; i++)
      r_val[n_calls][i] = value->data[i];
  }
  n_calls++;
}

static void
h_put(ldb_handler_t *h, const ldb_slice_t *key, const ldb_slice_t *value) {
  ldb_memtable_add(&the_mem, h->number++, LDB_TYPE_VALUE, key, value);
}

static void
h_del(ldb_handler_t *h, const ldb_slice_t *key) {
  ldb_slice_t empty = ldb_slice(NULL, 0);
  ldb_memtable_add(&the_mem, h->number++, LDB_TYPE_DELETION, key, &empty);
}

static void
build(ldb_batch_t *b, int first, int ops, int delmask) {
  int i;
  for (i = 0; i < ops; i++) {
    ldb_slice_t k, v;
    vp_fill(keys[first + i], VP_KLEN);
    vp_fill(vals[first + i], VP_VLEN);
    k = ldb_slice(keys[first + i], VP_KLEN);
    v = ldb_slice(vals[first + i], VP_VLEN);
    if ((delmask >> i) & 1)
      ldb_batch_del(b, &k);
    else
      ldb_batch_put(b, &k, &v);
  }
}

/* reference encoder: expected byte at position p of the body for op list */
static size_t
ref_body(uint8_t *out, int first, int ops, int delmask) {
  size_t n = 0;
  int i, j;
  for (i = 0; i < ops; i++) {
    int del = (delmask >> i) & 1;
    out[n++] = del ? 0 : 1;
    out[n++] = VP_KLEN;               /* varint32, < 128 */
    for (j = 0; j < VP_KLEN; j++) out[n++] = keys[first + i][j];
    if (!del) {
      out[n++] = VP_VLEN;
      for (j = 0; j < VP_VLEN; j++) out[n++] = vals[first + i][j];
    }
  }
  return n;
}

static void
check_replay(int ops, int delmask, uint64_t seq) {
  int i, j;
  VP_ASSERT(n_calls == ops, "every operation replayed exactly once");
  for (i = 0; i < ops; i++) {
    int del = (delmask >> i) & 1;
    VP_ASSERT(r_type[i] == (del ? 0 : 1), "replayed type in order");
    VP_ASSERT(r_seq[i] == seq + (uint64_t)i, "sequence numbers consecutive from the batch sequence");
    VP_ASSERT(r_klen[i] == VP_KLEN, "replayed key length");
    for (j = 0; j < VP_KLEN; j++)
      VP_ASSERT(r_key[i][j] == keys[i][j], "replayed key bytes");
    if (!del) {
      VP_ASSERT(r_vlen[i] == VP_VLEN, "replayed value length");
      for (j = 0; j < VP_VLEN; j++)
        VP_ASSERT(r_val[i][j] == vals[i][j], "replayed value bytes");
    } else {
      VP_ASSERT(r_vlen[i] == 0, "deletion carries an empty value");
    }
  }
}

void
harness(void) {
  static uint8_t ref[12 + VP_MAXOPS * (4 + VP_KLEN + VP_VLEN)];
  size_t n, i;
#if VP_MODE == 0
  ldb_batch_t b;
  ldb_handler_t h;
  uint64_t seq = vp_u64();
  int rc;

  ldb_batch_init(&b);
  VP_ASSERT(ldb_batch_count(&b) == 0 && ldb_batch_size(&b) == 12, "fresh batch is an empty 12-byte header");
  build(&b, 0, VP_OPS, VP_DELMASK);
  ldb_batch_set_sequence(&b, seq);

  n = ref_body(ref, 0, VP_OPS, VP_DELMASK);
  VP_ASSERT(ldb_batch_size(&b) == 12 + n, "batch size == header + records");
  VP_ASSERT(ldb_batch_count(&b) == VP_OPS, "count == operations added");
  VP_ASSERT(ldb_batch_sequence(&b) == seq, "sequence round trip");
  for (i = 0; i < 8; i++)
    VP_ASSERT(b.rep.data[i] == ((seq >> (8 * i)) & 255), "sequence little endian in bytes 0..7");
  VP_ASSERT(b.rep.data[8] == VP_OPS && b.rep.data[9] == 0 && b.rep.data[10] == 0 && b.rep.data[11] == 0, "count little endian in bytes 8..11");
  for (i = 0; i < n; i++)
    VP_ASSERT(b.rep.data[12 + i] == ref[i], "record bytes == reference layout");

  h.state = NULL; h.number = seq; h.put = h_put; h.del = h_del;
  rc = ldb_batch_iterate(&b, &h);
  VP_ASSERT(rc == LDB_OK, "iterate accepts a batch built through the API");
  check_replay(VP_OPS, VP_DELMASK, seq);

  n_calls = 0;
  rc = ldb_batch_insert_into(&b, &the_mem);
  VP_ASSERT(rc == LDB_OK, "insert_into accepts a batch built through the API");
  check_replay(VP_OPS, VP_DELMASK, seq);

  /* a wrong count is refused (recovery's last line of defence for atomicity) */
  ldb_batch_set_count(&b, VP_OPS + 1);
  n_calls = 0;
  rc = ldb_batch_iterate(&b, &h);
  VP_ASSERT(rc != LDB_OK, "count mismatch is reported as corruption");
  VP_WITNESS("roundtrip");
  ldb_batch_clear(&b);
#else
  ldb_batch_t d, s;
  uint8_t before[12 + VP_MAXOPS * (4 + VP_KLEN + VP_VLEN)];
  size_t nd, ns, ssize;
  ldb_batch_init(&d);
  ldb_batch_init(&s);
  build(&d, 0, VP_OPS, VP_DELMASK);
  build(&s, VP_OPS, VP_OPS2, VP_DELMASK2);
  ldb_batch_set_sequence(&d, vp_u64());
  ldb_batch_set_sequence(&s, vp_u64());
  ssize = ldb_batch_size(&s);
  for (i = 0; i < ssize; i++)
    before[i] = s.rep.data[i];
  nd = ref_body(ref, 0, VP_OPS, VP_DELMASK);
  ns = ref_body(ref + nd, VP_OPS, VP_OPS2, VP_DELMASK2);

  ldb_batch_append(&d, &s);

  VP_ASSERT(ldb_batch_count(&d) == VP_OPS + VP_OPS2, "append: counts add up");
  VP_ASSERT(ldb_batch_size(&d) == 12 + nd + ns, "append: size == header + both bodies");
  for (i = 0; i < nd + ns; i++)
    VP_ASSERT(d.rep.data[12 + i] == ref[i], "append: dst body then src body, byte for byte");
  VP_ASSERT(ldb_batch_size(&s) == ssize, "append: source size unchanged");
  for (i = 0; i < ssize; i++)
    VP_ASSERT(s.rep.data[i] == before[i], "append: source bytes unchanged");
  VP_WITNESS("append");
  ldb_batch_clear(&d);
  ldb_batch_clear(&s);
#endif
}
