/* envunix/rwmisc.c -- the small functions of src/util/env_unix_impl.h and the
 * read side, real code over the libc models of envunix/libc.h (C12: the libc
 * error is returned faithfully; never more bytes reported than delivered).
 *
 *  VP_M 1  ldb_remove_file / ldb_rename_file / ldb_create_dir / ldb_remove_dir /
 *          ldb_file_size / ldb_system_error: one libc call with the caller's
 *          arguments, OK iff it succeeded, else its errno (errno 0 -> LDB_IOERR)
 *  VP_M 2  ldb_sync_dir: open O_RDONLY (EINTR retried), fsync/fdatasync, close
 *          exactly once on every path; errno of open or of the sync returned;
 *          EINVAL/EBADF from the directory sync count as success
 *  VP_M 3  sequential file: ldb_seqfile_create + ldb_rfile_read(count symbolic)
 *          + ldb_rfile_skip + ldb_rfile_destroy
 *  VP_M 4  random-access file without mmap: ldb_randfile_create with the
 *          descriptor limiter granting or refusing (symbolic RLIMIT_NOFILE);
 *          ldb_rfile_pread with a kept descriptor or a per-call open+close
 *  VP_M 5  random-access file with mmap: fstat + mmap (may fail), bounds of the
 *          mapped pread (offset + count overflow, beyond the length), munmap
 *  VP_M 6  ldb_read_file: chunks appended in order with exactly the delivered
 *          sizes until end-of-file; error returned; file closed on every path
 */
#ifndef VP_M
#define VP_M 1
#endif
#ifndef VP_KEPT
#define VP_KEPT 1           /* VP_M 4: 1 limiter grants, 0 refuses, 2 symbolic limit and no pread */
#endif
#ifndef VP_MAXSZ
#define VP_MAXSZ 20000
#endif
#define VP_TOTAL (VP_MAXSZ + 17)
#define VP_NFILES 3
#define VP_MAXFD 3
#define VP_MEMCPY_BYTES 1

#include "envunix/libc.h"
#include "util/env.c"

static int vp_frees, vp_mallocs;
void *ldb_malloc(size_t size) { void *p = malloc(size); VP_ASSUME(p != NULL); vp_mallocs++; return p; }
void ldb_free(void *ptr) { vp_frees++; if (ptr != NULL) free(ptr); }
void ldb_mutex_lock(ldb_mutex_t *mtx) { (void)mtx; }
void ldb_mutex_unlock(ldb_mutex_t *mtx) { (void)mtx; }
void ldb_mutex_init(ldb_mutex_t *mtx) { (void)mtx; }
void ldb_mutex_destroy(ldb_mutex_t *mtx) { (void)mtx; }

#if VP_M == 6
/* ldb_buffer_* live in util/buffer.c (another unit): monitor only */
static size_t vp_buf_total;
static int vp_buf_appends, vp_buf_resets;
static const uint8_t *vp_buf_last_src;
void ldb_buffer_reset(ldb_buffer_t *z) { z->size = 0; vp_buf_resets++; VP_ASSERT(vp_buf_appends == 0, "reset before the first append"); }
void
ldb_buffer_append(ldb_buffer_t *z, const uint8_t *xp, size_t xn) {
  VP_ASSERT(xn > 0 && xn == vp_rd_total, "each appended chunk has exactly the size the kernel delivered for it");
  vp_buf_last_src = xp;
  vp_buf_total += xn;
  vp_buf_appends++;
  z->size += xn;
  vp_rd_total = 0;
  vp_rd_eof = 0;                      /* end-of-file is per ldb_rfile_read call; the next call must see it again */
  vp_rd_next = (unsigned char *)xp;   /* the 8 KiB scratch buffer is reused for the next chunk */
  vp_rd_room = 8192;
}
#endif

static void
vp_begin(void) {
  vp_hard_fail = 0;
  vp_hard_errno = 0;
  vp_hard_call = 0;
}

void
harness(void) {
  int rc;

  vp_names[0] = "db/CURRENT";
  vp_names[1] = "db/000007.ldb";
  vp_names[2] = "db";
  vp_name_isdir[2] = 1;
  vp_name_file[0] = 0;
  vp_name_file[1] = 1;
  vp_name_file[2] = 2;
  vp_no_einval = 1;
#if VP_M >= 3
  vp_close_error_ignored = 1;   /* read-only descriptors: the unit ignores close(2) errors */
#endif
  vp_begin();

#if VP_M == 1
  {
    uint8_t which = vp_u8();
    VP_ASSUME(which < 6);
    if (which == 0) {
      rc = ldb_remove_file(vp_names[1]);
      VP_ASSERT(vp_unlink_calls == 1 && vp_unlink_name == 1 && vp_clock == 1, "exactly unlink(name)");
    } else if (which == 1) {
      rc = ldb_rename_file(vp_names[1], vp_names[0]);
      VP_ASSERT(vp_rename_calls == 1 && vp_rename_from == 1 && vp_rename_to == 0 && vp_clock == 1, "exactly rename(from, to)");
    } else if (which == 2) {
      rc = ldb_create_dir(vp_names[2]);
      VP_ASSERT(vp_mkdir_calls == 1 && vp_mkdir_name == 2 && vp_mkdir_mode == 0755 && vp_clock == 1, "exactly mkdir(name, 0755)");
    } else if (which == 3) {
      rc = ldb_remove_dir(vp_names[2]);
      VP_ASSERT(vp_rmdir_calls == 1 && vp_rmdir_name == 2 && vp_clock == 1, "exactly rmdir(name)");
    } else if (which == 4) {
      uint64_t size = 12345;
      vp_file_size[1] = vp_u64();
      VP_ASSUME(vp_file_size[1] <= (uint64_t)INT64_MAX);
      rc = ldb_file_size(vp_names[1], &size);
      if (rc == LDB_OK)
        VP_ASSERT(size == vp_file_size[1], "file size as reported by stat(2)");
      else
        VP_ASSERT(size == 12345, "size untouched on failure");
    } else {
      int e = vp_int();
      errno = e;
      rc = ldb_system_error();
      VP_ASSERT(rc == (e == 0 ? LDB_IOERR : e), "errno is the status; errno 0 after a failure becomes LDB_IOERR");
      VP_ASSERT(rc != LDB_OK, "a failure never maps to LDB_OK");
      VP_WITNESS("system-error-mapping");
      return;
    }
    VP_ASSERT((rc == LDB_OK) == !vp_hard_fail, "OK iff the libc call succeeded");
    if (vp_hard_fail)
      VP_ASSERT(rc == vp_hard_errno, "the libc errno is returned unchanged");
    if (rc == ENOENT)
      VP_WITNESS("enoent-returned");
    if (rc == LDB_OK)
      VP_WITNESS("ok");
  }
#elif VP_M == 2
  rc = ldb_sync_dir(vp_names[2]);
  VP_ASSERT(vp_opens >= 1 && (vp_fds[2].isopen || vp_fds[2].closes == 1 || vp_hard_call == 1), "the directory was opened");
  VP_ASSERT(vp_nopen == 0 && vp_fds[2].closes <= 1, "the directory descriptor is closed exactly once, on every path");
  if (vp_fds[2].closes == 1)
    VP_ASSERT((vp_fds[2].flags & O_ACCMODE) == O_RDONLY && !(vp_fds[2].flags & (O_CREAT | O_TRUNC)), "opened read-only");
  if (rc == LDB_OK) {
    VP_ASSERT(!vp_hard_fail, "OK only if open and the sync succeeded");
    VP_ASSERT(vp_fds[2].synced >= 1 || vp_tolerated, "OK => fsync/fdatasync of the directory succeeded (or is unsupported: EINVAL/EBADF)");
  } else {
    VP_ASSERT(vp_hard_fail && rc == vp_hard_errno, "the errno of open or of the sync is returned");
  }
  if (rc == LDB_OK && vp_saw_eintr)
    VP_WITNESS("ok-after-eintr");
  if (rc == LDB_OK && vp_tolerated)
    VP_WITNESS("unsupported-directory-sync-tolerated");
  if (rc != LDB_OK && vp_hard_call == 3)
    VP_WITNESS("sync-error-returned-and-descriptor-closed");
  if (rc != LDB_OK && vp_hard_call == 1)
    VP_WITNESS("open-error-returned");
#  ifdef LDB_HAVE_FDATASYNC
  if (rc == LDB_OK && vp_saw_enosys)
    VP_WITNESS("fdatasync-enosys-falls-back-to-fsync");
#  endif
#elif VP_M == 3
  {
    ldb_rfile_t *f = NULL;
    ldb_slice_t res;
    size_t count = vp_size();
    VP_ASSUME(count <= VP_MAXSZ);
    rc = ldb_seqfile_create(vp_names[1], &f);
    if (rc != LDB_OK) {
      VP_ASSERT(vp_hard_fail && rc == vp_hard_errno && f == NULL && vp_nopen == 0, "create fails with the errno of open, nothing left");
      VP_WITNESS("create-failed");
      return;
    }
    VP_ASSERT(!vp_hard_fail && f != NULL && vp_nopen == 1 && (vp_fds[1].flags & O_ACCMODE) == O_RDONLY, "opened read-only");
    vp_read_fd = f->fd;
    vp_begin();
    res.data = NULL;
    res.size = 77;
    vp_rd_next = vp_stream;
    vp_rd_room = count;
    rc = ldb_rfile_read(f, &res, vp_stream, count);
    if (rc == LDB_OK) {
      VP_ASSERT(!vp_hard_fail, "OK only if no read failed");
      VP_ASSERT(res.data == vp_stream && res.size == vp_rd_total && res.size <= count, "result = exactly the bytes delivered, in the caller's buffer");
      VP_ASSERT(res.size == count || vp_rd_eof, "shorter only at end-of-file");
    } else {
      VP_ASSERT(vp_hard_fail && rc == vp_hard_errno, "the errno of the failed read is returned");
      VP_ASSERT(res.size == 77, "result untouched on failure");
    }
    if (rc == LDB_OK && vp_saw_short)
      VP_WITNESS("short-read-completed");
    if (rc != LDB_OK)
      VP_WITNESS("read-error-returned");
    {
      uint64_t skip = vp_u64();
      int rc2;
      vp_begin();
      rc2 = ldb_rfile_skip(f, skip);
      if (skip > (uint64_t)INT64_MAX)
        VP_ASSERT(rc2 == EINVAL && vp_lseek_calls == 0, "offsets beyond off_t are refused without a system call");
      else if (rc2 == LDB_OK)
        VP_ASSERT(!vp_hard_fail && vp_lseek_calls == 1 && vp_lseek_off == skip, "lseek(fd, n, SEEK_CUR)");
      else
        VP_ASSERT(vp_hard_fail && rc2 == vp_hard_errno, "lseek errno returned");
    }
    ldb_rfile_destroy(f);
    VP_ASSERT(vp_nopen == 0 && vp_fds[1].closes == 1, "destroy closes the descriptor exactly once");
  }
#elif VP_M == 4
  {
    ldb_rfile_t *f = NULL;
    ldb_slice_t res;
    size_t count = vp_size();
    uint64_t off = vp_u64();
    int kept;
    VP_ASSUME(count <= VP_MAXSZ);
#if VP_KEPT == 2
    vp_rlim_cur = vp_u64();       /* symbolic limit: the limiter arithmetic; no pread below */
    vp_rlim_fail = vp_bool();
#elif VP_KEPT == 1
    vp_rlim_cur = 1024;           /* 204 descriptors for tables: granted */
#else
    vp_rlim_cur = 4;              /* 4 / 5 == 0 descriptors for tables: refused */
#endif
    rc = ldb_randfile_create(vp_names[1], &f, 0);
    if (rc != LDB_OK) {
      VP_ASSERT(vp_hard_fail && rc == vp_hard_errno && f == NULL && vp_nopen == 0, "create fails with the errno of open, nothing left");
      return;
    }
    kept = (f->fd != -1);
    if (kept)
      VP_ASSERT(vp_nopen == 1 && vp_fd_ok(f->fd) && f->filename == NULL, "descriptor kept (limiter granted)");
    else
      VP_ASSERT(vp_nopen == 0 && vp_fds[1].closes == 1 && f->filename != NULL, "limiter exhausted: descriptor closed, name remembered");
    if (!vp_rlim_fail && vp_rlim_cur >= 1 && vp_rlim_cur < 5)
      VP_ASSERT(!kept, "a limit below 5 open files leaves no descriptor budget for tables");
    VP_ASSERT(f->mapped == 0, "no mapping when mmap was not asked for");
#if VP_KEPT == 2
    if (kept)
      VP_WITNESS("limiter-granted");
    else
      VP_WITNESS("limiter-refused");
    ldb_rfile_destroy(f);
    VP_ASSERT(vp_nopen == 0 && vp_fds[1].closes == 1, "destroy: descriptor closed exactly once in total");
    VP_ASSERT(ldb_fd_limiter.acquires_allowed == ldb_fd_limiter.max_acquires, "the limiter slot is given back");
    return;
#else
    VP_ASSERT(kept == VP_KEPT, "vp-model: limiter outcome as configured");
#endif

    vp_begin();
    vp_fd_base = 1;               /* a per-call open gets a fresh number */
    vp_read_fd = kept ? f->fd : VP_FD0 + 2;
    res.data = NULL;
    res.size = 77;
    vp_rd_next = vp_stream;
    vp_rd_room = count;
    vp_rd_off = off;
    rc = ldb_rfile_pread(f, &res, vp_stream, count, off);
    if (off > (uint64_t)INT64_MAX) {
      VP_ASSERT(rc == EINVAL && vp_rd_calls == 0, "offsets beyond off_t are refused without a system call");
    } else if (rc == LDB_OK) {
      VP_ASSERT(!vp_hard_fail, "OK only if nothing failed");
      VP_ASSERT(res.data == vp_stream && res.size == vp_rd_total && res.size <= count, "result = exactly the bytes delivered");
      VP_ASSERT(res.size == count || vp_rd_eof, "shorter only at end-of-file");
    } else {
      VP_ASSERT(vp_hard_fail && rc == vp_hard_errno, "errno of the failed open/pread returned");
      if (vp_hard_call == 7)
        VP_ASSERT(res.size == 0, "failed pread reports zero bytes");
    }
#if VP_KEPT == 0
    VP_ASSERT(vp_nopen == 0 && vp_fds[2].closes <= 1, "the per-call descriptor is closed again, once, also on error");
    if (rc == LDB_OK)
      VP_WITNESS("per-call-open-pread-close");
    if (rc != LDB_OK && vp_hard_call == 7)
      VP_WITNESS("per-call-descriptor-closed-after-failed-pread");
#elif VP_KEPT == 1
    VP_ASSERT(vp_nopen == 1, "the kept descriptor stays open");
    if (rc == LDB_OK && vp_saw_short)
      VP_WITNESS("kept-descriptor-short-pread-completed");
#endif
    ldb_rfile_destroy(f);
    VP_ASSERT(vp_nopen == 0 && vp_fds[1].closes == 1, "destroy: descriptor closed exactly once in total");
    VP_ASSERT(ldb_fd_limiter.acquires_allowed == ldb_fd_limiter.max_acquires, "the limiter slot is given back");
  }
#elif VP_M == 5
  {
    ldb_rfile_t *f = NULL;
    ldb_slice_t res;
    size_t count = vp_size();
    uint64_t off = vp_u64();
    vp_file_size[1] = vp_u64();
    VP_ASSUME(vp_file_size[1] <= VP_MAPMAX);
    rc = ldb_randfile_create(vp_names[1], &f, 1);
    VP_ASSERT(vp_nopen == 0 && vp_fds[1].closes <= 1, "the descriptor is closed after mapping, also on failure");
    if (rc != LDB_OK) {
      VP_ASSERT(vp_hard_fail && rc == vp_hard_errno && f == NULL, "fails with the errno of open / fstat / mmap");
      VP_ASSERT(!vp_mapped, "no mapping left");
      VP_ASSERT(ldb_mmap_limiter.acquires_allowed == ldb_mmap_limiter.max_acquires, "the mmap limiter slot is given back");
      if (vp_hard_call == 8)
        VP_WITNESS("mmap-or-fstat-failed");
      return;
    }
    VP_ASSERT(!vp_hard_fail && f->mapped && vp_mapped && f->length == vp_file_size[1] && f->base == vp_map_region, "whole file mapped");
    res.data = NULL;
    res.size = 77;
    rc = ldb_rfile_pread(f, &res, vp_stream, count, off);
    if (rc == LDB_OK) {
      VP_ASSERT(off <= f->length && count <= f->length - off, "mapped read lies inside the mapping (no overflow)");
      VP_ASSERT(res.size == count && res.data == vp_map_region + off, "slice into the mapping");
      VP_WITNESS("mapped-read");
    } else {
      VP_ASSERT(rc == EINVAL && res.size == 77, "out-of-range mapped read refused");
      VP_ASSERT(off > f->length || count > f->length - off, "refused only when out of range");
      if (off + count < count)
        VP_WITNESS("offset-overflow-refused");
    }
    VP_ASSERT(vp_rd_calls == 0, "no read system call for a mapped file");
    ldb_rfile_destroy(f);
    VP_ASSERT(!vp_mapped && vp_munmap_calls == 1, "destroy unmaps once");
    VP_ASSERT(ldb_mmap_limiter.acquires_allowed == ldb_mmap_limiter.max_acquires, "the mmap limiter slot is given back");
  }
#elif VP_M == 6
  {
    ldb_buffer_t data;
    data.data = NULL;
    data.size = 5;
    data.alloc = 0;
    vp_rd_next = NULL;
    rc = ldb_read_file(vp_names[0], &data);
    VP_ASSERT(vp_nopen == 0 && vp_fds[0].closes <= 1, "the file is closed on every path, once");
    if (rc == LDB_OK) {
      VP_ASSERT(!vp_hard_fail && vp_rd_eof, "OK only after reading up to end-of-file without error");
      VP_ASSERT(vp_buf_resets == 1 && data.size == vp_buf_total, "result = concatenation of the delivered chunks");
      if (vp_buf_appends >= 2)
        VP_WITNESS("two-chunks-then-eof");
    } else {
      VP_ASSERT(vp_hard_fail && rc == vp_hard_errno, "errno of open or read returned");
      if (vp_hard_call == 7 && vp_buf_appends >= 1)
        VP_WITNESS("read-error-after-a-chunk");
    }
  }
#endif
}
