/* envunix/libc.h -- monitoring models of the libc / POSIX calls used by
 * src/util/env_unix_impl.h, for the harnesses in harness/envunix/.
 *
 * How the real code reaches them: every harness includes this file FIRST and
 * then `#include "util/env.c"`.  All system headers that env_unix_impl.h needs
 * are included here (they are include-guarded), after that the libc names are
 * renamed by macros (open -> vp_open, write -> vp_write, ...), so the real
 * code's calls bind to the models below under CBMC and in the native replay
 * alike (no interposition of real libc symbols, ASan stays intact).
 *
 * What is modelled (everything here is part of the claim):
 *   - a descriptor table: open() number k returns descriptor VP_FD0+k or -1;
 *     every descriptor remembers what it refers to, its flags, whether it is
 *     open and how often it was closed;
 *   - every call may fail: the result kind is a symbolic byte (vp_u8), errno
 *     is a symbolic value (EINTR only while the EINTR budget lasts, so that
 *     the retry loops are bounded); after SUCCESS errno holds an arbitrary
 *     value (POSIX leaves it unspecified);
 *   - write(2) accepts all, or a symbolic short count 1..count-1 (budgeted),
 *     or fails; it never returns 0 for count > 0 (outside the model: the real
 *     loop would spin);
 *   - file CONTENTS are not modelled.  The bytes the caller appends are
 *     identified by their offset in the appended stream (the slice of the
 *     append in progress lives in the static object vp_stream[], its first
 *     byte is stream byte vp_cur_start); memcpy into
 *     the 64 KiB buffer of the writable file records which stream range the
 *     buffer holds (one contiguous run [0,run_len) <-> [run_base,run_base+run_len));
 *     write(2) translates its source pointer back to a stream offset and
 *     asserts that it continues the accepted image exactly (vp_expect).
 *     The explicit range assertions in vp_memcpy replace the byte-level
 *     bounds checks a copying model would have given.
 *   - close(2) always releases the descriptor (Linux), even when it reports an
 *     error; as in POSIX, closing ANY descriptor of a file drops the process'
 *     fcntl() record lock on that file (ghost vp_oslock[]).
 */
#ifndef VP_ENVUNIX_LIBC_H
#define VP_ENVUNIX_LIBC_H

#include <assert.h>
#include <errno.h>
#include <limits.h>
#include <stdarg.h>
#include <stdint.h>
#include <stdio.h>
#include <stdlib.h>
#include <string.h>
#include <time.h>
#include <sys/types.h>
#include <sys/time.h>
#include <sys/stat.h>
#include <dirent.h>
#include <fcntl.h>
#include <unistd.h>
#include <sys/resource.h>
#include <sys/select.h>
#include <sys/mman.h>
#include <pthread.h>

#include "vp.h"

#ifndef VP_MAXFD
#define VP_MAXFD 8          /* open() calls per run */
#endif
#define VP_FD0 3
#ifndef VP_INTRS
#define VP_INTRS 2          /* EINTR results per run */
#endif
#ifndef VP_SHORTS
#define VP_SHORTS 2         /* short write/read results per run */
#endif
#ifndef VP_TOTAL
#define VP_TOTAL 1          /* size of the appended stream object */
#endif
#ifndef VP_NFILES
#define VP_NFILES 4         /* distinct names/files a harness knows */
#endif
#define VP_WBUF 65536       /* == LDB_WRITE_BUFFER, asserted in wfile.c */

/* ---- pointer classification ------------------------------------------ */
#ifdef VP_REPLAY
#  define VP_IN(p, base, size) \
     ((uintptr_t)(p) >= (uintptr_t)(base) && (uintptr_t)(p) <= (uintptr_t)(base) + (size))
#else
#  define VP_IN(p, base, size) \
     ((p) != NULL && __CPROVER_POINTER_OBJECT(p) == __CPROVER_POINTER_OBJECT(base) && \
      __CPROVER_POINTER_OFFSET(p) >= __CPROVER_POINTER_OFFSET(base) && \
      (size_t)(__CPROVER_POINTER_OFFSET(p) - __CPROVER_POINTER_OFFSET(base)) <= (size_t)(size))
#endif

/* ---- names -------------------------------------------------------------- */
/* the harness registers the names it uses; an open()/stat()/unlink() of any
   other name is reported */
static const char *vp_names[VP_NFILES];
static int vp_name_isdir[VP_NFILES];
static int vp_name_file[VP_NFILES];     /* which underlying file (inode) the name refers to */

static int
vp_streq(const char *a, const char *b) {
  size_t i = 0;
  for (;;) {
    if (a[i] != b[i])
      return 0;
    if (a[i] == 0)
      return 1;
    i++;
  }
}

static int
vp_name_id(const char *name) {
  int i, r = -1;
  for (i = 0; i < VP_NFILES; i++) {
    if (r < 0 && vp_names[i] != NULL && vp_streq(name, vp_names[i]))
      r = i;
  }
  VP_ASSERT(r >= 0, "path handed to libc is one of the expected names");
  return r < 0 ? 0 : r;
}

/* ---- ghost state ---------------------------------------------------------- */
struct vp_fd_s {
  int isopen;
  int closes;
  int name;       /* index into vp_names */
  int flags;
  int mode;
  int cloexec;
  int synced;     /* successful fsync/fdatasync calls */
};

static struct vp_fd_s vp_fds[VP_MAXFD];
static int vp_opens;            /* open() calls so far (also the next slot) */
static int vp_nopen;            /* descriptors open right now */
static unsigned vp_clock;       /* one tick per libc call */
static int vp_intrs_left = VP_INTRS;
static int vp_shorts_left = VP_SHORTS;
#ifndef VP_FAILS
#define VP_FAILS 1000       /* hard failures per run (sequence harnesses lower it) */
#endif
static int vp_fails_left = VP_FAILS;

/* what happened (witnesses, post-conditions) */
static int vp_saw_eintr, vp_saw_short, vp_saw_einval_open, vp_saw_enosys;
static int vp_hard_fail;        /* a libc call failed (not EINTR/ENOSYS/retry) in the current API call */
static int vp_hard_errno;       /* its errno */
static int vp_hard_call;        /* 1 open 2 write 3 sync 4 close 5 fstat 6 fcntl 7 read 8 other */
static int vp_tolerated;        /* directory fsync failed with EINVAL/EBADF */
static int vp_faults = 1;       /* harness may switch all hard failures off */
static int vp_no_einval;        /* harness: open(2) never rejects O_CLOEXEC (that path is checked by wfile create) */
static int vp_close_error_ignored; /* harness: the unit ignores close(2) errors by design (lock file descriptors) */
static int vp_quiet;            /* harness: every call succeeds (set-up phases checked elsewhere) */

/* writable-file monitor */
static unsigned char vp_stream[VP_TOTAL];     /* the caller's data of the append in progress: byte i of it is
                                                 stream byte vp_cur_start + i (identity of the appended bytes) */
static const unsigned char *vp_wbuf;          /* the 64 KiB buffer of the file under test */
static int vp_data_fd = -1;
static size_t vp_cur_start, vp_cur_end;       /* stream slice of the append in progress */
static size_t vp_expect;                      /* stream offset the next accepted byte must have */
static size_t vp_accepted;                    /* bytes accepted by write(2) */
static size_t vp_run_base, vp_run_len;        /* buffer [0,run_len) holds stream [run_base, +run_len) */
static int vp_run_bad;
static int vp_write_failed;                   /* write(2) failed hard in the current API call */
static unsigned vp_last_write_tick, vp_data_sync_tick, vp_dir_sync_tick, vp_dir_open_tick, vp_dir_close_tick;
static int vp_dir_opens, vp_dir_fd = -1;
static int vp_write_calls, vp_direct_writes;

/* POSIX record locks: per underlying file */
static int vp_oslock[VP_NFILES];              /* this process holds the fcntl write lock */
static int vp_setlk_calls, vp_unlck_calls;

static int
vp_pick_errno(void) {
  int e = vp_int();
  VP_ASSUME(e > 0 && e < 4096 && e != EINTR);
  return e;
}

static void
vp_scramble_errno(void) {
  /* POSIX: the value of errno after a successful call is unspecified */
  errno = vp_int();
}

static void
vp_fail_hard(int call, int e) {
  if (!vp_hard_fail) {
    vp_hard_fail = 1;
    vp_hard_errno = e;
    vp_hard_call = call;
  }
  errno = e;
}

/* Descriptor numbers are CONCRETE: open() of name i returns
   VP_FD0 + vp_fd_base + i; the harness moves vp_fd_base between API calls when
   the same name can be open more than once (lock file).  A failed open does
   not consume a number, POSIX-like reuse of closed numbers is not modelled
   (a number is never reused, so use-after-close is always seen). */
static int vp_fd_base;
static int vp_fd_by_name = 1;   /* 0: number = VP_FD0 + vp_fd_base (one open per API call) */

static int
vp_fd_ok(int fd) {
  if (fd < VP_FD0 || fd >= VP_FD0 + VP_MAXFD)
    return 0;
  return vp_fds[fd - VP_FD0].isopen;
}

static int
vp_fd_name(int fd) {
  if (fd < VP_FD0 || fd >= VP_FD0 + VP_MAXFD)
    return 0;
  return vp_fds[fd - VP_FD0].name;
}

/* result kinds of a fallible call */
#define VP_R_OK 0
#define VP_R_EINTR 1
#define VP_R_FAIL 2
#define VP_R_SPECIAL 3   /* short count / EINVAL on open / ENOSYS on fdatasync */

static int
vp_kind(int allow_special) {
  uint8_t k;
  if (vp_quiet)
    return VP_R_OK;
  k = vp_u8();
  VP_ASSUME(k <= 3);
  if (k == VP_R_EINTR) {
    VP_ASSUME(vp_intrs_left > 0);
    vp_intrs_left--;
    vp_saw_eintr = 1;
  }
  if (k == VP_R_FAIL) {
    VP_ASSUME(vp_faults && vp_fails_left > 0);
    vp_fails_left--;
  }
  if (k == VP_R_SPECIAL)
    VP_ASSUME(allow_special);
  return k;
}

/* ---- open / close -------------------------------------------------------- */
static int
vp_open(const char *name, int flags, ...) {
  int k, slot, id, mode = 0;
  va_list ap;

  if (flags & O_CREAT) {
    va_start(ap, flags);
    mode = va_arg(ap, int);
    va_end(ap);
  }

  vp_clock++;
  id = vp_name_id(name);
  slot = vp_fd_base + (vp_fd_by_name ? id : 0);
  VP_ASSERT(slot >= 0 && slot < VP_MAXFD, "vp-model: descriptor table full");
  VP_ASSERT(!vp_fds[slot].isopen && vp_fds[slot].closes == 0, "vp-model: descriptor number already used");
  vp_opens++;

  /* EINVAL: the kernel rejects O_CLOEXEC (the real code retries without) */
  k = vp_kind((flags & O_CLOEXEC) != 0 && !vp_no_einval);

  if (k == VP_R_EINTR) {
    errno = EINTR;
    return -1;
  }
  if (k == VP_R_SPECIAL) {
    vp_saw_einval_open = 1;
    errno = EINVAL;
    return -1;
  }
  if (k == VP_R_FAIL) {
    int e = vp_pick_errno();
    /* EINVAL with O_CLOEXEC set is the "special" result above */
    VP_ASSUME(!(flags & O_CLOEXEC) || e != EINVAL);
    vp_fail_hard(1, e);
    return -1;
  }

  vp_fds[slot].isopen = 1;
  vp_fds[slot].closes = 0;
  vp_fds[slot].name = id;
  vp_fds[slot].flags = flags;
  vp_fds[slot].mode = mode;
  vp_fds[slot].cloexec = (flags & O_CLOEXEC) != 0;
  vp_fds[slot].synced = 0;
  vp_nopen++;
  if (vp_name_isdir[id]) {
    vp_dir_opens++;
    vp_dir_fd = VP_FD0 + slot;
    vp_dir_open_tick = vp_clock;
  }
  vp_scramble_errno();
  return VP_FD0 + slot;
}

static int
vp_close(int fd) {
  int i, k, known = 0, isdir = 0;

  vp_clock++;
  if (fd >= VP_FD0 && fd < VP_FD0 + VP_MAXFD) {
    i = fd - VP_FD0;
    known = vp_fds[i].isopen || vp_fds[i].closes > 0;
    isdir = vp_name_isdir[vp_fds[i].name];
    VP_ASSERT(vp_fds[i].isopen, "close(2) only of an open descriptor (no double close)");
    if (vp_fds[i].isopen)
      vp_nopen--;
    vp_fds[i].isopen = 0;
    vp_fds[i].closes++;
    /* POSIX: all record locks of the process on this file go away */
    vp_oslock[vp_name_file[vp_fds[i].name]] = 0;
  }
  VP_ASSERT(known, "close(2) of a descriptor that open(2) returned");
  if (fd == vp_dir_fd)
    vp_dir_close_tick = vp_clock;

  k = vp_kind(0);
  VP_ASSUME(k != VP_R_EINTR);   /* budget is for the retry loops; close is never retried */
  if (k == VP_R_FAIL) {
    /* a failing close(2) of a read-only directory descriptor is harmless and
       ignored by the real code: not recorded as a failed step */
    if (isdir || vp_close_error_ignored)
      errno = vp_pick_errno();
    else
      vp_fail_hard(4, vp_pick_errno());
    return -1;
  }
  vp_scramble_errno();
  return 0;
}

/* ---- memcpy into the write buffer -------------------------------------- */
static void *
vp_memcpy(void *dst, const void *src, size_t n) {
#ifdef VP_REPLAY
  int inbuf = vp_wbuf != NULL && VP_IN(dst, vp_wbuf, VP_WBUF);
#else
  /* by OBJECT only: the range is asserted below (memory safety of the copy) */
  int inbuf = vp_wbuf != NULL && dst != NULL &&
              __CPROVER_POINTER_OBJECT(dst) == __CPROVER_POINTER_OBJECT(vp_wbuf);
#endif
  if (inbuf) {
    size_t d = (size_t)((const unsigned char *)dst - vp_wbuf);
    VP_ASSERT(VP_IN(dst, vp_wbuf, VP_WBUF) && d + n <= VP_WBUF && d + n >= d,
              "memcpy stays inside the 64 KiB write buffer");
    if (VP_IN(src, vp_stream, VP_TOTAL)) {
      size_t s = (size_t)((const unsigned char *)src - vp_stream) + vp_cur_start;
      VP_ASSERT(s >= vp_cur_start && s + n <= vp_cur_end && s + n >= s,
                "memcpy reads only the slice the caller passed to append");
      if (n > 0) {
        if (d == 0) {
          vp_run_base = s;
          vp_run_len = n;
          vp_run_bad = 0;
        } else if (!vp_run_bad && d == vp_run_len && s == vp_run_base + vp_run_len) {
          vp_run_len += n;
        } else {
          vp_run_bad = 1;
        }
      }
    } else {
      vp_run_bad = 1;
    }
#ifdef VP_REPLAY
    if (d + n <= VP_WBUF)
      __builtin_memcpy(dst, src, n);
#endif
    return dst;
  }
#ifdef VP_MEMCPY_BYTES
  {
    /* small copies elsewhere in env_unix_impl.h (ldb_strdup) */
    unsigned char *dp = (unsigned char *)dst;
    const unsigned char *sp = (const unsigned char *)src;
    size_t i;
    for (i = 0; i < n; i++)
      dp[i] = sp[i];
  }
#else
  VP_ASSERT(0, "vp-model: memcpy outside the write buffer is not expected in this harness");
#endif
  return dst;
}

/* ---- write ------------------------------------------------------------------ */
static ssize_t
vp_write(int fd, const void *buf, size_t count) {
  size_t soff = 0;
  int k;

  vp_clock++;
  vp_write_calls++;
  VP_ASSERT(vp_fd_ok(fd), "write(2) on an open descriptor");
  VP_ASSERT(fd == vp_data_fd, "write(2) goes to the descriptor of the file");
  VP_ASSERT(!vp_write_failed, "no further write(2) after a failed write(2) inside one call");
  VP_ASSERT(count >= 1 && count <= ((size_t)1 << 30), "write(2) count in 1..2^30");

  if (vp_wbuf != NULL && VP_IN(buf, vp_wbuf, VP_WBUF)) {
    size_t o = (size_t)((const unsigned char *)buf - vp_wbuf);
    VP_ASSERT(!vp_run_bad, "the buffer holds one contiguous piece of the appended stream");
    VP_ASSERT(o + count <= vp_run_len, "write(2) sends only bytes that append copied into the buffer");
    soff = vp_run_base + o;
  } else if (VP_IN(buf, vp_stream, VP_TOTAL)) {
    soff = (size_t)((const unsigned char *)buf - vp_stream) + vp_cur_start;
    VP_ASSERT(soff >= vp_cur_start && soff + count <= vp_cur_end,
              "unbuffered write(2) sends only bytes of the slice being appended");
    vp_direct_writes++;
  } else {
    VP_ASSERT(0, "write(2) source is the file's buffer or the caller's data");
  }

  VP_ASSERT(soff == vp_expect,
            "write(2) continues the accepted image exactly: in order, no gap, no byte sent twice");

  k = vp_kind(count >= 2);

  if (k == VP_R_EINTR) {
    errno = EINTR;
    return -1;
  }
  if (k == VP_R_FAIL) {
    vp_write_failed = 1;
    vp_fail_hard(2, vp_pick_errno());
    return -1;
  }
  if (k == VP_R_SPECIAL) {
    size_t r = vp_size();
    VP_ASSUME(vp_shorts_left > 0);
    vp_shorts_left--;
    VP_ASSUME(r >= 1 && r < count);
    vp_saw_short = 1;
    count = r;
  }
  vp_expect += count;
  vp_accepted += count;
  vp_last_write_tick = vp_clock;
  vp_scramble_errno();
  return (ssize_t)count;
}

/* ---- fsync / fdatasync --------------------------------------------------- */
static int
vp_sync_common(int fd, int is_fdatasync) {
  int k, isdir;

  vp_clock++;
  VP_ASSERT(vp_fd_ok(fd), "fsync/fdatasync on an open descriptor");
  isdir = vp_name_isdir[vp_fd_name(fd)];
  k = vp_kind(1);

  if (k == VP_R_EINTR) {
    errno = EINTR;
    return -1;
  }
  if (k == VP_R_SPECIAL) {
    if (is_fdatasync) {
      /* kernel without fdatasync: the real code falls back to fsync */
      vp_saw_enosys = 1;
      errno = ENOSYS;
      return -1;
    }
    /* fsync: file systems that cannot sync a directory */
    VP_ASSUME(isdir);
    vp_tolerated = 1;
    errno = vp_bool() ? EINVAL : EBADF;
    vp_dir_sync_tick = vp_clock;
    return -1;
  }
  if (k == VP_R_FAIL) {
    int e = vp_pick_errno();
    VP_ASSUME(e != ENOSYS);
    if (isdir)
      VP_ASSUME(e != EINVAL && e != EBADF);
    vp_fail_hard(3, e);
    return -1;
  }
  if (fd >= VP_FD0 && fd < VP_FD0 + VP_MAXFD)
    vp_fds[fd - VP_FD0].synced++;
  if (isdir)
    vp_dir_sync_tick = vp_clock;
  else if (fd == vp_data_fd)
    vp_data_sync_tick = vp_clock;
  vp_scramble_errno();
  return 0;
}

static int vp_fsync(int fd) { return vp_sync_common(fd, 0); }
static int vp_fdatasync(int fd) { return vp_sync_common(fd, 1); }

/* ---- fcntl ------------------------------------------------------------------- */
static int
vp_fcntl(int fd, int cmd, ...) {
  va_list ap;
  int k;

  vp_clock++;
  VP_ASSERT(vp_fd_ok(fd), "fcntl on an open descriptor");

  if (cmd == F_GETFD) {
    if (vp_bool()) {
      errno = vp_pick_errno();
      return -1;
    }
    vp_scramble_errno();
    return 0;
  }

  if (cmd == F_SETFD) {
    int arg;
    va_start(ap, cmd);
    arg = va_arg(ap, int);
    va_end(ap);
    if (fd >= VP_FD0 && fd < VP_FD0 + VP_MAXFD)
      vp_fds[fd - VP_FD0].cloexec = (arg & FD_CLOEXEC) != 0;
    vp_scramble_errno();
    return 0;
  }

  if (cmd == F_SETLK) {
    struct flock *fl;
    int file = vp_name_file[vp_fd_name(fd)];
    int type, whole;
    va_start(ap, cmd);
    fl = va_arg(ap, struct flock *);
    va_end(ap);
    type = fl->l_type;
    whole = (fl->l_whence == SEEK_SET && fl->l_start == 0 && fl->l_len == 0);
    VP_ASSERT(whole, "F_SETLK covers the whole file");
    VP_ASSERT(type == F_WRLCK || type == F_UNLCK, "F_SETLK takes or drops a write lock");
    if (type == F_WRLCK)
      vp_setlk_calls++;
    else
      vp_unlck_calls++;
    k = vp_kind(0);
    VP_ASSUME(k != VP_R_EINTR);  /* F_SETLK does not block */
    if (k == VP_R_FAIL) {
      /* EAGAIN/EACCES: another process holds it; or any other errno */
      vp_fail_hard(6, vp_pick_errno());
      return -1;
    }
    vp_oslock[file] = (type == F_WRLCK);
    vp_scramble_errno();
    return 0;
  }

  VP_ASSERT(0, "vp-model: fcntl command not modelled");
  return -1;
}


/* ---- read / pread / lseek (contents not modelled: where the bytes go) ------ */
static int vp_read_fd = -1;                 /* descriptor reads are expected on (-1: any open one) */
static unsigned char *vp_rd_next;           /* where the next chunk must be stored */
static size_t vp_rd_room;                   /* bytes the caller's buffer still has from vp_rd_next */
static size_t vp_rd_total;                  /* bytes delivered by read/pread in the current API call */
static uint64_t vp_rd_off;                  /* file offset the next pread must use */
static int vp_rd_calls, vp_rd_eof, vp_lseek_calls;
#ifndef VP_READS
#define VP_READS 1000       /* reads that deliver bytes, per run */
#endif
static int vp_reads_left = VP_READS;
static uint64_t vp_lseek_off;

static ssize_t
vp_read_common(int fd, void *buf, size_t count, int positional, uint64_t off) {
  int k;
  size_t n;

  vp_clock++;
  vp_rd_calls++;
  VP_ASSERT(vp_fd_ok(fd), "read/pread on an open descriptor");
  VP_ASSERT(vp_read_fd < 0 || fd == vp_read_fd, "read/pread on the descriptor of the file");
  VP_ASSERT(!vp_hard_fail, "no further read after a failed read inside one call");
  VP_ASSERT(!vp_rd_eof, "no further read after end-of-file inside one call");
  if (vp_rd_next == NULL) {
    /* first read into a buffer the harness cannot name (a local of the unit) */
    vp_rd_next = (unsigned char *)buf;
    vp_rd_room = count;
  }
  VP_ASSERT((unsigned char *)buf == vp_rd_next, "each chunk is stored right behind the previous one");
  VP_ASSERT(count >= 1 && count <= vp_rd_room && count <= ((size_t)1 << 30), "read count in 1..min(room left, 2^30)");
  if (positional)
    VP_ASSERT(off == vp_rd_off, "pread offset advances by the bytes already read");

  k = vp_kind(1);
  if (k == VP_R_EINTR) {
    errno = EINTR;
    return -1;
  }
  if (k == VP_R_FAIL) {
    vp_fail_hard(7, vp_pick_errno());
    return -1;
  }
  if (k == VP_R_SPECIAL) {
    /* fewer bytes than asked for: 0 = end of file, else a short read */
    n = vp_size();
    VP_ASSUME(n < count);
    if (n == 0) {
      vp_rd_eof = 1;
    } else {
      VP_ASSUME(vp_shorts_left > 0);
      vp_shorts_left--;
      vp_saw_short = 1;
    }
  } else {
    n = count;
  }
  if (n > 0) {
    VP_ASSUME(vp_reads_left > 0);   /* the file is finite */
    vp_reads_left--;
  }
  vp_rd_next += n;
  vp_rd_room -= n;
  vp_rd_total += n;
  vp_rd_off += n;
  vp_scramble_errno();
  return (ssize_t)n;
}

static ssize_t vp_read(int fd, void *buf, size_t count) { return vp_read_common(fd, buf, count, 0, 0); }
static ssize_t vp_pread(int fd, void *buf, size_t count, off_t off) { return vp_read_common(fd, buf, count, 1, (uint64_t)off); }

static off_t
vp_lseek(int fd, off_t off, int whence) {
  int k;
  vp_clock++;
  vp_lseek_calls++;
  VP_ASSERT(vp_fd_ok(fd), "lseek on an open descriptor");
  k = vp_kind(0);
  VP_ASSUME(k != VP_R_EINTR);
  if (k == VP_R_FAIL) {
    vp_fail_hard(8, vp_pick_errno());
    return (off_t)-1;
  }
  vp_lseek_off = (uint64_t)off;
  (void)whence;
  vp_scramble_errno();
  return off;
}

/* ---- fstat / stat: symbolic (dev, ino) per underlying file --------------- */
static uint64_t vp_file_dev[VP_NFILES], vp_file_ino[VP_NFILES];
static uint64_t vp_file_size[VP_NFILES];
static int vp_fstat_calls;

static int
vp_fstat(int fd, struct stat *st) {
  int k, f;
  vp_clock++;
  vp_fstat_calls++;
  VP_ASSERT(vp_fd_ok(fd), "fstat on an open descriptor");
  k = vp_kind(0);
  VP_ASSUME(k != VP_R_EINTR);
  if (k == VP_R_FAIL) {
    vp_fail_hard(5, vp_pick_errno());
    return -1;
  }
  f = vp_name_file[vp_fd_name(fd)];
  st->st_dev = (dev_t)vp_file_dev[f];
  st->st_ino = (ino_t)vp_file_ino[f];
  st->st_size = (off_t)vp_file_size[f];
  st->st_mode = S_IFREG | 0644;
  vp_scramble_errno();
  return 0;
}

static int vp_stat_calls;
static int vp_stat_soft;                    /* harness: the unit treats a failing stat(2) as "unknown", not as an error */
static int vp_stat_reliable[VP_NFILES];     /* harness: stat(2) of this file does not fail (see lockfile.c) */

static int
vp_stat(const char *path, struct stat *st) {
  int k, f;
  vp_clock++;
  vp_stat_calls++;
  f = vp_name_file[vp_name_id(path)];
  k = vp_kind(0);
  VP_ASSUME(k != VP_R_EINTR);
  if (k == VP_R_FAIL) {
    VP_ASSUME(!vp_stat_reliable[f]);
    if (vp_stat_soft)
      errno = vp_pick_errno();
    else
      vp_fail_hard(8, vp_pick_errno());
    return -1;
  }
  st->st_dev = (dev_t)vp_file_dev[f];
  st->st_ino = (ino_t)vp_file_ino[f];
  st->st_size = (off_t)vp_file_size[f];
  st->st_mode = S_IFREG | 0644;
  vp_scramble_errno();
  return 0;
}

/* ---- path operations: unlink / rename / mkdir / rmdir ---------------------- */
static int vp_unlink_calls, vp_rename_calls, vp_mkdir_calls, vp_rmdir_calls;
static int vp_unlink_name = -1, vp_rename_from = -1, vp_rename_to = -1, vp_mkdir_name = -1, vp_mkdir_mode, vp_rmdir_name = -1;
static unsigned vp_unlink_tick;

static int
vp_path_result(void) {
  int k = vp_kind(0);
  VP_ASSUME(k != VP_R_EINTR);
  if (k == VP_R_FAIL) {
    vp_fail_hard(8, vp_pick_errno());
    return -1;
  }
  vp_scramble_errno();
  return 0;
}

static int
vp_unlink(const char *path) {
  vp_clock++;
  vp_unlink_calls++;
  vp_unlink_name = vp_name_id(path);
  vp_unlink_tick = vp_clock;
  return vp_path_result();
}

static int
vp_rename(const char *from, const char *to) {
  vp_clock++;
  vp_rename_calls++;
  vp_rename_from = vp_name_id(from);
  vp_rename_to = vp_name_id(to);
  return vp_path_result();
}

static int
vp_mkdir(const char *path, mode_t mode) {
  vp_clock++;
  vp_mkdir_calls++;
  vp_mkdir_name = vp_name_id(path);
  vp_mkdir_mode = (int)mode;
  return vp_path_result();
}

static int
vp_rmdir(const char *path) {
  vp_clock++;
  vp_rmdir_calls++;
  vp_rmdir_name = vp_name_id(path);
  return vp_path_result();
}


/* ---- mmap / munmap / getrlimit / pthread_once -------------------------------- */
#ifndef VP_MAPMAX
#define VP_MAPMAX 64
#endif
static unsigned char vp_map_region[VP_MAPMAX];
static int vp_mmap_calls, vp_munmap_calls, vp_mapped;
static size_t vp_map_len;

static void *
vp_mmap(void *addr, size_t length, int prot, int flags, int fd, off_t offset) {
  int k;
  vp_clock++;
  vp_mmap_calls++;
  VP_ASSERT(vp_fd_ok(fd), "mmap of an open descriptor");
  VP_ASSERT(addr == NULL && offset == 0 && prot == PROT_READ && (flags & MAP_SHARED), "read-only shared mapping of the whole file");
  VP_ASSERT(length <= VP_MAPMAX, "vp-model: mapping larger than the model region");
  k = vp_kind(0);
  VP_ASSUME(k != VP_R_EINTR);
  if (k == VP_R_FAIL) {
    vp_fail_hard(8, vp_pick_errno());
    return MAP_FAILED;
  }
  vp_mapped = 1;
  vp_map_len = length;
  vp_scramble_errno();
  return vp_map_region;
}

static int
vp_munmap(void *addr, size_t length) {
  vp_clock++;
  vp_munmap_calls++;
  VP_ASSERT(vp_mapped && addr == (void *)vp_map_region && length == vp_map_len, "munmap of exactly the mapping made");
  vp_mapped = 0;
  return 0;
}

static uint64_t vp_rlim_cur;
static int vp_rlim_fail;

static int
vp_getrlimit(int what, struct rlimit *r) {
  (void)what;
  if (vp_rlim_fail)
    return -1;
  r->rlim_cur = (rlim_t)vp_rlim_cur;
  r->rlim_max = (rlim_t)vp_rlim_cur;
  return 0;
}

static int vp_once_done;

static int
vp_pthread_once(pthread_once_t *guard, void (*fn)(void)) {
  (void)guard;
  if (!vp_once_done) {
    vp_once_done = 1;
    fn();
  }
  return 0;
}

/* ---- the renaming ------------------------------------------------------------ */
#define open vp_open
#define close vp_close
#define write vp_write
#define fsync vp_fsync
#define fdatasync vp_fdatasync
#define fcntl vp_fcntl
#define memcpy vp_memcpy
#define read vp_read
#define pread vp_pread
#define lseek vp_lseek
#define fstat vp_fstat
#define stat(p, s) vp_stat(p, s)
#define unlink vp_unlink
#define rename vp_rename
#define mkdir vp_mkdir
#define rmdir vp_rmdir
#define mmap vp_mmap
#define munmap vp_munmap
#define getrlimit vp_getrlimit
#define pthread_once vp_pthread_once

#endif /* VP_ENVUNIX_LIBC_H */
