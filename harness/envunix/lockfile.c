/* envunix/lockfile.c -- C20.a: the real ldb_lock_file / ldb_unlock_file of
 * src/util/env_unix_impl.h (with the real in-process lock table: the rb_set
 * `file_set` of util/rbt.c keyed by (st_dev, st_ino), the real ldb_open,
 * ldb_flock, ldb_system_error) over the libc models of envunix/libc.h.
 *
 * VP_K operations in a row, each chosen symbolically: lock one of three
 * names, or unlock one of the handles obtained earlier.  Two of the names
 * refer to the SAME underlying file (same symbolic (dev,ino): a hard link or a
 * second path to the same directory), the third to another file.
 *
 * Reference: held[file] -- a file is held from a successful lock until the
 * unlock of that handle.  Asserted after every operation:
 *   - lock returns OK  <=>  the file was not held and no libc call failed;
 *     a second lock on a held file fails (ENOLCK) however it is named;
 *   - OK: the descriptor stays open, fcntl(F_SETLK, F_WRLCK, whole file)
 *     succeeded on it, a handle is returned;
 *   - failure (open / fstat / fcntl / already held): the errno of the first
 *     failing call (or ENOLCK) is returned, the descriptor opened in this call
 *     is closed again, no handle is returned, and the table is unchanged
 *     (observed through the outcome of every later operation);
 *   - unlock: F_UNLCK on the handle's descriptor, descriptor closed exactly
 *     once, handle freed, entry removed (a later lock of the file succeeds),
 *     the fcntl error (if any) is returned;
 *   - file_mutex is taken and released exactly once per call.
 *
 * VP_POSIXCLOSE 1 adds the OS-level view: POSIX record locks belong to the
 * process and are dropped when the process closes ANY descriptor of the file.
 * Asserted: a file that is held according to the table is still locked at the
 * OS level.  (Known weakness, inherited from LevelDB: see the finding.)
 */
#ifndef VP_K
#define VP_K 3
#endif
#ifndef VP_POSIXCLOSE
#define VP_POSIXCLOSE 0
#endif
#define VP_NFILES 3
#define VP_MAXFD VP_K
#define VP_MEMCPY_BYTES 1

#include "envunix/libc.h"
#include "util/env.c"

/* ---- allocator and mutex models ------------------------------------------ */
static int vp_frees;
static void *vp_last_freed;

void *ldb_malloc(size_t size) { void *p = malloc(size); VP_ASSUME(p != NULL); return p; }
void ldb_free(void *ptr) { vp_frees++; vp_last_freed = ptr; if (ptr != NULL) free(ptr); }

static int vp_mutex_held, vp_mutex_locks, vp_mutex_unlocks;

void
ldb_mutex_lock(ldb_mutex_t *mtx) {
  VP_ASSERT(mtx == &file_mutex, "only file_mutex is used");
  VP_ASSERT(!vp_mutex_held, "file_mutex is not taken twice");
  vp_mutex_held = 1;
  vp_mutex_locks++;
}

void
ldb_mutex_unlock(ldb_mutex_t *mtx) {
  VP_ASSERT(mtx == &file_mutex && vp_mutex_held, "file_mutex released by its holder");
  vp_mutex_held = 0;
  vp_mutex_unlocks++;
}

/* ---- reference model --------------------------------------------------------- */
static const char *const vp_lock_names[3] = { "db/LOCK", "alias/LOCK", "other/LOCK" };
static int vp_held[2];                  /* by underlying file */
static ldb_filelock_t *vp_h_ptr[VP_K];
static int vp_h_used[VP_K], vp_h_file[VP_K], vp_h_fd[VP_K];
static int vp_second_refused, vp_relocked, vp_failed_closed, vp_alias_refused, vp_unlock_err;

static void
vp_check_os(void) {
#if VP_POSIXCLOSE
  int f;
  for (f = 0; f < 2; f++)
    VP_ASSERT(!vp_held[f] || vp_oslock[f],
              "vp:KF:C20-lockfile-close-drops-posix-lock a held lock file is still locked at the OS level");
#endif
}

static void
vp_op_lock(int k) {
  uint8_t n = vp_u8();
  ldb_filelock_t *lk = NULL;
  int f, rc, nopen0 = vp_nopen, washeld, wasunlocked;
  int frees0 = vp_frees;

  VP_ASSUME(n < 3);
  f = (n == 2) ? 1 : 0;
  washeld = vp_held[f];
  wasunlocked = 0;
  {
    int j;
    for (j = 0; j < k; j++)
      if (vp_h_ptr[j] != NULL && !vp_h_used[j] && vp_h_file[j] == f)
        wasunlocked = 1;
  }

  vp_hard_fail = 0;
  vp_hard_errno = 0;
  vp_hard_call = 0;
  vp_fd_base = k;
  rc = ldb_lock_file(vp_lock_names[n], &lk);

  VP_ASSERT(!vp_mutex_held && vp_mutex_locks == vp_mutex_unlocks, "file_mutex released on every path");

  if (washeld) {
    VP_ASSERT(rc != LDB_OK, "a second lock on a file that is held fails, whatever name is used");
    if (!vp_hard_fail)
      VP_ASSERT(rc == LDB_ENOLCK, "already held by this process: ENOLCK");
  }

  if (rc == LDB_OK) {
    VP_ASSERT(!vp_hard_fail, "lock succeeds only if open, fstat and fcntl succeeded");
    VP_ASSERT(lk != NULL, "a handle is returned");
    VP_ASSERT(vp_nopen == nopen0 + 1 && lk->fd == VP_FD0 + k && vp_fd_ok(lk->fd), "the descriptor opened in this call stays open");
    VP_ASSERT(vp_oslock[f], "the fcntl write lock was taken on it");
    VP_ASSERT((vp_fds[k].flags & O_ACCMODE) == O_RDWR && (vp_fds[k].flags & O_CREAT) && !(vp_fds[k].flags & O_TRUNC),
              "lock file opened read-write, created if missing, never truncated");
    vp_held[f] = 1;
    vp_h_ptr[k] = lk;
    vp_h_used[k] = 1;
    vp_h_file[k] = f;
    vp_h_fd[k] = lk->fd;
    if (wasunlocked)
      vp_relocked = 1;
  } else {
    VP_ASSERT(washeld || vp_hard_fail, "a free file is locked successfully when every libc call succeeds");
    if (vp_hard_fail)
      VP_ASSERT(rc == vp_hard_errno, "the errno of the first failing call is returned");
    VP_ASSERT(vp_nopen == nopen0, "failure: the descriptor opened in this call is closed again");
    VP_ASSERT(vp_fds[k].closes <= 1, "and closed only once");
    VP_ASSERT(lk == NULL, "failure: no handle is returned");
    VP_ASSERT(vp_frees == frees0, "failure: nothing is freed");
    if (washeld && !vp_hard_fail) {
      vp_second_refused = 1;
      if (n == 1 || (n == 0 && vp_h_used[0] && 0))
        vp_alias_refused = 1;
    }
    if (vp_hard_fail && vp_fds[k].closes == 1)
      vp_failed_closed = 1;
  }
  vp_check_os();
}

static void
vp_op_unlock(int k) {
  uint8_t j = vp_u8();
  int i, rc, f = 0, fd = -1, nopen0 = vp_nopen, unl0 = vp_unlck_calls, frees0 = vp_frees;
  ldb_filelock_t *lk = NULL;

  VP_ASSUME(j < k);
  for (i = 0; i < VP_K; i++) {
    if (i == j) {
      VP_ASSUME(vp_h_used[i]);
      lk = vp_h_ptr[i];
      f = vp_h_file[i];
      fd = vp_h_fd[i];
      vp_h_used[i] = 0;
    }
  }

  vp_hard_fail = 0;
  vp_hard_errno = 0;
  vp_hard_call = 0;
  rc = ldb_unlock_file(lk);

  VP_ASSERT(!vp_mutex_held && vp_mutex_locks == vp_mutex_unlocks, "file_mutex released on every path");
  VP_ASSERT(vp_unlck_calls == unl0 + 1, "unlock issues F_UNLCK");
  VP_ASSERT(vp_nopen == nopen0 - 1 && !vp_fd_ok(fd), "unlock closes the handle's descriptor");
  for (i = 0; i < VP_K; i++)
    VP_ASSERT(vp_fds[i].closes <= 1, "no descriptor is closed twice");
  VP_ASSERT(!vp_oslock[f], "the OS-level lock is released");
  VP_ASSERT(vp_frees == frees0 + 1 && vp_last_freed == (void *)lk, "the handle is freed once");
  if (vp_hard_fail && vp_hard_call == 6) {
    VP_ASSERT(rc == vp_hard_errno, "a failing F_UNLCK is reported");
    vp_unlock_err = 1;
  } else {
    VP_ASSERT(rc == LDB_OK, "unlock succeeds (a failing close(2) of the lock descriptor is ignored)");
  }
  vp_held[f] = 0;
  vp_check_os();
}

void
harness(void) {
  int k;

  vp_names[0] = vp_lock_names[0];
  vp_names[1] = vp_lock_names[1];
  vp_names[2] = vp_lock_names[2];
  vp_name_file[0] = 0;
  vp_name_file[1] = 0;
  vp_name_file[2] = 1;
  vp_fd_by_name = 0;
  vp_file_dev[0] = vp_u64();
  vp_file_ino[0] = vp_u64();
  vp_file_dev[1] = vp_u64();
  vp_file_ino[1] = vp_u64();
  VP_ASSUME(vp_file_dev[0] != vp_file_dev[1] || vp_file_ino[0] != vp_file_ino[1]);

  for (k = 0; k < VP_K; k++) {
    if (k > 0 && vp_bool())
      vp_op_unlock(k);
    else
      vp_op_lock(k);
  }

  /* everything still held can be released */
  if (vp_second_refused)
    VP_WITNESS("second-lock-refused-enolck");
  if (vp_alias_refused)
    VP_WITNESS("second-lock-through-another-name-refused");
  if (vp_relocked)
    VP_WITNESS("lock-after-unlock-succeeds");
  if (vp_failed_closed)
    VP_WITNESS("failure-path-closes-descriptor");
  if (vp_unlock_err)
    VP_WITNESS("unlock-error-reported");
  if (vp_held[0] && vp_held[1])
    VP_WITNESS("two-different-files-held");
}
