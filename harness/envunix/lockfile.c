/* envunix/lockfile.c -- C20.a: the real ldb_lock_file / ldb_unlock_file of
 * src/util/env_unix_impl.h (with the real in-process lock table: the rb_set
 * `file_set` of util/rbt.c keyed by (st_dev, st_ino), the real ldb_open,
 * ldb_flock, ldb_system_error) over the libc models of envunix/libc.h.
 *
 * VP_K operations in a row given by the script VP_P0..VP_P3 (concrete per
 * obligation): 0/1/2 = lock name 0/1/2, 10+j = unlock the handle obtained in
 * step j (skipped if that lock failed).  Names 0 and 1 refer to the SAME
 * underlying file (same symbolic (dev,ino): a hard link or a second path to the
 * same directory), name 2 to another file.  Every libc call may fail, so each
 * script covers all patterns of failed and successful steps.
 *
 * Reference: held[file] -- a file is held from a successful lock until the
 * unlock of that handle.  Asserted after every operation:
 *   - lock returns OK  <=>  the file was not held and no libc call failed;
 *     a second lock on a held file fails (ENOLCK) however it is named;
 *   - OK: the descriptor stays open, fcntl(F_SETLK, F_WRLCK, whole file)
 *     succeeded on it, a handle is returned;
 *   - failure (open / fstat / fcntl / already held): the errno of the first
 *     failing call (or ENOLCK) is returned, the descriptor opened in this call
 *     is closed again, no handle is returned, and the table is unchanged
 *     (observed through the outcome of every later operation);
 *   - unlock: F_UNLCK on the handle's descriptor, descriptor closed exactly
 *     once, handle freed, entry removed (a later lock of the file succeeds),
 *     the fcntl error (if any) is returned;
 *   - file_mutex is taken and released exactly once per call.
 *
 * OS-level view (VP_POSIXCLOSE 1, the default): POSIX record locks belong to
 * the process and are dropped when the process closes ANY descriptor of the
 * file (modelled in vp_close).  Asserted after every operation: a file that is
 * held according to the table is still fcntl-locked, and a refused attempt on a
 * held file opens and closes nothing.  (This failed on the tree before commit
 * 4c3f022 -- finding F4: the refused attempt did open+close the file and so
 * dropped the lock; the repaired code asks stat(2) first.)
 *
 * Assumption (part of the claim): stat(2) of a lock file this process holds
 * locked does not fail (the file exists and was reachable when it was locked;
 * transient ENOMEM/EIO are excluded).  If it did fail while open(2) succeeds,
 * the repaired code would fall through to open/fstat/close and drop the lock
 * as before.  stat(2) of a file that is not held may fail with any errno: that
 * is not an error for ldb_lock_file.
 */
#ifndef VP_K
#define VP_K 3
#endif
#ifndef VP_POSIXCLOSE
#define VP_POSIXCLOSE 1
#endif
#define VP_NFILES 3
#define VP_MAXFD VP_K
#define VP_MEMCPY_BYTES 1

#include "envunix/libc.h"
#include "util/env.c"

/* ---- allocator and mutex models ------------------------------------------ */
static int vp_frees;
static void *vp_last_freed;

void *ldb_malloc(size_t size) { void *p = malloc(size); VP_ASSUME(p != NULL); return p; }
void ldb_free(void *ptr) { vp_frees++; vp_last_freed = ptr; if (ptr != NULL) free(ptr); }

static int vp_mutex_held, vp_mutex_locks, vp_mutex_unlocks;

void
ldb_mutex_lock(ldb_mutex_t *mtx) {
  VP_ASSERT(mtx == &file_mutex, "only file_mutex is used");
  VP_ASSERT(!vp_mutex_held, "file_mutex is not taken twice");
  vp_mutex_held = 1;
  vp_mutex_locks++;
}

void
ldb_mutex_unlock(ldb_mutex_t *mtx) {
  VP_ASSERT(mtx == &file_mutex && vp_mutex_held, "file_mutex released by its holder");
  vp_mutex_held = 0;
  vp_mutex_unlocks++;
}

/* ---- the lock table's container ------------------------------------------------
 * VP_REALRBT 1: the real util/rbt.c is linked.  VP_REALRBT 0 (default): a
 * 4-slot array model of rb_set_has/put/del that calls the tree's REAL
 * comparator (by_fileid) for every comparison; the red-black tree itself is
 * decided by the obligations that link rbt.c (here with VP_REALRBT 1, and in
 * C13/C17).  Set semantics only: has / insert-if-absent / delete-if-present. */
#ifndef VP_REALRBT
#define VP_REALRBT 0
#endif
#if !VP_REALRBT
static const void *vp_set_item[4];
static int vp_set_n;

int
rb_set_has(const rb_tree_t *tree, const void *item) {
  int i, r = 0;
  VP_ASSERT(tree == &file_set, "vp-model: only file_set is modelled");
  for (i = 0; i < 4; i++) {
    if (i < vp_set_n && tree->compare(rb_ptr(item), rb_ptr(vp_set_item[i]), tree->arg) == 0)
      r = 1;
  }
  return r;
}

int
rb_set_put(rb_tree_t *tree, const void *item) {
  if (rb_set_has(tree, item))
    return 0;
  VP_ASSERT(vp_set_n < 4, "vp-model: set model full");
  vp_set_item[vp_set_n++] = item;
  return 1;
}

void *
rb_set_del(rb_tree_t *tree, const void *item) {
  const void *found = NULL;
  int i, at = -1;
  for (i = 0; i < 4; i++) {
    if (at < 0 && i < vp_set_n && tree->compare(rb_ptr(item), rb_ptr(vp_set_item[i]), tree->arg) == 0)
      at = i;
  }
  if (at < 0)
    return NULL;
  found = vp_set_item[at];
  for (i = 0; i < 3; i++) {
    if (i >= at)
      vp_set_item[i] = vp_set_item[i + 1];
  }
  vp_set_item[3] = NULL;
  vp_set_n--;
  return (void *)found;
}
#endif

/* ---- reference model --------------------------------------------------------- */
static const char *const vp_lock_names[3] = { "db/LOCK", "alias/LOCK", "other/LOCK" };
static int vp_held[2];                  /* by underlying file */
static ldb_filelock_t *vp_h_ptr[VP_K];
static int vp_h_used[VP_K], vp_h_file[VP_K], vp_h_fd[VP_K];
static int vp_second_refused, vp_relocked, vp_failed_closed, vp_unlock_err;

static int vp_both_seen;

static void
vp_check_os(void) {
#if VP_POSIXCLOSE
  int f;
#endif
  if (vp_held[0] && vp_held[1])
    vp_both_seen = 1;
#if VP_POSIXCLOSE
  for (f = 0; f < 2; f++)
    VP_ASSERT(!vp_held[f] || vp_oslock[f],
              "a lock file held by this process is still fcntl-locked at the OS level (no descriptor of it was closed)");
#endif
}

static void
vp_op_lock(int k, int n) {
  ldb_filelock_t *lk = NULL;
  int f, rc, nopen0 = vp_nopen, washeld, wasunlocked;
  int frees0 = vp_frees, opens0 = vp_opens;

  f = (n == 2) ? 1 : 0;
  washeld = vp_held[f];
  wasunlocked = 0;
  {
    int j;
    for (j = 0; j < k; j++)
      if (vp_h_ptr[j] != NULL && !vp_h_used[j] && vp_h_file[j] == f)
        wasunlocked = 1;
  }

  vp_hard_fail = 0;
  vp_hard_errno = 0;
  vp_hard_call = 0;
  vp_fd_base = k;
  vp_stat_reliable[0] = vp_held[0];
  vp_stat_reliable[1] = vp_held[1];
  rc = ldb_lock_file(vp_lock_names[n], &lk);

  VP_ASSERT(!vp_mutex_held && vp_mutex_locks == vp_mutex_unlocks, "file_mutex released on every path");

  if (washeld) {
    VP_ASSERT(rc != LDB_OK, "a second lock on a file that is held fails, whatever name is used");
    if (!vp_hard_fail)
      VP_ASSERT(rc == LDB_ENOLCK, "already held by this process: ENOLCK");
#if VP_POSIXCLOSE
    VP_ASSERT(vp_opens == opens0 && vp_fds[k].closes == 0,
              "a refused attempt on a held file opens and closes no descriptor of it");
#endif
  }

  if (rc == LDB_OK) {
    VP_ASSERT(!vp_hard_fail, "lock succeeds only if open, fstat and fcntl succeeded");
    VP_ASSERT(lk != NULL, "a handle is returned");
    VP_ASSERT(vp_nopen == nopen0 + 1 && lk->fd == VP_FD0 + k && vp_fd_ok(lk->fd), "the descriptor opened in this call stays open");
    VP_ASSERT(vp_oslock[f], "the fcntl write lock was taken on it");
    VP_ASSERT((vp_fds[k].flags & O_ACCMODE) == O_RDWR && (vp_fds[k].flags & O_CREAT) && !(vp_fds[k].flags & O_TRUNC),
              "lock file opened read-write, created if missing, never truncated");
    vp_held[f] = 1;
    vp_h_ptr[k] = lk;
    vp_h_used[k] = 1;
    vp_h_file[k] = f;
    vp_h_fd[k] = lk->fd;
    if (wasunlocked)
      vp_relocked = 1;
  } else {
    VP_ASSERT(washeld || vp_hard_fail, "a free file is locked successfully when every libc call succeeds");
    if (vp_hard_fail)
      VP_ASSERT(rc == vp_hard_errno, "the errno of the first failing call is returned");
    VP_ASSERT(vp_nopen == nopen0, "failure: the descriptor opened in this call is closed again");
    VP_ASSERT(vp_fds[k].closes <= 1, "and closed only once");
    VP_ASSERT(lk == NULL, "failure: no handle is returned");
    VP_ASSERT(vp_frees == frees0, "failure: nothing is freed");
    if (washeld && !vp_hard_fail)
      vp_second_refused = 1;
    if (vp_hard_fail && vp_fds[k].closes == 1)
      vp_failed_closed = 1;
  }
  vp_check_os();
}

static void
vp_op_unlock(int j) {
  int i, rc, f, fd, nopen0 = vp_nopen, unl0 = vp_unlck_calls, frees0 = vp_frees;
  ldb_filelock_t *lk;

  if (!vp_h_used[j])
    return;           /* that lock attempt failed: nothing to unlock */
  lk = vp_h_ptr[j];
  f = vp_h_file[j];
  fd = vp_h_fd[j];
  vp_h_used[j] = 0;

  vp_hard_fail = 0;
  vp_hard_errno = 0;
  vp_hard_call = 0;
  rc = ldb_unlock_file(lk);

  VP_ASSERT(!vp_mutex_held && vp_mutex_locks == vp_mutex_unlocks, "file_mutex released on every path");
  VP_ASSERT(vp_unlck_calls == unl0 + 1, "unlock issues F_UNLCK");
  VP_ASSERT(vp_nopen == nopen0 - 1 && !vp_fd_ok(fd), "unlock closes the handle's descriptor");
  for (i = 0; i < VP_K; i++)
    VP_ASSERT(vp_fds[i].closes <= 1, "no descriptor is closed twice");
  VP_ASSERT(!vp_oslock[f], "the OS-level lock is released");
  VP_ASSERT(vp_frees == frees0 + 1 && vp_last_freed == (void *)lk, "the handle is freed once");
  if (vp_hard_fail) {
    VP_ASSERT(vp_hard_call == 6 && rc == vp_hard_errno, "a failing F_UNLCK is reported");
    vp_unlock_err = 1;
  } else {
    VP_ASSERT(rc == LDB_OK, "unlock succeeds (a failing close(2) of the lock descriptor is ignored)");
  }
  vp_held[f] = 0;
  vp_check_os();
}

void
harness(void) {
  int k;

  vp_names[0] = vp_lock_names[0];
  vp_names[1] = vp_lock_names[1];
  vp_names[2] = vp_lock_names[2];
  vp_name_file[0] = 0;
  vp_name_file[1] = 0;
  vp_name_file[2] = 1;
  vp_fd_by_name = 0;
  vp_file_dev[0] = vp_u64();
  vp_file_ino[0] = vp_u64();
  vp_file_dev[1] = vp_u64();
  vp_file_ino[1] = vp_u64();
  VP_ASSUME(vp_file_dev[0] != vp_file_dev[1] || vp_file_ino[0] != vp_file_ino[1]);

  vp_no_einval = 1;
  vp_stat_soft = 1;             /* a failing stat(2) only means "not known to be held" */
  vp_close_error_ignored = 1;   /* ldb_lock_file/ldb_unlock_file do not look at close(2)'s result */
  for (k = 0; k < VP_K; k++) {
    static const int script[4] = { VP_P0, VP_P1, VP_P2, VP_P3 };
    if (script[k] >= 10)
      vp_op_unlock(script[k] - 10);
    else
      vp_op_lock(k, script[k]);
  }

  /* everything still held can be released */
#ifdef VP_W_REFUSED
  if (vp_second_refused)
    VP_WITNESS("second-lock-refused-enolck");
#endif
#ifdef VP_W_RELOCK
  if (vp_relocked)
    VP_WITNESS("lock-after-unlock-succeeds");
#endif
  if (vp_failed_closed)
    VP_WITNESS("failure-path-closes-descriptor");
#ifdef VP_W_UNLOCK
  if (vp_unlock_err)
    VP_WITNESS("unlock-error-reported");
#endif
#ifdef VP_W_BOTH
  if (vp_both_seen)
    VP_WITNESS("two-different-files-held");
#endif
}
