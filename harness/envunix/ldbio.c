/* envunix/ldbio.c -- the retry loops of src/util/env_unix_impl.h on their own:
 * the real static ldb_write() (VP_IO 0), ldb_read() (VP_IO 1) and ldb_pread()
 * (VP_IO 2, needs LDB_HAVE_PREAD) over the libc models, with deeper budgets
 * (VP_SHORTS short transfers, VP_INTRS EINTR results) than the file-level
 * harnesses use, and a SYMBOLIC length 0..VP_MAXSZ.
 *
 * Contract shown here and relied upon (prose composition) by envunix/wfile.c,
 * whose inductive steps run with at most one short write per call:
 *
 *   ldb_write(fd, src, len): every write(2) starts exactly where the previous
 *   one stopped (first one at src), asks for 1..remaining bytes, EINTR is
 *   retried with the same arguments, a short count is followed by a write of
 *   the rest; returns len (>= 0) iff all len bytes were accepted, -1 iff a
 *   write(2) failed -- then errno is that call's errno, a strict prefix was
 *   accepted and no further write(2) follows.  len == 0: no system call.
 *
 *   ldb_read/ldb_pread(fd, dst, len[, off]): chunks are stored back to back
 *   from dst, never beyond dst+len, pread offsets advance by the bytes read;
 *   returns the number of bytes the kernel delivered (stops at end-of-file),
 *   or -1 with the errno of the failed call.
 */
#ifndef VP_IO
#define VP_IO 0
#endif
#ifndef VP_MAXSZ
#define VP_MAXSZ 140000
#endif
#define VP_TOTAL (VP_MAXSZ + 17)
#define VP_NFILES 1
#define VP_MAXFD 1

#include "envunix/libc.h"
#include "util/env.c"

void *ldb_malloc(size_t size) { void *p = malloc(size); VP_ASSUME(p != NULL); return p; }
void ldb_free(void *ptr) { if (ptr != NULL) free(ptr); }

void
harness(void) {
  size_t len = vp_size(), start = vp_size();
  int64_t r;

  VP_ASSUME(len <= VP_MAXSZ && start <= 16);
  vp_names[0] = "f";
  vp_fds[0].isopen = 1;
  vp_nopen = 1;
  vp_data_fd = VP_FD0;
  vp_read_fd = VP_FD0;

#if VP_IO == 0
  vp_cur_start = 1000;           /* stream offset of vp_stream[0] */
  vp_cur_end = 1000 + start + len;
  vp_expect = 1000 + start;
  r = ldb_write(VP_FD0, vp_stream + start, len);
  vp_expect -= 1000;
  if (r >= 0) {
    VP_ASSERT(!vp_hard_fail, "ldb_write succeeds only if no write(2) failed");
    VP_ASSERT(vp_expect == start + len, "ldb_write >= 0: every byte was accepted (in order, once: asserted per write(2))");
    VP_ASSERT((size_t)r == len, "ldb_write returns the byte count");
    if (len == 0)
      VP_ASSERT(vp_write_calls == 0, "nothing to write: no system call");
  } else {
    VP_ASSERT(r == -1 && vp_write_failed, "ldb_write fails only if a write(2) failed");
    VP_ASSERT(errno == vp_hard_errno, "errno of the failed write(2) reaches the caller");
    VP_ASSERT(vp_expect - start < len, "a strict prefix was accepted before the failure");
  }
  if (r >= 0 && vp_shorts_left == 0)
    VP_WITNESS("all-short-writes-used-then-complete");
  if (r >= 0 && vp_intrs_left == 0)
    VP_WITNESS("all-eintr-used-then-complete");
  if (r < 0 && vp_expect > start)
    VP_WITNESS("failure-after-partial-acceptance");
  if (r == 0)
    VP_WITNESS("empty-write");
#else
  {
    uint64_t off = vp_u64();
    VP_ASSUME(off <= ((uint64_t)1 << 62));
    vp_rd_next = vp_stream + start;
    vp_rd_room = len;
    vp_rd_off = off;
#  if VP_IO == 1
    r = ldb_read(VP_FD0, vp_stream + start, len);
#  else
    r = ldb_pread(VP_FD0, vp_stream + start, len, off);
#  endif
    if (r >= 0) {
      VP_ASSERT(!vp_hard_fail, "read loop succeeds only if no read failed");
      VP_ASSERT((size_t)r == vp_rd_total, "returns exactly the number of bytes the kernel delivered");
      VP_ASSERT((size_t)r <= len, "never more than asked for");
      VP_ASSERT((size_t)r == len || vp_rd_eof, "stops early only at end-of-file");
      if (len == 0)
        VP_ASSERT(vp_rd_calls == 0, "nothing to read: no system call");
    } else {
      VP_ASSERT(r == -1 && vp_hard_fail && vp_hard_call == 7, "fails only if a read failed");
      VP_ASSERT(errno == vp_hard_errno, "errno of the failed read reaches the caller");
    }
    if (r >= 0 && vp_shorts_left == 0 && !vp_rd_eof)
      VP_WITNESS("all-short-reads-used-then-complete");
    if (r >= 0 && vp_rd_eof && r > 0)
      VP_WITNESS("eof-after-some-bytes");
    if (r >= 0 && vp_intrs_left == 0)
      VP_WITNESS("all-eintr-used");
    if (r < 0 && vp_rd_total > 0)
      VP_WITNESS("failure-after-some-bytes");
  }
#endif
}
