/* envunix/wfile.c -- the writable file of src/util/env_unix_impl.h (real code:
 * ldb_truncfile_create / ldb_appendfile_create / ldb_wfile_append /
 * ldb_wfile_flush / ldb_wfile_sync / ldb_wfile_close / ldb_wfile_destroy with
 * the real static helpers ldb_open, ldb_try_open, ldb_write, ldb_fsync,
 * ldb_sync_dir, ldb_wfile_write, ldb_is_manifest, ldb_system_error) executed
 * over the libc models of envunix/libc.h.
 *
 *   C02.f  sync = directory sync (MANIFEST only) -> flush -> fsync/fdatasync,
 *          the error of any step is returned; append/flush/close hand every
 *          appended byte to write(2) exactly once and in order; short writes
 *          and EINTR are handled
 *   C12.c  a failed write(2) is returned as its errno by the call in which it
 *          happened; what the code does then (stated and checked): `pos` is
 *          reset to 0, the unsent rest of the buffer and the rest of the
 *          failing append are DISCARDED (counted in `lost`), nothing accepted
 *          earlier is ever sent again and the next accepted byte is the first
 *          byte appended after the failing call.  Bytes are lost only inside
 *          calls that returned an error.
 *
 * Two styles (VP_OP):
 *
 *   VP_OP 1..4  INDUCTIVE STEP.  The file is created by the real code, then
 *     its state is replaced by an ARBITRARY state satisfying the invariant
 *
 *       INV:  pos <= 65536, buf[0,pos) holds the stream bytes
 *             [expect, expect+pos), expect + pos == appended,
 *             accepted + lost == expect, the descriptor is open
 *
 *     (pos, expect, accepted symbolic; dirname/fd/manifest are the values the
 *     real create produced: together that is the complete state of an
 *     ldb_wfile_t), then ONE real operation runs -- 1 append of a SYMBOLIC size
 *     0..VP_MAXSZ (> 64 KiB), 2 flush, 3 sync, 4 close+destroy -- and its
 *     post-condition and INV are asserted.  create establishes INV (asserted in
 *     every run), every operation preserves it, so the post-conditions hold
 *     after every finite sequence of operations with arbitrary sizes.  No loop
 *     of the real code or of the models depends on a size (contents are not
 *     modelled, see libc.h), so the 64 KiB buffer keeps its real size.
 *
 *   VP_OP 6  create alone with every open(2)/fcntl result (EINTR, EINVAL for
 *     O_CLOEXEC, failure), then destroy.  In VP_OP 1..5 the create runs with
 *     succeeding calls only.
 *
 *   VP_OP 0  SEQUENCE from create with CONCRETE sizes VP_S0..VP_S2 from a menu
 *     that straddles 64 KiB and a concrete flush/sync/none (VP_O0..VP_O2) after
 *     each append, close (VP_CLOSE), destroy; at most VP_FAILS failing calls,
 *     VP_SHORTS short writes and VP_INTRS EINTR at symbolic places: cross-check
 *     of the inductive argument on whole runs (an invariant that was too weak
 *     or a havoc that was too narrow would show up here).
 */
#ifndef VP_OP
#define VP_OP 1
#endif
#ifndef VP_K
#define VP_K 2              /* appends (sequence mode) */
#endif
#ifndef VP_MAXSZ
#define VP_MAXSZ 140000       /* > 2 * 65536: reaches the unbuffered path from any fill level */
#endif
#ifndef VP_EMAX
#define VP_EMAX 1000        /* bytes accepted before the step (inductive mode); only differences matter */
#endif
/* the object that holds the caller's data of ONE append */
#if VP_OP == 0
#  define VP_MAX2(a, b) ((a) > (b) ? (a) : (b))
#  define VP_TOTAL (VP_MAX2(VP_S0, VP_MAX2(VP_S1, VP_S2)) + 1)
#elif VP_OP == 1
#  define VP_TOTAL (VP_MAXSZ + 1)
#else
#  define VP_TOTAL 1
#endif
#ifndef VP_NAME
#define VP_NAME 0
#endif
#ifndef VP_APPENDMODE
#define VP_APPENDMODE 0     /* 0: ldb_truncfile_create, 1: ldb_appendfile_create */
#endif

#define VP_NFILES 2         /* [0] the file, [1] its directory */
#define VP_MAXFD 2
#include "envunix/libc.h"
#include "util/env.c"

#if LDB_WRITE_BUFFER != VP_WBUF
#  error "model constant VP_WBUF differs from LDB_WRITE_BUFFER"
#endif

/* ---- allocator: the 65560-byte file object is ONE static object (its 64 KiB
   array is then a constant the solver never sees; a malloc'ed one costs 524288
   SAT variables per copy); everything else (dirname) is malloc -------------- */
static struct ldb_wfile_s vp_wfile_obj;
static int vp_wfile_obj_used, vp_wfile_obj_freed;

void *
ldb_malloc(size_t size) {
  void *p;
  if (size == sizeof(struct ldb_wfile_s)) {
    VP_ASSERT(!vp_wfile_obj_used, "vp-model: one writable file per run");
    vp_wfile_obj_used = 1;
    return &vp_wfile_obj;
  }
  p = malloc(size);
  VP_ASSUME(p != NULL);
  return p;
}

void
ldb_free(void *ptr) {
  if (ptr == (void *)&vp_wfile_obj) {
    vp_wfile_obj_freed++;
    return;
  }
  if (ptr != NULL)
    free(ptr);
}

struct vp_namecase { const char *name; int manifest; const char *dir; };

static const struct vp_namecase vp_cases[] = {
  { "db/000005.log", 0, NULL },
  { "db/MANIFEST-000002", 1, "db" },
  { "MANIFEST-000004", 1, "." },
  { "/MANIFEST-000007", 1, "/" },
  { "MANIFEST.d/000003.ldb", 0, NULL },
  { "a//MANIFEST", 1, "a" }
};

static ldb_wfile_t *vp_wf;
static size_t vp_appended;      /* bytes passed to append so far */
static size_t vp_lost;          /* bytes discarded inside calls that returned a write error */
static int vp_errors;           /* API calls that returned an error (or: an error was reported earlier) */
static char *vp_dirname0;
static int vp_recovered, vp_wrapped, vp_sync_ok, vp_close_ok, vp_dirsync_seen, vp_err_seen, vp_step_err;

static void
vp_begin_call(void) {
  vp_hard_fail = 0;
  vp_hard_errno = 0;
  vp_hard_call = 0;
  vp_write_failed = 0;
  vp_tolerated = 0;
}

/* common post-condition of append / flush / sync / close; re-establishes INV */
static void
vp_after_call(int rc, size_t pos_now) {
  if (vp_write_failed) {
    VP_ASSERT(rc != LDB_OK, "a failed write(2) makes the call fail");
    VP_ASSERT(rc == vp_hard_errno, "the call returns the errno of the failed write(2)");
    VP_ASSERT(pos_now == 0, "after a failed write(2) the buffer is empty (pos == 0)");
    /* the contract the code implements: the rest is discarded, reported by rc */
    vp_lost = vp_appended - vp_accepted - pos_now;
    vp_expect = vp_appended - pos_now;
    vp_err_seen = 1;
  }
  if (rc != LDB_OK) {
    VP_ASSERT(vp_hard_fail, "an error is returned only if a libc call failed");
    VP_ASSERT(rc == vp_hard_errno, "the returned status is the errno of the first failing libc call");
    if (!vp_write_failed)
      vp_step_err = 1;
    vp_errors++;
  }
  VP_ASSERT(pos_now <= VP_WBUF, "pos stays inside the buffer");
  VP_ASSERT(vp_wf->manifest == vp_cases[VP_NAME].manifest && vp_wf->dirname == vp_dirname0 &&
            (vp_wf->fd == vp_data_fd || (vp_wf->fd == -1 && vp_nopen == 0)),
            "the other fields of the file object never change (fd only by close)");
  VP_ASSERT(vp_wf->fd == -1 || (vp_nopen == 1 && vp_fd_ok(vp_data_fd)),
            "exactly the file's descriptor is open after every call");
  /* vp_expect advances only by bytes write(2) accepted, except for the jump
     above inside a call that returned a write error: so this says that every
     appended byte was accepted in order, or is still buffered, or was
     discarded by a call that reported an error */
  VP_ASSERT(vp_expect + pos_now == vp_appended,
            "every appended byte is accepted by write(2), still buffered, or was discarded by a call that returned an error");
  VP_ASSERT(pos_now == 0 || (!vp_run_bad && vp_run_len >= pos_now && vp_run_base == vp_expect),
            "buf[0,pos) is the contiguous image of the unsent tail");
#if VP_OP == 0
  VP_ASSERT(vp_accepted + vp_lost + pos_now == vp_appended, "byte count: accepted + discarded-with-error + buffered == appended");
  if (vp_errors == 0)
    VP_ASSERT(vp_lost == 0 && vp_expect == vp_accepted, "no loss before the first reported error");
#endif
}

static void
vp_do_append(size_t size) {
  ldb_slice_t data;
  size_t pos0 = vp_wf->pos;
  int w0 = vp_write_calls;
  int rc;

  data.data = vp_stream;
  data.size = size;
  data.alloc = 0;
  vp_cur_start = vp_appended;
  vp_cur_end = vp_appended + size;
  vp_appended += size;

  vp_begin_call();
  rc = ldb_wfile_append(vp_wf, &data);
  if (rc == LDB_OK)
    VP_ASSERT(!vp_hard_fail, "append returns OK only if no libc call failed");
  vp_after_call(rc, vp_wf->pos);
  if (rc == LDB_OK && pos0 + size <= VP_WBUF)
    VP_ASSERT(vp_write_calls == w0 && vp_wf->pos == pos0 + size, "an append that fits the buffer is only buffered");
  if (rc == LDB_OK && pos0 + size > VP_WBUF && pos0 > 0)
    vp_wrapped = 1;
  vp_cur_start = vp_cur_end = vp_appended;
}

static void
vp_do_flush(void) {
  size_t x0 = vp_expect, p0 = vp_wf->pos;
  int had_err = vp_errors > 0;
  int rc;

  vp_begin_call();
  rc = ldb_wfile_flush(vp_wf);
  vp_after_call(rc, vp_wf->pos);
  if (rc == LDB_OK) {
    VP_ASSERT(vp_wf->pos == 0 && vp_expect == x0 + p0, "flush hands the whole buffer to write(2)");
    if (had_err && p0 > 0)
      vp_recovered = 1;
  }
}

static void
vp_do_sync(int manifest) {
  unsigned t0 = vp_clock;
  int opens0 = vp_opens, dir0 = vp_dir_opens;
  int rc;

  vp_begin_call();
  rc = ldb_wfile_sync(vp_wf);
  vp_after_call(rc, vp_wf->pos);

  if (rc == LDB_OK) {
    VP_ASSERT(!vp_hard_fail, "sync returns OK only if no step failed");
    VP_ASSERT(vp_wf->pos == 0, "sync leaves nothing in the user-space buffer");
    VP_ASSERT(vp_data_sync_tick > t0, "sync OK => fsync/fdatasync of the file succeeded in this call");
    VP_ASSERT(vp_data_sync_tick > vp_last_write_tick,
              "the fsync/fdatasync comes after the last write(2): data is flushed before it is synced");
    if (manifest) {
      VP_ASSERT(vp_dir_opens == dir0 + 1, "MANIFEST: the containing directory is opened once");
      VP_ASSERT(vp_dir_sync_tick > t0 && vp_dir_sync_tick < vp_data_sync_tick,
                "MANIFEST: the directory is fsynced before the file's data is");
      vp_dirsync_seen = 1;
    }
    vp_sync_ok = 1;
  }
  if (!manifest)
    VP_ASSERT(vp_opens == opens0, "not a MANIFEST: sync opens nothing");
  VP_ASSERT(vp_nopen == 1 && vp_fd_ok(vp_data_fd),
            "after sync exactly the file's descriptor is open (directory descriptor closed, none lost)");
}

static int
vp_do_close(void) {
  size_t x0 = vp_expect, p0 = vp_wf->pos;
  int fd = vp_wf->fd;
  int rc;

  vp_begin_call();
  rc = ldb_wfile_close(vp_wf);
  vp_after_call(rc, vp_wf->pos);
  VP_ASSERT(vp_nopen == 0 && !vp_fd_ok(fd), "close(2) was called on the descriptor, also when the final flush failed");
  VP_ASSERT(vp_wf->fd == -1, "the object forgets the descriptor");
  if (rc == LDB_OK) {
    VP_ASSERT(!vp_hard_fail, "close returns OK only if flush and close(2) succeeded");
    VP_ASSERT(vp_expect == x0 + p0 && vp_wf->pos == 0, "close flushes the buffer first");
    vp_close_ok = 1;
  }
  return rc;
}

static void
vp_do_destroy(void) {
  int i;
  vp_begin_call();
  ldb_wfile_destroy(vp_wf);
  VP_ASSERT(vp_nopen == 0, "destroy leaves no descriptor open");
  VP_ASSERT(vp_wfile_obj_freed == 1, "destroy frees the object once");
  VP_ASSERT(vp_fds[0].closes == 1, "the file's descriptor is closed exactly once");
  for (i = 1; i < VP_MAXFD; i++)
    VP_ASSERT(!vp_fds[i].isopen && vp_fds[i].closes <= 1, "no other descriptor is left open or closed twice");
}

void
harness(void) {
  const struct vp_namecase *nc = &vp_cases[VP_NAME];
  int rc, closed = 0;
#if VP_OP == 0
  static const size_t menu[3] = { VP_S0, VP_S1, VP_S2 };
  int k;
#endif

  vp_names[0] = nc->name;
  vp_names[1] = nc->dir;
  vp_name_isdir[1] = 1;
  vp_name_file[0] = 0;
  vp_name_file[1] = 1;

  /* ---- create: establishes INV ------------------------------------------ */
#if (VP_OP >= 1 && VP_OP <= 5) || (VP_OP == 0 && VP_FAILS == 0 && VP_SHORTS == 0 && VP_INTRS == 0)
  vp_quiet = 1;     /* create with failing / interrupted open(2) is the VP_OP 6 obligation */
#endif
  vp_begin_call();
#if VP_APPENDMODE
  rc = ldb_appendfile_create(nc->name, &vp_wf);
#else
  rc = ldb_truncfile_create(nc->name, &vp_wf);
#endif

  if (rc != LDB_OK) {
    VP_ASSERT(vp_hard_fail && vp_hard_call == 1 && rc == vp_hard_errno, "create fails only with the errno of open(2)");
    VP_ASSERT(vp_wf == NULL, "no file object on failure");
    VP_ASSERT(vp_nopen == 0, "no descriptor left open on failure");
#if (VP_OP == 0 && VP_FAILS > 0) || VP_OP == 6
    VP_WITNESS("create-failed");
#endif
    return;
  }

  VP_ASSERT(!vp_hard_fail, "create returns OK only if open(2) succeeded");
  VP_ASSERT(vp_wf != NULL && vp_nopen == 1 && vp_fd_ok(vp_wf->fd), "file object holds the one open descriptor");
  {
    int i = vp_wf->fd - VP_FD0, fl, md;
    fl = vp_fds[i].flags;
    md = vp_fds[i].mode;
    VP_ASSERT(vp_fds[i].name == 0, "the descriptor refers to the requested name");
    VP_ASSERT((fl & O_ACCMODE) == O_WRONLY && (fl & O_CREAT), "opened write-only, created if missing");
#if VP_APPENDMODE
    VP_ASSERT((fl & O_APPEND) && !(fl & O_TRUNC), "appendable file: O_APPEND and never O_TRUNC (existing contents kept)");
#else
    VP_ASSERT((fl & O_TRUNC) != 0, "truncating create: O_TRUNC");
#endif
    VP_ASSERT(md == 0644, "mode 0644");
  }
  VP_ASSERT(vp_wf->pos == 0, "fresh file: empty buffer");
  VP_ASSERT(vp_wf->manifest == nc->manifest, "MANIFEST detection by base name");
  vp_data_fd = vp_wf->fd;
  vp_wbuf = vp_wf->buf;
  vp_dirname0 = vp_wf->dirname;
  VP_ASSERT((vp_wf->dirname != NULL) == (nc->manifest != 0), "directory name kept for MANIFEST files only");
#if VP_OP == 6
  if (vp_saw_einval_open)
    VP_WITNESS("open-einval-retried-without-cloexec");
  if (vp_saw_eintr)
    VP_WITNESS("open-eintr-retried");
#endif

#if VP_OP == 6
  VP_WITNESS("create-ok");
  vp_do_destroy();
#elif VP_OP == 0
  /* ---- sequence: appends with symbolic flush / sync in between ----------- */
  for (k = 0; k < VP_K; k++) {
    static const int ops[3] = { VP_O0, VP_O1, VP_O2 };   /* 0 none, 1 flush, 2 sync */
    vp_do_append(menu[k]);
    if (ops[k] == 1)
      vp_do_flush();
    else if (ops[k] == 2)
      vp_do_sync(nc->manifest);
  }
#  if VP_CLOSE
  vp_do_close();
  closed = 1;
#  endif
  vp_do_destroy();
#else
  /* ---- inductive step: arbitrary state satisfying INV ---------------------- */
  vp_quiet = 0;
  {
    size_t p = vp_size(), e = vp_size();
    VP_ASSUME(p <= VP_WBUF && e <= VP_EMAX);
    vp_wf->pos = p;
    vp_run_base = e;
    vp_run_len = p;
    vp_run_bad = 0;
    vp_expect = e;
    vp_appended = e + p;
    vp_errors = vp_bool();            /* an error may have been reported before */
    vp_last_write_tick = vp_clock;
    vp_saw_eintr = vp_saw_short = 0;
    vp_intrs_left = VP_INTRS;
  }
#  if VP_OP == 1
  {
    size_t size = vp_size();
    VP_ASSUME(size <= VP_MAXSZ);
    vp_do_append(size);
  }
#  elif VP_OP == 2
  vp_do_flush();
#  elif VP_OP == 3
  vp_do_sync(nc->manifest);
#  elif VP_OP == 4
  vp_do_close();
  closed = 1;
  vp_do_destroy();
#  elif VP_OP == 5
  vp_do_destroy();
#  endif
#endif

  /* ---- reachability witnesses ------------------------------------------- */
#if VP_OP == 0
#  if VP_CLOSE
  if (vp_errors == 0 && closed && vp_close_ok && vp_accepted == vp_appended && vp_appended > 0)
    VP_WITNESS("all-ok-everything-accepted");
#  endif
#  ifdef VP_WRECOVER
  if (vp_recovered)
    VP_WITNESS("flush-after-failed-write-sends-only-new-bytes");
#  endif
#endif
#if (VP_OP == 0 && VP_FAILS > 0) || VP_OP == 1 || VP_OP == 2 || VP_OP == 3 || VP_OP == 4
#  if VP_SHORTS > 0
  if (vp_saw_short && vp_errors == 0)
    VP_WITNESS("short-write-handled");
#  endif
#  if VP_INTRS > 0
  if (vp_saw_eintr && vp_errors == 0)
    VP_WITNESS("eintr-retried");
#  endif
  if (vp_err_seen)
    VP_WITNESS("write-error-returned");
#endif
#if VP_OP == 1 || (VP_OP == 0 && defined(VP_WDIRECT))
  if (vp_direct_writes > 0)
    VP_WITNESS("unbuffered-large-append");
#endif
#if VP_OP == 1
  if (vp_wrapped)
    VP_WITNESS("append-straddles-buffer");
#endif
#if VP_OP == 0 || VP_OP == 3
#  if VP_OP == 3 || defined(VP_WSYNC)
  if (vp_sync_ok)
    VP_WITNESS("sync-ok");
#  endif
#  if VP_OP == 3
  if (vp_step_err)
    VP_WITNESS("sync-step-failed-and-reported");
#  endif
#  if (VP_OP == 3 || defined(VP_WSYNC)) && (VP_NAME == 1 || VP_NAME == 2 || VP_NAME == 3 || VP_NAME == 5)
  if (vp_dirsync_seen)
    VP_WITNESS("manifest-directory-synced-first");
#  endif
#  if VP_OP == 3 && (VP_NAME == 1 || VP_NAME == 2 || VP_NAME == 3 || VP_NAME == 5)
  if (vp_dirsync_seen && vp_tolerated)
    VP_WITNESS("directory-fsync-einval-tolerated");
#  endif
#endif
#if VP_OP == 4
  if (vp_close_ok)
    VP_WITNESS("close-ok");
  if (vp_step_err)
    VP_WITNESS("close-error-reported");
#endif
#if VP_OP == 5
  VP_WITNESS("destroy-without-close");
#endif
  (void)closed;
}
