/* C06/snaplist.c -- the REAL snapshot list of src/snapshot.h
 * (ldb_snaplist_init/empty/oldest/newest/new/delete, all `static` in the
 * header, so the header is the unit) from an ARBITRARY well-formed list.
 *
 * C06.a  "Taking or releasing other snapshots does not change what a held
 *        snapshot denotes": the pre-state is a hand-built circular list of
 *        VP_N (0..3) heap nodes with symbolic, non-decreasing sequences (two
 *        snapshots may share a sequence).  One or two list operations run:
 *
 *          VP_OP 0  queries only (and ldb_snaplist_init on a scribbled list)
 *          VP_OP 1  new(seq >= newest)
 *          VP_OP 2  delete(node VP_K)
 *          VP_OP 3  new, then delete(node VP_K)   (VP_K == VP_N: the new one)
 *          VP_OP 4  delete(node VP_K), then new
 *
 *        and afterwards the list is compared link by link (next AND prev,
 *        node identity AND sequence) with an independent reference array:
 *        well-formed circular list of exactly the expected nodes, in the
 *        expected order, sorted by sequence, every surviving node's sequence
 *        untouched; oldest == minimum, newest == maximum, empty <=> no node.
 *        The compaction drop rule (C06.b) takes its smallest_snapshot from
 *        ldb_snaplist_oldest(): "oldest is the minimum" is what makes every
 *        held snapshot >= smallest_snapshot.
 *
 * A freed node that is still linked is a use-after-free in the walk (CBMC
 * pointer checks; ASan in the replay).
 */
#include "vp.h"
#include "snapshot.h"

#ifndef VP_N
#define VP_N 2
#endif
#ifndef VP_OP
#define VP_OP 1
#endif
#ifndef VP_K
#define VP_K 0
#endif
#define VP_MAXN (VP_N + 1)

static ldb_snaplist_t list;

/* reference: the nodes that must be in the list, oldest first */
static ldb_snapshot_t *ref_node[VP_MAXN + 1];
static uint64_t ref_seq[VP_MAXN + 1];
static int ref_n = 0;

static void
ref_remove(int k) {
  int i;
  for (i = k; i + 1 < ref_n; i++) {
    ref_node[i] = ref_node[i + 1];
    ref_seq[i] = ref_seq[i + 1];
  }
  ref_n--;
}

static void
check_list(void) {
  const ldb_snapshot_t *p = &list.head;
  uint64_t lo = 0, hi = 0;
  int i;

  for (i = 0; i < VP_MAXN; i++) {
    if (i < ref_n) {
      VP_ASSERT(p->next == ref_node[i], "C06.a forward link reaches exactly the expected node");
      VP_ASSERT(p->next->prev == p, "C06.a backward link mirrors the forward link");
      p = p->next;
      VP_ASSERT(p->sequence == ref_seq[i], "C06.a sequence of a listed snapshot never changes");
      if (i > 0)
        VP_ASSERT(ref_seq[i - 1] <= p->sequence, "C06.a list sorted by sequence, oldest first");
      if (i == 0 || ref_seq[i] < lo) lo = ref_seq[i];
      if (i == 0 || ref_seq[i] > hi) hi = ref_seq[i];
    }
  }
  VP_ASSERT(p->next == &list.head, "C06.a list is circular: the last node links back to the head");
  VP_ASSERT(list.head.prev == p, "C06.a head.prev is the last node");

  VP_ASSERT(ldb_snaplist_empty(&list) == (ref_n == 0), "C06.a empty <=> no snapshot is held");
  if (ref_n > 0) {
    VP_ASSERT(ldb_snaplist_oldest(&list) == ref_node[0], "C06.a oldest is the first node");
    VP_ASSERT(ldb_snaplist_oldest(&list)->sequence == lo, "C06.a oldest carries the minimum sequence of all held snapshots");
    VP_ASSERT(ldb_snaplist_newest(&list) == ref_node[ref_n - 1], "C06.a newest is the last node");
    VP_ASSERT(ldb_snaplist_newest(&list)->sequence == hi, "C06.a newest carries the maximum sequence of all held snapshots");
  }
}

static void
do_new(void) {
  uint64_t seq = vp_u64();
  ldb_snapshot_t *s;
  int i;

  VP_ASSUME(seq < (UINT64_C(1) << 56));
  if (ref_n > 0)
    VP_ASSUME(seq >= ref_seq[ref_n - 1]);   /* documented precondition: seq >= newest */

  s = ldb_snaplist_new(&list, seq);

  VP_ASSERT(s != NULL && s != &list.head, "new returns a fresh node");
  for (i = 0; i < VP_MAXN; i++)
    if (i < ref_n)
      VP_ASSERT(s != ref_node[i], "new never reuses a held node");
  VP_ASSERT(s->sequence == seq, "C06.a new snapshot carries the sequence it was given");
  ref_node[ref_n] = s;
  ref_seq[ref_n] = seq;
  ref_n++;
}

static void
do_delete(int k) {
  ldb_snapshot_t *victim = ref_node[k];
  ref_remove(k);
  ldb_snaplist_delete(&list, victim);
}

void
harness(void) {
  ldb_snapshot_t *prev = &list.head;
  int i;

  /* ---- arbitrary well-formed pre-state (built by hand, not by the unit) ---- */
  list.head.sequence = vp_u64();     /* the dummy's sequence is never meaningful */
  for (i = 0; i < VP_N; i++) {
    ldb_snapshot_t *s = (ldb_snapshot_t *)ldb_malloc(sizeof(ldb_snapshot_t));
    uint64_t seq = vp_u64();
    VP_ASSUME(seq < (UINT64_C(1) << 56));
    if (i > 0)
      VP_ASSUME(seq >= ref_seq[i - 1]);
    s->sequence = seq;
    s->prev = prev;
    prev->next = s;
    prev = s;
    ref_node[i] = s;
    ref_seq[i] = seq;
  }
  prev->next = &list.head;
  list.head.prev = prev;
  ref_n = VP_N;

  check_list();   /* the pre-state satisfies the invariant (harness sanity) */

#if VP_OP == 0
#if VP_N == 0
  {
    ldb_snaplist_t fresh;
    fresh.head.next = NULL;
    fresh.head.prev = NULL;
    ldb_snaplist_init(&fresh);
    VP_ASSERT(fresh.head.next == &fresh.head && fresh.head.prev == &fresh.head, "init yields the empty circular list");
    VP_ASSERT(ldb_snaplist_empty(&fresh), "a fresh list is empty");
  }
#endif
  VP_WITNESS("queries");
#elif VP_OP == 1
  do_new();
  check_list();
#if VP_N > 0
  if (ref_seq[ref_n - 1] == ref_seq[ref_n - 2])
    VP_WITNESS("new-same-sequence-as-newest");
  if (ref_seq[ref_n - 1] > ref_seq[0])
    VP_WITNESS("new-above-oldest");
#else
  VP_WITNESS("new-into-empty");
#endif
#elif VP_OP == 2
  do_delete(VP_K);
  check_list();
  VP_WITNESS("delete");
#elif VP_OP == 3
  do_new();
  check_list();
  do_delete(VP_K);
  check_list();
  VP_WITNESS("new-then-delete");
#elif VP_OP == 4
  do_delete(VP_K);
  check_list();
  do_new();
  check_list();
  VP_WITNESS("delete-then-new");
#endif
}
