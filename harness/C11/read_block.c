/* C11.a -- the REAL ldb_read_block (src/table/format.c) over a symbolic file.
 *
 * The file layer is a stub: ldb_rfile_pread returns symbolic bytes (either
 * copied into the caller's buffer or, for a "mapped" file, as a pointer into
 * the file's own storage), may return fewer bytes than asked, or an error.
 * The checksum is the abstract streaming fold of kit/vp_cksum.c (the real
 * CRC kernel is decided by C15.k); the Snappy decoder is replaced by its
 * contract (symbolic accept/reject, bounded output) and decided by C16.g/C18.
 *
 * Asserted (block payload size VP_N concrete, everything else symbolic):
 *  - with verify_checksums: OK is returned ONLY IF the stored trailer value
 *    equals mask(F(payload || type byte)) computed independently here;
 *  - unknown type byte => LDB_CORRUPTION; short read => LDB_IOERR; read error
 *    => that error; handle.size near SIZE_MAX => LDB_CORRUPTION, no read;
 *  - uncompressed block: the result is exactly the VP_N payload bytes at the
 *    handle's offset (same bytes, same length), heap_allocated/cachable as
 *    documented (mapped files are never double-cached);
 *  - Snappy block: size/decode failure => LDB_CORRUPTION, success => result
 *    is the decoder's output buffer of the decoder-reported length;
 *  - every path frees the temporary buffer exactly once (CBMC's memory-leak
 *    and double-free checks) and reads the file exactly once at the handle's
 *    offset for size+5 bytes.
 */
#include "vp.h"
#include <stdlib.h>
#include "util/crc32c.h"
#include "util/env.h"
#include "util/options.h"
#include "util/slice.h"
#include "util/snappy.h"
#include "util/status.h"
#include "table/format.h"

#ifndef VP_N
#define VP_N 3
#endif
#define VP_LEN (VP_N + 5)

uint32_t vp_cksum_extend(uint32_t z, const uint8_t *xp, size_t xn);

struct ldb_rfile_s { int mapped; };
static struct ldb_rfile_s the_file;
static uint8_t filedata[VP_LEN];     /* the VP_LEN bytes at the handle's offset */
static int pread_calls = 0;
static uint64_t pread_offset = 0;
static size_t pread_count = 0;
static int pread_rc = 0;
static size_t pread_got = 0;
static void *pread_buf = 0;

int ldb_rfile_mapped(ldb_rfile_t *f) { return f->mapped; }

int
ldb_rfile_pread(ldb_rfile_t *f, ldb_slice_t *result, void *buf, size_t count, uint64_t offset) {
  size_t i, got;
  pread_calls++;
  pread_offset = offset;
  pread_count = count;
  pread_buf = buf;
  VP_ASSERT(f == &the_file, "read from the file that was passed");
  VP_ASSERT(f->mapped || buf != NULL, "unmapped file is read into a caller buffer");
  if (vp_bool()) {
    pread_rc = vp_bool() ? LDB_IOERR : 5 /* EIO */;
    return pread_rc;
  }
  pread_rc = LDB_OK;
  got = vp_size();
  VP_ASSUME(got <= count && got <= VP_LEN);
  pread_got = got;
  if (f->mapped) {
    ldb_slice_set(result, filedata, got);
  } else {
    for (i = 0; i < got && i < VP_LEN; i++)
      ((uint8_t *)buf)[i] = filedata[i];
    ldb_slice_set(result, (uint8_t *)buf, got);
  }
  return LDB_OK;
}

/* Snappy contract model */
static int sn_size_ok, sn_decode_ok;
static size_t sn_ulen;
static int sn_size_calls = 0, sn_decode_calls = 0;
static uint8_t *sn_out = 0;

int
snappy_decode_size(size_t *zn, const uint8_t *xp, size_t xn) {
  (void)xp;
  sn_size_calls++;
  VP_ASSERT(xn == VP_N, "decoder is given exactly the payload");
  if (!sn_size_ok) return 0;
  *zn = sn_ulen;
  return 1;
}

int
snappy_decode(uint8_t *zp, const uint8_t *xp, size_t xn) {
  size_t i;
  (void)xp;
  sn_decode_calls++;
  sn_out = zp;
  VP_ASSERT(xn == VP_N, "decoder is given exactly the payload");
  if (!sn_decode_ok) return 0;
  for (i = 0; i < sn_ulen; i++)
    zp[i] = (uint8_t)(0xA0 + i);
  return 1;
}

void
harness(void) {
  ldb_contents_t result;
  ldb_readopt_t ro;
  ldb_handle_t h;
  uint32_t stored, expect;
  size_t i;
  int rc, huge;

  vp_fill(filedata, VP_LEN);
  the_file.mapped = vp_bool();
  ro = *ldb_readopt_default;
  ro.verify_checksums = vp_bool();
  ro.fill_cache = vp_bool();
  sn_size_ok = vp_bool();
  sn_decode_ok = vp_bool();
  sn_ulen = vp_size();
  VP_ASSUME(sn_ulen >= 1 && sn_ulen <= 6);

  huge = vp_bool();
  h.offset = vp_u64();
  h.size = huge ? vp_u64() : VP_N;
  if (huge)
    VP_ASSUME(h.size > SIZE_MAX - 5);

  rc = ldb_read_block(&result, &the_file, &ro, &h);

  if (huge) {
    VP_ASSERT(rc == LDB_CORRUPTION && pread_calls == 0, "absurd block size rejected before any read or allocation");
    VP_WITNESS("size-overflow-guard");
    return;
  }

  VP_ASSERT(pread_calls == 1 && pread_offset == h.offset && pread_count == VP_LEN, "one read of size+5 bytes at the handle's offset");

  if (pread_rc != LDB_OK) {
    VP_ASSERT(rc == pread_rc, "read error is returned as is");
    VP_WITNESS("read-error");
    return;
  }
  if (pread_got != VP_LEN) {
    VP_ASSERT(rc == LDB_IOERR, "truncated block read is an I/O error, never data");
    VP_WITNESS("short-read");
    return;
  }

  /* independent check of the trailer: type byte, then fixed32 LE masked checksum of payload||type */
  stored = (uint32_t)filedata[VP_N + 1] | ((uint32_t)filedata[VP_N + 2] << 8) |
           ((uint32_t)filedata[VP_N + 3] << 16) | ((uint32_t)filedata[VP_N + 4] << 24);
  expect = vp_cksum_extend(0, filedata, VP_N + 1);
  expect = ((expect >> 15) | (expect << 17)) + 0xa282ead8u;

  if (rc == LDB_OK && ro.verify_checksums)
    VP_ASSERT(stored == expect, "C11 accepted with verification => stored checksum == mask(F(payload||type))");
  if (ro.verify_checksums && stored != expect) {
    VP_ASSERT(rc == LDB_CORRUPTION, "checksum mismatch is reported as corruption");
    VP_WITNESS("checksum-mismatch");
    return;
  }

  if (filedata[VP_N] == 0) {
    VP_ASSERT(rc == LDB_OK, "well-formed uncompressed block accepted");
    VP_ASSERT(result.data.size == VP_N, "result has the payload length");
    for (i = 0; i < VP_N; i++)
      VP_ASSERT(result.data.data[i] == filedata[i], "result bytes == payload bytes");
    if (the_file.mapped) {
      VP_ASSERT(result.data.data == filedata && !result.heap_allocated && !result.cachable, "mapped file: data used in place, not owned, not double-cached");
      VP_WITNESS("mapped-uncompressed");
    } else {
      VP_ASSERT(result.data.data == (uint8_t *)pread_buf && result.heap_allocated && result.cachable, "unmapped file: caller owns the buffer, cachable");
      VP_WITNESS("heap-uncompressed");
      free(result.data.data);
    }
  } else if (filedata[VP_N] == 1) {
    if (!sn_size_ok || !sn_decode_ok) {
      VP_ASSERT(rc == LDB_CORRUPTION, "undecodable compressed block is corruption");
      VP_WITNESS("snappy-rejected");
    } else {
      VP_ASSERT(rc == LDB_OK && sn_size_calls == 1 && sn_decode_calls == 1, "compressed block decoded once");
      VP_ASSERT(result.data.size == sn_ulen && result.data.data == sn_out && result.heap_allocated && result.cachable, "result is the decoder's output");
      VP_WITNESS("snappy-accepted");
      free(result.data.data);
    }
  } else {
    VP_ASSERT(rc == LDB_CORRUPTION, "unknown block type is corruption");
    VP_WITNESS("bad-type");
  }
}
