/* C11.b -- who asks for checksum verification: the REAL ldb_table_open,
 * ldb_table_read_meta and ldb_table_read_filter (src/table/table.c,
 * #included) with every callee replaced by a recorder.  With paranoid_checks
 * set, EVERY block that is read while opening a table -- index block,
 * metaindex block and filter block -- must be read with verify_checksums on
 * (a damaged filter block would otherwise turn into false negatives, i.e.
 * silently missing keys); with paranoid_checks off the default is used.
 * ldb_read_block itself is decided by C11.a.
 */
#include "vp.h"
#include "table/table.c"

struct ldb_rfile_s { int id; };

static struct ldb_rfile_s the_file;
static ldb_block_t blk_index, blk_meta;
static ldb_filter_t the_filter;
static ldb_bloom_t the_policy;

enum { H_INDEX = 11, H_META = 22, H_FILTER = 33 };
static int reads = 0;
static int read_which[4];
static int read_verify[4];
static int rb_rc[3];

int
ldb_rfile_pread(ldb_rfile_t *f, ldb_slice_t *result, void *buf, size_t count, uint64_t offset) {
  (void)f; (void)offset;
  ldb_slice_set(result, (uint8_t *)buf, count);
  return vp_bool() ? LDB_OK : LDB_IOERR;
}

int
ldb_footer_import(ldb_footer_t *z, const ldb_slice_t *x) {
  (void)x;
  if (!vp_bool()) return 0;
  z->metaindex_handle.offset = H_META; z->metaindex_handle.size = 1;
  z->index_handle.offset = H_INDEX; z->index_handle.size = 1;
  return 1;
}

int
ldb_handle_import(ldb_handle_t *z, const ldb_slice_t *x) {
  (void)x;
  if (!vp_bool()) return 0;
  z->offset = H_FILTER; z->size = 1;
  return 1;
}

int
ldb_read_block(ldb_contents_t *result, ldb_rfile_t *file, const ldb_readopt_t *options, const ldb_handle_t *handle) {
  int i, slot = 0;
  VP_ASSERT(file == &the_file, "blocks read from the table's file");
  if (reads < 4) {
    read_which[reads] = (int)handle->offset;
    read_verify[reads] = options->verify_checksums;
  }
  reads++;
  for (i = 0; i < 3; i++)
    if (handle->offset == (uint64_t)(i == 0 ? H_INDEX : (i == 1 ? H_META : H_FILTER))) slot = i;
  ldb_slice_init(&result->data);
  result->cachable = 0;
  result->heap_allocated = 0;
  return rb_rc[slot];
}

ldb_block_t *ldb_block_create(const ldb_contents_t *c) { (void)c; return reads <= 1 ? &blk_index : &blk_meta; }
void ldb_block_destroy(ldb_block_t *b) { (void)b; }
uint64_t ldb_lru_id(ldb_lru_t *lru) { (void)lru; return 1; }
int ldb_bloom_name(char *buf, size_t size, const ldb_bloom_t *bloom) { (void)size; (void)bloom; buf[0] = 'f'; buf[1] = 0; return 1; }
void ldb_slice_set_str(ldb_slice_t *z, const char *xp) { z->data = (uint8_t *)xp; z->size = 1; z->alloc = 0; }
static int eq_calls = 0, eq_result = 0;
int ldb_slice_equal(const ldb_slice_t *x, const ldb_slice_t *y) { (void)x; (void)y; eq_calls++; eq_result = vp_bool(); return eq_result; }
ldb_filter_t *ldb_filter_create(const ldb_bloom_t *policy, const ldb_slice_t *contents) { (void)contents; VP_ASSERT(policy == &the_policy, "filter reader uses the configured policy"); return &the_filter; }
void ldb_filter_destroy(ldb_filter_t *f) { (void)f; }

/* metaindex iterator */
static int mi_valid_v;
static uint8_t mi_bytes[2] = {'f', 0};
static int mi_valid(const void *p) { (void)p; return mi_valid_v; }
static void mi_seek(void *p, const ldb_slice_t *t) { (void)p; (void)t; mi_valid_v = vp_bool(); }
static void mi_nop(void *p) { (void)p; }
static ldb_slice_t mi_key(const void *p) { (void)p; return ldb_slice(mi_bytes, 1); }
static int mi_status(const void *p) { (void)p; return LDB_OK; }
static const ldb_itertbl_t mi_table = { mi_nop, mi_valid, mi_nop, mi_nop, mi_seek, mi_nop, mi_nop, mi_key, mi_key, mi_status };
static ldb_iter_t mi_iter;
ldb_iter_t *ldb_blockiter_create(const ldb_block_t *b, const ldb_comparator_t *c) { (void)c; VP_ASSERT(b == &blk_meta, "metaindex iterator over the metaindex block"); mi_iter.ptr = &mi_iter; mi_iter.table = &mi_table; return &mi_iter; }
void ldb_iter_destroy(ldb_iter_t *it) { (void)it; }

void
harness(void) {
  ldb_dbopt_t opt;
  ldb_table_t *t = NULL;
  int rc, i, saw_index = 0, saw_meta = 0, saw_filter = 0;

  opt = *ldb_dbopt_default;
  opt.paranoid_checks = vp_bool();
  opt.filter_policy = vp_bool() ? &the_policy : NULL;
  opt.block_cache = NULL;
  for (i = 0; i < 3; i++)
    rb_rc[i] = vp_bool() ? LDB_OK : LDB_CORRUPTION;

  rc = ldb_table_open(&opt, &the_file, 100, &t);

  VP_ASSERT(reads <= 3, "at most index, metaindex and filter block are read by open");
  for (i = 0; i < reads && i < 4; i++) {
    if (opt.paranoid_checks)
      VP_ASSERT(read_verify[i] == 1, "C11.b paranoid_checks: every block read while opening a table is checksum-verified");
    else
      VP_ASSERT(read_verify[i] == ldb_readopt_default->verify_checksums, "without paranoid_checks the default read options are used");
    if (read_which[i] == H_INDEX) saw_index = 1;
    if (read_which[i] == H_META) saw_meta = 1;
    if (read_which[i] == H_FILTER) saw_filter = 1;
  }
  if (rc == LDB_OK) {
    VP_ASSERT(t != NULL && saw_index && rb_rc[0] == LDB_OK, "table opened only after its index block was read successfully");
    if (saw_filter) {
      VP_ASSERT(saw_meta && opt.filter_policy != NULL, "filter block read only through the metaindex, only with a policy");
      VP_ASSERT(eq_calls == 1 && eq_result, "C16 the filter block is used only if the metaindex entry found is exactly filter.<policy name> (a filter built by another policy is never handed to this policy)");
      VP_WITNESS("filter-block-read");
    }
    if (opt.filter_policy == NULL)
      VP_ASSERT(!saw_meta && !saw_filter, "no policy: no metadata read");
    VP_WITNESS("opened");
  } else {
    VP_ASSERT(t == NULL, "failed open yields no table");
    VP_WITNESS("open-failed");
  }
}
