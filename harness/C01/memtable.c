/* C01.a -- the REAL memtable.c + skiplist.c (ldb_memtable_add,
 * ldb_skiplist_insert with symbolic node heights, ldb_memtable_get,
 * ldb_skipiter_seek/find_ge, the real internal-key comparator of dbformat.c
 * and the real bytewise comparator): after inserting VP_N entries with
 * symbolic 1-byte user key, distinct symbolic sequence, symbolic type and
 * 1-byte value, a lookup (u, S) returns exactly the newest entry of u with
 * sequence <= S: its value, "deleted", or a miss.
 * Also (VP_SCAN) the memtable iterator yields all entries in internal-key
 * order (user key ascending, sequence descending), each exactly once.
 *
 * Models: arena -> one separate typed object per skip node (full height,
 * so that no pointer is stored in a byte array) and one byte object per
 * entry; random height -> symbolic 1..VP_HEIGHT per insertion.
 * The skip list uses the pre-C99 "struct hack" (next[1] indexed beyond 1):
 * CBMC's array-bounds check is therefore off for these queries; pointer
 * (object-bounds) checks remain on.
 */
#include "vp.h"
#include "util/arena.h"
#include "util/buffer.h"
#include "util/comparator.h"
#include "util/random.h"
#include "util/slice.h"
#include "util/status.h"
#include "table/iterator.h"
#include "dbformat.h"
#include "memtable.h"

#ifndef VP_N
#define VP_N 3
#endif
#ifndef VP_HEIGHT
#define VP_HEIGHT 2
#endif
#ifndef VP_SEQMAX
#define VP_SEQMAX 15
#endif
#define VP_MAXH 12

/* ---- arena model ------------------------------------------------------ */
struct vp_node { const uint8_t *key; void *next[VP_MAXH]; };
static struct vp_node nd0, nd1, nd2, nd3, nd4, nd5, nd6;
static struct vp_node *const ndp[7] = {&nd0, &nd1, &nd2, &nd3, &nd4, &nd5, &nd6};
static int nd_used = 0;
static size_t arena_bytes = 0;

void ldb_arena_init(ldb_arena_t *a) { (void)a; }
void ldb_arena_clear(ldb_arena_t *a) { (void)a; }
size_t ldb_arena_usage(const ldb_arena_t *a) { (void)a; return arena_bytes; }

void *
ldb_arena_alloc(ldb_arena_t *a, size_t size) {
  uint8_t *p;
  (void)a;
  VP_ASSERT(size > 0, "arena never asked for 0 bytes");
  p = vp_input(size);
  arena_bytes += size;
  return p;
}

void *
ldb_arena_alloc_aligned(ldb_arena_t *a, size_t size) {
  (void)a;
  VP_ASSERT(size >= sizeof(void *) * 2 && size <= sizeof(struct vp_node), "node size within a full-height node");
  VP_ASSERT(nd_used < 7, "vp-model: node pool exhausted");
  arena_bytes += size;
  return ndp[nd_used++];
}

/* ---- random height ------------------------------------------------------ */
static int flips = 0;
void ldb_rand_init(ldb_rand_t *r, uint32_t seed) { r->seed = seed; }
int
ldb_rand_one_in(ldb_rand_t *r, uint32_t n) {
  (void)r; (void)n;
  if (flips + 1 >= VP_HEIGHT)   /* height <= VP_HEIGHT */
    return 0;
  if (vp_bool()) { flips++; return 1; }
  return 0;
}

/* ---- entries ------------------------------------------------------------ */
static uint8_t e_u[VP_N + 1];
static uint64_t e_seq[VP_N + 1];
static int e_type[VP_N + 1];
static uint8_t e_val[VP_N + 1];

void
harness(void) {
  ldb_comparator_t icmp;
  ldb_memtable_t *mt;
  int i, j, have = 0, rtype = 0, found, status = LDB_OK;
  uint64_t rseq = 0, qs;
  uint8_t rval = 0, qu;
  ldb_slice_t quk;
  ldb_lkey_t lk;
  ldb_buffer_t value;

  ldb_ikc_init(&icmp, ldb_bytewise_comparator);
  mt = ldb_memtable_create(&icmp);
  ldb_memtable_ref(mt);

  for (i = 0; i < VP_N; i++) {
    ldb_slice_t k, v;
    e_u[i] = vp_u8();
    e_seq[i] = vp_u64();
    VP_ASSUME(e_seq[i] >= 1 && e_seq[i] <= VP_SEQMAX);
    for (j = 0; j < i; j++)
      VP_ASSUME(e_seq[j] != e_seq[i]);   /* sequences are unique; insertion order is arbitrary */
    e_type[i] = vp_bool();
    e_val[i] = vp_u8();
    k = ldb_slice(&e_u[i], 1);
    v = ldb_slice(&e_val[i], 1);   /* concrete entry size; the memtable does not tie value length to type */
    flips = 0;
    ldb_memtable_add(mt, e_seq[i], (ldb_valtype_t)e_type[i], &k, &v);
  }
  VP_ASSERT(ldb_memtable_usage(mt) > 0, "usage accounts for the skip list head");

#ifndef VP_SCAN
  qu = vp_u8();
  qs = vp_u64();
  VP_ASSUME(qs <= VP_SEQMAX + 1);
  quk = ldb_slice(&qu, 1);
  ldb_lkey_init(&lk, &quk, qs);
  ldb_buffer_init(&value);

  found = ldb_memtable_get(mt, &lk, &value, &status);

  for (i = 0; i < VP_N; i++)
    if (e_u[i] == qu && e_seq[i] <= qs && (!have || e_seq[i] > rseq)) {
      have = 1; rseq = e_seq[i]; rtype = e_type[i]; rval = e_val[i];
    }

  if (have && rtype == LDB_TYPE_VALUE) {
    VP_ASSERT(found == 1 && status == LDB_OK, "newest visible entry is a value: found");
    VP_ASSERT(!found || (value.size == 1 && value.data[0] == rval), "returns the newest visible value");
    VP_WITNESS("found");
  } else if (have) {
    VP_ASSERT(found == 1 && status == LDB_NOTFOUND, "newest visible entry is a tombstone: answered as deleted");
    VP_WITNESS("deleted");
  } else {
    VP_ASSERT(found == 0, "no visible entry of this user key: miss (search continues in older places)");
    VP_WITNESS("miss");
  }
#else
  {
    /* full scan through the real memtable iterator */
    ldb_iter_t *it = ldb_memiter_create(mt);
    int n = 0;
    uint8_t pu = 0;
    uint64_t ps = 0;
    ldb_iter_first(it);
    while (ldb_iter_valid(it) && n <= VP_N) {
      ldb_slice_t k = ldb_iter_key(it);
      ldb_slice_t v = ldb_iter_value(it);
      uint8_t u;
      uint64_t tag, s;
      int m = -1;
      VP_ASSERT(k.size == 9, "iterator key is user key + tag");
      u = k.data[0];
      tag = ldb_fixed64_decode(k.data + 1);
      s = tag >> 8;
      for (i = 0; i < VP_N; i++)
        if (e_seq[i] == s) m = i;
      VP_ASSERT(m >= 0 && e_u[m] == u && e_type[m] == (int)(tag & 255), "every yielded entry was inserted");
      VP_ASSERT(m < 0 || (v.size == 1 && v.data[0] == e_val[m]), "yielded value matches");
      if (n > 0)
        VP_ASSERT(pu < u || (pu == u && ps > s), "internal-key order: user key ascending, sequence descending");
      pu = u; ps = s;
      n++;
      ldb_iter_next(it);
    }
    VP_ASSERT(n == VP_N, "the scan yields every inserted entry exactly once");
    VP_WITNESS("scan");
  }
#endif
}
