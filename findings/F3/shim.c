/* LD_PRELOAD shim: while $F3_FAIL_LOG_OPEN is set, every read-only open(2)/
 * openat of a file whose name ends in ".log" fails with EMFILE (a transient
 * "too many open files"). */
#define _GNU_SOURCE
#include <dlfcn.h>
#include <errno.h>
#include <fcntl.h>
#include <stdarg.h>
#include <stdlib.h>
#include <string.h>

static int is_log(const char *p) { size_t n = strlen(p); return n >= 4 && strcmp(p + n - 4, ".log") == 0; }

int open(const char *path, int flags, ...) {
  static int (*real)(const char *, int, ...) = 0;
  mode_t mode = 0;
  if (flags & O_CREAT) { va_list ap; va_start(ap, flags); mode = va_arg(ap, int); va_end(ap); }
  if (!real) real = dlsym(RTLD_NEXT, "open");
  if (getenv("F3_FAIL_LOG_OPEN") && (flags & O_ACCMODE) == O_RDONLY && is_log(path)) { errno = EMFILE; return -1; }
  return real(path, flags, mode);
}
int open64(const char *path, int flags, ...) {
  static int (*real)(const char *, int, ...) = 0;
  mode_t mode = 0;
  if (flags & O_CREAT) { va_list ap; va_start(ap, flags); mode = va_arg(ap, int); va_end(ap); }
  if (!real) real = dlsym(RTLD_NEXT, "open64");
  if (getenv("F3_FAIL_LOG_OPEN") && (flags & O_ACCMODE) == O_RDONLY && is_log(path)) { errno = EMFILE; return -1; }
  return real(path, flags, mode);
}
