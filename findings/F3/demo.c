/* F3 demonstration against the real library: a transient failure to open the
 * write-ahead log during recovery is swallowed (paranoid_checks off, the
 * default), ldb_open reports success, and the unread log is then deleted:
 * acknowledged writes are gone for good.
 * exit 0 = no acknowledged write lost (open refused or data intact), 1 = lost (defect), 2 = setup problem. */
#include <stdio.h>
#include <stdlib.h>
#include <string.h>
#include <sys/wait.h>
#include <unistd.h>
#include <lcdb.h>

int main(int argc, char **argv) {
  const char *dir = argc > 1 ? argv[1] : "/var/tmp/f3demo-db";
  ldb_dbopt_t opt = *ldb_dbopt_default;
  ldb_t *db;
  ldb_slice_t k = ldb_string("k"), v = ldb_string("acknowledged");
  char cmd[600];
  int rc, st;
  pid_t pid;
  snprintf(cmd, sizeof(cmd), "rm -rf %s", dir); system(cmd);
  opt.create_if_missing = 1;
  pid = fork();
  if (pid == 0) {
    if (ldb_open(dir, &opt, &db) != LDB_OK) _exit(2);
    rc = ldb_put(db, &k, &v, 0);
    fprintf(stderr, "put k rc=%d (acknowledged), process dies without closing\n", rc);
    _exit(rc == LDB_OK ? 0 : 2);
  }
  waitpid(pid, &st, 0);
  if (WEXITSTATUS(st) != 0) return 2;
  /* recovery with the transient fault */
  setenv("F3_FAIL_LOG_OPEN", "1", 1);
  rc = ldb_open(dir, &opt, &db);
  unsetenv("F3_FAIL_LOG_OPEN");
  fprintf(stderr, "ldb_open while the log cannot be opened (EMFILE): rc=%d\n", rc);
  if (rc == LDB_OK) {
    rc = ldb_has(db, &k, 0);
    fprintf(stderr, "  has(k) in that session: %s\n", rc == LDB_OK ? "present" : "MISSING");
    ldb_close(db);
  } else {
    fprintf(stderr, "  open refused: the failure was reported\n");
  }
  /* the fault has cleared */
  rc = ldb_open(dir, &opt, &db);
  if (rc != LDB_OK) { fprintf(stderr, "reopen failed rc=%d\n", rc); return 2; }
  rc = ldb_has(db, &k, 0);
  fprintf(stderr, "after the fault cleared: has(k) = %s\n", rc == LDB_OK ? "present" : "MISSING");
  ldb_close(db);
  if (rc != LDB_OK) { fprintf(stderr, "DEFECT: an acknowledged write was lost although every call reported success\n"); return 1; }
  fprintf(stderr, "ok\n");
  return 0;
}
