#!/bin/sh
# usage: run.sh [repo]   -- builds the real sources of <repo> (default /repo) and runs the F3 scenario
set -e
REPO=${1:-/repo}
D=$(mktemp -d /var/tmp/f3demo.XXXXXX)
trap 'rm -rf "$D"' EXIT
gcc -shared -fPIC -o "$D/shim.so" "$(dirname "$0")/shim.c" -ldl
gcc -O1 -g -std=gnu99 -D_GNU_SOURCE -DLDB_PTHREAD -DNDEBUG -w -I"$REPO/include" -I"$REPO/src" \
    "$(dirname "$0")/demo.c" $(ls "$REPO"/src/*.c "$REPO"/src/util/*.c "$REPO"/src/table/*.c | grep -v -e dbutil.c -e testutil.c) -o "$D/demo" -lpthread 2>"$D/build.log" || { cat "$D/build.log"; exit 2; }
LD_PRELOAD="$D/shim.so" "$D/demo" "$D/db"
