/* F1 demonstration against the real library: an acknowledged write is lost
 * after a transient log-append failure.  exit 0 = data intact, 1 = acknowledged
 * write lost (defect), 2 = setup problem. */
#include <stdio.h>
#include <stdlib.h>
#include <string.h>
#include <sys/wait.h>
#include <unistd.h>
#include <lcdb.h>

static int put(ldb_t *db, const char *k, const char *v) {
  ldb_slice_t ks = ldb_string(k), vs = ldb_string(v);
  return ldb_put(db, &ks, &vs, 0);
}

int main(int argc, char **argv) {
  const char *dir = argc > 1 ? argv[1] : "/var/tmp/f1demo-db";
  ldb_dbopt_t opt = *ldb_dbopt_default;
  ldb_t *db;
  int rc, st;
  pid_t pid;
  char cmd[512];
  snprintf(cmd, sizeof(cmd), "rm -rf %s", dir);
  system(cmd);
  opt.create_if_missing = 1;
  pid = fork();
  if (pid == 0) {
    int ra, rb, rc2;
    if (ldb_open(dir, &opt, &db) != LDB_OK) _exit(2);
    ra = put(db, "a", "1");
    rb = put(db, "b", "2");      /* the shim makes this append fail */
    rc2 = put(db, "c", "3");     /* fault has cleared */
    fprintf(stderr, "put a rc=%d, put b rc=%d, put c rc=%d\n", ra, rb, rc2);
    /* report which writes were acknowledged, then die without closing */
    _exit((ra == 0 ? 16 : 0) | (rb == 0 ? 32 : 0) | (rc2 == 0 ? 64 : 0));
  }
  waitpid(pid, &st, 0);
  st = WEXITSTATUS(st);
  unsetenv("F1_NTH");
  unsetenv("LD_PRELOAD");
  rc = ldb_open(dir, &opt, &db);
  if (rc != LDB_OK) { fprintf(stderr, "reopen failed rc=%d\n", rc); return 2; }
  {
    const char *keys[3] = {"a", "b", "c"};
    int acked[3], lost = 0, i;
    acked[0] = st & 16; acked[1] = st & 32; acked[2] = st & 64;
    for (i = 0; i < 3; i++) {
      ldb_slice_t ks = ldb_string(keys[i]);
      int h = ldb_has(db, &ks, 0);
      fprintf(stderr, "key %s acknowledged=%d present_after_reopen=%d\n", keys[i], acked[i] != 0, h == LDB_OK);
      if (acked[i] && h != LDB_OK) lost = 1;
    }
    ldb_close(db);
    if (lost) { fprintf(stderr, "DEFECT: an acknowledged write is missing after reopen\n"); return 1; }
  }
  fprintf(stderr, "ok: every acknowledged write survived\n");
  return 0;
}
