/* LD_PRELOAD shim: the N-th write(2) to a file whose name ends in ".log"
 * is cut short (half the bytes), the following write to it fails with ENOSPC,
 * later writes succeed again (the fault has cleared).  N from $F1_NTH. */
#define _GNU_SOURCE
#include <dlfcn.h>
#include <errno.h>
#include <stdio.h>
#include <stdlib.h>
#include <string.h>
#include <unistd.h>

static int count = 0, state = 0;

static int is_log(int fd) {
  char p[64], t[4096];
  ssize_t n;
  snprintf(p, sizeof(p), "/proc/self/fd/%d", fd);
  n = readlink(p, t, sizeof(t) - 1);
  if (n < 4) return 0;
  t[n] = 0;
  return strcmp(t + n - 4, ".log") == 0;
}

ssize_t write(int fd, const void *buf, size_t len) {
  static ssize_t (*real)(int, const void *, size_t) = 0;
  const char *e = getenv("F1_NTH");
  int nth = e ? atoi(e) : 0;
  if (!real) real = dlsym(RTLD_NEXT, "write");
  if (nth > 0 && is_log(fd)) {
    if (state == 1) { state = 2; errno = ENOSPC; return -1; }
    if (state == 0 && ++count == nth && len > 1) { state = 1; return real(fd, buf, len / 2); }
  }
  return real(fd, buf, len);
}
