/* F5 demonstration against the real library: if the new MANIFEST cannot be
 * created while opening a database (here: a directory is in the way, EISDIR;
 * EACCES/ENOSPC/EMFILE behave the same), ldb_open crashes (NULL dereference
 * in the failure path of ldb_versions_apply) instead of returning the error.
 * exit 0 = error returned, 1 = crash (defect), 2 = setup problem. */
#include <stdio.h>
#include <stdlib.h>
#include <string.h>
#include <sys/stat.h>
#include <sys/wait.h>
#include <unistd.h>
#include <lcdb.h>

int main(int argc, char **argv) {
  const char *dir = argc > 1 ? argv[1] : "/var/tmp/f5demo-db";
  ldb_dbopt_t opt = *ldb_dbopt_default;
  ldb_t *db;
  ldb_slice_t k = ldb_string("k"), v = ldb_string("v");
  char cmd[600], path[600];
  int i, st;
  pid_t pid;
  snprintf(cmd, sizeof(cmd), "rm -rf %s", dir); system(cmd);
  opt.create_if_missing = 1;
  if (ldb_open(dir, &opt, &db) != LDB_OK) return 2;
  if (ldb_put(db, &k, &v, 0) != LDB_OK) return 2;
  ldb_close(db);
  for (i = 1; i <= 12; i++) {            /* whatever number the next MANIFEST gets */
    snprintf(path, sizeof(path), "%s/MANIFEST-%06d", dir, i);
    mkdir(path, 0755);                    /* EEXIST for the live one is fine */
  }
  pid = fork();
  if (pid == 0) {
    int rc = ldb_open(dir, &opt, &db);
    fprintf(stderr, "ldb_open with the new MANIFEST uncreatable: rc=%d (%s)\n", rc, ldb_strerror(rc));
    _exit(rc == LDB_OK ? 3 : 0);
  }
  waitpid(pid, &st, 0);
  if (WIFSIGNALED(st)) {
    fprintf(stderr, "DEFECT: ldb_open was killed by signal %d instead of returning the I/O error\n", WTERMSIG(st));
    return 1;
  }
  if (WEXITSTATUS(st) == 3) { fprintf(stderr, "unexpected: open succeeded\n"); return 2; }
  fprintf(stderr, "ok: the failure was reported as a status\n");
  return 0;
}
