#!/bin/sh
# usage: run.sh [repo]   -- builds the real sources of <repo> (default /repo) and runs the F5 scenario
set -e
REPO=${1:-/repo}
D=$(mktemp -d /var/tmp/f5demo.XXXXXX)
trap 'rm -rf "$D"' EXIT
gcc -O1 -g -std=gnu99 -D_GNU_SOURCE -DLDB_PTHREAD -DNDEBUG -w -I"$REPO/include" -I"$REPO/src" \
    "$(dirname "$0")/demo.c" $(ls "$REPO"/src/*.c "$REPO"/src/util/*.c "$REPO"/src/table/*.c | grep -v -e dbutil.c -e testutil.c) -o "$D/demo" -lpthread 2>"$D/build.log" || { cat "$D/build.log"; exit 2; }
"$D/demo" "$D/db"
