/* F2 demonstration against the real library: after ldb_repair a point lookup
 * returns a stale value although a newer value survives in another table
 * (the iterator still returns the newer one).
 * exit 0 = lookup returns the newest surviving value, 1 = stale (defect), 2 = setup problem. */
#include <stdio.h>
#include <stdlib.h>
#include <string.h>
#include <dirent.h>
#include <unistd.h>
#include <lcdb.h>

int ldb_test_compact_memtable(ldb_t *db);
void ldb_test_compact_range(ldb_t *db, int level, const ldb_slice_t *begin, const ldb_slice_t *end);

static void put(ldb_t *db, const char *k, const char *v) {
  ldb_slice_t ks = ldb_string(k), vs = ldb_string(v);
  if (ldb_put(db, &ks, &vs, 0) != LDB_OK) exit(2);
}

static void show(const char *dir, const char *when) {
  DIR *d = opendir(dir); struct dirent *e;
  fprintf(stderr, "%s:", when);
  while (d && (e = readdir(d))) if (e->d_name[0] != '.') fprintf(stderr, " %s", e->d_name);
  fprintf(stderr, "\n");
  if (d) closedir(d);
}

int main(int argc, char **argv) {
  const char *dir = argc > 1 ? argv[1] : "/var/tmp/f2demo-db";
  ldb_dbopt_t opt = *ldb_dbopt_default;
  ldb_t *db;
  char cmd[600], prop[64];
  ldb_slice_t k = ldb_string("k"), val;
  char *layout = NULL;
  int rc, stale = 0;
  snprintf(cmd, sizeof(cmd), "rm -rf %s", dir); system(cmd);
  opt.create_if_missing = 1;
  if (ldb_open(dir, &opt, &db) != LDB_OK) return 2;
  /* old value: flushed (lands in level 2 on an empty tree), later rewritten by a
     manual compaction into a table with a HIGHER file number */
  put(db, "a", "x"); put(db, "k", "v1-old"); put(db, "z", "x");
  ldb_test_compact_memtable(db);
  /* newer value: flushed into a table with a lower number than the rewrite below */
  put(db, "k", "v2-new");
  ldb_test_compact_memtable(db);
  if (ldb_property(db, "leveldb.sstables", &layout)) { fprintf(stderr, "before compaction:\n%s", layout); ldb_free(layout); }
  ldb_test_compact_range(db, 2, NULL, NULL);
  if (ldb_property(db, "leveldb.sstables", &layout)) { fprintf(stderr, "after compacting level 2:\n%s", layout); ldb_free(layout); }
  if (ldb_get(db, &k, &val, 0) == LDB_OK) { fprintf(stderr, "before repair: get(k) = %.*s\n", (int)val.size, (char *)val.data); ldb_free(val.data); }
  ldb_close(db);
  show(dir, "files before metadata loss");
  snprintf(cmd, sizeof(cmd), "rm -f %s/MANIFEST-* %s/CURRENT", dir, dir); system(cmd);
  rc = ldb_repair(dir, &opt);
  fprintf(stderr, "ldb_repair rc=%d\n", rc);
  if (rc != LDB_OK) return 2;
  opt.create_if_missing = 0;
  if (ldb_open(dir, &opt, &db) != LDB_OK) return 2;
  if (ldb_property(db, "leveldb.sstables", &layout)) { fprintf(stderr, "after repair:\n%s", layout); ldb_free(layout); }
  rc = ldb_get(db, &k, &val, 0);
  if (rc == LDB_OK) {
    fprintf(stderr, "after repair: get(k) = %.*s\n", (int)val.size, (char *)val.data);
    stale = !(val.size == 6 && memcmp(val.data, "v2-new", 6) == 0);
    ldb_free(val.data);
  } else {
    fprintf(stderr, "after repair: get(k) rc=%d\n", rc);
    stale = 1;
  }
  {
    ldb_iter_t *it = ldb_iterator(db, 0);
    ldb_iter_seek(it, &k);
    if (ldb_iter_valid(it)) {
      ldb_slice_t v = ldb_iter_value(it);
      fprintf(stderr, "after repair: iterator(k) = %.*s\n", (int)v.size, (char *)v.data);
    }
    ldb_iter_destroy(it);
  }
  ldb_close(db);
  if (stale) { fprintf(stderr, "DEFECT: point lookup after repair does not return the newest surviving value\n"); return 1; }
  fprintf(stderr, "ok\n");
  return 0;
}
