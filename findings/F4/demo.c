/* F4 demonstration against the real library (POSIX env): a refused second
 * ldb_open of an already open database in the same process silently drops the
 * first handle's file lock, so ANOTHER process can then open the database too.
 * exit 0 = exclusivity holds, 1 = a second process got the database (defect), 2 = setup problem. */
#include <stdio.h>
#include <stdlib.h>
#include <string.h>
#include <sys/wait.h>
#include <unistd.h>
#include <lcdb.h>

static const char *self;

/* a genuinely separate process (fork + exec: fresh in-process lock table) */
static int other_process_can_open(const char *dir) {
  pid_t pid = fork();
  int st;
  if (pid == 0) {
    execl(self, self, dir, "probe", (char *)0);
    _exit(2);
  }
  waitpid(pid, &st, 0);
  return WEXITSTATUS(st) == 0;
}

int main(int argc, char **argv) {
  const char *dir = argc > 1 ? argv[1] : "/var/tmp/f4demo-db";
  ldb_dbopt_t opt = *ldb_dbopt_default;
  ldb_t *db, *again;
  char cmd[600];
  int rc, a, b;
  self = argv[0];
  if (argc > 2 && strcmp(argv[2], "probe") == 0) {
    ldb_t *db2;
    return ldb_open(dir, &opt, &db2) == LDB_OK ? 0 : 1;
  }
  snprintf(cmd, sizeof(cmd), "rm -rf %s", dir); system(cmd);
  opt.create_if_missing = 1;
  if (ldb_open(dir, &opt, &db) != LDB_OK) return 2;
  a = other_process_can_open(dir);
  fprintf(stderr, "database open in this process; another process can open it: %s\n", a ? "YES" : "no");
  rc = ldb_open(dir, &opt, &again);            /* same process, same directory */
  fprintf(stderr, "second ldb_open in the same process: rc=%d (%s)\n", rc, rc == LDB_OK ? "ACCEPTED" : "refused, as it should be");
  if (rc == LDB_OK) return 1;
  b = other_process_can_open(dir);
  fprintf(stderr, "after the refused attempt, first handle still open; another process can open it: %s\n", b ? "YES" : "no");
  ldb_close(db);
  if (a || b) { fprintf(stderr, "DEFECT: the database was opened through a second handle while the first was held\n"); return 1; }
  fprintf(stderr, "ok\n");
  return 0;
}
