#!/bin/sh
# usage: tools/run_all.sh [quick|thorough] [ids...]   -- runs the registered checks one after another
# (each uses all cores) and prints one line per property; full logs under /var/tmp/runall/.
TIER=${1:-quick}; shift 2>/dev/null
cd /verif || exit 2
IDS="$@"
[ -z "$IDS" ] && IDS=$(python3 -c "import json;print(' '.join(c['property_id'] for c in json.load(open('MANIFEST.json'))['checks']))")
mkdir -p /var/tmp/runall
for p in $IDS; do
  s=$(date +%s)
  ./check $p --tier $TIER > /var/tmp/runall/$p.$TIER.log 2>&1
  rc=$?
  e=$(( $(date +%s) - s ))
  echo "$p exit=$rc wall=${e}s $(grep -E '^SUMMARY' /var/tmp/runall/$p.$TIER.log | cut -c1-160) $(grep -cE '^(VIOLATION|CHECK-BROKEN|UNCONFIRMED)' /var/tmp/runall/$p.$TIER.log) alarms $(grep -c '^KNOWN-FINDING' /var/tmp/runall/$p.$TIER.log) known"
done
