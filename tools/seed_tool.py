#!/usr/bin/env python3
"""Seeded-change tooling (see /verif/seeded/README.md).

  seed_tool.py confirm <out-dir>            confirm a sub-agent's change in a scratch worktree:
                                            applies cleanly, builds, existing suite passes,
                                            demonstration fails with it and passes without
  seed_tool.py install <out-dir> <seed-id> <property>   copy into /verif/seeded/<seed-id>/ (+ meta.json)
  seed_tool.py eval <seed-id> [--props C01,C04] [--tier quick] [--inplace]
                                            run checks against the change and record the result in
                                            meta.json; default: a scratch worktree + VERIF_REPO (safe
                                            while other jobs read /repo); --inplace: git -C /repo apply
                                            ... git -C /repo checkout -- . (what a user would do)
"""
import argparse
import json
import os
import re
import shutil
import subprocess
import sys
import time

VERIF = os.path.dirname(os.path.dirname(os.path.abspath(__file__)))
SEEDED = os.path.join(VERIF, "seeded")


def sh(cmd, cwd=None, timeout=None, env=None):
    p = subprocess.run(cmd, shell=True, cwd=cwd, stdout=subprocess.PIPE, stderr=subprocess.STDOUT,
                       timeout=timeout, env=env)
    return p.returncode, p.stdout.decode(errors="replace")


def worktree(path):
    sh("git -C /repo worktree remove --force %s" % path)
    shutil.rmtree(path, ignore_errors=True)
    rc, out = sh("git -C /repo worktree add -q --detach %s HEAD" % path)
    if rc != 0:
        raise SystemExit("worktree failed: " + out)


def drop_worktree(path):
    sh("git -C /repo worktree remove --force %s" % path)
    shutil.rmtree(path, ignore_errors=True)
    sh("git -C /repo worktree prune")


def run_suite(tree, jobs=6):
    """Build + ctest; retries the load-dependent t-db flake (t-db.c:1807 on the unchanged tree).
    The tests share /tmp/leveldbtest-<uid> unless TEST_TMPDIR is set: use a private one."""
    tmpd = tree.rstrip("/") + "-testtmp"
    shutil.rmtree(tmpd, ignore_errors=True)
    os.makedirs(tmpd)
    os.environ["TEST_TMPDIR"] = tmpd
    try:
        return _run_suite(tree, jobs)
    finally:
        shutil.rmtree(tmpd, ignore_errors=True)
        os.environ.pop("TEST_TMPDIR", None)


def _run_suite(tree, jobs=6):
    rc, out = sh("cmake -G Ninja -B _build -DCMAKE_BUILD_TYPE=RelWithDebInfo && cmake --build _build", cwd=tree, timeout=3600)
    if rc != 0:
        return False, "build failed:\n" + out[-3000:]
    rc, out = sh("ctest --test-dir _build -j%d --timeout 1500" % jobs, cwd=tree, timeout=7200)
    failed = re.findall(r"^\s*\d+ - (\S+) \(", out, re.M)
    note = ""
    still = []
    for t in failed:
        ok = False
        last = ""
        for _ in range(6):
            rc2, o2 = sh("./t-%s" % t, cwd=os.path.join(tree, "_build"), timeout=3600)
            if rc2 == 0:
                ok = True
                break
            last = o2.strip().splitlines()[-1][-200:] if o2.strip() else ""
        note += "test %s failed in the parallel run, %s when rerun alone%s; " % (
            t, "passed" if ok else "FAILED", "" if ok else " (last line: %s)" % last)
        if not ok:
            still.append(t)
    m = re.search(r"(\d+)% tests passed, (\d+) tests failed out of (\d+)", out)
    summary = m.group(0) if m else out[-300:]
    return (not still), "%s %s" % (summary, note)


def find_runner(d):
    for n in ("run.sh", "demo.sh"):
        if os.path.exists(os.path.join(d, n)):
            return n
    return None


def confirm(out):
    res = {}
    patch = os.path.join(out, "patch.diff")
    runner = find_runner(out)
    if not os.path.exists(patch) or not runner:
        raise SystemExit("need patch.diff and run.sh in " + out)
    tag = re.sub(r"[^A-Za-z0-9]", "_", out.strip("/"))[-40:]
    wt = "/tmp/confirm-" + tag
    clean = "/tmp/confirm-clean-" + tag
    worktree(wt)
    worktree(clean)
    try:
        rc, o = sh("git apply --check %s && git apply %s" % (patch, patch), cwd=wt)
        res["applies"] = rc == 0
        if rc != 0:
            res["apply_output"] = o[-1000:]
            return res
        rc, o = sh("git diff --stat", cwd=wt)
        res["diffstat"] = o.strip()
        ok, note = run_suite(wt)
        res["suite_passes_with_change"] = ok
        res["suite_note"] = note
        rc, o = sh("sh %s %s" % (runner, wt), cwd=out, timeout=3600)
        res["demo_with_change_exit"] = rc
        res["demo_with_change_tail"] = o[-800:]
        rc, o = sh("sh %s %s" % (runner, clean), cwd=out, timeout=3600)
        res["demo_without_change_exit"] = rc
        res["demo_without_change_tail"] = o[-400:]
        res["confirmed"] = bool(res["applies"] and ok and res["demo_with_change_exit"] != 0 and res["demo_without_change_exit"] == 0)
    finally:
        drop_worktree(wt)
        drop_worktree(clean)
    return res


def install(out, seed_id, prop, confirm_result=None):
    dst = os.path.join(SEEDED, seed_id)
    os.makedirs(dst, exist_ok=True)
    for n in os.listdir(out):
        p = os.path.join(out, n)
        if os.path.isfile(p) and os.path.getsize(p) < 2_000_000 and not n.endswith((".o", ".so", ".exe")):
            shutil.copy(p, os.path.join(dst, n))
    meta_path = os.path.join(dst, "meta.json")
    meta = json.load(open(meta_path)) if os.path.exists(meta_path) else {}
    meta.update({"seed_id": seed_id, "property": prop, "origin": "independent sub-agent given only the property text and a scratch worktree"})
    if confirm_result:
        meta["confirmation"] = confirm_result
    readme = os.path.join(dst, "README.txt")
    if os.path.exists(readme) and "needs_to_manifest" not in meta:
        meta["needs_to_manifest"] = "see README.txt"
    json.dump(meta, open(meta_path, "w"), indent=1)
    return dst


def evaluate(seed_id, props, tier, inplace, jobs):
    d = os.path.join(SEEDED, seed_id)
    patch = os.path.join(d, "patch.diff")
    meta_path = os.path.join(d, "meta.json")
    meta = json.load(open(meta_path)) if os.path.exists(meta_path) else {"seed_id": seed_id}
    props = props or [meta.get("property")]
    results = {}
    env = dict(os.environ)
    env["VERIF_JOBS"] = str(jobs)
    env["VERIF_EVIDENCE_SCRATCH"] = "1"   # a run against a seeded change is not evidence about /repo
    if inplace:
        rc, o = sh("git -C /repo apply %s" % patch)
        if rc != 0:
            raise SystemExit("apply failed: " + o)
        repo = "/repo"
    else:
        repo = "/tmp/seedeval-" + seed_id
        worktree(repo)
        rc, o = sh("git apply %s" % patch, cwd=repo)
        if rc != 0:
            drop_worktree(repo)
            raise SystemExit("apply failed: " + o)
        env["VERIF_REPO"] = repo
    try:
        for p in props:
            t0 = time.time()
            rc, o = sh("./check %s --tier %s" % (p, tier), cwd=VERIF, env=env, timeout=6 * 3600)
            viol = [l for l in o.splitlines() if l.startswith("VIOLATION ")]
            other = [l for l in o.splitlines() if l.startswith(("CHECK-BROKEN", "UNCONFIRMED"))]
            failing = re.findall(r"^\[%s\] (\S+)\s+fail\s.*?(vp:[^\[]*)" % p, o, re.M)
            results[p] = {"tier": tier, "exit": rc, "violation_lines": len(viol), "other_alarm_lines": other[:5],
                          "caught_by": sorted(set(n for n, _ in failing))[:12],
                          "first_assertions": sorted(set(a.strip() for _, a in failing))[:6],
                          "wall_s": round(time.time() - t0, 1)}
            print(p, json.dumps(results[p])[:600])
            sys.stdout.flush()
    finally:
        if inplace:
            sh("git -C /repo checkout -- .")
        else:
            drop_worktree(repo)
        # replays written while evaluating a seed are not evidence about the real tree
        for n in os.listdir(os.path.join(VERIF, "replays")):
            if n.endswith(".json"):
                os.unlink(os.path.join(VERIF, "replays", n))
    meta.setdefault("evaluations", {}).update(results)
    meta["detected"] = any(v["exit"] == 1 and v["violation_lines"] > 0 for v in meta["evaluations"].values())
    json.dump(meta, open(meta_path, "w"), indent=1)
    return results


def main():
    ap = argparse.ArgumentParser()
    sub = ap.add_subparsers(dest="cmd")
    a = sub.add_parser("confirm"); a.add_argument("out")
    a = sub.add_parser("install"); a.add_argument("out"); a.add_argument("seed_id"); a.add_argument("prop"); a.add_argument("--confirm-json")
    a = sub.add_parser("eval"); a.add_argument("seed_id"); a.add_argument("--props"); a.add_argument("--tier", default="quick")
    a.add_argument("--inplace", action="store_true"); a.add_argument("--jobs", type=int, default=8)
    args = ap.parse_args()
    if args.cmd == "confirm":
        r = confirm(args.out)
        print(json.dumps(r, indent=1))
        json.dump(r, open(os.path.join(args.out, "confirm.json"), "w"), indent=1)
        return 0 if r.get("confirmed") else 1
    if args.cmd == "install":
        cj = json.load(open(args.confirm_json)) if args.confirm_json else None
        if cj is None and os.path.exists(os.path.join(args.out, "confirm.json")):
            cj = json.load(open(os.path.join(args.out, "confirm.json")))
        print(install(args.out, args.seed_id, args.prop, cj))
        return 0
    if args.cmd == "eval":
        evaluate(args.seed_id, args.props.split(",") if args.props else None, args.tier, args.inplace, args.jobs)
        return 0
    ap.print_help()
    return 2


if __name__ == "__main__":
    sys.exit(main())
