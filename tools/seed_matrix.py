#!/usr/bin/env python3
"""Print the seeded-change catch matrix (markdown) from seeded/*/meta.json."""
import glob
import json
import os
import re

rows = []
for m in sorted(glob.glob(os.path.join(os.path.dirname(os.path.dirname(os.path.abspath(__file__))), "seeded", "S-*", "meta.json"))):
    d = json.load(open(m))
    sid = d.get("seed_id")
    conf = d.get("confirmation", {})
    diff = open(os.path.join(os.path.dirname(m), "patch.diff")).read()
    files = sorted(set(re.findall(r"^\+\+\+ b/(\S+)", diff, re.M)))
    funcs = sorted(set(f for f in re.findall(r"^@@.*@@\s*(?:static\s+)?(?:\w+\s+)*?(\w+)\(", diff, re.M)))
    ev = d.get("evaluations", {})
    det = []
    miss = []
    for p, r in sorted(ev.items()):
        if r.get("exit") == 1 and r.get("violation_lines", 0) > 0:
            det.append("%s: %s" % (p, ", ".join(r.get("caught_by", [])[:3]) + (" ..." if len(r.get("caught_by", [])) > 3 else "")))
        else:
            miss.append(p)
    rows.append((sid, d.get("property"), ", ".join(files), "yes" if conf.get("confirmed") else ("no" if conf else "pending"),
                 "; ".join(det) if det else "-", ", ".join(miss) if miss else "-", d.get("what", "")))
print("| seed | property | file(s) changed | confirmed | caught by (check: obligations) | checks that miss it |")
print("|---|---|---|---|---|---|")
for r in rows:
    print("| %s | %s | %s | %s | %s | %s |" % r[:6])
