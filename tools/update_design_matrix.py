#!/usr/bin/env python3
import os, re, subprocess
V = os.path.dirname(os.path.dirname(os.path.abspath(__file__)))
m = subprocess.check_output(["python3", os.path.join(V, "tools", "seed_matrix.py")]).decode()
p = os.path.join(V, "DESIGN.md")
s = open(p).read()
s = re.sub(r"<!-- SEED-MATRIX-BEGIN -->.*<!-- SEED-MATRIX-END -->", "<!-- SEED-MATRIX-BEGIN -->\n" + m + "<!-- SEED-MATRIX-END -->", s, flags=re.S)
open(p, "w").write(s)
