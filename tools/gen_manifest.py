#!/usr/bin/env python3
"""Regenerate /verif/MANIFEST.json from the obligation modules obl/Cnn.py.

A property is claimed iff obl/Cnn.py exists and defines OBLIGATIONS and a META
with the manifest fields; every other property of properties.jsonl is listed
under not_applicable with the reason recorded in NOT_APPLICABLE below.
"""
import importlib
import json
import os
import sys

VERIF = os.path.dirname(os.path.dirname(os.path.abspath(__file__)))
sys.path.insert(0, os.path.join(VERIF, "lib"))
sys.path.insert(0, VERIF)

NOT_APPLICABLE = {
}
DEFAULT_NA = "no solver-based check has been built for this property yet (see DESIGN.md section 6 for the plan)"

HOOK_COMMITS = []  # filled from /repo git log (commits whose subject starts with 'verif-hook:')


def main():
    props = [json.loads(l) for l in open(os.path.join(VERIF, "properties.jsonl"))]
    checks, na, engines_props = [], [], []
    for p in props:
        pid = p["id"]
        path = os.path.join(VERIF, "obl", pid + ".py")
        if not os.path.exists(path) or pid in NOT_APPLICABLE:
            na.append({"property_id": pid, "reason": NOT_APPLICABLE.get(pid, DEFAULT_NA)})
            continue
        try:
            mod = importlib.import_module("obl." + pid)
            meta = mod.META
            assert "level_text" in meta and "level_note" in meta and mod.OBLIGATIONS
        except Exception as e:  # module still under construction
            sys.stderr.write("skipping %s: %r\n" % (pid, e))
            na.append({"property_id": pid, "reason": DEFAULT_NA})
            continue
        nq = sum(1 for o in mod.OBLIGATIONS if o.tier == "quick")
        nt = len(mod.OBLIGATIONS)
        checks.append({
            "property_id": pid,
            "quick_cmd": "./check %s --tier quick" % pid,
            "thorough_cmd": "./check %s --tier thorough" % pid,
            "evidence_file": "/verif/evidence/%s.json" % pid,
            "replay_cmd_template": "./check %s --replay {path}" % pid,
            "engine": "cbmc-obligations",
            "level_claimed": {
                "category": meta.get("level", "model_checking"),
                "text": meta["level_text"] + " (%d solver queries quick, %d thorough.)" % (nq, nt),
                "design_ref": meta.get("design_ref", "DESIGN.md section 6 " + pid),
            },
            "level_note": meta["level_note"],
            "technique": meta.get("technique", "bounded symbolic execution of the real C translation units with CBMC (SAT), unwinding assertions, reachability witnesses, native replay of counterexamples"),
        })
        engines_props.append(pid)
    import subprocess
    try:
        out = subprocess.check_output(["git", "-C", "/repo", "log", "--format=%H %s"], text=True)
        hooks = [l.split()[0] for l in out.splitlines() if " verif-hook:" in l or l.split(" ", 1)[1].startswith("verif-hook:")]
    except Exception:
        hooks = []
    man = {
        "version": 1,
        "setup_cmd": "./setup.sh",
        "hooks": {
            "guard": "CHJJ_LCDB_VERIF",
            "enable": "checks compile the real translation units from /repo/src with goto-cc (and gcc for replays) adding -DCHJJ_LCDB_VERIF for the obligations that use a hook (Obl(guard=True)); the ordinary cmake build never defines it",
            "baseline_off_cmd": "cmake -G Ninja -S /repo -B /repo/_build -DCMAKE_BUILD_TYPE=RelWithDebInfo && cmake --build /repo/_build && ctest --test-dir /repo/_build -j8 --timeout 900",
            "source_commits": hooks,
            "add_only": True,
        },
        "engines": [{
            "name": "cbmc-obligations",
            "path": "/verif/check",
            "serves_properties": engines_props,
            "kind_free_text": "python driver (lib/vp.py) that, per obligation, compiles the real lcdb translation units from /repo's working tree with goto-cc, links harness + kit models, applies goto-instrument (function-pointer restriction / call replacement) and decides the assertions with CBMC 6.11 (SAT back ends minisat/cadical/kissat) under --unwinding-assertions; counterexamples are replayed against a gcc ASan/UBSan build of the same real sources",
        }],
        "checks": checks,
        "not_applicable": na,
        "notes": "All checks are bounded: 'holds' means for every value of the symbolic inputs inside the bounds listed in evidence/<id>.json (coverage.bounds / coverage.queries[].sizes). known_findings.txt lists genuine defects (known:/fixed:).",
    }
    with open(os.path.join(VERIF, "MANIFEST.json"), "w") as f:
        json.dump(man, f, indent=1)
        f.write("\n")
    print("claimed:", " ".join(engines_props))
    print("not_applicable:", " ".join(x["property_id"] for x in na))


if __name__ == "__main__":
    main()
