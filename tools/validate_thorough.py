#!/usr/bin/env python3
"""validate_thorough.py Cnn [--max N] [--cap SECONDS] [--jobs J]

Runs up to N of Cnn's thorough-only obligations (cheapest declared timeout first) on the
current tree with VERIF_THOROUGH_ALL=1 and records the ones that PASS in
obl/thorough_validated.json; `./check Cnn --tier thorough` then runs quick + exactly those.
A property without an entry in that file runs all its thorough obligations."""
import argparse, importlib, json, os, re, subprocess, sys
V = os.path.dirname(os.path.dirname(os.path.abspath(__file__)))
sys.path.insert(0, os.path.join(V, "lib")); sys.path.insert(0, V)
ap = argparse.ArgumentParser(); ap.add_argument("prop"); ap.add_argument("--max", type=int, default=40)
ap.add_argument("--cap", type=int, default=900); ap.add_argument("--jobs", type=int, default=8)
a = ap.parse_args()
mod = importlib.import_module("obl." + a.prop)
cands = sorted([o for o in mod.OBLIGATIONS if o.tier != "quick" and o.timeout <= max(a.cap, 600) * 4], key=lambda o: o.timeout)[:a.max]
path = os.path.join(V, "obl", "thorough_validated.json")
db = json.load(open(path)) if os.path.exists(path) else {}
ok = set(db.get(a.prop, []))
env = dict(os.environ, VERIF_THOROUGH_ALL="1", VERIF_JOBS=str(a.jobs), VERIF_TIMEOUT_CAP=str(a.cap))
for i in range(0, len(cands), 16):
    chunk = cands[i:i + 16]
    rx = "^(" + "|".join(re.escape(o.name) for o in chunk) + ")$"
    p = subprocess.run(["./check", a.prop, "--tier", "thorough", "--only", rx], cwd=V, env=env, stdout=subprocess.PIPE, stderr=subprocess.PIPE)
    for line in p.stderr.decode(errors="replace").splitlines():
        m = re.match(r"\[%s\] (\S+)\s+(\S+)" % a.prop, line)
        if m and m.group(2) == "pass" and any(o.name == m.group(1) for o in chunk):
            ok.add(m.group(1))
    db[a.prop] = sorted(ok)
    json.dump(db, open(path, "w"), indent=1)
    print(a.prop, "validated so far:", len(ok), "of", i + len(chunk), "tried"); sys.stdout.flush()
