#!/usr/bin/env python3
"""Per-property status table (markdown) from obl modules + evidence of the last full quick run."""
import importlib, json, os, sys
V = os.path.dirname(os.path.dirname(os.path.abspath(__file__)))
sys.path.insert(0, os.path.join(V, "lib")); sys.path.insert(0, V)
try:
    tv = json.load(open(os.path.join(V, "obl", "thorough_validated.json")))
except Exception:
    tv = {}
print("| id | level | quick obligations | thorough-only validated | real units encoded | quick wall (s, 16 cores) | solver s (sum) | peak RSS MB |")
print("|---|---|---|---|---|---|---|---|")
for l in open(os.path.join(V, "properties.jsonl")):
    pid = json.loads(l)["id"]
    try:
        m = importlib.import_module("obl." + pid)
    except Exception:
        print("| %s | not claimed | | | | | | |" % pid); continue
    q = [o for o in m.OBLIGATIONS if o.tier == "quick"]
    t = [o for o in m.OBLIGATIONS if o.tier != "quick"]
    units = sorted(set(u for o in m.OBLIGATIONS for u in (o.real + o.include_real)))
    ev = {}
    p = os.path.join(V, "evidence", pid + ".json")
    if os.path.exists(p):
        ev = json.load(open(p))
    cov = ev.get("coverage", {})
    print("| %s | %s | %d | %s of %d | %s | %s | %s | %s |" % (
        pid, m.META.get("level", "model_checking"), len(q), len(tv.get(pid, [])) if pid in tv else "all", len(t),
        ", ".join(units[:9]) + (" ... (%d)" % len(units) if len(units) > 9 else ""),
        round(ev.get("wall_s", 0)) if ev.get("tier") == "quick" else "?", cov.get("solver_time_s", "?"), cov.get("peak_rss_mb", "?")))
