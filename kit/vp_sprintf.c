/* vp_sprintf.c -- a sprintf for CBMC that handles exactly the formats lcdb's
 * filename.c uses: literal characters and "%s" (e.g. "%s.%s", "MANIFEST-%s",
 * "MANIFEST-%s\n").  Any other conversion is reported ("vp-model:").
 * CBMC only (the native replay uses libc).  Owner: C17/C14 builder.
 * Loop names: sprintf.0 (format), sprintf.1 (one %s argument). */
#ifndef VP_REPLAY
#include <stdarg.h>
#include <stddef.h>

int
sprintf(char *s, const char *fmt, ...) {
  va_list ap;
  int n = 0;
  size_t i;

  va_start(ap, fmt);

  for (i = 0; fmt[i] != 0; i++) {
    if (fmt[i] == '%') {
      const char *arg;
      size_t j;

      i++;
      __CPROVER_assert(fmt[i] == 's', "vp-model: sprintf model handles %s only");
      arg = va_arg(ap, const char *);

      for (j = 0; arg[j] != 0; j++)
        s[n++] = arg[j];
    } else {
      s[n++] = fmt[i];
    }
  }

  s[n] = 0;

  va_end(ap);

  return n;
}
#else
typedef int vp_sprintf_unused;
#endif
