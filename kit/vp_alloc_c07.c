/* vp_alloc_c07.c -- allocator model with in-place growing buffers in STATIC
 * slabs (DESIGN R2, the "one distinct static byte slab per growing buffer"
 * variant).  Owner: C07.  Alternative to vp_alloc.c / vp_alloc_slab.c: link
 * exactly one allocator model.
 *
 * ldb_malloc  -> malloc + assume non-null.
 * ldb_realloc -> lcdb uses it only to grow ldb_buffer_t/array storage.  The
 *                first call for a buffer (ptr == NULL) hands out the next of
 *                VP_NSLAB static slabs of VP_SLAB bytes; later calls return the
 *                same pointer (the slab already has full capacity).  A request
 *                beyond VP_SLAB bytes or for more than VP_NSLAB buffers trips a
 *                "vp-model:" assertion (reported as a broken check, never
 *                truncated silently).
 * ldb_free    -> slabs are not recycled; pointers to other static objects
 *                (vp_arriter slots) are ignored; heap pointers go to free().
 * -DVP_ALLOC_WRAPITERS=n: the one ldb_malloc(n * sizeof(ldb_wrapiter_t)) of
 *                merger.c is served from a static, TYPED array.  Through the
 *                plain malloc model the size expression n*sizeof(T) is folded
 *                to a number, CBMC then creates a byte array and every pointer
 *                field of the wrappers is stored in bytes (DESIGN R5: 14-22 M
 *                clauses for a 3-entry merger query).
 *
 * Why: with the copy-on-grow model (vp_alloc.c) every symbolic "does it still
 * fit?" branch in ldb_buffer_grow creates a new heap object, so buffer
 * pointers get large value sets and every byte access becomes a case split
 * (db_iter.c: 4.7 M variables for 1 entry / 2 ops).  Here buffer pointers are
 * (if-then-else of) concrete static addresses.
 * Consequence (stated in the evidence): an overflow inside a slab beyond the
 * requested size is not seen by CBMC; the native replay (ASan, libc realloc)
 * sees it.
 */
#include <stdlib.h>
#include <string.h>
#include "vp.h"

#ifdef VP_REPLAY

void *ldb_malloc(size_t size) {
  void *p = malloc(size);
  if (p == NULL) abort();
  return p;
}
void *ldb_realloc(void *ptr, size_t size) {
  ptr = realloc(ptr, size);
  if (ptr == NULL) abort();
  return ptr;
}
void ldb_free(void *ptr) { if (ptr != NULL) free(ptr); }

#else

#ifdef VP_ALLOC_WRAPITERS
#include "table/iterator_wrapper.h"
static ldb_wrapiter_t vp_wraps[VP_ALLOC_WRAPITERS];
static int vp_wraps_used = 0;
#endif

#ifndef VP_SLAB
#define VP_SLAB 32
#endif
#define VP_NSLAB 8

static uint8_t vp_slab0[VP_SLAB], vp_slab1[VP_SLAB], vp_slab2[VP_SLAB],
               vp_slab3[VP_SLAB], vp_slab4[VP_SLAB], vp_slab5[VP_SLAB],
               vp_slab6[VP_SLAB], vp_slab7[VP_SLAB];
static int vp_slab_used = 0;
size_t vp_alloc_max_request = 0;

void *
ldb_malloc(size_t size) {
  void *p;
  if (size > vp_alloc_max_request)
    vp_alloc_max_request = size;
#ifdef VP_ALLOC_WRAPITERS
  if (size == sizeof(vp_wraps)) {
    __CPROVER_assert(!vp_wraps_used, "vp-model: typed wrapper array handed out once");
    vp_wraps_used = 1;
    return vp_wraps;
  }
#endif
  p = malloc(size);
  __CPROVER_assume(p != NULL);
  return p;
}

static int
vp_is_slab(const void *p) {
  return __CPROVER_same_object(p, vp_slab0) || __CPROVER_same_object(p, vp_slab1) ||
         __CPROVER_same_object(p, vp_slab2) || __CPROVER_same_object(p, vp_slab3) ||
         __CPROVER_same_object(p, vp_slab4) || __CPROVER_same_object(p, vp_slab5) ||
         __CPROVER_same_object(p, vp_slab6) || __CPROVER_same_object(p, vp_slab7);
}

void *
ldb_realloc(void *ptr, size_t size) {
  int k;

  if (size > vp_alloc_max_request)
    vp_alloc_max_request = size;

  __CPROVER_assert(size <= VP_SLAB, "vp-model: ldb_realloc request larger than the slab");

  if (ptr != NULL) {
    __CPROVER_assert(vp_is_slab(ptr), "vp-model: ldb_realloc of a pointer not from ldb_realloc");
    return ptr;
  }

  k = vp_slab_used++;

  __CPROVER_assert(k < VP_NSLAB, "vp-model: more growing buffers than slabs");

  switch (k) {
    case 0: return vp_slab0;
    case 1: return vp_slab1;
    case 2: return vp_slab2;
    case 3: return vp_slab3;
    case 4: return vp_slab4;
    case 5: return vp_slab5;
    case 6: return vp_slab6;
    default: return vp_slab7;
  }
}

void
ldb_free(void *ptr) {
#ifdef VP_ALLOC_WRAPITERS
  if (ptr != NULL && __CPROVER_same_object(ptr, vp_wraps))
    return;
#endif
  /* static objects (slabs, vp_arriter slots) are not heap objects */
  if (ptr != NULL && !vp_is_slab(ptr) && __CPROVER_DYNAMIC_OBJECT(ptr))
    free(ptr);
}

#endif
