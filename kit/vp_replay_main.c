/* native entry point for counterexample replay (VP_REPLAY builds only) */
#include <stdio.h>
void harness(void);
int main(void) {
  harness();
  printf("VP-REPLAY: harness completed without violation\n");
  return 0;
}
