/* vp_names.h -- compact model of database file names (owner: C13; db_impl
 * monitor family).
 *
 * CBMC has no usable sprintf/strcmp, and the text of a file name is not what
 * the db_impl.c garbage collector / flush logic is about: it only looks at
 * the (type, number) pair that ldb_parse_filename() extracts and hands the
 * name back unchanged to ldb_join()/ldb_remove_file().  Names are therefore
 * modelled as fixed-size encoded buffers
 *
 *     byte 0      0              foreign / unparsable name
 *                 1 + type       name owned by the database (ldb_filetype_t)
 *                 | 0x80         ... joined with the database directory
 *     bytes 1..8  the file number, little endian (payload for foreign names)
 *     byte 9      spelling variant: two different names can parse to the same
 *                 (type, number) -- N.ldb / N.sst, LOG / LOG.old
 *     byte 10     tag chosen by the harness (e.g. the directory slot): makes
 *                 name buffers pairwise different by construction.  Not seen
 *                 by ldb_parse_filename.  (Two entries that differ only in
 *                 the tag cannot exist in a real directory; allowing them is
 *                 an over-approximation.)
 *     byte 11     0
 *
 * and kit/vp_names.c provides ldb_parse_filename() (filename.c) and
 * ldb_join() (util/strutil.c) over this encoding.  The REAL text
 * parser/formatter (filename.c: which strings are owned names, number
 * round trip) is decided separately by properties C18/C17; here it is a
 * trusted contract: "ldb_parse_filename succeeds exactly on owned names and
 * returns their type and number; CURRENT, LOCK, LOG have number 0".
 */
#ifndef VP_NAMES_H
#define VP_NAMES_H

#include <stddef.h>
#include <stdint.h>
#include "filename.h"

#define VP_NAME_LEN 12
#define VP_NAME_JOINED 0x80
#define VP_NAMES_MAX 8

/* directory every joined name must have been joined with (the harness sets it) */
extern const char *vp_names_dir;
/* number of ldb_join / ldb_parse_filename calls so far */
extern int vp_names_joins;
extern int vp_names_parses;

/* owned != 0: an owned name of the given type and number; owned == 0: a
   foreign name whose payload is `number' */
void vp_name_make(char *buf, int owned, ldb_filetype_t type, uint64_t number, int variant, int tag);

/* optional: tell the model where name buffers live (cheaper ldb_join) */
void vp_names_register(const char *name);

int vp_name_owned(const char *name);
int vp_name_joined(const char *name);
ldb_filetype_t vp_name_type(const char *name);
uint64_t vp_name_number(const char *name);

/* same base name (marker, number, variant, tag); the joined flag is ignored */
int vp_name_same(const char *a, const char *b);

#endif
