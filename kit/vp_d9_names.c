/* vp_d9_names.c -- see vp_d9_names.h.  Stubs of ldb_parse_filename,
 * ldb_lock_filename, ldb_current_filename (filename.c) and ldb_join
 * (util/strutil.c) over encoded names in several directories.  Plain C: used
 * unchanged by the native replay.  Owner: C20. */
#include "vp.h"
#include "vp_d9_names.h"

int vp9_join_fail[VP9_NDIRS][VP9_NTAGS];
int vp9_joins = 0;
int vp9_parses = 0;

void
vp9_dir_make(char *buf, int dirid) {
  buf[0] = VP9_DIRMARK;
  buf[1] = (char)dirid;
  buf[2] = 0;
}

int
vp9_is_dir(const char *p) {
  return p[0] == VP9_DIRMARK;
}

int
vp9_dir_id(const char *p) {
  return (int)p[1];
}

void
vp9_name_make(char *buf, int owned, ldb_filetype_t type, uint64_t number, int variant, int tag) {
  int k;
  if (owned && (type == LDB_FILE_CURRENT || type == LDB_FILE_LOCK || type == LDB_FILE_INFO))
    number = 0;
  buf[0] = (char)(owned ? 1 + (int)type : VP9_FOREIGN);
  buf[1] = VP9_NODIR;
  for (k = 0; k < 8; k++)
    buf[2 + k] = (char)((number >> (8 * k)) & 0xff);
  buf[10] = (char)(variant & 1);
  buf[11] = (char)(tag & (VP9_NTAGS - 1));
  buf[12] = 0;
}

int
vp9_owned(const char *name) {
  return name[0] != VP9_FOREIGN && name[0] != VP9_DIRMARK;
}

ldb_filetype_t
vp9_type(const char *name) {
  return (ldb_filetype_t)(name[0] - 1);
}

uint64_t
vp9_number(const char *name) {
  uint64_t n = 0;
  int k;
  for (k = 0; k < 8; k++)
    n |= (uint64_t)(unsigned char)name[2 + k] << (8 * k);
  return n;
}

int
vp9_in_dir(const char *name) {
  return (int)name[1];
}

int
vp9_tag(const char *name) {
  return (int)name[11];
}

int
vp9_same_base(const char *a, const char *b) {
  int k;
  if (a[0] != b[0])
    return 0;
  for (k = 2; k < 12; k++)
    if (a[k] != b[k])
      return 0;
  return 1;
}

int
vp9_is(const char *path, int dirid, ldb_filetype_t type) {
  return !vp9_is_dir(path) && vp9_owned(path) && vp9_in_dir(path) == dirid && vp9_type(path) == type;
}

/* filename.c */
int
ldb_parse_filename(ldb_filetype_t *type, uint64_t *num, const char *name) {
  vp9_parses++;
  VP_ASSERT(!vp9_is_dir(name) && vp9_in_dir(name) == VP9_NODIR,
            "ldb_parse_filename is given a listed base name, not a joined path or a directory");
  if (!vp9_owned(name))
    return 0;
  *type = vp9_type(name);
  *num = vp9_number(name);
  return 1;
}

static int
vp9_fixed(char *buf, size_t size, const char *dir, ldb_filetype_t type) {
  VP_ASSERT(size >= VP9_LEN, "vp-model: name buffer holds an encoded name");
  VP_ASSERT(vp9_is_dir(dir), "a fixed file name is built from a directory name");
  if (vp9_join_fail[vp9_dir_id(dir) & (VP9_NDIRS - 1)][VP9_TAG_FIXED])
    return 0;
  vp9_name_make(buf, 1, type, 0, 0, VP9_TAG_FIXED);
  buf[1] = (char)vp9_dir_id(dir);
  return 1;
}

int
ldb_lock_filename(char *buf, size_t size, const char *dbname) {
  return vp9_fixed(buf, size, dbname, LDB_FILE_LOCK);
}

int
ldb_current_filename(char *buf, size_t size, const char *dbname) {
  return vp9_fixed(buf, size, dbname, LDB_FILE_CURRENT);
}

/* util/strutil.c: z = x "/" y */
int
ldb_join(char *zp, size_t zn, const char *xp, const char *yp) {
  int k, dirid;
  vp9_joins++;
  VP_ASSERT(zn >= VP9_LEN, "vp-model: join buffer holds an encoded name");
  VP_ASSERT(vp9_is_dir(xp), "the left operand of ldb_join is a directory name");
  dirid = vp9_dir_id(xp);
  if (yp[0] == 'l' && yp[1] == 'o' && yp[2] == 's' && yp[3] == 't' && yp[4] == 0) {
    /* the repairer's "lost" sub-directory */
    VP_ASSERT(dirid == VP9_DB, "lost/ is looked up in the database directory");
    vp9_dir_make(zp, VP9_LOST);
    return 1;
  }
  VP_ASSERT(!vp9_is_dir(yp) && vp9_in_dir(yp) == VP9_NODIR, "a base name is joined once");
  if (vp9_join_fail[dirid & (VP9_NDIRS - 1)][vp9_tag(yp) & (VP9_NTAGS - 1)])
    return 0;
  for (k = 0; k < VP9_LEN; k++)
    zp[k] = yp[k];
  zp[1] = (char)dirid;
  return 1;
}
