/* vp_names.c -- see vp_names.h.  Stubs of ldb_parse_filename (filename.c) and
 * ldb_join (util/strutil.c) over encoded names.  Plain C: used unchanged by
 * the native replay. */
#include "vp.h"
#include "vp_names.h"

const char *vp_names_dir = 0;
static const char *vp_names_known[VP_NAMES_MAX];
static int vp_names_known_n = 0;

void
vp_names_register(const char *name) {
  VP_ASSERT(vp_names_known_n < VP_NAMES_MAX, "vp-model: name table full");
  vp_names_known[vp_names_known_n++] = name;
}

int vp_names_joins = 0;
int vp_names_parses = 0;

void
vp_name_make(char *buf, int owned, ldb_filetype_t type, uint64_t number, int variant, int tag) {
  int k;
  if (owned && (type == LDB_FILE_CURRENT || type == LDB_FILE_LOCK || type == LDB_FILE_INFO))
    number = 0;
  buf[0] = (char)(owned ? 1 + (int)type : 0);
  for (k = 0; k < 8; k++)
    buf[1 + k] = (char)((number >> (8 * k)) & 0xff);
  buf[9] = (char)(variant & 1);
  buf[10] = (char)(tag & 0x7f);
  buf[11] = 0;
}

int
vp_name_owned(const char *name) {
  return (name[0] & 0x7f) != 0;
}

int
vp_name_joined(const char *name) {
  return (name[0] & VP_NAME_JOINED) != 0;
}

ldb_filetype_t
vp_name_type(const char *name) {
  return (ldb_filetype_t)((name[0] & 0x7f) - 1);
}

uint64_t
vp_name_number(const char *name) {
  uint64_t n = 0;
  int k;
  for (k = 0; k < 8; k++)
    n |= (uint64_t)(unsigned char)name[1 + k] << (8 * k);
  return n;
}

int
vp_name_same(const char *a, const char *b) {
  int k;
  if (a[10] != b[10] || (a[0] & 0x7f) != (b[0] & 0x7f))
    return 0;
  for (k = 1; k < 10; k++)
    if (a[k] != b[k])
      return 0;
  return 1;
}

/* filename.c */
int
ldb_parse_filename(ldb_filetype_t *type, uint64_t *num, const char *name) {
  vp_names_parses++;
  VP_ASSERT(!vp_name_joined(name), "ldb_parse_filename is given a base name, not a joined path");
  if (!vp_name_owned(name))
    return 0;
  *type = vp_name_type(name);
  *num = vp_name_number(name);
  return 1;
}

/* util/strutil.c: z = x "/" y.  Assumed to fit (LDB_PATH_MAX): any database
   that could be opened has room for its own file names. */
int
ldb_join(char *zp, size_t zn, const char *xp, const char *yp) {
  int i, k, hit = 0;
  vp_names_joins++;
  VP_ASSERT(zn >= VP_NAME_LEN, "vp-model: join buffer holds an encoded name");
  VP_ASSERT(xp == vp_names_dir, "file names are joined with the database directory");
  VP_ASSERT(!vp_name_joined(yp), "a base name is joined once");
  /* a registered name buffer is recognised by its address, so that its bytes
     are read from a concrete object and not through a symbolic pointer */
  for (i = 0; i < VP_NAMES_MAX; i++) {
    if (!hit && i < vp_names_known_n && yp == vp_names_known[i]) {
      const char *src = vp_names_known[i];
      for (k = 0; k < VP_NAME_LEN; k++)
        zp[k] = src[k];
      hit = 1;
    }
  }
  if (vp_names_known_n == 0) {
    for (k = 0; k < VP_NAME_LEN; k++)
      zp[k] = yp[k];
  } else {
    VP_ASSERT(hit, "the base name that is joined is one of the listed name buffers");
  }
  zp[0] = (char)(zp[0] | VP_NAME_JOINED);
  return 1;
}
