/* vp_str.c -- byte-loop strcmp/strncmp/strrchr for CBMC (the libc string
 * functions have no usable bodies otherwise).  Loop names for --unwindset:
 * strcmp.0, strncmp.0, strrchr.0 (bound = longest string + 2).  CBMC only. */
#ifndef VP_REPLAY
#include <stddef.h>

int
strcmp(const char *a, const char *b) {
  size_t i = 0;
  for (;;) {
    unsigned char x = (unsigned char)a[i];
    unsigned char y = (unsigned char)b[i];
    if (x != y)
      return x < y ? -1 : 1;
    if (x == 0)
      return 0;
    i++;
  }
}

int
strncmp(const char *a, const char *b, size_t n) {
  size_t i;
  for (i = 0; i < n; i++) {
    unsigned char x = (unsigned char)a[i];
    unsigned char y = (unsigned char)b[i];
    if (x != y)
      return x < y ? -1 : 1;
    if (x == 0)
      return 0;
  }
  return 0;
}

char *
strrchr(const char *s, int c) {
  const char *r = NULL;
  size_t i = 0;
  for (;;) {
    if (s[i] == (char)c)
      r = s + i;
    if (s[i] == 0)
      return (char *)r;
    i++;
  }
}
#else
typedef int vp_str_unused;
#endif
