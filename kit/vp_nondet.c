/* vp_nondet.c -- symbolic input sources (CBMC) / counterexample feed (replay) */
#include <stdlib.h>
#include <stdio.h>
#include <string.h>
#include "vp.h"

#ifdef VP_REPLAY

static unsigned long long vp_vals[65536];
static size_t vp_nvals = 0, vp_pos = 0;
static int vp_loaded = 0;

static void
vp_load(void) {
  const char *path = getenv("VP_REPLAY_VALUES");
  FILE *f;
  unsigned long long v;
  vp_loaded = 1;
  if (path == NULL)
    return;
  f = fopen(path, "r");
  if (f == NULL)
    return;
  while (vp_nvals < 65536 && fscanf(f, "%llu", &v) == 1)
    vp_vals[vp_nvals++] = v;
  fclose(f);
}

static unsigned long long
vp_next(void) {
  if (!vp_loaded)
    vp_load();
  if (vp_pos < vp_nvals)
    return vp_vals[vp_pos++];
  vp_pos++;
  return 0;
}

void
vp_fail(const char *msg, const char *file, int line) {
  printf("VP-REPLAY: assertion violated: %s (%s:%d)\n", msg, file, line);
  fflush(stdout);
  exit(42);
}

void
vp_assume_fail(const char *file, int line) {
  printf("VP-REPLAY: assumption not met at %s:%d (values consumed %lu of %lu)\n",
         file, line, (unsigned long)vp_pos, (unsigned long)vp_nvals);
  fflush(stdout);
  exit(77);
}

void
vp_note(const char *msg) {
  printf("VP-REPLAY: %s\n", msg);
}

uint8_t vp_u8(void) { return (uint8_t)vp_next(); }
uint16_t vp_u16(void) { return (uint16_t)vp_next(); }
uint32_t vp_u32(void) { return (uint32_t)vp_next(); }
uint64_t vp_u64(void) { return (uint64_t)vp_next(); }
int vp_int(void) { return (int)(long long)vp_next(); }
int vp_bool(void) { return vp_next() != 0; }
size_t vp_size(void) { return (size_t)vp_next(); }

uint8_t *
vp_input(size_t n) {
  uint8_t *p = (uint8_t *)malloc(n ? n : 1);
  if (p == NULL)
    abort();
  if (n == 0) {
    /* keep a valid but zero-length object: ASan flags any access */
    free(p);
    p = (uint8_t *)malloc(0);
  }
  return p;
}

#else /* CBMC */

unsigned char nondet_uchar(void);
unsigned short nondet_ushort(void);
unsigned int nondet_uint(void);
unsigned long nondet_ulong(void);
int nondet_int(void);

uint8_t vp_u8(void) { uint8_t vpv = nondet_uchar(); return vpv; }
uint16_t vp_u16(void) { uint16_t vpv = nondet_ushort(); return vpv; }
uint32_t vp_u32(void) { uint32_t vpv = nondet_uint(); return vpv; }
uint64_t vp_u64(void) { uint64_t vpv = nondet_ulong(); return vpv; }
int vp_int(void) { int vpv = nondet_int(); return vpv; }
int vp_bool(void) { int vpv = nondet_int(); __CPROVER_assume(vpv == 0 || vpv == 1); return vpv; }
size_t vp_size(void) { size_t vpv = nondet_ulong(); return vpv; }

uint8_t *
vp_input(size_t n) {
  uint8_t *p = (uint8_t *)malloc(n);
  __CPROVER_assume(p != NULL);
  return p;
}

#endif

void
vp_fill(uint8_t *p, size_t n) {
  size_t i;
  for (i = 0; i < n; i++)
    p[i] = vp_u8();
}
