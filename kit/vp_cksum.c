/* vp_cksum.c -- abstract streaming checksum F (DESIGN R6), linked INSTEAD of
 * the real util/crc32c.c by every harness that is not about CRC itself.
 *
 *   ldb_crc32c_extend(z, p, n): for each byte b: z = rotl32(z, 5) ^ b ^ K
 *   ldb_crc32c_value(p, n) is the header macro extend(0, p, n)
 *   ldb_crc32c_init(): nothing to select, returns 0
 *
 * It has the only two features of CRC-32C the framing code relies on: it is a
 * streaming fold (extend(extend(z,A),B) == extend(z,A||B)) and every input
 * byte influences the result.  Sound for assertions of the form
 * "bytes == reference(F)" / "accepted => stored == mask(F(range))": the real
 * code reaches the checksum only through ldb_crc32c_extend, and C15.k shows
 * that the real function is the streaming CRC-32C on its bounded domain.
 * The harness' reference must call vp_cksum_extend (same fold, own loop).
 *
 * Loop names for --unwindset: ldb_crc32c_extend.0, vp_cksum_extend.0
 * (bound = longest checksummed range + 1).
 */
#include <stddef.h>
#include <stdint.h>

#define VP_CKSUM_K 0x9e3779b9u

uint32_t
vp_cksum_step(uint32_t z, uint8_t b) {
  return ((z << 5) | (z >> 27)) ^ (uint32_t)b ^ VP_CKSUM_K;
}

/* reference-side entry (identical fold, separate loop so the harness'
 * reference does not share an unwinding bound with the code under test) */
uint32_t
vp_cksum_extend(uint32_t z, const uint8_t *xp, size_t xn) {
  size_t i;
  for (i = 0; i < xn; i++)
    z = vp_cksum_step(z, xp[i]);
  return z;
}

uint32_t
ldb_crc32c_extend(uint32_t z, const uint8_t *xp, size_t xn) {
  size_t i;
  for (i = 0; i < xn; i++)
    z = vp_cksum_step(z, xp[i]);
  return z;
}

int
ldb_crc32c_init(void) {
  return 0;
}
