/* vp_d9_names.h -- encoded path names for the lifecycle harnesses (property
 * C20: harness/dbimpl/destroy.c, harness/dbimpl/backup.c).  Owner: C20.
 *
 * Same idea as kit/vp_names.h (which see), extended to SEVERAL directories:
 * ldb_destroy works on <db> and <db>/lost, ldb_backup/ldb_copy on a source
 * and a backup directory, and what matters is WHICH directory a path lies in.
 * The text of a name is not what these functions are about: they only look at
 * the (type, number) pair ldb_parse_filename() extracts, and hand names to
 * ldb_join() / the env layer unchanged.
 *
 * directory name   { 'D', dir id, 0 }                      (strlen == 2)
 * file name        byte 0      VP9_FOREIGN  a name ldb_parse_filename rejects
 *                              1 + type     an owned name (ldb_filetype_t)
 *                  byte 1      0            base name (as listed)
 *                              dir id       joined with that directory
 *                  bytes 2..9  file number, little endian (payload if foreign)
 *                  byte 10     spelling variant (N.ldb / N.sst, LOG / LOG.old)
 *                  byte 11     tag chosen by the harness (the directory slot):
 *                              makes listed names pairwise different
 *                  byte 12     0
 *
 * kit/vp_d9_names.c implements, over this encoding, the part of filename.c
 * and util/strutil.c the lifecycle functions call: ldb_parse_filename,
 * ldb_join, ldb_lock_filename, ldb_current_filename.  The REAL text
 * parser/formatter is decided by C17/C18; here its contract is trusted:
 * "ldb_parse_filename succeeds exactly on owned names and returns their type
 * and number; <dir>/LOCK and <dir>/CURRENT are the owned names of type
 * LOCK / CURRENT with number 0 joined with <dir>".
 *
 * Name construction can fail (a listed name may be up to 255 bytes, the
 * buffers are LDB_PATH_MAX): vp9_join_fail[dir][tag] != 0 makes ldb_join of
 * the name with that tag to that directory return 0 (deterministic per name,
 * as in reality).
 */
#ifndef VP_D9_NAMES_H
#define VP_D9_NAMES_H

#include <stddef.h>
#include <stdint.h>
#include "filename.h"

#define VP9_LEN 13
#define VP9_DIRMARK 'D'
#define VP9_FOREIGN 0x20
#define VP9_NODIR 0
#define VP9_DB 1      /* the database (source) directory */
#define VP9_BAK 2     /* the backup / copy target directory */
#define VP9_LOST 3    /* <db>/lost */
#define VP9_NDIRS 4
#define VP9_NTAGS 16
#define VP9_TAG_FIXED 15   /* tag of names made by ldb_lock_filename / ldb_current_filename */

extern int vp9_join_fail[VP9_NDIRS][VP9_NTAGS];
extern int vp9_joins, vp9_parses;

void vp9_dir_make(char *buf, int dirid);
int vp9_is_dir(const char *p);
int vp9_dir_id(const char *p);           /* of a directory name */

void vp9_name_make(char *buf, int owned, ldb_filetype_t type, uint64_t number, int variant, int tag);
int vp9_owned(const char *name);
ldb_filetype_t vp9_type(const char *name);
uint64_t vp9_number(const char *name);
int vp9_in_dir(const char *name);        /* directory a file name is joined with, VP9_NODIR for a base name */
int vp9_tag(const char *name);
/* same base name (kind, number, variant, tag); the directory is ignored */
int vp9_same_base(const char *a, const char *b);
/* path is the owned name of the given type joined with directory dirid */
int vp9_is(const char *path, int dirid, ldb_filetype_t type);

#endif
