/* vp_buffer_c17.c -- models of three trivial util/buffer.c wrappers, installed
 * with goto-instrument --replace-calls (CBMC only; the native replay runs the
 * real functions).  Owner: C17/C14 builder.
 *
 * The real wrappers compute the appended length as a pointer difference
 * (`ldb_varint64_write(zp, x) - zp`), which CBMC's symbolic executor never
 * folds to a constant: every later offset of the record then becomes symbolic
 * even when all field values are concrete.  The models compute the same length
 * with the real ldb_varint32_size / ldb_varint64_size (value based, folds for
 * concrete values) and assert ("vp-model:") that it equals the pointer
 * difference of the real writer, so a disagreement is reported, never hidden.
 *
 *   replace_calls=["ldb_buffer_varint32:vp_buffer_varint32",
 *                  "ldb_buffer_varint64:vp_buffer_varint64",
 *                  "ldb_buffer_export:vp_buffer_export"]
 */
#include <stddef.h>
#include <stdint.h>
#include "util/buffer.h"
#include "util/coding.h"

#ifdef VP_REPLAY
#  define VP_MODEL_ASSERT(c, msg) ((void)0)
#else
#  define VP_MODEL_ASSERT(c, msg) __CPROVER_assert((c), msg)
#endif

void
vp_buffer_varint32(ldb_buffer_t *z, uint32_t x) {
  uint8_t *zp = ldb_buffer_expand(z, 5);
  size_t n = ldb_varint32_size(x);
  uint8_t *end = ldb_varint32_write(zp, x);
  VP_MODEL_ASSERT(end == zp + n, "vp-model: varint32 bytes written == ldb_varint32_size");
  (void)end;
  z->size += n;
}

void
vp_buffer_varint64(ldb_buffer_t *z, uint64_t x) {
  uint8_t *zp = ldb_buffer_expand(z, 10);
  size_t n = ldb_varint64_size(x);
  uint8_t *end = ldb_varint64_write(zp, x);
  VP_MODEL_ASSERT(end == zp + n, "vp-model: varint64 bytes written == ldb_varint64_size");
  (void)end;
  z->size += n;
}

void
vp_buffer_export(ldb_buffer_t *z, const ldb_buffer_t *x) {
  uint8_t *zp = ldb_buffer_expand(z, 5 + x->size);
  size_t n = ldb_varint32_size(x->size) + x->size;
  uint8_t *end = ldb_buffer_write(zp, x);
  VP_MODEL_ASSERT(end == zp + n, "vp-model: length-prefixed bytes written == size");
  (void)end;
  z->size += n;
}
