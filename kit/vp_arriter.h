/* vp_arriter.h -- child iterator model: a real ldb_iter_t (real ldb_itertbl_t
 * v-table) over a small sorted array of (key bytes, value bytes) entries.
 *
 * Used as the layer *below* the iterator unit under test (merger, two-level,
 * db-iter, seek helpers, compaction loops).  Plain C89: compiled by goto-cc
 * for CBMC and by gcc for the native replay.
 *
 * Usage:
 *   static vp_arr_t A;                       (static => zero initialised)
 *   vp_arr_init(&A, VP_ARR_BYTEWISE);        order used by seek()
 *   A.kcap = 1; A.vcap = 1;                  optional: exact object sizes
 *   vp_arr_add(&A, kbytes, klen, vbytes, vlen);   append entries; the caller
 *       guarantees (VP_ASSUME) that they are strictly increasing in the
 *       chosen order -- vp_arr_sorted(&A) returns that condition;
 *   A.status = LDB_OK or an injected error returned by status();
 *   it = vp_arriter_create(&A, cmp);         heap ldb_iter_t + heap cursor, so
 *       the owner may ldb_iter_destroy() it; any number of iterators may be
 *       created over the same array (A.live counts the ones not yet cleared).
 *
 * Link: kit/vp_arriter.c + real table/iterator.c (ldb_iter_create/destroy) +
 * kit/vp_nondet.c (vp_input) + an allocator model (kit/vp_alloc.c, or
 * kit/vp_alloc_c07.c when the unit grows ldb_buffer_t's or vp_arriter_create_in
 * is used).
 *
 * Function-pointer restriction targets (DESIGN R8), one per v-table slot:
 *   vp_arr_clear vp_arr_valid vp_arr_first vp_arr_last vp_arr_seek
 *   vp_arr_next vp_arr_prev vp_arr_key vp_arr_value vp_arr_status
 * and for the two cleanup call sites in ldb_iter_clear (`->func`):
 *   vp_arr_noop_cleanup   (otherwise they fan out to every address-taken
 *   two-pointer function, including the unit under test: recursion)
 * obl/C07.py derives the whole list from the goto binary (AutoObl).
 *
 * Cost notes (measured with CBMC 6.11 on the C07 harnesses):
 *  - keep every vp_arr_t a SEPARATE static object (not an array of vp_arr_t
 *    indexed by a symbolic child number) and never write to it after set-up:
 *    a write through "one of several arrays" makes CBMC copy the whole object;
 *  - keys/values are separate exact-size heap objects (see kcap/vcap): with
 *    in-struct storage every byte read through a slice was a byte_extract at
 *    a symbolic offset from the whole struct (merger 2x2, 3 fixed ops:
 *    9.0 M clauses in-struct, 1.8 M with separate objects);
 *  - key()/value() pick the entry with an if-chain over concrete indices;
 *    `p = a->key2d[pos]` (decay of a 2-D array row at a symbolic index) is
 *    mis-modelled by CBMC 6.11 and gave false counterexamples.
 *
 * Contract checks: next/prev/key/value on an invalid cursor are reported
 * with VP_ASSERT (the unit above violated "REQUIRES: valid()").
 */
#ifndef VP_ARRITER_H
#define VP_ARRITER_H

#include <stddef.h>
#include <stdint.h>
#include "table/iterator.h"

#ifndef VP_ARR_MAXN
#define VP_ARR_MAXN 6   /* entries per array */
#endif
#ifndef VP_ARR_MAXK
#define VP_ARR_MAXK 12  /* key bytes (user key <= 4 + 8 byte tag) */
#endif
#ifndef VP_ARR_MAXV
#define VP_ARR_MAXV 2   /* value bytes */
#endif

/* order used by seek() (and by vp_arr_sorted) */
#define VP_ARR_BYTEWISE 0  /* memcmp order, shorter prefix first */
#define VP_ARR_INTERNAL 1  /* LevelDB internal keys: user key bytewise
                              ascending, then 64-bit little-endian tag
                              (seq << 8 | type) descending */

typedef struct vp_arr_s {
  int n;                                   /* number of entries */
  int order;                               /* VP_ARR_BYTEWISE / _INTERNAL */
  int status;                              /* returned by status() */
  size_t klen[VP_ARR_MAXN];
  size_t vlen[VP_ARR_MAXN];
  /* every key and every value is its OWN small heap object (VP_ARR_MAXK /
     VP_ARR_MAXV bytes, from vp_input): a read through a slice the unit holds
     is then a byte extract from that small object, not from this struct */
  uint8_t *key[VP_ARR_MAXN];
  uint8_t *val[VP_ARR_MAXN];
  /* size of the objects allocated by vp_arr_add (set after vp_arr_init when
     all keys/values are shorter; exact sizes are cheapest and make CBMC/ASan
     flag any read past the end of a key) */
  size_t kcap;                             /* default VP_ARR_MAXK */
  size_t vcap;                             /* default VP_ARR_MAXV */
  /* ghost counters (monitors for the harness); written only by
     create/clear -- nothing in the hot path writes to this object */
  int live;                                /* iterators created - cleared */
  int created;                             /* iterators ever created */
} vp_arr_t;

/* the iter->ptr of a vp_arriter */
typedef struct vp_arrcur_s {
  vp_arr_t *arr;
  int pos;                                 /* valid iff 0 <= pos < arr->n */
  int moves;                               /* first/last/seek/next/prev calls */
  int *in_use;                             /* slot flag to release in clear(), or NULL */
} vp_arrcur_t;

void vp_arr_init(vp_arr_t *a, int order);
void vp_arr_add(vp_arr_t *a, const uint8_t *k, size_t kn,
                const uint8_t *v, size_t vn);
/* builds the 8-byte internal-key tag after the user key */
void vp_arr_add_internal(vp_arr_t *a, const uint8_t *uk, size_t ukn,
                         uint64_t seq, int type,
                         const uint8_t *v, size_t vn);
/* three-way comparison in the given order (the model's own, no lcdb code) */
int vp_arr_compare(int order, const uint8_t *x, size_t xn,
                   const uint8_t *y, size_t yn);
/* 1 iff entries are strictly increasing in a->order */
int vp_arr_sorted(const vp_arr_t *a);

ldb_iter_t *vp_arriter_create(vp_arr_t *a,
                              const struct ldb_comparator_s *cmp);

/* For iterators that the unit creates and destroys REPEATEDLY (the block
 * function of the two-level iterator): under CBMC the iterator lives in the
 * caller's static slot instead of two fresh heap objects per call site and
 * loop unwinding (which gives the unit's data_iter pointer a value set of
 * dozens of objects; symex of a 3-block query did not finish in 5 min).
 * The slot must not be in use (a->live == 0 for the array it serves is the
 * usual discipline: one slot per array); reuse while in use trips a
 * "vp-model:" assertion.  Needs an ldb_free that ignores non-heap objects
 * (kit/vp_alloc_c07.c).  Under VP_REPLAY this is plain vp_arriter_create. */
typedef struct vp_arrslot_s {
  ldb_iter_t it;
  vp_arrcur_t cur;
  int in_use;
} vp_arrslot_t;

ldb_iter_t *vp_arriter_create_in(vp_arr_t *a,
                                 const struct ldb_comparator_s *cmp,
                                 vp_arrslot_t *slot);
/* optional model of ldb_iter_destroy for vp_arriters, see vp_arriter.c */
void vp_arr_iter_destroy(ldb_iter_t *iter);

/* current index of a vp_arriter (or -1), for monitors */
int vp_arriter_pos(const ldb_iter_t *it);
/* put the cursor somewhere (p outside 0..n-1 => invalid) */
void vp_arriter_set_pos(ldb_iter_t *it, int p);

/* v-table slots (exact ldb_itertbl_t signatures) */
void vp_arr_clear(void *p);
int vp_arr_valid(const void *p);
void vp_arr_first(void *p);
void vp_arr_last(void *p);
void vp_arr_seek(void *p, const ldb_slice_t *target);
void vp_arr_next(void *p);
void vp_arr_prev(void *p);
ldb_slice_t vp_arr_key(const void *p);
ldb_slice_t vp_arr_value(const void *p);
int vp_arr_status(const void *p);
void vp_arr_noop_cleanup(void *arg1, void *arg2);

extern const ldb_itertbl_t vp_arr_table;

#endif /* VP_ARRITER_H */
