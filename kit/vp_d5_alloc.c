/* vp_d5_alloc.c -- allocator model for the version_set.c harnesses
 * (harness/vset/*.c): vectors and buffers that GROW UNDER SYMBOLIC CONDITIONS
 * (ldb_vector_push inside `if (file overlaps)`), which with kit/vp_alloc.c
 * would make every later realloc size symbolic (measured:
 * ldb_version_get_overlapping_inputs over 2 files 180 s / 440 MB; with this
 * model 3 s).
 *
 * ldb_malloc(n)        -> malloc + assume non-null (n = sizeof(struct)).
 * ldb_realloc(p, n)    -> byte buffers: first request = one fresh object of
 *                         VP_SLAB bytes, later requests return the same
 *                         pointer (grow in place).  n > VP_SLAB is a
 *                         "vp-model:" assertion (check reported broken, never
 *                         truncated).  Overflows inside the slab beyond the
 *                         requested size are not seen by CBMC (the native
 *                         replay uses libc realloc under ASan and sees them).
 * vp_realloc_ptrs(p,n) -> ldb_vector_t items (via kit/vp_vector_inc.h): a
 *                         TYPED void*[VP_VEC_CAP] object, grown in place,
 *                         fresh slots NULL.
 * ldb_free(p)          -> free.
 * Do not link together with another allocator model.
 */
#include <stdlib.h>
#include <string.h>
#include "vp.h"

#ifdef VP_REPLAY

void *ldb_malloc(size_t size) {
  void *p = malloc(size);
  if (p == NULL) abort();
  return p;
}
void *ldb_realloc(void *ptr, size_t size) {
  ptr = realloc(ptr, size);
  if (ptr == NULL) abort();
  return ptr;
}
void *vp_realloc_ptrs(void *ptr, size_t size) { return ldb_realloc(ptr, size); }
void ldb_free(void *ptr) { if (ptr != NULL) free(ptr); }

#else

#ifndef VP_SLAB
#define VP_SLAB 16
#endif
#ifndef VP_VEC_CAP
#define VP_VEC_CAP 8
#endif

void *
ldb_malloc(size_t size) {
  void *p = malloc(size);
  __CPROVER_assume(p != NULL);
  return p;
}

void *
ldb_realloc(void *ptr, size_t size) {
  unsigned char *p;
  __CPROVER_assert(size <= VP_SLAB, "vp-model: ldb_realloc request fits the slab (VP_SLAB)");
  if (ptr != NULL)
    return ptr;
  p = (unsigned char *)malloc(VP_SLAB);
  __CPROVER_assume(p != NULL);
  return p;
}

void *
vp_realloc_ptrs(void *ptr, size_t size) {
  void **np;
  size_t i;
  __CPROVER_assert(size <= VP_VEC_CAP * sizeof(void *), "vp-model: vector request fits the typed slab (VP_VEC_CAP)");
  if (ptr != NULL)
    return ptr;
  np = (void **)malloc(VP_VEC_CAP * sizeof(void *));
  __CPROVER_assume(np != NULL);
  for (i = 0; i < VP_VEC_CAP; i++)
    np[i] = NULL;
  return np;
}

void
ldb_free(void *ptr) {
  if (ptr != NULL)
    free(ptr);
}

#endif
