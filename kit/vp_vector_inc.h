/* vp_vector_inc.h -- pulls the REAL util/vector.c into the harness TU with
 * its one allocator call routed to vp_realloc_ptrs (kit/vp_alloc_c17.c): a
 * typed array of pointers instead of a byte object.  List "util/vector.c" in
 * include_real=[...] and do not list it in real=[...]. */
#ifndef VP_VECTOR_INC_H
#define VP_VECTOR_INC_H
#include <stddef.h>
void *vp_realloc_ptrs(void *ptr, size_t size);
#define ldb_realloc vp_realloc_ptrs
#include "util/vector.c"
#undef ldb_realloc
#endif
