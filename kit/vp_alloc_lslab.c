/* vp_alloc_lslab.c -- allocator model of DESIGN R2 (slab variant), an
 * alternative to vp_alloc.c for harnesses in which buffer sizes become
 * symbolic after path merges (log reader): no loop, no copy.
 *
 * ldb_malloc  -> malloc + assume non-null (allocation failure is abort() in
 *                lcdb: out of scope).
 * ldb_realloc -> only ever used by lcdb to grow ldb_buffer_t/ldb_array_t
 *                storage.  Every distinct buffer gets one static slab of
 *                VP_SLAB_SIZE bytes on its first allocation; growing returns
 *                the same slab (contents therefore preserved, as realloc
 *                guarantees); a request beyond the slab is a "vp-model:"
 *                failure (reported as a broken check, never truncated).
 * ldb_free    -> free() for malloc objects, slab release is a no-op.
 * Consequence (part of the claim): a write beyond the *requested* size but
 * inside the slab is not seen by CBMC (the ASan replay uses the libc
 * allocator and would see it).
 */
#include <stdlib.h>
#include <string.h>
#include "vp.h"

#ifdef VP_REPLAY

void *ldb_malloc(size_t size) {
  void *p = malloc(size);
  if (p == NULL) abort();
  return p;
}
void *ldb_realloc(void *ptr, size_t size) {
  ptr = realloc(ptr, size);
  if (ptr == NULL) abort();
  return ptr;
}
void ldb_free(void *ptr) { if (ptr != NULL) free(ptr); }

#else

#ifndef VP_SLAB_SIZE
#define VP_SLAB_SIZE 256
#endif
#define VP_SLAB_COUNT 4

static uint8_t vp_slab0[VP_SLAB_SIZE];
static uint8_t vp_slab1[VP_SLAB_SIZE];
static uint8_t vp_slab2[VP_SLAB_SIZE];
static uint8_t vp_slab3[VP_SLAB_SIZE];
static int vp_slab_next = 0;

void *
ldb_malloc(size_t size) {
  void *p = malloc(size);
  __CPROVER_assume(p != NULL);
  return p;
}

void *
ldb_realloc(void *ptr, size_t size) {
  __CPROVER_assert(size <= VP_SLAB_SIZE, "vp-model: ldb_realloc request larger than the slab");
  if (ptr != NULL) {
    __CPROVER_assert(__CPROVER_same_object(ptr, vp_slab0) || __CPROVER_same_object(ptr, vp_slab1) ||
                     __CPROVER_same_object(ptr, vp_slab2) || __CPROVER_same_object(ptr, vp_slab3),
                     "vp-model: ldb_realloc of a pointer not from ldb_realloc");
    __CPROVER_assert(__CPROVER_POINTER_OFFSET(ptr) == 0, "vp-model: ldb_realloc of an interior pointer");
    return ptr;
  }
  __CPROVER_assert(vp_slab_next < VP_SLAB_COUNT, "vp-model: out of slabs");
  switch (vp_slab_next++) {
    case 0: return vp_slab0;
    case 1: return vp_slab1;
    case 2: return vp_slab2;
    default: return vp_slab3;
  }
}

void
ldb_free(void *ptr) {
  if (ptr == NULL)
    return;
  if (__CPROVER_same_object(ptr, vp_slab0) || __CPROVER_same_object(ptr, vp_slab1) ||
      __CPROVER_same_object(ptr, vp_slab2) || __CPROVER_same_object(ptr, vp_slab3))
    return;
  free(ptr);
}

#endif
